import SecpZkp.Proofs.Musig
import SecpZkp.Proofs.GroupLawProved
/-
  Property C12: MuSig2 computes BIP-327 and honest sessions always yield valid signatures.

  All statements are closed: the group law is discharged with `groupLaw` (`Proofs/GroupLawProved.lean`), so no
  theorem below carries a hypothesis about the curve.  Hash values (`KeyAgg coefficient`, `MuSig/noncecoef`,
  `BIP0340/challenge`) are opaque: every statement holds whatever the hashes evaluate to.

  Honest signers are described by their secrets: secret key `d` (`0 < d < n`, public key `d•G`, keypair object
  `(be32 d, d•G)`) and secret nonce `(k1, k2)` (`k1, k2 < n`, as `nonce_gen` produces them: secnonce object
  `secnonceSave k1 k2 (d•G)`, pubnonce object `pubnonceSave (k1•G) (k2•G)`; see `nonce_gen_shape`).

  Vocabulary defined in `Proofs/Musig.lean`:
  * `Signer` (`d`, `k1`, `k2`) with `.pk`, `.keypair`, `.secnonce`, `.pubnonce`, `.Honest`;
  * `TweakStep` / `applyTweaks c steps`: run `pubkey_ec_tweak_add` / `pubkey_xonly_tweak_add` calls on a cache, `none`
    if one of them does not return 1;  `aggCache ps`: the cache `pubkey_agg` writes for the key list `ps`;
  * `CacheInv Q0 c`: the BIP-327 invariant `c.pk = g•Q0 + tacc•G`;
  * `finalNoncePoint L c msg adaptor`: `R1' + b•R2` for the honest signers' nonces (`R1 = Σ k1_i•G`,
    `R2 = Σ k2_i•G`, `R1' = R1 (+ T)`, `b` = the "MuSig/noncecoef" hash), before the `∞ ↦ G` substitution;
  * `signScalar`, `verifyTmp`: the scalar `partial_sign` writes / the point `partial_sig_verify` tests.

  Contents: 1 `partial_sig_verifies`; 2 `key_agg_spec`, `tweak_invariant`, `tweak_step_spec`;
  3 `musig_complete`, `musig_complete_adaptor`, `adapt_extract_inverse`, `extract_adapt_inverse`, `partial_sig_sum`;
  4 `final_nonce_inf_uses_G`; 5 `nonce_counter_injective_input`.
  Not covered here: "a partial signature fails for any other key, nonce or session" (the converse direction).
-/
namespace SecpZkp
namespace C12
open SecpZkp.Algebra SecpZkp.Musig

/-! ## 1. Every partial signature verifies for its own signer -/

/-- **C12.1 (partial signatures verify).**  For every key-aggregation cache object `c` (so: every signer list,
    with duplicates, in any order, and every sequence of tweaks already applied) and every session object `sess`
    (so: every message, every aggregate nonce including components at infinity and the case where the final
    nonce was replaced by `G`, adaptor present or absent): if signer `d` with secret nonce `(k1, k2)` calls
    `partial_sign` and it returns 1, then `partial_sig_verify` of the partial signature it wrote, against the
    signer's own public nonce and public key and the same cache and session, returns 1 (no callback).
    Nothing is assumed about how `c` and `sess` were produced. -/
theorem partial_sig_verifies (d k1 k2 : Nat) (hd0 : 0 < d) (hdN : d < N) (hk1 : k1 < N) (hk2 : k2 < N)
    (c : KeyaggCache) (sess : Session)
    (hsign : (partialSign true (some (secnonceSave k1 k2 (Pt.mulG d))) (some ⟨Bytes.be32 d, Pt.mulG d⟩)
      (some c) (some sess)).ret = 1) :
    partialSigVerify
      (partialSign true (some (secnonceSave k1 k2 (Pt.mulG d))) (some ⟨Bytes.be32 d, Pt.mulG d⟩)
        (some c) (some sess)).out.sig
      (some (pubnonceSave (Pt.mulG k1) (Pt.mulG k2))) (some (Pt.mulG d)) (some c) (some sess) = ⟨1, (), 0⟩ := by
  have : HasGroupLaw := ⟨groupLaw⟩
  obtain ⟨hc, hs, hk⟩ := partialSign_ret_one hsign
  rw [Nat.mod_eq_of_lt hk1, Nat.mod_eq_of_lt hk2] at hk
  have hcore := verifyTmp_signScalar c sess hdN hk1 hk2
  obtain ⟨x, y, hpk⟩ := mulG_eq_aff hd0 hdN
  rw [hpk] at hcore ⊢
  rw [partialSign_eq hd0 hdN hk1 hk2 hk hc hs, partialSigVerify_eq hc hs, hcore]
  rfl

/-- **C12.1, as asked: the session is the one `nonce_process` produced.**  Same statement with the session
    object written by `nonce_process` for any aggregate nonce object, message, cache and optional adaptor. -/
theorem partial_sig_verifies_session (d k1 k2 : Nat) (hd0 : 0 < d) (hdN : d < N) (hk1 : k1 < N) (hk2 : k2 < N)
    (c : KeyaggCache) (an : Option Aggnonce) (msg : Option Bytes) (adaptor : Option Pt) (sess : Session)
    (_hsess : (nonceProcess true an msg (some c) adaptor).out = some sess)
    (hsign : (partialSign true (some (secnonceSave k1 k2 (Pt.mulG d))) (some ⟨Bytes.be32 d, Pt.mulG d⟩)
      (some c) (some sess)).ret = 1) :
    (partialSigVerify
      (partialSign true (some (secnonceSave k1 k2 (Pt.mulG d))) (some ⟨Bytes.be32 d, Pt.mulG d⟩)
        (some c) (some sess)).out.sig
      (some (pubnonceSave (Pt.mulG k1) (Pt.mulG k2))) (some (Pt.mulG d)) (some c) (some sess)).ret = 1 := by
  rw [partial_sig_verifies d k1 k2 hd0 hdN hk1 hk2 c sess hsign]

/-- For an honest signer `partial_sign` does return 1 as soon as the cache and session objects load and the two
    nonce scalars are not both zero (so the hypothesis `hsign` above is satisfiable for every such input). -/
theorem partial_sign_succeeds (d k1 k2 : Nat) (hd0 : 0 < d) (hdN : d < N) (hk1 : k1 < N) (hk2 : k2 < N)
    (hk : ¬ (k1 = 0 ∧ k2 = 0)) (c : KeyaggCache) (sess : Session) (hc : c.magic = keyaggCacheMagic)
    (hs : sess.magic = sessionMagic) :
    (partialSign true (some (secnonceSave k1 k2 (Pt.mulG d))) (some ⟨Bytes.be32 d, Pt.mulG d⟩)
      (some c) (some sess)).ret = 1 := by
  have : HasGroupLaw := ⟨groupLaw⟩
  obtain ⟨x, y, hpk⟩ := mulG_eq_aff hd0 hdN
  rw [hpk, partialSign_eq hd0 hdN hk1 hk2 hk hc hs]

/-! ### Non-vacuity -/

/-- a small cache object: aggregate key `5•G` with parity accumulator 1 and tweak accumulator 9, second key `2•G` -/
def exCache : KeyaggCache := ⟨keyaggCacheMagic, Pt.mulG 5, Pt.mulG 2, Bytes.zeros 32, 1, 9⟩

/-- a session object with odd final-nonce parity -/
def exSession : Session := ⟨sessionMagic, 1, Bytes.be32 Pt.Gx, 11, 13, 0⟩

/-- The hypothesis of `partial_sig_verifies` holds for signer key 3 (whose key is not the second key, so its
    coefficient is a hash) with nonce `(5, 7)` … -/
example : (partialSign true (some (secnonceSave 5 7 (Pt.mulG 3))) (some ⟨Bytes.be32 3, Pt.mulG 3⟩)
    (some exCache) (some exSession)).ret = 1 := by decide +kernel

/-- … and for the signer whose key IS the second key (coefficient 1), with a session from `nonce_process` whose
    aggregate nonce is `(∞, ∞)` (the final nonce is then `G`). -/
example : ∃ sess, (nonceProcess true (some (aggnonceSave .inf .inf)) (some [1, 2, 3]) (some exCache) none).out = some sess ∧
    (partialSign true (some (secnonceSave 0 7 (Pt.mulG 2))) (some ⟨Bytes.be32 2, Pt.mulG 2⟩)
      (some exCache) (some sess)).ret = 1 :=
  ⟨_, rfl, partial_sign_succeeds 2 0 7 (by decide) (by decide +kernel) (by decide +kernel) (by decide +kernel)
    (by decide) _ _ rfl rfl⟩

/-- The conclusion evaluated directly by the kernel on the first instance (no group law involved). -/
example : (partialSigVerify
    (partialSign true (some (secnonceSave 5 7 (Pt.mulG 3))) (some ⟨Bytes.be32 3, Pt.mulG 3⟩)
      (some exCache) (some exSession)).out.sig
    (some (pubnonceSave (Pt.mulG 5) (Pt.mulG 7))) (some (Pt.mulG 3)) (some exCache) (some exSession)).ret = 1 := by
  decide +kernel

/-! ## 2. Key aggregation and the tweak invariant -/

/-- **C12.2 (key aggregation is BIP-327 `KeyAgg`).**  For every non-empty list `ps` of valid public-key objects
    (duplicates allowed, any order; no NULL entries): `pubkey_agg` returns 1 without callback; with
    `L = pksHash ps` (the "KeyAgg list" hash of the serialized keys) and `second = secondKey ps` (the first key
    different from the first entry, `∞` if all are equal), the key stored in the cache is
    `Q = Σ a_i • P_i` with `a_i = 1` if `P_i = second` and `a_i = H_agg(L ‖ P_i) mod n` otherwise
    (`keyAggCoeffSpec`, which is what the model's own coefficient function `keyaggCoefInternal` computes on these
    keys); the cache starts with parity accumulator 0 and tweak accumulator 0; the x-only output is `Q` with
    even y; and `pubkey_get` returns `Q`. -/
theorem key_agg_spec (ps : List Pt) (hne : ps ≠ []) (hv : ∀ p ∈ ps, p ≠ .inf) :
    let L := pksHash ps
    let second := secondKey ps
    let Q := Pt.sum (ps.map fun p => Pt.mul (keyAggCoeffSpec L second p) p)
    pubkeyAgg true true (ps.map some)
      = ⟨1, ⟨some (Keys.evenY Q).1, some ⟨keyaggCacheMagic, Q, second, L, 0, 0⟩⟩, 0⟩ ∧
    (∀ p ∈ ps, keyaggCoefInternal L p second = keyAggCoeffSpec L second p) ∧
    pubkeyGet (some ⟨keyaggCacheMagic, Q, second, L, 0, 0⟩) = ⟨1, Q, 0⟩ := by
  intro L second Q
  have hQ : aggPoint L second ps = Q := by
    rw [aggPoint_eq_sum]
    simp only [Q]
    congr 1
    apply List.map_congr_left
    intro p hp
    rw [keyaggCoefInternal_eq _ _ (hv p hp)]
  refine ⟨?_, fun p hp => keyaggCoefInternal_eq _ _ (hv p hp), rfl⟩
  rw [pubkeyAgg_eq true true hne hv]
  simp only [if_true, aggCache, hQ, L, second]

/-- **C12.2 (tweak invariant).**  For every list of valid keys and every sequence of plain / x-only tweak calls that
    all return 1, starting from the cache written by `pubkey_agg`: the cache still loads, its key-list hash and
    second key are unchanged, and it satisfies the BIP-327 invariant `Q = g•Q0 + t•G`, where `Q0 = Σ a_i•P_i` is
    the untweaked aggregate point, `g = −1` iff the parity accumulator is 1, and `t` is the tweak accumulator.
    After at least one tweak `Q ≠ ∞`.  (Proved by induction over the tweak list; the step is `tweak_step_spec`.) -/
theorem tweak_invariant (ps : List Pt) (hv : ∀ p ∈ ps, p.valid = true) (tws : List TweakStep) (c : KeyaggCache)
    (h : applyTweaks (aggCache ps) tws = some c) :
    let Q0 := aggPoint (pksHash ps) (secondKey ps) ps
    c.magic = keyaggCacheMagic ∧ c.secondPk = secondKey ps ∧ c.pksHash = pksHash ps ∧
    c.pk = Pt.add (if c.parityAcc % 2 = 1 then Pt.neg Q0 else Q0) (Pt.mulG (c.tweak % N)) ∧
    (tws ≠ [] → c.pk ≠ .inf) := by
  have : HasGroupLaw := ⟨groupLaw⟩
  obtain ⟨h1, h2, h3, h4⟩ := cacheInv_applyTweaks (aggPoint_valid _ _ _ hv) tws (cacheInv_aggCache _) h
  exact ⟨h1.1, h2, h3, h1.2, h4⟩

/-- **C12.2 (one tweak call).**  A call of `pubkey_ec_tweak_add` (`xonly = false`) or `pubkey_xonly_tweak_add`
    (`xonly = true`) on any cache object that returns 1: the tweak is below `n`; the new key is `Q' = Q + t•G`,
    with `Q` first negated when `xonly` and `Q` has odd y; `Q' ≠ ∞`; it is also what is written to the output key;
    and the invariant `Q = g•Q0 + tacc•G` is preserved for every reference point `Q0`. -/
theorem tweak_step_spec (xonly wantOut : Bool) (c : KeyaggCache) (tw : Bytes)
    (h : (tweakAddInternal xonly wantOut (some c) (some tw)).ret = 1) :
    ∃ c', tweakAddInternal xonly wantOut (some c) (some tw) = ⟨1, ⟨if wantOut then some c'.pk else none, some c'⟩, 0⟩ ∧
      Bytes.toNat tw < N ∧ c'.pk ≠ .inf ∧
      c'.pk = Pt.add (if xonly && Fe.isOdd c.pk.yOf then Pt.neg c.pk else c.pk) (Pt.mulG (Bytes.toNat tw)) ∧
      (∀ Q0 : Pt, Q0.valid = true → CacheInv Q0 c → CacheInv Q0 c') := by
  have : HasGroupLaw := ⟨groupLaw⟩
  obtain ⟨_, h2, h3, h4⟩ := tweakAddInternal_ret_one h
  refine ⟨_, h4, h2, h3, ?_, fun Q0 hQ0 hinv => cacheInv_tweaked hQ0 hinv xonly (Nat.mod_lt _ N_pos)⟩
  rw [Nat.mod_eq_of_lt h2]
  rfl

/-- Non-vacuity of `key_agg_spec`: a list with a repeated first key (so the second key is the second entry). -/
example : [Pt.mulG 6, Pt.mulG 7, Pt.mulG 6] ≠ [] ∧ ∀ p ∈ [Pt.mulG 6, Pt.mulG 7, Pt.mulG 6], p ≠ Pt.inf := by
  decide +kernel

example : secondKey [Pt.mulG 6, Pt.mulG 6, Pt.mulG 7, Pt.mulG 8] = Pt.mulG 7 := by decide +kernel

/-- the coefficient of the second key is 1, whatever the hash -/
example (L : Bytes) (q : Pt) : keyAggCoeffSpec L q q = 1 := by simp [keyAggCoeffSpec]

/-! ### A concrete two-signer session (used for the non-vacuity of 2 and 3) -/

/-- two signers: secret keys 6 and 7, secret nonces (5, 7) and (6, 8) -/
def exSigners : List Signer := [⟨6, 5, 7⟩, ⟨7, 6, 8⟩]

/-- one x-only tweak by 9 (the untweaked aggregate key has odd y, so this flips the parity accumulator) -/
def exTweaks : List TweakStep := [⟨true, true, Bytes.be32 9⟩]

/-- the cache after key aggregation and the tweak (computed by the model; checked in `exC_run`) -/
def exC : KeyaggCache :=
  { magic := keyaggCacheMagic,
    pk := Pt.aff 72640471273400913449699923557686391378898710437658702299278331437773806955990
                 2009687685280391207012840771629086935548471574591065615003532626113679302963,
    secondPk := Pt.aff 41948375291644419605210209193538855353224492619856392092318293986323063962044
                       48361766907851246668144012348516735800090617714386977531302791340517493990618,
    pksHash := [210, 190, 86, 61, 247, 90, 211, 62, 123, 119, 153, 253, 49, 185, 64, 158, 127, 44, 90, 63, 36, 204,
      87, 145, 192, 222, 245, 121, 188, 51, 166, 71],
    parityAcc := 1,
    tweak := 9 }

theorem exSigners_honest : ∀ s ∈ exSigners, s.Honest := by decide +kernel

/-- The hypothesis `h` of `tweak_invariant` / `htw` of `musig_complete`: the kernel runs `pubkey_agg` and
    `pubkey_xonly_tweak_add` of the model. -/
theorem exC_run : applyTweaks (aggCache (exSigners.map Signer.pk)) exTweaks = some exC := by decide +kernel

/-- Non-vacuity of `tweak_invariant`: the example cache has parity accumulator 1 and tweak accumulator 9, so it
    states `Q = −Q0 + 9•G`. -/
example : exC.pk = Pt.add (if exC.parityAcc % 2 = 1
      then Pt.neg (aggPoint (pksHash (exSigners.map Signer.pk)) (secondKey (exSigners.map Signer.pk)) (exSigners.map Signer.pk))
      else aggPoint (pksHash (exSigners.map Signer.pk)) (secondKey (exSigners.map Signer.pk)) (exSigners.map Signer.pk))
    (Pt.mulG (exC.tweak % N)) :=
  (tweak_invariant (exSigners.map Signer.pk)
    (by decide +kernel) exTweaks exC exC_run).2.2.2.1

/-! ## 3. Honest sessions yield valid signatures -/

/-- **Honest nonces have the assumed shape.**  Whenever `nonce_gen` returns 1 for public key object `pk`, the secret
    nonce object it wrote is `secnonceSave k1 k2 pk` and the public nonce object is `pubnonceSave (k1•G) (k2•G)` for
    some `k1, k2 < n` — exactly the objects `Signer.secnonce` / `Signer.pubnonce` used below (the same holds for
    `nonce_gen_counter`, which calls the same internal function: `nonceGenInternal_shape`). -/
theorem nonce_gen_shape (secrand : Bytes) (seckey : Option Bytes) (pk : Pt) (msg32 : Option Bytes)
    (cache : Option KeyaggCache) (extra32 : Option Bytes)
    (h : (nonceGen true true (some secrand) seckey (some pk) msg32 cache extra32).ret = 1) :
    ∃ k1 k2, k1 < N ∧ k2 < N ∧
      (nonceGen true true (some secrand) seckey (some pk) msg32 cache extra32).out.secnonce
        = some (secnonceSave k1 k2 pk) ∧
      (nonceGen true true (some secrand) seckey (some pk) msg32 cache extra32).out.pubnonce
        = some (pubnonceSave (Pt.mulG k1) (Pt.mulG k2)) := by
  unfold nonceGen at h ⊢
  by_cases hz : Bytes.isZero secrand = true
  · simp [hz] at h
  · simp only [Bool.not_true, Bool.false_eq_true, if_false, hz] at h ⊢
    obtain ⟨k1, k2, p, h1, h2, hp, _, hs, hpn⟩ := nonceGenInternal_shape h
    cases hp
    exact ⟨k1, k2, h1, h2, by rw [hs]; rfl, hpn⟩

/-- **C12.3 (the n-signer sum).**  For every cache and session object and every list of signers, the partial-signature
    scalars written by `partial_sign` add up, in the scalar field, to
    `Σ s_i = e·g'·Σ a_i·d_i + σ·(Σ k1_i + b·Σ k2_i)`, where `e`, `b` are the session's challenge and nonce coefficient,
    `a_i` the key-aggregation coefficients, `g' = −1` iff the parity of the aggregate key and the parity accumulator
    disagree, and `σ = −1` iff the final nonce has odd y.  (`partial_sig_agg` adds the session's tweak term
    `±e·tacc`: `partialSigAgg_eq`.) -/
theorem partial_sig_sum (c : KeyaggCache) (sess : Session) (L : List Signer) :
    (L.map fun s => ((signScalar c sess s.pk s.d s.k1 s.k2 : Nat) : ZMod N)).sum =
      (sess.challenge : ZMod N) * sgn (Fe.isOdd c.pk.yOf != (c.parityAcc % 2 == 1)) *
          (L.map fun s => ((keyaggCoefInternal c.pksHash s.pk c.secondPk : Nat) : ZMod N) * (s.d : ZMod N)).sum +
        sgn (decide (sess.finNonceParity ≠ 0)) *
          ((L.map fun s => (s.k1 : ZMod N)).sum + (sess.noncecoef : ZMod N) * (L.map fun s => (s.k2 : ZMod N)).sum) :=
  sum_signScalar c sess L

/-- Non-vacuity / reading aid: for a one-signer list the sum is the signer's own scalar. -/
example (c : KeyaggCache) (sess : Session) (s : Signer) :
    ([s].map fun s => ((signScalar c sess s.pk s.d s.k1 s.k2 : Nat) : ZMod N)).sum
      = ((signScalar c sess s.pk s.d s.k1 s.k2 : Nat) : ZMod N) := by simp

/-- **C12.3 (honest sessions yield valid BIP-340 signatures), without adaptor.**  For every non-empty list of honest
    signers (any number, duplicates allowed, any order), every sequence of successful tweak calls applied to the
    cache that `pubkey_agg` wrote for their keys, and every message: if the (tweaked) aggregate key is not `∞` (for
    an untweaked cache BIP-327 excludes this only with overwhelming probability; after a tweak it is automatic,
    see `tweak_invariant`) and the combined nonce `R = R1 + b•R2` is not `∞` (the case in which BIP-327 substitutes
    `G` and does not promise validity), then every step of the protocol returns 1 — `pubkey_agg`, `nonce_agg` of
    the signers' public nonces, `nonce_process`, each signer's `partial_sign` with its own secret nonce,
    `partial_sig_agg` — and the 64-byte result is accepted by `schnorrsig_verify` for the message under the x-only
    (tweaked) aggregate key. -/
theorem musig_complete (L : List Signer) (hne : L ≠ []) (hh : ∀ s ∈ L, s.Honest) (tws : List TweakStep)
    (c : KeyaggCache) (htw : applyTweaks (aggCache (L.map Signer.pk)) tws = some c) (msg : Bytes)
    (hQ : c.pk ≠ .inf) (hR : finalNoncePoint L c msg none ≠ .inf) :
    pubkeyAgg true true (L.map fun s => some s.pk)
      = ⟨1, ⟨some (Keys.evenY (aggCache (L.map Signer.pk)).pk).1, some (aggCache (L.map Signer.pk))⟩, 0⟩ ∧
    ∃ an sess sig,
      nonceAgg true (L.map fun s => some s.pubnonce) = ⟨1, some an, 0⟩ ∧
      nonceProcess true (some an) (some msg) (some c) none = ⟨1, some sess, 0⟩ ∧
      (∀ s ∈ L, (partialSign true (some s.secnonce) (some s.keypair) (some c) (some sess)).ret = 1) ∧
      partialSigAgg true (some sess)
        (L.map fun s => (partialSign true (some s.secnonce) (some s.keypair) (some c) (some sess)).out.sig)
          = ⟨1, some sig, 0⟩ ∧
      (Schnorr.verify sig msg (Keys.evenY c.pk).1).ret = 1 := by
  have : HasGroupLaw := ⟨groupLaw⟩
  have hpks : (L.map fun s => some s.pk) = (L.map Signer.pk).map some := by rw [List.map_map]; rfl
  have hpkne : ∀ p ∈ L.map Signer.pk, p ≠ .inf := by
    intro p hp
    obtain ⟨s, hs, rfl⟩ := List.mem_map.1 hp
    exact Signer.pk_ne_inf (hh s hs)
  refine ⟨by rw [hpks, pubkeyAgg_eq true true (by simpa using hne) hpkne]; rfl, ?_⟩
  obtain ⟨hinv, _⟩ := cacheInv_of_run hh htw
  cases hcpk : c.pk with
  | inf => exact absurd hcpk hQ
  | aff qx qy =>
  cases hRp : finalNoncePoint L c msg none with
  | inf => exact absurd hRp hR
  | aff rx ry =>
  have hadp : withAdaptor (aggR1 L) none = Pt.add (aggR1 L) (Pt.mulG 0) := by
    show aggR1 L = Pt.add (aggR1 L) (Pt.mul 0 Pt.G)
    rw [gl.mul_zero, add_inf_right]
  obtain ⟨hRv, f1, f2, r, hrN, hagg, hver⟩ := honest_presig hne hh hinv hcpk msg N_pos none hadp hRp
  have hsess : (honestSession L c msg none).magic = sessionMagic := rfl
  refine ⟨_, honestSession L c msg none, _, nonceAgg_eq hne, ?_, ?_, hagg, ?_⟩
  · exact nonceProcess_eq hinv.1 rfl msg (by simp)
  · intro s hs
    rw [partialSign_signer (hh s hs) hinv.1 hsess]
  · have h0 : Sc.add r (if Fe.isOdd ry then Sc.neg 0 else 0) = r := by
      simp [Sc.neg_zero, SecpZkp.Sc.add, Nat.mod_eq_of_lt hrN]
    rw [h0, C02.evenY_fst_aff] at hver
    rw [C02.evenY_fst_aff]
    exact verify_of_point hRv hrN hver

/-- **C12.3 (adapt then extract).**  For every pre-signature whose scalar part is below `n`, every adaptor secret
    `t < n` and parity 0 or 1: `adapt` returns 1 and `extract_adaptor` applied to the adapted signature and the
    pre-signature returns 1 and exactly `t`. -/
theorem adapt_extract_inverse (pre : Bytes) (t : Nat) (par : Int) (ht : t < N) (hlen : 32 ≤ pre.length)
    (hs : Bytes.toNat (pre.drop 32) < N) (hp : par = 0 ∨ par = 1) :
    ∃ sig, adapt true (some pre) (some (Bytes.be32 t)) par = ⟨1, some sig, 0⟩ ∧
      extractAdaptor true (some sig) (some pre) par = ⟨1, some (Bytes.be32 t), 0⟩ := by
  refine ⟨_, adapt_eq pre ht hs hp, ?_⟩
  have hl : (pre.take 32).length = 32 := by rw [List.length_take]; omega
  have hd : (pre.take 32 ++ Bytes.be32 (Sc.add (Bytes.toNat (pre.drop 32)) (if par ≠ 0 then Sc.neg t else t))).drop 32
      = Bytes.be32 (Sc.add (Bytes.toNat (pre.drop 32)) (if par ≠ 0 then Sc.neg t else t)) := List.drop_left' hl
  have hsig : Bytes.toNat ((pre.take 32 ++ Bytes.be32 (Sc.add (Bytes.toNat (pre.drop 32))
      (if par ≠ 0 then Sc.neg t else t))).drop 32) = Sc.add (Bytes.toNat (pre.drop 32)) (if par ≠ 0 then Sc.neg t else t) := by
    rw [hd, toNat_be32 (lt_trans (Sc.add_lt _ _) N_lt_pow)]
  rw [extractAdaptor_eq _ pre (by rw [hsig]; exact Sc.add_lt _ _) hs hp, hsig, extract_adapt _ t ht hp]

/-- **C12.3 (extract then adapt).**  Conversely, for 64-byte `sig` and `pre` with the same nonce part and scalar
    parts below `n`: adapting `pre` with the secret extracted from `(sig, pre)` gives back `sig`. -/
theorem extract_adapt_inverse (sig pre : Bytes) (par : Int) (hls : sig.length = 64)
    (htake : sig.take 32 = pre.take 32) (hsig : Bytes.toNat (sig.drop 32) < N)
    (hs : Bytes.toNat (pre.drop 32) < N) (hp : par = 0 ∨ par = 1) :
    ∃ t32, extractAdaptor true (some sig) (some pre) par = ⟨1, some t32, 0⟩ ∧
      adapt true (some pre) (some t32) par = ⟨1, some sig, 0⟩ := by
  refine ⟨_, extractAdaptor_eq sig pre hsig hs hp, ?_⟩
  have hlt : (if par = 0 then Sc.neg (Sc.add (Sc.neg (Bytes.toNat (sig.drop 32))) (Bytes.toNat (pre.drop 32)))
      else Sc.add (Sc.neg (Bytes.toNat (sig.drop 32))) (Bytes.toNat (pre.drop 32))) < N := by
    split
    · exact Sc.neg_lt _
    · exact Sc.add_lt _ _
  rw [adapt_eq pre hlt hs hp, adapt_extract _ _ hsig hp, ← htake,
    Bytes.be32_toNat _ (by rw [List.length_drop, hls]), List.take_append_drop]

/-- **C12.3 with an adaptor `T = t•G`.**  Same hypotheses as `musig_complete`, the combined nonce being
    `R = R1 + T + b•R2 ≠ ∞`: all protocol steps return 1, the aggregate `pre` of the partial signatures is a
    pre-signature; `adapt` with the secret `t` and the session's nonce parity returns 1 and a signature that
    `schnorrsig_verify` accepts under the x-only (tweaked) aggregate key; and `extract_adaptor` recovers `t` from
    that signature and the pre-signature. -/
theorem musig_complete_adaptor (L : List Signer) (hne : L ≠ []) (hh : ∀ s ∈ L, s.Honest) (tws : List TweakStep)
    (c : KeyaggCache) (htw : applyTweaks (aggCache (L.map Signer.pk)) tws = some c) (msg : Bytes)
    (t : Nat) (ht0 : 0 < t) (htN : t < N)
    (hQ : c.pk ≠ .inf) (hR : finalNoncePoint L c msg (some (Pt.mulG t)) ≠ .inf) :
    ∃ an sess pre par sig,
      nonceAgg true (L.map fun s => some s.pubnonce) = ⟨1, some an, 0⟩ ∧
      nonceProcess true (some an) (some msg) (some c) (some (Pt.mulG t)) = ⟨1, some sess, 0⟩ ∧
      (∀ s ∈ L, (partialSign true (some s.secnonce) (some s.keypair) (some c) (some sess)).ret = 1) ∧
      partialSigAgg true (some sess)
        (L.map fun s => (partialSign true (some s.secnonce) (some s.keypair) (some c) (some sess)).out.sig)
          = ⟨1, some pre, 0⟩ ∧
      nonceParity true (some sess) = ⟨1, some par, 0⟩ ∧
      adapt true (some pre) (some (Bytes.be32 t)) par = ⟨1, some sig, 0⟩ ∧
      (Schnorr.verify sig msg (Keys.evenY c.pk).1).ret = 1 ∧
      extractAdaptor true (some sig) (some pre) par = ⟨1, some (Bytes.be32 t), 0⟩ := by
  have : HasGroupLaw := ⟨groupLaw⟩
  obtain ⟨hinv, _⟩ := cacheInv_of_run hh htw
  cases hcpk : c.pk with
  | inf => exact absurd hcpk hQ
  | aff qx qy =>
  cases hRp : finalNoncePoint L c msg (some (Pt.mulG t)) with
  | inf => exact absurd hRp hR
  | aff rx ry =>
  have hTne : Pt.mulG t ≠ .inf := mulG_ne_inf ht0 htN
  obtain ⟨hRv, f1, f2, r, hrN, hagg, hver⟩ := honest_presig hne hh hinv hcpk msg htN (some (Pt.mulG t)) rfl hRp
  have hsess : (honestSession L c msg (some (Pt.mulG t))).magic = sessionMagic := rfl
  have hpar : ((if Fe.isOdd ry then 1 else 0 : Nat) : Int) = 0 ∨ ((if Fe.isOdd ry then 1 else 0 : Nat) : Int) = 1 := by
    split <;> simp
  have hdrop : Bytes.toNat ((Bytes.be32 rx ++ Bytes.be32 r).drop 32) = r := by
    rw [drop_be32_append, toNat_be32 (lt_trans hrN N_lt_pow)]
  have hite : (if ((if Fe.isOdd ry then 1 else 0 : Nat) : Int) ≠ 0 then Sc.neg t else t)
      = if Fe.isOdd ry then Sc.neg t else t := by
    cases Fe.isOdd ry <;> simp
  have hadapt := adapt_eq (Bytes.be32 rx ++ Bytes.be32 r) htN (by rw [hdrop]; exact hrN) hpar
  rw [hdrop, take_be32_append, hite] at hadapt
  refine ⟨_, honestSession L c msg (some (Pt.mulG t)), _, _, _, nonceAgg_eq hne, ?_, ?_, hagg, ?_, hadapt, ?_, ?_⟩
  · exact nonceProcess_eq hinv.1 rfl msg (by simpa using hTne)
  · intro s hs
    rw [partialSign_signer (hh s hs) hinv.1 hsess]
  · simp only [nonceParity, sessionLoad_of_magic hsess, f2]
    rfl
  · rw [C02.evenY_fst_aff] at hver ⊢
    exact verify_of_point hRv (Sc.add_lt _ _) hver
  · have hsig : Bytes.toNat ((Bytes.be32 rx ++ Bytes.be32 (Sc.add r (if Fe.isOdd ry then Sc.neg t else t))).drop 32)
        = Sc.add r (if Fe.isOdd ry then Sc.neg t else t) := by
      rw [drop_be32_append, toNat_be32 (lt_trans (Sc.add_lt _ _) N_lt_pow)]
    rw [extractAdaptor_eq _ _ (by rw [hsig]; exact Sc.add_lt _ _) (by rw [hdrop]; exact hrN) hpar, hsig, hdrop,
      ← hite, extract_adapt r t htN hpar]

/-! ### Non-vacuity of `musig_complete` / `musig_complete_adaptor` -/

/-- the nonce coefficient `b` of the example session (the kernel evaluates the "MuSig/noncecoef" hash) -/
theorem exB : nonceCoef (withAdaptor (aggR1 exSigners) none) (aggR2 exSigners) (Bytes.be32 exC.pk.xOf) [1, 2, 3]
    = 55848034303689351666350126879056232946337104470957770303694624325930502201868 := by decide +kernel

/-- the hypothesis `hR` of `musig_complete` for the example session -/
theorem exC_nonce : finalNoncePoint exSigners exC [1, 2, 3] none ≠ Pt.inf := by
  unfold finalNoncePoint; rw [exB]; decide +kernel

/-- The theorem applies to the concrete session: there is a signature accepted under the tweaked aggregate key. -/
example : ∃ sig, (Schnorr.verify sig [1, 2, 3] (Keys.evenY exC.pk).1).ret = 1 := by
  obtain ⟨_, _, _, sig, _, _, _, _, h⟩ :=
    musig_complete exSigners (by decide) exSigners_honest exTweaks exC exC_run [1, 2, 3] (by decide) exC_nonce
  exact ⟨sig, h⟩

/-- the nonce coefficient with the adaptor point `11•G` -/
theorem exB_adaptor :
    nonceCoef (withAdaptor (aggR1 exSigners) (some (Pt.mulG 11))) (aggR2 exSigners) (Bytes.be32 exC.pk.xOf) [1, 2, 3]
      = 40165119893675053200647719200157038737598763189584175929748996638516631429715 := by decide +kernel

theorem exC_nonce_adaptor : finalNoncePoint exSigners exC [1, 2, 3] (some (Pt.mulG 11)) ≠ Pt.inf := by
  unfold finalNoncePoint; rw [exB_adaptor]; decide +kernel

example : ∃ pre sig par, (Schnorr.verify sig [1, 2, 3] (Keys.evenY exC.pk).1).ret = 1 ∧
    extractAdaptor true (some sig) (some pre) par = ⟨1, some (Bytes.be32 11), 0⟩ := by
  obtain ⟨_, _, pre, par, sig, _, _, _, _, _, _, h1, h2⟩ :=
    musig_complete_adaptor exSigners (by decide) exSigners_honest exTweaks exC exC_run [1, 2, 3] 11 (by decide)
      (by decide +kernel) (by decide) exC_nonce_adaptor
  exact ⟨pre, sig, par, h1, h2⟩

/-- Non-vacuity of `adapt_extract_inverse`: a 64-byte pre-signature with scalar part 5, secret 7, parity 1. -/
example : ∃ sig, adapt true (some (Bytes.be32 1 ++ Bytes.be32 5)) (some (Bytes.be32 7)) 1 = ⟨1, some sig, 0⟩ ∧
    extractAdaptor true (some sig) (some (Bytes.be32 1 ++ Bytes.be32 5)) 1 = ⟨1, some (Bytes.be32 7), 0⟩ :=
  adapt_extract_inverse _ 7 1 (by decide +kernel) (by decide +kernel) (by decide +kernel) (Or.inr rfl)

/-! ## 4. The final nonce is `G` when `R1 + b•R2` is the point at infinity -/

/-- **C12.4 (∞ ↦ G).**  For every loadable cache and aggregate-nonce object, every message and every adaptor
    that is absent or a valid key object: `nonce_process` returns 1, and if the combined nonce
    `R1' + b•R2` (`R1' = R1` or `R1 + T`, `b` the nonce coefficient hash) is the point at infinity then the session
    holds the x-coordinate of the generator `G` as final nonce, with parity 0; otherwise it holds the
    x-coordinate and y-parity of `R1' + b•R2` itself. -/
theorem final_nonce_inf_uses_G (c : KeyaggCache) (hc : c.magic = keyaggCacheMagic) (an : Aggnonce)
    (han : an.magic = aggnonceMagic) (msg : Bytes) (adaptor : Option Pt) (ha : adaptor ≠ some .inf) :
    ∃ sess, nonceProcess true (some an) (some msg) (some c) adaptor = ⟨1, some sess, 0⟩ ∧
      let r1 := withAdaptor an.r1 adaptor
      let b := nonceCoef r1 an.r2 (Bytes.be32 c.pk.xOf) msg
      let R := Pt.add (Pt.mul b an.r2) r1
      sess.noncecoef = b ∧
      (R = .inf → sess.finNonce = Bytes.be32 Pt.Gx ∧ sess.finNonceParity = 0) ∧
      (R ≠ .inf → sess.finNonce = Bytes.be32 R.xOf ∧ sess.finNonceParity = if Fe.isOdd R.yOf then 1 else 0) := by
  refine ⟨_, nonceProcess_eq hc han msg ha, ?_, ?_, ?_⟩
  · exact Nat.mod_eq_of_lt (Nat.mod_lt _ N_pos)
  · intro hR
    have hfin := finalNonce_of_inf (r1a := withAdaptor an.r1 adaptor) (r2 := an.r2)
      (aggPk32 := Bytes.be32 c.pk.xOf) (msg := msg) hR
    simp only [sessionOf, sessionSave, hfin]
    exact ⟨rfl, by decide⟩
  · intro hR
    have hfin := finalNonce_of_ne_inf (r1a := withAdaptor an.r1 adaptor) (r2 := an.r2)
      (aggPk32 := Bytes.be32 c.pk.xOf) (msg := msg) hR
    simp only [sessionOf, sessionSave, hfin]
    refine ⟨rfl, ?_⟩
    unfold effectiveNonce
    split <;> rfl

/-- Non-vacuity: an aggregate nonce `(∞, ∞)` satisfies the first premise whatever the hash is … -/
example (b : Nat) : Pt.add (Pt.mul b .inf) (withAdaptor .inf none) = .inf := rfl

/-- … and `(G, ∞)` the second. -/
example (b : Nat) : Pt.add (Pt.mul b .inf) (withAdaptor Pt.G none) ≠ .inf := by
  show Pt.G ≠ Pt.inf; decide

/-! ## 5. The nonce counter enters the hash input with all 64 bits -/

/-- **C12.5 (counter input).**  `nonce_gen_counter` derives the nonce from the 32-byte string
    `counterInput cnt` = 8-byte big-endian counter ‖ 24 zero bytes (`nonceGenCounter_eq`: that string is what is
    handed to `nonce_gen_internal`; `nonceFunction_secrand`: it is exactly what is fed to the "MuSig/aux" hash).
    Two different counters below `2^64` give different strings; in particular counters that differ only above
    bit 31 do.  No claim is made about the hash. -/
theorem nonce_counter_injective_input (c1 c2 : Nat) (h1 : c1 < 2 ^ 64) (h2 : c2 < 2 ^ 64) (hne : c1 ≠ c2) :
    counterInput c1 ≠ counterInput c2 ∧
    ∀ (wantPub : Bool) (kp : Keys.Keypair) (msg32 : Option Bytes) (cache : Option KeyaggCache) (extra32 : Option Bytes)
      (cnt : Nat),
      nonceGenCounter true wantPub cnt (some kp) msg32 cache extra32 =
        let r := nonceGenInternal wantPub (counterInput cnt) (some kp.sk) (some kp.pk) msg32 cache extra32
        ⟨r.ret, ⟨some (r.out.secnonce.getD Secnonce.zero), r.out.pubnonce, none⟩, r.illegal⟩ :=
  ⟨fun h => hne (counterInput_injective h1 h2 h), fun _ _ _ _ _ _ => rfl⟩

/-- The counter is recoverable from the input string (all 64 bits are present). -/
theorem nonce_counter_recoverable (cnt : Nat) (h : cnt < 2 ^ 64) :
    Bytes.toNat ((counterInput cnt).take 8) = cnt ∧ (counterInput cnt).length = 32 :=
  ⟨by rw [counterInput_take, Nat.mod_eq_of_lt h], counterInput_length cnt⟩

/-- Non-vacuity: the pair of counters from the property text, `2^32` apart. -/
example : counterInput 1 ≠ counterInput (1 + 2 ^ 32) :=
  (nonce_counter_injective_input 1 (1 + 2 ^ 32) (by decide) (by decide) (by decide)).1

end C12
end SecpZkp
