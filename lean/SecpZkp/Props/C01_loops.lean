import SecpZkp.Gen.Guards
/-
  Property C01 (part "loops", translator mode G): loop facts regenerated from clang's AST of the current sources.
  ECDSA signing asks the nonce function again (counter + 1) until the nonce gives a valid signature.
  The model runs these loops with fuel and the property theorems are about runs in which the loop finished; that the C loop
  itself has no other way out than a successful candidate (no iteration bound in its condition) is what is pinned here.
-/
namespace SecpZkp.Props.C01_loops
open SecpZkp.Gen

/-- every `while` loop of the function is unconditional (`while (1)`): it is left only from inside, by a found result -/
def retryOnly (l : List LoopFact) : Prop := (∀ f ∈ l, f.kind = LoopKind.while → f.unconditional = true) ∧ (∃ f ∈ l, f.kind = LoopKind.while)

instance (l : List LoopFact) : Decidable (retryOnly l) := by unfold retryOnly; infer_instance

/-- `secp256k1_ecdsa_sign_inner`: the nonce retry loop (counter passed to the nonce function) has no bound of its own:
    signing with a valid key ends only with a signature or with a failing nonce callback -/
theorem sign_retry_unbounded : retryOnly Loops.ecdsa_sign_inner := by decide

example : ¬ retryOnly [⟨.while, false⟩] := by decide

end SecpZkp.Props.C01_loops
