import SecpZkp.Gen.P_schnorr
import SecpZkp.Model.Schnorr
import SecpZkp.Proofs.AlgIRLemmas2
import SecpZkp.Proofs.Algebra
import SecpZkp.Proofs.BytesBasic
import SecpZkp.Proofs.GroupLawProved
/-
  Property C02 (part "ir"): the REGENERATED `secp256k1_schnorrsig_verify` (`Gen/P_schnorr.lean`, translator mode P,
  from `src/modules/schnorrsig/main_impl.h`) computes exactly the hand-written model `Schnorr.verify` of
  `Model/Schnorr.lean`: the return value and the number of illegal-argument callbacks.

  Hypothesis on the key object: `pk.valid = true` (the all-zero object `Pt.inf` counts as valid: for it both sides
  return 0 with one callback).  It is needed because the program reads coordinates through `secp256k1_fe_get_b32` /
  `normalize` / `fe_equal`, i.e. REDUCED mod p (`x % P`), where the model uses the raw coordinates of `pk` and of
  `R = s·G - e·P`: the two agree when the coordinates are canonical (`< p`), which for `R` follows from the validity of
  `pk` (`valid_add`, `valid_mul`).  "Even y" of the x-only key is NOT needed: neither side looks at the parity of
  `pk.y`.  Side conditions of the IR: the state binds no FIELD variables called `pk.x`, `r.x`, `r.y` (these names
  denote coordinates of the point variables `pk`, `r`), and the first signature half has 32 bytes (so that it is
  `sig64.take 32`).
-/
namespace SecpZkp
namespace C02ir
open MiniC AlgIR SecpZkp.Algebra

theorem feGetL_pkx (fe : List (String × Nat)) (pt : List (String × Pt)) (hfe : fe.find? (·.1 == "pk.x") = none) :
    feGetL fe pt "pk.x" = Pt.xOf (lookup Pt.inf pt "pk") :=
  feGetL_coord_x fe pt "pk.x" "pk" hfe (by rw [endsWith_iff]; decide) (by decide)
theorem feGetL_rx (fe : List (String × Nat)) (pt : List (String × Pt)) (hfe : fe.find? (·.1 == "r.x") = none) :
    feGetL fe pt "r.x" = Pt.xOf (lookup Pt.inf pt "r") :=
  feGetL_coord_x fe pt "r.x" "r" hfe (by rw [endsWith_iff]; decide) (by decide)
theorem feGetL_ry (fe : List (String × Nat)) (pt : List (String × Pt)) (hfe : fe.find? (·.1 == "r.y") = none) :
    feGetL fe pt "r.y" = Pt.yOf (lookup Pt.inf pt "r") :=
  feGetL_coord_y fe pt "r.y" "r" hfe (by rw [endsWith_false_iff]; decide) (by rw [endsWith_iff]; decide) (by decide)

theorem coords_lt {x y : Nat} (h : (Pt.aff x y).valid = true) : x < P ∧ y < P := by
  simp only [Pt.valid, Pt.onCurveXY, Bool.and_eq_true, decide_eq_true_eq] at h
  exact ⟨h.1.1, h.1.2⟩

/-- `schnorrsig_verify` on an explicit state -/
theorem verify_run (sc fe : List (String × Nat)) (pt : List (String × Pt)) (bs : List (String × Bytes)) (ints : Env)
    (sig0 sig32 msg : Bytes) (pk : Pt)
    (h1 : lookup (Bytes.zeros 32) bs "sig64@0" = sig0) (h2 : lookup (Bytes.zeros 32) bs "sig64@32" = sig32)
    (h3 : lookup [] bs "msg" = msg) (h4 : lookup Pt.inf pt "pubkey" = pk) (hill : ints.get "illegal" 0 = 0)
    (hf1 : fe.find? (·.1 == "pk.x") = none) (hf2 : fe.find? (·.1 == "r.x") = none)
    (hf3 : fe.find? (·.1 == "r.y") = none) (hlen : sig0.length = 32) (hpk : pk.valid = true) :
    (execL ⟨sc, fe, pt, bs, ints, false⟩ Gen.Pschnorr.verify.body).ints.get "ret" 0 =
      (Schnorr.verify (sig0 ++ sig32) msg pk).ret ∧
    (execL ⟨sc, fe, pt, bs, ints, false⟩ Gen.Pschnorr.verify.body).ints.get "illegal" 0 =
      (Schnorr.verify (sig0 ++ sig32) msg pk).illegal := by
  have : Fact (Nat.Prime P) := ⟨prime_P⟩
  unfold Gen.Pschnorr.verify
  alg_run2 [h1, h2, h3, h4, hill, ints_ite, get_ite, FeIR.ite_one_zero_ne_zero, decide_eq_true_eq, Nat.mod_mod,
    feGetL_pkx _ _ hf1, feGetL_rx _ _ hf2, feGetL_ry _ _ hf3]
  have e1 : ∀ a, Sc.neg a % N = Sc.neg a := fun a => Nat.mod_mod _ _
  simp only [Schnorr.verify, List.take_left' hlen, List.drop_left' hlen, Codec.feLimit, Sc.setB32, e1]
  by_cases hlim : sig0.toNat < P
  · simp only [hlim, if_true, one_eq_zero_eq, if_false, Nat.mod_eq_of_lt hlim]
    by_cases hov : sig32.toNat ≥ N
    · simp only [hov, if_true, decide_true, and_self]
    · simp only [hov, if_false, decide_false, Bool.false_eq_true]
      cases pk with
      | inf => simp only [if_true, and_self]
      | aff px py =>
        have hpx := (coords_lt hpk).1
        have hR : (Pt.add (Pt.mul (Sc.neg (Schnorr.challenge sig0 msg (Bytes.be32 px))) (Pt.aff px py))
            (Pt.mulG (sig32.toNat % N))).valid = true :=
          valid_add (SecpZkp.valid_mul _ hpk) (SecpZkp.valid_mul _ valid_G)
        simp only [reduceCtorEq, if_false, Pt.xOf, Nat.mod_eq_of_lt hpx]
        generalize Pt.add (Pt.mul (Sc.neg (Schnorr.challenge sig0 msg (Bytes.be32 px))) (Pt.aff px py))
            (Pt.mulG (sig32.toNat % N)) = R at hR
        cases R with
        | inf => simp only [Pt.isInf, if_true, and_self]
        | aff x y =>
          obtain ⟨hx, hy⟩ := coords_lt hR
          simp only [Pt.isInf, Bool.false_eq_true, if_false, Pt.yOf, Nat.mod_eq_of_lt hx, Nat.mod_eq_of_lt hy,
            and_true]
          unfold Fe.isOdd
          by_cases hxe : sig0.toNat = x
          · rcases Nat.mod_two_eq_zero_or_one y with h2 | h2 <;> simp [hxe, h2]
          · have hxe' : ¬ x = sig0.toNat := fun h => hxe h.symm
            rcases Nat.mod_two_eq_zero_or_one y with h2 | h2 <;> simp [hxe, hxe', h2]
  · simp only [hlim, if_false, if_true, and_self]

/-- **The generated `secp256k1_schnorrsig_verify` is `Schnorr.verify`.**  For every state that has not returned, binds
    the byte strings `sig64@0` (32 bytes), `sig64@32`, `msg` and the key object `pubkey` (a valid point, or `Pt.inf` for
    the all-zero object), has counted no callback yet and binds no field variables `pk.x`, `r.x`, `r.y`: the program
    ends with `ret` = the model's return value and `illegal` = the model's callback count, for the signature
    `sig64@0 ++ sig64@32`. -/
theorem verify_eq (st : State) (hret : st.returned = false)
    (hlen : (st.byGet "sig64@0").length = 32) (hill : st.ints.get "illegal" 0 = 0)
    (hpk : (st.ptGet "pubkey").valid = true)
    (hf1 : st.fe.find? (·.1 == "pk.x") = none) (hf2 : st.fe.find? (·.1 == "r.x") = none)
    (hf3 : st.fe.find? (·.1 == "r.y") = none) :
    (execL st Gen.Pschnorr.verify.body).ints.get "ret" 0 =
      (Schnorr.verify (st.byGet "sig64@0" ++ st.byGet "sig64@32") (lookup [] st.bs "msg") (st.ptGet "pubkey")).ret ∧
    (execL st Gen.Pschnorr.verify.body).ints.get "illegal" 0 =
      (Schnorr.verify (st.byGet "sig64@0" ++ st.byGet "sig64@32") (lookup [] st.bs "msg")
        (st.ptGet "pubkey")).illegal := by
  obtain ⟨sc, fe, pt, bs, ints, ret⟩ := st
  simp only at hret
  subst hret
  exact verify_run sc fe pt bs ints _ _ _ _ rfl rfl rfl rfl hill hf1 hf2 hf3 hlen hpk

/-- a valid BIP-340 signature of the message `01 02 03` under the key `1·G` (nonce 2) -/
def exSig0 : Bytes := Bytes.be32 89565891926547004231252920425935692360644145829622209833684329913297188986597
def exSig32 : Bytes := Bytes.be32 2343127929875755358429974876039672384165622702450281479373157071334449065574

def exSt : State :=
  { bs := [("sig64@0", exSig0), ("sig64@32", exSig32), ("msg", [1, 2, 3])], pt := [("pubkey", Pt.G)] }

/-- non-vacuity: the hypotheses of `verify_eq` hold of `exSt` -/
example : exSt.returned = false ∧ (exSt.byGet "sig64@0").length = 32 ∧ exSt.ints.get "illegal" 0 = 0 ∧
    (exSt.ptGet "pubkey").valid = true ∧ exSt.fe.find? (·.1 == "pk.x") = none ∧
    exSt.fe.find? (·.1 == "r.x") = none ∧ exSt.fe.find? (·.1 == "r.y") = none := by decide +kernel

/-- the model accepts this signature … -/
example : (Schnorr.verify (exSig0 ++ exSig32) [1, 2, 3] Pt.G).ret = 1 := by decide +kernel

/-- … and so does the generated program, run by the kernel -/
example : (execL exSt Gen.Pschnorr.verify.body).ints.get "ret" 0 = 1 ∧
    (execL exSt Gen.Pschnorr.verify.body).ints.get "illegal" 0 = 0 := by decide +kernel

/-- the all-zero key object: both sides return 0 and count one callback -/
example : (execL { exSt with pt := [] } Gen.Pschnorr.verify.body).ints.get "ret" 0 = 0 ∧
    (execL { exSt with pt := [] } Gen.Pschnorr.verify.body).ints.get "illegal" 0 = 1 ∧
    (Schnorr.verify (exSig0 ++ exSig32) [1, 2, 3] Pt.inf).illegal = 1 := by decide +kernel

end C02ir
end SecpZkp
