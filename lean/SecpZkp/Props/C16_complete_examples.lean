import SecpZkp.Props.C16_complete
/-
  Evaluated instances for `Props/C16_complete.lean` (kept in a separate file because each kernel evaluation of
  `secp256k1_whitelist_sign` runs RFC 6979 twice, i.e. some sixty SHA-256 compressions):
  * non-vacuity of `whitelist_complete`;
  * the corner case "tweaked secret ≡ 0": `sign` returns 0 (finding F2, fixed), and no signature could verify anyway.
-/
namespace SecpZkp
namespace Whitelist
open SecpZkp.Algebra

/-! ### Non-vacuity -/

/-- example instance: one key pair, `online = 3•G`, `offline = 2•G`, whitelisted key `3•G`, so that `online_sec = 3` and
    `summed_sec = 2 + 3 = 5` -/
def exOnline : List Pt := [Pt.mulG 3]
def exOffline : List Pt := [Pt.mulG 2]
def exSub : Pt := Pt.mulG 3
def exOnlineKey : Bytes := Bytes.be32 3
def exSummedKey : Bytes := Bytes.be32 5

set_option maxRecDepth 100000 in
theorem ex_ret : (sign exOnline exOffline exSub exOnlineKey exSummedKey 0).ret = 1 := by decide +kernel
set_option maxRecDepth 100000 in
theorem ex_hon : exOnline[0]? = some (Pt.mulG (Sc.setB32 exOnlineKey).1) := by decide +kernel
set_option maxRecDepth 100000 in
theorem ex_hoff : exOffline[0]?.map (fun o => Pt.add o exSub) = some (Pt.mulG (Sc.setB32 exSummedKey).1) := by
  decide +kernel
theorem ex_hothers : ∀ j, j ≠ 0 → (computeKeysAndMessage exOnline exOffline exSub).2[j]? ≠ some .inf := by
  intro j hj
  have hl : (computeKeysAndMessage exOnline exOffline exSub).2.length = 1 := by
    simp [computeKeys_snd, exOnline, exOffline]
  rw [List.getElem?_eq_none (by omega)]
  simp

/-- Non-vacuity of `whitelist_complete`: all hypotheses hold for the example instance (the call to
    `secp256k1_whitelist_sign` is evaluated by the kernel, RFC 6979 included), hence the produced signature verifies. -/
example : ∃ sig, (sign exOnline exOffline exSub exOnlineKey exSummedKey 0).out = some sig ∧
    verify sig exOnline exOffline exSub = 1 := by
  obtain ⟨sig, hout⟩ := sign_out_of_ret ex_ret
  exact ⟨sig, hout, whitelist_complete exOnline exOffline exSub exOnlineKey exSummedKey 0 sig (by decide)
    ex_hon ex_hoff ex_hothers ex_ret hout⟩

/-! ### The corner case `online_sec + H·summed_sec ≡ 0` -/

/-- `H(5•G)` as a scalar -/
def cornerTweak : Nat := 101209174688016319731860690379335570643309777889359451706221983432371306237727
/-- `−5·H(5•G) mod n`: the online secret for which, with `summed_sec = 5`, the tweaked secret vanishes. -/
def cornerOnlineSec : Nat := 0xa1342f890f841601c551c409d58b2ff0fcef9c1140962622a8bb7bcb9786faaa

set_option maxRecDepth 100000 in
theorem corner_tweak : hashPubkey (Pt.mulG (Sc.setB32 (Bytes.be32 5)).1) = some cornerTweak := by decide +kernel
set_option maxRecDepth 100000 in
theorem corner_zero :
    Sc.add (Sc.mul (Sc.setB32 (Bytes.be32 5)).1 cornerTweak) (Sc.setB32 (Bytes.be32 cornerOnlineSec)).1 = 0 := by
  decide +kernel
set_option maxRecDepth 100000 in
theorem corner_hon : [Pt.mulG cornerOnlineSec][0]? = some (Pt.mulG (Sc.setB32 (Bytes.be32 cornerOnlineSec)).1) := by
  decide +kernel
set_option maxRecDepth 100000 in
theorem corner_hoff : [Pt.mulG 2][0]?.map (fun o => Pt.add o (Pt.mulG 3)) = some (Pt.mulG (Sc.setB32 (Bytes.be32 5)).1) := by
  decide +kernel
set_option maxRecDepth 100000 in
/-- the same fact by plain evaluation of the model -/
theorem corner_sign_ret_eval :
    (sign [Pt.mulG cornerOnlineSec] [Pt.mulG 2] (Pt.mulG 3) (Bytes.be32 cornerOnlineSec) (Bytes.be32 5) 0).ret = 0 := by
  decide +kernel

/-- The corner case, evaluated: with `summed_sec = 5` and `online_sec = −5·H(5•G) mod n` (both valid secret keys, and the
    public keys match them) the tweaked secret is 0.  `secp256k1_whitelist_sign` now returns 0 (before the fix of finding
    F2 it returned 1), and indeed no signature object verifies against this key list. -/
example :
    (sign [Pt.mulG cornerOnlineSec] [Pt.mulG 2] (Pt.mulG 3) (Bytes.be32 cornerOnlineSec) (Bytes.be32 5) 0).ret = 0 ∧
    ∀ sig, verify sig [Pt.mulG cornerOnlineSec] [Pt.mulG 2] (Pt.mulG 3) = 0 := by
  refine ⟨whitelist_sign_refuses_zero_tweaked_secret _ _ _ _ _ 0 cornerTweak corner_tweak corner_zero, fun sig => ?_⟩
  exact whitelist_zero_tweaked_ringkey_inf [Pt.mulG cornerOnlineSec] [Pt.mulG 2] (Pt.mulG 3) (Bytes.be32 cornerOnlineSec)
    (Bytes.be32 5) 0 sig cornerTweak (by decide) corner_hon corner_hoff corner_tweak corner_zero

end Whitelist
end SecpZkp
