import SecpZkp.Proofs.FieldKernel
import SecpZkp.Gen.K_field5x52
/-
  C05 (field part): the 5×52-limb field multiplication and squaring of the C library are exact for ALL
  limb values within the documented magnitude bounds.

  Object of the theorems: `Gen.field5x52.fe_mul_inner` / `fe_sqr_inner`, the MiniC IR that
  `tools/c2lean_k.py` regenerates on every run from `secp256k1_fe_mul_inner` / `secp256k1_fe_sqr_inner`
  (src/field_5x52_int128_impl.h, with the `secp256k1_u128_*` helpers of int128_native_impl.h inlined); the
  translation is tied to the compiled C functions by the `k_run` correspondence ops.  Nothing in this file
  re-types the algorithm: the proofs EVALUATE the generated term.

  Route (the same for both functions)
  1. `*_no_wrap_out` (`decide +kernel`): the verified interval analysis `Bounds.checkL` accepts the program
     under the input bounds `mulB`/`sqrB` (limbs 0..3 ≤ 2^56-1, limb 4 ≤ 2^52-1: magnitude 8) — so no 128-bit
     accumulation, 64-bit product or shift wraps for ANY admissible input — and it bounds the outputs by
     `r[0..3] ≤ 2^52-1`, `r[4] ≤ 2^49-1`.  By `Bounds.checkL_sound` the C semantics `execL` (wrap-around at
     every node) coincides with the ideal semantics `execLI` (unbounded naturals) on these inputs.
  2. `*_ideal`: symbolic execution of `execLI` on the literal program for an arbitrary memory (`minic_eval`)
     gives explicit expressions for `r[0..4]` in the input limbs with `/ 2^52`, `% 2^52`, `% 2^64`, …;
     masks/shifts/ors are turned into arithmetic (`limb_arith`), the 25 (15) limb products become atoms, the
     `uint64` conversions of values that are small anyway are discharged from the input bounds, and `omega`
     proves `val5 r ≡ val5 a * val5 b (mod p)`: with every `x % k` expressed through `x / k` the carry chain is
     an identity between linear forms whose difference has all coefficients divisible by p
     (`2^260 - 0x1000003D10 = 16 p`, `2^256 - 0x1000003D1 = p`).
  3. `*_correct`: 1 + 2.

  A change of the C code that breaks the arithmetic makes step 1 fail (a dropped mask / wrong shift that lets
  an accumulator overflow or violates the output bounds) or step 2's final `omega` fail (a wrong coefficient,
  a missing doubling, a wrong shift: the linear forms no longer differ by a multiple of p).  Renaming or
  renumbering temporaries changes nothing: they are substituted away by evaluation.

  NOT covered here: `Gen.field5x52.fe_mul_inner_struct` (the `USE_FORCE_WIDEMUL_INT128_STRUCT` configuration).
  Its emulated 64×64→128 multiply (`secp256k1_umul128`) and the carry detection of `secp256k1_u128_accum_mul`
  (`r->lo += lo; r->hi += hi + (r->lo < lo)`) wrap ON PURPOSE, so `Bounds.checkL` (which certifies the absence
  of wrap-around) rejects it by design; it would need a different argument (a refinement of each struct
  helper to the native `unsigned __int128` operation).  The 10×26 field is not translated at all.
-/

namespace SecpZkp
namespace C05
open MiniC MiniC.Bounds FieldKernel

/-! ### multiplication -/

/-- **No arithmetic node of `secp256k1_fe_mul_inner` wraps** for inputs of magnitude ≤ 8, and the
    interval analysis derives the magnitude-1 output contract `r[0..3] ≤ 2^52-1`, `r[4] ≤ 2^49-1`.
    (Kernel evaluation of the verified interval analysis on the regenerated IR.) -/
theorem fe_mul_inner_no_wrap_out :
    checkOut mulB Gen.field5x52.fe_mul_inner.body outB = true := by decide +kernel

/-- the interval analysis accepts `secp256k1_fe_mul_inner` under `mulB` -/
theorem fe_mul_inner_no_wrap : (checkL mulB Gen.field5x52.fe_mul_inner.body).isSome = true :=
  checkOut_isSome fe_mul_inner_no_wrap_out

set_option maxRecDepth 100000 in
set_option maxHeartbeats 4000000 in
/-- Over unbounded naturals (`execLI`), the limbs computed by `secp256k1_fe_mul_inner` represent
    `a * b` modulo `p`, for all inputs within the bounds. -/
theorem fe_mul_inner_ideal (env : Env) (a0 a1 a2 a3 a4 b0 b1 b2 b3 b4 : Nat)
    (h0 : env.get "a" 0 = a0) (h1 : env.get "a" 1 = a1) (h2 : env.get "a" 2 = a2) (h3 : env.get "a" 3 = a3)
    (h4 : env.get "a" 4 = a4)
    (g0 : env.get "b" 0 = b0) (g1 : env.get "b" 1 = b1) (g2 : env.get "b" 2 = b2) (g3 : env.get "b" 3 = b3)
    (g4 : env.get "b" 4 = b4)
    (A0 : a0 ≤ 2 ^ 56 - 1) (A1 : a1 ≤ 2 ^ 56 - 1) (A2 : a2 ≤ 2 ^ 56 - 1) (A3 : a3 ≤ 2 ^ 56 - 1) (A4 : a4 ≤ 2 ^ 52 - 1)
    (B0 : b0 ≤ 2 ^ 56 - 1) (B1 : b1 ≤ 2 ^ 56 - 1) (B2 : b2 ≤ 2 ^ 56 - 1) (B3 : b3 ≤ 2 ^ 56 - 1) (B4 : b4 ≤ 2 ^ 52 - 1) :
    val5 ((execLI env Gen.field5x52.fe_mul_inner.body).1.get "r" 0)
         ((execLI env Gen.field5x52.fe_mul_inner.body).1.get "r" 1)
         ((execLI env Gen.field5x52.fe_mul_inner.body).1.get "r" 2)
         ((execLI env Gen.field5x52.fe_mul_inner.body).1.get "r" 3)
         ((execLI env Gen.field5x52.fe_mul_inner.body).1.get "r" 4) % P =
      (val5 a0 a1 a2 a3 a4 * val5 b0 b1 b2 b3 b4) % P := by
  rw [val5_mul]
  simp only [Gen.field5x52.fe_mul_inner, val5]
  minic_eval
  simp only [h0, h1, h2, h3, h4, g0, g1, g2, g3, g4]
  clear h0 h1 h2 h3 h4 g0 g1 g2 g3 g4 env
  limb_arith
  have H00 := Nat.mul_le_mul A0 B0; have H01 := Nat.mul_le_mul A0 B1; have H02 := Nat.mul_le_mul A0 B2
  have H03 := Nat.mul_le_mul A0 B3; have H04 := Nat.mul_le_mul A0 B4
  have H10 := Nat.mul_le_mul A1 B0; have H11 := Nat.mul_le_mul A1 B1; have H12 := Nat.mul_le_mul A1 B2
  have H13 := Nat.mul_le_mul A1 B3; have H14 := Nat.mul_le_mul A1 B4
  have H20 := Nat.mul_le_mul A2 B0; have H21 := Nat.mul_le_mul A2 B1; have H22 := Nat.mul_le_mul A2 B2
  have H23 := Nat.mul_le_mul A2 B3; have H24 := Nat.mul_le_mul A2 B4
  have H30 := Nat.mul_le_mul A3 B0; have H31 := Nat.mul_le_mul A3 B1; have H32 := Nat.mul_le_mul A3 B2
  have H33 := Nat.mul_le_mul A3 B3; have H34 := Nat.mul_le_mul A3 B4
  have H40 := Nat.mul_le_mul A4 B0; have H41 := Nat.mul_le_mul A4 B1; have H42 := Nat.mul_le_mul A4 B2
  have H43 := Nat.mul_le_mul A4 B3; have H44 := Nat.mul_le_mul A4 B4
  clear A0 A1 A2 A3 A4 B0 B1 B2 B3 B4
  simp (disch := omega) only [mod64_of_lt]
  clear H00 H01 H02 H03 H04 H10 H11 H12 H13 H14 H20 H21 H22 H23 H24 H30 H31 H32 H33 H34 H40 H41 H42 H43 H44
  simp only [P]
  omega


/-- Post-condition of `secp256k1_fe_mul_inner(r, a, b)` on the initial memory `env` and the final memory `out`:
    the five output limbs represent `a * b` modulo `p` (limb vectors read as `Σ x_i 2^(52 i)`), and they
    satisfy the magnitude-1 contract `r[0..3] < 2^52`, `r[4] < 2^49`. -/
def MulPost (env out : Env) : Prop :=
  val5 (out.get "r" 0) (out.get "r" 1) (out.get "r" 2) (out.get "r" 3) (out.get "r" 4) % P =
    (val5 (env.get "a" 0) (env.get "a" 1) (env.get "a" 2) (env.get "a" 3) (env.get "a" 4) *
     val5 (env.get "b" 0) (env.get "b" 1) (env.get "b" 2) (env.get "b" 3) (env.get "b" 4)) % P ∧
  out.get "r" 0 < 2 ^ 52 ∧ out.get "r" 1 < 2 ^ 52 ∧ out.get "r" 2 < 2 ^ 52 ∧ out.get "r" 3 < 2 ^ 52 ∧
  out.get "r" 4 < 2 ^ 49

instance (env out : Env) : Decidable (MulPost env out) := inferInstanceAs (Decidable (_ ∧ _))

/-- **`secp256k1_fe_mul_inner` is exact.**  For EVERY memory whose cells `a[0..4]`, `b[0..4]` respect the
    documented bounds (`a[i], b[i] ≤ 2^56-1` for `i < 4`, `a[4], b[4] ≤ 2^52-1`), running the translated C
    function with C's wrap-around semantics (`execL`: every `+`, `*`, `<<` truncated at its width) leaves in
    `r[0..4]` limbs that represent `a * b mod p` and satisfy `r[0..3] < 2^52`, `r[4] < 2^49`. -/
theorem fe_mul_inner_correct (env : Env) (hr : Respects env mulB) :
    MulPost env (execL env Gen.field5x52.fe_mul_inner.body).env := by
  obtain ⟨heq, hb⟩ := checkOut_sound hr fe_mul_inner_no_wrap_out
  have b0 := hb (("r", 0), 2 ^ 52 - 1) (by simp [outB])
  have b1 := hb (("r", 1), 2 ^ 52 - 1) (by simp [outB])
  have b2 := hb (("r", 2), 2 ^ 52 - 1) (by simp [outB])
  have b3 := hb (("r", 3), 2 ^ 52 - 1) (by simp [outB])
  have b4 := hb (("r", 4), 2 ^ 49 - 1) (by simp [outB])
  simp only at b0 b1 b2 b3 b4
  refine ⟨?_, by omega, by omega, by omega, by omega, by omega⟩
  rw [heq]
  exact fe_mul_inner_ideal env _ _ _ _ _ _ _ _ _ _ rfl rfl rfl rfl rfl rfl rfl rfl rfl rfl
    (hr "a" 0 _ rfl) (hr "a" 1 _ rfl) (hr "a" 2 _ rfl) (hr "a" 3 _ rfl) (hr "a" 4 _ rfl)
    (hr "b" 0 _ rfl) (hr "b" 1 _ rfl) (hr "b" 2 _ rfl) (hr "b" 3 _ rfl) (hr "b" 4 _ rfl)

/-- all-ones limbs at the top of the admissible range: `2^56-1` (limbs 0..3), `2^52-1` (limb 4) -/
def onesEnv : Env :=
  [(("a", 0), 2 ^ 56 - 1), (("a", 1), 2 ^ 56 - 1), (("a", 2), 2 ^ 56 - 1), (("a", 3), 2 ^ 56 - 1), (("a", 4), 2 ^ 52 - 1),
   (("b", 0), 2 ^ 56 - 1), (("b", 1), 2 ^ 56 - 1), (("b", 2), 2 ^ 56 - 1), (("b", 3), 2 ^ 56 - 1), (("b", 4), 2 ^ 52 - 1)]

/-- Non-vacuity: the all-ones memory satisfies the hypothesis of `fe_mul_inner_correct`, and the
    conclusion, evaluated on it by running the wrap-around interpreter in the kernel, holds. -/
example : Respects onesEnv mulB ∧ MulPost onesEnv (execL onesEnv Gen.field5x52.fe_mul_inner.body).env :=
  ⟨respects_of_all (by decide +kernel),
   of_decide_eq_true (checkRun_sound (post := fun out => decide (MulPost onesEnv out)) (by decide +kernel))⟩

/-! ### squaring -/

/-- **No arithmetic node of `secp256k1_fe_sqr_inner` wraps** for inputs of magnitude ≤ 8 (including the
    64-bit doublings `a0*2`, `a1*2`, `a2*2`, `a4*2`), and the interval analysis derives the magnitude-1
    output contract. -/
theorem fe_sqr_inner_no_wrap_out :
    checkOut sqrB Gen.field5x52.fe_sqr_inner.body outB = true := by decide +kernel

/-- the interval analysis accepts `secp256k1_fe_sqr_inner` under `sqrB` -/
theorem fe_sqr_inner_no_wrap : (checkL sqrB Gen.field5x52.fe_sqr_inner.body).isSome = true :=
  checkOut_isSome fe_sqr_inner_no_wrap_out

set_option maxRecDepth 100000 in
set_option maxHeartbeats 4000000 in
/-- Over unbounded naturals (`execLI`), the limbs computed by `secp256k1_fe_sqr_inner` represent
    `a^2` modulo `p`, for all inputs within the bounds. -/
theorem fe_sqr_inner_ideal (env : Env) (a0 a1 a2 a3 a4 : Nat)
    (h0 : env.get "a" 0 = a0) (h1 : env.get "a" 1 = a1) (h2 : env.get "a" 2 = a2) (h3 : env.get "a" 3 = a3)
    (h4 : env.get "a" 4 = a4)
    (A0 : a0 ≤ 2 ^ 56 - 1) (A1 : a1 ≤ 2 ^ 56 - 1) (A2 : a2 ≤ 2 ^ 56 - 1) (A3 : a3 ≤ 2 ^ 56 - 1) (A4 : a4 ≤ 2 ^ 52 - 1) :
    val5 ((execLI env Gen.field5x52.fe_sqr_inner.body).1.get "r" 0)
         ((execLI env Gen.field5x52.fe_sqr_inner.body).1.get "r" 1)
         ((execLI env Gen.field5x52.fe_sqr_inner.body).1.get "r" 2)
         ((execLI env Gen.field5x52.fe_sqr_inner.body).1.get "r" 3)
         ((execLI env Gen.field5x52.fe_sqr_inner.body).1.get "r" 4) % P =
      (val5 a0 a1 a2 a3 a4 ^ 2) % P := by
  rw [val5_sq]
  simp only [Gen.field5x52.fe_sqr_inner, val5]
  minic_eval
  simp only [h0, h1, h2, h3, h4]
  clear h0 h1 h2 h3 h4 env
  limb_arith
  -- products in the normal form `2 * (a_i * a_j)`, `i ≤ j` (the C code doubles one factor first)
  set_option linter.unusedSimpArgs false in
  simp only [mul_two_mul, mul_mul_two, Nat.mul_comm a1 a0, Nat.mul_comm a2 a0, Nat.mul_comm a3 a0,
    Nat.mul_comm a4 a0, Nat.mul_comm a2 a1, Nat.mul_comm a3 a1, Nat.mul_comm a4 a1, Nat.mul_comm a3 a2,
    Nat.mul_comm a4 a2, Nat.mul_comm a4 a3]
  have H00 := Nat.mul_le_mul A0 A0; have H01 := Nat.mul_le_mul A0 A1; have H02 := Nat.mul_le_mul A0 A2
  have H03 := Nat.mul_le_mul A0 A3; have H04 := Nat.mul_le_mul A0 A4
  have H11 := Nat.mul_le_mul A1 A1; have H12 := Nat.mul_le_mul A1 A2
  have H13 := Nat.mul_le_mul A1 A3; have H14 := Nat.mul_le_mul A1 A4
  have H22 := Nat.mul_le_mul A2 A2; have H23 := Nat.mul_le_mul A2 A3; have H24 := Nat.mul_le_mul A2 A4
  have H33 := Nat.mul_le_mul A3 A3; have H34 := Nat.mul_le_mul A3 A4
  have H44 := Nat.mul_le_mul A4 A4
  clear A0 A1 A2 A3 A4
  simp (disch := omega) only [mod64_of_lt]
  clear H00 H01 H02 H03 H04 H11 H12 H13 H14 H22 H23 H24 H33 H34 H44
  simp only [P]
  omega

/-- Post-condition of `secp256k1_fe_sqr_inner(r, a)`: the output limbs represent `a^2` modulo `p` and
    satisfy the magnitude-1 contract `r[0..3] < 2^52`, `r[4] < 2^49`. -/
def SqrPost (env out : Env) : Prop :=
  val5 (out.get "r" 0) (out.get "r" 1) (out.get "r" 2) (out.get "r" 3) (out.get "r" 4) % P =
    (val5 (env.get "a" 0) (env.get "a" 1) (env.get "a" 2) (env.get "a" 3) (env.get "a" 4) ^ 2) % P ∧
  out.get "r" 0 < 2 ^ 52 ∧ out.get "r" 1 < 2 ^ 52 ∧ out.get "r" 2 < 2 ^ 52 ∧ out.get "r" 3 < 2 ^ 52 ∧
  out.get "r" 4 < 2 ^ 49

instance (env out : Env) : Decidable (SqrPost env out) := inferInstanceAs (Decidable (_ ∧ _))

/-- **`secp256k1_fe_sqr_inner` is exact.**  For EVERY memory whose cells `a[0..4]` respect the documented
    bounds (`a[i] ≤ 2^56-1` for `i < 4`, `a[4] ≤ 2^52-1`), running the translated C function with C's
    wrap-around semantics leaves in `r[0..4]` limbs that represent `a^2 mod p` and satisfy
    `r[0..3] < 2^52`, `r[4] < 2^49`. -/
theorem fe_sqr_inner_correct (env : Env) (hr : Respects env sqrB) :
    SqrPost env (execL env Gen.field5x52.fe_sqr_inner.body).env := by
  obtain ⟨heq, hb⟩ := checkOut_sound hr fe_sqr_inner_no_wrap_out
  have b0 := hb (("r", 0), 2 ^ 52 - 1) (by simp [outB])
  have b1 := hb (("r", 1), 2 ^ 52 - 1) (by simp [outB])
  have b2 := hb (("r", 2), 2 ^ 52 - 1) (by simp [outB])
  have b3 := hb (("r", 3), 2 ^ 52 - 1) (by simp [outB])
  have b4 := hb (("r", 4), 2 ^ 49 - 1) (by simp [outB])
  simp only at b0 b1 b2 b3 b4
  refine ⟨?_, by omega, by omega, by omega, by omega, by omega⟩
  rw [heq]
  exact fe_sqr_inner_ideal env _ _ _ _ _ rfl rfl rfl rfl rfl
    (hr "a" 0 _ rfl) (hr "a" 1 _ rfl) (hr "a" 2 _ rfl) (hr "a" 3 _ rfl) (hr "a" 4 _ rfl)

/-- Non-vacuity for squaring, on the all-ones operand `a` of `onesEnv`. -/
example : Respects onesEnv sqrB ∧ SqrPost onesEnv (execL onesEnv Gen.field5x52.fe_sqr_inner.body).env :=
  ⟨respects_of_all (by decide +kernel),
   of_decide_eq_true (checkRun_sound (post := fun out => decide (SqrPost onesEnv out)) (by decide +kernel))⟩

end C05
end SecpZkp
