import SecpZkp.Gen.Guards
/-! # C02 — the argument checks the model assumes are present at the C call sites (translator mode G)

`Gen.callFacts` is regenerated from clang's AST of /repo on every run (tools/c2lean_g.py): one fact per call of a
fallible primitive (range-checked field/scalar decoding, curve membership, infinity / zero tests, nested parsers)
inside the functions this property is anchored in, saying whether the call's result steers control flow
(`resultChecked`) and whether the overflow flag it writes is read before being overwritten (`flag = some true`;
`none` = the call passes NULL, i.e. reduces silently).  The executable model rejects out-of-range encodings at
exactly these places; the theorems below pin the C side to the same shape.  A fact list that no longer matches
is a broken tie (the check then searches for a failing input with the differential generators). -/
namespace SecpZkp.Props.C02_guards
open SecpZkp.Gen

/-- `secp256k1_schnorrsig_verify`: its fallible-primitive call sites are exactly these, each with its result / overflow flag
    consumed as listed. -/
theorem schnorrsig_verify_sites : Facts.schnorrsig_verify = [
    ⟨.fe_impl_set_b32_limit, 1, true, none⟩,
    ⟨.scalar_set_b32, 1, false, some true⟩,
    ⟨.xonly_pubkey_load, 1, true, none⟩,
    ⟨.ge_is_infinity, 1, true, none⟩
  ] := by decide

/-- `secp256k1_xonly_pubkey_parse`: its fallible-primitive call sites are exactly these, each with its result / overflow flag
    consumed as listed. -/
theorem xonly_pubkey_parse_sites : Facts.xonly_pubkey_parse = [
    ⟨.fe_impl_set_b32_limit, 1, true, none⟩,
    ⟨.ge_set_xo_var, 1, true, none⟩
  ] := by decide

/-- `secp256k1_schnorrsig_challenge`: its fallible-primitive call sites are exactly these, each with its result / overflow flag
    consumed as listed. -/
theorem schnorrsig_challenge_sites : Facts.schnorrsig_challenge = [
    ⟨.scalar_set_b32, 1, false, none⟩
  ] := by decide

/-- `secp256k1_schnorrsig_sign_internal`: its fallible-primitive call sites are exactly these, each with its result / overflow flag
    consumed as listed. -/
theorem schnorrsig_sign_internal_sites : Facts.schnorrsig_sign_internal = [
    ⟨.ecmult_gen_context_is_built, 1, true, none⟩,
    ⟨.keypair_load, 1, true, none⟩,
    ⟨.scalar_set_b32, 1, false, none⟩,
    ⟨.scalar_is_zero, 1, true, none⟩
  ] := by decide

def all : List CallFact := Facts.schnorrsig_verify ++ Facts.xonly_pubkey_parse ++ Facts.schnorrsig_challenge ++ Facts.schnorrsig_sign_internal

/-- No overflow flag written by a scalar decoding in these functions is ignored (overwritten or never read). -/
theorem no_flag_dropped : ∀ f ∈ all, f.flag ≠ some false := by decide

/-- non-vacuity: the regenerated fact lists are not empty -/
example : all.length = 11 := by decide

end SecpZkp.Props.C02_guards
