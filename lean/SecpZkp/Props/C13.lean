import SecpZkp.Proofs.Musig13
/-
  Property C13: "A MuSig secret nonce can sign at most once, whatever happens."

  Model side: `Musig.partialSign` (`secp256k1_musig_partial_sign`, session_impl.h:646-720),
  `Musig.secnonceLoad`, `Musig.nonceGen` / `nonceGenCounter` / `nonceGenInternal`, and the two-slot
  history machine `Musig.runStep` / `runHistory` that the correspondence check drives.

  Conventions of the model used in the statements: a NULL pointer argument is `none`; an output object
  that a call did not write is reported as `none`; the all-zero 132-byte secnonce object is
  `Secnonce.zero`.

  Contents
    1. `partial_sign_wipes`            every call with a non-NULL secnonce leaves it all-zero
    2. `sign_needs_live_nonce`         zero / wrong-magic / zero-scalar objects do not sign
    3. `binding`                       a signature needs keypair.pk = secnonce.pk in both coordinates
    4. nonce generation                zero randomness rejected, zero on failure, randomness wiped,
                                       public key stored
    5. histories                       `Inv`, `inv_init`, `inv_step`, `at_most_one_sig`, and the trace
                                       form `at_most_one_sig_between_writes`
-/
namespace SecpZkp
namespace Musig
namespace C13

/-! ### Concrete objects for the non-vacuity examples

  Hand-made, cheap to evaluate: signer key `1` (public key `G`), a cache whose `second_pk` is `G` (so the
  key-aggregation coefficient is 1 without hashing), two sessions that differ in challenge and nonce
  coefficient.  `suA` is a full setup for the history machine; its `gen` steps run the real nonce
  derivation (SHA-256 in the kernel). -/

def kpA : Keys.Keypair := ⟨Bytes.be32 1, Pt.G⟩
def kpB : Keys.Keypair := ⟨Bytes.be32 2, Pt.aff 5 6⟩
def cacheA : KeyaggCache := ⟨keyaggCacheMagic, Pt.G, Pt.G, Bytes.zeros 32, 0, 0⟩
def sessA : Session := ⟨sessionMagic, 0, Bytes.zeros 32, 5, 7, 0⟩
def sessB : Session := ⟨sessionMagic, 0, Bytes.zeros 32, 11, 13, 0⟩
/-- a live secnonce bound to the public key `G` -/
def snA : Secnonce := ⟨secnonceMagic, 2, 3, Pt.G⟩
def randA : Bytes := Bytes.zeros 27 ++ [1, 0, 0, 0, 0]
def suA : HistSetup := ⟨kpA, kpB, Bytes.zeros 32, cacheA, sessA, sessB, randA, 0⟩

/-! ## 1. The wipe -/

/-- **`partial_sign_wipes`.**  For ALL arguments - any secnonce object (live, all-zero, wrong magic),
    any keypair (valid, invalid, NULL), any cache (valid, wrong magic, NULL), any session (valid,
    invalid, NULL), output pointer present or absent - if the secnonce pointer is non-NULL then the
    secnonce object after `secp256k1_musig_partial_sign` is the all-zero object, whether the call
    returned 1 or 0 and whichever check failed.
    (`ARG_CHECK(secnonce != NULL)` precedes the load; see `partial_sign_null` for that case.) -/
theorem partial_sign_wipes (wantSig : Bool) (sn : Secnonce) (keypair : Option Keys.Keypair)
    (cache : Option KeyaggCache) (session : Option Session) :
    (partialSign wantSig (some sn) keypair cache session).out.secnonce = some Secnonce.zero :=
  partialSign_wipes wantSig sn keypair cache session

/-- The NULL-secnonce case: return 0, one illegal-argument callback, nothing written. -/
theorem partial_sign_null (wantSig : Bool) (keypair : Option Keys.Keypair)
    (cache : Option KeyaggCache) (session : Option Session) :
    partialSign wantSig none keypair cache session = ⟨0, ⟨none, none⟩, 1⟩ := rfl

/-- Non-vacuity: the wipe on a SUCCESSFUL call (a signature `s = 24` is produced) ... -/
example : let r := partialSign true (some snA) (some kpA) (some cacheA) (some sessA)
    r.ret = 1 ∧ r.out.sig = some ⟨partialSigMagic, 24⟩ ∧ r.out.secnonce = some Secnonce.zero ∧ snA ≠ Secnonce.zero := by
  decide +kernel

/-- ... and on FAILING calls that were handed the same live nonce: wrong keypair, NULL output, NULL
    session, cache with a wrong magic. -/
example :
    (partialSign true (some snA) (some kpB) (some cacheA) (some sessA)).ret = 0 ∧
    (partialSign true (some snA) (some kpB) (some cacheA) (some sessA)).out.secnonce = some Secnonce.zero ∧
    (partialSign false (some snA) (some kpA) (some cacheA) (some sessA)).out.secnonce = some Secnonce.zero ∧
    (partialSign true (some snA) (some kpA) (some cacheA) none).out.secnonce = some Secnonce.zero ∧
    (partialSign true (some snA) (some kpA) (some (badCacheOf cacheA)) (some sessA)).ret = 0 ∧
    (partialSign true (some snA) (some kpA) (some (badCacheOf cacheA)) (some sessA)).out.secnonce = some Secnonce.zero := by
  decide +kernel

/-! ## 2. Only a live nonce signs -/

/-- the secnonce object passes `secp256k1_musig_secnonce_load` -/
def Live (sn : Secnonce) : Prop := sn.magic = secnonceMagic ∧ ¬ (sn.k1 = 0 ∧ sn.k2 = 0)

instance (sn : Secnonce) : Decidable (Live sn) := by unfold Live; infer_instance

theorem live_iff_load (sn : Secnonce) : Live sn ↔ (secnonceLoad sn).isSome = true :=
  (secnonceLoad_isSome_iff sn).symm

/-- The all-zero object, any object whose magic bytes are zero, and any object with a wrong magic are
    not live. -/
theorem not_live_of_zero_or_bad_magic {sn : Secnonce}
    (h : sn = Secnonce.zero ∨ sn.isZero = true ∨ sn.magic ≠ secnonceMagic) : ¬ Live sn := by
  intro hl
  have hs := (live_iff_load sn).1 hl
  rcases h with h | h | h
  · rw [h, secnonceLoad_zero] at hs; exact absurd hs (by decide)
  · rw [secnonceLoad_isZero h] at hs; exact absurd hs (by decide)
  · exact h hl.1

/-- **`sign_needs_live_nonce`.**  If the secnonce object is not live - it is all-zero (e.g. already
    used), or has a wrong magic, or both scalars are zero - then, for all other arguments,
    `partial_sign` returns 0, raises exactly one illegal-argument callback, does NOT write the
    partial-signature object (`sig = none`: the caller's object is untouched), and leaves the secnonce
    all-zero. -/
theorem sign_needs_live_nonce (wantSig : Bool) {sn : Secnonce} (keypair : Option Keys.Keypair)
    (cache : Option KeyaggCache) (session : Option Session) (h : ¬ Live sn) :
    partialSign wantSig (some sn) keypair cache session = ⟨0, ⟨none, some Secnonce.zero⟩, 1⟩ := by
  apply partialSign_dead
  cases hs : secnonceLoad sn with
  | none => rfl
  | some v => exact absurd ((live_iff_load sn).2 (by rw [hs]; rfl)) h

/-- The all-zero object in particular. -/
theorem sign_zero_nonce (wantSig : Bool) (keypair : Option Keys.Keypair)
    (cache : Option KeyaggCache) (session : Option Session) :
    partialSign wantSig (some Secnonce.zero) keypair cache session = ⟨0, ⟨none, some Secnonce.zero⟩, 1⟩ :=
  sign_needs_live_nonce wantSig keypair cache session (not_live_of_zero_or_bad_magic (Or.inl rfl))

/-- More generally no failing call writes a signature object, and a signature object is written
    exactly by the calls that return 1 (return values are 0 or 1). -/
theorem no_sig_on_failure (wantSig : Bool) (sn : Option Secnonce) (keypair : Option Keys.Keypair)
    (cache : Option KeyaggCache) (session : Option Session) :
    ((partialSign wantSig sn keypair cache session).ret = 0 ∨ (partialSign wantSig sn keypair cache session).ret = 1) ∧
    ((partialSign wantSig sn keypair cache session).out.sig.isSome = true ↔
      (partialSign wantSig sn keypair cache session).ret = 1) :=
  ⟨partialSign_ret01 _ _ _ _ _, partialSign_sig_iff _ _ _ _ _⟩

/-- **Used twice.**  Feeding the object left behind by ANY call (successful or not) to a second call,
    with any arguments, gives no signature. -/
theorem second_use_fails (w1 w2 : Bool) (sn : Secnonce) (kp1 kp2 : Option Keys.Keypair)
    (c1 c2 : Option KeyaggCache) (s1 s2 : Option Session) :
    partialSign w2 (partialSign w1 (some sn) kp1 c1 s1).out.secnonce kp2 c2 s2 =
      ⟨0, ⟨none, some Secnonce.zero⟩, 1⟩ := by
  rw [partial_sign_wipes]; exact sign_zero_nonce _ _ _ _

/-- Non-vacuity: `snA` is live and signs; the zero object, `snA` with a flipped magic byte and `snA`
    with zero scalars are not live. -/
example : Live snA ∧ (partialSign true (some snA) (some kpA) (some cacheA) (some sessA)).ret = 1 ∧
    ¬ Live Secnonce.zero ∧ ¬ Live { snA with magic := flipFirst snA.magic } ∧ ¬ Live { snA with k1 := 0, k2 := 0 } := by
  decide +kernel

/-! ## 3. Binding to the public key -/

/-- **`binding`.**  If `partial_sign` returns 1 then a keypair was supplied, it loads, and its public
    key EQUALS the public key stored in the secnonce - equality of `Pt`, i.e. of both coordinates.
    (Together with: the nonce loads, the output pointer, cache and session are present and load.) -/
theorem binding {wantSig : Bool} {sn : Secnonce} {keypair : Option Keys.Keypair} {cache : Option KeyaggCache}
    {session : Option Session} (h : (partialSign wantSig (some sn) keypair cache session).ret = 1) :
    ∃ kp, keypair = some kp ∧ kp.pk = sn.pk ∧ kp.pk ≠ Pt.inf ∧ Live sn ∧ wantSig = true ∧
      (∃ c ci, cache = some c ∧ cacheLoad c = some ci) ∧ (∃ s si, session = some s ∧ sessionLoad s = some si) := by
  obtain ⟨k1, k2, kp', c', s', sk, ci, si, hl, hw, hkp, hc, hs, hk, hpk, hci, hsi⟩ := partialSign_success h
  refine ⟨kp', hkp, hpk, (keypairLoad_ok hk).2.1, ?_, hw, ⟨c', ci, hc, hci⟩, ⟨s', si, hs, hsi⟩⟩
  exact (live_iff_load sn).2 (by rw [hl]; rfl)

/-- Contrapositive: a keypair whose public key differs from the one in the secnonce gets return value 0
    (and, by `partial_sign_wipes`, the nonce is gone all the same). -/
theorem binding_refuses (wantSig : Bool) {sn : Secnonce} {kp : Keys.Keypair} (cache : Option KeyaggCache)
    (session : Option Session) (h : kp.pk ≠ sn.pk) :
    (partialSign wantSig (some sn) (some kp) cache session).ret = 0 := by
  rcases partialSign_ret01 wantSig (some sn) (some kp) cache session with h0 | h1
  · exact h0
  · obtain ⟨kp', hkp, hpk, _⟩ := binding h1
    cases hkp
    exact absurd hpk h

/-- Same x, other y is refused: the check is on both coordinates. -/
theorem binding_both_coordinates (wantSig : Bool) {sn : Secnonce} {kp : Keys.Keypair} {x y y' : Nat}
    (cache : Option KeyaggCache) (session : Option Session)
    (hsn : sn.pk = Pt.aff x y) (hkp : kp.pk = Pt.aff x y') (hy : y' ≠ y) :
    (partialSign wantSig (some sn) (some kp) cache session).ret = 0 := by
  apply binding_refuses
  rw [hsn, hkp]
  intro h
  cases h
  exact hy rfl

/-- The negated point differs from the point (for a reduced, non-zero y: every curve point). -/
theorem neg_ne_self {x y : Nat} (h0 : 0 < y) (hP : y < P) : Pt.neg (Pt.aff x y) ≠ Pt.aff x y := by
  intro h
  have hy : Fe.neg y = y := by
    simp only [Pt.neg, Pt.aff.injEq, true_and] at h
    exact h
  unfold Fe.neg at hy
  rw [Nat.mod_eq_of_lt hP, Nat.mod_eq_of_lt (by omega)] at hy
  have hodd : P % 2 = 1 := by decide
  omega

/-- **The negated keypair is refused.**  A nonce generated for the public key `(x, y)` cannot be used
    with the keypair of the negated secret key, whose public key is `(x, -y)`. -/
theorem binding_negated_keypair (wantSig : Bool) {sn : Secnonce} {kp : Keys.Keypair} {x y : Nat}
    (cache : Option KeyaggCache) (session : Option Session)
    (hsn : sn.pk = kp.pk) (hkp : kp.pk = Pt.aff x y) (h0 : 0 < y) (hP : y < P) :
    (partialSign wantSig (some sn) (some (negKeypair kp)) cache session).ret = 0 := by
  apply binding_refuses
  show Pt.neg kp.pk ≠ sn.pk
  rw [hsn, hkp]
  exact neg_ne_self h0 hP

/-- Non-vacuity: with the right keypair the call succeeds; with the negated keypair (which is a valid
    keypair object: it loads) and with another keypair it returns 0. -/
example : (partialSign true (some snA) (some kpA) (some cacheA) (some sessA)).ret = 1 ∧
    (Keys.keypairLoad (negKeypair kpA) true).1 = true ∧
    (partialSign true (some snA) (some (negKeypair kpA)) (some cacheA) (some sessA)).ret = 0 ∧
    (partialSign true (some snA) (some kpB) (some cacheA) (some sessA)).ret = 0 := by
  decide +kernel

example : snA.pk = kpA.pk ∧ kpA.pk = Pt.aff Pt.Gx Pt.Gy ∧ 0 < Pt.Gy ∧ Pt.Gy < P := by decide +kernel

/-! ## 4. Nonce generation -/

/-- **`nonce_gen_rejects_zero_rand`.**  `secp256k1_musig_nonce_gen` with all-zero `session_secrand32`
    returns 0 (for all other arguments), ... -/
theorem nonce_gen_rejects_zero_rand (wantSec wantPub : Bool) {secrand : Bytes} (seckey : Option Bytes)
    (pubkey : Option Pt) (msg32 : Option Bytes) (cache : Option KeyaggCache) (extra32 : Option Bytes)
    (h : Bytes.isZero secrand = true) :
    (nonceGen wantSec wantPub (some secrand) seckey pubkey msg32 cache extra32).ret = 0 := by
  unfold nonceGen
  cases wantSec <;> simp [h]

/-- ... and when the secnonce pointer is non-NULL it is the plain `return 0` after
    `secnonce_invalidate`: secnonce zeroed, pubnonce not written, no callback. -/
theorem nonce_gen_zero_rand_result (wantPub : Bool) {secrand : Bytes} (seckey : Option Bytes)
    (pubkey : Option Pt) (msg32 : Option Bytes) (cache : Option KeyaggCache) (extra32 : Option Bytes)
    (h : Bytes.isZero secrand = true) :
    nonceGen true wantPub (some secrand) seckey pubkey msg32 cache extra32 =
      ⟨0, ⟨some Secnonce.zero, none, some secrand⟩, 0⟩ := by
  unfold nonceGen
  simp [h]

/-- **`nonce_gen_fail_zero`** for `nonce_gen`: whenever it does not return 1, the secnonce object
    (pointer non-NULL) is all-zero after the call. -/
theorem nonce_gen_fail_zero (wantPub : Bool) (secrand seckey : Option Bytes)
    (pubkey : Option Pt) (msg32 : Option Bytes) (cache : Option KeyaggCache) (extra32 : Option Bytes)
    (h : (nonceGen true wantPub secrand seckey pubkey msg32 cache extra32).ret ≠ 1) :
    (nonceGen true wantPub secrand seckey pubkey msg32 cache extra32).out.secnonce = some Secnonce.zero := by
  unfold nonceGen at h ⊢
  simp only [Bool.not_true, Bool.false_eq_true, if_false] at h ⊢
  split
  · rfl
  · rename_i sr
    split
    · rfl
    · rename_i hz
      simp only [hz] at h
      simp only [nonceGenInternal_fail h]

/-- With a NULL secnonce pointer nothing is written (one callback). -/
theorem nonce_gen_null_secnonce (wantPub : Bool) (secrand seckey : Option Bytes)
    (pubkey : Option Pt) (msg32 : Option Bytes) (cache : Option KeyaggCache) (extra32 : Option Bytes) :
    nonceGen false wantPub secrand seckey pubkey msg32 cache extra32 = ⟨0, ⟨none, none, secrand⟩, 1⟩ := rfl

/-- **`nonce_gen_fail_zero`** for `nonce_gen_counter`. -/
theorem nonce_gen_counter_fail_zero (wantPub : Bool) (cnt : Nat) (keypair : Option Keys.Keypair)
    (msg32 : Option Bytes) (cache : Option KeyaggCache) (extra32 : Option Bytes)
    (h : (nonceGenCounter true wantPub cnt keypair msg32 cache extra32).ret ≠ 1) :
    (nonceGenCounter true wantPub cnt keypair msg32 cache extra32).out.secnonce = some Secnonce.zero := by
  unfold nonceGenCounter at h ⊢
  simp only [Bool.not_true, Bool.false_eq_true, if_false] at h ⊢
  split
  · rfl
  · simp only [nonceGenInternal_fail h]

/-- The return values of both entry points are 0 or 1 (so "does not return 1" is "returns 0"). -/
theorem nonce_gen_ret01 (wantSec wantPub : Bool) (secrand seckey : Option Bytes)
    (pubkey : Option Pt) (msg32 : Option Bytes) (cache : Option KeyaggCache) (extra32 : Option Bytes) :
    (nonceGen wantSec wantPub secrand seckey pubkey msg32 cache extra32).ret = 0 ∨
    (nonceGen wantSec wantPub secrand seckey pubkey msg32 cache extra32).ret = 1 := by
  unfold nonceGen
  split
  · exact Or.inl rfl
  · split
    · exact Or.inl rfl
    · split
      · exact Or.inl rfl
      · exact nonceGenInternal_ret01 _ _ _ _ _ _ _

theorem nonce_gen_counter_ret01 (wantSec wantPub : Bool) (cnt : Nat) (keypair : Option Keys.Keypair)
    (msg32 : Option Bytes) (cache : Option KeyaggCache) (extra32 : Option Bytes) :
    (nonceGenCounter wantSec wantPub cnt keypair msg32 cache extra32).ret = 0 ∨
    (nonceGenCounter wantSec wantPub cnt keypair msg32 cache extra32).ret = 1 := by
  unfold nonceGenCounter
  split
  · exact Or.inl rfl
  · split
    · exact Or.inl rfl
    · exact nonceGenInternal_ret01 _ _ _ _ _ _ _

/-- **`rand_wiped_on_success`.**  When `nonce_gen` returns 1 the caller's `session_secrand32` buffer
    is 32 zero bytes after the call; when it returns 0 the buffer is unchanged. -/
theorem rand_wiped_on_success (wantSec wantPub : Bool) (secrand seckey : Option Bytes)
    (pubkey : Option Pt) (msg32 : Option Bytes) (cache : Option KeyaggCache) (extra32 : Option Bytes) :
    ((nonceGen wantSec wantPub secrand seckey pubkey msg32 cache extra32).ret = 1 →
      (nonceGen wantSec wantPub secrand seckey pubkey msg32 cache extra32).out.secrand = some (Bytes.zeros 32)) ∧
    ((nonceGen wantSec wantPub secrand seckey pubkey msg32 cache extra32).ret ≠ 1 →
      (nonceGen wantSec wantPub secrand seckey pubkey msg32 cache extra32).out.secrand = secrand) := by
  unfold nonceGen
  split
  · exact ⟨fun h => absurd h (by simp), fun _ => rfl⟩
  · split
    · exact ⟨fun h => absurd h (by simp), fun _ => rfl⟩
    · split
      · exact ⟨fun h => absurd h (by simp), fun _ => rfl⟩
      · constructor
        · intro h
          simp only at h
          simp only [h, if_true]
        · intro h
          simp only at h
          simp only [h, if_false]

/-- **Binding at generation.**  When `nonce_gen` returns 1, the secnonce written is
    `magic || k1 || k2 || pubkey` for the very public key that was supplied (a valid one), the
    randomness was not all-zero, and a pubnonce `(k1·G, k2·G)` was written. -/
theorem nonce_gen_binds_pk {wantSec wantPub : Bool} {secrand seckey : Option Bytes}
    {pubkey : Option Pt} {msg32 : Option Bytes} {cache : Option KeyaggCache} {extra32 : Option Bytes}
    (h : (nonceGen wantSec wantPub secrand seckey pubkey msg32 cache extra32).ret = 1) :
    ∃ k1 k2 pk sr, wantSec = true ∧ pubkey = some pk ∧ pk ≠ Pt.inf ∧ secrand = some sr ∧ Bytes.isZero sr = false ∧
      (nonceGen wantSec wantPub secrand seckey pubkey msg32 cache extra32).out.secnonce = some (secnonceSave k1 k2 pk) ∧
      (nonceGen wantSec wantPub secrand seckey pubkey msg32 cache extra32).out.pubnonce =
        some (pubnonceSave (Pt.mulG k1) (Pt.mulG k2)) := by
  unfold nonceGen at h ⊢
  split at h
  · simp at h
  · rename_i hw
    split at h
    · simp at h
    · rename_i sr
      split at h
      · simp at h
      · rename_i hz
        simp only at h
        obtain ⟨k1, k2, p, _, hp, hp0, hsn, hpn⟩ := nonceGenInternal_ok h
        refine ⟨k1, k2, p, sr, by simpa using hw, hp, hp0, rfl, by simpa using hz, ?_, ?_⟩
        · simp only [hw, hz, hsn]; rfl
        · simp only [hw, hz, hpn]; rfl

/-- The same for `nonce_gen_counter`: the public key stored is the keypair's. -/
theorem nonce_gen_counter_binds_pk {wantSec wantPub : Bool} {cnt : Nat} {keypair : Option Keys.Keypair}
    {msg32 : Option Bytes} {cache : Option KeyaggCache} {extra32 : Option Bytes}
    (h : (nonceGenCounter wantSec wantPub cnt keypair msg32 cache extra32).ret = 1) :
    ∃ k1 k2 kp, wantSec = true ∧ keypair = some kp ∧ kp.pk ≠ Pt.inf ∧
      (nonceGenCounter wantSec wantPub cnt keypair msg32 cache extra32).out.secnonce =
        some (secnonceSave k1 k2 kp.pk) := by
  unfold nonceGenCounter at h ⊢
  split at h
  · simp at h
  · rename_i hw
    split at h
    · simp at h
    · rename_i kp
      simp only at h
      obtain ⟨k1, k2, p, _, hp, hp0, hsn, _⟩ := nonceGenInternal_ok h
      cases hp
      refine ⟨k1, k2, kp, by simpa using hw, rfl, hp0, ?_⟩
      simp only [hw, hsn]; rfl

/-- Generation and signing together: a nonce produced by a successful `nonce_gen` for public key `pk`
    is refused by `partial_sign` for every keypair whose public key is not `pk`. -/
theorem generated_nonce_is_bound {wantPub : Bool} {secrand seckey : Option Bytes}
    {pubkey : Option Pt} {msg32 : Option Bytes} {cache : Option KeyaggCache} {extra32 : Option Bytes}
    (h : (nonceGen true wantPub secrand seckey pubkey msg32 cache extra32).ret = 1)
    (wantSig : Bool) (kp : Keys.Keypair) (cache' : Option KeyaggCache) (session : Option Session)
    (hne : some kp.pk ≠ pubkey) :
    (partialSign wantSig (nonceGen true wantPub secrand seckey pubkey msg32 cache extra32).out.secnonce
      (some kp) cache' session).ret = 0 := by
  obtain ⟨k1, k2, pk, sr, _, hp, _, _, _, hsn, _⟩ := nonce_gen_binds_pk h
  rw [hsn]
  apply binding_refuses
  intro he
  apply hne
  rw [hp, he]; rfl

/-- Non-vacuity: a successful `nonce_gen` (secnonce live and bound to `G`, randomness wiped), the
    all-zero randomness rejected, an invalid secret key (return 0 AFTER the derivation: secnonce
    zeroed, randomness kept), a successful and a failing `nonce_gen_counter`. -/
example :
    let r := nonceGen true true (some randA) (some kpA.sk) (some kpA.pk) (some (Bytes.zeros 32)) (some cacheA) none
    r.ret = 1 ∧ r.out.secrand = some (Bytes.zeros 32) ∧ (r.out.secnonce.map (·.pk)) = some Pt.G ∧
    (r.out.secnonce.map (fun s => decide (Live s))) = some true := by
  decide +kernel

example :
    (nonceGen true true (some (Bytes.zeros 32)) (some kpA.sk) (some kpA.pk) none none none).ret = 0 ∧
    (let r := nonceGen true true (some randA) (some (Bytes.zeros 32)) (some kpA.pk) none none none
     r.ret = 0 ∧ r.illegal = 0 ∧ r.out.secnonce = some Secnonce.zero ∧ r.out.secrand = some randA) ∧
    (nonceGenCounter true true 7 (some kpA) none none none).ret = 1 ∧
    (nonceGenCounter true true 7 (some Keys.Keypair.zero) none none none).ret = 0 := by
  decide +kernel

/-! ## 5. Histories

  `runStep su j st step` is the model's history machine over two secnonce slots (slot number `0` is
  slot 0, any other number is slot 1 - `SameSlot`).  A `gen` step calls one of the two generation entry
  points on the slot, a `sign` step calls `partial_sign` on the slot (after optional caller-side
  tampering: `zeroed`, `badMagic`; mode `nullNonce` passes a NULL pointer instead of the slot), a
  `copy` step duplicates the object bytes of one slot into the other (forbidden by the API).

  What is claimed.  The theorems are about OBJECTS HANDED TO A SIGNING CALL: every signing call that is
  handed a slot leaves that slot all-zero, and an all-zero slot never signs.  Hence between two writes
  into a slot (a `gen` step on it or a `copy` into it - the only steps that can put a live nonce there)
  at most one partial signature is produced from it.
  What is NOT claimed.  A `copy` made BEFORE the first signing call creates a second live object, and
  each of the two objects can sign once (see the last example: that is the nonce reuse the API
  documentation forbids, and no library can prevent it).  A `copy` made AFTER the signing call copies
  zeros (`copy_after_sign_is_dead`). -/

/-! ### 5a. The two step facts -/

/-- **Every signing step that is handed the slot leaves it all-zero** - for every mode (right or wrong
    keypair, NULL output / keypair / cache / session, invalid cache / session, tampered object), every
    setup, every prior state, whether the step returned 1 or 0. -/
theorem sign_step_wipes (su : HistSetup) (j : Nat) (st : HistState) (slot : Nat) {mode : SignMode}
    (h : mode ≠ .nullNonce) :
    (runStep su j st (.sign slot mode)).1.get slot = Secnonce.zero :=
  sign_step_zeroes su j st slot h

/-- **An all-zero slot never signs**: return 0, no signature, and the slot stays all-zero. -/
theorem zero_slot_does_not_sign (su : HistSetup) (j : Nat) {st : HistState} {slot : Nat} (mode : SignMode)
    (h : st.get slot = Secnonce.zero) :
    (runStep su j st (.sign slot mode)).2.ret = 0 ∧ (runStep su j st (.sign slot mode)).2.sig = none ∧
    (runStep su j st (.sign slot mode)).1.get slot = Secnonce.zero :=
  sign_step_zero_slot su j mode h

/-- A copy taken after a signing call on the source is dead: it does not sign. -/
theorem copy_after_sign_is_dead (su : HistSetup) (j j' j'' : Nat) (st : HistState) (a b : Nat)
    {mode : SignMode} (mode' : SignMode) (h : mode ≠ .nullNonce) :
    let st1 := (runStep su j st (.sign a mode)).1
    let st2 := (runStep su j' st1 (.copy a b)).1
    (runStep su j'' st2 (.sign b mode')).2.ret = 0 := by
  intro st1 st2
  apply (zero_slot_does_not_sign su j'' mode' _).1
  show (runStep su j' st1 (.copy a b)).1.get b = Secnonce.zero
  rw [copy_step_dst]
  exact sign_step_wipes su j st a h

/-! ### 5b. The invariant, with ghost counters -/

/-- The model state instrumented with two ghost counters: `n0` (`n1`) = number of successful partial
    signatures produced from slot 0 (slot 1) since the slot was last written by a `gen` step or by a
    `copy` into it. -/
structure Counted where
  st : HistState
  n0 : Nat
  n1 : Nat

/-- update the model state and apply `f` to the counter of slot `k` -/
def Counted.upd (g : Counted) (st' : HistState) (k : Nat) (f : Nat → Nat) : Counted :=
  if k = 0 then ⟨st', f g.n0, g.n1⟩ else ⟨st', g.n0, f g.n1⟩

/-- One step of the instrumented machine: the model's `runStep` on the state; a `gen` on / `copy` into
    slot `k` starts a new generation there (counter := 0); a `sign` on slot `k` that returns 1 counts. -/
def countedStep (su : HistSetup) (j : Nat) (g : Counted) (s : Step) : Counted :=
  let r := runStep su j g.st s
  match s with
  | .gen k _ => g.upd r.1 k (fun _ => 0)
  | .copy _ k => g.upd r.1 k (fun _ => 0)
  | .sign k _ => g.upd r.1 k (fun n => if r.2.ret = 1 then n + 1 else n)

def countedRun (su : HistSetup) : Nat → Counted → List Step → Counted
  | _, g, [] => g
  | j, g, s :: rest => countedRun su (j + 1) (countedStep su j g s) rest

def Counted.init : Counted := ⟨HistState.init, 0, 0⟩

/-- The instrumentation does not change the model: the state component is `runStep`'s. -/
theorem countedStep_st (su : HistSetup) (j : Nat) (g : Counted) (s : Step) :
    (countedStep su j g s).st = (runStep su j g.st s).1 := by
  cases s <;> (simp only [countedStep, Counted.upd]; split <;> rfl)

/-- ... and over whole histories it is `runHistory`'s final state. -/
theorem countedRun_st (su : HistSetup) (j : Nat) (g : Counted) (steps : List Step) :
    (countedRun su j g steps).st = (runHistory su j g.st steps).1 := by
  induction steps generalizing j g with
  | nil => rfl
  | cons s rest ih => rw [countedRun, ih, countedStep_st, runHistory_cons]

/-- per slot: at most one signature in the current generation, and once it has been produced the slot
    is all-zero -/
def SlotInv (n : Nat) (sn : Secnonce) : Prop := n ≤ 1 ∧ (n = 1 → sn = Secnonce.zero)

/-- **The invariant.** -/
def Inv (g : Counted) : Prop := SlotInv g.n0 (g.st.get 0) ∧ SlotInv g.n1 (g.st.get 1)

instance (g : Counted) : Decidable (Inv g) := by unfold Inv SlotInv; infer_instance

/-- `Inv` holds initially (both slots all-zero, no signatures). -/
theorem inv_init : Inv Counted.init := by decide

theorem slotInv_reset (sn : Secnonce) : SlotInv 0 sn := ⟨by omega, fun h => absurd h (by omega)⟩

/-- the signing step on the slot it names -/
theorem slotInv_sign (su : HistSetup) (j : Nat) (st : HistState) (k : Nat) (m : SignMode) {n : Nat}
    (h : SlotInv n (st.get k)) :
    SlotInv (if (runStep su j st (.sign k m)).2.ret = 1 then n + 1 else n)
      ((runStep su j st (.sign k m)).1.get k) := by
  by_cases hr : (runStep su j st (.sign k m)).2.ret = 1
  · -- success: the slot was not used before in this generation, and it is zero now
    have hn : n ≠ 1 := fun h1 => by
      have := (sign_step_zero_slot su j m (h.2 h1)).1
      omega
    simp only [hr, if_true]
    refine ⟨by have := h.1; omega, fun _ => sign_step_success_zeroes su j st k m hr⟩
  · simp only [hr, if_false]
    exact ⟨h.1, fun h1 => (sign_step_zero_slot su j m (h.2 h1)).2.2⟩

theorem not_sameSlot_0_1 : ¬ SameSlot 0 1 := by decide
theorem not_sameSlot_of_ne_zero {k : Nat} (h : ¬ k = 0) : ¬ SameSlot k 0 := fun hs => h (hs.2 rfl)
theorem sameSlot_one_of_ne_zero {k : Nat} (h : ¬ k = 0) : SameSlot k 1 :=
  ⟨fun a => absurd a h, fun a => absurd a (by decide)⟩

/-- **`Inv` is preserved by every step** of the model's history machine: every `gen` mode, every `sign`
    mode, every `copy`, on either slot, at every step index, for every setup. -/
theorem inv_step (su : HistSetup) (j : Nat) (g : Counted) (s : Step) (h : Inv g) :
    Inv (countedStep su j g s) := by
  obtain ⟨h0, h1⟩ := h
  cases s with
  | gen k m =>
    by_cases hk : k = 0
    · subst hk
      refine ⟨slotInv_reset _, ?_⟩
      show SlotInv g.n1 ((runStep su j g.st (.gen 0 m)).1.get 1)
      rw [gen_step_other su j g.st m not_sameSlot_0_1]; exact h1
    · simp only [Inv, countedStep, Counted.upd, hk, if_false]
      refine ⟨?_, slotInv_reset _⟩
      rw [gen_step_other su j g.st m (not_sameSlot_of_ne_zero hk)]; exact h0
  | copy src k =>
    by_cases hk : k = 0
    · subst hk
      refine ⟨slotInv_reset _, ?_⟩
      show SlotInv g.n1 ((runStep su j g.st (.copy src 0)).1.get 1)
      rw [copy_step_other su j g.st src not_sameSlot_0_1]; exact h1
    · simp only [Inv, countedStep, Counted.upd, hk, if_false]
      refine ⟨?_, slotInv_reset _⟩
      rw [copy_step_other su j g.st src (not_sameSlot_of_ne_zero hk)]; exact h0
  | sign k m =>
    by_cases hk : k = 0
    · subst hk
      refine ⟨slotInv_sign su j g.st 0 m h0, ?_⟩
      show SlotInv g.n1 ((runStep su j g.st (.sign 0 m)).1.get 1)
      rw [sign_step_other su j g.st m not_sameSlot_0_1]; exact h1
    · simp only [Inv, countedStep, Counted.upd, hk, if_false]
      refine ⟨?_, ?_⟩
      · rw [sign_step_other su j g.st m (not_sameSlot_of_ne_zero hk)]; exact h0
      · have hs := sameSlot_one_of_ne_zero hk
        rw [← get_congr _ hs]
        apply slotInv_sign
        rw [get_congr _ hs]; exact h1

/-- `Inv` after an ARBITRARY finite list of steps, by induction on the list. -/
theorem inv_run (su : HistSetup) (j : Nat) (g : Counted) (steps : List Step) (h : Inv g) :
    Inv (countedRun su j g steps) := by
  induction steps generalizing j g with
  | nil => exact h
  | cons s rest ih => exact ih (j + 1) _ (inv_step su j g s h)

/-- **`at_most_one_sig` (counting corollary).**  For every setup and every finite history run from the
    initial state, and every prefix of it: in every slot, the number of successful partial signatures
    produced since the slot was last written by a generation step (or a copy into it) is at most 1; and
    if it is 1 the slot is all-zero. -/
theorem at_most_one_sig (su : HistSetup) (steps : List Step) :
    let g := countedRun su 0 Counted.init steps
    g.n0 ≤ 1 ∧ g.n1 ≤ 1 ∧ (g.n0 = 1 → g.st.slot0 = Secnonce.zero) ∧ (g.n1 = 1 → g.st.slot1 = Secnonce.zero) := by
  have h := inv_run su 0 Counted.init steps inv_init
  exact ⟨h.1.1, h.2.1, h.1.2, h.2.2⟩

/-! ### 5c. The same, read off the trace of `runHistory` -/

/-- the step is a signing call on slot `k` -/
def signsOn (k : Nat) : Step → Bool
  | .sign k' _ => decide (SameSlot k' k)
  | _ => false

/-- the step can put a new object into slot `k`: a `gen` on it or a `copy` into it -/
def writesTo (k : Nat) : Step → Bool
  | .gen k' _ => decide (SameSlot k' k)
  | .copy _ k' => decide (SameSlot k' k)
  | .sign _ _ => false

/-- number of successful signing steps on slot `k` when `steps` is run from state `st` at index `j` -/
def sigCount (su : HistSetup) (k : Nat) : Nat → HistState → List Step → Nat
  | _, _, [] => 0
  | j, st, s :: rest =>
    (if signsOn k s = true ∧ (runStep su j st s).2.ret = 1 then 1 else 0) +
      sigCount su k (j + 1) (runStep su j st s).1 rest

/-- `sigCount` is what one reads off the observations returned by `runHistory`. -/
theorem sigCount_eq_observed (su : HistSetup) (k j : Nat) (st : HistState) (steps : List Step) :
    sigCount su k j st steps =
      ((steps.zip (runHistory su j st steps).2).filter
        (fun p => signsOn k p.1 && decide (p.2.1.ret = 1))).length := by
  induction steps generalizing j st with
  | nil => rfl
  | cons s rest ih =>
    rw [sigCount, ih, runHistory_cons]
    simp only [List.zip_cons_cons, List.filter_cons]
    by_cases hc : signsOn k s = true ∧ (runStep su j st s).2.ret = 1
    · simp only [hc, and_self, if_true, Bool.true_and, decide_true, List.length_cons]; omega
    · simp only [hc, if_false, Nat.zero_add]
      have : (signsOn k s && decide ((runStep su j st s).2.ret = 1)) = false := by
        cases hs : signsOn k s <;> simp_all
      simp only [this, Bool.false_eq_true, if_false]

/-- a step that does not write slot `k` keeps it all-zero -/
theorem step_keeps_zero (su : HistSetup) (j : Nat) {st : HistState} {k : Nat} (s : Step)
    (hz : st.get k = Secnonce.zero) (hw : writesTo k s = false) :
    (runStep su j st s).1.get k = Secnonce.zero := by
  cases s with
  | gen k' m =>
    have : ¬ SameSlot k' k := by simpa [writesTo] using hw
    rw [gen_step_other su j st m this]; exact hz
  | copy src k' =>
    have : ¬ SameSlot k' k := by simpa [writesTo] using hw
    rw [copy_step_other su j st src this]; exact hz
  | sign k' m =>
    by_cases hs : SameSlot k' k
    · rw [← get_congr _ hs]
      apply (sign_step_zero_slot su j m _).2.2
      rw [get_congr _ hs]; exact hz
    · rw [sign_step_other su j st m hs]; exact hz

/-- a signing step on an all-zero slot `k` does not return 1 -/
theorem step_zero_no_sig (su : HistSetup) (j : Nat) {st : HistState} {k : Nat} (s : Step)
    (hz : st.get k = Secnonce.zero) : ¬ (signsOn k s = true ∧ (runStep su j st s).2.ret = 1) := by
  rintro ⟨hs, hr⟩
  cases s with
  | gen k' m => simp [signsOn] at hs
  | copy src k' => simp [signsOn] at hs
  | sign k' m =>
    have hsame : SameSlot k' k := by simpa [signsOn] using hs
    have := (sign_step_zero_slot su j (st := st) (slot := k') m (by rw [get_congr _ hsame]; exact hz)).1
    omega

/-- **A zero slot never signs**, over histories: from any state in which slot `k` is all-zero, any
    number of steps that do not write slot `k` produce no signature from slot `k`. -/
theorem zero_slot_never_signs (su : HistSetup) (k j : Nat) (st : HistState) (steps : List Step)
    (hz : st.get k = Secnonce.zero) (hw : ∀ s ∈ steps, writesTo k s = false) :
    sigCount su k j st steps = 0 := by
  induction steps generalizing j st with
  | nil => rfl
  | cons s rest ih =>
    rw [sigCount, if_neg (step_zero_no_sig su j s hz), Nat.zero_add]
    exact ih (j + 1) _ (step_keeps_zero su j s hz (hw s (List.mem_cons_self ..)))
      (fun t ht => hw t (List.mem_cons_of_mem _ ht))

/-- **`at_most_one_sig_between_writes`.**  From ANY state (any object in the slot, reachable or not), at
    any step index, for any setup: a stretch of steps of any length that contains no `gen` on slot `k`
    and no `copy` into slot `k` produces at most one successful partial signature from slot `k` -
    whatever modes the signing steps use, whatever happens on the other slot, whether the first signing
    call on `k` succeeds or fails. -/
theorem at_most_one_sig_between_writes (su : HistSetup) (k j : Nat) (st : HistState) (steps : List Step)
    (hw : ∀ s ∈ steps, writesTo k s = false) :
    sigCount su k j st steps ≤ 1 := by
  induction steps generalizing j st with
  | nil => exact Nat.zero_le _
  | cons s rest ih =>
    have hrest : ∀ t ∈ rest, writesTo k t = false := fun t ht => hw t (List.mem_cons_of_mem _ ht)
    rw [sigCount]
    by_cases hc : signsOn k s = true ∧ (runStep su j st s).2.ret = 1
    · -- the one signature; afterwards the slot is zero and stays silent
      rw [if_pos hc]
      cases s with
      | gen k' m => simp [signsOn] at hc
      | copy src k' => simp [signsOn] at hc
      | sign k' m =>
        have hsame : SameSlot k' k := by simpa [signsOn] using hc.1
        have hz : (runStep su j st (.sign k' m)).1.get k = Secnonce.zero := by
          rw [← get_congr _ hsame]; exact sign_step_success_zeroes su j st k' m hc.2
        rw [zero_slot_never_signs su k (j + 1) _ rest hz hrest]
        exact Nat.le_refl _
    · rw [if_neg hc, Nat.zero_add]
      exact ih (j + 1) _ hrest

/-- The form "between two generation steps" for histories run from the initial state: after any prefix
    `pre`, any following segment `seg` without writes into slot `k` yields at most one signature from
    slot `k` (and whatever follows `seg` is irrelevant to the count over `seg`). -/
theorem at_most_one_sig_segment (su : HistSetup) (k : Nat) (pre seg : List Step)
    (hw : ∀ s ∈ seg, writesTo k s = false) :
    sigCount su k pre.length (runHistory su 0 HistState.init pre).1 seg ≤ 1 :=
  at_most_one_sig_between_writes su k pre.length _ seg hw

/-! ### Non-vacuity of the history theorems (real nonce derivation, evaluated in the kernel) -/

/-- `gen 0; sign 0 (ok); sign 0 (other session); gen 0; sign 0 (wrong keypair); sign 0 (ok)`:
    returns 1,1,0,1,0,0 - the second nonce is burnt by the FAILED call - and slot 0 is all-zero after
    every signing step. -/
example :
    (runHistory suA 0 HistState.init
      [.gen 0 .ok, .sign 0 .ok, .sign 0 .session2, .gen 0 .ok, .sign 0 .wrongKp, .sign 0 .ok]).2.map
        (fun o => (o.1.ret, o.2.1)) =
      [(1, false), (1, true), (0, true), (1, false), (0, true), (0, true)] := by
  decide +kernel

/-- the hypotheses of the trace theorem on a concrete segment, and the count it bounds -/
example :
    (∀ s ∈ [Step.sign 0 .ok, .sign 0 .session2, .gen 1 .ctr, .sign 1 .ok, .copy 0 1],
      writesTo 0 s = false) ∧
    sigCount suA 0 1 (runHistory suA 0 HistState.init [.gen 0 .ok]).1
      [.sign 0 .ok, .sign 0 .session2, .gen 1 .ctr, .sign 1 .ok, .copy 0 1] = 1 := by
  decide +kernel

/-- the ghost counters on a concrete history: both reach 1 -/
example :
    let g := countedRun suA 0 Counted.init [.gen 0 .ok, .gen 1 .ctr, .sign 1 .ok, .sign 0 .ok, .sign 0 .ok]
    g.n0 = 1 ∧ g.n1 = 1 := by
  decide +kernel

/-- What is NOT claimed: a copy made BEFORE the first signing call is a second live object; both
    objects sign (with different sessions: nonce reuse).  A copy made after is dead. -/
example :
    (runHistory suA 0 HistState.init
      [.gen 0 .ok, .copy 0 1, .sign 0 .ok, .sign 1 .session2, .copy 0 1, .sign 1 .ok]).2.map (fun o => o.1.ret) =
      [1, 1, 1, 1, 1, 0] := by
  decide +kernel

end C13
end Musig
end SecpZkp
