import SecpZkp.Proofs.CtSpecGroup
import SecpZkp.Proofs.Int128
import SecpZkp.Props.C05_scalar
import SecpZkp.Props.C05_scalar8x32
/-
  C05 (selection / predicate part): FUNCTIONAL specifications of the branch-free primitives whose constant-time
  property is proved in `Props/C06.lean`, for BOTH configurations of the C library:
  `Gen.ct.*` (5×52 field, 4×64 scalar; `src/field_5x52_impl.h`, `src/scalar_4x64_impl.h`) and
  `Gen.ct32.*` (10×26 field, 8×32 scalar; `src/field_10x26_impl.h`, `src/scalar_8x32_impl.h`), plus `src/util.h`,
  `src/group_impl.h`.

  Object of the theorems: the MiniC IR that `tools/c2lean_k.py` regenerates from the C sources, run with C's
  WRAP-AROUND semantics `execL`:  `runC f env = (execL env f.body).env` is the final memory, `retC f env =
  (execL env f.body).ret` the returned value.  Struct members are arrays of the memory (`"r.n"`, `"a.d"`, `"r.x.n"`, …);
  scalars (`"flag"`, `"r.infinity"`) live in cell 0 of their name.  Nothing re-types the algorithms.

  1. conditional moves (`fe_cmov`, `fe_storage_cmov`, `scalar_cmov`, `int_cmov`, `gej_cmov`, `ge_storage_cmov`):
     for `flag ∈ {0,1}` and ALL word values of the layout width, every word of `r` afterwards is the word of `a`
     if `flag = 1` and the old word of `r` if `flag = 0`
  2. `scalar_cond_negate`: for `r < N`: `r' = r` / `(N - r) mod N`, returned value `1` / `-1` (`0xFFFFFFFF` as the
     32-bit two's complement)
  3. `scalar_is_zero`, `scalar_is_high`, `scalar_check_overflow`: the returned 0/1 value is the predicate
     `a = 0`, `a > (N-1)/2`, `a ≥ N` (for all limb values, not only for `a < N`)
  4. `fe_normalizes_to_zero`: returned value `1` iff the value is `≡ 0 (mod p)`; 5×52: all of magnitude ≤ 32;
     10×26: under `NoOvf10` (the extreme magnitude-32 inputs on which the first-pass 32-bit additions wrap are the
     known defect recorded in `Props/C05_fieldlin.lean`; `fe_normalizes_to_zero_10x26_mag32_counterexample` below
     shows that the defect is visible through this function as well), hence named `…_partial`, with the
     unconditional corollary for magnitude ≤ 31
  5. `fe_get_b32`: for a normalized input the 32 output cells are bytes and their big-endian value is the value
     of the field element
  6. `gej_neg` (`x`, `z`, `infinity` copied, `r.y + a.y ≡ 0`, magnitude 2) and `ge_to_storage` (the storage words hold
     `a.x mod p`, `a.y mod p`); 10×26: under `NoOvf10` (`…_partial`), with corollaries for magnitude ≤ 31.

  Not modelled: aliasing of `r` and `a` (the IR keeps `"r.*"` and `"a.*"` apart); `VERIFY_CHECK`s.
  No axioms beyond propext / Classical.choice / Quot.sound.
-/

namespace SecpZkp
namespace C05sel
open MiniC FieldKernel FieldLinear CtSpec Int128 ScalarKernel ScalarKernel32

/-- `runR` (helpers) is the pair (`runC`, `retC`) -/
theorem runR_eq (f : Fn) (env : Env) : runR env f.body = (runC f env, retC f env) := rfl

/-- a memory fragment: cells `a[0..n-1]` with values `f 0 … f (n-1)` -/
def fill (a : String) (f : Nat → Nat) : Nat → Env
  | 0 => []
  | n + 1 => ((a, n), f n) :: fill a f n

/-! ## 1. conditional moves -/

/-- **`secp256k1_fe_cmov` (5×52) selects.**  For `flag ∈ {0, 1}` and ALL 64-bit word values: every word of `r` afterwards equals the
    word of `a` if `flag = 1` and the old word of `r` if `flag = 0`; `a` is not written. -/
theorem fe_cmov_5x52 (env : Env) (hf : env.get "flag" 0 ≤ 1) (h0r : Cells env "r.n" 5 64) (h0a : Cells env "a.n" 5 64) :
    (∀ i, i < 5 → (runC Gen.ct.fe_cmov env).get "r.n" i = if env.get "flag" 0 = 1 then env.get "a.n" i else env.get "r.n" i) ∧
    (∀ i, (runC Gen.ct.fe_cmov env).get "a.n" i = env.get "a.n" i) := by
  rw [runC_eq_runW _ _ (by decide +kernel)]
  obtain ⟨k0_0, k0_1, k0_2, k0_3, k0_4, f0⟩ := fe_cmov_5x52_key env hf h0r h0a
  refine ⟨?_, f0⟩
  · intro i hi
    have : i = 0 ∨ i = 1 ∨ i = 2 ∨ i = 3 ∨ i = 4 := by omega
    rcases this with rfl | rfl | rfl | rfl | rfl
    exacts [k0_0, k0_1, k0_2, k0_3, k0_4]

/-- non-vacuity: `flag = 1`, the words of `r` at the top of the 64-bit range, `a` with the top bit set -/
example : let e : Env := (("flag", 0), 1) :: (fill "r.n" (fun i => 2 ^ 64 - 1 - i) 5 ++ fill "a.n" (fun i => 2 ^ 63 + i) 5)
    e.get "flag" 0 ≤ 1 ∧ Cells e "r.n" 5 64 ∧ Cells e "a.n" 5 64 ∧
    (∀ i, i < 5 → (runC Gen.ct.fe_cmov e).get "r.n" i = if e.get "flag" 0 = 1 then e.get "a.n" i else e.get "r.n" i) := by
  intro e
  have h0 : e.get "flag" 0 ≤ 1 := by decide +kernel
  have h1 : Cells e "r.n" 5 64 := by decide +kernel
  have h2 : Cells e "a.n" 5 64 := by decide +kernel
  exact ⟨h0, h1, h2, (fe_cmov_5x52 e h0 h1 h2).1⟩

/-- **`secp256k1_fe_cmov` (10×26) selects.**  For `flag ∈ {0, 1}` and ALL 32-bit word values: every word of `r` afterwards equals the
    word of `a` if `flag = 1` and the old word of `r` if `flag = 0`; `a` is not written. -/
theorem fe_cmov_10x26 (env : Env) (hf : env.get "flag" 0 ≤ 1) (h0r : Cells env "r.n" 10 32) (h0a : Cells env "a.n" 10 32) :
    (∀ i, i < 10 → (runC Gen.ct32.fe_cmov env).get "r.n" i = if env.get "flag" 0 = 1 then env.get "a.n" i else env.get "r.n" i) ∧
    (∀ i, (runC Gen.ct32.fe_cmov env).get "a.n" i = env.get "a.n" i) := by
  rw [runC_eq_runW _ _ (by decide +kernel)]
  obtain ⟨k0_0, k0_1, k0_2, k0_3, k0_4, k0_5, k0_6, k0_7, k0_8, k0_9, f0⟩ := fe_cmov_10x26_key env hf h0r h0a
  refine ⟨?_, f0⟩
  · intro i hi
    have : i = 0 ∨ i = 1 ∨ i = 2 ∨ i = 3 ∨ i = 4 ∨ i = 5 ∨ i = 6 ∨ i = 7 ∨ i = 8 ∨ i = 9 := by omega
    rcases this with rfl | rfl | rfl | rfl | rfl | rfl | rfl | rfl | rfl | rfl
    exacts [k0_0, k0_1, k0_2, k0_3, k0_4, k0_5, k0_6, k0_7, k0_8, k0_9]

/-- non-vacuity: `flag = 1`, the words of `r` at the top of the 32-bit range, `a` with the top bit set -/
example : let e : Env := (("flag", 0), 1) :: (fill "r.n" (fun i => 2 ^ 32 - 1 - i) 10 ++ fill "a.n" (fun i => 2 ^ 31 + i) 10)
    e.get "flag" 0 ≤ 1 ∧ Cells e "r.n" 10 32 ∧ Cells e "a.n" 10 32 ∧
    (∀ i, i < 10 → (runC Gen.ct32.fe_cmov e).get "r.n" i = if e.get "flag" 0 = 1 then e.get "a.n" i else e.get "r.n" i) := by
  intro e
  have h0 : e.get "flag" 0 ≤ 1 := by decide +kernel
  have h1 : Cells e "r.n" 10 32 := by decide +kernel
  have h2 : Cells e "a.n" 10 32 := by decide +kernel
  exact ⟨h0, h1, h2, (fe_cmov_10x26 e h0 h1 h2).1⟩

/-- **`secp256k1_fe_storage_cmov` (4×64 storage words) selects.**  For `flag ∈ {0, 1}` and ALL 64-bit word values: every word of `r` afterwards equals the
    word of `a` if `flag = 1` and the old word of `r` if `flag = 0`; `a` is not written. -/
theorem fe_storage_cmov_4x64 (env : Env) (hf : env.get "flag" 0 ≤ 1) (h0r : Cells env "r.n" 4 64) (h0a : Cells env "a.n" 4 64) :
    (∀ i, i < 4 → (runC Gen.ct.fe_storage_cmov env).get "r.n" i = if env.get "flag" 0 = 1 then env.get "a.n" i else env.get "r.n" i) ∧
    (∀ i, (runC Gen.ct.fe_storage_cmov env).get "a.n" i = env.get "a.n" i) := by
  rw [runC_eq_runW _ _ (by decide +kernel)]
  obtain ⟨k0_0, k0_1, k0_2, k0_3, f0⟩ := fe_storage_cmov_4x64_key env hf h0r h0a
  refine ⟨?_, f0⟩
  · intro i hi
    have : i = 0 ∨ i = 1 ∨ i = 2 ∨ i = 3 := by omega
    rcases this with rfl | rfl | rfl | rfl
    exacts [k0_0, k0_1, k0_2, k0_3]

/-- non-vacuity: `flag = 1`, the words of `r` at the top of the 64-bit range, `a` with the top bit set -/
example : let e : Env := (("flag", 0), 1) :: (fill "r.n" (fun i => 2 ^ 64 - 1 - i) 4 ++ fill "a.n" (fun i => 2 ^ 63 + i) 4)
    e.get "flag" 0 ≤ 1 ∧ Cells e "r.n" 4 64 ∧ Cells e "a.n" 4 64 ∧
    (∀ i, i < 4 → (runC Gen.ct.fe_storage_cmov e).get "r.n" i = if e.get "flag" 0 = 1 then e.get "a.n" i else e.get "r.n" i) := by
  intro e
  have h0 : e.get "flag" 0 ≤ 1 := by decide +kernel
  have h1 : Cells e "r.n" 4 64 := by decide +kernel
  have h2 : Cells e "a.n" 4 64 := by decide +kernel
  exact ⟨h0, h1, h2, (fe_storage_cmov_4x64 e h0 h1 h2).1⟩

/-- **`secp256k1_fe_storage_cmov` (8×32 storage words) selects.**  For `flag ∈ {0, 1}` and ALL 32-bit word values: every word of `r` afterwards equals the
    word of `a` if `flag = 1` and the old word of `r` if `flag = 0`; `a` is not written. -/
theorem fe_storage_cmov_8x32 (env : Env) (hf : env.get "flag" 0 ≤ 1) (h0r : Cells env "r.n" 8 32) (h0a : Cells env "a.n" 8 32) :
    (∀ i, i < 8 → (runC Gen.ct32.fe_storage_cmov env).get "r.n" i = if env.get "flag" 0 = 1 then env.get "a.n" i else env.get "r.n" i) ∧
    (∀ i, (runC Gen.ct32.fe_storage_cmov env).get "a.n" i = env.get "a.n" i) := by
  rw [runC_eq_runW _ _ (by decide +kernel)]
  obtain ⟨k0_0, k0_1, k0_2, k0_3, k0_4, k0_5, k0_6, k0_7, f0⟩ := fe_storage_cmov_8x32_key env hf h0r h0a
  refine ⟨?_, f0⟩
  · intro i hi
    have : i = 0 ∨ i = 1 ∨ i = 2 ∨ i = 3 ∨ i = 4 ∨ i = 5 ∨ i = 6 ∨ i = 7 := by omega
    rcases this with rfl | rfl | rfl | rfl | rfl | rfl | rfl | rfl
    exacts [k0_0, k0_1, k0_2, k0_3, k0_4, k0_5, k0_6, k0_7]

/-- non-vacuity: `flag = 1`, the words of `r` at the top of the 32-bit range, `a` with the top bit set -/
example : let e : Env := (("flag", 0), 1) :: (fill "r.n" (fun i => 2 ^ 32 - 1 - i) 8 ++ fill "a.n" (fun i => 2 ^ 31 + i) 8)
    e.get "flag" 0 ≤ 1 ∧ Cells e "r.n" 8 32 ∧ Cells e "a.n" 8 32 ∧
    (∀ i, i < 8 → (runC Gen.ct32.fe_storage_cmov e).get "r.n" i = if e.get "flag" 0 = 1 then e.get "a.n" i else e.get "r.n" i) := by
  intro e
  have h0 : e.get "flag" 0 ≤ 1 := by decide +kernel
  have h1 : Cells e "r.n" 8 32 := by decide +kernel
  have h2 : Cells e "a.n" 8 32 := by decide +kernel
  exact ⟨h0, h1, h2, (fe_storage_cmov_8x32 e h0 h1 h2).1⟩

/-- **`secp256k1_scalar_cmov` (4×64) selects.**  For `flag ∈ {0, 1}` and ALL 64-bit word values: every word of `r` afterwards equals the
    word of `a` if `flag = 1` and the old word of `r` if `flag = 0`; `a` is not written. -/
theorem scalar_cmov_4x64 (env : Env) (hf : env.get "flag" 0 ≤ 1) (h0r : Cells env "r.d" 4 64) (h0a : Cells env "a.d" 4 64) :
    (∀ i, i < 4 → (runC Gen.ct.scalar_cmov env).get "r.d" i = if env.get "flag" 0 = 1 then env.get "a.d" i else env.get "r.d" i) ∧
    (∀ i, (runC Gen.ct.scalar_cmov env).get "a.d" i = env.get "a.d" i) := by
  rw [runC_eq_runW _ _ (by decide +kernel)]
  obtain ⟨k0_0, k0_1, k0_2, k0_3, f0⟩ := scalar_cmov_4x64_key env hf h0r h0a
  refine ⟨?_, f0⟩
  · intro i hi
    have : i = 0 ∨ i = 1 ∨ i = 2 ∨ i = 3 := by omega
    rcases this with rfl | rfl | rfl | rfl
    exacts [k0_0, k0_1, k0_2, k0_3]

/-- non-vacuity: `flag = 1`, the words of `r` at the top of the 64-bit range, `a` with the top bit set -/
example : let e : Env := (("flag", 0), 1) :: (fill "r.d" (fun i => 2 ^ 64 - 1 - i) 4 ++ fill "a.d" (fun i => 2 ^ 63 + i) 4)
    e.get "flag" 0 ≤ 1 ∧ Cells e "r.d" 4 64 ∧ Cells e "a.d" 4 64 ∧
    (∀ i, i < 4 → (runC Gen.ct.scalar_cmov e).get "r.d" i = if e.get "flag" 0 = 1 then e.get "a.d" i else e.get "r.d" i) := by
  intro e
  have h0 : e.get "flag" 0 ≤ 1 := by decide +kernel
  have h1 : Cells e "r.d" 4 64 := by decide +kernel
  have h2 : Cells e "a.d" 4 64 := by decide +kernel
  exact ⟨h0, h1, h2, (scalar_cmov_4x64 e h0 h1 h2).1⟩

/-- **`secp256k1_scalar_cmov` (8×32) selects.**  For `flag ∈ {0, 1}` and ALL 32-bit word values: every word of `r` afterwards equals the
    word of `a` if `flag = 1` and the old word of `r` if `flag = 0`; `a` is not written. -/
theorem scalar_cmov_8x32 (env : Env) (hf : env.get "flag" 0 ≤ 1) (h0r : Cells env "r.d" 8 32) (h0a : Cells env "a.d" 8 32) :
    (∀ i, i < 8 → (runC Gen.ct32.scalar_cmov env).get "r.d" i = if env.get "flag" 0 = 1 then env.get "a.d" i else env.get "r.d" i) ∧
    (∀ i, (runC Gen.ct32.scalar_cmov env).get "a.d" i = env.get "a.d" i) := by
  rw [runC_eq_runW _ _ (by decide +kernel)]
  obtain ⟨k0_0, k0_1, k0_2, k0_3, k0_4, k0_5, k0_6, k0_7, f0⟩ := scalar_cmov_8x32_key env hf h0r h0a
  refine ⟨?_, f0⟩
  · intro i hi
    have : i = 0 ∨ i = 1 ∨ i = 2 ∨ i = 3 ∨ i = 4 ∨ i = 5 ∨ i = 6 ∨ i = 7 := by omega
    rcases this with rfl | rfl | rfl | rfl | rfl | rfl | rfl | rfl
    exacts [k0_0, k0_1, k0_2, k0_3, k0_4, k0_5, k0_6, k0_7]

/-- non-vacuity: `flag = 1`, the words of `r` at the top of the 32-bit range, `a` with the top bit set -/
example : let e : Env := (("flag", 0), 1) :: (fill "r.d" (fun i => 2 ^ 32 - 1 - i) 8 ++ fill "a.d" (fun i => 2 ^ 31 + i) 8)
    e.get "flag" 0 ≤ 1 ∧ Cells e "r.d" 8 32 ∧ Cells e "a.d" 8 32 ∧
    (∀ i, i < 8 → (runC Gen.ct32.scalar_cmov e).get "r.d" i = if e.get "flag" 0 = 1 then e.get "a.d" i else e.get "r.d" i) := by
  intro e
  have h0 : e.get "flag" 0 ≤ 1 := by decide +kernel
  have h1 : Cells e "r.d" 8 32 := by decide +kernel
  have h2 : Cells e "a.d" 8 32 := by decide +kernel
  exact ⟨h0, h1, h2, (scalar_cmov_8x32 e h0 h1 h2).1⟩

/-- **`secp256k1_gej_cmov` (5×52) selects.**  For `flag ∈ {0, 1}` and ALL 64-bit word values: every word of `r` afterwards equals the
    word of `a` if `flag = 1` and the old word of `r` if `flag = 0`; likewise the `infinity` flag (a 0/1 value); `a` is not written. -/
theorem gej_cmov_5x52 (env : Env) (hf : env.get "flag" 0 ≤ 1) (h0r : Cells env "r.x.n" 5 64) (h0a : Cells env "a.x.n" 5 64) (h1r : Cells env "r.y.n" 5 64) (h1a : Cells env "a.y.n" 5 64) (h2r : Cells env "r.z.n" 5 64) (h2a : Cells env "a.z.n" 5 64)
    (hri : env.get "r.infinity" 0 ≤ 1) (hai : env.get "a.infinity" 0 ≤ 1) :
    (∀ i, i < 5 → (runC Gen.ct.gej_cmov env).get "r.x.n" i = if env.get "flag" 0 = 1 then env.get "a.x.n" i else env.get "r.x.n" i) ∧
    (∀ i, i < 5 → (runC Gen.ct.gej_cmov env).get "r.y.n" i = if env.get "flag" 0 = 1 then env.get "a.y.n" i else env.get "r.y.n" i) ∧
    (∀ i, i < 5 → (runC Gen.ct.gej_cmov env).get "r.z.n" i = if env.get "flag" 0 = 1 then env.get "a.z.n" i else env.get "r.z.n" i) ∧
    (runC Gen.ct.gej_cmov env).get "r.infinity" 0 = (if env.get "flag" 0 = 1 then env.get "a.infinity" 0 else env.get "r.infinity" 0) ∧
    (∀ i, (runC Gen.ct.gej_cmov env).get "a.x.n" i = env.get "a.x.n" i) ∧
    (∀ i, (runC Gen.ct.gej_cmov env).get "a.y.n" i = env.get "a.y.n" i) ∧
    (∀ i, (runC Gen.ct.gej_cmov env).get "a.z.n" i = env.get "a.z.n" i) := by
  rw [runC_eq_runW _ _ (by decide +kernel)]
  obtain ⟨k0_0, k0_1, k0_2, k0_3, k0_4, k1_0, k1_1, k1_2, k1_3, k1_4, k2_0, k2_1, k2_2, k2_3, k2_4, kinf, f0, f1, f2⟩ := gej_cmov_5x52_key env hf h0r h0a h1r h1a h2r h2a hri hai
  refine ⟨?_, ?_, ?_, kinf, f0, f1, f2⟩
  · intro i hi
    have : i = 0 ∨ i = 1 ∨ i = 2 ∨ i = 3 ∨ i = 4 := by omega
    rcases this with rfl | rfl | rfl | rfl | rfl
    exacts [k0_0, k0_1, k0_2, k0_3, k0_4]
  · intro i hi
    have : i = 0 ∨ i = 1 ∨ i = 2 ∨ i = 3 ∨ i = 4 := by omega
    rcases this with rfl | rfl | rfl | rfl | rfl
    exacts [k1_0, k1_1, k1_2, k1_3, k1_4]
  · intro i hi
    have : i = 0 ∨ i = 1 ∨ i = 2 ∨ i = 3 ∨ i = 4 := by omega
    rcases this with rfl | rfl | rfl | rfl | rfl
    exacts [k2_0, k2_1, k2_2, k2_3, k2_4]

/-- non-vacuity: `flag = 1`, the words of `r` at the top of the 64-bit range, `a` with the top bit set -/
example : let e : Env := (("flag", 0), 1) :: (("r.infinity", 0), 0) :: (("a.infinity", 0), 1) :: (fill "r.x.n" (fun i => 2 ^ 64 - 1 - i) 5 ++ fill "a.x.n" (fun i => 2 ^ 63 + i) 5 ++ fill "r.y.n" (fun i => 2 ^ 64 - 1 - i) 5 ++ fill "a.y.n" (fun i => 2 ^ 63 + i) 5 ++ fill "r.z.n" (fun i => 2 ^ 64 - 1 - i) 5 ++ fill "a.z.n" (fun i => 2 ^ 63 + i) 5)
    e.get "flag" 0 ≤ 1 ∧ Cells e "r.x.n" 5 64 ∧ Cells e "a.x.n" 5 64 ∧ Cells e "r.y.n" 5 64 ∧ Cells e "a.y.n" 5 64 ∧ Cells e "r.z.n" 5 64 ∧ Cells e "a.z.n" 5 64 ∧ e.get "r.infinity" 0 ≤ 1 ∧ e.get "a.infinity" 0 ≤ 1 ∧
    (∀ i, i < 5 → (runC Gen.ct.gej_cmov e).get "r.x.n" i = if e.get "flag" 0 = 1 then e.get "a.x.n" i else e.get "r.x.n" i) := by
  intro e
  have h0 : e.get "flag" 0 ≤ 1 := by decide +kernel
  have h1 : Cells e "r.x.n" 5 64 := by decide +kernel
  have h2 : Cells e "a.x.n" 5 64 := by decide +kernel
  have h3 : Cells e "r.y.n" 5 64 := by decide +kernel
  have h4 : Cells e "a.y.n" 5 64 := by decide +kernel
  have h5 : Cells e "r.z.n" 5 64 := by decide +kernel
  have h6 : Cells e "a.z.n" 5 64 := by decide +kernel
  have h7 : e.get "r.infinity" 0 ≤ 1 := by decide +kernel
  have h8 : e.get "a.infinity" 0 ≤ 1 := by decide +kernel
  exact ⟨h0, h1, h2, h3, h4, h5, h6, h7, h8, (gej_cmov_5x52 e h0 h1 h2 h3 h4 h5 h6 h7 h8).1⟩

/-- **`secp256k1_gej_cmov` (10×26) selects.**  For `flag ∈ {0, 1}` and ALL 32-bit word values: every word of `r` afterwards equals the
    word of `a` if `flag = 1` and the old word of `r` if `flag = 0`; likewise the `infinity` flag (a 0/1 value); `a` is not written. -/
theorem gej_cmov_10x26 (env : Env) (hf : env.get "flag" 0 ≤ 1) (h0r : Cells env "r.x.n" 10 32) (h0a : Cells env "a.x.n" 10 32) (h1r : Cells env "r.y.n" 10 32) (h1a : Cells env "a.y.n" 10 32) (h2r : Cells env "r.z.n" 10 32) (h2a : Cells env "a.z.n" 10 32)
    (hri : env.get "r.infinity" 0 ≤ 1) (hai : env.get "a.infinity" 0 ≤ 1) :
    (∀ i, i < 10 → (runC Gen.ct32.gej_cmov env).get "r.x.n" i = if env.get "flag" 0 = 1 then env.get "a.x.n" i else env.get "r.x.n" i) ∧
    (∀ i, i < 10 → (runC Gen.ct32.gej_cmov env).get "r.y.n" i = if env.get "flag" 0 = 1 then env.get "a.y.n" i else env.get "r.y.n" i) ∧
    (∀ i, i < 10 → (runC Gen.ct32.gej_cmov env).get "r.z.n" i = if env.get "flag" 0 = 1 then env.get "a.z.n" i else env.get "r.z.n" i) ∧
    (runC Gen.ct32.gej_cmov env).get "r.infinity" 0 = (if env.get "flag" 0 = 1 then env.get "a.infinity" 0 else env.get "r.infinity" 0) ∧
    (∀ i, (runC Gen.ct32.gej_cmov env).get "a.x.n" i = env.get "a.x.n" i) ∧
    (∀ i, (runC Gen.ct32.gej_cmov env).get "a.y.n" i = env.get "a.y.n" i) ∧
    (∀ i, (runC Gen.ct32.gej_cmov env).get "a.z.n" i = env.get "a.z.n" i) := by
  rw [runC_eq_runW _ _ (by decide +kernel)]
  obtain ⟨k0_0, k0_1, k0_2, k0_3, k0_4, k0_5, k0_6, k0_7, k0_8, k0_9, k1_0, k1_1, k1_2, k1_3, k1_4, k1_5, k1_6, k1_7, k1_8, k1_9, k2_0, k2_1, k2_2, k2_3, k2_4, k2_5, k2_6, k2_7, k2_8, k2_9, kinf, f0, f1, f2⟩ := gej_cmov_10x26_key env hf h0r h0a h1r h1a h2r h2a hri hai
  refine ⟨?_, ?_, ?_, kinf, f0, f1, f2⟩
  · intro i hi
    have : i = 0 ∨ i = 1 ∨ i = 2 ∨ i = 3 ∨ i = 4 ∨ i = 5 ∨ i = 6 ∨ i = 7 ∨ i = 8 ∨ i = 9 := by omega
    rcases this with rfl | rfl | rfl | rfl | rfl | rfl | rfl | rfl | rfl | rfl
    exacts [k0_0, k0_1, k0_2, k0_3, k0_4, k0_5, k0_6, k0_7, k0_8, k0_9]
  · intro i hi
    have : i = 0 ∨ i = 1 ∨ i = 2 ∨ i = 3 ∨ i = 4 ∨ i = 5 ∨ i = 6 ∨ i = 7 ∨ i = 8 ∨ i = 9 := by omega
    rcases this with rfl | rfl | rfl | rfl | rfl | rfl | rfl | rfl | rfl | rfl
    exacts [k1_0, k1_1, k1_2, k1_3, k1_4, k1_5, k1_6, k1_7, k1_8, k1_9]
  · intro i hi
    have : i = 0 ∨ i = 1 ∨ i = 2 ∨ i = 3 ∨ i = 4 ∨ i = 5 ∨ i = 6 ∨ i = 7 ∨ i = 8 ∨ i = 9 := by omega
    rcases this with rfl | rfl | rfl | rfl | rfl | rfl | rfl | rfl | rfl | rfl
    exacts [k2_0, k2_1, k2_2, k2_3, k2_4, k2_5, k2_6, k2_7, k2_8, k2_9]

/-- non-vacuity: `flag = 1`, the words of `r` at the top of the 32-bit range, `a` with the top bit set -/
example : let e : Env := (("flag", 0), 1) :: (("r.infinity", 0), 0) :: (("a.infinity", 0), 1) :: (fill "r.x.n" (fun i => 2 ^ 32 - 1 - i) 10 ++ fill "a.x.n" (fun i => 2 ^ 31 + i) 10 ++ fill "r.y.n" (fun i => 2 ^ 32 - 1 - i) 10 ++ fill "a.y.n" (fun i => 2 ^ 31 + i) 10 ++ fill "r.z.n" (fun i => 2 ^ 32 - 1 - i) 10 ++ fill "a.z.n" (fun i => 2 ^ 31 + i) 10)
    e.get "flag" 0 ≤ 1 ∧ Cells e "r.x.n" 10 32 ∧ Cells e "a.x.n" 10 32 ∧ Cells e "r.y.n" 10 32 ∧ Cells e "a.y.n" 10 32 ∧ Cells e "r.z.n" 10 32 ∧ Cells e "a.z.n" 10 32 ∧ e.get "r.infinity" 0 ≤ 1 ∧ e.get "a.infinity" 0 ≤ 1 ∧
    (∀ i, i < 10 → (runC Gen.ct32.gej_cmov e).get "r.x.n" i = if e.get "flag" 0 = 1 then e.get "a.x.n" i else e.get "r.x.n" i) := by
  intro e
  have h0 : e.get "flag" 0 ≤ 1 := by decide +kernel
  have h1 : Cells e "r.x.n" 10 32 := by decide +kernel
  have h2 : Cells e "a.x.n" 10 32 := by decide +kernel
  have h3 : Cells e "r.y.n" 10 32 := by decide +kernel
  have h4 : Cells e "a.y.n" 10 32 := by decide +kernel
  have h5 : Cells e "r.z.n" 10 32 := by decide +kernel
  have h6 : Cells e "a.z.n" 10 32 := by decide +kernel
  have h7 : e.get "r.infinity" 0 ≤ 1 := by decide +kernel
  have h8 : e.get "a.infinity" 0 ≤ 1 := by decide +kernel
  exact ⟨h0, h1, h2, h3, h4, h5, h6, h7, h8, (gej_cmov_10x26 e h0 h1 h2 h3 h4 h5 h6 h7 h8).1⟩

/-- **`secp256k1_ge_storage_cmov` (4×64 storage words) selects.**  For `flag ∈ {0, 1}` and ALL 64-bit word values: every word of `r` afterwards equals the
    word of `a` if `flag = 1` and the old word of `r` if `flag = 0`; `a` is not written. -/
theorem ge_storage_cmov_4x64 (env : Env) (hf : env.get "flag" 0 ≤ 1) (h0r : Cells env "r.x.n" 4 64) (h0a : Cells env "a.x.n" 4 64) (h1r : Cells env "r.y.n" 4 64) (h1a : Cells env "a.y.n" 4 64) :
    (∀ i, i < 4 → (runC Gen.ct.ge_storage_cmov env).get "r.x.n" i = if env.get "flag" 0 = 1 then env.get "a.x.n" i else env.get "r.x.n" i) ∧
    (∀ i, i < 4 → (runC Gen.ct.ge_storage_cmov env).get "r.y.n" i = if env.get "flag" 0 = 1 then env.get "a.y.n" i else env.get "r.y.n" i) ∧
    (∀ i, (runC Gen.ct.ge_storage_cmov env).get "a.x.n" i = env.get "a.x.n" i) ∧
    (∀ i, (runC Gen.ct.ge_storage_cmov env).get "a.y.n" i = env.get "a.y.n" i) := by
  rw [runC_eq_runW _ _ (by decide +kernel)]
  obtain ⟨k0_0, k0_1, k0_2, k0_3, k1_0, k1_1, k1_2, k1_3, f0, f1⟩ := ge_storage_cmov_4x64_key env hf h0r h0a h1r h1a
  refine ⟨?_, ?_, f0, f1⟩
  · intro i hi
    have : i = 0 ∨ i = 1 ∨ i = 2 ∨ i = 3 := by omega
    rcases this with rfl | rfl | rfl | rfl
    exacts [k0_0, k0_1, k0_2, k0_3]
  · intro i hi
    have : i = 0 ∨ i = 1 ∨ i = 2 ∨ i = 3 := by omega
    rcases this with rfl | rfl | rfl | rfl
    exacts [k1_0, k1_1, k1_2, k1_3]

/-- non-vacuity: `flag = 1`, the words of `r` at the top of the 64-bit range, `a` with the top bit set -/
example : let e : Env := (("flag", 0), 1) :: (fill "r.x.n" (fun i => 2 ^ 64 - 1 - i) 4 ++ fill "a.x.n" (fun i => 2 ^ 63 + i) 4 ++ fill "r.y.n" (fun i => 2 ^ 64 - 1 - i) 4 ++ fill "a.y.n" (fun i => 2 ^ 63 + i) 4)
    e.get "flag" 0 ≤ 1 ∧ Cells e "r.x.n" 4 64 ∧ Cells e "a.x.n" 4 64 ∧ Cells e "r.y.n" 4 64 ∧ Cells e "a.y.n" 4 64 ∧
    (∀ i, i < 4 → (runC Gen.ct.ge_storage_cmov e).get "r.x.n" i = if e.get "flag" 0 = 1 then e.get "a.x.n" i else e.get "r.x.n" i) := by
  intro e
  have h0 : e.get "flag" 0 ≤ 1 := by decide +kernel
  have h1 : Cells e "r.x.n" 4 64 := by decide +kernel
  have h2 : Cells e "a.x.n" 4 64 := by decide +kernel
  have h3 : Cells e "r.y.n" 4 64 := by decide +kernel
  have h4 : Cells e "a.y.n" 4 64 := by decide +kernel
  exact ⟨h0, h1, h2, h3, h4, (ge_storage_cmov_4x64 e h0 h1 h2 h3 h4).1⟩

/-- **`secp256k1_ge_storage_cmov` (8×32 storage words) selects.**  For `flag ∈ {0, 1}` and ALL 32-bit word values: every word of `r` afterwards equals the
    word of `a` if `flag = 1` and the old word of `r` if `flag = 0`; `a` is not written. -/
theorem ge_storage_cmov_8x32 (env : Env) (hf : env.get "flag" 0 ≤ 1) (h0r : Cells env "r.x.n" 8 32) (h0a : Cells env "a.x.n" 8 32) (h1r : Cells env "r.y.n" 8 32) (h1a : Cells env "a.y.n" 8 32) :
    (∀ i, i < 8 → (runC Gen.ct32.ge_storage_cmov env).get "r.x.n" i = if env.get "flag" 0 = 1 then env.get "a.x.n" i else env.get "r.x.n" i) ∧
    (∀ i, i < 8 → (runC Gen.ct32.ge_storage_cmov env).get "r.y.n" i = if env.get "flag" 0 = 1 then env.get "a.y.n" i else env.get "r.y.n" i) ∧
    (∀ i, (runC Gen.ct32.ge_storage_cmov env).get "a.x.n" i = env.get "a.x.n" i) ∧
    (∀ i, (runC Gen.ct32.ge_storage_cmov env).get "a.y.n" i = env.get "a.y.n" i) := by
  rw [runC_eq_runW _ _ (by decide +kernel)]
  obtain ⟨k0_0, k0_1, k0_2, k0_3, k0_4, k0_5, k0_6, k0_7, k1_0, k1_1, k1_2, k1_3, k1_4, k1_5, k1_6, k1_7, f0, f1⟩ := ge_storage_cmov_8x32_key env hf h0r h0a h1r h1a
  refine ⟨?_, ?_, f0, f1⟩
  · intro i hi
    have : i = 0 ∨ i = 1 ∨ i = 2 ∨ i = 3 ∨ i = 4 ∨ i = 5 ∨ i = 6 ∨ i = 7 := by omega
    rcases this with rfl | rfl | rfl | rfl | rfl | rfl | rfl | rfl
    exacts [k0_0, k0_1, k0_2, k0_3, k0_4, k0_5, k0_6, k0_7]
  · intro i hi
    have : i = 0 ∨ i = 1 ∨ i = 2 ∨ i = 3 ∨ i = 4 ∨ i = 5 ∨ i = 6 ∨ i = 7 := by omega
    rcases this with rfl | rfl | rfl | rfl | rfl | rfl | rfl | rfl
    exacts [k1_0, k1_1, k1_2, k1_3, k1_4, k1_5, k1_6, k1_7]

/-- non-vacuity: `flag = 1`, the words of `r` at the top of the 32-bit range, `a` with the top bit set -/
example : let e : Env := (("flag", 0), 1) :: (fill "r.x.n" (fun i => 2 ^ 32 - 1 - i) 8 ++ fill "a.x.n" (fun i => 2 ^ 31 + i) 8 ++ fill "r.y.n" (fun i => 2 ^ 32 - 1 - i) 8 ++ fill "a.y.n" (fun i => 2 ^ 31 + i) 8)
    e.get "flag" 0 ≤ 1 ∧ Cells e "r.x.n" 8 32 ∧ Cells e "a.x.n" 8 32 ∧ Cells e "r.y.n" 8 32 ∧ Cells e "a.y.n" 8 32 ∧
    (∀ i, i < 8 → (runC Gen.ct32.ge_storage_cmov e).get "r.x.n" i = if e.get "flag" 0 = 1 then e.get "a.x.n" i else e.get "r.x.n" i) := by
  intro e
  have h0 : e.get "flag" 0 ≤ 1 := by decide +kernel
  have h1 : Cells e "r.x.n" 8 32 := by decide +kernel
  have h2 : Cells e "a.x.n" 8 32 := by decide +kernel
  have h3 : Cells e "r.y.n" 8 32 := by decide +kernel
  have h4 : Cells e "a.y.n" 8 32 := by decide +kernel
  exact ⟨h0, h1, h2, h3, h4, (ge_storage_cmov_8x32 e h0 h1 h2 h3 h4).1⟩

/-- **`secp256k1_int_cmov` selects** (both configurations translate to the same program): for `flag ∈ {0, 1}` and all
    32-bit values (an `int` is read as its two's complement), `*r` becomes `*a` if `flag = 1` and stays if `flag = 0`. -/
theorem int_cmov_ct (env : Env) (hf : env.get "flag" 0 ≤ 1) (hr : env.get "r" 0 < 2 ^ 32) (ha : env.get "a" 0 < 2 ^ 32) :
    (runC Gen.ct.int_cmov env).get "r" 0 = (if env.get "flag" 0 = 1 then env.get "a" 0 else env.get "r" 0) ∧
    (runC Gen.ct.int_cmov env).get "a" 0 = env.get "a" 0 := by
  rw [runC_eq_runW _ _ (by decide +kernel)]
  exact int_cmov_ct_key env hf hr ha

theorem int_cmov_ct32 (env : Env) (hf : env.get "flag" 0 ≤ 1) (hr : env.get "r" 0 < 2 ^ 32) (ha : env.get "a" 0 < 2 ^ 32) :
    (runC Gen.ct32.int_cmov env).get "r" 0 = (if env.get "flag" 0 = 1 then env.get "a" 0 else env.get "r" 0) ∧
    (runC Gen.ct32.int_cmov env).get "a" 0 = env.get "a" 0 := by
  have e : runC Gen.ct32.int_cmov env = runC Gen.ct.int_cmov env := by unfold runC; rw [int_cmov_ct32_body]
  rw [e]; exact int_cmov_ct env hf hr ha

/-- non-vacuity: `flag = 1`, `*r = -1` (`0xFFFFFFFF`), `*a = INT_MIN` (`0x80000000`) -/
example : let e : Env := [(("flag", 0), 1), (("r", 0), 4294967295), (("a", 0), 2147483648)]
    e.get "flag" 0 ≤ 1 ∧ e.get "r" 0 < 2 ^ 32 ∧ e.get "a" 0 < 2 ^ 32 ∧
    (runC Gen.ct.int_cmov e).get "r" 0 = (if e.get "flag" 0 = 1 then e.get "a" 0 else e.get "r" 0) ∧
    (runC Gen.ct32.int_cmov e).get "r" 0 = (if e.get "flag" 0 = 1 then e.get "a" 0 else e.get "r" 0) := by
  intro e
  have h0 : e.get "flag" 0 ≤ 1 := by decide +kernel
  have h1 : e.get "r" 0 < 2 ^ 32 := by decide +kernel
  have h2 : e.get "a" 0 < 2 ^ 32 := by decide +kernel
  exact ⟨h0, h1, h2, (int_cmov_ct e h0 h1 h2).1, (int_cmov_ct32 e h0 h1 h2).1⟩

/-! ## 2. `scalar_cond_negate` -/

/-- **`secp256k1_scalar_cond_negate` (4×64).**  For a reduced scalar `r < N` (64-bit limbs) and `flag ∈ {0, 1}`:
    afterwards `r` holds `r` if `flag = 0` and `(N - r) mod N` if `flag = 1` (so `0` stays `0`, via the `nonzero`
    mask), again with 64-bit limbs; the function returns `1` resp. `-1` (`0xFFFFFFFF`, the 32-bit two's
    complement). -/
theorem scalar_cond_negate_4x64 (env : Env) (hf : env.get "flag" 0 ≤ 1) (hr : C05sc.Limbs64 env "r.d")
    (hR : C05sc.sval env "r.d" < N) :
    C05sc.sval (runC Gen.ct.scalar_cond_negate env) "r.d" =
      (if env.get "flag" 0 = 1 then (N - C05sc.sval env "r.d") % N else C05sc.sval env "r.d") ∧
    retC Gen.ct.scalar_cond_negate env = some (if env.get "flag" 0 = 1 then 4294967295 else 1) ∧
    C05sc.Limbs64 (runC Gen.ct.scalar_cond_negate env) "r.d" := by
  obtain ⟨A0, A1, A2, A3⟩ := hr
  have h := scalar_cond_negate_4x64_run env _ _ _ _ _ rfl rfl rfl rfl rfl hf A0 A1 A2 A3 hR
  rw [runR_eq] at h
  obtain ⟨k1, k2, k3, k4, k5, k6⟩ := h
  exact ⟨k1, k2, k3, k4, k5, k6⟩

/-- non-vacuity: `r = N - 1`, `flag = 1`: the result is `1`, the returned value `-1` -/
example : let e : Env := (("flag", 0), 1) :: [(("r.d", 0), 13822214165235122496), (("r.d", 1), 13451932020343611451),
      (("r.d", 2), 18446744073709551614), (("r.d", 3), 18446744073709551615)]
    e.get "flag" 0 ≤ 1 ∧ C05sc.Limbs64 e "r.d" ∧ C05sc.sval e "r.d" < N ∧
    C05sc.sval (runC Gen.ct.scalar_cond_negate e) "r.d" = 1 ∧ retC Gen.ct.scalar_cond_negate e = some 4294967295 := by
  intro e
  have h0 : e.get "flag" 0 ≤ 1 := by decide +kernel
  have h1 : C05sc.Limbs64 e "r.d" := by decide +kernel
  have h2 : C05sc.sval e "r.d" < N := by decide +kernel
  obtain ⟨k1, k2, _⟩ := scalar_cond_negate_4x64 e h0 h1 h2
  have e1 : (if e.get "flag" 0 = 1 then (N - C05sc.sval e "r.d") % N else C05sc.sval e "r.d") = 1 := by decide +kernel
  have e2 : (if e.get "flag" 0 = 1 then 4294967295 else 1) = 4294967295 := by decide +kernel
  rw [e1] at k1; rw [e2] at k2
  exact ⟨h0, h1, h2, k1, k2⟩

/-- **`secp256k1_scalar_cond_negate` (8×32)**: the same statement for the 8×32 layout. -/
theorem scalar_cond_negate_8x32 (env : Env) (hf : env.get "flag" 0 ≤ 1) (hr : C05sc32.Limbs32 env "r.d")
    (hR : C05sc32.sval env "r.d" < N) :
    C05sc32.sval (runC Gen.ct32.scalar_cond_negate env) "r.d" =
      (if env.get "flag" 0 = 1 then (N - C05sc32.sval env "r.d") % N else C05sc32.sval env "r.d") ∧
    retC Gen.ct32.scalar_cond_negate env = some (if env.get "flag" 0 = 1 then 4294967295 else 1) ∧
    C05sc32.Limbs32 (runC Gen.ct32.scalar_cond_negate env) "r.d" := by
  obtain ⟨A0, A1, A2, A3, A4, A5, A6, A7⟩ := hr
  have h := scalar_cond_negate_8x32_run env _ _ _ _ _ _ _ _ _ rfl rfl rfl rfl rfl rfl rfl rfl rfl hf
    A0 A1 A2 A3 A4 A5 A6 A7 hR
  rw [runR_eq] at h
  obtain ⟨k1, k2, k3, k4, k5, k6, k7, k8, k9, k10⟩ := h
  exact ⟨k1, k2, k3, k4, k5, k6, k7, k8, k9, k10⟩

/-- non-vacuity (8×32): `r = N - 1`, `flag = 1` -/
example : let e : Env := (("flag", 0), 1) :: [(("r.d", 0), 3493216576), (("r.d", 1), 3218235020), (("r.d", 2), 2940772411),
      (("r.d", 3), 3132021990), (("r.d", 4), 4294967294), (("r.d", 5), 4294967295), (("r.d", 6), 4294967295),
      (("r.d", 7), 4294967295)]
    e.get "flag" 0 ≤ 1 ∧ C05sc32.Limbs32 e "r.d" ∧ C05sc32.sval e "r.d" < N ∧
    C05sc32.sval (runC Gen.ct32.scalar_cond_negate e) "r.d" = 1 ∧ retC Gen.ct32.scalar_cond_negate e = some 4294967295 := by
  intro e
  have h0 : e.get "flag" 0 ≤ 1 := by decide +kernel
  have h1 : C05sc32.Limbs32 e "r.d" := by decide +kernel
  have h2 : C05sc32.sval e "r.d" < N := by decide +kernel
  obtain ⟨k1, k2, _⟩ := scalar_cond_negate_8x32 e h0 h1 h2
  have e1 : (if e.get "flag" 0 = 1 then (N - C05sc32.sval e "r.d") % N else C05sc32.sval e "r.d") = 1 := by decide +kernel
  have e2 : (if e.get "flag" 0 = 1 then 4294967295 else 1) = 4294967295 := by decide +kernel
  rw [e1] at k1; rw [e2] at k2
  exact ⟨h0, h1, h2, k1, k2⟩

/-! ## 3. `scalar_is_zero`, `scalar_is_high`, `scalar_check_overflow` -/

/-- a C truth value is `1` exactly when the predicate holds -/
theorem some_ite_eq_one (p : Prop) [Decidable p] : (some (if p then 1 else 0) : Option Nat) = some 1 ↔ p := by
  by_cases h : p <;> simp [h]

/-- **`secp256k1_scalar_is_zero` (4×64)** returns `1` if the value of `a` is `0` and `0` otherwise (ALL limb values). -/
theorem scalar_is_zero_4x64 (env : Env) :
    retC Gen.ct.scalar_is_zero env = some (if C05sc.sval env "a.d" = 0 then 1 else 0) ∧
    (retC Gen.ct.scalar_is_zero env = some 1 ↔ C05sc.sval env "a.d" = 0) := by
  have h : retC Gen.ct.scalar_is_zero env = some (if C05sc.sval env "a.d" = 0 then 1 else 0) :=
    scalar_is_zero_4x64_run env _ _ _ _ rfl rfl rfl rfl
  exact ⟨h, by rw [h]; exact some_ite_eq_one _⟩

/-- **`secp256k1_scalar_is_zero` (8×32)**. -/
theorem scalar_is_zero_8x32 (env : Env) :
    retC Gen.ct32.scalar_is_zero env = some (if C05sc32.sval env "a.d" = 0 then 1 else 0) ∧
    (retC Gen.ct32.scalar_is_zero env = some 1 ↔ C05sc32.sval env "a.d" = 0) := by
  have h : retC Gen.ct32.scalar_is_zero env = some (if C05sc32.sval env "a.d" = 0 then 1 else 0) :=
    scalar_is_zero_8x32_run env _ _ _ _ _ _ _ _ rfl rfl rfl rfl rfl rfl rfl rfl
  exact ⟨h, by rw [h]; exact some_ite_eq_one _⟩

/-- non-vacuity / both outcomes: the empty memory holds `a = 0`; `a = N - 1` is not zero -/
example : retC Gen.ct.scalar_is_zero [] = some 1 ∧ retC Gen.ct32.scalar_is_zero [] = some 1 ∧
    retC Gen.ct.scalar_is_zero C05sc.nm1Env ≠ some 1 ∧ retC Gen.ct32.scalar_is_zero C05sc32.nm1Env ≠ some 1 :=
  ⟨(scalar_is_zero_4x64 []).2.2 (by decide +kernel), (scalar_is_zero_8x32 []).2.2 (by decide +kernel),
   fun h => absurd ((scalar_is_zero_4x64 _).2.1 h) (by decide +kernel),
   fun h => absurd ((scalar_is_zero_8x32 _).2.1 h) (by decide +kernel)⟩

/-- **`secp256k1_scalar_check_overflow` (4×64)** returns `1` if the 256-bit value of `a` is `≥ N` and `0` otherwise
    (all 64-bit limb values). -/
theorem scalar_check_overflow_4x64 (env : Env) (ha : C05sc.Limbs64 env "a.d") :
    retC Gen.ct.scalar_check_overflow env = some (if N ≤ C05sc.sval env "a.d" then 1 else 0) ∧
    (retC Gen.ct.scalar_check_overflow env = some 1 ↔ N ≤ C05sc.sval env "a.d") := by
  obtain ⟨A0, A1, A2, A3⟩ := ha
  have h : retC Gen.ct.scalar_check_overflow env = some (if N ≤ C05sc.sval env "a.d" then 1 else 0) :=
    scalar_check_overflow_4x64_run env _ _ _ _ rfl rfl rfl rfl A0 A1 A2 A3
  exact ⟨h, by rw [h]; exact some_ite_eq_one _⟩

/-- **`secp256k1_scalar_check_overflow` (8×32)**. -/
theorem scalar_check_overflow_8x32 (env : Env) (ha : C05sc32.Limbs32 env "a.d") :
    retC Gen.ct32.scalar_check_overflow env = some (if N ≤ C05sc32.sval env "a.d" then 1 else 0) ∧
    (retC Gen.ct32.scalar_check_overflow env = some 1 ↔ N ≤ C05sc32.sval env "a.d") := by
  obtain ⟨A0, A1, A2, A3, A4, A5, A6, A7⟩ := ha
  have h : retC Gen.ct32.scalar_check_overflow env = some (if N ≤ C05sc32.sval env "a.d" then 1 else 0) :=
    scalar_check_overflow_8x32_run env _ _ _ _ _ _ _ _ rfl rfl rfl rfl rfl rfl rfl rfl A0 A1 A2 A3 A4 A5 A6 A7
  exact ⟨h, by rw [h]; exact some_ite_eq_one _⟩

/-- non-vacuity / both outcomes: `a = 2^256 - 1` overflows, `a = N - 1` does not -/
example : C05sc.Limbs64 C05sc.onesEnv "a.d" ∧ C05sc.Limbs64 C05sc.nm1Env "a.d" ∧
    C05sc32.Limbs32 C05sc32.onesEnv "a.d" ∧ C05sc32.Limbs32 C05sc32.nm1Env "a.d" ∧
    retC Gen.ct.scalar_check_overflow C05sc.onesEnv = some 1 ∧ retC Gen.ct.scalar_check_overflow C05sc.nm1Env ≠ some 1 ∧
    retC Gen.ct32.scalar_check_overflow C05sc32.onesEnv = some 1 ∧
    retC Gen.ct32.scalar_check_overflow C05sc32.nm1Env ≠ some 1 := by
  have h1 : C05sc.Limbs64 C05sc.onesEnv "a.d" := by decide +kernel
  have h2 : C05sc.Limbs64 C05sc.nm1Env "a.d" := by decide +kernel
  have h3 : C05sc32.Limbs32 C05sc32.onesEnv "a.d" := by decide +kernel
  have h4 : C05sc32.Limbs32 C05sc32.nm1Env "a.d" := by decide +kernel
  exact ⟨h1, h2, h3, h4, (scalar_check_overflow_4x64 _ h1).2.2 (by decide +kernel),
    fun h => absurd ((scalar_check_overflow_4x64 _ h2).2.1 h) (by decide +kernel),
    (scalar_check_overflow_8x32 _ h3).2.2 (by decide +kernel),
    fun h => absurd ((scalar_check_overflow_8x32 _ h4).2.1 h) (by decide +kernel)⟩

/-- **`secp256k1_scalar_is_high` (4×64)** returns `1` if the value of `a` is `> (N-1)/2` and `0` otherwise (all 64-bit
    limb values; in particular for every reduced scalar `a < N`). -/
theorem scalar_is_high_4x64 (env : Env) (ha : C05sc.Limbs64 env "a.d") :
    retC Gen.ct.scalar_is_high env = some (if (N - 1) / 2 < C05sc.sval env "a.d" then 1 else 0) ∧
    (retC Gen.ct.scalar_is_high env = some 1 ↔ (N - 1) / 2 < C05sc.sval env "a.d") := by
  obtain ⟨A0, A1, A2, A3⟩ := ha
  have h : retC Gen.ct.scalar_is_high env = some (if (N - 1) / 2 < C05sc.sval env "a.d" then 1 else 0) :=
    scalar_is_high_4x64_run env _ _ _ _ rfl rfl rfl rfl A0 A1 A2 A3
  exact ⟨h, by rw [h]; exact some_ite_eq_one _⟩

/-- **`secp256k1_scalar_is_high` (8×32)**. -/
theorem scalar_is_high_8x32 (env : Env) (ha : C05sc32.Limbs32 env "a.d") :
    retC Gen.ct32.scalar_is_high env = some (if (N - 1) / 2 < C05sc32.sval env "a.d" then 1 else 0) ∧
    (retC Gen.ct32.scalar_is_high env = some 1 ↔ (N - 1) / 2 < C05sc32.sval env "a.d") := by
  obtain ⟨A0, A1, A2, A3, A4, A5, A6, A7⟩ := ha
  have h : retC Gen.ct32.scalar_is_high env = some (if (N - 1) / 2 < C05sc32.sval env "a.d" then 1 else 0) :=
    scalar_is_high_8x32_run env _ _ _ _ _ _ _ _ rfl rfl rfl rfl rfl rfl rfl rfl A0 A1 A2 A3 A4 A5 A6 A7
  exact ⟨h, by rw [h]; exact some_ite_eq_one _⟩

/-- the limbs of `(N-1)/2`, the largest "low" scalar (4×64) -/
def halfEnv64 : Env :=
  [(("a.d", 0), 16134479119472337056), (("a.d", 1), 6725966010171805725), (("a.d", 2), 18446744073709551615),
   (("a.d", 3), 9223372036854775807)]

/-- the limbs of `(N-1)/2` (8×32) -/
def halfEnv32 : Env :=
  [(("a.d", 0), 1746608288), (("a.d", 1), 3756601158), (("a.d", 2), 1470386205), (("a.d", 3), 1566010995),
   (("a.d", 4), 4294967295), (("a.d", 5), 4294967295), (("a.d", 6), 4294967295), (("a.d", 7), 2147483647)]

/-- non-vacuity / the boundary: `a = N - 1` is high, `a = (N-1)/2` is not -/
example : C05sc.sval halfEnv64 "a.d" = (N - 1) / 2 ∧ C05sc32.sval halfEnv32 "a.d" = (N - 1) / 2 ∧
    retC Gen.ct.scalar_is_high C05sc.nm1Env = some 1 ∧ retC Gen.ct.scalar_is_high halfEnv64 ≠ some 1 ∧
    retC Gen.ct32.scalar_is_high C05sc32.nm1Env = some 1 ∧ retC Gen.ct32.scalar_is_high halfEnv32 ≠ some 1 :=
  ⟨by decide +kernel, by decide +kernel,
   (scalar_is_high_4x64 _ (by decide +kernel)).2.2 (by decide +kernel),
   fun h => absurd ((scalar_is_high_4x64 _ (by decide +kernel)).2.1 h) (by decide +kernel),
   (scalar_is_high_8x32 _ (by decide +kernel)).2.2 (by decide +kernel),
   fun h => absurd ((scalar_is_high_8x32 _ (by decide +kernel)).2.1 h) (by decide +kernel)⟩

/-! ## 4. `fe_normalizes_to_zero` -/

/-- **`secp256k1_fe_normalizes_to_zero` (5×52)** returns `1` if the value of `r` is a multiple of `p` and `0` otherwise,
    for EVERY element of magnitude ≤ 32 (the documented input domain). -/
theorem fe_normalizes_to_zero_5x52 (env : Env) (h : Mag5 env "r.n" 32) :
    retC Gen.ct.fe_normalizes_to_zero env = some (if val5At env "r.n" % P = 0 then 1 else 0) ∧
    (retC Gen.ct.fe_normalizes_to_zero env = some 1 ↔ val5At env "r.n" % P = 0) := by
  have e : retC Gen.ct.fe_normalizes_to_zero env = some (if val5At env "r.n" % P = 0 then 1 else 0) := by
    unfold retC
    rw [execL_ret_eq_retW _ _ (by decide +kernel)]
    exact fe_normalizes_to_zero_5x52_key env h _ rfl
  exact ⟨e, by rw [e]; exact some_ite_eq_one _⟩

/-- the limbs of `p`, 5×52 (an unreduced representation of 0) -/
def pEnv5 : Env :=
  [(("r.n", 0), 0xFFFFEFFFFFC2F), (("r.n", 1), 0xFFFFFFFFFFFFF), (("r.n", 2), 0xFFFFFFFFFFFFF),
   (("r.n", 3), 0xFFFFFFFFFFFFF), (("r.n", 4), 0xFFFFFFFFFFFF)]

/-- every limb at the top of magnitude 32, 5×52 -/
def top5 : Env :=
  [(("r.n", 0), 2 * 32 * (2 ^ 52 - 1)), (("r.n", 1), 2 * 32 * (2 ^ 52 - 1)), (("r.n", 2), 2 * 32 * (2 ^ 52 - 1)),
   (("r.n", 3), 2 * 32 * (2 ^ 52 - 1)), (("r.n", 4), 2 * 32 * (2 ^ 48 - 1))]

/-- non-vacuity / both outcomes: the limbs of `p` normalize to zero, the top of magnitude 32 does not -/
example : Mag5 pEnv5 "r.n" 32 ∧ Mag5 top5 "r.n" 32 ∧ retC Gen.ct.fe_normalizes_to_zero pEnv5 = some 1 ∧
    retC Gen.ct.fe_normalizes_to_zero top5 ≠ some 1 :=
  ⟨by decide +kernel, by decide +kernel,
   (fe_normalizes_to_zero_5x52 _ (by decide +kernel)).2.2 (by decide +kernel),
   fun h => absurd ((fe_normalizes_to_zero_5x52 _ (by decide +kernel)).2.1 h) (by decide +kernel)⟩

/-- **`secp256k1_fe_normalizes_to_zero` (10×26), PARTIAL**: under `NoOvf10` (magnitude ≤ 32 and the two 32-bit
    additions `t0 += x * 0x3D1`, `t1 += (x << 6) + (t0 >> 26)` of the first pass do not wrap; implied by magnitude
    ≤ 31) the function returns `1` if the value of `r` is a multiple of `p` and `0` otherwise.
    The full statement (hypothesis `Mag10 env "r.n" 32` only) is FALSE:
    `fe_normalizes_to_zero_10x26_mag32_counterexample`. -/
theorem fe_normalizes_to_zero_10x26_partial (env : Env) (h : NoOvf10 env "r.n") :
    retC Gen.ct32.fe_normalizes_to_zero env = some (if val10At env "r.n" % P = 0 then 1 else 0) ∧
    (retC Gen.ct32.fe_normalizes_to_zero env = some 1 ↔ val10At env "r.n" % P = 0) := by
  have e : retC Gen.ct32.fe_normalizes_to_zero env = some (if val10At env "r.n" % P = 0 then 1 else 0) := by
    obtain ⟨hm, h0, h1⟩ := h
    simp only [Mag10, Nat.reducePow, Nat.reduceSub, Nat.reduceMul] at hm h0 h1
    exact fe_normalizes_to_zero_10x26_run env _ _ _ _ _ _ _ _ _ _ rfl rfl rfl rfl rfl rfl rfl rfl rfl rfl hm h0 h1
  exact ⟨e, by rw [e]; exact some_ite_eq_one _⟩

/-- `secp256k1_fe_normalizes_to_zero` (10×26) is correct on every input of magnitude ≤ 31 -/
theorem fe_normalizes_to_zero_10x26_mag31 (env : Env) (h : Mag10 env "r.n" 31) :
    retC Gen.ct32.fe_normalizes_to_zero env = some 1 ↔ val10At env "r.n" % P = 0 :=
  (fe_normalizes_to_zero_10x26_partial env (noOvf10_of_normPre10 (NormPre10_of_mag31 h))).2

/-- the limbs of `p`, 10×26 -/
def pEnv10 : Env :=
  [(("r.n", 0), 0x3FFFC2F), (("r.n", 1), 0x3FFFFBF), (("r.n", 2), 0x3FFFFFF), (("r.n", 3), 0x3FFFFFF),
   (("r.n", 4), 0x3FFFFFF), (("r.n", 5), 0x3FFFFFF), (("r.n", 6), 0x3FFFFFF), (("r.n", 7), 0x3FFFFFF),
   (("r.n", 8), 0x3FFFFFF), (("r.n", 9), 0x3FFFFF)]

/-- every limb at the top of magnitude 31, 10×26 -/
def top10 : Env :=
  [(("r.n", 0), 2 * 31 * (2 ^ 26 - 1)), (("r.n", 1), 2 * 31 * (2 ^ 26 - 1)), (("r.n", 2), 2 * 31 * (2 ^ 26 - 1)),
   (("r.n", 3), 2 * 31 * (2 ^ 26 - 1)), (("r.n", 4), 2 * 31 * (2 ^ 26 - 1)), (("r.n", 5), 2 * 31 * (2 ^ 26 - 1)),
   (("r.n", 6), 2 * 31 * (2 ^ 26 - 1)), (("r.n", 7), 2 * 31 * (2 ^ 26 - 1)), (("r.n", 8), 2 * 31 * (2 ^ 26 - 1)),
   (("r.n", 9), 2 * 31 * (2 ^ 22 - 1))]

/-- non-vacuity / both outcomes (10×26): the limbs of `p` normalize to zero, the top of magnitude 31 does not -/
example : NoOvf10 pEnv10 "r.n" ∧ Mag10 top10 "r.n" 31 ∧ retC Gen.ct32.fe_normalizes_to_zero pEnv10 = some 1 ∧
    retC Gen.ct32.fe_normalizes_to_zero top10 ≠ some 1 :=
  ⟨by decide +kernel, by decide +kernel,
   (fe_normalizes_to_zero_10x26_partial _ (by decide +kernel)).2.2 (by decide +kernel),
   fun h => absurd ((fe_normalizes_to_zero_10x26_mag31 _ (by decide +kernel)).1 h) (by decide +kernel)⟩

/-- a magnitude-32 element accepted by `secp256k1_fe_impl_verify` (10×26):
    `n = [2^26 - 977, 2^32 - 65, 0, 0, 0, 0, 0, 0, 0, 0x400000]`, value `≡ 2^58 (mod p)` -/
def cexZ10 : Env :=
  [(("r.n", 0), 0x3FFFC2F), (("r.n", 1), 0xFFFFFFBF), (("r.n", 2), 0), (("r.n", 3), 0), (("r.n", 4), 0),
   (("r.n", 5), 0), (("r.n", 6), 0), (("r.n", 7), 0), (("r.n", 8), 0), (("r.n", 9), 0x400000)]

/-- **Counterexample to the full-strength 10×26 statement.**  `cexZ10` has magnitude 32 (every limb within
    `secp256k1_fe_impl_verify`'s bound) and its value is `≡ 2^58 ≢ 0 (mod p)`, but
    `secp256k1_fe_impl_normalizes_to_zero` returns `1`: with `x = n[9] >> 22 = 1`, `t0 = n[0] + 977 = 2^26` and the
    32-bit addition `t1 = n[1] + 64 + 1 = 2^32` wraps to `0`, so all limbs of the first pass are `0`.
    (Closed evaluation of the wrap-around interpreter.)  Same defect as `fe_normalize_10x26_mag32_counterexample`
    in `Props/C05_fieldlin.lean`. -/
theorem fe_normalizes_to_zero_10x26_mag32_counterexample :
    Mag10 cexZ10 "r.n" 32 ∧ val10At cexZ10 "r.n" % P = 2 ^ 58 ∧ val10At cexZ10 "r.n" % P ≠ 0 ∧
    retC Gen.ct32.fe_normalizes_to_zero cexZ10 = some 1 := by
  refine ⟨by decide +kernel, by decide +kernel, by decide +kernel, ?_⟩
  unfold retC
  rw [execL_ret_eq_retW _ _ (by decide +kernel)]
  decide +kernel

/-! ## 5. `fe_get_b32` -/

/-- big-endian value of the cells `r[0..n-1]`: `Σ_{i<n} r[i]·256^(n-1-i)` (Horner form) -/
def beVal (env : Env) (r : String) : Nat → Nat
  | 0 => 0
  | n + 1 => beVal env r n * 256 + env.get r n

/-- `beVal · r 32` written out -/
theorem beVal_32 (env : Env) (r : String) : beVal env r 32 =
    (((((((((((((((((((((((((((((((0 * 256 + env.get r 0) * 256 + env.get r 1) * 256 + env.get r 2) * 256 + env.get r 3) * 256 + env.get r 4) * 256 + env.get r 5) * 256 + env.get r 6) * 256 + env.get r 7) * 256 + env.get r 8) * 256 + env.get r 9) * 256 + env.get r 10) * 256 + env.get r 11) * 256 + env.get r 12) * 256 + env.get r 13) * 256 + env.get r 14) * 256 + env.get r 15) * 256 + env.get r 16) * 256 + env.get r 17) * 256 + env.get r 18) * 256 + env.get r 19) * 256 + env.get r 20) * 256 + env.get r 21) * 256 + env.get r 22) * 256 + env.get r 23) * 256 + env.get r 24) * 256 + env.get r 25) * 256 + env.get r 26) * 256 + env.get r 27) * 256 + env.get r 28) * 256 + env.get r 29) * 256 + env.get r 30) * 256 + env.get r 31 := rfl

theorem dec52A (a : Nat) (h : a < 4503599627370496) :
    a = a % 256 + a / 256 % 256 * 256 + a / 65536 % 256 * 65536 + a / 16777216 % 256 * 16777216 + a / 4294967296 % 256 * 4294967296 + a / 1099511627776 % 256 * 1099511627776 + a / 281474976710656 % 16 * 281474976710656 := by omega

theorem dec52B (a : Nat) (h : a < 4503599627370496) :
    a = a % 16 + a / 16 % 256 * 16 + a / 4096 % 256 * 4096 + a / 1048576 % 256 * 1048576 + a / 268435456 % 256 * 268435456 + a / 68719476736 % 256 * 68719476736 + a / 17592186044416 % 256 * 17592186044416 := by omega

theorem dec52C (a : Nat) (h : a < 281474976710656) :
    a = a % 256 + a / 256 % 256 * 256 + a / 65536 % 256 * 65536 + a / 16777216 % 256 * 16777216 + a / 4294967296 % 256 * 4294967296 + a / 1099511627776 % 256 * 1099511627776 := by omega

/-- **`secp256k1_fe_get_b32` (5×52) serialises big-endian.**  For a normalized input (`Red5`: every limb within its
    52/48 bits) the 32 output cells `r[0..31]` are bytes, and their big-endian value `Σ r[i]·256^(31-i)`
    (`beVal · "r" 32`) is the value of the field element. -/
theorem fe_get_b32_5x52 (env : Env) (h : Red5 env "a.n") :
    (∀ i, i < 32 → (runC Gen.ct.fe_get_b32 env).get "r" i < 256) ∧
    beVal (runC Gen.ct.fe_get_b32 env) "r" 32 = val5At env "a.n" := by
  rw [runC_eq_runW _ _ (by decide +kernel)]
  obtain ⟨k0, k1, k2, k3, k4, k5, k6, k7, k8, k9, k10, k11, k12, k13, k14, k15, k16, k17, k18, k19, k20, k21, k22, k23, k24, k25, k26, k27, k28, k29, k30, k31⟩ := fe_get_b32_5x52_key env
  generalize runW env Gen.ct.fe_get_b32.body = out at *
  simp only [Red5, val5At, val5] at h ⊢
  generalize env.get "a.n" 0 = a0 at *
  generalize env.get "a.n" 1 = a1 at *
  generalize env.get "a.n" 2 = a2 at *
  generalize env.get "a.n" 3 = a3 at *
  generalize env.get "a.n" 4 = a4 at *
  obtain ⟨b0, b1, b2, b3, b4⟩ := h
  simp only [Nat.reducePow] at b0 b1 b2 b3 b4
  constructor
  · intro i hi
    have : i = 0 ∨ i = 1 ∨ i = 2 ∨ i = 3 ∨ i = 4 ∨ i = 5 ∨ i = 6 ∨ i = 7 ∨ i = 8 ∨ i = 9 ∨ i = 10 ∨ i = 11 ∨ i = 12 ∨ i = 13 ∨ i = 14 ∨ i = 15 ∨ i = 16 ∨ i = 17 ∨ i = 18 ∨ i = 19 ∨ i = 20 ∨ i = 21 ∨ i = 22 ∨ i = 23 ∨ i = 24 ∨ i = 25 ∨ i = 26 ∨ i = 27 ∨ i = 28 ∨ i = 29 ∨ i = 30 ∨ i = 31 := by omega
    rcases this with rfl | rfl | rfl | rfl | rfl | rfl | rfl | rfl | rfl | rfl | rfl | rfl | rfl | rfl | rfl | rfl | rfl | rfl | rfl | rfl | rfl | rfl | rfl | rfl | rfl | rfl | rfl | rfl | rfl | rfl | rfl | rfl
    all_goals first
      | (rw [k0]; omega)
      | (rw [k1]; omega)
      | (rw [k2]; omega)
      | (rw [k3]; omega)
      | (rw [k4]; omega)
      | (rw [k5]; omega)
      | (rw [k6]; omega)
      | (rw [k7]; omega)
      | (rw [k8]; omega)
      | (rw [k9]; omega)
      | (rw [k10]; omega)
      | (rw [k11]; omega)
      | (rw [k12]; omega)
      | (rw [k13]; omega)
      | (rw [k14]; omega)
      | (rw [k15]; omega)
      | (rw [k16]; omega)
      | (rw [k17]; omega)
      | (rw [k18]; omega)
      | (rw [k19]; omega)
      | (rw [k20]; omega)
      | (rw [k21]; omega)
      | (rw [k22]; omega)
      | (rw [k23]; omega)
      | (rw [k24]; omega)
      | (rw [k25]; omega)
      | (rw [k26]; omega)
      | (rw [k27]; omega)
      | (rw [k28]; omega)
      | (rw [k29]; omega)
      | (rw [k30]; omega)
      | (rw [k31]; omega)
  · simp only [beVal_32, k0, k1, k2, k3, k4, k5, k6, k7, k8, k9, k10, k11, k12, k13, k14, k15, k16, k17, k18, k19, k20, k21, k22, k23, k24, k25, k26, k27, k28, k29, k30, k31, Nat.reducePow]
    have d0 := dec52A a0 b0
    have d1 := dec52B a1 b1
    have d2 := dec52A a2 b2
    have d3 := dec52B a3 b3
    have d4 := dec52C a4 b4
    clear k0 k1 k2 k3 k4 k5 k6 k7 k8 k9 k10 k11 k12 k13 k14 k15 k16 k17 k18 k19 k20 k21 k22 k23 k24 k25 k26 k27 k28 k29 k30 k31 b0 b1 b2 b3 b4
    generalize a0 % 256 = x0_0 at *
    generalize a0 / 256 % 256 = x0_8 at *
    generalize a0 / 65536 % 256 = x0_16 at *
    generalize a0 / 16777216 % 256 = x0_24 at *
    generalize a0 / 4294967296 % 256 = x0_32 at *
    generalize a0 / 1099511627776 % 256 = x0_40 at *
    generalize a0 / 281474976710656 % 16 = x0_48 at *
    generalize a1 % 16 = x1_0 at *
    generalize a1 / 16 % 256 = x1_4 at *
    generalize a1 / 4096 % 256 = x1_12 at *
    generalize a1 / 1048576 % 256 = x1_20 at *
    generalize a1 / 268435456 % 256 = x1_28 at *
    generalize a1 / 68719476736 % 256 = x1_36 at *
    generalize a1 / 17592186044416 % 256 = x1_44 at *
    generalize a2 % 256 = x2_0 at *
    generalize a2 / 256 % 256 = x2_8 at *
    generalize a2 / 65536 % 256 = x2_16 at *
    generalize a2 / 16777216 % 256 = x2_24 at *
    generalize a2 / 4294967296 % 256 = x2_32 at *
    generalize a2 / 1099511627776 % 256 = x2_40 at *
    generalize a2 / 281474976710656 % 16 = x2_48 at *
    generalize a3 % 16 = x3_0 at *
    generalize a3 / 16 % 256 = x3_4 at *
    generalize a3 / 4096 % 256 = x3_12 at *
    generalize a3 / 1048576 % 256 = x3_20 at *
    generalize a3 / 268435456 % 256 = x3_28 at *
    generalize a3 / 68719476736 % 256 = x3_36 at *
    generalize a3 / 17592186044416 % 256 = x3_44 at *
    generalize a4 % 256 = x4_0 at *
    generalize a4 / 256 % 256 = x4_8 at *
    generalize a4 / 65536 % 256 = x4_16 at *
    generalize a4 / 16777216 % 256 = x4_24 at *
    generalize a4 / 4294967296 % 256 = x4_32 at *
    generalize a4 / 1099511627776 % 256 = x4_40 at *
    omega

theorem dec26A (a : Nat) (h : a < 67108864) :
    a = a % 256 + a / 256 % 256 * 256 + a / 65536 % 256 * 65536 + a / 16777216 % 4 * 16777216 := by omega

theorem dec26B (a : Nat) (h : a < 67108864) :
    a = a % 64 + a / 64 % 256 * 64 + a / 16384 % 256 * 16384 + a / 4194304 % 16 * 4194304 := by omega

theorem dec26C (a : Nat) (h : a < 67108864) :
    a = a % 16 + a / 16 % 256 * 16 + a / 4096 % 256 * 4096 + a / 1048576 % 64 * 1048576 := by omega

theorem dec26D (a : Nat) (h : a < 67108864) :
    a = a % 4 + a / 4 % 256 * 4 + a / 1024 % 256 * 1024 + a / 262144 % 256 * 262144 := by omega

theorem dec26E (a : Nat) (h : a < 4194304) :
    a = a % 64 + a / 64 % 256 * 64 + a / 16384 % 256 * 16384 := by omega

/-- **`secp256k1_fe_get_b32` (10×26) serialises big-endian.**  For a normalized input (`Red10`: every limb within its
    26/22 bits) the 32 output cells `r[0..31]` are bytes, and their big-endian value `Σ r[i]·256^(31-i)`
    (`beVal · "r" 32`) is the value of the field element. -/
theorem fe_get_b32_10x26 (env : Env) (h : Red10 env "a.n") :
    (∀ i, i < 32 → (runC Gen.ct32.fe_get_b32 env).get "r" i < 256) ∧
    beVal (runC Gen.ct32.fe_get_b32 env) "r" 32 = val10At env "a.n" := by
  rw [runC_eq_runW _ _ (by decide +kernel)]
  obtain ⟨k0, k1, k2, k3, k4, k5, k6, k7, k8, k9, k10, k11, k12, k13, k14, k15, k16, k17, k18, k19, k20, k21, k22, k23, k24, k25, k26, k27, k28, k29, k30, k31⟩ := fe_get_b32_10x26_key env
  generalize runW env Gen.ct32.fe_get_b32.body = out at *
  simp only [Red10, val10At, val10] at h ⊢
  generalize env.get "a.n" 0 = a0 at *
  generalize env.get "a.n" 1 = a1 at *
  generalize env.get "a.n" 2 = a2 at *
  generalize env.get "a.n" 3 = a3 at *
  generalize env.get "a.n" 4 = a4 at *
  generalize env.get "a.n" 5 = a5 at *
  generalize env.get "a.n" 6 = a6 at *
  generalize env.get "a.n" 7 = a7 at *
  generalize env.get "a.n" 8 = a8 at *
  generalize env.get "a.n" 9 = a9 at *
  obtain ⟨b0, b1, b2, b3, b4, b5, b6, b7, b8, b9⟩ := h
  simp only [Nat.reducePow] at b0 b1 b2 b3 b4 b5 b6 b7 b8 b9
  constructor
  · intro i hi
    have : i = 0 ∨ i = 1 ∨ i = 2 ∨ i = 3 ∨ i = 4 ∨ i = 5 ∨ i = 6 ∨ i = 7 ∨ i = 8 ∨ i = 9 ∨ i = 10 ∨ i = 11 ∨ i = 12 ∨ i = 13 ∨ i = 14 ∨ i = 15 ∨ i = 16 ∨ i = 17 ∨ i = 18 ∨ i = 19 ∨ i = 20 ∨ i = 21 ∨ i = 22 ∨ i = 23 ∨ i = 24 ∨ i = 25 ∨ i = 26 ∨ i = 27 ∨ i = 28 ∨ i = 29 ∨ i = 30 ∨ i = 31 := by omega
    rcases this with rfl | rfl | rfl | rfl | rfl | rfl | rfl | rfl | rfl | rfl | rfl | rfl | rfl | rfl | rfl | rfl | rfl | rfl | rfl | rfl | rfl | rfl | rfl | rfl | rfl | rfl | rfl | rfl | rfl | rfl | rfl | rfl
    all_goals first
      | (rw [k0]; omega)
      | (rw [k1]; omega)
      | (rw [k2]; omega)
      | (rw [k3]; omega)
      | (rw [k4]; omega)
      | (rw [k5]; omega)
      | (rw [k6]; omega)
      | (rw [k7]; omega)
      | (rw [k8]; omega)
      | (rw [k9]; omega)
      | (rw [k10]; omega)
      | (rw [k11]; omega)
      | (rw [k12]; omega)
      | (rw [k13]; omega)
      | (rw [k14]; omega)
      | (rw [k15]; omega)
      | (rw [k16]; omega)
      | (rw [k17]; omega)
      | (rw [k18]; omega)
      | (rw [k19]; omega)
      | (rw [k20]; omega)
      | (rw [k21]; omega)
      | (rw [k22]; omega)
      | (rw [k23]; omega)
      | (rw [k24]; omega)
      | (rw [k25]; omega)
      | (rw [k26]; omega)
      | (rw [k27]; omega)
      | (rw [k28]; omega)
      | (rw [k29]; omega)
      | (rw [k30]; omega)
      | (rw [k31]; omega)
  · simp only [beVal_32, k0, k1, k2, k3, k4, k5, k6, k7, k8, k9, k10, k11, k12, k13, k14, k15, k16, k17, k18, k19, k20, k21, k22, k23, k24, k25, k26, k27, k28, k29, k30, k31, Nat.reducePow]
    have d0 := dec26A a0 b0
    have d1 := dec26B a1 b1
    have d2 := dec26C a2 b2
    have d3 := dec26D a3 b3
    have d4 := dec26A a4 b4
    have d5 := dec26B a5 b5
    have d6 := dec26C a6 b6
    have d7 := dec26D a7 b7
    have d8 := dec26A a8 b8
    have d9 := dec26E a9 b9
    clear k0 k1 k2 k3 k4 k5 k6 k7 k8 k9 k10 k11 k12 k13 k14 k15 k16 k17 k18 k19 k20 k21 k22 k23 k24 k25 k26 k27 k28 k29 k30 k31 b0 b1 b2 b3 b4 b5 b6 b7 b8 b9
    generalize a0 % 256 = x0_0 at *
    generalize a0 / 256 % 256 = x0_8 at *
    generalize a0 / 65536 % 256 = x0_16 at *
    generalize a0 / 16777216 % 4 = x0_24 at *
    generalize a1 % 64 = x1_0 at *
    generalize a1 / 64 % 256 = x1_6 at *
    generalize a1 / 16384 % 256 = x1_14 at *
    generalize a1 / 4194304 % 16 = x1_22 at *
    generalize a2 % 16 = x2_0 at *
    generalize a2 / 16 % 256 = x2_4 at *
    generalize a2 / 4096 % 256 = x2_12 at *
    generalize a2 / 1048576 % 64 = x2_20 at *
    generalize a3 % 4 = x3_0 at *
    generalize a3 / 4 % 256 = x3_2 at *
    generalize a3 / 1024 % 256 = x3_10 at *
    generalize a3 / 262144 % 256 = x3_18 at *
    generalize a4 % 256 = x4_0 at *
    generalize a4 / 256 % 256 = x4_8 at *
    generalize a4 / 65536 % 256 = x4_16 at *
    generalize a4 / 16777216 % 4 = x4_24 at *
    generalize a5 % 64 = x5_0 at *
    generalize a5 / 64 % 256 = x5_6 at *
    generalize a5 / 16384 % 256 = x5_14 at *
    generalize a5 / 4194304 % 16 = x5_22 at *
    generalize a6 % 16 = x6_0 at *
    generalize a6 / 16 % 256 = x6_4 at *
    generalize a6 / 4096 % 256 = x6_12 at *
    generalize a6 / 1048576 % 64 = x6_20 at *
    generalize a7 % 4 = x7_0 at *
    generalize a7 / 4 % 256 = x7_2 at *
    generalize a7 / 1024 % 256 = x7_10 at *
    generalize a7 / 262144 % 256 = x7_18 at *
    generalize a8 % 256 = x8_0 at *
    generalize a8 / 256 % 256 = x8_8 at *
    generalize a8 / 65536 % 256 = x8_16 at *
    generalize a8 / 16777216 % 4 = x8_24 at *
    generalize a9 % 64 = x9_0 at *
    generalize a9 / 64 % 256 = x9_6 at *
    generalize a9 / 16384 % 256 = x9_14 at *
    omega

/-- the limbs of `p - 1`, 5×52, in the array `a.n` (a normalized element with all bytes but the last few `0xFF`) -/
def pm1Env5 : Env :=
  [(("a.n", 0), 0xFFFFEFFFFFC2E), (("a.n", 1), 0xFFFFFFFFFFFFF), (("a.n", 2), 0xFFFFFFFFFFFFF),
   (("a.n", 3), 0xFFFFFFFFFFFFF), (("a.n", 4), 0xFFFFFFFFFFFF)]

/-- the limbs of `p - 1`, 10×26 -/
def pm1Env10 : Env :=
  [(("a.n", 0), 0x3FFFC2E), (("a.n", 1), 0x3FFFFBF), (("a.n", 2), 0x3FFFFFF), (("a.n", 3), 0x3FFFFFF),
   (("a.n", 4), 0x3FFFFFF), (("a.n", 5), 0x3FFFFFF), (("a.n", 6), 0x3FFFFFF), (("a.n", 7), 0x3FFFFFF),
   (("a.n", 8), 0x3FFFFFF), (("a.n", 9), 0x3FFFFF)]

/-- non-vacuity: `p - 1` is normalized in both layouts; its serialisation has the big-endian value `p - 1` -/
example : Red5 pm1Env5 "a.n" ∧ Red10 pm1Env10 "a.n" ∧
    beVal (runC Gen.ct.fe_get_b32 pm1Env5) "r" 32 = P - 1 ∧ beVal (runC Gen.ct32.fe_get_b32 pm1Env10) "r" 32 = P - 1 := by
  have h1 : Red5 pm1Env5 "a.n" := by decide +kernel
  have h2 : Red10 pm1Env10 "a.n" := by decide +kernel
  refine ⟨h1, h2, ?_, ?_⟩
  · rw [(fe_get_b32_5x52 _ h1).2]; decide +kernel
  · rw [(fe_get_b32_10x26 _ h2).2]; decide +kernel

/-! ## 6. `gej_neg`, `ge_to_storage` -/

/-- **`secp256k1_gej_neg` (5×52).**  For `a.y` of magnitude ≤ 32: `x`, `z` and `infinity` are copied limb by limb, and
    `r.y` is a representation of `-a.y`: `r.y + a.y ≡ 0 (mod p)`, of magnitude 2 (the inlined `normalize_weak`
    followed by `negate(·, 1)`; no unsigned subtraction borrows). -/
theorem gej_neg_5x52 (env : Env) (h : Mag5 env "a.y.n" 32) :
    (∀ i, i < 5 → (runC Gen.ct.gej_neg env).get "r.x.n" i = env.get "a.x.n" i) ∧
    (∀ i, i < 5 → (runC Gen.ct.gej_neg env).get "r.z.n" i = env.get "a.z.n" i) ∧
    (runC Gen.ct.gej_neg env).get "r.infinity" 0 = env.get "a.infinity" 0 ∧
    (val5At (runC Gen.ct.gej_neg env) "r.y.n" + val5At env "a.y.n") % P = 0 ∧
    Mag5 (runC Gen.ct.gej_neg env) "r.y.n" 2 := by
  rw [runC_eq_runW _ _ (by decide +kernel)]
  obtain ⟨x0, x1, x2, x3, x4, z0, z1, z2, z3, z4, hi⟩ := gej_neg_5x52_copy env
  obtain ⟨k1, k2⟩ := gej_neg_5x52_key env h
  refine ⟨?_, ?_, hi, k1, k2⟩
  · intro i hi
    have : i = 0 ∨ i = 1 ∨ i = 2 ∨ i = 3 ∨ i = 4 := by omega
    rcases this with rfl | rfl | rfl | rfl | rfl
    exacts [x0, x1, x2, x3, x4]
  · intro i hi
    have : i = 0 ∨ i = 1 ∨ i = 2 ∨ i = 3 ∨ i = 4 := by omega
    rcases this with rfl | rfl | rfl | rfl | rfl
    exacts [z0, z1, z2, z3, z4]

/-- non-vacuity: `a.y` at the top of magnitude 32 -/
example : let e : Env := fill "a.y.n" (fun i => if i = 4 then 2 * 32 * (2 ^ 48 - 1) else 2 * 32 * (2 ^ 52 - 1)) 5
    Mag5 e "a.y.n" 32 ∧ Mag5 (runC Gen.ct.gej_neg e) "r.y.n" 2 := by
  intro e
  have h : Mag5 e "a.y.n" 32 := by decide +kernel
  exact ⟨h, (gej_neg_5x52 e h).2.2.2.2⟩

/-- **`secp256k1_gej_neg` (10×26), PARTIAL**: the same under `NoOvf10` for `a.y` (magnitude ≤ 32 and the two 32-bit
    additions of the first `normalize_weak` pass do not wrap; implied by magnitude ≤ 31).  For the extreme
    magnitude-32 inputs the inlined `normalize_weak` is wrong (`fe_normalize_10x26_mag32_counterexample` in
    `Props/C05_fieldlin.lean`). -/
theorem gej_neg_10x26_partial (env : Env) (h : NoOvf10 env "a.y.n") :
    (∀ i, i < 10 → (runC Gen.ct32.gej_neg env).get "r.x.n" i = env.get "a.x.n" i) ∧
    (∀ i, i < 10 → (runC Gen.ct32.gej_neg env).get "r.z.n" i = env.get "a.z.n" i) ∧
    (runC Gen.ct32.gej_neg env).get "r.infinity" 0 = env.get "a.infinity" 0 ∧
    (val10At (runC Gen.ct32.gej_neg env) "r.y.n" + val10At env "a.y.n") % P = 0 ∧
    Mag10 (runC Gen.ct32.gej_neg env) "r.y.n" 2 := by
  rw [runC_eq_runW _ _ (by decide +kernel)]
  obtain ⟨x0, x1, x2, x3, x4, x5, x6, x7, x8, x9, z0, z1, z2, z3, z4, z5, z6, z7, z8, z9, hi⟩ := gej_neg_10x26_copy env
  obtain ⟨k1, k2⟩ := gej_neg_10x26_key env h
  refine ⟨?_, ?_, hi, k1, k2⟩
  · intro i hi
    have : i = 0 ∨ i = 1 ∨ i = 2 ∨ i = 3 ∨ i = 4 ∨ i = 5 ∨ i = 6 ∨ i = 7 ∨ i = 8 ∨ i = 9 := by omega
    rcases this with rfl | rfl | rfl | rfl | rfl | rfl | rfl | rfl | rfl | rfl
    exacts [x0, x1, x2, x3, x4, x5, x6, x7, x8, x9]
  · intro i hi
    have : i = 0 ∨ i = 1 ∨ i = 2 ∨ i = 3 ∨ i = 4 ∨ i = 5 ∨ i = 6 ∨ i = 7 ∨ i = 8 ∨ i = 9 := by omega
    rcases this with rfl | rfl | rfl | rfl | rfl | rfl | rfl | rfl | rfl | rfl
    exacts [z0, z1, z2, z3, z4, z5, z6, z7, z8, z9]

/-- `secp256k1_gej_neg` (10×26) negates `y` for every `a.y` of magnitude ≤ 31 -/
theorem gej_neg_10x26_mag31 (env : Env) (h : Mag10 env "a.y.n" 31) :
    (val10At (runC Gen.ct32.gej_neg env) "r.y.n" + val10At env "a.y.n") % P = 0 ∧
    Mag10 (runC Gen.ct32.gej_neg env) "r.y.n" 2 :=
  (gej_neg_10x26_partial env (noOvf10_of_normPre10 (NormPre10_of_mag31 h))).2.2.2

/-- non-vacuity: `a.y` at the top of magnitude 31 -/
example : let e : Env := fill "a.y.n" (fun i => if i = 9 then 2 * 31 * (2 ^ 22 - 1) else 2 * 31 * (2 ^ 26 - 1)) 10
    Mag10 e "a.y.n" 31 ∧ Mag10 (runC Gen.ct32.gej_neg e) "r.y.n" 2 := by
  intro e
  have h : Mag10 e "a.y.n" 31 := by decide +kernel
  exact ⟨h, (gej_neg_10x26_mag31 e h).2⟩

/-- **`secp256k1_ge_to_storage` (5×52).**  For coordinates of magnitude ≤ 32 the four 64-bit words of `r.x` (resp. `r.y`)
    hold the canonical representative: their value `Σ r.x.n[i] 2^(64 i)` is `a.x mod p` (the inlined full
    `normalize`, then the packing of 5×52 into 4×64). -/
theorem ge_to_storage_5x52 (env : Env) (hx : Mag5 env "a.x.n" 32) (hy : Mag5 env "a.y.n" 32) :
    C05sc.sval (runC Gen.ct.ge_to_storage env) "r.x.n" = val5At env "a.x.n" % P ∧
    C05sc.Limbs64 (runC Gen.ct.ge_to_storage env) "r.x.n" ∧
    C05sc.sval (runC Gen.ct.ge_to_storage env) "r.y.n" = val5At env "a.y.n" % P ∧
    C05sc.Limbs64 (runC Gen.ct.ge_to_storage env) "r.y.n" := by
  rw [runC_eq_runW _ _ (by decide +kernel)]
  obtain ⟨k1, k2⟩ := ge_to_storage_5x52_key_x env hx
  obtain ⟨k3, k4⟩ := ge_to_storage_5x52_key_y env hy
  exact ⟨k1, k2, k3, k4⟩

/-- non-vacuity: `x` at the top of magnitude 32, `y = p` (limbs of `p`, stored as `0`) -/
example : let e : Env := fill "a.x.n" (fun i => if i = 4 then 2 * 32 * (2 ^ 48 - 1) else 2 * 32 * (2 ^ 52 - 1)) 5 ++
      fill "a.y.n" (fun i => if i = 0 then 0xFFFFEFFFFFC2F else if i = 4 then 0xFFFFFFFFFFFF else 0xFFFFFFFFFFFFF) 5
    Mag5 e "a.x.n" 32 ∧ Mag5 e "a.y.n" 32 ∧ C05sc.sval (runC Gen.ct.ge_to_storage e) "r.y.n" = 0 := by
  intro e
  have h1 : Mag5 e "a.x.n" 32 := by decide +kernel
  have h2 : Mag5 e "a.y.n" 32 := by decide +kernel
  refine ⟨h1, h2, ?_⟩
  rw [(ge_to_storage_5x52 e h1 h2).2.2.1]
  decide +kernel

/-- **`secp256k1_ge_to_storage` (10×26), PARTIAL**: under `NoOvf10` for both coordinates (implied by magnitude ≤ 31) the
    eight 32-bit words of `r.x` (resp. `r.y`) hold the canonical representative `a.x mod p` (resp. `a.y mod p`). -/
theorem ge_to_storage_10x26_partial (env : Env) (hx : NoOvf10 env "a.x.n") (hy : NoOvf10 env "a.y.n") :
    C05sc32.sval (runC Gen.ct32.ge_to_storage env) "r.x.n" = val10At env "a.x.n" % P ∧
    C05sc32.Limbs32 (runC Gen.ct32.ge_to_storage env) "r.x.n" ∧
    C05sc32.sval (runC Gen.ct32.ge_to_storage env) "r.y.n" = val10At env "a.y.n" % P ∧
    C05sc32.Limbs32 (runC Gen.ct32.ge_to_storage env) "r.y.n" := by
  rw [runC_eq_runW _ _ (by decide +kernel)]
  obtain ⟨k1, k2⟩ := ge_to_storage_10x26_key_x env hx
  obtain ⟨k3, k4⟩ := ge_to_storage_10x26_key_y env hy
  exact ⟨k1, k2, k3, k4⟩

/-- `secp256k1_ge_to_storage` (10×26) for coordinates of magnitude ≤ 31 -/
theorem ge_to_storage_10x26_mag31 (env : Env) (hx : Mag10 env "a.x.n" 31) (hy : Mag10 env "a.y.n" 31) :
    C05sc32.sval (runC Gen.ct32.ge_to_storage env) "r.x.n" = val10At env "a.x.n" % P ∧
    C05sc32.sval (runC Gen.ct32.ge_to_storage env) "r.y.n" = val10At env "a.y.n" % P :=
  let t := ge_to_storage_10x26_partial env (noOvf10_of_normPre10 (NormPre10_of_mag31 hx))
    (noOvf10_of_normPre10 (NormPre10_of_mag31 hy))
  ⟨t.1, t.2.2.1⟩

/-- non-vacuity (10×26): `x` at the top of magnitude 31, `y = p` -/
example : let e : Env := fill "a.x.n" (fun i => if i = 9 then 2 * 31 * (2 ^ 22 - 1) else 2 * 31 * (2 ^ 26 - 1)) 10 ++
      fill "a.y.n" (fun i => if i = 0 then 0x3FFFC2F else if i = 1 then 0x3FFFFBF else if i = 9 then 0x3FFFFF else 0x3FFFFFF) 10
    Mag10 e "a.x.n" 31 ∧ Mag10 e "a.y.n" 31 ∧ C05sc32.sval (runC Gen.ct32.ge_to_storage e) "r.y.n" = 0 := by
  intro e
  have h1 : Mag10 e "a.x.n" 31 := by decide +kernel
  have h2 : Mag10 e "a.y.n" 31 := by decide +kernel
  refine ⟨h1, h2, ?_⟩
  rw [(ge_to_storage_10x26_mag31 e h1 h2).2]
  decide +kernel

end C05sel
end SecpZkp
