import SecpZkp.Proofs.FieldInv10
import SecpZkp.Props.C05_fieldlin
import SecpZkp.Props.C05_field10x26
/-
  C05 (field part, representation invariant of the 10×26 layout): the wrap-around of the 10×26
  `secp256k1_fe_normalize` / `_normalize_weak` on some magnitude-32 inputs (`C05lin.fe_normalize_10x26_mag32_counterexample`,
  reproduced on the C library with `secp256k1_fe_get_bounds(&a, 32); secp256k1_fe_normalize(&a)`) is NOT reachable through
  the arithmetic producers of the field API: every translated producer maintains an invariant that is stronger than what
  `secp256k1_fe_impl_verify` checks and that excludes the overflow.

  Object of the theorems: the generated IR `Gen.field10x26.*`, run with C's wrap-around semantics
  (`runC f env = (execL env f.body).env`).  Definitions in `Proofs/FieldInv10.lean`:

  * `Tight10 env a m` : limb `i` of the array `a` is `≤ 2 m p_i` (`p_i` the limbs of `p`: `2^26-977`, `2^26-65`, `2^26-1` ×7,
    `2^22-1`); `secp256k1_fe_impl_verify` only checks `≤ 2 m (2^26-1)` for limbs 0 and 1.
  * `Inv10 env a m`   : `Mag10 env a m` and the joint bounds `n0 + 977 n9/(2^22-1) ≤ m 2^27`,
    `n0 + 2^26 n1 + (2^32+977) n9/(2^22-1) ≤ m 2^53`.
  * `NoOvf10 env a`   : magnitude ≤ 32 and the first-pass additions `t0 += x*0x3D1`, `t1 += (x<<6); t1 += (t0>>26)` stay
    below `2^32`.    `Tight10 · 32 → NormPre10 → NoOvf10`,  `Tight10 · m → Inv10 · m`,  `Inv10 · 32 → NoOvf10`.

  Results
  (a) `Tight10 · 32 → NormPre10` (`tight10_normPre10`); `fe_normalize_10x26_tight`, `fe_normalize_weak_10x26_tight`:
      both functions are exact on every `Tight10` input of magnitude ≤ 32 and return `Tight10 · 1`.
  (b) `Tight10` is preserved by `add` (`mr+ma ≤ 32`), `mul_int` (`m a ≤ 32`), established by `negate` (for ANY input of
      magnitude `m ≤ 31`: `Tight10 (m+1)`), by `normalize`, `normalize_weak`, and by `mul_inner` / `sqr_inner` (`Tight10 · 1`,
      using the interval bound `r[2] ≤ 68157440 ≤ 2 (2^26-1)`).
      `half` does NOT preserve `Tight10`: `fe_half_10x26_not_tight` (input `Tight10 · 1`, output of documented
      magnitude 1 has `n[0] = 2 p_0 + 488`, `n[1] = 2 p_1 + 32`).  What it does preserve from a `Tight10 · m` input is
      `fe_half_10x26_tight_slack` (limbs 2..9 tight, limbs 0/1 tight + 488 / + 32).  This slack matters: the state reached by
      `negate(1, 2); half; mul_int 16` (all calls within contract) is outside `Tight10 · 32` AND outside `NormPre10`
      (`reach_needs_inv10`).  So the interval argument alone does not close.  (Not formalised: iterating `half` at
      magnitude 1 the excess converges to 976 / 64 per unit of magnitude.)
  (b') The JOINT invariant `Inv10` closes the gap: it is implied by `Tight10`, preserved by `add`, `mul_int`, `half`
      (`fe_half_10x26_inv`, exactly, for the documented magnitude `⌊m/2⌋+1`), established by `negate`, `normalize`,
      `normalize_weak`, `mul_inner`, `sqr_inner`, and `Inv10 · 32 → NoOvf10`, under which `normalize` / `normalize_weak` are
      exact (`fe_normalize_10x26_exact`, `fe_normalize_weak_10x26_exact`; these subsume the `…_partial` theorems of
      `C05_fieldlin`).  Hence, starting from outputs of `normalize`/`normalize_weak`/`mul`/`sqr`/`negate` and applying
      `add`, `mul_int`, `negate`, `half` within their documented magnitude contracts, the overflow cannot occur.
      (Hand computation, not formalised: the margin is thin; `32 ×` the limit of the magnitude-1 half-chain comes within
      about 32 of `2^32` in `t0` and within a few units in `t1`; the joint bounds of `Inv10` are tight for `half` at odd `m`.)
  (c) Nothing of this is needed for the 5×52 layout: `C05lin.fe_normalize_5x52` / `fe_normalize_weak_5x52` are exact on the
      full `secp256k1_fe_impl_verify` domain (magnitude ≤ 32).

  Not translated, hence not covered here: `secp256k1_fe_add_int` (adds `a ≤ 0x7FFF` to limb 0, magnitude + 1: within
  `Tight10`), `secp256k1_fe_cmov` (selects one of two elements), `secp256k1_fe_set_b32_*` / `from_storage` / `from_signed30`
  (produce limbs `< 2^26`, top `< 2^22`); `secp256k1_fe_get_bounds` (test helper) deliberately produces the verify bound and
  is the only way found to hit the overflow.
-/

namespace SecpZkp
namespace C05inv
open MiniC MiniC.Bounds FieldKernel FieldLinear C05lin

/-! ## (a) `Tight10 · 32` inputs -/

/-- `Tight10` at magnitude 32 implies the interval precondition `NormPre10` (`64 (2^26-977) = 2^32 - 62528 ≤ 2^32 - 61552`,
    `64 (2^26-65) = 2^32 - 4160 ≤ 2^32 - 4096`). -/
theorem tight10_normPre10 (env : Env) (a : String) (h : Tight10 env a 32) : NormPre10 env a :=
  normPre10_of_tight10 h

/-- `secp256k1_fe_normalize` (10×26) is exact on every `Tight10` input of magnitude ≤ 32, and its output is `Tight10 · 1`. -/
theorem fe_normalize_10x26_tight (env : Env) (h : Tight10 env "r.n" 32) :
    Red10 (runC Gen.field10x26.fe_normalize env) "r.n" ∧
    val10At (runC Gen.field10x26.fe_normalize env) "r.n" < P ∧
    val10At (runC Gen.field10x26.fe_normalize env) "r.n" = val10At env "r.n" % P ∧
    Tight10 (runC Gen.field10x26.fe_normalize env) "r.n" 1 :=
  let t := fe_normalize_10x26_partial env (normPre10_of_tight10 h)
  ⟨t.1, t.2.1, t.2.2, tight10_of_red10 t.1⟩

/-- `secp256k1_fe_normalize_weak` (10×26) is exact on every `Tight10` input of magnitude ≤ 32, and its output is
    `Tight10 · 1`. -/
theorem fe_normalize_weak_10x26_tight (env : Env) (h : Tight10 env "r.n" 32) :
    val10At (runC Gen.field10x26.fe_normalize_weak env) "r.n" % P = val10At env "r.n" % P ∧
    Tight10 (runC Gen.field10x26.fe_normalize_weak env) "r.n" 1 := by
  obtain ⟨t1, -, t3, t4⟩ := fe_normalize_weak_10x26_partial env (normPre10_of_tight10 h)
  refine ⟨t1, ?_⟩
  have b0 := t3 0 (by omega); have b1 := t3 1 (by omega); have b2 := t3 2 (by omega)
  have b3 := t3 3 (by omega); have b4 := t3 4 (by omega); have b5 := t3 5 (by omega)
  have b6 := t3 6 (by omega); have b7 := t3 7 (by omega); have b8 := t3 8 (by omega)
  generalize runC Gen.field10x26.fe_normalize_weak env = out at *
  simp only [Tight10, Nat.reducePow, Nat.reduceSub] at b0 b1 b2 b3 b4 b5 b6 b7 b8 t4 ⊢
  omega

/-- a `Tight10` element at the top of magnitude `m` -/
def tightTop10 (a : String) (m : Nat) : Env :=
  [((a, 0), 2 * m * (2 ^ 26 - 977)), ((a, 1), 2 * m * (2 ^ 26 - 65)), ((a, 2), 2 * m * (2 ^ 26 - 1)),
   ((a, 3), 2 * m * (2 ^ 26 - 1)), ((a, 4), 2 * m * (2 ^ 26 - 1)), ((a, 5), 2 * m * (2 ^ 26 - 1)),
   ((a, 6), 2 * m * (2 ^ 26 - 1)), ((a, 7), 2 * m * (2 ^ 26 - 1)), ((a, 8), 2 * m * (2 ^ 26 - 1)),
   ((a, 9), 2 * m * (2 ^ 22 - 1))]

/-- non-vacuity: the top of `Tight10 · 32` (the limbs of `64 p`): it is NOT of magnitude 31, it normalizes to 0 -/
example : Tight10 (tightTop10 "r.n" 32) "r.n" 32 ∧ ¬ Mag10 (tightTop10 "r.n" 32) "r.n" 31 ∧
    val10At (runC Gen.field10x26.fe_normalize (tightTop10 "r.n" 32)) "r.n" = 0 :=
  ⟨by decide +kernel, by decide +kernel,
   of_decide_eq_true (runC_check (post := fun out => decide (val10At out "r.n" = 0)) (by decide +kernel))⟩

example : Tight10 (runC Gen.field10x26.fe_normalize_weak (tightTop10 "r.n" 32)) "r.n" 1 :=
  (fe_normalize_weak_10x26_tight _ (by decide +kernel)).2

/-! ## (b) closure of `Tight10` -/

/-- `fe_add` preserves `Tight10` (magnitudes add). -/
theorem fe_add_10x26_tight (env : Env) (mr ma : Nat) (hm : mr + ma ≤ 32)
    (hr : Tight10 env "r.n" mr) (ha : Tight10 env "a.n" ma) :
    Tight10 (runC Gen.field10x26.fe_add env) "r.n" (mr + ma) := by
  obtain ⟨k, -, -⟩ := fe_add_10x26 env mr ma hm (mag10_of_tight10 hr) (mag10_of_tight10 ha)
  have k0 := k 0 (by omega); have k1 := k 1 (by omega); have k2 := k 2 (by omega); have k3 := k 3 (by omega)
  have k4 := k 4 (by omega); have k5 := k 5 (by omega); have k6 := k 6 (by omega); have k7 := k 7 (by omega)
  have k8 := k 8 (by omega); have k9 := k 9 (by omega)
  generalize runC Gen.field10x26.fe_add env = out at *
  simp only [Tight10, k0, k1, k2, k3, k4, k5, k6, k7, k8, k9, Nat.reducePow, Nat.reduceSub] at hr ha ⊢
  omega

example : Tight10 (runC Gen.field10x26.fe_add (tightTop10 "r.n" 3 ++ tightTop10 "a.n" 29)) "r.n" 32 :=
  fe_add_10x26_tight _ 3 29 (by decide) (by decide +kernel) (by decide +kernel)

/-- `fe_mul_int` preserves `Tight10` (magnitude multiplied by the scalar). -/
theorem fe_mul_int_10x26_tight (env : Env) (m : Nat) (ha : env.get "a" 0 ≤ 32) (hm : m * env.get "a" 0 ≤ 32)
    (hr : Tight10 env "r.n" m) :
    Tight10 (runC Gen.field10x26.fe_mul_int env) "r.n" (m * env.get "a" 0) := by
  obtain ⟨k, -, -⟩ := fe_mul_int_10x26 env m ha hm (mag10_of_tight10 hr)
  have k0 := k 0 (by omega); have k1 := k 1 (by omega); have k2 := k 2 (by omega); have k3 := k 3 (by omega)
  have k4 := k 4 (by omega); have k5 := k 5 (by omega); have k6 := k 6 (by omega); have k7 := k 7 (by omega)
  have k8 := k 8 (by omega); have k9 := k 9 (by omega)
  obtain ⟨h0, h1, h2, h3, h4, h5, h6, h7, h8, h9⟩ := hr
  generalize runC Gen.field10x26.fe_mul_int env = out at *
  simp only [Tight10, k0, k1, k2, k3, k4, k5, k6, k7, k8, k9]
  exact ⟨mul_bound h0, mul_bound h1, mul_bound h2, mul_bound h3, mul_bound h4, mul_bound h5, mul_bound h6,
    mul_bound h7, mul_bound h8, mul_bound h9⟩

example : Tight10 (runC Gen.field10x26.fe_mul_int ((("a", 0), 8) :: tightTop10 "r.n" 4)) "r.n" 32 :=
  fe_mul_int_10x26_tight _ 4 (by decide +kernel) (by decide +kernel) (by decide +kernel)

/-- `fe_negate` ESTABLISHES `Tight10`: for any input of magnitude `m ≤ 31` (only `secp256k1_fe_impl_verify`'s bound is
    needed) the output limbs are `2 (m+1) p_i - a_i ≤ 2 (m+1) p_i`. -/
theorem fe_negate_10x26_tight (env : Env) (hm : env.get "m" 0 ≤ 31) (ha : Mag10 env "a.n" (env.get "m" 0)) :
    Tight10 (runC Gen.field10x26.fe_negate env) "r.n" (env.get "m" 0 + 1) := by
  rw [runC_eq_runW _ _ (by decide)]
  exact fe_negate_10x26_tight_key env hm ha

example : Tight10 (runC Gen.field10x26.fe_negate ((("m", 0), 31) :: top10 "a.n" 31)) "r.n" 32 :=
  fe_negate_10x26_tight _ (by decide +kernel) (by decide +kernel)

/-- the odd element at the top of `Tight10 · 1`: `[2 p_0 - 1, 2 p_1, 2 (2^26-1), …, 2 (2^22-1)]` -/
def halfCex : Env := (("r.n", 0), 2 * (2 ^ 26 - 977) - 1) :: tightTop10 "r.n" 1

/-- **`fe_half` does NOT preserve `Tight10`.**  `halfCex` is `Tight10 · 1`; `secp256k1_fe_half` documents output magnitude
    `⌊1/2⌋ + 1 = 1`, but the output has `n[0] = 2 p_0 + 488` and `n[1] = 2 p_1 + 32` (it still has magnitude 1 in the sense
    of `secp256k1_fe_impl_verify`, and satisfies `Inv10 · 1`). -/
theorem fe_half_10x26_not_tight :
    Tight10 halfCex "r.n" 1 ∧ ¬ Tight10 (runC Gen.field10x26.fe_half halfCex) "r.n" 1 ∧
    (runC Gen.field10x26.fe_half halfCex).get "r.n" 0 = 2 * (2 ^ 26 - 977) + 488 ∧
    (runC Gen.field10x26.fe_half halfCex).get "r.n" 1 = 2 * (2 ^ 26 - 65) + 32 ∧
    Inv10 (runC Gen.field10x26.fe_half halfCex) "r.n" 1 :=
  ⟨by decide +kernel,
   of_decide_eq_true (runC_check (post := fun out => decide (¬ Tight10 out "r.n" 1)) (by decide +kernel)),
   of_decide_eq_true (runC_check (post := fun out => decide (out.get "r.n" 0 = 2 * (2 ^ 26 - 977) + 488))
     (by decide +kernel)),
   of_decide_eq_true (runC_check (post := fun out => decide (out.get "r.n" 1 = 2 * (2 ^ 26 - 65) + 32))
     (by decide +kernel)),
   of_decide_eq_true (runC_check (post := fun out => decide (Inv10 out "r.n" 1)) (by decide +kernel))⟩

/-- what `fe_half` preserves of `Tight10`: with `m' = ⌊m/2⌋ + 1` the documented output magnitude, limbs 2..9 are `≤ 2 m' p_i`,
    limb 0 is `≤ 2 m' p_0 + 488`, limb 1 is `≤ 2 m' p_1 + 32` (sharp by `fe_half_10x26_not_tight`). -/
theorem fe_half_10x26_tight_slack (env : Env) (m : Nat) (hm : m ≤ 31) (h : Tight10 env "r.n" m) :
    (runC Gen.field10x26.fe_half env).get "r.n" 0 ≤ 2 * (m / 2 + 1) * (2 ^ 26 - 977) + 488 ∧
    (runC Gen.field10x26.fe_half env).get "r.n" 1 ≤ 2 * (m / 2 + 1) * (2 ^ 26 - 65) + 32 ∧
    (∀ i, 2 ≤ i → i < 9 → (runC Gen.field10x26.fe_half env).get "r.n" i ≤ 2 * (m / 2 + 1) * (2 ^ 26 - 1)) ∧
    (runC Gen.field10x26.fe_half env).get "r.n" 9 ≤ 2 * (m / 2 + 1) * (2 ^ 22 - 1) := by
  rw [runC_eq_runW _ _ (by decide)]
  obtain ⟨k0, k1, k2, k3, k4, k5, k6, k7, k8, k9⟩ := fe_half_10x26_tight_slack_key env m hm h
  generalize runW env Gen.field10x26.fe_half.body = out at *
  refine ⟨k0, k1, ?_, k9⟩
  intro i h2 h9
  have : i = 2 ∨ i = 3 ∨ i = 4 ∨ i = 5 ∨ i = 6 ∨ i = 7 ∨ i = 8 := by omega
  rcases this with rfl | rfl | rfl | rfl | rfl | rfl | rfl <;> assumption

example : (runC Gen.field10x26.fe_half (tightTop10 "r.n" 31)).get "r.n" 9 ≤ 2 * 16 * (2 ^ 22 - 1) :=
  (fe_half_10x26_tight_slack _ 31 (by decide) (by decide +kernel)).2.2.2

/-- tight output contract of `mul_inner` / `sqr_inner` as derived by the interval analysis (`r[2] ≤ 68157440`) -/
def tightOutMul : List ((String × Nat) × Nat) :=
  [(("r", 0), 2 ^ 26 - 1), (("r", 1), 2 ^ 26 - 1), (("r", 2), 68157440), (("r", 3), 2 ^ 26 - 1), (("r", 4), 2 ^ 26 - 1),
   (("r", 5), 2 ^ 26 - 1), (("r", 6), 2 ^ 26 - 1), (("r", 7), 2 ^ 26 - 1), (("r", 8), 2 ^ 26 - 1), (("r", 9), 2 ^ 22 - 1)]

theorem fe_mul_inner_10x26_tight_out :
    checkOut FieldKernel10x26.mulB Gen.field10x26.fe_mul_inner.body tightOutMul = true := by decide +kernel

theorem fe_sqr_inner_10x26_tight_out :
    checkOut FieldKernel10x26.sqrB Gen.field10x26.fe_sqr_inner.body tightOutMul = true := by decide +kernel

theorem tight10_of_tightOutMul {out : Env} (hb : ∀ o ∈ tightOutMul, out.get o.1.1 o.1.2 ≤ o.2) :
    Tight10 out "r" 1 := by
  have b0 := hb (("r", 0), 2 ^ 26 - 1) (by simp [tightOutMul])
  have b1 := hb (("r", 1), 2 ^ 26 - 1) (by simp [tightOutMul])
  have b2 := hb (("r", 2), 68157440) (by simp [tightOutMul])
  have b3 := hb (("r", 3), 2 ^ 26 - 1) (by simp [tightOutMul])
  have b4 := hb (("r", 4), 2 ^ 26 - 1) (by simp [tightOutMul])
  have b5 := hb (("r", 5), 2 ^ 26 - 1) (by simp [tightOutMul])
  have b6 := hb (("r", 6), 2 ^ 26 - 1) (by simp [tightOutMul])
  have b7 := hb (("r", 7), 2 ^ 26 - 1) (by simp [tightOutMul])
  have b8 := hb (("r", 8), 2 ^ 26 - 1) (by simp [tightOutMul])
  have b9 := hb (("r", 9), 2 ^ 22 - 1) (by simp [tightOutMul])
  simp only [Nat.reducePow, Nat.reduceSub] at b0 b1 b2 b3 b4 b5 b6 b7 b8 b9
  simp only [Tight10, Nat.reducePow, Nat.reduceSub]
  omega

/-- the output of the 10×26 `secp256k1_fe_mul_inner` is `Tight10 · 1` (in addition to representing `a b mod p`:
    `C05x26.fe_mul_inner_correct`), for all inputs within its contract (`a[i], b[i] < 2^30`, top limbs `< 2^26`). -/
theorem fe_mul_inner_10x26_tight (env : Env) (hr : Respects env FieldKernel10x26.mulB) :
    Tight10 (runC Gen.field10x26.fe_mul_inner env) "r" 1 ∧ C05x26.MulPost env (runC Gen.field10x26.fe_mul_inner env) :=
  ⟨tight10_of_tightOutMul (checkOut_sound hr fe_mul_inner_10x26_tight_out).2, C05x26.fe_mul_inner_correct env hr⟩

/-- the output of the 10×26 `secp256k1_fe_sqr_inner` is `Tight10 · 1` (and represents `a^2 mod p`). -/
theorem fe_sqr_inner_10x26_tight (env : Env) (hr : Respects env FieldKernel10x26.sqrB) :
    Tight10 (runC Gen.field10x26.fe_sqr_inner env) "r" 1 ∧ C05x26.SqrPost env (runC Gen.field10x26.fe_sqr_inner env) :=
  ⟨tight10_of_tightOutMul (checkOut_sound hr fe_sqr_inner_10x26_tight_out).2, C05x26.fe_sqr_inner_correct env hr⟩

example : Respects C05x26.onesEnv FieldKernel10x26.mulB ∧
    Tight10 (runC Gen.field10x26.fe_mul_inner C05x26.onesEnv) "r" 1 :=
  ⟨respects_of_all (by decide +kernel), (fe_mul_inner_10x26_tight _ (respects_of_all (by decide +kernel))).1⟩

example : Respects C05x26.onesEnv FieldKernel10x26.sqrB ∧
    Tight10 (runC Gen.field10x26.fe_sqr_inner C05x26.onesEnv) "r" 1 :=
  ⟨respects_of_all (by decide +kernel), (fe_sqr_inner_10x26_tight _ (respects_of_all (by decide +kernel))).1⟩

/-! ## (b') the joint invariant `Inv10`, which `half` does preserve -/

/-- `Tight10 · m → Inv10 · m` (so every `Tight10` producer above is an `Inv10` producer) -/
theorem inv10_of_tight10' (env : Env) (a : String) (m : Nat) (h : Tight10 env a m) : Inv10 env a m :=
  inv10_of_tight10 h

/-- `Inv10 · 32` excludes the overflow: the first-pass additions of `normalize` / `normalize_weak` stay below `2^32`. -/
theorem inv10_noOvf10 (env : Env) (a : String) (h : Inv10 env a 32) : NoOvf10 env a := noOvf10_of_inv10 h

/-- **`secp256k1_fe_normalize` (10×26) is exact whenever its first-pass additions do not wrap** (`NoOvf10`; implied by
    `NormPre10`, by `Tight10 · 32`, by `Inv10 · 32`, by magnitude ≤ 31): fully reduced limbs, value `< p`, same residue. -/
theorem fe_normalize_10x26_exact (env : Env) (h : NoOvf10 env "r.n") :
    Red10 (runC Gen.field10x26.fe_normalize env) "r.n" ∧
    val10At (runC Gen.field10x26.fe_normalize env) "r.n" < P ∧
    val10At (runC Gen.field10x26.fe_normalize env) "r.n" = val10At env "r.n" % P := by
  rw [runC_eq_runW _ _ (by decide)]
  obtain ⟨k1, k2, k3⟩ := fe_normalize_10x26_exact_key env h
  exact ⟨k1, k2, by rw [← k3, Nat.mod_eq_of_lt k2]⟩

/-- **`secp256k1_fe_normalize_weak` (10×26) is exact under `NoOvf10`**: same residue, limbs 0..8 `< 2^26`,
    limb 9 `≤ 2^22 + 62` (hence `Tight10 · 1`). -/
theorem fe_normalize_weak_10x26_exact (env : Env) (h : NoOvf10 env "r.n") :
    val10At (runC Gen.field10x26.fe_normalize_weak env) "r.n" % P = val10At env "r.n" % P ∧
    Tight10 (runC Gen.field10x26.fe_normalize_weak env) "r.n" 1 := by
  rw [runC_eq_runW _ _ (by decide)]
  obtain ⟨k, b0, b1, b2, b3, b4, b5, b6, b7, b8, b9⟩ := fe_normalize_weak_10x26_exact_key env h
  refine ⟨k, ?_⟩
  generalize runW env Gen.field10x26.fe_normalize_weak.body = out at *
  simp only [Tight10, Nat.reducePow, Nat.reduceSub, Nat.reduceAdd] at b0 b1 b2 b3 b4 b5 b6 b7 b8 b9 ⊢
  omega

/-- `normalize` on an `Inv10 · 32` input: exact, output `Inv10 · 1` -/
theorem fe_normalize_10x26_inv (env : Env) (h : Inv10 env "r.n" 32) :
    val10At (runC Gen.field10x26.fe_normalize env) "r.n" < P ∧
    val10At (runC Gen.field10x26.fe_normalize env) "r.n" = val10At env "r.n" % P ∧
    Inv10 (runC Gen.field10x26.fe_normalize env) "r.n" 1 :=
  let t := fe_normalize_10x26_exact env (noOvf10_of_inv10 h)
  ⟨t.2.1, t.2.2, inv10_of_tight10 (tight10_of_red10 t.1)⟩

/-- `normalize_weak` on an `Inv10 · 32` input: exact, output `Inv10 · 1` -/
theorem fe_normalize_weak_10x26_inv (env : Env) (h : Inv10 env "r.n" 32) :
    val10At (runC Gen.field10x26.fe_normalize_weak env) "r.n" % P = val10At env "r.n" % P ∧
    Inv10 (runC Gen.field10x26.fe_normalize_weak env) "r.n" 1 :=
  let t := fe_normalize_weak_10x26_exact env (noOvf10_of_inv10 h)
  ⟨t.1, inv10_of_tight10 t.2⟩

/-- `fe_add` preserves `Inv10` -/
theorem fe_add_10x26_inv (env : Env) (mr ma : Nat) (hm : mr + ma ≤ 32)
    (hr : Inv10 env "r.n" mr) (ha : Inv10 env "a.n" ma) :
    Inv10 (runC Gen.field10x26.fe_add env) "r.n" (mr + ma) := by
  obtain ⟨k, -, km⟩ := fe_add_10x26 env mr ma hm hr.1 ha.1
  have k0 := k 0 (by omega); have k1 := k 1 (by omega); have k9 := k 9 (by omega)
  refine ⟨km, ?_⟩
  obtain ⟨-, hr1, hr2⟩ := hr
  obtain ⟨-, ha1, ha2⟩ := ha
  generalize runC Gen.field10x26.fe_add env = out at *
  simp only [k0, k1, k9, Nat.reducePow, Nat.reduceSub, Nat.reduceMul, Nat.reduceAdd] at hr1 hr2 ha1 ha2 ⊢
  omega

/-- `fe_mul_int` preserves `Inv10` -/
theorem fe_mul_int_10x26_inv (env : Env) (m : Nat) (ha : env.get "a" 0 ≤ 32) (hm : m * env.get "a" 0 ≤ 32)
    (hr : Inv10 env "r.n" m) :
    Inv10 (runC Gen.field10x26.fe_mul_int env) "r.n" (m * env.get "a" 0) := by
  obtain ⟨k, -, km⟩ := fe_mul_int_10x26 env m ha hm hr.1
  have k0 := k 0 (by omega); have k1 := k 1 (by omega); have k9 := k 9 (by omega)
  refine ⟨km, ?_⟩
  obtain ⟨-, hr1, hr2⟩ := hr
  generalize runC Gen.field10x26.fe_mul_int env = out at *
  generalize env.get "a" 0 = s at *
  have e1 := Nat.mul_le_mul_right s hr1
  have e2 := Nat.mul_le_mul_right s hr2
  rw [k0, k1, k9]
  constructor
  · calc (2 ^ 22 - 1) * (env.get "r.n" 0 * s) + 977 * (env.get "r.n" 9 * s)
        = ((2 ^ 22 - 1) * env.get "r.n" 0 + 977 * env.get "r.n" 9) * s := by ring
      _ ≤ m * (2 ^ 27 * (2 ^ 22 - 1)) * s := e1
      _ = m * s * (2 ^ 27 * (2 ^ 22 - 1)) := by ring
  · calc (2 ^ 22 - 1) * (env.get "r.n" 0 * s + 2 ^ 26 * (env.get "r.n" 1 * s)) + (2 ^ 32 + 977) * (env.get "r.n" 9 * s)
        = ((2 ^ 22 - 1) * (env.get "r.n" 0 + 2 ^ 26 * env.get "r.n" 1) + (2 ^ 32 + 977) * env.get "r.n" 9) * s := by
          ring
      _ ≤ m * (2 ^ 53 * (2 ^ 22 - 1)) * s := e2
      _ = m * s * (2 ^ 53 * (2 ^ 22 - 1)) := by ring

/-- `fe_negate` establishes `Inv10 (m+1)` from any input of magnitude `m ≤ 31` -/
theorem fe_negate_10x26_inv (env : Env) (hm : env.get "m" 0 ≤ 31) (ha : Mag10 env "a.n" (env.get "m" 0)) :
    Inv10 (runC Gen.field10x26.fe_negate env) "r.n" (env.get "m" 0 + 1) :=
  inv10_of_tight10 (fe_negate_10x26_tight env hm ha)

/-- **`fe_half` preserves `Inv10`**, with the documented output magnitude `⌊m/2⌋ + 1` (`m ≤ 31`). -/
theorem fe_half_10x26_inv (env : Env) (m : Nat) (hm : m ≤ 31) (h : Inv10 env "r.n" m) :
    Inv10 (runC Gen.field10x26.fe_half env) "r.n" (m / 2 + 1) := by
  rw [runC_eq_runW _ _ (by decide)]
  exact fe_half_10x26_inv_key env m hm h

/-- non-vacuity for `fe_half_10x26_inv`: `halfCex` and its half are `Inv10 · 1` -/
example : Inv10 halfCex "r.n" 1 ∧ Inv10 (runC Gen.field10x26.fe_half halfCex) "r.n" 1 :=
  ⟨by decide +kernel, fe_half_10x26_inv _ 1 (by decide) (by decide +kernel)⟩

/-- an element that is `Inv10 · 32` (hence `normalize` is exact on it) but violates the interval precondition
    `NormPre10` (`n[0] = 2^32 - 64`, `n[9] = 0`), so `Inv10` is strictly more permissive where it can be -/
example : Inv10 [(("r.n", 0), 2 ^ 32 - 64)] "r.n" 32 ∧ ¬ NormPre10 [(("r.n", 0), 2 ^ 32 - 64)] "r.n" ∧
    val10At (runC Gen.field10x26.fe_normalize [(("r.n", 0), 2 ^ 32 - 64)]) "r.n" = 2 ^ 32 - 64 :=
  ⟨by decide +kernel, by decide +kernel,
   (fe_normalize_10x26_inv _ (by decide +kernel)).2.1.trans (by decide +kernel)⟩

example : Inv10 (runC Gen.field10x26.fe_add (tightTop10 "r.n" 3 ++ tightTop10 "a.n" 29)) "r.n" 32 :=
  fe_add_10x26_inv _ 3 29 (by decide) (inv10_of_tight10 (by decide +kernel)) (inv10_of_tight10 (by decide +kernel))

example : Inv10 (runC Gen.field10x26.fe_mul_int ((("a", 0), 32) :: halfCex)) "r.n" 32 :=
  fe_mul_int_10x26_inv _ 1 (by decide +kernel) (by decide +kernel) (by decide +kernel)

/-! ### a reachable state that needs the joint invariant

`a = 1` (normalized, magnitude 1); `r = negate(a, 2)` (magnitude 3, `r = 6p - 1`, odd); `r = half(r)` (documented
magnitude 2; limb 0 is `4 p_0 + 488`); `r = mul_int(r, 16)` (magnitude 32).  Every call is within its documented contract.
The result violates `Tight10 · 32` and the interval precondition `NormPre10` (`n[0] = 2^32 - 54720 > 2^32 - 61552`), but it
satisfies `Inv10 · 32` (by the closure theorems), so `normalize` is exact on it. -/

/-- the three calls, evaluated with the kernel-reducible `runW` (equal to `runC`: `reach_eq`) -/
def reachEnv : Env :=
  runW ((("a", 0), 16) ::
    runW (runW [(("m", 0), 2), (("a.n", 0), 1)] Gen.field10x26.fe_negate.body) Gen.field10x26.fe_half.body)
    Gen.field10x26.fe_mul_int.body

theorem reach_eq : reachEnv =
    runC Gen.field10x26.fe_mul_int ((("a", 0), 16) ::
      runC Gen.field10x26.fe_half (runC Gen.field10x26.fe_negate [(("m", 0), 2), (("a.n", 0), 1)])) := by
  rw [runC_eq_runW _ _ (by decide), runC_eq_runW _ _ (by decide), runC_eq_runW _ _ (by decide)]; rfl

/-- the reachable state is outside `Tight10 · 32` and `NormPre10`, inside `Inv10 · 32`, and `normalize` is exact on it -/
theorem reach_needs_inv10 :
    ¬ Tight10 reachEnv "r.n" 32 ∧ ¬ NormPre10 reachEnv "r.n" ∧ Inv10 reachEnv "r.n" 32 ∧
    val10At (runC Gen.field10x26.fe_normalize reachEnv) "r.n" = val10At reachEnv "r.n" % P := by
  have h1 : Inv10 (runC Gen.field10x26.fe_negate [(("m", 0), 2), (("a.n", 0), 1)]) "r.n" 3 :=
    fe_negate_10x26_inv _ (by decide +kernel) (by decide +kernel)
  have h2 := fe_half_10x26_inv _ 3 (by decide) h1
  have h3 : Inv10 reachEnv "r.n" 32 := by
    rw [reach_eq]
    exact fe_mul_int_10x26_inv ((("a", 0), 16) :: _) 2 (by decide +kernel) (by decide +kernel)
      (by
        obtain ⟨⟨a0, a1, a2, a3, a4, a5, a6, a7, a8, a9⟩, b1, b2⟩ := h2
        exact ⟨⟨a0, a1, a2, a3, a4, a5, a6, a7, a8, a9⟩, b1, b2⟩)
  exact ⟨by decide +kernel, by decide +kernel, h3, (fe_normalize_10x26_inv _ h3).2.1⟩

/-- the counterexample of `C05lin` violates all three invariants (as it must) -/
example : ¬ Tight10 cex10 "r.n" 32 ∧ ¬ Inv10 cex10 "r.n" 32 ∧ ¬ NoOvf10 cex10 "r.n" :=
  ⟨by decide +kernel, by decide +kernel, by decide +kernel⟩

end C05inv
end SecpZkp
