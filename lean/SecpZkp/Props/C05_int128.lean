/-
  C05 (part): the emulated 128-bit integer `src/int128_struct_impl.h` (used when the compiler has no `__int128`),
  as translated into the MiniC IR by `tools/c2lean_k.py` (`Gen/K_int128struct.lean`, regenerated from the C sources
  on every run), executed with the REAL wrap-around semantics `MiniC.execL` (every `+`, `*`, `<<`, `-` truncated at the
  width of its C type), for ALL 64-bit inputs.

  Notation: `retC f env` / `outC f env` are the return value / the final memory of `execL env f.body`
  (`Proofs/Int128.lean`); a `secp256k1_uint128 *r` is the pair of scalars `"r.lo"`, `"r.hi"`; `val128 env` is the
  integer `r.lo + 2^64 r.hi` it represents.

  * `umul128_correct`        : `secp256k1_umul128`   : `ret + 2^64 *hi = a b`, both words `< 2^64`
  * `u128_mul_correct`       : `secp256k1_u128_mul`  : `r = a b`
  * `u128_accum_mul_correct` : `secp256k1_u128_accum_mul` : `r' = (r + a b) mod 2^128`
  * `u128_accum_u64_correct` : `secp256k1_u128_accum_u64` : `r' = (r + a) mod 2^128`
  * `u128_rshift_correct`    : `secp256k1_u128_rshift` (`n < 128`, the C `VERIFY_CHECK`) : `r' = ⌊r / 2^n⌋`
  * `u128_to_u64_correct`, `u128_hi_u64_correct`, `u128_from_u64_correct`
  * `u128_check_bits_correct`: `secp256k1_u128_check_bits` (`n < 128`) returns 1 iff `r < 2^n`, else 0
  * `umul128_textbook_bug_caught` : the "textbook" variant that ignores the wrap of the second addition of the
    middle word is NOT correct: it fails on `a = 2^64-1`, `b = 0x2FFFFFFFF` (so the statements above discriminate).

  Every theorem is followed by an `example` on concrete edge inputs (closed evaluation of the program by the kernel).
  No axioms beyond propext / Classical.choice / Quot.sound.
-/
import SecpZkp.Proofs.Int128

set_option linter.unusedSimpArgs false

namespace SecpZkp
namespace C05i128
open MiniC Int128 FieldLinear Gen.int128struct

/-- the 128-bit integer held in the struct `r` (scalars `"r.lo"`, `"r.hi"`) of the memory `env` -/
def val128 (env : Env) : Nat := env.get "r.lo" 0 + 2 ^ 64 * env.get "r.hi" 0

/-- both words of the struct `r` are 64-bit values -/
def Words64 (env : Env) : Prop := env.get "r.lo" 0 < 2 ^ 64 ∧ env.get "r.hi" 0 < 2 ^ 64

instance (env : Env) : Decidable (Words64 env) := inferInstanceAs (Decidable (_ ∧ _))

/-- Preparation of the goal after symbolic execution of the inlined `secp256k1_umul128`: bounds on the four 32×32
    partial products of `a`, `b`, the school-book split of `a * b`, and the partial products as atoms for `omega`. -/
macro "umul_arith" a:ident b:ident : tactic => `(tactic| (
  have hll := mul_lt32 (x := $a % 4294967296) (y := $b % 4294967296) (Nat.mod_lt _ (by decide)) (Nat.mod_lt _ (by decide))
  have hlh := mul_lt32 (x := $a % 4294967296) (y := $b / 4294967296) (Nat.mod_lt _ (by decide)) (by omega)
  have hhl := mul_lt32 (x := $a / 4294967296) (y := $b % 4294967296) (by omega) (Nat.mod_lt _ (by decide))
  have hhh := mul_lt32 (x := $a / 4294967296) (y := $b / 4294967296) (by omega) (by omega)
  rw [mul_split $a $b]
  generalize $a % 4294967296 * ($b % 4294967296) = ll at *
  generalize $a % 4294967296 * ($b / 4294967296) = lh at *
  generalize $a / 4294967296 * ($b % 4294967296) = hl at *
  generalize $a / 4294967296 * ($b / 4294967296) = hh at *))

/-! ### `secp256k1_umul128` -/

/-- **64×64→128 multiplication from 32×32→64 multiplications.**  For all `a, b < 2^64`, `secp256k1_umul128(a, b, &hi)`
    (C semantics: all intermediate `uint64_t` operations wrap) returns a word `lo` and stores a word `hi` with
    `lo + 2^64 hi = a b` exactly; both are `< 2^64`. -/
theorem umul128_correct (env : Env) (ha : env.get "a" 0 < 2 ^ 64) (hb : env.get "b" 0 < 2 ^ 64) :
    ∃ lo, retC umul128 env = some lo ∧
      lo + 2 ^ 64 * (outC umul128 env).get "hi" 0 = env.get "a" 0 * env.get "b" 0 ∧
      lo < 2 ^ 64 ∧ (outC umul128 env).get "hi" 0 < 2 ^ 64 := by
  rw [retC_eq _ _ (by decide), outC_eq _ _ (by decide)]
  simp only [umul128]
  minic_evalR
  refine ⟨_, rfl, ?_⟩
  generalize env.get "a" 0 = a at *
  generalize env.get "b" 0 = b at *
  simp only [Nat.reducePow] at ha hb ⊢
  umul_arith a b
  omega

/-- the pair `a = 2^64-1`, `b = 0x2FFFFFFFF`: the middle word `(ll >> 32) + (uint32_t)lh + (uint32_t)hl` needs 34 bits -/
def envCarry : Env := [(("a", 0), 18446744073709551615), (("b", 0), 12884901887)]

/-- non-vacuity + closed evaluation: `(2^64-1) · 0x2FFFFFFFF = 0x2FFFFFFFE · 2^64 + (2^64 - 0x2FFFFFFFF)` -/
example : retC umul128 envCarry = some 18446744060824649729 ∧ (outC umul128 envCarry).get "hi" 0 = 12884901886 ∧
    18446744060824649729 + 2 ^ 64 * 12884901886 = 18446744073709551615 * 12884901887 := by
  rw [retC_eq _ _ (by decide), outC_eq _ _ (by decide)]
  decide +kernel

example : ∃ lo, retC umul128 envCarry = some lo ∧
    lo + 2 ^ 64 * (outC umul128 envCarry).get "hi" 0 = 18446744073709551615 * 12884901887 ∧
    lo < 2 ^ 64 ∧ (outC umul128 envCarry).get "hi" 0 < 2 ^ 64 :=
  umul128_correct envCarry (by decide) (by decide)

/-- extreme inputs: `(2^64-1)^2 = (2^64-2) · 2^64 + 1` -/
example : retC umul128 [(("a", 0), 18446744073709551615), (("b", 0), 18446744073709551615)] = some 1 ∧
    (outC umul128 [(("a", 0), 18446744073709551615), (("b", 0), 18446744073709551615)]).get "hi" 0 =
      18446744073709551614 := by
  rw [retC_eq _ _ (by decide), outC_eq _ _ (by decide)]
  decide +kernel

/-- The "textbook" variant of `secp256k1_umul128` with a realistic carry bug:
    `mid = lh + hl; carry = (mid < lh) << 32; mid += ll >> 32; hi = hh + (mid >> 32) + carry;` — the wrap of the SECOND
    addition into `mid` is ignored.  (Not part of the library; used only to show that the specification
    `umul128_correct` is violated by such a kernel.) -/
def umul128_textbook_bug : MiniC.Fn := {
  name := "umul128_textbook_bug"
  scalars := ["a", "b"]
  arrays := [("hi", 0)]
  body := [
    .assign "ll" (.bin .mul 64 (.cast 32 (.var "a")) (.cast 32 (.var "b"))),
    .assign "lh" (.bin .mul 64 (.cast 32 (.var "a")) (.bin .shr 64 (.var "b") (.lit 32))),
    .assign "hl" (.bin .mul 64 (.bin .shr 64 (.var "a") (.lit 32)) (.cast 32 (.var "b"))),
    .assign "hh" (.bin .mul 64 (.bin .shr 64 (.var "a") (.lit 32)) (.bin .shr 64 (.var "b") (.lit 32))),
    .assign "mid" (.bin .add 64 (.var "lh") (.var "hl")),
    .assign "carry" (.bin .shl 64 (.bin .lt 64 (.var "mid") (.var "lh")) (.lit 32)),
    .assign "mid" (.bin .add 64 (.var "mid") (.bin .shr 64 (.var "ll") (.lit 32))),
    .store "hi" (.lit 0) (.bin .add 64 (.bin .add 64 (.var "hh") (.bin .shr 64 (.var "mid") (.lit 32))) (.var "carry")),
    .ret (.bin .add 64 (.bin .shl 64 (.var "mid") (.lit 32)) (.cast 32 (.var "ll")))
  ]
}

/-- the buggy variant returns the right low word but a high word that is too small by `2^32` on the pair `envCarry`:
    it does NOT satisfy the conclusion of `umul128_correct` -/
theorem umul128_textbook_bug_caught :
    retC umul128_textbook_bug envCarry = some 18446744060824649729 ∧
    (outC umul128_textbook_bug envCarry).get "hi" 0 = 8589934590 ∧
    18446744060824649729 + 2 ^ 64 * 8589934590 ≠ envCarry.get "a" 0 * envCarry.get "b" 0 := by
  rw [retC_eq _ _ (by decide), outC_eq _ _ (by decide)]
  decide +kernel

/-! ### `secp256k1_u128_mul` -/

/-- **`secp256k1_u128_mul(&r, a, b)`**: for all `a, b < 2^64` the struct `r` holds `a b` exactly afterwards
    (whatever it held before), with both words `< 2^64`. -/
theorem u128_mul_correct (env : Env) (ha : env.get "a" 0 < 2 ^ 64) (hb : env.get "b" 0 < 2 ^ 64) :
    val128 (outC u128_mul env) = env.get "a" 0 * env.get "b" 0 ∧ Words64 (outC u128_mul env) := by
  rw [outC_eq _ _ (by decide)]
  simp only [val128, Words64, u128_mul]
  minic_evalR
  generalize env.get "a" 0 = a at *
  generalize env.get "b" 0 = b at *
  simp only [Nat.reducePow] at ha hb ⊢
  umul_arith a b
  omega

example : val128 (outC u128_mul envCarry) = 18446744073709551615 * 12884901887 ∧
    (outC u128_mul envCarry).get "r.lo" 0 = 18446744060824649729 ∧
    (outC u128_mul envCarry).get "r.hi" 0 = 12884901886 := by
  rw [outC_eq _ _ (by decide)]
  decide +kernel

example : val128 (outC u128_mul envCarry) = envCarry.get "a" 0 * envCarry.get "b" 0 ∧ Words64 (outC u128_mul envCarry) :=
  u128_mul_correct envCarry (by decide) (by decide)

/-! ### `secp256k1_u128_accum_mul` -/

set_option maxHeartbeats 2000000 in
/-- **`secp256k1_u128_accum_mul(&r, a, b)`**: `r ← (r + a b) mod 2^128` for all 64-bit `a`, `b`, `r.lo`, `r.hi`
    (the carry out of the low word is `r->lo < lo` after the wrapping addition; the high word wraps on purpose). -/
theorem u128_accum_mul_correct (env : Env) (ha : env.get "a" 0 < 2 ^ 64) (hb : env.get "b" 0 < 2 ^ 64)
    (hr : Words64 env) :
    val128 (outC u128_accum_mul env) = (val128 env + env.get "a" 0 * env.get "b" 0) % 2 ^ 128 ∧
    Words64 (outC u128_accum_mul env) := by
  obtain ⟨hlo, hhi⟩ := hr
  rw [outC_eq _ _ (by decide)]
  simp only [val128, Words64, u128_accum_mul]
  minic_evalR
  generalize env.get "a" 0 = a at *
  generalize env.get "b" 0 = b at *
  generalize env.get "r.lo" 0 = rlo at *
  generalize env.get "r.hi" 0 = rhi at *
  simp only [Nat.reducePow] at ha hb hlo hhi ⊢
  simp only [sext32_ite]
  umul_arith a b
  split <;> omega

/-- `r = 0xFFFFFFFFFFFFFFFF_FEDCBA9876543210`, `a = 2^64-1`, `b = 0x2FFFFFFFF`: the low addition carries and the high
    addition wraps -/
def envAccum : Env := [(("a", 0), 18446744073709551615), (("b", 0), 12884901887),
  (("r.lo", 0), 18364758544493064720), (("r.hi", 0), 18446744073709551615)]

example : (outC u128_accum_mul envAccum).get "r.lo" 0 = 18364758531608162833 ∧
    (outC u128_accum_mul envAccum).get "r.hi" 0 = 12884901886 ∧
    18364758531608162833 + 2 ^ 64 * 12884901886 =
      (18364758544493064720 + 2 ^ 64 * 18446744073709551615 + 18446744073709551615 * 12884901887) % 2 ^ 128 := by
  rw [outC_eq _ _ (by decide)]
  decide +kernel

example : val128 (outC u128_accum_mul envAccum) = (val128 envAccum + envAccum.get "a" 0 * envAccum.get "b" 0) % 2 ^ 128 ∧
    Words64 (outC u128_accum_mul envAccum) :=
  u128_accum_mul_correct envAccum (by decide) (by decide) (by decide)

/-! ### `secp256k1_u128_accum_u64` -/

/-- **`secp256k1_u128_accum_u64(&r, a)`**: `r ← (r + a) mod 2^128` for all 64-bit `a`, `r.lo`, `r.hi`. -/
theorem u128_accum_u64_correct (env : Env) (ha : env.get "a" 0 < 2 ^ 64) (hr : Words64 env) :
    val128 (outC u128_accum_u64 env) = (val128 env + env.get "a" 0) % 2 ^ 128 ∧
    Words64 (outC u128_accum_u64 env) := by
  obtain ⟨hlo, hhi⟩ := hr
  rw [outC_eq _ _ (by decide)]
  simp only [val128, Words64, u128_accum_u64]
  minic_evalR
  generalize env.get "a" 0 = a at *
  generalize env.get "r.lo" 0 = rlo at *
  generalize env.get "r.hi" 0 = rhi at *
  simp only [Nat.reducePow] at ha hlo hhi ⊢
  simp only [sext32_ite]
  split <;> omega

/-- `r = 2^128-1`, `a = 2^64-1`: wraps around to `2^64-2` -/
def envAccum64 : Env := [(("a", 0), 18446744073709551615), (("r.lo", 0), 18446744073709551615),
  (("r.hi", 0), 18446744073709551615)]

example : (outC u128_accum_u64 envAccum64).get "r.lo" 0 = 18446744073709551614 ∧
    (outC u128_accum_u64 envAccum64).get "r.hi" 0 = 0 := by
  rw [outC_eq _ _ (by decide)]
  decide +kernel

/-- a carry into the high word: `(5 · 2^64 + 2^64-1) + 1 = 6 · 2^64` -/
example : (outC u128_accum_u64 [(("a", 0), 1), (("r.lo", 0), 18446744073709551615), (("r.hi", 0), 5)]).get "r.lo" 0 = 0 ∧
    (outC u128_accum_u64 [(("a", 0), 1), (("r.lo", 0), 18446744073709551615), (("r.hi", 0), 5)]).get "r.hi" 0 = 6 := by
  rw [outC_eq _ _ (by decide)]
  decide +kernel

example : val128 (outC u128_accum_u64 envAccum64) = (val128 envAccum64 + envAccum64.get "a" 0) % 2 ^ 128 ∧
    Words64 (outC u128_accum_u64 envAccum64) :=
  u128_accum_u64_correct envAccum64 (by decide) (by decide)

/-! ### `secp256k1_u128_rshift` -/

/-- **`secp256k1_u128_rshift(&r, n)`** for `n < 128` (the C precondition `VERIFY_CHECK(n < 128)`): `r ← ⌊r / 2^n⌋`,
    in all three branches of the C code (`n ≥ 64`; `0 < n < 64`, where `(hi << (64-n)) | (lo >> n)` is computed with a
    wrapping shift; `n = 0`, where the shift `hi << 64` must be, and is, avoided). -/
theorem u128_rshift_correct (env : Env) (hn : env.get "n" 0 < 128) (hr : Words64 env) :
    val128 (outC u128_rshift env) = val128 env / 2 ^ env.get "n" 0 ∧ Words64 (outC u128_rshift env) := by
  obtain ⟨hlo, hhi⟩ := hr
  rw [outC_eq _ _ (by decide)]
  simp only [val128, Words64, u128_rshift]
  simp only [runL, runS, evalV, binWrap]
  by_cases h64 : 64 ≤ env.get "n" 0
  · simp only [h64, ↓reduceIte, one_ne_zero, ne_eq, not_true_eq_false, not_false_eq_true,
      Env.get_set_same, Env.get_set_other, Prod.mk.injEq, String.reduceEq, false_and, and_false, and_true, true_and]
    rw [sub64_u32 _ h64 (by omega), Nat.mul_zero, Nat.add_zero]
    exact ⟨(shr_hi' _ _ _ hlo h64).symm, Nat.lt_of_le_of_lt (Nat.div_le_self _ _) hhi, Nat.two_pow_pos 64⟩
  · by_cases h0 : 0 < env.get "n" 0
    · simp only [h64, h0, ↓reduceIte, one_ne_zero, ne_eq, not_true_eq_false, not_false_eq_true,
        Env.get_set_same, Env.get_set_other, Prod.mk.injEq, String.reduceEq, false_and, and_false, and_true, true_and]
      rw [Nat.one_mul, Nat.mod_eq_of_lt hhi, sub_from64_u32 _ (by omega)]
      refine ⟨shr_lo' _ _ _ hlo (by omega), ?_, Nat.lt_of_le_of_lt (Nat.div_le_self _ _) hhi⟩
      exact Nat.or_lt_two_pow (Nat.mod_lt _ (Nat.two_pow_pos 64)) (Nat.lt_of_le_of_lt (Nat.div_le_self _ _) hlo)
    · simp only [h64, h0, ↓reduceIte, ne_eq, not_true_eq_false, not_false_eq_true]
      have hn0 : env.get "n" 0 = 0 := by omega
      rw [hn0, Nat.pow_zero, Nat.div_one]
      exact ⟨rfl, hlo, hhi⟩

/-- `r = 0xFEDCBA9876543210_0123456789ABCDEF` -/
def envShift (n : Nat) : Env := [(("n", 0), n), (("r.lo", 0), 81985529216486895), (("r.hi", 0), 18364758544493064720)]

/-- closed evaluation of all three branches: `n = 68`, `n = 127`, `n = 64`, `n = 4`, `n = 63`, `n = 1`, `n = 0` -/
example : ((outC u128_rshift (envShift 68)).get "r.lo" 0, (outC u128_rshift (envShift 68)).get "r.hi" 0) =
      (1147797409030816545, 0) ∧
    ((outC u128_rshift (envShift 127)).get "r.lo" 0, (outC u128_rshift (envShift 127)).get "r.hi" 0) = (1, 0) ∧
    ((outC u128_rshift (envShift 64)).get "r.lo" 0, (outC u128_rshift (envShift 64)).get "r.hi" 0) =
      (18364758544493064720, 0) ∧
    ((outC u128_rshift (envShift 4)).get "r.lo" 0, (outC u128_rshift (envShift 4)).get "r.hi" 0) =
      (5124095576030430, 1147797409030816545) ∧
    ((outC u128_rshift (envShift 63)).get "r.lo" 0, (outC u128_rshift (envShift 63)).get "r.hi" 0) =
      (18282773015276577824, 1) ∧
    ((outC u128_rshift (envShift 1)).get "r.lo" 0, (outC u128_rshift (envShift 1)).get "r.hi" 0) =
      (40992764608243447, 9182379272246532360) ∧
    ((outC u128_rshift (envShift 0)).get "r.lo" 0, (outC u128_rshift (envShift 0)).get "r.hi" 0) =
      (81985529216486895, 18364758544493064720) := by
  simp only [outC_eq _ _ (show loopFree u128_rshift.body = true by decide)]
  decide +kernel

example : val128 (outC u128_rshift (envShift 63)) = val128 (envShift 63) / 2 ^ 63 ∧
    Words64 (outC u128_rshift (envShift 63)) :=
  u128_rshift_correct (envShift 63) (by decide) (by decide)

/-! ### `secp256k1_u128_to_u64`, `secp256k1_u128_hi_u64`, `secp256k1_u128_from_u64` -/

/-- **`secp256k1_u128_to_u64(&a)`** returns the value of `a` modulo `2^64` (the low word) -/
theorem u128_to_u64_correct (env : Env) (hlo : env.get "a.lo" 0 < 2 ^ 64) :
    retC u128_to_u64 env = some ((env.get "a.lo" 0 + 2 ^ 64 * env.get "a.hi" 0) % 2 ^ 64) := by
  rw [retC_eq _ _ (by decide)]
  simp only [u128_to_u64, runL, runS, evalV]
  congr 1
  omega

/-- **`secp256k1_u128_hi_u64(&a)`** returns the value of `a` divided by `2^64` (the high word) -/
theorem u128_hi_u64_correct (env : Env) (hlo : env.get "a.lo" 0 < 2 ^ 64) :
    retC u128_hi_u64 env = some ((env.get "a.lo" 0 + 2 ^ 64 * env.get "a.hi" 0) / 2 ^ 64) := by
  rw [retC_eq _ _ (by decide)]
  simp only [u128_hi_u64, runL, runS, evalV]
  congr 1
  omega

/-- **`secp256k1_u128_from_u64(&r, a)`**: afterwards `r` holds `a` -/
theorem u128_from_u64_correct (env : Env) (ha : env.get "a" 0 < 2 ^ 64) :
    val128 (outC u128_from_u64 env) = env.get "a" 0 ∧ Words64 (outC u128_from_u64 env) := by
  rw [outC_eq _ _ (by decide)]
  simp only [val128, Words64, u128_from_u64]
  minic_evalR
  omega

example : retC u128_to_u64 [(("a.lo", 0), 18446744073709551615), (("a.hi", 0), 7)] = some 18446744073709551615 ∧
    retC u128_hi_u64 [(("a.lo", 0), 18446744073709551615), (("a.hi", 0), 7)] = some 7 ∧
    (outC u128_from_u64 [(("a", 0), 18446744073709551615), (("r.hi", 0), 9)]).get "r.lo" 0 = 18446744073709551615 ∧
    (outC u128_from_u64 [(("a", 0), 18446744073709551615), (("r.hi", 0), 9)]).get "r.hi" 0 = 0 := by
  rw [retC_eq _ _ (by decide), retC_eq _ _ (by decide), outC_eq _ _ (by decide)]
  decide +kernel

example : retC u128_to_u64 [(("a.lo", 0), 18446744073709551615), (("a.hi", 0), 7)] =
    some ((18446744073709551615 + 2 ^ 64 * 7) % 2 ^ 64) :=
  u128_to_u64_correct _ (by decide)

/-! ### `secp256k1_u128_check_bits` -/

/-- **`secp256k1_u128_check_bits(&r, n)`** for `n < 128` ("n must be strictly less than 128", `int128.h`):
    returns 1 if `r < 2^n` and 0 otherwise. -/
theorem u128_check_bits_correct (env : Env) (hn : env.get "n" 0 < 128) (hr : Words64 env) :
    retC u128_check_bits env = some (if val128 env < 2 ^ env.get "n" 0 then 1 else 0) := by
  obtain ⟨hlo, hhi⟩ := hr
  rw [retC_eq _ _ (by decide)]
  simp only [val128, u128_check_bits]
  minic_evalR
  congr 1
  by_cases h64 : 64 ≤ env.get "n" 0
  · simp only [h64, ↓reduceIte, one_ne_zero, not_false_eq_true]
    simp only [sub64_u32 _ h64 (show env.get "n" 0 < 2 ^ 32 by omega), lt_pow_hi' _ _ _ hlo h64]
  · simp only [h64, ↓reduceIte, not_true_eq_false]
    simp only [lt_pow_lo' _ _ _ (show env.get "n" 0 < 64 by omega)]
    by_cases h1 : env.get "r.hi" 0 = 0 <;> by_cases h2 : env.get "r.lo" 0 / 2 ^ env.get "n" 0 = 0 <;>
      simp only [h1, h2, ↓reduceIte, one_ne_zero, not_true_eq_false, not_false_eq_true, and_self, and_false, false_and]

/-- the value `2^100 + 5` (`r.hi = 2^36`, `r.lo = 5`) is `< 2^101` but not `< 2^100`; `5 < 2^3` but not `< 2^2` -/
example : retC u128_check_bits [(("n", 0), 101), (("r.lo", 0), 5), (("r.hi", 0), 68719476736)] = some 1 ∧
    retC u128_check_bits [(("n", 0), 100), (("r.lo", 0), 5), (("r.hi", 0), 68719476736)] = some 0 ∧
    retC u128_check_bits [(("n", 0), 63), (("r.lo", 0), 5), (("r.hi", 0), 68719476736)] = some 0 ∧
    retC u128_check_bits [(("n", 0), 3), (("r.lo", 0), 5), (("r.hi", 0), 0)] = some 1 ∧
    retC u128_check_bits [(("n", 0), 2), (("r.lo", 0), 5), (("r.hi", 0), 0)] = some 0 ∧
    retC u128_check_bits [(("n", 0), 0), (("r.lo", 0), 0), (("r.hi", 0), 0)] = some 1 ∧
    retC u128_check_bits [(("n", 0), 127), (("r.lo", 0), 18446744073709551615), (("r.hi", 0), 9223372036854775807)] =
      some 1 ∧
    retC u128_check_bits [(("n", 0), 127), (("r.lo", 0), 0), (("r.hi", 0), 9223372036854775808)] = some 0 := by
  simp only [retC_eq _ _ (show loopFree u128_check_bits.body = true by decide)]
  decide +kernel

example : retC u128_check_bits [(("n", 0), 100), (("r.lo", 0), 5), (("r.hi", 0), 68719476736)] =
    some (if val128 [(("n", 0), 100), (("r.lo", 0), 5), (("r.hi", 0), 68719476736)] < 2 ^ 100 then 1 else 0) :=
  u128_check_bits_correct _ (by decide) (by decide)

end C05i128
end SecpZkp
