import SecpZkp.Model.Ecdsa
import SecpZkp.Model.Keys
import SecpZkp.Proofs.Algebra
import SecpZkp.Proofs.BytesBasic
/-
  Property C01: ECDSA verification is exact; signing produces low-S signatures that verify and from which
  the public key is recovered; invalid keys / failing nonce functions give 0 and a zero signature.

  `ecdsa_verify_iff` needs no group law; `ecdsa_sign_verifies`, `ecdsa_sign_recovers` depend on the curve
  only through the explicit hypothesis `gl : GroupLaw` (and, for recovery, the explicit hypothesis
  `LiftXSpec` about `Pt.liftX`, which belongs to the field layer).
-/
namespace SecpZkp
namespace C01
open SecpZkp.Algebra

/-! ### Verification -/

/-- The point `R = u1•G + u2•Q`, `u1 = m/s`, `u2 = r/s` of the ECDSA verification equation. -/
def verifyPoint (r s m : Nat) (pk : Pt) : Pt :=
  Pt.add (Pt.mul (Sc.mul (Sc.inv s) r) pk) (Pt.mulG (Sc.mul (Sc.inv s) m))

/-- Since `p < 2n`: a field element `x < p` reduces to `r < n` mod `n` iff it is `r` or `r + n` (the
    latter only possible when `r + n < p`).  This is the two-comparison trick of `ecdsa_sig_verify`. -/
theorem xcoord_mod_iff {x r : Nat} (hx : x < P) (hr : r < N) :
    x % N = r ↔ x = r ∨ (r + N < P ∧ x = r + N) := by
  have h1 := N_lt_P
  have h2 := P_lt_two_N
  by_cases hxN : x < N
  · rw [Nat.mod_eq_of_lt hxN]; omega
  · have h3 : x % N = x - N := by
      rw [Nat.mod_eq_sub_mod (by omega)]; exact Nat.mod_eq_of_lt (by omega)
    rw [h3]; omega

/-- `secp256k1_ecdsa_sig_verify` in closed form (needs the x-coordinate of the result to be canonical). -/
theorem sigVerify_iff (r s m : Nat) (pk : Pt) (hr : r < N) (hx : (verifyPoint r s m pk).xOf < P) :
    Ecdsa.sigVerify r s pk m = true ↔
      r ≠ 0 ∧ s ≠ 0 ∧ verifyPoint r s m pk ≠ Pt.inf ∧ (verifyPoint r s m pk).xOf % N = r := by
  unfold verifyPoint at *
  unfold Ecdsa.sigVerify
  by_cases h0 : r = 0 ∨ s = 0
  · simp only [h0, if_true]
    constructor
    · intro h; cases h
    · intro h; rcases h0 with h0 | h0
      · exact absurd h0 h.1
      · exact absurd h0 h.2.1
  · have hr0 : r ≠ 0 := fun h => h0 (Or.inl h)
    have hs0 : s ≠ 0 := fun h => h0 (Or.inr h)
    simp only [h0, if_false]
    generalize Pt.add (Pt.mul (Sc.mul (Sc.inv s) r) pk) (Pt.mulG (Sc.mul (Sc.inv s) m)) = R at hx ⊢
    cases R with
    | inf => simp
    | aff x y =>
      have hx' : x < P := hx
      simp only [xOf_aff, ne_eq, reduceCtorEq, not_false_eq_true, true_and, hr0, hs0,
        xcoord_mod_iff hx' hr]
      have h1 := N_lt_P
      by_cases hxr : x = r
      · simp [hxr]
      · by_cases hge : r ≥ P - N
        · have : ¬ (r + N < P) := by omega
          simp [hxr, hge, this]
        · have : r + N < P := by omega
          simp [hxr, hge, this]

/-- **C01 (verification is exact).**  For every signature object `(r, s)` with `r < n` (all objects
    the parsers produce), every 32-byte (indeed any) message and every public-key object: `ecdsa_verify`
    returns 1 exactly when `s ≤ (n−1)/2` (low S), the key is not the zero object, `1 ≤ r`, `1 ≤ s`, and the
    point `R = (m/s)•G + (r/s)•Q` is not at infinity and satisfies `x(R) mod n = r`; otherwise 0.
    Hypothesis `hx`: the x-coordinate of `R` is canonical (`< p`), which holds whenever `Q` is a valid point
    (see `ecdsa_verify_iff'`). -/
theorem ecdsa_verify_iff (r s : Nat) (msg : Bytes) (pk : Pt) (hr : r < N)
    (hx : (verifyPoint r s (Bytes.toNat msg % N) pk).xOf < P) :
    (Ecdsa.verify (r, s) msg pk).ret = 1 ↔
      ¬ Sc.isHigh s = true ∧ pk ≠ Pt.inf ∧ r ≠ 0 ∧ s ≠ 0 ∧
      verifyPoint r s (Bytes.toNat msg % N) pk ≠ Pt.inf ∧
      (verifyPoint r s (Bytes.toNat msg % N) pk).xOf % N = r := by
  unfold Ecdsa.verify
  by_cases hh : Sc.isHigh s = true
  · simp [hh]
  · cases pk with
    | inf => simp [hh, Pt.isInf]
    | aff px py =>
      have := sigVerify_iff r s (Bytes.toNat msg % N) (Pt.aff px py) hr hx
      simp only [hh, Pt.isInf, Bool.false_eq_true, if_false, not_false_eq_true, ne_eq, reduceCtorEq, true_and]
      rw [← this]
      by_cases hv : Ecdsa.sigVerify r s (Pt.aff px py) (Bytes.toNat msg % N) = true <;> simp [hv]

/-- The return value is 0 or 1, and the illegal-argument callback fires exactly for a low-S signature
    with the zero key object. -/
theorem ecdsa_verify_ret_illegal (sig : Nat × Nat) (msg : Bytes) (pk : Pt) :
    ((Ecdsa.verify sig msg pk).ret = 0 ∨ (Ecdsa.verify sig msg pk).ret = 1) ∧
    (Ecdsa.verify sig msg pk).illegal = (if ¬ Sc.isHigh sig.2 = true ∧ pk = Pt.inf then 1 else 0) := by
  unfold Ecdsa.verify
  by_cases hh : Sc.isHigh sig.2 = true
  · simp [hh]
  · cases pk with
    | inf => simp [hh, Pt.isInf]
    | aff px py =>
      simp only [hh, Pt.isInf, Bool.false_eq_true, if_false]
      split <;> simp

/-- `ecdsa_verify_iff` with the canonicity hypothesis discharged from the group law for valid keys. -/
theorem ecdsa_verify_iff' (gl : GroupLaw) (r s : Nat) (msg : Bytes) (pk : Pt) (hr : r < N)
    (hpk : pk.valid = true) :
    (Ecdsa.verify (r, s) msg pk).ret = 1 ↔
      ¬ Sc.isHigh s = true ∧ pk ≠ Pt.inf ∧ r ≠ 0 ∧ s ≠ 0 ∧
      verifyPoint r s (Bytes.toNat msg % N) pk ≠ Pt.inf ∧
      (verifyPoint r s (Bytes.toNat msg % N) pk).xOf % N = r := by
  have : HasGroupLaw := ⟨gl⟩
  apply ecdsa_verify_iff r s msg pk hr
  have hv : (verifyPoint r s (Bytes.toNat msg % N) pk).valid = true :=
    Algebra.gl.valid_add _ _ (valid_mul (lt_mulBound_of_lt_N (Sc.mul_lt _ _)) hpk)
      (mulG_valid (lt_mulBound_of_lt_N (Sc.mul_lt _ _)))
  cases hR : verifyPoint r s (Bytes.toNat msg % N) pk with
  | inf => exact lt_of_lt_of_le N_pos (le_of_lt N_lt_P)
  | aff x y => rw [hR] at hv; exact (valid_aff_lt hv).1

/-! ### Signing -/

/-- Conditional negation brings any scalar `< n` into the low half (`n` is odd). -/
theorem not_isHigh_normalize {s0 : Nat} (hs0 : s0 < N) :
    ¬ Sc.isHigh (if Sc.isHigh s0 = true then Sc.neg s0 else s0) = true := by
  have hodd := N_odd
  by_cases hh : Sc.isHigh s0 = true
  · have hgt : s0 > (N - 1) / 2 := by simpa [Sc.isHigh] using hh
    have h1 : s0 % N = s0 := Nat.mod_eq_of_lt hs0
    have h2 : (N - s0) % N = N - s0 := Nat.mod_eq_of_lt (by omega)
    rw [if_pos hh]
    simp only [Sc.isHigh, Sc.neg, h1, h2, decide_eq_true_eq]
    omega
  · rw [if_neg hh]; exact hh

section
variable [HasGroupLaw]

/-- `±(k•G)` for `k•G = (x, y)`: the point `(x, ±y)`. -/
theorem gmul_pm {k : Nat} (hk : k < N) {x y : Nat} (h : Pt.mulG k = Pt.aff x y) (neg : Bool) :
    gmul (if neg then -(k : ZMod N) else (k : ZMod N)) = Pt.aff x (if neg then Fe.neg y else y) := by
  have hg : gmul (k : ZMod N) = Pt.aff x y := by rw [← mulG_eq_gmul (lt_mulBound_of_lt_N hk)]; exact h
  cases neg
  · simpa using hg
  · simp only [if_true, ← neg_gmul, hg]; rfl

/-- Field identity behind ECDSA verification: if `s = ε·(rd + m)/k ≠ 0` with `ε = ±1` then
    `(r/s)·d + m/s = ε·k`. -/
theorem verify_field (r d m k s : ZMod N) (neg : Bool)
    (hs : s = (if neg then -(k⁻¹ * (r * d + m)) else k⁻¹ * (r * d + m))) (hs0 : s ≠ 0) :
    s⁻¹ * r * d + s⁻¹ * m = (if neg then -k else k) := by
  have hk : k ≠ 0 := by
    rintro rfl
    apply hs0; rw [hs]; cases neg <;> simp
  have hz : r * d + m ≠ 0 := by
    intro h0
    apply hs0; rw [hs, h0]; cases neg <;> simp
  cases neg
  · simp only [Bool.false_eq_true, if_false] at hs ⊢
    subst hs; field_simp
  · simp only [if_true] at hs ⊢
    subst hs; field_simp; ring

/-- Field identity behind public-key recovery: with `s = ε·(rd + m)/k`, `r ≠ 0`, `k ≠ 0`:
    `(s/r)·(ε k) − m/r = d`. -/
theorem recover_field (r d m k s : ZMod N) (neg : Bool)
    (hs : s = (if neg then -(k⁻¹ * (r * d + m)) else k⁻¹ * (r * d + m))) (hr : r ≠ 0) (hk : k ≠ 0) :
    r⁻¹ * s * (if neg then -k else k) + -(r⁻¹ * m) = d := by
  cases neg
  · simp only [Bool.false_eq_true, if_false] at hs ⊢
    subst hs; field_simp; ring
  · simp only [if_true] at hs ⊢
    subst hs; field_simp; ring

end

/-- **C01 (signatures are low-S and verify).**  For every secret scalar `d < n` (in particular every valid
    key `0 < d < n`), every message scalar `m` and every nonce `0 < k < n`: if `ecdsa_sig_sign` succeeds
    (i.e. `r ≠ 0` and `s ≠ 0`) then the signature has low S and `ecdsa_sig_verify` accepts it under the
    public key `d•G`, whether or not `s` was negated and whether or not `x(k•G) ≥ n`. -/
theorem ecdsa_sign_verifies (gl : GroupLaw) (d m k : Nat) (hdN : d < N) (hk0 : 0 < k) (hkN : k < N) :
    let out := Ecdsa.sigSign d m k
    out.1 = true →
      ¬ Sc.isHigh out.2.2.1 = true ∧ Ecdsa.sigVerify out.2.1 out.2.2.1 (Pt.mulG d) m = true := by
  have : HasGroupLaw := ⟨gl⟩
  obtain ⟨x, y, hkG⟩ := mulG_eq_aff hk0 hkN
  have hv : (Pt.aff x y).valid = true := hkG ▸ mulG_valid (lt_mulBound_of_lt_N hkN)
  have hxP : x < P := (valid_aff_lt hv).1
  simp only [Ecdsa.sigSign, hkG, decide_eq_true_eq]
  generalize hs0 : Sc.mul (Sc.inv k) (Sc.add (Sc.mul (x % N) d) m) = s0
  have hs0N : s0 < N := hs0 ▸ Sc.mul_lt _ _
  generalize hs : (if Sc.isHigh s0 = true then Sc.neg s0 else s0) = s
  rintro ⟨hr0, hsne⟩
  refine ⟨hs ▸ not_isHigh_normalize hs0N, ?_⟩
  have hsN : s < N := by
    rw [← hs]; split
    · exact Sc.neg_lt _
    · exact hs0N
  have hrN : x % N < N := Nat.mod_lt _ N_pos
  -- the verifier's point is ±k•G
  have hsz : (s : ZMod N) ≠ 0 := fun h => hsne ((cast_eq_zero hsN).mp h)
  have hscast : (s : ZMod N) = (if Sc.isHigh s0 then -((k : ZMod N)⁻¹ * (((x % N : Nat) : ZMod N) * d + m))
      else (k : ZMod N)⁻¹ * (((x % N : Nat) : ZMod N) * d + m)) := by
    rw [← hs, ← hs0]
    split <;> simp only [cast_neg, cast_mul, cast_inv, cast_add]
  have hR : C01.verifyPoint (x % N) s m (Pt.mulG d) = Pt.aff x (if Sc.isHigh s0 then Fe.neg y else y) := by
    rw [← gmul_pm hkN hkG, ← verify_field _ (d : ZMod N) (m : ZMod N) _ _ _ hscast hsz]
    unfold C01.verifyPoint
    rw [mulG_eq_gmul (lt_mulBound_of_lt_N hdN), mul_gmul (lt_mulBound_of_lt_N (Sc.mul_lt _ _)),
      mulG_eq_gmul (lt_mulBound_of_lt_N (Sc.mul_lt _ _)), add_gmul]
    apply gmul_congr
    simp only [cast_mul, cast_inv]
  rw [sigVerify_iff _ _ _ _ hrN (by rw [hR]; exact hxP), hR]
  exact ⟨hr0, hsne, by simp, rfl⟩

/-- What the recovery proof needs from the field layer about `Pt.liftX` (`secp256k1_ge_set_xo_var`):
    for a valid affine point `(x, y)`, lifting `x` with a requested parity returns the one of `(x, y)`,
    `(x, −y)` whose y has that parity.  (True of the model: `Fe.sqrt` returns a root `±y`, and `y ↦ p − y`
    flips parity for `y ≠ 0`; proved in the field layer, taken here as an explicit hypothesis.) -/
def LiftXSpec : Prop :=
  ∀ (x y : Nat) (odd : Bool), (Pt.aff x y).valid = true →
    Pt.liftX x odd = some (Pt.aff x (if Fe.isOdd y = odd then y else Fe.neg y))

/-- Decoding of the recovery id produced by `sigSign`. -/
theorem recid_bits (ov par : Nat) (hov : ov ≤ 1) (hpar : par ≤ 1) (high : Bool) :
    let recid := if high then (ov * 2 + par) ^^^ 1 else ov * 2 + par
    (recid &&& 2 ≠ 0 ↔ ov = 1) ∧ (recid &&& 1 = 1 ↔ ((par = 1) ≠ (high = true))) := by
  have h1 : ov = 0 ∨ ov = 1 := by omega
  have h2 : par = 0 ∨ par = 1 := by omega
  rcases h1 with rfl | rfl <;> rcases h2 with rfl | rfl <;> cases high <;> decide

/-- **C01 (recovery).**  For every valid secret key `0 < d < n`, message scalar `m` and nonce `0 < k < n`:
    if `ecdsa_sig_sign` succeeds, then `ecdsa_sig_recover` applied to its `(r, s, recid)` returns exactly
    the public key `d•G` — for both parities of `y(k•G)`, with and without `x(k•G) ≥ n`, with and without
    the low-S negation (which flips the parity bit of `recid`). -/
theorem ecdsa_sign_recovers (gl : GroupLaw) (hlift : LiftXSpec) (d m k : Nat) (hd0 : 0 < d) (hdN : d < N)
    (hk0 : 0 < k) (hkN : k < N) :
    let out := Ecdsa.sigSign d m k
    out.1 = true → Ecdsa.sigRecover out.2.1 out.2.2.1 m out.2.2.2 = some (Pt.mulG d) := by
  have : HasGroupLaw := ⟨gl⟩
  obtain ⟨x, y, hkG⟩ := mulG_eq_aff hk0 hkN
  have hv : (Pt.aff x y).valid = true := hkG ▸ mulG_valid (lt_mulBound_of_lt_N hkN)
  have hxP : x < P := (valid_aff_lt hv).1
  have hNP := N_lt_P
  have h2N := P_lt_two_N
  simp only [Ecdsa.sigSign, hkG, decide_eq_true_eq]
  generalize hs0 : Sc.mul (Sc.inv k) (Sc.add (Sc.mul (x % N) d) m) = s0
  have hs0N : s0 < N := hs0 ▸ Sc.mul_lt _ _
  generalize hs : (if Sc.isHigh s0 = true then Sc.neg s0 else s0) = s
  rintro ⟨hr0, hsne⟩
  have hsN : s < N := by
    rw [← hs]; split
    · exact Sc.neg_lt _
    · exact hs0N
  have hrN : x % N < N := Nat.mod_lt _ N_pos
  have hscast : (s : ZMod N) = (if Sc.isHigh s0 then -((k : ZMod N)⁻¹ * (((x % N : Nat) : ZMod N) * d + m))
      else (k : ZMod N)⁻¹ * (((x % N : Nat) : ZMod N) * d + m)) := by
    rw [← hs, ← hs0]
    split <;> simp only [cast_neg, cast_mul, cast_inv, cast_add]
  have hrz : ((x % N : Nat) : ZMod N) ≠ 0 := fun h => hr0 ((cast_eq_zero hrN).mp h)
  have hkz : (k : ZMod N) ≠ 0 := fun h => by have := (cast_eq_zero hkN).mp h; omega
  -- decode the recovery id
  have hbits := recid_bits (if x ≥ N then 1 else 0) (if Fe.isOdd y = true then 1 else 0)
    (by split <;> omega) (by split <;> omega) (Sc.isHigh s0)
  simp only [] at hbits
  obtain ⟨hb2, hb1⟩ := hbits
  generalize (if Sc.isHigh s0 = true then _ ^^^ 1 else _) = recid at hb1 hb2 ⊢
  unfold Ecdsa.sigRecover
  have h0 : ¬ (x % N = 0 ∨ s = 0) := fun h => h.elim hr0 hsne
  simp only [h0, if_false]
  -- the abscissa is recovered exactly
  have hfx : (if recid &&& 2 ≠ 0 then (if x % N ≥ P - N then none else some (x % N + N))
      else some (x % N)) = some x := by
    by_cases hxN : x ≥ N
    · have h3 : x % N = x - N := by
        rw [Nat.mod_eq_sub_mod hxN]; exact Nat.mod_eq_of_lt (by omega)
      have : ¬ (x - N ≥ P - N) := by omega
      rw [if_pos (hb2.mpr (by simp [hxN])), h3, if_neg this]
      congr 1; omega
    · have h3 : x % N = x := Nat.mod_eq_of_lt (by omega)
      rw [if_neg (fun h => by have := hb2.mp h; simp [hxN] at this), h3]
  rw [hfx]
  -- the lifted point is ±k•G with the sign of the low-S negation
  have hX : Pt.liftX x (decide (recid &&& 1 = 1))
      = some (gmul (if Sc.isHigh s0 then -(k : ZMod N) else (k : ZMod N))) := by
    rw [hlift x y _ hv, gmul_pm hkN hkG]
    congr 2
    by_cases hy : Fe.isOdd y = true <;> by_cases hh : Sc.isHigh s0 = true
    · have hb : ¬ (recid &&& 1 = 1) := fun h => by have := hb1.mp h; simp [hy, hh] at this
      rw [decide_eq_false hb]; simp [hy, hh]
    · have hb : recid &&& 1 = 1 := hb1.mpr (by simp [hy, hh])
      rw [decide_eq_true hb]; simp [hy, hh]
    · have hb : recid &&& 1 = 1 := hb1.mpr (by simp [hy, hh])
      rw [decide_eq_true hb]; simp [hy, hh]
    · have hb : ¬ (recid &&& 1 = 1) := fun h => by have := hb1.mp h; simp [hy, hh] at this
      rw [decide_eq_false hb]; simp [hy, hh]
  simp only []
  rw [hX]
  simp only []
  have hQ : Pt.add (Pt.mul (Sc.mul (Sc.inv (x % N)) s) (gmul (if Sc.isHigh s0 then -(k : ZMod N) else (k : ZMod N))))
      (Pt.mulG (Sc.neg (Sc.mul (Sc.inv (x % N)) m))) = Pt.mulG d := by
    rw [mul_gmul (lt_mulBound_of_lt_N (Sc.mul_lt _ _)), mulG_eq_gmul (lt_mulBound_of_lt_N (Sc.neg_lt _)),
      add_gmul, mulG_eq_gmul (lt_mulBound_of_lt_N hdN)]
    apply gmul_congr
    simp only [cast_mul, cast_inv, cast_neg]
    exact recover_field _ (d : ZMod N) (m : ZMod N) _ _ _ hscast hrz hkz
  rw [hQ]
  obtain ⟨qx, qy, hq⟩ := mulG_eq_aff hd0 hdN
  rw [hq]

/-! ### The API wrappers: `ecdsa_sign`, `ecdsa_sign_recoverable` (`sign_inner` and its retry loop) -/

theorem setB32Seckey_valid {b : Bytes} {v : Nat} (h : Sc.setB32Seckey b = (v, true)) : 0 < v ∧ v < N ∧ v = Bytes.toNat b := by
  simp only [Sc.setB32Seckey, Sc.setB32, Prod.mk.injEq, Bool.and_eq_true, Bool.not_eq_true', decide_eq_false_iff_not,
    bne_iff_ne, ne_eq] at h
  obtain ⟨h1, h2, h3⟩ := h
  have : Bytes.toNat b < N := by omega
  rw [Nat.mod_eq_of_lt this] at h1
  subst h1
  exact ⟨Nat.pos_of_ne_zero (by rwa [Nat.mod_eq_of_lt this] at h3), this, rfl⟩


/-- What `sign_inner` may return -/
def SignSpec (isSecValid : Bool) (sec m : Nat) (o : Ecdsa.SignOut) : Prop :=
  (o.ret = 0 ∧ o.r = 0 ∧ o.s = 0 ∧ o.recid = 0) ∨
  (o.ret = 1 ∧ isSecValid = true ∧
    ∃ k, 0 < k ∧ k < N ∧ Ecdsa.sigSign sec m k = (true, o.r, o.s, o.recid))

theorem seckeyTweakAddHelper_some {a : Nat} {tw : Bytes} {r : Nat}
    (h : Ecdsa.seckeyTweakAddHelper a tw = some r) : 0 < r ∧ r < N := by
  unfold Ecdsa.seckeyTweakAddHelper at h
  generalize Sc.setB32 tw = p at h
  obtain ⟨t, ov⟩ := p
  simp only [] at h
  by_cases hn : ov = true ∨ Sc.add a t = 0
  · rw [if_pos hn] at h; cases h
  · rw [if_neg hn] at h
    cases h
    exact ⟨Nat.pos_of_ne_zero (fun h0 => hn (Or.inr h0)), Sc.add_lt _ _⟩

theorem loop_spec (s2c : Option Ecdsa.S2cHook) (msg32 seckey : Bytes) (noncefp : Option Ecdsa.NonceFn)
    (ndata : Option Bytes) (isSecValid : Bool) (sec m : Nat) :
    ∀ (fuel count : Nat) (op : Option Pt),
      SignSpec isSecValid sec m
        (Ecdsa.signInner.loop s2c msg32 seckey noncefp ndata isSecValid sec m fuel count op) := by
  intro fuel
  induction fuel with
  | zero => intro count op; left; simp [Ecdsa.signInner.loop]
  | succ fuel ih =>
    intro count op
    unfold Ecdsa.signInner.loop
    simp only []
    split
    · left; simp
    · next nonce32 hnonce =>
      split
      · next hvalid =>
        have hnon : 0 < (Sc.setB32Seckey nonce32).1 ∧ (Sc.setB32Seckey nonce32).1 < N := by
          have := setB32Seckey_valid (b := nonce32) (v := (Sc.setB32Seckey nonce32).1)
            (by rw [← hvalid])
          exact ⟨this.1, this.2.1⟩
        split
        · left; simp
        · next non' op' htw =>
          have hk : 0 < non' ∧ non' < N := by
            cases s2c with
            | none => simp only [Option.some.injEq, Prod.mk.injEq] at htw; rw [← htw.1]; exact hnon
            | some hook =>
              simp only [] at htw
              split at htw
              · cases htw
              · split at htw
                · cases htw
                · next hh =>
                  simp only [Option.some.injEq, Prod.mk.injEq] at htw
                  rw [← htw.1]; exact seckeyTweakAddHelper_some hh
          split
          · next hok =>
            cases isSecValid with
            | false => left; simp
            | true =>
              right
              refine ⟨rfl, rfl, non', hk.1, hk.2, ?_⟩
              simp only [if_true]
              rw [← hok]
          · exact ih _ _
      · exact ih _ _

/-- `secp256k1_ecdsa_sign_inner` either fails with an all-zero output, or the key is valid and the output
    is `ecdsa_sig_sign` of some nonce `0 < k < n` (for every retry bound, hook and nonce function). -/
theorem signInner_spec (fuel : Nat) (s2c : Option Ecdsa.S2cHook) (msg32 seckey : Bytes)
    (noncefp : Option Ecdsa.NonceFn) (ndata : Option Bytes) :
    SignSpec (Sc.setB32Seckey seckey).2
      (if (Sc.setB32Seckey seckey).2 = true then (Sc.setB32Seckey seckey).1 else 1) (Bytes.toNat msg32 % N)
      (Ecdsa.signInner fuel s2c msg32 seckey noncefp ndata) := by
  unfold Ecdsa.signInner
  exact loop_spec _ _ _ _ _ _ _ _ _ _ _

/-- **C01 (invalid key).**  Signing with a secret key that is zero or `≥ n` returns 0 and an all-zero
    signature — for every message, nonce function and extra data (also for the recoverable variant). -/
theorem sign_invalid_key (msg32 seckey : Bytes) (noncefp : Option Ecdsa.NonceFn) (ndata : Option Bytes)
    (hbad : Bytes.toNat seckey = 0 ∨ N ≤ Bytes.toNat seckey) :
    Ecdsa.sign msg32 seckey noncefp ndata = (0, (0, 0)) ∧
    (Ecdsa.signRecoverable msg32 seckey noncefp ndata).ret = 0 ∧
    (Ecdsa.signRecoverable msg32 seckey noncefp ndata).r = 0 ∧
    (Ecdsa.signRecoverable msg32 seckey noncefp ndata).s = 0 ∧
    (Ecdsa.signRecoverable msg32 seckey noncefp ndata).recid = 0 := by
  have hinv : (Sc.setB32Seckey seckey).2 = false := by
    simp only [Sc.setB32Seckey, Sc.setB32]
    rcases hbad with h | h
    · simp [h]
    · simp [h]
  have h := signInner_spec 64 none msg32 seckey noncefp ndata
  rw [hinv] at h
  rcases h with ⟨h1, h2, h3, h4⟩ | ⟨_, h, _⟩
  · exact ⟨by simp [Ecdsa.sign, h1, h2, h3], h1, h2, h3, h4⟩
  · cases h

/-- **C01 (failing nonce callback).**  If the nonce function fails (on its first call, counter 0), signing
    returns 0 and an all-zero signature, whatever the key. -/
theorem sign_nonce_fail (msg32 seckey : Bytes) (f : Ecdsa.NonceFn) (ndata : Option Bytes)
    (hfail : f msg32 seckey none ndata 0 = none) :
    Ecdsa.sign msg32 seckey (some f) ndata = (0, (0, 0)) := by
  simp [Ecdsa.sign, Ecdsa.signInner, Ecdsa.signInner.loop, hfail]

/-- In every case the return value is 0 or 1, and 0 comes with an all-zero signature. -/
theorem sign_ret (msg32 seckey : Bytes) (noncefp : Option Ecdsa.NonceFn) (ndata : Option Bytes) :
    let o := Ecdsa.sign msg32 seckey noncefp ndata
    (o.1 = 0 ∨ o.1 = 1) ∧ (o.1 = 0 → o = (0, (0, 0))) := by
  have h := signInner_spec 64 none msg32 seckey noncefp ndata
  rcases h with ⟨h1, h2, h3, _⟩ | ⟨h1, _, _⟩
  · simp [Ecdsa.sign, h1, h2, h3]
  · simp [Ecdsa.sign, h1]

/-- **C01 (RFC 6979 input).**  The default nonce function seeds the HMAC-DRBG with
    `key ‖ be32(msg mod n) ‖ extra data ‖ algo` — the message is reduced mod `n` first — and returns the
    `(counter+1)`-th 32-byte output block. -/
theorem rfc6979_input (msg32 key32 : Bytes) (algo16 data : Option Bytes) (counter : Nat) :
    Ecdsa.rfc6979Nonce msg32 key32 algo16 data counter =
      some (Ecdsa.rfc6979Nonce.gen (counter + 1)
        (Sha256.rfc6979Init
          (key32 ++ Bytes.be32 (Bytes.toNat msg32 % N) ++ data.getD [] ++ algo16.getD [])) []) := rfl

/-- Hence two messages with the same residue mod `n` get the same nonce. -/
theorem rfc6979_msg_mod (m1 m2 key32 : Bytes) (algo16 data : Option Bytes) (counter : Nat)
    (h : Bytes.toNat m1 % N = Bytes.toNat m2 % N) :
    Ecdsa.rfc6979Nonce m1 key32 algo16 data counter = Ecdsa.rfc6979Nonce m2 key32 algo16 data counter := by
  rw [rfc6979_input, rfc6979_input, h]

/-- **C01 (API level: signatures verify).**  Whatever the 32-byte key string, message, nonce function
    (default RFC 6979 or custom) and extra data: if `ecdsa_sign` returns 1 with signature `(r, s)` then
    `(r, s)` has low S and `ecdsa_verify` accepts it for the public key `ec_pubkey_create` derives from the
    same key string. -/
theorem ecdsa_sign_api_verifies (gl : GroupLaw) (msg32 seckey : Bytes) (noncefp : Option Ecdsa.NonceFn)
    (ndata : Option Bytes) (r s : Nat) (h : Ecdsa.sign msg32 seckey noncefp ndata = (1, (r, s))) :
    ¬ Sc.isHigh s = true ∧ (Keys.pubkeyCreate seckey).1 = 1 ∧
    (Ecdsa.verify (r, s) msg32 (Keys.pubkeyCreate seckey).2).ret = 1 := by
  have : HasGroupLaw := ⟨gl⟩
  have hs := signInner_spec 64 none msg32 seckey noncefp ndata
  simp only [Ecdsa.sign, Prod.mk.injEq] at h
  obtain ⟨hret, hr, hsv⟩ := h
  rcases hs with ⟨h0, _⟩ | ⟨_, hvalid, k, hk0, hkN, hsig⟩
  · rw [h0] at hret; cases hret
  · rw [hr, hsv] at hsig
    obtain ⟨hd0, hdN, _⟩ := setB32Seckey_valid (b := seckey) (v := (Sc.setB32Seckey seckey).1) (by rw [← hvalid])
    rw [hvalid, if_pos rfl] at hsig
    have hv := ecdsa_sign_verifies gl _ (Bytes.toNat msg32 % N) k hdN hk0 hkN
    simp only [hsig] at hv
    obtain ⟨hlow, hver⟩ := hv trivial
    have hpk : Keys.pubkeyCreate seckey = (1, Pt.mulG (Sc.setB32Seckey seckey).1) := by
      simp [Keys.pubkeyCreate, hvalid]
    obtain ⟨qx, qy, hq⟩ := mulG_eq_aff hd0 hdN
    refine ⟨hlow, by rw [hpk], ?_⟩
    rw [hpk]
    simp only [Ecdsa.verify, hlow, if_false, hq, Pt.isInf, Bool.false_eq_true]
    rw [← hq, hver]; rfl

/-- **C01 (API level: recovery).**  If `ecdsa_sign_recoverable` returns 1 then `ecdsa_recover` on its
    output returns 1 and exactly the public key `ec_pubkey_create` derives from the same key string. -/
theorem ecdsa_sign_api_recovers (gl : GroupLaw) (hlift : LiftXSpec) (msg32 seckey : Bytes)
    (noncefp : Option Ecdsa.NonceFn) (ndata : Option Bytes)
    (h : (Ecdsa.signRecoverable msg32 seckey noncefp ndata).ret = 1) :
    let o := Ecdsa.signRecoverable msg32 seckey noncefp ndata
    Ecdsa.recover (o.r, o.s) o.recid msg32 = (1, (Keys.pubkeyCreate seckey).2) ∧
      (Keys.pubkeyCreate seckey).1 = 1 := by
  have : HasGroupLaw := ⟨gl⟩
  have hs := signInner_spec 64 none msg32 seckey noncefp ndata
  intro o
  rcases hs with ⟨h0, _⟩ | ⟨_, hvalid, k, hk0, hkN, hsig⟩
  · rw [Ecdsa.signRecoverable, h0] at h; cases h
  · obtain ⟨hd0, hdN, _⟩ := setB32Seckey_valid (b := seckey) (v := (Sc.setB32Seckey seckey).1) (by rw [← hvalid])
    rw [hvalid, if_pos rfl] at hsig
    have hv := ecdsa_sign_recovers gl hlift _ (Bytes.toNat msg32 % N) k hd0 hdN hk0 hkN
    simp only [hsig] at hv
    have hpk : Keys.pubkeyCreate seckey = (1, Pt.mulG (Sc.setB32Seckey seckey).1) := by
      simp [Keys.pubkeyCreate, hvalid]
    refine ⟨?_, by rw [hpk]⟩
    rw [hpk]
    show Ecdsa.recover _ _ _ = _
    unfold Ecdsa.recover
    simp only [o, Ecdsa.signRecoverable]
    rw [hv trivial]

/-! ### Non-vacuity: concrete instances (evaluated by the kernel) -/

/-- Key 7, message scalar 12345, nonce 2: signing succeeds, `s` was negated (high) and `recid = 1`;
    nonce 6: not negated, `y(k•G)` odd, `recid = 1`; nonce 1: `recid = 0`. -/
example : (Ecdsa.sigSign 7 12345 2).1 = true ∧ (Ecdsa.sigSign 7 12345 2).2.2.2 = 1 ∧
    Sc.isHigh (Sc.mul (Sc.inv 2) (Sc.add (Sc.mul (Ecdsa.sigSign 7 12345 2).2.1 7) 12345)) = true := by
  decide +kernel
example : (Ecdsa.sigSign 7 12345 6).1 = true ∧ (Ecdsa.sigSign 7 12345 6).2.2.2 = 1 ∧
    Sc.isHigh (Sc.mul (Sc.inv 6) (Sc.add (Sc.mul (Ecdsa.sigSign 7 12345 6).2.1 7) 12345)) = false := by
  decide +kernel

/-- `ecdsa_sign_verifies` applied to the instance with the negated `s`. -/
example (gl : GroupLaw) :
    Ecdsa.sigVerify (Ecdsa.sigSign 7 12345 2).2.1 (Ecdsa.sigSign 7 12345 2).2.2.1 (Pt.mulG 7) 12345 = true :=
  (ecdsa_sign_verifies gl 7 12345 2 (by decide +kernel) (by decide) (by decide +kernel)
    (by decide +kernel)).2

/-- The hypothesis `LiftXSpec` holds at the generator (kernel evaluation of the square root), for both
    requested parities. -/
example : (Pt.aff Pt.Gx Pt.Gy).valid = true ∧
    Pt.liftX Pt.Gx false = some (Pt.aff Pt.Gx (if Fe.isOdd Pt.Gy = false then Pt.Gy else Fe.neg Pt.Gy)) ∧
    Pt.liftX Pt.Gx true = some (Pt.aff Pt.Gx (if Fe.isOdd Pt.Gy = true then Pt.Gy else Fe.neg Pt.Gy)) := by
  decide +kernel

/-- The conclusion of `ecdsa_sign_recovers` checked directly on the instance with negated `s`. -/
example : Ecdsa.sigRecover (Ecdsa.sigSign 7 12345 2).2.1 (Ecdsa.sigSign 7 12345 2).2.2.1 12345
    (Ecdsa.sigSign 7 12345 2).2.2.2 = some (Pt.mulG 7) := by decide +kernel

/-- `ecdsa_verify_iff`: its hypotheses hold for a concrete accepted triple (the signature of the 32-byte
    message `be32 12345` under key 7 with nonce 6) … -/
example :
    let sg := Ecdsa.sigSign 7 12345 6
    sg.2.1 < N ∧ (verifyPoint sg.2.1 sg.2.2.1 (Bytes.toNat (Bytes.be32 12345) % N) (Pt.mulG 7)).xOf < P ∧
    (Ecdsa.verify (sg.2.1, sg.2.2.1) (Bytes.be32 12345) (Pt.mulG 7)).ret = 1 := by decide +kernel

/-- … and for rejected ones: the same signature with `s` replaced by `n − s` (high S), and with `r = 0`. -/
example :
    let sg := Ecdsa.sigSign 7 12345 6
    (Ecdsa.verify (sg.2.1, Sc.neg sg.2.2.1) (Bytes.be32 12345) (Pt.mulG 7)).ret = 0 ∧
    (Ecdsa.verify (0, sg.2.2.1) (Bytes.be32 12345) (Pt.mulG 7)).ret = 0 := by decide +kernel

/-- `sign_invalid_key`: both kinds of invalid key strings exist. -/
example : Bytes.toNat (Bytes.zeros 32) = 0 ∧ N ≤ Bytes.toNat (Bytes.be32 N) := by decide +kernel

/-- `sign_nonce_fail`: a failing callback. -/
example : Ecdsa.sign (Bytes.be32 12345) (Bytes.be32 7) (some fun _ _ _ _ _ => none) none = (0, (0, 0)) :=
  sign_nonce_fail _ _ _ _ rfl

/-- `ecdsa_sign_api_verifies` / `ecdsa_sign_api_recovers`: the premise `ret = 1` is satisfiable (custom
    nonce callback returning the constant 6, to keep the kernel evaluation free of the DRBG). -/
example : (Ecdsa.sign (Bytes.be32 12345) (Bytes.be32 7) (some fun _ _ _ _ _ => some (Bytes.be32 6)) none).1 = 1 ∧
    (Ecdsa.signRecoverable (Bytes.be32 12345) (Bytes.be32 7) (some fun _ _ _ _ _ => some (Bytes.be32 6)) none).ret
      = 1 := by
  decide +kernel

end C01
end SecpZkp
