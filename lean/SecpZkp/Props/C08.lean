import SecpZkp.Proofs.Generator
/-
  Property C08 — "Pedersen commitments are the stated group elements and tally exactly".

  Model: `Model/Generator.lean` (mirrors `src/modules/generator/main_impl.h`, `pedersen_impl.h`).
  Every theorem below is closed: the group law (`groupLaw`) and the primality of `P`, `N` are proved, no
  hypothesis about the curve is left.  Helper lemmas are in `Proofs/Generator.lean`.

  Overview
  1. `commit_spec`, `commitLoad_commitSave`, `commit_denotes`, `commit_denotes_group`:
     a commitment is exactly the encoding of `b•G + v•gen`; creation fails only for `b ≥ n` or `∞`.
  2. `commitParse_iff`, `generator_parse_iff`, round trips, canonical encodings only.
  3. `generate_on_curve` (via `svdw_on_curve`: the Shallue–van de Woestijne map always lands on the curve),
     `generate_ret_iff`, `generate_blinded_eq`.
  4. `tally_iff`: `verifyTally` accepts iff `Σpos − Σneg = ∞`.
  5. `blindSum_spec`, `blindGeneratorBlindSum_spec`.
  6. `tally_commit_iff`, `balance_if`, `balance_if_mixed`; the converse is NOT a theorem (see the end).

  Findings (statements that are false of the model as literally requested) are marked FINDING.
-/
namespace SecpZkp
namespace C08
open Generator GeneratorLemmas

local instance : Fact (Nat.Prime P) := ⟨prime_P⟩
local instance : HasGroupLaw := ⟨groupLaw⟩
/- `whnf` on open terms containing `Fe.sqrtCand` would otherwise unroll the 520-step `powMod` loop -/
attribute [local irreducible] powMod

set_option exponentiation.threshold 600

theorem lt_264_of_lt_64 {v : ℕ} (h : v < 2 ^ 64) : v < 2 ^ 264 :=
  lt_of_lt_of_le h (Nat.pow_le_pow_right (by decide) (by decide))

theorem lt_264_of_lt_N {b : ℕ} (h : b < N) : b < 2 ^ 264 := Field.lt_pow_264 (lt_trans h N_lt)

/-! ## 1. Commitments are the stated group elements -/

/-- The point `b•G + v•gen` as the model computes it (`b` = big-endian value of the 32-byte `blind`). -/
def commitPoint (blind : Bytes) (value : ℕ) (gen : Pt) : Pt :=
  Pt.add (Pt.mulG (Bytes.toNat blind)) (Pt.mul value gen)

/-- **`secp256k1_pedersen_commit`, exact behaviour.**  Creation fails exactly when the blinding factor
    is `≥ n` or the point `b•G + v•gen` is the point at infinity; otherwise the commitment object is the
    encoding (`commitSave`) of that point.  No hypothesis on the inputs. -/
theorem commit_spec (blind : Bytes) (value : ℕ) (gen : Pt) :
    (commit blind value gen = none ↔
      Bytes.toNat blind ≥ N ∨ commitPoint blind value gen = .inf) ∧
    (∀ c, commit blind value gen = some c → c = commitSave (commitPoint blind value gen)) := by
  unfold commitPoint
  by_cases h : Bytes.toNat blind ≥ N
  · rw [commit_of_ge value gen h]; simp [h]
  · rw [commit_of_lt value gen (Nat.not_le.1 h)]
    by_cases hi : Pt.add (Pt.mulG (Bytes.toNat blind)) (Pt.mul value gen) = .inf
    · simp [hi]
    · simp [hi, h]

/- non-vacuity of `commit_spec`: success, failure by `b ≥ n`, failure by `b•G + v•gen = ∞` (with `b < n`) -/
example : commit (Bytes.be32 5) 3 H = some (commitSave (commitPoint (Bytes.be32 5) 3 H)) := by
  decide +kernel
example : commit (Bytes.be32 N) 1 H = none := by decide +kernel
example : Bytes.toNat (Bytes.be32 (N - 1)) < N ∧ commit (Bytes.be32 (N - 1)) 1 Pt.G = none := by
  decide +kernel
example : commit (Bytes.be32 0) 0 H = none := by decide +kernel

/-- Loading a stored valid finite point gives the point back: the commitment object denotes exactly the
    point that was stored (the prefix bit "y is not a square" selects the right root because `-1` is a
    non-residue modulo `P`). -/
theorem commitLoad_commitSave (p : Pt) (hv : p.valid = true) (hne : p ≠ .inf) :
    commitLoad (commitSave p) = p := by
  cases p with
  | inf => exact absurd rfl hne
  | aff x y => exact GeneratorLemmas.commitLoad_commitSave hv

example : H.valid = true ∧ H ≠ .inf ∧ commitLoad (commitSave H) = H := by decide +kernel
example : (Pt.neg H).valid = true ∧ commitLoad (commitSave (Pt.neg H)) = Pt.neg H := by decide +kernel

theorem commitPoint_valid (blind : Bytes) (value : ℕ) {gen : Pt} (hgen : gen.valid = true) :
    (commitPoint blind value gen).valid = true :=
  valid_add (valid_mul _ valid_G) (valid_mul _ hgen)

/-- A successfully created commitment loads back to `b•G + v•gen`, a valid finite point, with `b < n`. -/
theorem commit_denotes (blind : Bytes) (value : ℕ) (gen : Pt) (hgen : gen.valid = true) (c : Bytes)
    (h : commit blind value gen = some c) :
    commitLoad c = commitPoint blind value gen ∧ commitPoint blind value gen ≠ .inf ∧
      (commitPoint blind value gen).valid = true ∧ Bytes.toNat blind < N := by
  obtain ⟨hnone, hsome⟩ := commit_spec blind value gen
  have hv := commitPoint_valid blind value hgen
  have hn : ¬ (Bytes.toNat blind ≥ N ∨ commitPoint blind value gen = .inf) := by
    rw [← hnone, h]; simp
  rw [not_or] at hn
  refine ⟨?_, hn.2, hv, Nat.not_le.1 hn.1⟩
  rw [hsome c h]; exact commitLoad_commitSave _ hv hn.2

example : H.valid = true ∧ (commit (Bytes.be32 5) (2 ^ 64 - 1) H).isSome = true := by decide +kernel

/-- The same in Mathlib's group of points of `y² = x³ + 7` over `ZMod P`: the commitment denotes
    `b • G + v • gen` (genuine scalar multiples; `v < 2^64` as in the C API). -/
theorem commit_denotes_group (blind : Bytes) (value : ℕ) (gen : Pt) (hgen : gen.valid = true)
    (hval : value < 2 ^ 64) (c : Bytes) (h : commit blind value gen = some c) :
    toPoint (commitLoad c) = Bytes.toNat blind • toPoint Pt.G + value • toPoint gen := by
  obtain ⟨hl, _, _, hb⟩ := commit_denotes blind value gen hgen c h
  have hvG : (Pt.mulG (Bytes.toNat blind)).valid = true := valid_mul _ valid_G
  have eG : toPoint (Pt.mulG (Bytes.toNat blind)) = Bytes.toNat blind • toPoint Pt.G :=
    toPoint_mul (lt_264_of_lt_N hb) valid_G
  rw [hl, commitPoint, toPoint_add hvG (valid_mul _ hgen), eG,
    toPoint_mul (lt_264_of_lt_64 hval) hgen]

example : H.valid = true ∧ (2 ^ 63 : ℕ) < 2 ^ 64 ∧ (commit (Bytes.be32 (N - 1)) (2 ^ 63) H).isSome = true := by
  decide +kernel

/-! ## 2. Codecs -/

/-- `x` is the abscissa of a point of the curve -/
def IsAbscissa (x : ℕ) : Prop := ∃ y, (Pt.aff x y).valid = true

/-- The parsers' test "`x³ + 7` is a square" (computed as `Fe.isSquare`) means: `x` is the abscissa of a
    curve point. -/
theorem isSquare_rhs_iff {x : ℕ} (hx : x < P) :
    Fe.isSquare (Fe.add (Fe.mul (Fe.sqr x) x) 7) = true ↔ IsAbscissa x := by
  constructor
  · intro h; exact ⟨_, valid_of_isSquare hx h⟩
  · rintro ⟨y, hy⟩
    rw [Fe.isSquare_iff, cast_rhs]
    exact ⟨(y : ZMod P), (valid_eqn hy).symm⟩

/-- **`secp256k1_pedersen_commitment_parse`** accepts exactly: first byte `8` or `9`, the remaining bytes
    a big-endian integer `x < P` (canonical: `x ≥ P` is rejected) that is the abscissa of a curve point;
    the object is then the input itself.
    FINDING (model only): the model does not look at the length of `input` (the C function reads a
    fixed 33-byte buffer), see `commitParse_short_input` below; with `input.length = 33` this is the
    requested statement (`commitParse_iff33`). -/
theorem commitParse_iff (input c : Bytes) :
    commitParse input = some c ↔
      c = input ∧ ∃ b0 rest, input = b0 :: rest ∧ (b0 = 8 ∨ b0 = 9) ∧ Bytes.toNat rest < P ∧
        IsAbscissa (Bytes.toNat rest) := by
  cases input with
  | nil => simp [commitParse]
  | cons b0 rest =>
    rw [commitParse_cons]
    by_cases h : (b0 = 8 ∨ b0 = 9) ∧ Bytes.toNat rest < P ∧
        Fe.isSquare (rhs (Bytes.toNat rest)) = true
    · rw [if_pos h]
      constructor
      · intro e
        exact ⟨(Option.some.inj e).symm, b0, rest, rfl, h.1, h.2.1, (isSquare_rhs_iff h.2.1).1 h.2.2⟩
      · rintro ⟨rfl, _⟩; rfl
    · rw [if_neg h]
      constructor
      · intro e; exact absurd e (by simp)
      · rintro ⟨_, b0', rest', e, hb, hx, ha⟩
        obtain ⟨rfl, rfl⟩ := List.cons.inj e
        exact absurd ⟨hb, hx, (isSquare_rhs_iff hx).2 ha⟩ h

example : commitParse (8 :: Bytes.be32 1) = some (8 :: Bytes.be32 1) := by decide +kernel
example : commitParse (9 :: Bytes.be32 1) = some (9 :: Bytes.be32 1) := by decide +kernel
example : commitParse (10 :: Bytes.be32 1) = none := by decide +kernel
/-- FINDING (model only): inputs that are not 33 bytes long are accepted by the model's parser. -/
theorem commitParse_short_input : commitParse [8, 1] = some [8, 1] := by decide +kernel

/-- The 33-byte form: `input = prefix ‖ x32`. -/
theorem commitParse_iff33 (input c : Bytes) (hlen : input.length = 33) :
    commitParse input = some c ↔
      c = input ∧ ∃ b0 rest, input = b0 :: rest ∧ rest.length = 32 ∧ (b0 = 8 ∨ b0 = 9) ∧
        Bytes.toNat rest < P ∧ IsAbscissa (Bytes.toNat rest) := by
  rw [commitParse_iff]
  constructor
  · rintro ⟨hc, b0, rest, e, h⟩
    refine ⟨hc, b0, rest, e, ?_, h⟩
    rw [e] at hlen; simpa using hlen
  · rintro ⟨hc, b0, rest, e, _, h⟩
    exact ⟨hc, b0, rest, e, h⟩

example : (8 :: Bytes.be32 1).length = 33 := by decide +kernel

/-- Only canonical encodings are accepted: an abscissa field `≥ P` (e.g. `x + P`) is rejected. -/
theorem commitParse_noncanonical (b0 : UInt8) (rest : Bytes) (h : Bytes.toNat rest ≥ P) :
    commitParse (b0 :: rest) = none := by
  rw [commitParse_cons, if_neg (fun h' => absurd h'.2.1 (Nat.not_lt.2 h))]

/- `x = 1` is accepted, its non-canonical re-encoding `x + P` (which still fits in 32 bytes) is not -/
example : Bytes.toNat (Bytes.be32 (P + 1)) ≥ P ∧ commitParse (8 :: Bytes.be32 (P + 1)) = none ∧
    (commitParse (8 :: Bytes.be32 1)).isSome = true := by decide +kernel

/-- **`secp256k1_generator_parse`** accepts exactly: first byte `10` or `11`, then a canonical `x < P`
    that is the abscissa of a curve point; the result is the point with that abscissa whose ordinate is
    a square (prefix 10) resp. a non-square (prefix 11). -/
theorem generator_parse_iff (input : Bytes) (g : Pt) :
    parse input = some g ↔
      ∃ b0 rest y, input = b0 :: rest ∧ (b0 = 10 ∨ b0 = 11) ∧ Bytes.toNat rest < P ∧
        g = .aff (Bytes.toNat rest) y ∧ g.valid = true ∧ (Fe.isSquare y = true ↔ b0 = 10) := by
  cases input with
  | nil => simp [parse]
  | cons b0 rest =>
    rw [parse_cons]
    constructor
    · intro h
      split at h
      · next hc =>
        obtain ⟨hb, hx, hsq⟩ := hc
        have hv := valid_of_isSquare hx hsq
        have hq : IsSquare ((Fe.sqrtCand (rhs (Bytes.toNat rest)) : ℕ) : ZMod P) :=
          Fe.sqrtCand_isSquare ((Fe.isSquare_iff _).1 hsq)
        have hg := (Option.some.inj h).symm
        rcases hb with rfl | rfl
        · rw [if_neg (by decide)] at hg
          refine ⟨10, rest, _, rfl, Or.inl rfl, hx, hg, by rw [hg]; exact hv, ?_⟩
          simp only [iff_true]
          exact (Fe.isSquare_iff _).2 hq
        · rw [if_pos rfl] at hg
          refine ⟨11, rest, _, rfl, Or.inr rfl, hx, hg, by rw [hg]; exact valid_neg hv, ?_⟩
          rw [isSquare_neg_false hv hq]; simp
      · exact absurd h (by simp)
    · rintro ⟨b0', rest', y, e, hb, hx, hg, hv, hsq⟩
      obtain ⟨rfl, rfl⟩ := List.cons.inj e
      subst hg
      have habs : Fe.isSquare (rhs (Bytes.toNat rest)) = true := (isSquare_rhs_iff hx).2 ⟨y, hv⟩
      rw [if_pos ⟨hb, hx, habs⟩]
      obtain ⟨r, hl, hsel⟩ := quad_select hv
      rw [liftXQuad_eq, if_pos habs, Nat.mod_eq_of_lt hx] at hl
      have hr : Fe.sqrtCand (rhs (Bytes.toNat rest)) = r := by
        have := Option.some.inj hl; injection this
      rw [hr]
      rcases hb with rfl | rfl
      · rw [if_neg (by decide)]
        rw [if_pos (hsq.2 rfl)] at hsel
        rw [hsel]
      · rw [if_pos rfl]
        have : ¬ Fe.isSquare y = true := fun h => absurd (hsq.1 h) (by decide)
        rw [if_neg this] at hsel
        rw [hsel]

example : parse (serialize H) = some H := by decide +kernel
example : parse (11 :: Bytes.be32 1) = some (Pt.neg (.aff 1 (Fe.sqrtCand 8))) := by decide +kernel
example : parse (8 :: Bytes.be32 1) = none := by decide +kernel

/-- Only canonical encodings are accepted by the generator parser. -/
theorem generator_parse_noncanonical (b0 : UInt8) (rest : Bytes) (h : Bytes.toNat rest ≥ P) :
    parse (b0 :: rest) = none := by
  rw [parse_cons, if_neg (fun h' => absurd h'.2.1 (Nat.not_lt.2 h))]

example : parse (10 :: Bytes.be32 (P + 1)) = none ∧ (parse (10 :: Bytes.be32 1)).isSome = true := by
  decide +kernel

/-- Round trip: parsing the serialization of a valid finite generator gives the generator back. -/
theorem parse_serialize (g : Pt) (hv : g.valid = true) (hne : g ≠ .inf) :
    parse (serialize g) = some g := by
  cases g with
  | inf => exact absurd rfl hne
  | aff x y =>
    obtain ⟨hx, _, _⟩ := (valid_aff_iff x y).1 hv
    rw [generator_parse_iff]
    refine ⟨_, _, y, serialize_aff x y, ?_, ?_, ?_, hv, ?_⟩
    · by_cases hs : Fe.isSquare y = true <;> simp [hs]
    · rw [Algebra.toNat_be32 (lt_trans hx Algebra.P_lt_pow)]; exact hx
    · rw [Algebra.toNat_be32 (lt_trans hx Algebra.P_lt_pow)]
    · by_cases hs : Fe.isSquare y = true <;> simp [hs]

example : H.valid = true ∧ H ≠ .inf := by decide +kernel

/-- Round trip: serializing a parsed generator gives the 33 input bytes back (so the encoding accepted
    for a generator is unique). -/
theorem serialize_parse (bs : Bytes) (g : Pt) (hlen : bs.length = 33) (h : parse bs = some g) :
    serialize g = bs := by
  obtain ⟨b0, rest, y, e, hb, hx, hg, hv, hsq⟩ := (generator_parse_iff bs g).1 h
  subst hg e
  have hr : rest.length = 32 := by simpa using hlen
  rw [serialize_aff, Bytes.be32_toNat rest hr]
  rcases hb with rfl | rfl
  · rw [if_pos (hsq.2 rfl)]
  · have : ¬ Fe.isSquare y = true := fun h => absurd (hsq.1 h) (by decide)
    rw [if_neg this]

example : (11 :: Bytes.be32 1).length = 33 ∧ (parse (11 :: Bytes.be32 1)).isSome = true := by decide +kernel

/-- The stored form of a valid finite point is accepted by the commitment parser, unchanged. -/
theorem commitParse_commitSave (p : Pt) (hv : p.valid = true) (hne : p ≠ .inf) :
    commitParse (commitSave p) = some (commitSave p) := by
  cases p with
  | inf => exact absurd rfl hne
  | aff x y =>
    obtain ⟨hx, _, _⟩ := (valid_aff_iff x y).1 hv
    rw [commitParse_iff]
    refine ⟨rfl, _, _, commitSave_aff x y, ?_, ?_, ?_⟩
    · by_cases hs : Fe.isSquare y = true <;> simp [hs]
    · rw [Algebra.toNat_be32 (lt_trans hx Algebra.P_lt_pow)]; exact hx
    · rw [Algebra.toNat_be32 (lt_trans hx Algebra.P_lt_pow)]; exact ⟨y, hv⟩

example : commitParse (commitSave H) = some (commitSave H) := by decide +kernel

/-- Conversely every accepted 33-byte commitment is the stored form of the point it loads to: parsing
    accepts exactly the canonical encodings of valid finite points. -/
theorem commitSave_commitLoad (c : Bytes) (hlen : c.length = 33) (h : commitParse c = some c) :
    commitSave (commitLoad c) = c ∧ (commitLoad c).valid = true ∧ commitLoad c ≠ .inf := by
  obtain ⟨_, b0, rest, e, hb, hx, ⟨y, hy⟩⟩ := (commitParse_iff c c).1 h
  subst e
  have hr : rest.length = 32 := by simpa using hlen
  obtain ⟨r, hl, hv, hsq, _⟩ := liftXQuad_of_valid hy
  rw [commitLoad_cons, Nat.mod_eq_of_lt hx, hl]
  simp only []
  rcases hb with rfl | rfl
  · rw [if_neg (by decide)]
    refine ⟨?_, hv, fun h => Pt.noConfusion h⟩
    rw [commitSave_aff, if_pos ((Fe.isSquare_iff r).2 hsq), Bytes.be32_toNat rest hr]
  · rw [if_pos (by decide)]
    refine ⟨?_, valid_neg hv, fun h => Pt.noConfusion h⟩
    show commitSave (.aff _ (Fe.neg r)) = _
    rw [commitSave_aff, isSquare_neg_false hv hsq, Bytes.be32_toNat rest hr]
    simp

example : (9 :: Bytes.be32 1).length = 33 ∧ commitParse (9 :: Bytes.be32 1) = some (9 :: Bytes.be32 1) := by
  decide +kernel

/-! ## 4. Tally -/

/-- **`secp256k1_pedersen_verify_tally`** returns 1 exactly when the sum of the positive commitments
    minus the sum of the negative commitments is the point at infinity — for lists of any length,
    including empty ones, and any (even malformed) commitment objects (`commitLoad` is total and always
    yields a valid point). -/
theorem tally_iff (pos neg : List Bytes) :
    verifyTally pos neg = true ↔
      Pt.sub (Pt.sum (pos.map commitLoad)) (Pt.sum (neg.map commitLoad)) = .inf := by
  have hp := sum_valid (commitLoad_map_valid pos)
  have hn := sum_valid (commitLoad_map_valid neg)
  rw [verifyTally_eq, isInf_iff, neg_add_eq_sub hp hn]

/- non-vacuity: the empty tally; a balanced tally 2-vs-1; the same tally off by one unit of value -/
example : verifyTally [] [] = true := by decide +kernel
example : (do let c1 ← commit (Bytes.be32 5) 3 H; let c2 ← commit (Bytes.be32 7) 4 H
              let c3 ← commit (Bytes.be32 12) 7 H; pure (verifyTally [c1, c2] [c3])) = some true := by
  decide +kernel
example : (do let c1 ← commit (Bytes.be32 5) 3 H; let c2 ← commit (Bytes.be32 7) 4 H
              let c3 ← commit (Bytes.be32 12) 8 H; pure (verifyTally [c1, c2] [c3])) = some false := by
  decide +kernel

/-- Equivalent form: the two sums are the same point. -/
theorem tally_iff_eq (pos neg : List Bytes) :
    verifyTally pos neg = true ↔ Pt.sum (pos.map commitLoad) = Pt.sum (neg.map commitLoad) := by
  rw [tally_iff, sub_eq_inf_iff (sum_valid (commitLoad_map_valid pos))
    (sum_valid (commitLoad_map_valid neg))]

/-- `Pt.sum` (a left fold of `Pt.add`) is the sum in Mathlib's point group. -/
theorem toPoint_sum {l : List Pt} (hl : ∀ p ∈ l, p.valid = true) :
    toPoint (Pt.sum l) = (l.map toPoint).sum := by
  induction l with
  | nil => rfl
  | cons p l ih =>
    have hp : p.valid = true := hl p (by simp)
    have hl' : ∀ q ∈ l, q.valid = true := fun q hq => hl q (by simp [hq])
    rw [sum_cons hp hl', toPoint_add hp (sum_valid hl'), ih hl']; simp

/-! ## 5. Blind sums -/

/-- `Σ_{i < npos} b_i − Σ_{i ≥ npos} b_i` as an integer -/
def signedBlindSum (blinds : List Bytes) (npos : ℕ) : ℤ :=
  ((blinds.take npos).map (fun b => (Bytes.toNat b : ℤ))).sum -
    ((blinds.drop npos).map (fun b => (Bytes.toNat b : ℤ))).sum

/-- **`secp256k1_pedersen_blind_sum`** fails exactly when some entry is `≥ n`. -/
theorem blindSum_none_iff (blinds : List Bytes) (npos : ℕ) :
    blindSum blinds npos = none ↔ ∃ b ∈ blinds, Bytes.toNat b ≥ N := by
  unfold blindSum
  rw [Option.map_eq_none_iff]
  exact blindSum_go_none npos blinds 0 0

example : blindSum [Bytes.be32 5, Bytes.be32 N] 1 = none := by decide +kernel
example : blindSum [] 0 = some (Bytes.be32 0) := by decide +kernel

/-- **`secp256k1_pedersen_blind_sum`**: when every entry is `< n` the result is the 32-byte encoding of
    `(Σ_{i<npos} b_i − Σ_{i≥npos} b_i) mod n`. -/
theorem blindSum_spec (blinds : List Bytes) (npos : ℕ) (h : ∀ b ∈ blinds, Bytes.toNat b < N) :
    blindSum blinds npos =
      some (Bytes.be32 ((signedBlindSum blinds npos % (N : ℤ)).toNat)) := by
  obtain ⟨r, hr, hgo, hcast⟩ := blindSum_go_some npos blinds 0 0 h N_pos
  unfold blindSum
  rw [hgo, Option.map_some]
  congr 2
  apply eq_emod_of_cast hr
  rw [hcast, signedBlindSum, Int.cast_sub, cast_sum_toNat, cast_sum_toNat]
  simp

/- `5 + 3 − 10 = −2 ≡ n − 2` -/
example : blindSum [Bytes.be32 5, Bytes.be32 3, Bytes.be32 10] 2 = some (Bytes.be32 (N - 2)) := by
  decide +kernel
example : blindSum [Bytes.be32 (N - 1), Bytes.be32 (N - 1)] 2 = some (Bytes.be32 (N - 2)) := by
  decide +kernel

/-- The blinding factor returned by `blindSum`, used as one more *negative* blinding factor, balances the
    blinding factors: `Σ_{i<npos} b_i ≡ Σ_{i≥npos} b_i + out (mod n)`. -/
theorem blindSum_balances (blinds : List Bytes) (npos : ℕ) (out : Bytes)
    (h : blindSum blinds npos = some out) :
    ((blinds.take npos).map Bytes.toNat).sum % N =
      (((blinds.drop npos).map Bytes.toNat).sum + Bytes.toNat out) % N := by
  have hall : ∀ b ∈ blinds, Bytes.toNat b < N := by
    intro b hb
    by_contra hc
    have := (blindSum_none_iff blinds npos).2 ⟨b, hb, Nat.not_lt.1 hc⟩
    rw [this] at h; exact absurd h (by simp)
  obtain ⟨r, hr, hgo, hcast⟩ := blindSum_go_some npos blinds 0 0 hall N_pos
  have ho : out = Bytes.be32 r := by
    unfold blindSum at h; rw [hgo, Option.map_some] at h; exact (Option.some.inj h).symm
  have hro : Bytes.toNat out = r := by
    rw [ho]; exact Algebra.toNat_be32 (lt_trans hr Algebra.N_lt_pow)
  rw [hro, ← ZMod.natCast_eq_natCast_iff']
  have hs : ∀ l : List Bytes, (((l.map Bytes.toNat).sum : ℕ) : ZMod N) = (l.map sc).sum := by
    intro l; induction l with
    | nil => simp
    | cons b bs ih => simp [ih]
  rw [Nat.cast_add, hs, hs, hcast]
  simp

example : (blindSum [Bytes.be32 5, Bytes.be32 3, Bytes.be32 10] 2).isSome = true := by decide +kernel

/-- **`secp256k1_pedersen_blind_generator_blind_sum`** fails exactly when some generator blind or some
    blinding factor is `≥ n` (entries are the zipped triples `(value_i, generator_blind_i, blinding_factor_i)`). -/
theorem blindGeneratorBlindSum_none_iff (values : List ℕ) (genBlinds blinds : List Bytes) (nInputs : ℕ) :
    blindGeneratorBlindSum values genBlinds blinds nInputs = none ↔
      ∃ e ∈ List.zip values (List.zip genBlinds blinds), ¬ entryOk e := by
  unfold blindGeneratorBlindSum
  rw [← bgbs_go_none nInputs _ 0 0 0]
  cases blindGeneratorBlindSum.go nInputs (List.zip values (List.zip genBlinds blinds)) 0 0 0 with
  | none => simp
  | some p => obtain ⟨s, t⟩ := p; simp

example : blindGeneratorBlindSum [1, 2] [Bytes.be32 2, Bytes.be32 N] [Bytes.be32 7, Bytes.be32 11] 1 = none := by
  decide +kernel

/-- **`secp256k1_pedersen_blind_generator_blind_sum`, what the code computes.**  Write the zipped entries
    as `rest ++ [(v, g, b)]` (the last entry is the one whose blinding factor is replaced) and assume, as
    the C `ARG_CHECK(n_total > n_inputs)` does, that the last entry is an output (`nInputs ≤ rest.length`).
    When every scalar is `< n` the function returns the encoding of
      `r = b − (Σ_{outputs} (v_i·g_i + b_i) − Σ_{inputs} (v_i·g_i + b_i))  (mod n)`,
    and with `b` replaced by `r` the signed sum vanishes:
      `Σ_{outputs} (v_i·g_i + b'_i) − Σ_{inputs} (v_i·g_i + b'_i) ≡ 0 (mod n)`. -/
theorem blindGeneratorBlindSum_spec (values : List ℕ) (genBlinds blinds : List Bytes) (nInputs : ℕ)
    (rest : List Entry) (v : ℕ) (g b : Bytes)
    (hl : List.zip values (List.zip genBlinds blinds) = rest ++ [(v, g, b)])
    (hok : ∀ e ∈ rest ++ [(v, g, b)], entryOk e) (hn : nInputs ≤ rest.length) :
    ∃ r, r < N ∧ blindGeneratorBlindSum values genBlinds blinds nInputs = some (Bytes.be32 r) ∧
      (r : ZMod N) = sc b - signedSum (rest ++ [(v, g, b)]) nInputs ∧
      signedSum (rest ++ [(v, g, Bytes.be32 r)]) nInputs = 0 := by
  obtain ⟨s, hgo, _, hcast⟩ := bgbs_go_some nInputs (rest ++ [(v, g, b)]) 0 0 0 hok
  have hlast : ((rest ++ [(v, g, b)]).getLast?.map (fun e => Bytes.toNat e.2.2)).getD 0 =
      Bytes.toNat b := by simp
  rw [hlast] at hgo
  refine ⟨Sc.add (Bytes.toNat b) (Sc.neg s), Sc.add_lt_N _ _, ?_, ?_, ?_⟩
  · unfold blindGeneratorBlindSum
    rw [hl, hgo]
  · rw [Sc.cast_add, Sc.cast_neg, hcast]; simp [sub_eq_add_neg]
  · rw [signedSum_append_singleton _ _ hn]
    have hr : Bytes.toNat (Bytes.be32 (Sc.add (Bytes.toNat b) (Sc.neg s))) =
        Sc.add (Bytes.toNat b) (Sc.neg s) :=
      Algebra.toNat_be32 (lt_trans (Sc.add_lt_N _ _) Algebra.N_lt_pow)
    simp only [term, sc, hr, Sc.cast_add, Sc.cast_neg, hcast, Nat.cast_zero, zero_add, Nat.sub_zero]
    rw [signedSum_append_singleton _ _ hn]
    simp only [term, sc]
    ring

/- inputs `(1, 2, 7)`; outputs `(2, 3, 11)`, `(3, 5, 13)`: `−9 + 17 + 28 = 36`, `r = 13 − 36 ≡ n − 23` -/
example : blindGeneratorBlindSum [1, 2, 3] [Bytes.be32 2, Bytes.be32 3, Bytes.be32 5]
    [Bytes.be32 7, Bytes.be32 11, Bytes.be32 13] 1 = some (Bytes.be32 (N - 23)) := by decide +kernel
example : List.zip [1, 2, 3] (List.zip [Bytes.be32 2, Bytes.be32 3, Bytes.be32 5]
      [Bytes.be32 7, Bytes.be32 11, Bytes.be32 13]) =
    [(1, Bytes.be32 2, Bytes.be32 7), (2, Bytes.be32 3, Bytes.be32 11)] ++ [(3, Bytes.be32 5, Bytes.be32 13)] := by
  decide +kernel

/-! ## 3. Generator derivation -/

/-- **The Shallue–van de Woestijne map always lands on the curve**: for every field element `t` (indeed
    every natural number) `svdw t` is a valid finite point.  (Classical identity: with `g(x) = x³ + 7`,
    `h = x1² + x1 + 1` and `s = (x3 − 1)`, one has `s·h = −8` and `g(x3)·h² = s·g(x1)·g(x2)` with `s` a
    non-zero square, so `g(x1)`, `g(x2)`, `g(x3)` cannot all be non-residues.) -/
theorem svdw_on_curve (t : ℕ) : (svdw t).valid = true ∧ svdw t ≠ .inf :=
  ⟨svdw_valid t, svdw_ne_inf t⟩

example : (svdw 0).valid = true ∧ (svdw 1).valid = true ∧ (svdw (P - 1)).valid = true := by decide +kernel

/-- `secp256k1_generator_generate(_blinded)` returns 1 exactly when the blinding factor (if any) is `< n`
    and both derivation hashes are `< p`.  (Determinism needs no proof: `generateInternal` is a function
    of `(key, blind)`.) -/
theorem generate_ret_iff (key : Bytes) (blind : Option Bytes) :
    (generateInternal key blind).1 = 1 ↔
      (∀ b, blind = some b → Bytes.toNat b < N) ∧ genT1 key < P ∧ genT2 key < P := by
  cases blind with
  | none =>
    rw [generateInternal_none]
    by_cases h : genT1 key < P ∧ genT2 key < P <;> simp [h]
  | some b =>
    rw [generateInternal_some]
    by_cases h : Bytes.toNat b < N ∧ genT1 key < P ∧ genT2 key < P
    · simp [h]
    · rw [if_neg h]
      simp only [Option.some.injEq, forall_eq']
      simpa using h

example : (generateInternal (Bytes.zeros 32) none).1 = 1 := by decide +kernel
example : (generateInternal (Bytes.zeros 32) (some (Bytes.be32 5))).1 = 1 := by decide +kernel
example : (generateInternal (Bytes.zeros 32) (some (Bytes.be32 N))).1 = 0 := by decide +kernel

theorem generate_ret_zero_or_one (key : Bytes) (blind : Option Bytes) :
    (generateInternal key blind).1 = 0 ∨ (generateInternal key blind).1 = 1 := by
  cases blind with
  | none => rw [generateInternal_none]; simp only []; split <;> simp
  | some b => rw [generateInternal_some]; simp only []; split <;> simp

/-- The derived generator is a point of the curve (in particular whenever the call returns 1).
    REMARK: `valid` includes the point at infinity; the sum of the two mapped points could be `∞` only if
    the second hash maps to the negative of the first (the C code does not test this either). -/
theorem generate_on_curve (key : Bytes) (blind : Option Bytes) :
    (generateInternal key blind).2.valid = true := by
  cases blind with
  | none =>
    rw [generateInternal_none]
    exact valid_add (valid_add (show Pt.inf.valid = true from rfl) (svdw_valid _)) (svdw_valid _)
  | some b =>
    rw [generateInternal_some]
    exact valid_add (valid_add (valid_mul _ valid_G) (svdw_valid _)) (svdw_valid _)

example : (generateInternal (Bytes.zeros 32) none).2.valid = true ∧
    (generateInternal (Bytes.zeros 32) none).2 ≠ .inf := by decide +kernel

/-- Blinded derivation = `blind•G` + unblinded derivation (the model, like the C code, accumulates
    `(blind•G + A) + B`; associativity of the group law gives `blind•G + (A + B)`). -/
theorem generate_blinded_eq (key b : Bytes) :
    (generateInternal key (some b)).2 =
      Pt.add (Pt.mulG (Bytes.toNat b % N)) (generateInternal key none).2 := by
  rw [generateInternal_some, generateInternal_none]
  simp only [Algebra.add_inf_left]
  exact pt_add_assoc (valid_mul _ valid_G) (svdw_valid _) (svdw_valid _)

example : (generateInternal (Bytes.zeros 32) (some (Bytes.be32 5))).2 =
    Pt.add (Pt.mulG 5) (generateInternal (Bytes.zeros 32) none).2 := by decide +kernel

/-! ## 6. Balance -/

/-- a commitment opening `(blind, value, generator)` -/
abbrev Opening := Bytes × ℕ × Pt

/-- the list of commitments `cs` was created from the openings `es` by `secp256k1_pedersen_commit` -/
def Committed (es : List Opening) (cs : List Bytes) : Prop :=
  List.Forall₂ (fun e c => commit e.1 e.2.1 e.2.2 = some c) es cs

/-- `Σ b_i` over a list of openings (natural number) -/
def blindTotal (es : List Opening) : ℕ := (es.map (fun e => Bytes.toNat e.1)).sum

/-- `Σ v_i • gen_i` in Mathlib's point group -/
noncomputable def valueTotal (es : List Opening) : W.Point :=
  (es.map (fun e => e.2.1 • toPoint e.2.2)).sum

/-- well-formed openings: 64-bit values, valid generators -/
def OpeningsOk (es : List Opening) : Prop := ∀ e ∈ es, e.2.1 < 2 ^ 64 ∧ e.2.2.valid = true

theorem committed_sum {es : List Opening} {cs : List Bytes} (h : Committed es cs) (hok : OpeningsOk es) :
    toPoint (Pt.sum (cs.map commitLoad)) = blindTotal es • toPoint Pt.G + valueTotal es := by
  rw [toPoint_sum (commitLoad_map_valid cs)]
  induction h with
  | nil => simp [blindTotal, valueTotal]
  | @cons e c es cs hc _ ih =>
    have he := hok e (by simp)
    have hok' : OpeningsOk es := fun e' he' => hok e' (by simp [he'])
    have := commit_denotes_group e.1 e.2.1 e.2.2 he.2 he.1 c hc
    simp only [List.map_cons, List.sum_cons, blindTotal, valueTotal] at ih ⊢
    rw [ih hok', this, add_nsmul]
    abel

/-- **Exact tally criterion for honestly created commitments** (any number of commitments, any mix of
    valid generators): `verifyTally` accepts iff
    `(Σpos b)•G + Σpos v_i•gen_i = (Σneg b)•G + Σneg v_i•gen_i` in the group of the curve. -/
theorem tally_commit_iff (pos neg : List Opening) (cpos cneg : List Bytes)
    (hpos : Committed pos cpos) (hneg : Committed neg cneg)
    (okp : OpeningsOk pos) (okn : OpeningsOk neg) :
    verifyTally cpos cneg = true ↔
      blindTotal pos • toPoint Pt.G + valueTotal pos = blindTotal neg • toPoint Pt.G + valueTotal neg := by
  rw [tally_iff_eq, ← committed_sum hpos okp, ← committed_sum hneg okn]
  constructor
  · intro h; rw [h]
  · exact toPoint_injective (sum_valid (commitLoad_map_valid cpos)) (sum_valid (commitLoad_map_valid cneg))

/- non-vacuity: honestly created commitments under two different generators (`H` and `G`) -/
example : (commit (Bytes.be32 5) 3 H).isSome = true ∧ (commit (Bytes.be32 7) 4 Pt.G).isSome = true ∧
    H.valid = true ∧ Pt.G.valid = true := by decide +kernel

/-- scalars matter only modulo `n` on the generator `G` -/
theorem nsmul_G_congr {a b : ℕ} (h : a % N = b % N) : a • toPoint Pt.G = b • toPoint Pt.G := by
  rw [← mod_addOrderOf_nsmul (toPoint Pt.G) a, ← mod_addOrderOf_nsmul (toPoint Pt.G) b,
    addOrderOf_G prime_N, h]

/-- **Balance ⇒ tally accepts** (one generator): commitments `C_i = commit(b_i, v_i, gen)` to 64-bit values
    under one valid generator, with `Σpos b ≡ Σneg b (mod n)` and `Σpos v = Σneg v`, pass `verifyTally`. -/
theorem balance_if (gen : Pt) (hgen : gen.valid = true) (pos neg : List (Bytes × ℕ)) (cpos cneg : List Bytes)
    (hpos : Committed (pos.map fun e => (e.1, e.2, gen)) cpos)
    (hneg : Committed (neg.map fun e => (e.1, e.2, gen)) cneg)
    (hv : ∀ e ∈ pos ++ neg, e.2 < 2 ^ 64)
    (hb : (pos.map fun e => Bytes.toNat e.1).sum % N = (neg.map fun e => Bytes.toNat e.1).sum % N)
    (hval : (pos.map fun e => e.2).sum = (neg.map fun e => e.2).sum) :
    verifyTally cpos cneg = true := by
  have okp : OpeningsOk (pos.map fun e => (e.1, e.2, gen)) := by
    intro e he
    obtain ⟨e', he', rfl⟩ := List.mem_map.1 he
    exact ⟨hv e' (by simp [he']), hgen⟩
  have okn : OpeningsOk (neg.map fun e => (e.1, e.2, gen)) := by
    intro e he
    obtain ⟨e', he', rfl⟩ := List.mem_map.1 he
    exact ⟨hv e' (by simp [he']), hgen⟩
  rw [tally_commit_iff _ _ _ _ hpos hneg okp okn]
  have vt : ∀ l : List (Bytes × ℕ), valueTotal (l.map fun e => (e.1, e.2, gen)) =
      (l.map fun e => e.2).sum • toPoint gen := by
    intro l
    induction l with
    | nil => simp [valueTotal]
    | cons e l ih =>
      simp only [valueTotal, List.map_cons, List.sum_cons] at ih ⊢
      rw [ih, add_nsmul]
  have bt : ∀ l : List (Bytes × ℕ), blindTotal (l.map fun e => (e.1, e.2, gen)) =
      (l.map fun e => Bytes.toNat e.1).sum := by
    intro l; simp [blindTotal, List.map_map, Function.comp_def]
  rw [vt, vt, bt, bt, hval, nsmul_G_congr hb]

/- non-vacuity: `5 + 7 ≡ 12`, `3 + 4 = 7`, all commitments are created successfully, and the tally accepts -/
example : (do let c1 ← commit (Bytes.be32 5) 3 H; let c2 ← commit (Bytes.be32 7) 4 H
              let c3 ← commit (Bytes.be32 12) 7 H; pure (verifyTally [c1, c2] [c3])) = some true := by
  decide +kernel
/- blinding factors that balance only modulo `n`: `(n − 1) + 2 ≡ 1` -/
example : (do let c1 ← commit (Bytes.be32 (N - 1)) 3 H; let c2 ← commit (Bytes.be32 2) 4 H
              let c3 ← commit (Bytes.be32 1) 7 H; pure (verifyTally [c1, c2] [c3])) = some true := by
  decide +kernel

/-- total value committed under generator `g` in a list of openings -/
def valueUnder (es : List Opening) (g : Pt) : ℕ :=
  ((es.filter (fun e => e.2.2 = g)).map (fun e => e.2.1)).sum

/-- openings as a finitely supported map generator ↦ total value -/
noncomputable def valueFinsupp (es : List Opening) : Pt →₀ ℕ :=
  (es.map (fun e => Finsupp.single e.2.2 e.2.1)).sum

theorem valueFinsupp_apply (es : List Opening) (g : Pt) : valueFinsupp es g = valueUnder es g := by
  induction es with
  | nil => simp [valueFinsupp, valueUnder]
  | cons e es ih =>
    simp only [valueFinsupp, valueUnder, List.map_cons, List.sum_cons, Finsupp.add_apply,
      List.filter_cons] at ih ⊢
    rw [ih]
    by_cases h : e.2.2 = g
    · simp [h]
    · simp [h]

theorem valueTotal_eq_lift (es : List Opening) :
    valueTotal es =
      Finsupp.liftAddHom (fun g : Pt => multiplesHom W.Point (toPoint g)) (valueFinsupp es) := by
  induction es with
  | nil => simp [valueTotal, valueFinsupp]
  | cons e es ih =>
    simp only [valueTotal, valueFinsupp, List.map_cons, List.sum_cons, map_add] at ih ⊢
    rw [ih]
    simp

/-- If for every generator the committed values balance, the value parts of the two sides agree. -/
theorem valueTotal_congr {pos neg : List Opening} (h : ∀ g, valueUnder pos g = valueUnder neg g) :
    valueTotal pos = valueTotal neg := by
  rw [valueTotal_eq_lift, valueTotal_eq_lift]
  congr 1
  ext g
  rw [valueFinsupp_apply, valueFinsupp_apply, h]

/-- **Balance ⇒ tally accepts** (several assets in one tally): if the blinding factors balance modulo `n`
    and, *for each generator*, the values committed under it balance, `verifyTally` accepts. -/
theorem balance_if_mixed (pos neg : List Opening) (cpos cneg : List Bytes)
    (hpos : Committed pos cpos) (hneg : Committed neg cneg)
    (okp : OpeningsOk pos) (okn : OpeningsOk neg)
    (hb : blindTotal pos % N = blindTotal neg % N)
    (hval : ∀ g, valueUnder pos g = valueUnder neg g) :
    verifyTally cpos cneg = true := by
  rw [tally_commit_iff pos neg cpos cneg hpos hneg okp okn, valueTotal_congr hval, nsmul_G_congr hb]


/- non-vacuity: two assets (`H` and `G` as generators) in one tally, each balanced separately -/
example : (do let c1 ← commit (Bytes.be32 5) 3 H; let c2 ← commit (Bytes.be32 7) 4 Pt.G
              let c3 ← commit (Bytes.be32 2) 4 Pt.G; let c4 ← commit (Bytes.be32 10) 3 H
              pure (verifyTally [c1, c2] [c3, c4])) = some true := by
  decide +kernel

/-!
### The converse of `balance_if` is not a theorem

"`verifyTally` accepts ⇒ the values balance" is false as a mathematical statement: the group generated by
`G` has prime order, so a generator `gen = h•G` has other openings of the same commitment
(`(b, v)` and `(b − h·d, v + d)` commit to the same point).  It only holds computationally, under the
discrete-logarithm assumption for `gen` relative to `G`; an explicit hypothesis
`∀ a k, a•G + k•gen = ∞ → a ≡ 0 ∧ k ≡ 0` would be unsatisfiable for every `gen ∈ ⟨G⟩`, hence a theorem carrying it would
be vacuous, and it is omitted.  What IS exact is `tally_commit_iff` above.  The example below exhibits an
accepted tally with unbalanced values (`0` vs `1`) for the generator `gen = G`.
-/
example : (do let c1 ← commit (Bytes.be32 2) 0 Pt.G; let c2 ← commit (Bytes.be32 1) 1 Pt.G
              pure (verifyTally [c1] [c2])) = some true := by decide +kernel

end C08
end SecpZkp
