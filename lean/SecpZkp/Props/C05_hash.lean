import SecpZkp.Proofs.Sha256
/-
  Property C05 (hashing part): the streaming SHA-256 object of `hash_impl.h`
  (`secp256k1_sha256_initialize / _write / _finalize`, modelled by `init / write / finalize`), the tagged
  hash, HMAC-SHA-256 and the RFC 6979 generator equal their one-shot specifications for EVERY message
  length and EVERY way of splitting the input into writes.

  Specification side (L0): `sha256 msg = hashFrom iv 0 msg` pads the whole message once
  (FIPS 180-4 5.1.1) and folds `compress` over the 64-byte blocks.
  Implementation side: `write` has the three steps of the C function (complete a partial buffer, whole
  blocks straight from the input, buffer the rest); `finalize` writes the padding and the two 4-byte
  halves of the bit length (`bytes >> 29`, `bytes << 3`) through `write`.

  No size hypothesis is needed in the model: `finalize` and `padding` both keep the low 64 bits of
  the bit length (`sizedesc_eq`), so the two sides agree for every length.  (SHA-256 itself is only
  defined for fewer than 2^61 bytes, and the C code has `VERIFY_CHECK(hash->bytes < 2^61)`.)
-/
namespace SecpZkp
namespace Sha256

/-! ## 1. The invariant of `write` -/

/-- `Absorbed h pre`: the streaming state `h` is what one gets after the bytes `pre` have been
    written, however they were split: the buffer holds the last `|pre| % 64` bytes of `pre`, it is
    shorter than a block, the chaining value is `iv` after compressing the complete 64-byte blocks of
    `pre`, and the byte counter is `|pre|`. -/
def Absorbed (h : State) (pre : Bytes) : Prop :=
  h.buf = pre.drop (pre.length / 64 * 64) ∧
  h.buf.length < 64 ∧
  h.s = compressBlocks (pre.length / 64) iv (pre.take (pre.length / 64 * 64)) ∧
  h.bytes = pre.length

instance (h : State) (pre : Bytes) : Decidable (Absorbed h pre) := by
  unfold Absorbed; infer_instance

/-- `Absorbed` is the instance `s0 = iv`, `n0 = 0` of the helper invariant `AbsorbedFrom`. -/
theorem absorbed_iff (h : State) (pre : Bytes) : Absorbed h pre ↔ AbsorbedFrom iv 0 h pre := by
  have hs : compressBlocks (pre.length / 64) iv (pre.take (pre.length / 64 * 64)) = absorb iv pre := by
    rw [compressBlocks_eq_absorb _ _ _ (by simp only [List.length_take]; omega), absorb_take]
  constructor
  · rintro ⟨hb, _, hs', hn⟩
    exact ⟨hb, by rw [hs', hs], by rw [hn, Nat.zero_add]⟩
  · intro a
    exact ⟨a.buf, a.buf_lt, by rw [a.s, hs], by rw [a.bytes, Nat.zero_add]⟩

/-- The freshly initialised object has absorbed nothing. -/
theorem absorbed_init : Absorbed init [] := (absorbed_iff _ _).2 absorbedFrom_init

/-- **Invariant of `secp256k1_sha256_write`.** Whatever `data` is (empty, shorter than the free space
    in the buffer, exactly filling it, spanning many blocks, ...), writing it to a state that has
    absorbed `pre` gives a state that has absorbed `pre ++ data`.  All three steps of `write` are
    covered (`write_eq` in `Proofs/Sha256.lean` is the closed form). -/
theorem write_invariant (h : State) (pre data : Bytes) (hp : Absorbed h pre) :
    Absorbed (write h data) (pre ++ data) :=
  (absorbed_iff _ _).2 (absorbedFrom_write ((absorbed_iff _ _).1 hp) data)

/-- The invariant over a whole sequence of writes. -/
theorem writeAll_invariant (h : State) (pre : Bytes) (chunks : List Bytes) (hp : Absorbed h pre) :
    Absorbed (writeAll h chunks) (pre ++ chunks.flatten) :=
  (absorbed_iff _ _).2 (absorbedFrom_writeAll ((absorbed_iff _ _).1 hp) chunks)

/-- The buffer fill level the model keeps (`h.buf.length`) is the `hash->bytes & 0x3F` of the C code. -/
theorem absorbed_bufsize (h : State) (pre : Bytes) (hp : Absorbed h pre) :
    h.buf.length = h.bytes % 64 := by
  obtain ⟨hb, _, _, hn⟩ := hp
  rw [hb, hn, List.length_drop]; omega

/-- Non-vacuity: a state with a non-empty buffer (30 bytes) satisfies the hypothesis; the write of
    40 more bytes then exercises step 1 and step 3 (checked independently by evaluation). -/
example : Absorbed (write init (List.replicate 30 7)) (List.replicate 30 7) := by decide +kernel
example : Absorbed (write (write init (List.replicate 30 7)) (List.replicate 40 9))
    (List.replicate 30 7 ++ List.replicate 40 9) := by decide +kernel

/-! ## 2. Streaming = one-shot -/

/-- **Streaming SHA-256 equals the one-shot specification**, for every list of chunks (every total
    length, every split, empty chunks included). -/
theorem streaming_eq_oneshot (chunks : List Bytes) :
    finalize (writeAll init chunks) = sha256 chunks.flatten := by
  have h := finalize_eq (absorbedFrom_writeAll absorbedFrom_init chunks)
  simpa [sha256] using h

/-- The digest depends only on the concatenation of the writes, not on how it was split. -/
theorem split_independent (chunks₁ chunks₂ : List Bytes) (h : chunks₁.flatten = chunks₂.flatten) :
    finalize (writeAll init chunks₁) = finalize (writeAll init chunks₂) := by
  rw [streaming_eq_oneshot, streaming_eq_oneshot, h]

/-- Non-vacuity of `split_independent`: two different splittings of the same 5 bytes. -/
example : ([[1, 2], [], [3, 4, 5]] : List Bytes).flatten = ([[1], [2, 3, 4], [5]] : List Bytes).flatten := by
  decide

/-- Single `write` then `finalize` (the most common call pattern in the library). -/
theorem write_finalize (msg : Bytes) : finalize (write init msg) = sha256 msg := by
  simpa [writeAll] using streaming_eq_oneshot [msg]

/-- The general form: finalising any state that has absorbed `pre` gives `sha256 pre`. -/
theorem finalize_of_absorbed (h : State) (pre : Bytes) (hp : Absorbed h pre) :
    finalize h = sha256 pre :=
  finalize_eq ((absorbed_iff _ _).1 hp)

/-- Digests are 32 bytes. -/
theorem sha256_length (msg : Bytes) : (sha256 msg).length = 32 := length_sha256 msg

/-! ## 3. Midstates and tagged hashes -/

/-- Starting from a hard-coded midstate with byte counter `n0`: streaming equals the one-shot
    `hashFrom st n0` specification. -/
theorem midstate_eq_hashFrom (n0 : Nat) (st : H8) (chunks : List Bytes) :
    finalize (writeAll (initMidstate n0 st) chunks) = hashFrom st n0 chunks.flatten := by
  have h := finalize_eq (absorbedFrom_writeAll (absorbedFrom_midstate st n0) chunks)
  simpa using h

/-- **Midstate.** If `st` is the chaining value after the 64-byte `block`, then starting the
    streaming object at `initMidstate 64 st` and writing `chunks` gives the SHA-256 of
    `block ++ chunks.flatten`. -/
theorem midstate_eq (st : H8) (block : Bytes) (chunks : List Bytes)
    (hlen : block.length = 64) (hst : st = compress iv block) :
    finalize (writeAll (initMidstate 64 st) chunks) = sha256 (block ++ chunks.flatten) := by
  rw [midstate_eq_hashFrom, hst]
  have := hashFrom_compress iv 0 block chunks.flatten hlen
  simpa [sha256] using this

/-- Non-vacuity of `midstate_eq`: a concrete 64-byte block satisfies the hypotheses, and the
    conclusion is confirmed independently by evaluation for one chunking. -/
example : (List.replicate 64 (0x11 : UInt8)).length = 64 := by decide
example :
    finalize (writeAll (initMidstate 64 (compress iv (List.replicate 64 0x11))) [[1, 2], [3]])
      = sha256 (List.replicate 64 0x11 ++ [1, 2, 3]) := by decide +kernel

/-- `secp256k1_sha256_initialize_tagged` leaves the object exactly in the midstate after the block
    `SHA256(tag) ‖ SHA256(tag)`: empty buffer, 64 bytes counted. -/
theorem initTagged_eq_midstate (tag : Bytes) :
    initTagged tag = initMidstate 64 (compress iv (sha256 tag ++ sha256 tag)) := by
  have hl : (sha256 tag ++ sha256 tag).length = 64 := by simp [length_sha256]
  have a := absorbedFrom_write (absorbedFrom_write absorbedFrom_init (sha256 tag)) (sha256 tag)
  have hc : absorb iv (sha256 tag ++ sha256 tag) = compress iv (sha256 tag ++ sha256 tag) := by
    have := absorb_block_append iv (sha256 tag ++ sha256 tag) [] hl
    rw [List.append_nil] at this
    rw [this, absorb_short _ _ (by simp)]
  have hb := a.buf
  have hs := a.s
  have hn := a.bytes
  simp only [List.nil_append] at hb hs hn
  rw [tail64, hl] at hb
  rw [hc] at hs
  rw [hl] at hn
  show write (write init (sha256 tag)) (sha256 tag) = _
  generalize write (write init (sha256 tag)) (sha256 tag) = w at hb hs hn
  have hb' : w.buf = [] := by
    rw [hb]; apply List.drop_eq_nil_of_le; rw [hl]; decide
  cases w
  simp only at hb' hs hn
  subst hb' hs hn
  rfl

/-- Writes after `initTagged`: the result is the SHA-256 of `SHA256(tag) ‖ SHA256(tag) ‖ data`. -/
theorem tagged_chunks_spec (tag : Bytes) (chunks : List Bytes) :
    finalize (writeAll (initTagged tag) chunks) =
      sha256 (sha256 tag ++ sha256 tag ++ chunks.flatten) := by
  have h := streaming_eq_oneshot (sha256 tag :: sha256 tag :: chunks)
  simpa [writeAll, initTagged, List.append_assoc] using h

/-- **BIP-340 tagged hash.** -/
theorem tagged_spec (tag msg : Bytes) :
    tagged tag msg = sha256 (sha256 tag ++ sha256 tag ++ msg) := by
  simpa [writeAll, tagged] using tagged_chunks_spec tag [msg]

/-! ## 4. HMAC-SHA-256 and the RFC 6979 generator -/

/-- The 64-byte key block of RFC 2104: short keys are zero padded, long keys are hashed first. -/
def hmacKeyBlock (key : Bytes) : Bytes :=
  if key.length ≤ 64 then key ++ Bytes.zeros (64 - key.length) else sha256 key ++ Bytes.zeros 32

theorem hmacKeyBlock_length (key : Bytes) : (hmacKeyBlock key).length = 64 := by
  unfold hmacKeyBlock
  split
  · simp [Bytes.zeros]; omega
  · simp [Bytes.zeros, length_sha256]

/-- **RFC 2104.** `hmac` is by definition `H((K' ⊕ opad) ‖ H((K' ⊕ ipad) ‖ msg))` over the one-shot
    `sha256` (documentation lemma, true by unfolding). -/
theorem hmac_spec (key msg : Bytes) :
    hmac key msg =
      sha256 ((hmacKeyBlock key).map (· ^^^ 0x5c) ++
        sha256 ((hmacKeyBlock key).map (· ^^^ 0x36) ++ msg)) := rfl

/-- The way `secp256k1_hmac_sha256_{initialize,write,finalize}` compute it — two streaming objects
    `inner` and `outer`, the message written in arbitrary pieces, a long key hashed by a third
    streaming object — gives the same value. -/
theorem hmac_streaming (key : Bytes) (chunks : List Bytes) :
    let rkey := if key.length ≤ 64 then key ++ Bytes.zeros (64 - key.length)
                else finalize (write init key) ++ Bytes.zeros 32
    let outer := write init (rkey.map (· ^^^ 0x5c))
    let inner := write init (rkey.map (· ^^^ 0x36))
    finalize (write outer (finalize (writeAll inner chunks))) = hmac key chunks.flatten := by
  intro rkey outer inner
  have hr : rkey = hmacKeyBlock key := by
    simp only [rkey, hmacKeyBlock, write_finalize]
  have hin : finalize (writeAll inner chunks) =
      sha256 ((hmacKeyBlock key).map (· ^^^ 0x36) ++ chunks.flatten) := by
    have := streaming_eq_oneshot ((rkey.map (· ^^^ 0x36)) :: chunks)
    simpa [writeAll, inner, hr] using this
  have hout : ∀ d, finalize (write outer d) = sha256 ((hmacKeyBlock key).map (· ^^^ 0x5c) ++ d) := by
    intro d
    have := streaming_eq_oneshot [rkey.map (· ^^^ 0x5c), d]
    simpa [writeAll, outer, hr] using this
  rw [hin, hout, hmac_spec]

theorem hmac_length (key msg : Bytes) : (hmac key msg).length = 32 := length_hmac key msg

/-- **RFC 6979 section 3.2, steps b–g** (HMAC_DRBG instantiate): `rfc6979Init` is by definition
    `V = 01..01, K = 00..00, K = HMAC_K(V‖00‖seed), V = HMAC_K(V), K = HMAC_K(V‖01‖seed), V = HMAC_K(V)`. -/
theorem rfc6979Init_spec (seed : Bytes) :
    let v0 : Bytes := List.replicate 32 1
    let k0 : Bytes := List.replicate 32 0
    let k1 := hmac k0 (v0 ++ [0] ++ seed)
    let v1 := hmac k1 v0
    let k2 := hmac k1 (v1 ++ [1] ++ seed)
    let v2 := hmac k2 v1
    (rfc6979Init seed).v = v2 ∧ (rfc6979Init seed).k = k2 ∧ (rfc6979Init seed).retry = false :=
  ⟨rfl, rfl, rfl⟩

/-- **RFC 6979 section 3.2 step h**, first call, at most one HMAC output requested:
    the output is the prefix of `V = HMAC_K(V)`. -/
theorem rfc6979Generate_first (seed : Bytes) (n : Nat) (hn : 0 < n) (hn' : n ≤ 32) :
    (rfc6979Generate (rfc6979Init seed) n).1 =
      (hmac (rfc6979Init seed).k (rfc6979Init seed).v).take n := by
  have hf : n / 32 + 1 = (n / 32) + 1 := rfl
  have h0 : n ≠ 0 := by omega
  have hle : ¬ n > 32 := by omega
  have hfuel : n / 32 = 0 ∨ n / 32 = 1 := by omega
  have hret : (rfc6979Init seed).retry = false := rfl
  unfold rfc6979Generate
  simp only [hret]
  rcases hfuel with hq | hq <;>
    simp [hq, rfc6979GenLoop, h0, hle]

/-- The generator returns exactly the number of bytes asked for, for every request size and state. -/
theorem rfc6979Generate_length (r : Rfc6979) (n : Nat) : (rfc6979Generate r n).1.length = n := by
  unfold rfc6979Generate
  simp only
  split <;> (rw [length_rfc6979GenLoop _ _ _ _ _ (by omega)]; simp)

/-! ## 5. Known answers, evaluated by the kernel

Each vector is computed through the one-shot specification AND through the streaming object with a
non-trivial chunking. -/

section KnownAnswers

/-- "abcdbcdecdefdefgefghfghighijhijkijkljklmklmnlmnomnopnopq" (56 bytes, FIPS 180-4 / NIST two-block message). -/
def nist56 : Bytes :=
  [0x61, 0x62, 0x63, 0x64, 0x62, 0x63, 0x64, 0x65, 0x63, 0x64, 0x65, 0x66, 0x64, 0x65, 0x66, 0x67,
   0x65, 0x66, 0x67, 0x68, 0x66, 0x67, 0x68, 0x69, 0x67, 0x68, 0x69, 0x6a, 0x68, 0x69, 0x6a, 0x6b,
   0x69, 0x6a, 0x6b, 0x6c, 0x6a, 0x6b, 0x6c, 0x6d, 0x6b, 0x6c, 0x6d, 0x6e, 0x6c, 0x6d, 0x6e, 0x6f,
   0x6d, 0x6e, 0x6f, 0x70, 0x6e, 0x6f, 0x70, 0x71]

def kat_empty : Bytes :=
  [0xe3, 0xb0, 0xc4, 0x42, 0x98, 0xfc, 0x1c, 0x14, 0x9a, 0xfb, 0xf4, 0xc8, 0x99, 0x6f, 0xb9, 0x24,
   0x27, 0xae, 0x41, 0xe4, 0x64, 0x9b, 0x93, 0x4c, 0xa4, 0x95, 0x99, 0x1b, 0x78, 0x52, 0xb8, 0x55]

def kat_abc : Bytes :=
  [0xba, 0x78, 0x16, 0xbf, 0x8f, 0x01, 0xcf, 0xea, 0x41, 0x41, 0x40, 0xde, 0x5d, 0xae, 0x22, 0x23,
   0xb0, 0x03, 0x61, 0xa3, 0x96, 0x17, 0x7a, 0x9c, 0xb4, 0x10, 0xff, 0x61, 0xf2, 0x00, 0x15, 0xad]

def kat_nist56 : Bytes :=
  [0x24, 0x8d, 0x6a, 0x61, 0xd2, 0x06, 0x38, 0xb8, 0xe5, 0xc0, 0x26, 0x93, 0x0c, 0x3e, 0x60, 0x39,
   0xa3, 0x3c, 0xe4, 0x59, 0x64, 0xff, 0x21, 0x67, 0xf6, 0xec, 0xed, 0xd4, 0x19, 0xdb, 0x06, 0xc1]

-- SHA-256("")
example : sha256 [] = kat_empty := by decide +kernel
example : finalize init = kat_empty := by decide +kernel
example : finalize (writeAll init [[], [], []]) = kat_empty := by decide +kernel

-- SHA-256("abc")
example : sha256 [0x61, 0x62, 0x63] = kat_abc := by decide +kernel
example : finalize (writeAll init [[0x61], [], [0x62, 0x63]]) = kat_abc := by decide +kernel

-- SHA-256 of the 56-byte message (padding spills into a second block)
example : sha256 nist56 = kat_nist56 := by decide +kernel
example : finalize (writeAll init [nist56.take 1, (nist56.drop 1).take 30, nist56.drop 31]) = kat_nist56 := by
  decide +kernel

-- A 150-byte message written as 10 + 54 (completes the buffer exactly) + 80 (whole block from the
-- input plus a rest) + 6: all three steps of `write` are executed, and both computations agree.
example :
    finalize (writeAll init [List.replicate 10 1, List.replicate 54 2, List.replicate 80 3, List.replicate 6 4])
      = sha256 (List.replicate 10 1 ++ List.replicate 54 2 ++ List.replicate 80 3 ++ List.replicate 6 4) := by
  decide +kernel

/-- RFC 4231 test case 2: key "Jefe", data "what do ya want for nothing?". -/
def jefe : Bytes := [0x4a, 0x65, 0x66, 0x65]
def whatDoYaWant : Bytes :=
  [0x77, 0x68, 0x61, 0x74, 0x20, 0x64, 0x6f, 0x20, 0x79, 0x61, 0x20, 0x77, 0x61, 0x6e, 0x74, 0x20,
   0x66, 0x6f, 0x72, 0x20, 0x6e, 0x6f, 0x74, 0x68, 0x69, 0x6e, 0x67, 0x3f]
def kat_hmac2 : Bytes :=
  [0x5b, 0xdc, 0xc1, 0x46, 0xbf, 0x60, 0x75, 0x4e, 0x6a, 0x04, 0x24, 0x26, 0x08, 0x95, 0x75, 0xc7,
   0x5a, 0x00, 0x3f, 0x08, 0x9d, 0x27, 0x39, 0x83, 0x9d, 0xec, 0x58, 0xb9, 0x64, 0xec, 0x38, 0x43]

example : hmac jefe whatDoYaWant = kat_hmac2 := by decide +kernel

-- the same through the streaming objects, as `secp256k1_hmac_sha256_*` does it, message in 3 pieces
example :
    let rkey := jefe ++ Bytes.zeros 60
    let outer := write init (rkey.map (· ^^^ 0x5c))
    let inner := write init (rkey.map (· ^^^ 0x36))
    finalize (write outer (finalize (writeAll inner
      [whatDoYaWant.take 5, (whatDoYaWant.drop 5).take 20, whatDoYaWant.drop 25]))) = kat_hmac2 := by
  decide +kernel

/-- RFC 4231 test case 6: a 131-byte key (hashed first),
    data "Test Using Larger Than Block-Size Key - Hash Key First". -/
def hashKeyFirst : Bytes :=
  [0x54, 0x65, 0x73, 0x74, 0x20, 0x55, 0x73, 0x69, 0x6e, 0x67, 0x20, 0x4c, 0x61, 0x72, 0x67, 0x65,
   0x72, 0x20, 0x54, 0x68, 0x61, 0x6e, 0x20, 0x42, 0x6c, 0x6f, 0x63, 0x6b, 0x2d, 0x53, 0x69, 0x7a,
   0x65, 0x20, 0x4b, 0x65, 0x79, 0x20, 0x2d, 0x20, 0x48, 0x61, 0x73, 0x68, 0x20, 0x4b, 0x65, 0x79,
   0x20, 0x46, 0x69, 0x72, 0x73, 0x74]
def kat_hmac6 : Bytes :=
  [0x60, 0xe4, 0x31, 0x59, 0x1e, 0xe0, 0xb6, 0x7f, 0x0d, 0x8a, 0x26, 0xaa, 0xcb, 0xf5, 0xb7, 0x7f,
   0x8e, 0x0b, 0xc6, 0x21, 0x37, 0x28, 0xc5, 0x14, 0x05, 0x46, 0x04, 0x0f, 0x0e, 0xe3, 0x7f, 0x54]

example : hmac (List.replicate 131 0xaa) hashKeyFirst = kat_hmac6 := by decide +kernel

/-- BIP-340 tag "BIP0340/challenge" applied to "abc" (reference value from Python `hashlib`). -/
def tagChallenge : Bytes :=
  [0x42, 0x49, 0x50, 0x30, 0x33, 0x34, 0x30, 0x2f, 0x63, 0x68, 0x61, 0x6c, 0x6c, 0x65, 0x6e, 0x67, 0x65]

example : tagged tagChallenge [0x61, 0x62, 0x63] =
    [0x77, 0x0a, 0x5b, 0x7e, 0x7c, 0x30, 0x4b, 0xbc, 0xc3, 0xea, 0x10, 0x73, 0x43, 0xff, 0x95, 0x1d,
     0xd4, 0x04, 0x31, 0x2e, 0xf4, 0x18, 0xdb, 0x0c, 0x3b, 0x94, 0xe2, 0xeb, 0xfb, 0xb5, 0x00, 0x87] := by
  decide +kernel

/-- The midstate hard-coded in `secp256k1_schnorrsig_sha256_tagged`
    (`/repo/src/modules/schnorrsig/main_impl.h`) is the state `initTagged "BIP0340/challenge"`. -/
example :
    (initTagged tagChallenge).s =
      ⟨0x9cecba11, 0x23925381, 0x11679112, 0xd1627e0f, 0x97c87550, 0x003cc765, 0x90f61164, 0x33e9b66a⟩
    ∧ (initTagged tagChallenge).buf = [] ∧ (initTagged tagChallenge).bytes = 64 := by
  decide +kernel

/-- RFC 6979 appendix A.2.5 (P-256, SHA-256, message "sample"): the seed is
    `int2octets(x) ‖ bits2octets(SHA-256("sample"))`, and the first 32 bytes generated are the nonce
    `k = A6E3C57DD01ABE90086538398355DD4C3B17AA873382B0F24D6129493D8AAD60`. -/
def rfc6979Seed : Bytes :=
  [0xc9, 0xaf, 0xa9, 0xd8, 0x45, 0xba, 0x75, 0x16, 0x6b, 0x5c, 0x21, 0x57, 0x67, 0xb1, 0xd6, 0x93,
   0x4e, 0x50, 0xc3, 0xdb, 0x36, 0xe8, 0x9b, 0x12, 0x7b, 0x8a, 0x62, 0x2b, 0x12, 0x0f, 0x67, 0x21,
   0xaf, 0x2b, 0xdb, 0xe1, 0xaa, 0x9b, 0x6e, 0xc1, 0xe2, 0xad, 0xe1, 0xd6, 0x94, 0xf4, 0x1f, 0xc7,
   0x1a, 0x83, 0x1d, 0x02, 0x68, 0xe9, 0x89, 0x15, 0x62, 0x11, 0x3d, 0x8a, 0x62, 0xad, 0xd1, 0xbf]

example : (rfc6979Generate (rfc6979Init rfc6979Seed) 32).1 =
    [0xa6, 0xe3, 0xc5, 0x7d, 0xd0, 0x1a, 0xbe, 0x90, 0x08, 0x65, 0x38, 0x39, 0x83, 0x55, 0xdd, 0x4c,
     0x3b, 0x17, 0xaa, 0x87, 0x33, 0x82, 0xb0, 0xf2, 0x4d, 0x61, 0x29, 0x49, 0x3d, 0x8a, 0xad, 0x60] := by
  decide +kernel

end KnownAnswers

end Sha256
end SecpZkp
