/-
  C11 (part "codec"): the surjection-proof encoding is canonical.

  `secp256k1_surjectionproof_parse` (`Surjection.parse`, src/modules/surjection/main_impl.h:46-84)
  accepts EXACTLY the byte strings
      n_inputs (2 bytes, little endian) ‖ bitmap ((n_inputs+7)/8 bytes) ‖ e0 ‖ s_1 ‖ … ‖ s_k
  with `n_inputs ≤ 256`, no bitmap bit set at a position `≥ n_inputs`, and `k` = the number of set
  bitmap bits; `secp256k1_surjectionproof_serialize` round-trips with it; a parsed object respects the
  sizes of the C arrays (`used_inputs[32]`, `data[8224]`).

  All statements are for ALL byte strings of ALL lengths and all prior contents of the object.
  Remark (not a defect of the encoding): `n_inputs = 0` IS accepted by the parser (the string
  `00 00 ‖ e0`); such a proof has no used input and is rejected by verification.
-/
import SecpZkp.Proofs.Parsers

namespace SecpZkp
namespace C11

open Surjection Parsers

/-! ### the canonical form -/

/-- The canonical serialized form of a surjection proof, as a decidable predicate on byte strings:
at least the 2-byte count `n = le16 bs`, `n ≤ 256`, the `(n+7)/8` bitmap bytes are present, no bitmap
bit at a position `≥ n` is set, and the total length is exactly
`2 + (n+7)/8 + 32 * (1 + popcount(bitmap))`. -/
def Canonical (bs : Bytes) : Prop :=
  2 ≤ bs.length ∧ le16 bs ≤ 256 ∧ 2 + bitmapLen (le16 bs) ≤ bs.length ∧
  NoPadding (le16 bs) ((bs.drop 2).take (bitmapLen (le16 bs))) ∧
  bs.length = 2 + bitmapLen (le16 bs) + 32 * (1 + countBitsSet (bs.drop 2) (bitmapLen (le16 bs)))

instance (bs : Bytes) : Decidable (Canonical bs) := by unfold Canonical; infer_instance

/-- The object a successful parse of `bs` leaves behind (bytes of the arrays that the parser does not
overwrite keep their `prior` content, as in C). -/
def parsedObj (bs : Bytes) (prior : Proof) : Proof :=
  { nInputs := le16 bs
    used := (bs.drop 2).take (bitmapLen (le16 bs)) ++ prior.used.drop (bitmapLen (le16 bs))
    data := (bs.drop (2 + bitmapLen (le16 bs))).take
                (32 * (1 + countBitsSet (bs.drop 2) (bitmapLen (le16 bs))))
            ++ prior.data.drop (32 * (1 + countBitsSet (bs.drop 2) (bitmapLen (le16 bs)))) }

/-- The parser as a single case distinction: canonical input ↦ `(1, parsedObj)`, anything else ↦
`(0, object untouched)`. -/
theorem surj_parse_eq (bs : Bytes) (prior : Proof) :
    parse bs prior = if Canonical bs then (1, parsedObj bs prior) else (0, prior) := by
  have hM : MAX_N_INPUTS = 256 := rfl
  rw [surj_parse_unfold]
  by_cases h1 : bs.length < 2
  · rw [if_pos h1, if_neg (fun h => by have := h.1; omega)]
  rw [if_neg h1]
  by_cases h2 : le16 bs > MAX_N_INPUTS
  · rw [if_pos h2, if_neg (fun h => by have := h.2.1; omega)]
  rw [if_neg h2]
  by_cases h3 : bs.length < 2 + bitmapLen (le16 bs)
  · rw [if_pos h3, if_neg (fun h => by have := h.2.2.1; omega)]
  rw [if_neg h3]
  by_cases h4 : padBad bs (le16 bs) = true
  · rw [if_pos h4, if_neg (fun h => (padBad_iff _ _).1 h4 h.2.2.2.1)]
  rw [if_neg h4]
  by_cases h5 : bs.length ≠ 2 + bitmapLen (le16 bs) + 32 * (1 + countBitsSet (bs.drop 2) (bitmapLen (le16 bs)))
  · rw [if_pos h5, if_neg (fun h => h5 h.2.2.2.2)]
  rw [if_neg h5]
  have hnp : NoPadding (le16 bs) ((bs.drop 2).take (bitmapLen (le16 bs))) := by
    apply Classical.byContradiction
    intro hn
    exact h4 ((padBad_iff _ _).2 hn)
  rw [if_pos ⟨by omega, by omega, by omega, hnp, by omega⟩]
  rfl

/-- **`surj_parse_iff`: the parser accepts exactly the canonical encodings.** For every byte string
`bs` of any length (and any prior content of the output object), `secp256k1_surjectionproof_parse`
returns 1 if and only if: `bs.length ≥ 2`; `n = le16 bs ≤ 256`; the `(n+7)/8` bitmap bytes are there;
no bit at a position `≥ n` is set in the bitmap (no padding bits); and the total length equals
`2 + (n+7)/8 + 32 * (1 + number of set bitmap bits)` exactly. -/
theorem surj_parse_iff (bs : Bytes) (prior : Proof) :
    (parse bs prior).1 = 1 ↔
      2 ≤ bs.length ∧ le16 bs ≤ 256 ∧ 2 + bitmapLen (le16 bs) ≤ bs.length ∧
      (∀ i, i < 8 * bitmapLen (le16 bs) → le16 bs ≤ i →
          testBit ((bs.drop 2).take (bitmapLen (le16 bs))) i = false) ∧
      bs.length = 2 + bitmapLen (le16 bs) + 32 * (1 + countBitsSet (bs.drop 2) (bitmapLen (le16 bs))) := by
  rw [surj_parse_eq]
  show _ ↔ Canonical bs
  by_cases h : Canonical bs
  · simp [h]
  · simp [h]

/-- The number `countBitsSet bitmap len` that enters the length formula is the number of bit positions
`i < 8 * len` at which the bitmap has a set bit (`testBit`, the test used by generation and
verification to select inputs). -/
theorem surj_popcount_meaning (bitmap : Bytes) (len : Nat) (h : len ≤ bitmap.length) :
    countBitsSet bitmap len = ((List.range (8 * len)).filter (fun i => testBit bitmap i)).length :=
  countBitsSet_eq_filter bitmap len h

/-- The parser returns only 0 or 1, and on 0 the output object is untouched. -/
theorem surj_parse_ret01 (bs : Bytes) (prior : Proof) :
    ((parse bs prior).1 = 0 ∧ (parse bs prior).2 = prior) ∨ (parse bs prior).1 = 1 := by
  rw [surj_parse_eq]
  by_cases h : Canonical bs <;> simp [h]

/-- Accepted: 3 inputs, bitmap `0b101` (two used inputs), 2 + 1 + 96 bytes.  Rejected: the same with
padding bit 3 set; one byte shorter; one byte longer; a length for the wrong popcount.  Accepted:
`n_inputs = 0` with the bare `e0`, and `n_inputs = 256` (count bytes `00 01`) with an empty bitmap
selection. -/
example : (parse ([3, 0, 0b101] ++ List.replicate 96 7)).1 = 1 := by decide +kernel
example : (parse ([3, 0, 0b1101] ++ List.replicate 96 7)).1 = 0 := by decide +kernel
example : (parse ([3, 0, 0b1101] ++ List.replicate 128 7)).1 = 0 := by decide +kernel
example : (parse ([3, 0, 0b101] ++ List.replicate 95 7)).1 = 0 := by decide +kernel
example : (parse ([3, 0, 0b101] ++ List.replicate 97 7)).1 = 0 := by decide +kernel
example : (parse ([3, 0, 0b101] ++ List.replicate 64 7)).1 = 0 := by decide +kernel
example : (parse ([0, 0] ++ List.replicate 32 7)).1 = 1 := by decide +kernel
example : (parse ([0, 1] ++ List.replicate 32 0 ++ List.replicate 32 7)).1 = 1 := by decide +kernel
example : Canonical ([3, 0, 0b101] ++ List.replicate 96 7) :=
  (surj_parse_iff _ Proof.zero).1 (by decide)

/-! ### bounds -/

/-- number of used inputs of a parsed object = popcount of the serialized bitmap -/
theorem nUsed_parsedObj (bs : Bytes) (prior : Proof) (h : 2 + bitmapLen (le16 bs) ≤ bs.length) :
    nUsedInputs (parsedObj bs prior) = countBitsSet (bs.drop 2) (bitmapLen (le16 bs)) := by
  unfold nUsedInputs parsedObj
  simp only []
  rw [countBitsSet_append _ _ _ (by simp [List.length_take]; omega), countBitsSet_take]

/-- **Bounds after a successful parse** (`secp256k1_surjectionproof` has `used_inputs[32]` and
`data[32 * 257]`): `n_inputs ≤ 256`, the number of used inputs is at most `n_inputs`, the `e0 ‖ s_i`
block written into `data` has `32 * (1 + n_used) ≤ 8224` bytes, the bitmap written into `used_inputs`
has at most 32 bytes, and `serialized_size` of the object is the input length. -/
theorem surj_parse_bounds (bs : Bytes) (prior : Proof) (h : (parse bs prior).1 = 1) :
    nTotalInputs (parse bs prior).2 ≤ 256 ∧
    nUsedInputs (parse bs prior).2 ≤ nTotalInputs (parse bs prior).2 ∧
    32 * (1 + nUsedInputs (parse bs prior).2) ≤ DATA_BYTES ∧
    bitmapLen (nTotalInputs (parse bs prior).2) ≤ USED_BYTES ∧
    serializedSize (parse bs prior).2 = bs.length := by
  rw [surj_parse_eq] at h ⊢
  by_cases hc : Canonical bs
  · rw [if_pos hc]
    obtain ⟨h1, h2, h3, h4, h5⟩ := hc
    have hu := nUsed_parsedObj bs prior h3
    have hle : countBitsSet (bs.drop 2) (bitmapLen (le16 bs)) ≤ le16 bs := by
      rw [← countBitsSet_take]
      exact countBitsSet_le_of_noPadding _ _ (by simp [List.length_take]; omega) h4
    have hbl : bitmapLen (le16 bs) ≤ 32 := by unfold bitmapLen; omega
    simp only [serializedSize, nTotalInputs, hu, DATA_BYTES, USED_BYTES]
    simp only [parsedObj]
    omega
  · rw [if_neg hc] at h; simp at h

/-- **Corollary: 257 … 263 inputs are rejected** (the mutant that lets the parser accept up to 263
inputs - `(263+7)/8 = 33` bitmap bytes, overrunning `used_inputs[32]` - is excluded), and so is every
larger count, whatever the rest of the input is. -/
theorem surj_parse_rejects_gt_256 (bs : Bytes) (prior : Proof) (h : 257 ≤ le16 bs) :
    parse bs prior = (0, prior) := by
  rw [surj_parse_eq, if_neg (fun hc => by have := hc.2.1; omega)]

example : le16 ([1, 1] ++ List.replicate 1000 0) = 257 := by decide
example : le16 ([7, 1] ++ List.replicate 1000 0) = 263 := by decide
example : parse ([7, 1] ++ List.replicate 33 0 ++ List.replicate 32 0) = (0, Proof.zero) :=
  surj_parse_rejects_gt_256 _ _ (by decide)

/-! ### well-formed objects -/

/-- Well-formedness of a surjection-proof object: the C array sizes, `n_inputs ≤ 256`, no bit at a
position `≥ n_inputs` in the bitmap (hence `n_used ≤ n_inputs ≤ 256`, so every scalar
`data[32 + 32*i ..]`, `i < n_used`, lies inside `data`). -/
def ProofValid (p : Proof) : Prop :=
  p.nInputs ≤ MAX_N_INPUTS ∧ p.used.length = USED_BYTES ∧ p.data.length = DATA_BYTES ∧
  NoPadding p.nInputs p.used

instance (p : Proof) : Decidable (ProofValid p) := by unfold ProofValid; infer_instance

/-- in a well-formed object `n_used ≤ n_inputs` and the used part of `data` is inside the array -/
theorem ProofValid.nUsed_le {p : Proof} (h : ProofValid p) :
    nUsedInputs p ≤ p.nInputs ∧ 32 * (1 + nUsedInputs p) ≤ p.data.length := by
  obtain ⟨h1, h2, h3, h4⟩ := h
  have hM : MAX_N_INPUTS = 256 := rfl
  have hbl : bitmapLen p.nInputs ≤ 32 := by unfold bitmapLen; omega
  have := countBitsSet_le_of_noPadding p.nInputs p.used (by rw [h2]; exact hbl) h4
  unfold nUsedInputs
  rw [h3]; simp only [DATA_BYTES]; omega

/-- **Closure (C07 d): a successful parse into a well-sized object yields a well-formed object.** -/
theorem surj_parse_valid (bs : Bytes) (prior : Proof) (hu : prior.used.length = USED_BYTES)
    (hd : prior.data.length = DATA_BYTES) (h : (parse bs prior).1 = 1) :
    ProofValid (parse bs prior).2 := by
  rw [surj_parse_eq] at h ⊢
  by_cases hc : Canonical bs
  · rw [if_pos hc]
    show ProofValid (parsedObj bs prior)
    have hb := surj_parse_bounds bs prior (by rw [surj_parse_eq, if_pos hc])
    rw [surj_parse_eq, if_pos hc] at hb
    obtain ⟨h1, h2, h3, h4, h5⟩ := hc
    simp only [nTotalInputs, DATA_BYTES, USED_BYTES] at hb
    have hnu := nUsed_parsedObj bs prior h3
    rw [hnu] at hb
    simp only [parsedObj] at hb
    refine ⟨h2, ?_, ?_, ?_⟩
    · simp only [parsedObj, List.length_append, List.length_take, List.length_drop, hu, USED_BYTES]
      omega
    · simp only [parsedObj, List.length_append, List.length_take, List.length_drop, hd, DATA_BYTES]
      omega
    · refine noPadding_congr _ _ _ (fun j hj => ?_) h4
      have hj' : j < bitmapLen (le16 bs) := hj
      simp only [parsedObj]
      rw [getD_append_left _ _ _ (by simp [List.length_take]; omega)]
  · rw [if_neg hc] at h; simp at h

example : ProofValid Proof.zero := by decide +kernel
example : ProofValid (parse ([3, 0, 0b101] ++ List.replicate 96 7)).2 := by decide +kernel

/-! ### round trips -/

/-- count bytes ‖ next `c` bytes ‖ rest = the whole string -/
theorem bytes_split2 (bs : Bytes) (h : 2 ≤ bs.length) (c : Nat) :
    [UInt8.ofNat (le16 bs % 0x100), UInt8.ofNat (le16 bs / 0x100)] ++ (bs.drop 2).take c ++ bs.drop (2 + c) = bs := by
  match bs, h with
  | b0 :: b1 :: rest, _ =>
    have e0 : le16 (b0 :: b1 :: rest) % 256 = b0.toNat := by
      have := u8_toNat_lt b0; simp only [le16, List.getD_cons_zero, List.getD_cons_succ]; omega
    have e1 : le16 (b0 :: b1 :: rest) / 256 = b1.toNat := by
      have := u8_toNat_lt b0; simp only [le16, List.getD_cons_zero, List.getD_cons_succ]; omega
    simp only [e0, e1, UInt8.ofNat_toNat, List.drop_succ_cons, List.drop_zero]
    rw [show 2 + c = c + 1 + 1 by omega]
    simp only [List.drop_succ_cons, List.cons_append, List.nil_append, List.take_append_drop]

/-- **`surj_serialize_parse`: serialize ∘ parse = id on accepted byte strings.** If parsing `bs`
succeeds, serializing the resulting object into any buffer of at least `bs.length` bytes returns 1,
writes exactly the bytes `bs` and sets `*outputlen = bs.length` - whatever the prior content of the
object was. Hence two different byte strings never parse to objects with the same serialization: the
encoding is canonical. -/
theorem surj_serialize_parse (bs : Bytes) (prior : Proof) (outlen : Nat)
    (h : (parse bs prior).1 = 1) (hlen : bs.length ≤ outlen) :
    serialize (parse bs prior).2 outlen = (1, bs, bs.length) := by
  rw [surj_parse_eq] at h ⊢
  by_cases hc : Canonical bs
  · rw [if_pos hc]
    show serialize (parsedObj bs prior) outlen = _
    obtain ⟨h1, h2, h3, h4, h5⟩ := hc
    have hnu : countBitsSet (parsedObj bs prior).used (bitmapLen (le16 bs))
        = countBitsSet (bs.drop 2) (bitmapLen (le16 bs)) := nUsed_parsedObj bs prior h3
    have hn : (parsedObj bs prior).nInputs = le16 bs := rfl
    unfold serialize
    simp only [hn, hnu]
    rw [if_neg (by omega)]
    have hused : (parsedObj bs prior).used.take (bitmapLen (le16 bs))
        = (bs.drop 2).take (bitmapLen (le16 bs)) := by
      simp only [parsedObj]
      rw [List.take_append_of_le_length (by simp [List.length_take]; omega), List.take_take]
      simp
    have hdata : (parsedObj bs prior).data.take (32 * (1 + countBitsSet (bs.drop 2) (bitmapLen (le16 bs))))
        = bs.drop (2 + bitmapLen (le16 bs)) := by
      simp only [parsedObj]
      rw [List.take_append_of_le_length (by simp [List.length_take, List.length_drop]; omega), List.take_take]
      rw [Nat.min_self, List.take_of_length_le (by simp [List.length_drop]; omega)]
    rw [hused, hdata, ← h5]
    rw [bytes_split2 bs h1 _]
  · rw [if_neg hc] at h; simp at h

example : serialize (parse ([3, 0, 0b101] ++ List.replicate 96 7)).2 99
    = (1, [3, 0, 0b101] ++ List.replicate 96 7, 99) := by decide +kernel

/-- **Output-length contract of `secp256k1_surjectionproof_serialize`**: with a buffer shorter than
`serialized_size(proof)` the call returns 0, writes nothing and leaves `*outputlen` unchanged;
otherwise it returns 1 and sets `*outputlen = serialized_size(proof)`. -/
theorem surj_serialize_len (p : Proof) (outlen : Nat) :
    (outlen < serializedSize p → serialize p outlen = (0, [], outlen)) ∧
    (serializedSize p ≤ outlen → (serialize p outlen).1 = 1 ∧ (serialize p outlen).2.2 = serializedSize p) := by
  unfold serialize serializedSize nUsedInputs
  refine ⟨fun h => by simp only []; rw [if_pos h], fun h => ?_⟩
  simp only []
  rw [if_neg (by omega)]
  exact ⟨rfl, rfl⟩

/-- **`surj_parse_serialize`: parse ∘ serialize recovers the observable fields.** For every proof
object with `n_inputs ≤ 256`, no bitmap bit at a position `≥ n_inputs`, and arrays at least as long as
their used parts (in C: always, the arrays have fixed size 32 and 8224), parsing its serialization
succeeds and yields `n_inputs`, the first `(n_inputs+7)/8` bitmap bytes and the first
`32 * (1 + n_used)` data bytes of the original (the rest of the target object keeps its prior bytes). -/
theorem surj_parse_serialize (p prior : Proof) (hn : p.nInputs ≤ 256)
    (hu : bitmapLen p.nInputs ≤ p.used.length) (hd : 32 * (1 + nUsedInputs p) ≤ p.data.length)
    (hnp : NoPadding p.nInputs p.used) :
    parse (serializeFull p) prior =
      (1, { nInputs := p.nInputs
            used := p.used.take (bitmapLen p.nInputs) ++ prior.used.drop (bitmapLen p.nInputs)
            data := p.data.take (32 * (1 + nUsedInputs p)) ++ prior.data.drop (32 * (1 + nUsedInputs p)) }) := by
  have hser : serializeFull p = [UInt8.ofNat (p.nInputs % 0x100), UInt8.ofNat (p.nInputs / 0x100)]
      ++ p.used.take (bitmapLen p.nInputs) ++ p.data.take (32 * (1 + nUsedInputs p)) := by
    unfold serializeFull serialize serializedSize nUsedInputs
    simp only []
    rw [if_neg (by omega)]
  have hle : le16 (serializeFull p) = p.nInputs := by
    rw [hser]
    simp only [le16, List.cons_append, List.getD_cons_zero, List.getD_cons_succ, UInt8.toNat_ofNat']
    omega
  have hUl : (p.used.take (bitmapLen p.nInputs)).length = bitmapLen p.nInputs := by
    simp [List.length_take]; omega
  have hDl : (p.data.take (32 * (1 + nUsedInputs p))).length = 32 * (1 + nUsedInputs p) := by
    simp [List.length_take]; omega
  have hdrop2 : (serializeFull p).drop 2
      = p.used.take (bitmapLen p.nInputs) ++ p.data.take (32 * (1 + nUsedInputs p)) := by
    rw [hser]; simp
  have htake : ((serializeFull p).drop 2).take (bitmapLen p.nInputs) = p.used.take (bitmapLen p.nInputs) := by
    rw [hdrop2, List.take_append_of_le_length (by omega), List.take_take, Nat.min_self]
  have hcnt : countBitsSet ((serializeFull p).drop 2) (bitmapLen p.nInputs) = nUsedInputs p := by
    rw [← countBitsSet_take, htake, countBitsSet_take]; rfl
  have hlen : (serializeFull p).length = 2 + bitmapLen p.nInputs + 32 * (1 + nUsedInputs p) := by
    rw [hser]; simp only [List.length_append, List.length_cons, List.length_nil, hUl, hDl]
  have hdropd : (serializeFull p).drop (2 + bitmapLen p.nInputs) = p.data.take (32 * (1 + nUsedInputs p)) := by
    rw [← List.drop_drop, hdrop2, List.drop_append_of_le_length (by omega)]
    rw [List.drop_of_length_le (by omega)]; simp
  have hc : Canonical (serializeFull p) := by
    refine ⟨by omega, by omega, by rw [hle]; omega, ?_, ?_⟩
    · rw [hle, htake]
      exact noPadding_congr _ _ _ (fun j hj => (getD_take _ _ _ hj).symm) hnp
    · rw [hle, hcnt, hlen]
  rw [surj_parse_eq, if_pos hc]
  simp only [parsedObj, hle, htake, hcnt, hdropd]
  rw [List.take_take, Nat.min_self]

/-- (the 8224-byte data arrays are shortened to 200 bytes in this instance to keep the check small) -/
example : parse (serializeFull ⟨3, [0b110] ++ List.replicate 31 0xff, List.replicate 200 5⟩)
      ⟨0, Bytes.zeros 32, Bytes.zeros 200⟩
    = (1, ⟨3, [0b110] ++ List.replicate 31 0, List.replicate 96 5 ++ List.replicate 104 0⟩) := by
  decide +kernel

end C11
end SecpZkp
