import SecpZkp.Gen.K_ct
import SecpZkp.Gen.K_ct32
import SecpZkp.Proofs.MiniC
/-
  C06: secret-dependent data never steers branches or memory addresses — source-level part.

  `Gen.ct.all` is regenerated on every run by `tools/c2lean_k.py` (mode K) from the C sources of the
  current working tree (clang's typed AST → MiniC IR, callees inlined): the branch-free selection
  primitives and the arithmetic kernels that the constant-time code paths are built from
  (`secp256k1_fe_impl_cmov`, `secp256k1_scalar_cond_negate`, `secp256k1_scalar_cmov`, `secp256k1_int_cmov`,
  `secp256k1_gej_cmov`, `secp256k1_ge_storage_cmov`, `secp256k1_fe_impl_normalize`, `…_half`, `…_negate`,
  `secp256k1_fe_mul_inner`, `secp256k1_fe_sqr_inner`, `secp256k1_scalar_add`, `…_negate`, `…_is_high`, `secp256k1_scalar_mul`,
  the complete constant-time point addition `secp256k1_gej_add_ge`, `secp256k1_gej_double`, `secp256k1_ge_to_storage`, …).

  The information-flow checker `MiniC.Taint.checkL` is run with the EMPTY labelling, under which every
  input — every limb of every operand and every flag — is SECRET (only literals and loop counters are
  public).  Its soundness theorem (`Proofs/MiniC.lean`, `Taint.checkL_sound`) then gives: for any two
  memories whatsoever, the two executions produce the same leakage trace (same branch outcomes, same
  array indices) and agree on whether and where they return.

  What this does NOT cover: what the compiler and the CPU do with this source (observed separately
  under valgrind), and functions not in `Gen.ct.all`.
-/
namespace SecpZkp
namespace C06
open MiniC

/-- Every translated constant-time primitive is accepted by the taint checker with ALL inputs secret,
    and contains no declassification. (Re-evaluated by the kernel on the regenerated IR.) -/
theorem ct_targets_typecheck :
    ∀ p ∈ Gen.ct.all, (Taint.checkL [] p.2.body).isSome = true ∧ Taint.noDeclassify p.2.body = true := by
  decide +kernel

/-- Non-interference of the leakage trace for every translated primitive and ALL pairs of inputs:
    the sequence of branch outcomes and array indices does not depend on any input value. -/
theorem ct_targets_leakage_independent :
    ∀ p ∈ Gen.ct.all, ∀ e1 e2 : Env,
      (execL e1 p.2.body).leak = (execL e2 p.2.body).leak ∧
      (execL e1 p.2.body).ret.isSome = (execL e2 p.2.body).ret.isSome := by
  intro p hp e1 e2
  obtain ⟨hc, hnd⟩ := ct_targets_typecheck p hp
  obtain ⟨g', hg'⟩ := Option.isSome_iff_exists.mp hc
  have h := Taint.checkL_sound (e1 := e1) (e2 := e2) hnd (Taint.lowEq_nil e1 e2) hg'
  exact ⟨h.1, h.2.1⟩

/-- The audited list is the expected, non-empty set of primitives (guards against an empty target list
    making the theorems above vacuous). -/
theorem ct_targets_names :
    Gen.ct.all.map (·.1) = ["fe_cmov", "fe_storage_cmov", "scalar_cmov", "scalar_cond_negate", "scalar_negate",
      "scalar_add", "scalar_is_high", "scalar_check_overflow", "scalar_is_zero", "int_cmov", "fe_normalize",
      "fe_normalizes_to_zero", "fe_negate", "fe_half", "fe_mul_inner", "fe_sqr_inner", "gej_cmov", "ge_storage_cmov",
      "gej_add_ge", "gej_double", "gej_neg", "ge_to_storage", "fe_get_b32", "scalar_mul"] := by
  decide

/-! The same primitives as compiled for the 32-bit limb configuration (10x26 field, 8x32 scalar; `-DUSE_FORCE_WIDEMUL_INT64`). -/

theorem ct32_targets_typecheck :
    ∀ p ∈ Gen.ct32.all, (Taint.checkL [] p.2.body).isSome = true ∧ Taint.noDeclassify p.2.body = true := by
  decide +kernel

theorem ct32_targets_leakage_independent :
    ∀ p ∈ Gen.ct32.all, ∀ e1 e2 : Env,
      (execL e1 p.2.body).leak = (execL e2 p.2.body).leak ∧
      (execL e1 p.2.body).ret.isSome = (execL e2 p.2.body).ret.isSome := by
  intro p hp e1 e2
  obtain ⟨hc, hnd⟩ := ct32_targets_typecheck p hp
  obtain ⟨g', hg'⟩ := Option.isSome_iff_exists.mp hc
  have h := Taint.checkL_sound (e1 := e1) (e2 := e2) hnd (Taint.lowEq_nil e1 e2) hg'
  exact ⟨h.1, h.2.1⟩

theorem ct32_targets_names : Gen.ct32.all.map (·.1) = Gen.ct.all.map (·.1) := by decide

/-- The checker is not trivially permissive: a data-dependent early exit (the mutant described in the
    property: `if (!flag) return` added to a conditional negate) is rejected. -/
example : Taint.checkL [] [.ite (.lnot (.var "flag")) [.ret (.lit 1)] [], .assign "x" (.neg 64 (.var "x"))] = none := by
  decide

end C06
end SecpZkp
