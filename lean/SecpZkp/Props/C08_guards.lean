import SecpZkp.Gen.Guards
/-! # C08 — the argument checks the model assumes are present at the C call sites (translator mode G)

`Gen.callFacts` is regenerated from clang's AST of /repo on every run (tools/c2lean_g.py): one fact per call of a
fallible primitive (range-checked field/scalar decoding, curve membership, infinity / zero tests, nested parsers)
inside the functions this property is anchored in, saying whether the call's result steers control flow
(`resultChecked`) and whether the overflow flag it writes is read before being overwritten (`flag = some true`;
`none` = the call passes NULL, i.e. reduces silently).  The executable model rejects out-of-range encodings at
exactly these places; the theorems below pin the C side to the same shape.  A fact list that no longer matches
is a broken tie (the check then searches for a failing input with the differential generators). -/
namespace SecpZkp.Props.C08_guards
open SecpZkp.Gen

/-- `secp256k1_generator_parse`: its fallible-primitive call sites are exactly these, each with its result / overflow flag
    consumed as listed. -/
theorem generator_parse_sites : Facts.generator_parse = [
    ⟨.fe_impl_set_b32_limit, 1, true, none⟩,
    ⟨.ge_set_xquad, 1, true, none⟩
  ] := by decide

/-- `secp256k1_pedersen_commitment_parse`: its fallible-primitive call sites are exactly these, each with its result / overflow flag
    consumed as listed. -/
theorem pedersen_commitment_parse_sites : Facts.pedersen_commitment_parse = [
    ⟨.fe_impl_set_b32_limit, 1, true, none⟩
  ] := by decide

/-- `secp256k1_pedersen_commit`: its fallible-primitive call sites are exactly these, each with its result / overflow flag
    consumed as listed. -/
theorem pedersen_commit_sites : Facts.pedersen_commit = [
    ⟨.ecmult_gen_context_is_built, 1, true, none⟩,
    ⟨.scalar_set_b32, 1, false, some true⟩,
    ⟨.gej_is_infinity, 1, true, none⟩
  ] := by decide

/-- `secp256k1_pedersen_blind_sum`: its fallible-primitive call sites are exactly these, each with its result / overflow flag
    consumed as listed. -/
theorem pedersen_blind_sum_sites : Facts.pedersen_blind_sum = [
    ⟨.scalar_set_b32, 1, false, some true⟩
  ] := by decide

/-- `secp256k1_pedersen_blind_generator_blind_sum`: its fallible-primitive call sites are exactly these, each with its result / overflow flag
    consumed as listed. -/
theorem pedersen_blind_generator_blind_sum_sites : Facts.pedersen_blind_generator_blind_sum = [
    ⟨.scalar_set_b32, 1, false, some true⟩,
    ⟨.scalar_set_b32, 2, false, some true⟩
  ] := by decide

/-- `secp256k1_generator_generate_internal`: its fallible-primitive call sites are exactly these, each with its result / overflow flag
    consumed as listed. -/
theorem generator_generate_internal_sites : Facts.generator_generate_internal = [
    ⟨.scalar_set_b32, 1, false, some true⟩,
    ⟨.fe_impl_set_b32_limit, 1, true, none⟩,
    ⟨.fe_impl_set_b32_limit, 2, true, none⟩
  ] := by decide

/-- `secp256k1_generator_load`: its fallible-primitive call sites are exactly these, each with its result / overflow flag
    consumed as listed. -/
theorem generator_load_sites : Facts.generator_load = [
    ⟨.fe_impl_set_b32_limit, 1, true, none⟩,
    ⟨.fe_impl_set_b32_limit, 2, true, none⟩
  ] := by decide

/-- `secp256k1_pedersen_scalar_set_u64`: its fallible-primitive call sites are exactly these, each with its result / overflow flag
    consumed as listed. -/
theorem pedersen_scalar_set_u64_sites : Facts.pedersen_scalar_set_u64 = [
    ⟨.scalar_set_b32, 1, false, none⟩
  ] := by decide

def all : List CallFact := Facts.generator_parse ++ Facts.pedersen_commitment_parse ++ Facts.pedersen_commit ++ Facts.pedersen_blind_sum ++ Facts.pedersen_blind_generator_blind_sum ++ Facts.generator_generate_internal ++ Facts.generator_load ++ Facts.pedersen_scalar_set_u64

/-- No overflow flag written by a scalar decoding in these functions is ignored (overwritten or never read). -/
theorem no_flag_dropped : ∀ f ∈ all, f.flag ≠ some false := by decide

/-- non-vacuity: the regenerated fact lists are not empty -/
example : all.length = 15 := by decide

end SecpZkp.Props.C08_guards
