import SecpZkp.Gen.Guards
/-
  Property C16 (part "loops", translator mode G): loop facts regenerated from clang's AST of the current sources.
  Whitelist signing derives nonce and forged scalars until all are usable.
  The model runs these loops with fuel and the property theorems are about runs in which the loop finished; that the C loop
  itself has no other way out than a successful candidate (no iteration bound in its condition) is what is pinned here.
-/
namespace SecpZkp.Props.C16_loops
open SecpZkp.Gen

/-- every `while` loop of the function is unconditional (`while (1)`): it is left only from inside, by a found result -/
def retryOnly (l : List LoopFact) : Prop := (∀ f ∈ l, f.kind = LoopKind.while → f.unconditional = true) ∧ (∃ f ∈ l, f.kind = LoopKind.while)

instance (l : List LoopFact) : Decidable (retryOnly l) := by unfold retryOnly; infer_instance

/-- `secp256k1_whitelist_sign`: the nonce / forged-scalar derivation loop (counter incremented whenever a derived scalar is zero or
    overflows) has no bound in its condition; it is left by a complete set of usable scalars or by a failing nonce function
    (the model runs it with fuel: `nonceLoop 128`) -/
theorem whitelist_sign_retry : retryOnly Loops.whitelist_sign := by decide

example : ¬ retryOnly [⟨.while, false⟩, ⟨.for, false⟩] := by decide

end SecpZkp.Props.C16_loops
