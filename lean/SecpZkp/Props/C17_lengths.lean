/-
  C17 (part "lengths"): the length and overflow checks of Schnorr half-aggregation
  (src/modules/schnorrsig_halfagg/main_impl.h:27-38, 94-101, 122-125).

  * `secp256k1_schnorrsig_aggverify` returns 0 unless `aggsig_len = 32 * (n + 1)` exactly.
  * `secp256k1_schnorrsig_inc_aggregate` refuses `n_before + n_new` overflowing `size_t` (illegal-argument
    callback) and a buffer shorter than `32 * (n + 1)`; on success `*aggsig_len = 32 * (n + 1)` and the
    buffer keeps its size.
  `size_t` is 64 bits wide in the model (`Halfagg.sizeMax = 2^64`).  All statements are for all inputs.
-/
import SecpZkp.Proofs.Parsers

namespace SecpZkp
namespace C17

open Halfagg Parsers

/-- **`halfagg_len`: aggregate verification rejects every wrong length.** For all key lists, message
lists and aggregate byte strings: if `aggsig_len ≠ 32 * (n + 1)`, `n` the number of keys, then
`secp256k1_schnorrsig_aggverify` returns 0 and raises no callback. -/
theorem halfagg_len (pubkeys : List Pt) (msgs : List Bytes) (agg : Bytes)
    (h : agg.length ≠ 32 * (pubkeys.length + 1)) :
    (aggverify pubkeys msgs (some agg)).ret = 0 ∧ (aggverify pubkeys msgs (some agg)).illegal = 0 := by
  have hc : agg.length / 32 ≤ 0 ∨ agg.length / 32 - 1 ≠ pubkeys.length ∨ agg.length % 32 ≠ 0 := by omega
  simp only [aggverify, if_pos hc, and_self]

/-- Contrapositive: a return value 1 implies the exact length. -/
theorem halfagg_len' (pubkeys : List Pt) (msgs : List Bytes) (agg : Bytes)
    (h : (aggverify pubkeys msgs (some agg)).ret = 1) : agg.length = 32 * (pubkeys.length + 1) := by
  apply Classical.byContradiction
  intro hne
  have := (halfagg_len pubkeys msgs agg hne).1
  omega

/-- lengths 0, 31, 33, 63 and 65 … for one key (expected: 64) -/
example : (aggverify [Pt.G] [Bytes.zeros 32] (some (Bytes.zeros 63))).ret = 0 :=
  (halfagg_len _ _ _ (by decide)).1
example : (aggverify [Pt.G] [Bytes.zeros 32] (some (Bytes.zeros 65))).ret = 0 :=
  (halfagg_len _ _ _ (by decide)).1
example : (aggverify [Pt.G] [Bytes.zeros 32] (some (Bytes.zeros 32))).ret = 0 :=
  (halfagg_len _ _ _ (by decide)).1
example : (aggverify [] [] (some [])).ret = 0 := (halfagg_len _ _ _ (by decide)).1

/-- Once the length check has passed, every 32-byte chunk the verifier reads (`r_0 … r_{n-1}` and `s`)
lies inside the aggregate: no read beyond `aggsig_len`. -/
theorem halfagg_chunks_in_bounds (agg : Bytes) (n i : Nat) (h : agg.length = 32 * (n + 1)) (hi : i ≤ n) :
    32 * i + 32 ≤ agg.length ∧ (chunk32 agg i).length = 32 := by
  have h1 : 32 * i + 32 ≤ agg.length := by omega
  refine ⟨h1, ?_⟩
  simp only [chunk32, List.length_take, List.length_drop]
  omega

/-- The NULL-pointer check of `aggverify`: one illegal-argument callback, return 0. -/
theorem halfagg_null (pubkeys : List Pt) (msgs : List Bytes) :
    aggverify pubkeys msgs none = ⟨0, (), 1⟩ := rfl

/-- `aggverify` returns only 0 or 1. -/
theorem aggverify_ret01 (pubkeys : List Pt) (msgs : List Bytes) (agg : Option Bytes) :
    (aggverify pubkeys msgs agg).ret = 0 ∨ (aggverify pubkeys msgs agg).ret = 1 := by
  unfold aggverify
  split
  · simp
  · simp only []
    split
    · simp
    · split
      · simp
      · simp
      · split
        · simp
        · split <;> simp

/-! ### incremental aggregation -/

/-- **`n_before + n_new` overflowing `size_t` is refused.** With `n_before` and `n_new` values of
`size_t` (`< 2^64`) whose sum is `≥ 2^64`, `secp256k1_schnorrsig_inc_aggregate` returns 0 through the
illegal-argument callback (`ARG_CHECK(n >= n_before)`) and leaves the buffer and `*aggsig_len` unchanged,
whatever the other arguments are. -/
theorem incAggregate_overflow (aggsig : Bytes) (pks : List Pt) (msgs sigs : List Bytes) (nBefore : Nat)
    (hb : nBefore < 2 ^ 64) (hn : sigs.length < 2 ^ 64) (hov : 2 ^ 64 ≤ nBefore + sigs.length) :
    incAggregate aggsig pks msgs sigs nBefore = ⟨0, (aggsig, aggsig.length), 1⟩ := by
  have hc : ¬ (nBefore + sigs.length) % sizeMax ≥ nBefore := by
    simp only [sizeMax]; omega
  simp only [incAggregate, if_pos hc]

example : incAggregate [] [] [] [[], []] (2 ^ 64 - 1) = ⟨0, ([], 0), 1⟩ :=
  incAggregate_overflow _ _ _ _ _ (by decide) (by decide) (by decide)

/-- **A buffer shorter than `32 * (n + 1)` is refused**, `n = n_before + n_new` (no overflow): the call
returns 0 and leaves the buffer and `*aggsig_len` unchanged. (It raises no callback, unless a NULL
key / message array with `n ≠ 0` was detected first.) -/
theorem incAggregate_short (aggsig : Bytes) (pks : List Pt) (msgs sigs : List Bytes) (nBefore : Nat)
    (hnov : nBefore + sigs.length < 2 ^ 64)
    (hshort : aggsig.length < 32 * (nBefore + sigs.length + 1)) :
    (incAggregate aggsig pks msgs sigs nBefore).ret = 0 ∧
    (incAggregate aggsig pks msgs sigs nBefore).out = (aggsig, aggsig.length) := by
  have hmod : (nBefore + sigs.length) % sizeMax = nBefore + sigs.length :=
    Nat.mod_eq_of_lt (by simpa [sizeMax] using hnov)
  have hc : aggsig.length / 32 ≤ 0 ∨ aggsig.length / 32 - 1 < nBefore + sigs.length := by omega
  simp only [incAggregate, hmod]
  repeat' split
  all_goals first | exact ⟨rfl, rfl⟩ | (exfalso; omega)

example : (incAggregate (Bytes.zeros 63) [Pt.G] [Bytes.zeros 32] [Bytes.zeros 64] 0).ret = 0 :=
  (incAggregate_short _ _ _ _ _ (by decide) (by decide)).1

/-- **The produced aggregate has exactly `32 * (n + 1)` bytes.** Whenever
`secp256k1_schnorrsig_inc_aggregate` returns 1 (for `size_t` counts), the buffer was at least
`32 * (n + 1)` bytes long, `*aggsig_len` is set to exactly `32 * (n + 1)` with `n = n_before + n_new`,
and - the new signatures being 64-byte arrays - the buffer still has its original size, i.e. exactly
`32 * (n + 1)` bytes were (over)written inside it. -/
theorem incAggregate_len (aggsig : Bytes) (pks : List Pt) (msgs sigs : List Bytes) (nBefore : Nat)
    (hb : nBefore < 2 ^ 64) (hn : sigs.length < 2 ^ 64)
    (h : (incAggregate aggsig pks msgs sigs nBefore).ret = 1) :
    32 * (nBefore + sigs.length + 1) ≤ aggsig.length ∧
    (incAggregate aggsig pks msgs sigs nBefore).out.2 = 32 * (nBefore + sigs.length + 1) ∧
    ((∀ sg ∈ sigs, 32 ≤ sg.length) →
      (incAggregate aggsig pks msgs sigs nBefore).out.1.length = aggsig.length) := by
  by_cases hov : 2 ^ 64 ≤ nBefore + sigs.length
  · rw [incAggregate_overflow _ _ _ _ _ hb hn hov] at h; simp at h
  have hnov : nBefore + sigs.length < 2 ^ 64 := by omega
  by_cases hshort : aggsig.length < 32 * (nBefore + sigs.length + 1)
  · rw [(incAggregate_short _ _ _ _ _ hnov hshort).1] at h; simp at h
  have hmod : (nBefore + sigs.length) % sizeMax = nBefore + sigs.length :=
    Nat.mod_eq_of_lt (by simpa [sizeMax] using hnov)
  refine ⟨by omega, ?_⟩
  revert h
  simp only [incAggregate, hmod]
  split
  · simp
  · split
    · simp
    · split
      · simp
      · split
        · simp
        · split
          · simp
          · split
            · simp
            · intro _
              refine ⟨by simp only []; omega, fun hs => ?_⟩
              have hfl : ∀ l : List Bytes, (∀ sg ∈ l, 32 ≤ sg.length) →
                  ((l.map (·.take 32)).flatten).length = 32 * l.length := by
                intro l
                induction l with
                | nil => simp
                | cons a t ih =>
                  intro hl
                  simp only [List.map_cons, List.flatten_cons, List.length_append, List.length_take,
                    List.length_cons]
                  rw [ih (fun sg hsg => hl sg (List.mem_cons_of_mem _ hsg))]
                  have := hl a (List.mem_cons_self ..)
                  omega
              simp only [List.length_append, List.length_take, List.length_drop, hfl sigs hs, length_be32]
              omega

/-- Non-vacuity: aggregating zero signatures into a 40-byte buffer succeeds, reports 32 bytes and keeps
the 40-byte buffer (bytes 32.. untouched). -/
example : (aggregate (List.replicate 40 9) [] [] []).ret = 1 ∧
    (aggregate (List.replicate 40 9) [] [] []).out.2 = 32 ∧
    (aggregate (List.replicate 40 9) [] [] []).out.1 = Bytes.zeros 32 ++ List.replicate 8 9 := by
  decide +kernel

/-- `inc_aggregate` / `aggregate` return only 0 or 1. -/
theorem incAggregate_ret01 (aggsig : Bytes) (pks : List Pt) (msgs sigs : List Bytes) (nBefore : Nat) :
    (incAggregate aggsig pks msgs sigs nBefore).ret = 0 ∨ (incAggregate aggsig pks msgs sigs nBefore).ret = 1 := by
  simp only [incAggregate]
  repeat' split
  all_goals simp

end C17
end SecpZkp
