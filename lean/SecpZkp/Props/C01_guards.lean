import SecpZkp.Gen.Guards
/-! # C01 — the argument checks the model assumes are present at the C call sites (translator mode G)

`Gen.callFacts` is regenerated from clang's AST of /repo on every run (tools/c2lean_g.py): one fact per call of a
fallible primitive (range-checked field/scalar decoding, curve membership, infinity / zero tests, nested parsers)
inside the functions this property is anchored in, saying whether the call's result steers control flow
(`resultChecked`) and whether the overflow flag it writes is read before being overwritten (`flag = some true`;
`none` = the call passes NULL, i.e. reduces silently).  The executable model rejects out-of-range encodings at
exactly these places; the theorems below pin the C side to the same shape.  A fact list that no longer matches
is a broken tie (the check then searches for a failing input with the differential generators). -/
namespace SecpZkp.Props.C01_guards
open SecpZkp.Gen

/-- `secp256k1_ecdsa_sig_verify`: its fallible-primitive call sites are exactly these, each with its result / overflow flag
    consumed as listed. -/
theorem ecdsa_sig_verify_sites : Facts.ecdsa_sig_verify = [
    ⟨.scalar_is_zero, 1, true, none⟩,
    ⟨.scalar_is_zero, 2, true, none⟩,
    ⟨.gej_is_infinity, 1, true, none⟩,
    ⟨.fe_impl_set_b32_limit, 1, true, none⟩
  ] := by decide

/-- `secp256k1_ecdsa_verify`: its fallible-primitive call sites are exactly these, each with its result / overflow flag
    consumed as listed. -/
theorem ecdsa_verify_sites : Facts.ecdsa_verify = [
    ⟨.scalar_set_b32, 1, false, none⟩,
    ⟨.scalar_is_high, 1, true, none⟩,
    ⟨.pubkey_load, 1, true, none⟩
  ] := by decide

/-- `secp256k1_ecdsa_signature_parse_compact`: its fallible-primitive call sites are exactly these, each with its result / overflow flag
    consumed as listed. -/
theorem ecdsa_signature_parse_compact_sites : Facts.ecdsa_signature_parse_compact = [
    ⟨.scalar_set_b32, 1, false, some true⟩,
    ⟨.scalar_set_b32, 2, false, some true⟩
  ] := by decide

/-- `secp256k1_ecdsa_recoverable_signature_parse_compact`: its fallible-primitive call sites are exactly these, each with its result / overflow flag
    consumed as listed. -/
theorem ecdsa_recoverable_signature_parse_compact_sites : Facts.ecdsa_recoverable_signature_parse_compact = [
    ⟨.scalar_set_b32, 1, false, some true⟩,
    ⟨.scalar_set_b32, 2, false, some true⟩
  ] := by decide

/-- `secp256k1_ecdsa_sig_sign`: its fallible-primitive call sites are exactly these, each with its result / overflow flag
    consumed as listed. -/
theorem ecdsa_sig_sign_sites : Facts.ecdsa_sig_sign = [
    ⟨.scalar_set_b32, 1, false, some true⟩,
    ⟨.scalar_is_high, 1, true, none⟩,
    ⟨.scalar_is_zero, 1, true, none⟩,
    ⟨.scalar_is_zero, 2, true, none⟩
  ] := by decide

/-- `secp256k1_ecdsa_sign_inner`: its fallible-primitive call sites are exactly these, each with its result / overflow flag
    consumed as listed. -/
theorem ecdsa_sign_inner_sites : Facts.ecdsa_sign_inner = [
    ⟨.scalar_set_b32_seckey, 1, true, none⟩,
    ⟨.scalar_set_b32, 1, false, none⟩,
    ⟨.scalar_set_b32_seckey, 2, true, none⟩
  ] := by decide

/-- `secp256k1_ecdsa_signature_load`: its fallible-primitive call sites are exactly these, each with its result / overflow flag
    consumed as listed. -/
theorem ecdsa_signature_load_sites : Facts.ecdsa_signature_load = [
    ⟨.scalar_set_b32, 1, false, none⟩,
    ⟨.scalar_set_b32, 2, false, none⟩
  ] := by decide

/-- `secp256k1_ecdsa_recover`: its fallible-primitive call sites are exactly these, each with its result / overflow flag
    consumed as listed. -/
theorem ecdsa_recover_sites : Facts.ecdsa_recover = [
    ⟨.scalar_set_b32, 1, false, none⟩
  ] := by decide

/-- `secp256k1_ecdsa_recoverable_signature_load`: its fallible-primitive call sites are exactly these, each with its result / overflow flag
    consumed as listed. -/
theorem ecdsa_recoverable_signature_load_sites : Facts.ecdsa_recoverable_signature_load = [
    ⟨.scalar_set_b32, 1, false, none⟩,
    ⟨.scalar_set_b32, 2, false, none⟩
  ] := by decide

/-- `secp256k1_ecdsa_sig_recover`: its fallible-primitive call sites are exactly these, each with its result / overflow flag
    consumed as listed. -/
theorem ecdsa_sig_recover_sites : Facts.ecdsa_sig_recover = [
    ⟨.scalar_is_zero, 1, true, none⟩,
    ⟨.scalar_is_zero, 2, true, none⟩,
    ⟨.fe_impl_set_b32_limit, 1, true, none⟩,
    ⟨.ge_set_xo_var, 1, true, none⟩,
    ⟨.gej_is_infinity, 1, true, none⟩
  ] := by decide

def all : List CallFact := Facts.ecdsa_sig_verify ++ Facts.ecdsa_verify ++ Facts.ecdsa_signature_parse_compact ++ Facts.ecdsa_recoverable_signature_parse_compact ++ Facts.ecdsa_sig_sign ++ Facts.ecdsa_sign_inner ++ Facts.ecdsa_signature_load ++ Facts.ecdsa_recover ++ Facts.ecdsa_recoverable_signature_load ++ Facts.ecdsa_sig_recover

/-- No overflow flag written by a scalar decoding in these functions is ignored (overwritten or never read). -/
theorem no_flag_dropped : ∀ f ∈ all, f.flag ≠ some false := by decide

/-- non-vacuity: the regenerated fact lists are not empty -/
example : all.length = 28 := by decide

end SecpZkp.Props.C01_guards
