import SecpZkp.Proofs.Ellswift
import SecpZkp.Proofs.Algebra
import SecpZkp.Proofs.GroupLawProved
import SecpZkp.Proofs.GroupExtra
/-
  C18: ECDH and ElligatorSwift exchanges agree with the group law and with each other.

  All statements are closed: the group law is discharged by `groupLaw` (`Proofs/GroupLawProved.lean`),
  primality of `P` by `Proofs/Prime.lean`.
-/
namespace SecpZkp
namespace C18
open SecpZkp.Algebra Ellswift

/-! ## Secrets -/

/-- A 32-byte secret is accepted iff its value is in `[1, n-1]`. -/
def validSk (sk : Bytes) : Prop := 0 < Bytes.toNat sk ∧ Bytes.toNat sk < N

instance (sk : Bytes) : Decidable (validSk sk) := by unfold validSk; infer_instance

/-- The "overflow or zero" flag computed by `secp256k1_ecdh` / `secp256k1_ellswift_xdh`. -/
theorem overflow_eq_false {sk : Bytes} (h : validSk sk) :
    Sc.setB32 sk = (Bytes.toNat sk, false) := by
  obtain ⟨h0, h1⟩ := h
  unfold Sc.setB32
  simp only [Nat.mod_eq_of_lt h1, ge_iff_le, Prod.mk.injEq, decide_eq_false_iff_not, not_le, true_and]
  exact h1

/-- For an invalid secret (0 or `≥ n`) the flag is set. -/
theorem overflow_eq_true {sk : Bytes} (h : ¬ validSk sk) :
    ((Sc.setB32 sk).2 || (Sc.setB32 sk).1 == 0) = true := by
  unfold validSk at h
  unfold Sc.setB32
  simp only [ge_iff_le, Bool.or_eq_true, decide_eq_true_eq, beq_iff_eq]
  by_cases hN : N ≤ Bytes.toNat sk
  · exact Or.inl hN
  · right
    rw [Nat.mod_eq_of_lt (by omega)]
    omega

/-! ## 1. ECDH -/

/-- The hash callback selected by `hashfp` (`none` = NULL pointer = the built-in SHA256 default). -/
def selHash : Option Ecdh.HashFn → Ecdh.HashFn
  | none => Ecdh.hashSha256
  | some f => f

/-- **`secp256k1_ecdh`, exact specification.**  With `Q = sk • pk` (scalar multiplication of the
    group law) and `hr` the result of the selected hash callback on the big-endian coordinates of `Q`:
    the call returns 1 exactly when the secret is in `[1, n-1]` and the callback succeeds; for a
    valid secret the output buffer is what the callback wrote; the illegal-argument callback fires
    only for the (forbidden) all-zero public-key object. -/
theorem ecdh_spec (prev : Bytes) (pk : Pt) (sk : Bytes) (hashfp : Option Ecdh.HashFn) :
    let Q := Pt.mul (Bytes.toNat sk) pk
    let hr := selHash hashfp (Bytes.be32 Q.xOf) (Bytes.be32 Q.yOf)
    let r := Ecdh.ecdh prev pk sk hashfp
    (r.ret = 1 ↔ validSk sk ∧ hr.1 ≠ 0) ∧
    (r.ret = 0 ∨ r.ret = 1) ∧
    (validSk sk → r.out = Ecdh.writeOut prev hr.2) ∧
    r.illegal = (if pk.isInf then 1 else 0) := by
  intro Q hr r
  by_cases hv : validSk sk
  · have e := overflow_eq_false hv
    have hr' : r = ⟨if hr.1 ≠ 0 then 1 else 0, Ecdh.writeOut prev hr.2, if pk.isInf then 1 else 0⟩ := by
      show Ecdh.ecdh prev pk sk hashfp = _
      have hne : Bytes.toNat sk ≠ 0 := by have := hv.1; omega
      unfold Ecdh.ecdh
      rw [e]
      cases hashfp <;> simp [hr, Q, selHash, hne]
    rw [hr']
    refine ⟨?_, ?_, fun _ => rfl, rfl⟩
    · by_cases h0 : hr.1 = 0 <;> simp [h0, hv]
    · by_cases h0 : hr.1 = 0 <;> simp [h0]
  · have e := overflow_eq_true hv
    have hret : r.ret = 0 := by
      show (Ecdh.ecdh prev pk sk hashfp).ret = 0
      unfold Ecdh.ecdh
      cases hashfp <;> simp [e]
    have hill : r.illegal = (if pk.isInf then 1 else 0) := by
      show (Ecdh.ecdh prev pk sk hashfp).illegal = _
      unfold Ecdh.ecdh
      cases hashfp <;> simp
    refine ⟨?_, Or.inl hret, fun h => absurd h hv, hill⟩
    rw [hret]
    simp [hv]


/-- **Both ECDH parties hash the same point**: `a • (b • G) = b • (a • G)` for the executable
    scalar multiplication. -/
theorem ecdh_point_agree {a b : ℕ} (ha : a < N) (hb : b < N) :
    Pt.mul a (Pt.mulG b) = Pt.mul b (Pt.mulG a) := by
  have : HasGroupLaw := ⟨groupLaw⟩
  have ha' := lt_mulBound_of_lt_N ha
  have hb' := lt_mulBound_of_lt_N hb
  unfold Pt.mulG
  rw [mul_mul gl.valid_G gl.mul_N_G ha' hb', mul_mul gl.valid_G gl.mul_N_G hb' ha', Nat.mul_comm]

/-- **ECDH agreement**: party A (secret `skA`, peer key `b • G`) and party B (secret `skB`, peer key
    `a • G`) obtain the same return value and the same output, for every hash function (default or
    caller supplied) and every previous buffer content. -/
theorem ecdh_agree (prev : Bytes) (skA skB : Bytes) (hashfp : Option Ecdh.HashFn)
    (hA : validSk skA) (hB : validSk skB) :
    let pkA := Pt.mulG (Bytes.toNat skA)
    let pkB := Pt.mulG (Bytes.toNat skB)
    (Ecdh.ecdh prev pkB skA hashfp).ret = (Ecdh.ecdh prev pkA skB hashfp).ret ∧
    (Ecdh.ecdh prev pkB skA hashfp).out = (Ecdh.ecdh prev pkA skB hashfp).out ∧
    (Ecdh.ecdh prev pkB skA hashfp).illegal = 0 ∧ (Ecdh.ecdh prev pkA skB hashfp).illegal = 0 := by
  intro pkA pkB
  have : HasGroupLaw := ⟨groupLaw⟩
  obtain ⟨i1, d1, o1, l1⟩ := ecdh_spec prev pkB skA hashfp
  obtain ⟨i2, d2, o2, l2⟩ := ecdh_spec prev pkA skB hashfp
  have hp : Pt.mul (Bytes.toNat skA) pkB = Pt.mul (Bytes.toNat skB) pkA := ecdh_point_agree hA.2 hB.2
  rw [hp] at i1 o1
  have hiA : pkA.isInf = false := by
    obtain ⟨x, y, e⟩ := mulG_eq_aff hA.1 hA.2
    show (Pt.mulG (Bytes.toNat skA)).isInf = false
    rw [e]; rfl
  have hiB : pkB.isInf = false := by
    obtain ⟨x, y, e⟩ := mulG_eq_aff hB.1 hB.2
    show (Pt.mulG (Bytes.toNat skB)).isInf = false
    rw [e]; rfl
  refine ⟨?_, ?_, by rw [l1, hiB]; rfl, by rw [l2, hiA]; rfl⟩
  · rcases d1 with d1 | d1 <;> rcases d2 with d2 | d2
    · rw [d1, d2]
    · exact absurd (i1.2 ⟨hA, (i2.1 d2).2⟩) (by rw [d1]; decide)
    · exact absurd (i2.2 ⟨hB, (i1.1 d1).2⟩) (by rw [d2]; decide)
    · rw [d1, d2]
  · rw [o1 hA, o2 hB]

/-- Non-vacuity: valid secrets exist, `0` and `n` are rejected, and the call succeeds on a concrete
    instance (default hash, secret 5, peer key `7 • G`). -/
example : validSk (Bytes.be32 5) ∧ validSk (Bytes.be32 7) ∧ ¬ validSk (Bytes.be32 0) ∧
    ¬ validSk (Bytes.be32 N) ∧ validSk (Bytes.be32 (N - 1)) := by decide +kernel

example : (Ecdh.ecdh [] (Pt.mulG 7) (Bytes.be32 5) none).ret = 1 ∧
    (Ecdh.ecdh [] (Pt.mulG 7) (Bytes.be32 N) none).ret = 0 := by decide +kernel

/-! ## 3. Every 64-byte string decodes to a valid curve point -/

/-- **Every `(u, t)` decodes onto the curve**: for all naturals `u, t` (reduced mod `P` by the code;
    including `u = 0`, `t = 0` and the family `u³ + t² + 7 = 0`, which the code remaps),
    `x = xswiftecVar u t` is reduced and `x³ + 7` is a square, i.e. one of the three candidates
    `x3, x2, x1` is always on the curve. -/
theorem decode_on_curve (u t : ℕ) :
    xswiftecVar u t < P ∧ geXOnCurveVar (xswiftecVar u t) = true ∧
    ∃ y, (Pt.aff (xswiftecVar u t) y).valid = true := by
  refine ⟨xswiftecVar_lt u t, xswiftecVar_onCurve u t, ?_⟩
  obtain ⟨hv, hne, hx, _⟩ := swiftecVar_spec u t
  cases hq : swiftecVar u t with
  | inf => exact absurd hq hne
  | aff x y =>
    rw [hq] at hv hx
    simp only [Pt.xOf] at hx
    exact ⟨y, by rw [← hx]; exact hv⟩

/-- **`secp256k1_ellswift_decode` never fails and always returns a valid finite point**, whose
    abscissa is the ElligatorSwift map of the two encoded field elements (taken mod `P`) and whose
    ordinate has the parity of `t mod P`. -/
theorem decode_valid (ell64 : Bytes) :
    (decode ell64).ret = 1 ∧ (decode ell64).illegal = 0 ∧
    (decode ell64).out.valid = true ∧ (decode ell64).out ≠ .inf ∧
    (decode ell64).out.xOf = xswiftecVar (decU ell64) (decT ell64) ∧
    Fe.isOdd (decode ell64).out.yOf = Fe.isOdd (decT ell64) := by
  rw [decode_eq]
  obtain ⟨hv, hne, hx, hp⟩ := swiftecVar_spec (decU ell64) (decT ell64)
  refine ⟨rfl, rfl, hv, hne, hx, ?_⟩
  rw [hp]
  unfold decT
  rw [Nat.mod_mod]

/-- Non-vacuity / illustration on the remapped inputs: `u = 0`, `t = 0`, values `≥ P`, and a member of
    the family `u³ + t² + 7 = 0`. -/
example : geXOnCurveVar (xswiftecVar 0 0) = true ∧ geXOnCurveVar (xswiftecVar P (P + 1)) = true ∧
    (5 ^ 3 + 0x350ae3b48047adacdeea49fb8a0b289a94f726801078408aba79631fa7a1b6ba ^ 2 + 7) % P = 0 ∧
    geXOnCurveVar (xswiftecVar 5 0x350ae3b48047adacdeea49fb8a0b289a94f726801078408aba79631fa7a1b6ba) = true := by
  decide +kernel

example : (decode (Bytes.zeros 64)).out.valid = true ∧ (decode (List.replicate 64 0xFF)).out.valid = true := by
  decide +kernel

/-! ## 4. Round trips -/

/-- **The inverse map round-trips, for every branch `c`** (all naturals `c`; only the bits
    `c & 1`, `c & 2`, `c & 5` are used): if `x` is the reduced abscissa of a curve point and
    `u mod P ≠ 0`, a value `t` returned by `xswiftecInvVar x u c` decodes back to `x`. -/
theorem inv_roundtrip {x u c t : ℕ} (hx : x < P) (hxc : geXOnCurveVar x = true)
    (hu : u % P ≠ 0) (h : xswiftecInvVar x u c = some t) :
    xswiftecVar u t = x :=
  (xswiftecInvVar_roundtrip hx hxc hu h).1

/-- Non-vacuity: for `x = G.x` every branch `c = 0..7` is taken by some `u ≠ 0`
    (`u = 7` for the `x1/x2` branches, `u = 9` for the `x3` branches). -/
example : Pt.Gx < P ∧ geXOnCurveVar Pt.Gx = true ∧ 7 % P ≠ 0 ∧ 9 % P ≠ 0 ∧
    (xswiftecInvVar Pt.Gx 7 0).isSome = true ∧ (xswiftecInvVar Pt.Gx 7 1).isSome = true ∧
    (xswiftecInvVar Pt.Gx 9 2).isSome = true ∧ (xswiftecInvVar Pt.Gx 9 3).isSome = true ∧
    (xswiftecInvVar Pt.Gx 7 4).isSome = true ∧ (xswiftecInvVar Pt.Gx 7 5).isSome = true ∧
    (xswiftecInvVar Pt.Gx 9 6).isSome = true ∧ (xswiftecInvVar Pt.Gx 9 7).isSome = true := by
  decide +kernel

/-- **The hypothesis `u mod P ≠ 0` cannot be dropped** (counterexample to the unrestricted round
    trip): for the on-curve abscissa below, `xswiftecInvVar x 0 2` returns a `t` (`= √-7`), but the
    forward map remaps `u = 0` to `u = 1` and decodes `(0, t)` to a different abscissa.
    The C code only `VERIFY_CHECK`s `u ≠ 0` in the encoder loop (the sampled `u` is a SHA-256 output). -/
example :
    let x := 0x5f2e49f7ca8978637cd0b0a34696eed5cdd99b12c81d230386d9f555e47eaea4
    let t := 0x70ac8110203e9f95f8d832964b58ccc2c712bb1c6cd58e861134b48f456c9b53
    x < P ∧ geXOnCurveVar x = true ∧ xswiftecInvVar x 0 2 = some t ∧ xswiftecVar 0 t ≠ x := by
  decide +kernel

/-- **`decode (encode pk rnd) = pk`** for every valid finite public key, all randomness and every
    fuel for which the search loop terminates, provided the `u` half of the produced encoding is
    non-zero mod `P`.  `encode` returns 1 and raises no illegal-argument callback. -/
/- Full statement (NOT provable, hence `_partial`): the same conclusion without `decU r.out ≠ 0`.
   `u` is `SHA256(...) mod P`; if that hash value were `0` or `P`, `xswiftecInvVar` can still return
   a `t` (see the counterexample above) that does not decode back.  Excluding this needs a statement
   about SHA-256 outputs; the C code has only a `VERIFY_CHECK` (absent from production builds). -/
theorem decode_encode_partial {fuel : ℕ} {pk : Pt} {rnd32 : Bytes} {r : Ret Bytes}
    (hv : pk.valid = true) (hfin : pk ≠ .inf) (h : encode fuel pk rnd32 = some r) :
    r.ret = 1 ∧ r.illegal = 0 ∧ r.out.length = 64 ∧
    (decU r.out ≠ 0 → decode r.out = ⟨1, pk, 0⟩) := by
  cases pk with
  | inf => exact absurd rfl hfin
  | aff px py =>
    unfold encode at h
    simp only [] at h
    split at h
    · exact absurd h (by simp)
    · next u32 t he =>
      simp only [Option.some.injEq] at h
      subst h
      obtain ⟨hl, _⟩ := elligatorswiftVar_some he
      refine ⟨rfl, rfl, ?_, ?_⟩
      · simp only [List.length_append, hl, Bytes.be32_length]
      · intro hu
        simp only at hu
        rw [decU_append hl] at hu
        exact decode_elligatorswift hv he hu

/-- Non-vacuity of `decode_encode_partial`: for `pk = G` and all-zero randomness the search
    terminates and the `u` half of the encoding is non-zero. -/
example : Pt.G.valid = true ∧ Pt.G ≠ .inf ∧
    ∃ r, encode 1 Pt.G (Bytes.zeros 32) = some r ∧ decU r.out ≠ 0 := by
  have h : (encode 1 Pt.G (Bytes.zeros 32)).any (fun r => decU r.out != 0) = true := by
    decide +kernel
  refine ⟨by decide +kernel, by decide, ?_⟩
  cases he : encode 1 Pt.G (Bytes.zeros 32) with
  | none => rw [he] at h; exact absurd h (by simp)
  | some r => rw [he] at h; exact ⟨r, rfl, by simpa using h⟩

/-- `secp256k1_scalar_set_b32_seckey` accepts exactly the valid secrets. -/
theorem setB32Seckey_valid {sk : Bytes} (h : validSk sk) :
    Sc.setB32Seckey sk = (Bytes.toNat sk, true) := by
  have hne : Bytes.toNat sk ≠ 0 := by have := h.1; omega
  unfold Sc.setB32Seckey
  rw [overflow_eq_false h]
  simp [hne]

/-- `secp256k1_scalar_set_b32_seckey` rejects invalid secrets. -/
theorem setB32Seckey_invalid {sk : Bytes} (h : ¬ validSk sk) :
    (Sc.setB32Seckey sk).2 = false := by
  have := overflow_eq_true h
  unfold Sc.setB32Seckey
  generalize Sc.setB32 sk = p at this ⊢
  obtain ⟨v, ov⟩ := p
  simp only [Bool.or_eq_true, beq_iff_eq] at this
  rcases this with h1 | h1 <;> simp [h1]

/-- **`decode (create sk rnd) = sk • G`**: `secp256k1_ellswift_create` returns 1 exactly for a secret
    in `[1, n-1]` (for an invalid secret the output is zeroed); for a valid secret, any auxiliary
    randomness (or none) and every fuel for which the search loop terminates, the produced encoding
    decodes to the public key `sk • G`, provided its `u` half is non-zero mod `P`. -/
/- Full statement (NOT provable, hence `_partial`): as below without `decU r.out ≠ 0`; see
   `decode_encode_partial`. -/
theorem decode_create_partial {fuel : ℕ} {sk : Bytes} {aux : Option Bytes} {r : Ret Bytes}
    (h : create fuel sk aux = some r) :
    (r.ret = 1 ↔ validSk sk) ∧ r.illegal = 0 ∧ r.out.length = 64 ∧
    (¬ validSk sk → r.ret = 0 ∧ r.out = Bytes.zeros 64) ∧
    (validSk sk → decU r.out ≠ 0 → decode r.out = ⟨1, Pt.mulG (Bytes.toNat sk), 0⟩) := by
  have : HasGroupLaw := ⟨groupLaw⟩
  unfold create at h
  by_cases hv : validSk sk
  · rw [setB32Seckey_valid hv] at h
    simp only [if_true] at h
    obtain ⟨px, py, hp⟩ := mulG_eq_aff hv.1 hv.2
    have hval : (Pt.aff px py).valid = true := by
      rw [← hp]; exact mulG_valid (lt_mulBound_of_lt_N hv.2)
    rw [hp] at h
    simp only [Pt.xOf, Pt.yOf] at h
    split at h
    · exact absurd h (by simp)
    · next u32 t he =>
      simp only [Option.some.injEq] at h
      subst h
      obtain ⟨hl, _⟩ := elligatorswiftVar_some he
      refine ⟨by simp [hv], rfl, ?_, fun h => absurd hv h, ?_⟩
      · simp only [List.length_append, hl, Bytes.be32_length]
      · intro _ hu
        simp only at hu
        rw [decU_append hl] at hu
        rw [hp]
        exact decode_elligatorswift hval he hu
  · have e2 := setB32Seckey_invalid hv
    generalize Sc.setB32Seckey sk = p at h e2
    obtain ⟨d, ok⟩ := p
    simp only at e2
    subst e2
    simp only [Bool.false_eq_true, if_false] at h
    split at h
    · exact absurd h (by simp)
    · simp only [Option.some.injEq] at h
      subst h
      exact ⟨by simp [hv], rfl, by simp [Bytes.zeros], fun _ => ⟨rfl, rfl⟩, fun h => absurd h hv⟩

/-- Non-vacuity of `decode_create_partial` / `xdh_agree_create_partial`: secrets 7 and 8 are valid,
    `create` terminates for both and the `u` halves are non-zero. -/
theorem create_example_7 :
    (create 1 (Bytes.be32 7) none).any (fun r => decU r.out != 0) = true := by decide +kernel

theorem create_example_8 :
    (create 1 (Bytes.be32 8) none).any (fun r => decU r.out != 0) = true := by decide +kernel

theorem create_example (k : ℕ) (hk : k = 7 ∨ k = 8) :
    validSk (Bytes.be32 k) ∧ ∃ r, create 1 (Bytes.be32 k) none = some r ∧ decU r.out ≠ 0 := by
  have h : (create 1 (Bytes.be32 k) none).any (fun r => decU r.out != 0) = true := by
    rcases hk with rfl | rfl
    · exact create_example_7
    · exact create_example_8
  refine ⟨by rcases hk with rfl | rfl <;> decide +kernel, ?_⟩
  cases he : create 1 (Bytes.be32 k) none with
  | none => rw [he] at h; exact absurd h (by simp)
  | some r => rw [he] at h; exact ⟨r, rfl, by simpa using h⟩

/-! ## 2. ElligatorSwift x-only Diffie-Hellman -/

/-- Negation keeps the abscissa. -/
theorem xOf_neg (Q : Pt) : (Pt.neg Q).xOf = Q.xOf := by cases Q <;> rfl

/-- The x-coordinate of `k • (x, ±y)` does not depend on the sign: lifting an abscissa with any
    parity gives the same x-only product as the point itself. -/
theorem xOf_mul_geSetXoVar {x y k : ℕ} (hv : (Pt.aff x y).valid = true) (hk : k < mulBound)
    (odd : Bool) :
    (Pt.mul k (geSetXoVar x odd).1).xOf = (Pt.mul k (Pt.aff x y)).xOf := by
  have : HasGroupLaw := ⟨groupLaw⟩
  by_cases ho : odd = Fe.isOdd y
  · rw [ho, geSetXoVar_of_valid hv]
  · have hv' : (Pt.aff x (Fe.neg y)).valid = true := by
      have := valid_neg hv
      simpa [Pt.neg] using this
    have ho' : odd = Fe.isOdd (Fe.neg y) := by
      rw [isOdd_neg hv]
      revert ho; cases odd <;> cases Fe.isOdd y <;> simp
    rw [ho', geSetXoVar_of_valid hv']
    have e : Pt.aff x (Fe.neg y) = Pt.neg (Pt.aff x y) := rfl
    rw [e, Algebra.mul_neg hv hk, xOf_neg]

/-- **`secp256k1_ecmult_const_xonly` (specification-level model) is `Pt.mul`**: for a fraction `n/d`
    whose value is the abscissa of a valid point `Q`, the result is the x-coordinate of `q • Q`
    (whichever of the two points with that abscissa `Q` is). -/
theorem ecmultConstXonly_eq {n d q x y : ℕ} (hv : (Pt.aff x y).valid = true)
    (hx : Fe.mul n (Fe.inv d) = x) (hq : q < mulBound) :
    ecmultConstXonly n (some d) q true = some (Pt.mul q (Pt.aff x y)).xOf := by
  unfold ecmultConstXonly
  simp only [Bool.not_true, Bool.false_and, Bool.false_eq_true, if_false, hx]
  rw [xOf_mul_geSetXoVar hv hq]

/-- `xswiftecVar` is the quotient of the fraction returned by `xswiftecFracVar`. -/
theorem xswiftecVar_eq (u t : ℕ) :
    xswiftecVar u t = Fe.mul (xswiftecFracVar u t).1 (Fe.inv (xswiftecFracVar u t).2) := by
  unfold xswiftecVar
  simp only []

/-- The point a party of `xdh` multiplies: the decoding of the other party's encoding. -/
def theirs (ellA64 ellB64 : Bytes) (party : ℕ) : Bytes := if party ≠ 0 then ellA64 else ellB64

/-- `xdh` with the pattern matches spelled out as projections. -/
theorem xdh_eq (prev ellA ellB sk : Bytes) (party : ℕ) (f : XdhHashFn) :
    xdh prev ellA ellB sk party (some f) =
    (let th := theirs ellA ellB party
     let fr := xswiftecFracVar (decU th) (decT th)
     let ov := ((Sc.setB32 sk).2 || (Sc.setB32 sk).1 == 0)
     let s := if ov then 1 else (Sc.setB32 sk).1
     let px := (ecmultConstXonly fr.1 (some fr.2) s true).getD 0
     let h := f (Bytes.be32 px) ellA ellB
     ⟨if h.1 ≠ 0 ∧ !ov then 1 else 0, Ecdh.writeOut prev h.2, 0⟩) := by
  unfold xdh theirs decU decT
  simp only []

/-- the shared abscissa computed by `xdh` is that of `sk • decode(theirs)` -/
theorem xdh_shared_x (th sk : Bytes) (hv : validSk sk) :
    (ecmultConstXonly (xswiftecFracVar (decU th) (decT th)).1
        (some (xswiftecFracVar (decU th) (decT th)).2) (Bytes.toNat sk) true).getD 0
      = (Pt.mul (Bytes.toNat sk) (decode th).out).xOf := by
  have : HasGroupLaw := ⟨groupLaw⟩
  obtain ⟨hval, hfin, hxo, _⟩ := swiftecVar_spec (decU th) (decT th)
  cases hq : swiftecVar (decU th) (decT th) with
  | inf => exact absurd hq hfin
  | aff qx qy =>
    rw [hq] at hval hxo
    simp only [Pt.xOf] at hxo
    rw [ecmultConstXonly_eq hval (by rw [hxo, xswiftecVar_eq]) (lt_mulBound_of_lt_N hv.2),
      decode_eq, hq]
    rfl

/-- **`secp256k1_ellswift_xdh`, exact specification.**  With `Q = decode(theirs)` (always a valid
    finite point), `x` the abscissa of `sk • Q` under the group law and `hr` the result of the hash
    callback on `(x, ell_a64, ell_b64)`: the call returns 1 exactly when the secret is in `[1, n-1]`
    and the callback succeeds; for a valid secret the output is what the callback wrote.
    (`hashfp = NULL` is an illegal argument: `xdh_null`.) -/
theorem xdh_spec (prev ellA ellB sk : Bytes) (party : ℕ) (f : XdhHashFn) :
    let x := (Pt.mul (Bytes.toNat sk) (decode (theirs ellA ellB party)).out).xOf
    let hr := f (Bytes.be32 x) ellA ellB
    let r := xdh prev ellA ellB sk party (some f)
    (r.ret = 1 ↔ validSk sk ∧ hr.1 ≠ 0) ∧
    (r.ret = 0 ∨ r.ret = 1) ∧
    (validSk sk → r.out = Ecdh.writeOut prev hr.2) ∧
    r.illegal = 0 := by
  intro x hr r
  have hr0 : r = xdh prev ellA ellB sk party (some f) := rfl
  rw [xdh_eq] at hr0
  by_cases hv : validSk sk
  · have e := overflow_eq_false hv
    have hne : Bytes.toNat sk ≠ 0 := by have := hv.1; omega
    have hov : ((Sc.setB32 sk).2 || (Sc.setB32 sk).1 == 0) = false := by
      rw [e]; simp [hne]
    simp only [hov, Bool.false_eq_true, if_false, Bool.not_false, and_true] at hr0
    rw [e] at hr0
    simp only [] at hr0
    rw [xdh_shared_x _ _ hv] at hr0
    rw [hr0]
    refine ⟨?_, ?_, fun _ => rfl, rfl⟩
    · by_cases h0 : hr.1 = 0 <;> simp [h0, hv, hr, x]
    · by_cases h0 : hr.1 = 0 <;> simp [h0, hr, x]
  · have hov := overflow_eq_true hv
    simp only [hov, if_true, Bool.not_true, Bool.false_eq_true, and_false, if_false] at hr0
    rw [hr0]
    exact ⟨by simp [hv], Or.inl rfl, fun h => absurd h hv, rfl⟩

/-- `hashfp = NULL` is an illegal argument: return 0, output untouched, callback raised. -/
theorem xdh_null (prev ellA ellB sk : Bytes) (party : ℕ) :
    xdh prev ellA ellB sk party none = ⟨0, prev, 1⟩ := rfl

/-- **Both roles of `xdh` derive the same secret, given the round trip** (`decode ell_A = a • G`,
    `decode ell_B = b • G` as explicit hypotheses; discharged for encodings made by `create` in
    `xdh_agree_create_partial`).  Party A (`party = 0`, secret `a`) and party B (`party = 1`,
    secret `b`) hash the same abscissa, that of `(a b mod n) • G`, together with the same pair of
    encodings, hence obtain the same return value and the same output for every hash callback. -/
theorem xdh_agree_partial (prev ellA ellB skA skB : Bytes) (f : XdhHashFn)
    (hA : validSk skA) (hB : validSk skB)
    (hdA : (decode ellA).out = Pt.mulG (Bytes.toNat skA))
    (hdB : (decode ellB).out = Pt.mulG (Bytes.toNat skB)) :
    let x := (Pt.mulG (Bytes.toNat skA * Bytes.toNat skB % N)).xOf
    let hr := f (Bytes.be32 x) ellA ellB
    (xdh prev ellA ellB skA 0 (some f)).ret = (if hr.1 ≠ 0 then 1 else 0) ∧
    (xdh prev ellA ellB skB 1 (some f)).ret = (if hr.1 ≠ 0 then 1 else 0) ∧
    (xdh prev ellA ellB skA 0 (some f)).out = Ecdh.writeOut prev hr.2 ∧
    (xdh prev ellA ellB skB 1 (some f)).out = Ecdh.writeOut prev hr.2 := by
  intro x hr
  have : HasGroupLaw := ⟨groupLaw⟩
  have ha' := lt_mulBound_of_lt_N hA.2
  have hb' := lt_mulBound_of_lt_N hB.2
  obtain ⟨i1, d1, o1, _⟩ := xdh_spec prev ellA ellB skA 0 f
  obtain ⟨i2, d2, o2, _⟩ := xdh_spec prev ellA ellB skB 1 f
  have t0 : theirs ellA ellB 0 = ellB := rfl
  have t1 : theirs ellA ellB 1 = ellA := rfl
  have e1 : Pt.mul (Bytes.toNat skA) (decode ellB).out
      = Pt.mulG (Bytes.toNat skA * Bytes.toNat skB % N) := by
    rw [hdB]; unfold Pt.mulG; rw [mul_mul gl.valid_G gl.mul_N_G ha' hb']
  have e2 : Pt.mul (Bytes.toNat skB) (decode ellA).out
      = Pt.mulG (Bytes.toNat skA * Bytes.toNat skB % N) := by
    rw [hdA]; unfold Pt.mulG; rw [mul_mul gl.valid_G gl.mul_N_G hb' ha', Nat.mul_comm]
  rw [t0, e1] at i1 o1
  rw [t1, e2] at i2 o2
  refine ⟨?_, ?_, o1 hA, o2 hB⟩
  · by_cases h0 : hr.1 = 0
    · rw [if_neg (by simpa using h0)]
      rcases d1 with d | d
      · exact d
      · exact absurd h0 (i1.1 d).2
    · rw [if_pos h0]; exact i1.2 ⟨hA, h0⟩
  · by_cases h0 : hr.1 = 0
    · rw [if_neg (by simpa using h0)]
      rcases d2 with d | d
      · exact d
      · exact absurd h0 (i2.1 d).2
    · rw [if_pos h0]; exact i2.2 ⟨hB, h0⟩

/-- **Both roles of `xdh` derive the same secret for encodings made by `create`**: if each party
    creates its encoding from its valid secret (any auxiliary randomness, any fuel for which the
    search terminates) and the `u` halves of the two encodings are non-zero mod `P`, then party A
    and party B obtain the same return value and the same output. -/
theorem xdh_agree_create_partial (prev skA skB : Bytes) (f : XdhHashFn)
    {fuelA fuelB : ℕ} {auxA auxB : Option Bytes} {rA rB : Ret Bytes}
    (hA : validSk skA) (hB : validSk skB)
    (hcA : create fuelA skA auxA = some rA) (hcB : create fuelB skB auxB = some rB)
    (huA : decU rA.out ≠ 0) (huB : decU rB.out ≠ 0) :
    (xdh prev rA.out rB.out skA 0 (some f)).ret = (xdh prev rA.out rB.out skB 1 (some f)).ret ∧
    (xdh prev rA.out rB.out skA 0 (some f)).out = (xdh prev rA.out rB.out skB 1 (some f)).out := by
  obtain ⟨_, _, _, _, dA⟩ := decode_create_partial hcA
  obtain ⟨_, _, _, _, dB⟩ := decode_create_partial hcB
  have hdA := congrArg Ret.out (dA hA huA)
  have hdB := congrArg Ret.out (dB hB huB)
  simp only at hdA hdB
  obtain ⟨r1, r2, o1, o2⟩ := xdh_agree_partial prev rA.out rB.out skA skB f hA hB hdA hdB
  exact ⟨by rw [r1, r2], by rw [o1, o2]⟩

/-- Non-vacuity of `xdh_agree_partial` and `xdh_agree_create_partial`: the hypotheses hold for the
    encodings created from the secrets 7 and 8, and both parties then succeed with the BIP-324 hash. -/
example : ∃ ellA ellB : Bytes,
    (decode ellA).out = Pt.mulG (Bytes.toNat (Bytes.be32 7)) ∧
    (decode ellB).out = Pt.mulG (Bytes.toNat (Bytes.be32 8)) ∧
    (xdh [] ellA ellB (Bytes.be32 7) 0 (some hashBip324)).ret = 1 ∧
    (xdh [] ellA ellB (Bytes.be32 8) 1 (some hashBip324)).ret = 1 ∧
    (xdh [] ellA ellB (Bytes.be32 7) 0 (some hashBip324)).out =
      (xdh [] ellA ellB (Bytes.be32 8) 1 (some hashBip324)).out := by
  obtain ⟨vA, rA, hcA, huA⟩ := create_example 7 (Or.inl rfl)
  obtain ⟨vB, rB, hcB, huB⟩ := create_example 8 (Or.inr rfl)
  obtain ⟨_, _, _, _, dA⟩ := decode_create_partial hcA
  obtain ⟨_, _, _, _, dB⟩ := decode_create_partial hcB
  have hdA := congrArg Ret.out (dA vA huA)
  have hdB := congrArg Ret.out (dB vB huB)
  simp only at hdA hdB
  obtain ⟨r1, r2, o1, o2⟩ := xdh_agree_partial [] rA.out rB.out _ _ hashBip324 vA vB hdA hdB
  refine ⟨rA.out, rB.out, hdA, hdB, ?_, ?_, by rw [o1, o2]⟩
  · rw [r1]; rfl
  · rw [r2]; rfl

end C18
end SecpZkp
