import SecpZkp.Gen.Guards
/-! # C11 — the argument checks the model assumes are present at the C call sites (translator mode G)

`Gen.callFacts` is regenerated from clang's AST of /repo on every run (tools/c2lean_g.py): one fact per call of a
fallible primitive (range-checked field/scalar decoding, curve membership, infinity / zero tests, nested parsers)
inside the functions this property is anchored in, saying whether the call's result steers control flow
(`resultChecked`) and whether the overflow flag it writes is read before being overwritten (`flag = some true`;
`none` = the call passes NULL, i.e. reduces silently).  The executable model rejects out-of-range encodings at
exactly these places; the theorems below pin the C side to the same shape.  A fact list that no longer matches
is a broken tie (the check then searches for a failing input with the differential generators). -/
namespace SecpZkp.Props.C11_guards
open SecpZkp.Gen

/-- `secp256k1_surjectionproof_verify`: its fallible-primitive call sites are exactly these, each with its result / overflow flag
    consumed as listed. -/
theorem surjectionproof_verify_sites : Facts.surjectionproof_verify = [
    ⟨.scalar_set_b32, 1, false, some true⟩,
    ⟨.borromean_verify, 1, true, none⟩
  ] := by decide

/-- `secp256k1_surjectionproof_generate`: its fallible-primitive call sites are exactly these, each with its result / overflow flag
    consumed as listed. -/
theorem surjectionproof_generate_sites : Facts.surjectionproof_generate = [
    ⟨.ecmult_gen_context_is_built, 1, true, none⟩,
    ⟨.scalar_set_b32, 1, false, some true⟩,
    ⟨.scalar_set_b32, 2, false, some true⟩,
    ⟨.memcmp_var, 1, true, none⟩
  ] := by decide

/-- `secp256k1_surjection_genrand`: its fallible-primitive call sites are exactly these, each with its result / overflow flag
    consumed as listed. -/
theorem surjection_genrand_sites : Facts.surjection_genrand = [
    ⟨.scalar_set_b32, 1, false, some true⟩
  ] := by decide

def all : List CallFact := Facts.surjectionproof_verify ++ Facts.surjectionproof_generate ++ Facts.surjection_genrand

/-- No overflow flag written by a scalar decoding in these functions is ignored (overwritten or never read). -/
theorem no_flag_dropped : ∀ f ∈ all, f.flag ≠ some false := by decide

/-- non-vacuity: the regenerated fact lists are not empty -/
example : all.length = 7 := by decide

end SecpZkp.Props.C11_guards
