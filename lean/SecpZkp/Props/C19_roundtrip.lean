/-
  C19 / C07 (part "round trips"): the 33-byte generator and commitment encodings round-trip exactly, for
  EVERY finite curve point and EVERY accepted byte string, and therefore so do generator lists of every
  length.  This is the only part of the parser theorems that needs number theory (`P` prime, `P ≡ 3 mod 4`,
  `-7` is not a cube mod `P`); the proofs are in `SecpZkp/Proofs/ParsersNT.lean` (Mathlib: `ZMod P`).
-/
import SecpZkp.Proofs.ParsersNT
import SecpZkp.Props.C19_codec

namespace SecpZkp
namespace C19

open Bppp Parsers

/-- **`secp256k1_generator_parse ∘ secp256k1_generator_serialize = id`** on all generator objects (finite
points on the curve with reduced coordinates). -/
theorem generator_serialize_parse (g : Pt) (h : FinValid g) :
    Generator.parse (Generator.serialize g) = some g := generator_roundtrip g h

/-- **`secp256k1_generator_serialize ∘ secp256k1_generator_parse = id`** on all accepted 33-byte strings:
the generator encoding is canonical. -/
theorem generator_parse_serialize' (c : Bytes) (g : Pt) (hlen : c.length = 33)
    (h : Generator.parse c = some g) : Generator.serialize g = c := generator_parse_serialize c g hlen h

example : FinValid Generator.H := by decide +kernel
example : FinValid Pt.G := by decide +kernel

/-- **`gens_serialize_parse`, unconditional form.** For every list of generator objects (any length) and
every buffer of at least `33 * n` bytes: `generators_serialize` returns 1 with `*data_len = 33 * n`, and
`generators_parse` of the bytes written returns the same list. -/
theorem gens_serialize_parse_valid (gs : List Pt) (b : Bytes) (dataLen : Nat) (hlen : 33 * gs.length ≤ dataLen)
    (hv : ∀ g ∈ gs, FinValid g) :
    ∃ out, gensSerialize (some gs) (some b) dataLen = ⟨1, (some out, 33 * gs.length), 0⟩ ∧
      gensParse (some (out.take (33 * gs.length))) = ⟨1, some gs, 0⟩ :=
  gens_serialize_parse gs b dataLen hlen (fun g hg => generator_roundtrip g (hv g hg))

example : ∀ g ∈ [Generator.H, Pt.G, Generator.H], FinValid g := by decide +kernel

/-- **`gens_parse_serialize`, unconditional form.** If `generators_parse` accepts `d`, serializing the
resulting list gives back exactly `d`: the list encoding is canonical. -/
theorem gens_parse_serialize_bytes (d : Bytes) (l : List Pt) (h : gensParse (some d) = ⟨1, some l, 0⟩) :
    l.flatMap Generator.serialize = d :=
  gens_parse_serialize d l h (fun c g hc hp => generator_parse_serialize c g hc hp)

/-- **Pedersen commitments**: `load (save p) = p` for every finite curve point, and for every 33-byte string
accepted by `secp256k1_pedersen_commitment_parse`, `save (load c) = c`. -/
theorem commitment_roundtrip :
    (∀ p, FinValid p → Generator.commitLoad (Generator.commitSave p) = p) ∧
    (∀ c o, c.length = 33 → Generator.commitParse c = some o →
      Generator.commitSave (Generator.commitLoad o) = c) :=
  ⟨commit_load_save, commit_save_load⟩

end C19
end SecpZkp
