import SecpZkp.Proofs.GroupIR
/-
  C05 (group level): the group-level C functions of src/group_impl.h, as translated into `Gen/F_group.lean`
  (programs over field VALUES with the magnitude contract of src/field.h, semantics `FeIR.execL`), compute the
  affine group law `Pt.add` / `Pt.dbl` / `Pt.neg` of `Model/Curve.lean`, and never violate a magnitude precondition
  of a field primitive.

  Reading guide.
  * `RepJ st "a" p mx my mz` (Proofs/GroupIR.lean): the Jacobian variable `a` of the state (`a.x a.y a.z a.infinity`)
    represents the model point `p`: the flag is 0 or 1; flag 1 means `p = ∞`; flag 0 means `z ≠ 0 (mod P)` and
    `p = Jac.toPt ⟨x, y, z⟩ = (x/z², y/z³)`; the magnitudes of `a.x a.y a.z` are at most `mx my mz`
    (also when the flag is 1, as in `SECP256K1_GEJ_VERIFY`).
  * `RepA st "b" q mx my`: the same for an affine variable (`b.x b.y b.infinity`), `q = (x mod P, y mod P)`.
  * The C contract: gej magnitudes x ≤ 4, y ≤ 4, z ≤ 1; ge magnitudes x ≤ 4, y ≤ 3.
  * Every theorem has the form: for EVERY state whose inputs represent valid points within the contract,
    `execL st body = some st'` (execution succeeds: the static version of the VERIFY build's magnitude checks) and
    the outputs in `st'` represent the right point within the contract.
  * `st.returned = false`: the function is entered normally (the `returned` flag is internal to `execL`).
-/
namespace SecpZkp.C05grp
open SecpZkp SecpZkp.FeIR SecpZkp.MiniC

local macro "mg" : tactic => `(tactic| (dsimp only; omega))
local macro "casts" "[" ts:Lean.Parser.Tactic.simpLemma,* "]" : tactic =>
  `(tactic| simp only [Fe.cast_add, Fe.cast_mul, Fe.cast_sqr, Fe.cast_neg, cast_half_canon, cast_canon,
      Nat.cast_ofNat, Nat.cast_one, $ts,*])

/-! ## Concrete states for the non-vacuity examples -/

/-- a 3rd root of unity mod `P` (the `beta` of the endomorphism): `(β·Gx, -Gy)` is a curve point with `y = -Gy`, `x ≠ Gx` -/
def beta : ℕ := 0x7ae96a2b657c07106e64479eac3434e99cf0497512f58995c1396c28719501ee

/-- Jacobian variable `pre` := `(x·z², y·z³, z)` with maximal magnitudes 4, 4, 1 -/
def jacVars (pre : String) (x y z : ℕ) : FeEnv :=
  [(pre ++ ".x", ⟨Fe.mul x (Fe.sqr z), 4⟩), (pre ++ ".y", ⟨Fe.mul y (Fe.mul (Fe.sqr z) z), 4⟩), (pre ++ ".z", ⟨z, 1⟩)]

/-- affine variable `pre` := `(x, y)` with maximal magnitudes 4, 3 -/
def affVars (pre : String) (x y : ℕ) : FeEnv := [(pre ++ ".x", ⟨x, 4⟩), (pre ++ ".y", ⟨y, 3⟩)]

/-- the generator with `z = 2`, as the Jacobian variable `pre` -/
def stJ (pre : String) (inf : ℕ) : State := ⟨jacVars pre Pt.Gx Pt.Gy 2, [((pre ++ ".infinity", 0), inf)], false⟩

/-- Jacobian `pre` = G (with `z = 3`), affine `b = (bx, by)` -/
def stJA (pre : String) (inf bx by' : ℕ) : State :=
  ⟨jacVars pre Pt.Gx Pt.Gy 3 ++ affVars "b" bx by', [((pre ++ ".infinity", 0), inf), (("b.infinity", 0), 0)], false⟩

/-! ## 1. Doubling -/

set_option hygiene false in
local macro "double_proof" ax:str ay:str az:str fn:ident : tactic => `(tactic| (
  obtain ⟨fe, ints, ret⟩ := st
  simp only at hret; subst hret
  simp only [RepJ, String.reduceAppend] at ha
  generalize hx : fe.get $ax = ax at ha; obtain ⟨X, mx⟩ := ax
  generalize hy : fe.get $ay = ay at ha; obtain ⟨Y, my⟩ := ay
  generalize hz : fe.get $az = az at ha; obtain ⟨Z, mz⟩ := az
  obtain ⟨h1, h2, h3, h4⟩ := ha.elim
  simp only at h1 h2 h3 h4
  fe_exec [$fn:ident, hx, hy, hz]
  refine ⟨_, rfl, ?_⟩
  fe_get []
  rcases h4 with ⟨hi, rfl⟩ | ⟨hi, hzc, a, b, hab, hX, hY⟩
  · exact RepJ'.inf (by mg) (by mg) (by mg) hi rfl
  · have hc := hab.valid_iff.1 hv
    have hb := y_ne_zero_of_curve hc
    have h2' : (2 : ZMod P) ≠ 0 := zmodP_two_ne_zero
    refine RepJ'.fin (by mg) (by mg) (by mg) hi (hab.dbl hc) ?_ ?_ ?_
    · casts [hY]
      exact mul_ne_zero hzc (mul_ne_zero hb (mul_ne_zero (mul_ne_zero hzc hzc) hzc))
    · casts [hX, hY]
      field_simp
      ring
    · casts [hX, hY]
      field_simp
      ring))

/-- `secp256k1_gej_double(r, a)`: for a valid point `p` (or infinity) held in `a` within the contract, execution
    succeeds and `r` holds `2·p` within the contract (in fact magnitudes 3, 3, 1).  The C code copies the infinity flag;
    this is right because a valid finite point of secp256k1 has `y ≠ 0` (no 2-torsion). -/
theorem gej_double_correct (st : State) (p : Pt) (hret : st.returned = false)
    (ha : RepJ st "a" p 4 4 1) (hv : p.valid = true) :
    ∃ st', FeIR.execL st Gen.group.gej_double.body = some st' ∧ RepJ st' "r" (Pt.dbl p) 4 4 1 := by
  double_proof "a.x" "a.y" "a.z" Gen.group.gej_double

set_option maxRecDepth 100000 in
/-- non-vacuity: G with `z = 2` (maximal magnitudes) satisfies the hypotheses -/
example : (stJ "a" 0).returned = false ∧ RepJ (stJ "a" 0) "a" Pt.G 4 4 1 ∧ Pt.G.valid = true := by decide +kernel
set_option maxRecDepth 100000 in
/-- … and the kernel evaluates the program on it: success, and the result represents `2·G` -/
example : ∃ st', FeIR.execL (stJ "a" 0) Gen.group.gej_double.body = some st' ∧ RepJ st' "r" (Pt.dbl Pt.G) 4 4 1 :=
  ⟨(FeIR.execL (stJ "a" 0) Gen.group.gej_double.body).get (by decide +kernel), by simp, by decide +kernel⟩
set_option maxRecDepth 100000 in
/-- non-vacuity, infinity -/
example : RepJ (stJ "a" 1) "a" Pt.inf 4 4 1 := by decide +kernel

/-- `secp256k1_gej_double(r, r)` (in place) -/
theorem gej_double_inplace_correct (st : State) (p : Pt) (hret : st.returned = false)
    (ha : RepJ st "r" p 4 4 1) (hv : p.valid = true) :
    ∃ st', FeIR.execL st Gen.group.gej_double_inplace.body = some st' ∧ RepJ st' "r" (Pt.dbl p) 4 4 1 := by
  double_proof "r.x" "r.y" "r.z" Gen.group.gej_double_inplace

set_option maxRecDepth 100000 in
example : (stJ "r" 0).returned = false ∧ RepJ (stJ "r" 0) "r" Pt.G 4 4 1 ∧ Pt.G.valid = true := by decide +kernel
set_option maxRecDepth 100000 in
example : ∃ st', FeIR.execL (stJ "r" 0) Gen.group.gej_double_inplace.body = some st' ∧
    RepJ st' "r" (Pt.dbl Pt.G) 4 4 1 :=
  ⟨(FeIR.execL (stJ "r" 0) Gen.group.gej_double_inplace.body).get (by decide +kernel), by simp, by decide +kernel⟩

/-! ## 2. The complete constant-time addition `secp256k1_gej_add_ge` -/

set_option hygiene false in
local macro "add_ge_proof" ax:str ay:str az:str ainf:str fn:ident : tactic => `(tactic| (
  obtain ⟨fe, ints, ret⟩ := st
  simp only at hret hbinf; subst hret
  simp only [RepJ, RepA, String.reduceAppend] at ha hb
  generalize hx : fe.get $ax = ax at ha; obtain ⟨X, mx⟩ := ax
  generalize hy : fe.get $ay = ay at ha; obtain ⟨Y, my⟩ := ay
  generalize hz : fe.get $az = az at ha; obtain ⟨Z, mz⟩ := az
  generalize hbx : fe.get "b.x" = bx at hb; obtain ⟨Bx, mbx⟩ := bx
  generalize hby : fe.get "b.y" = by' at hb; obtain ⟨By, mby⟩ := by'
  obtain ⟨h1, h2, h3, h4⟩ := ha.elim
  obtain ⟨h5, h6, h7⟩ := hb.elim
  simp only at h1 h2 h3 h4 h5 h6 h7
  rcases h7 with ⟨h7, _⟩ | ⟨_, hq⟩
  · omega
  have hle : ints.get $ainf 0 ≤ 1 := by rcases h4 with ⟨hi, _⟩ | ⟨hi, _⟩ <;> omega
  fe_exec [$fn:ident, hx, hy, hz, hbx, hby, one_lt_P]
  refine ⟨_, rfl, ?_⟩
  fe_get []
  have h2' : (2 : ZMod P) ≠ 0 := zmodP_two_ne_zero
  rcases h4 with ⟨hi, rfl⟩ | ⟨hi, hzc, a, b, hab, hX, hY⟩
  · -- a is infinity: the result is (b.x, b.y, 1)
    simp only [hi, eq_self, if_true]
    have hadd : Pt.add .inf q = q := by cases q <;> rfl
    rw [hadd]
    refine RepJ'.isZero_fin (by mg) (by mg) (by mg) hq ?_ ?_ ?_
    · dsimp only; rw [Nat.cast_one]; exact one_ne_zero
    · dsimp only; rw [Nat.cast_one]; ring
    · dsimp only; rw [Nat.cast_one]; ring
  · have hc1 := hab.valid_iff.1 hvp
    have hc2 := hq.valid_iff.1 hvq
    obtain ⟨z, hz'⟩ : ∃ z : ZMod P, (Z : ZMod P) = z := ⟨_, rfl⟩
    obtain ⟨c, hc'⟩ : ∃ c : ZMod P, (Bx : ZMod P) = c := ⟨_, rfl⟩
    obtain ⟨d, hd'⟩ : ∃ d : ZMod P, (By : ZMod P) = d := ⟨_, rfl⟩
    rw [hz'] at hzc hX hY
    rw [hc', hd'] at hq hc2
    have hz3 : z * z * z ≠ 0 := mul_ne_zero (mul_ne_zero hzc hzc) hzc
    have hMc : ((Fe.add Y (Fe.mul (Fe.mul By (Fe.sqr Z)) Z) : ℕ) : ZMod P) = (b + d) * (z * z * z) := by
      casts [hX, hY, hz', hc', hd']; ring
    by_cases hM : canon (Fe.add Y (Fe.mul (Fe.mul By (Fe.sqr Z)) Z)) = 0
    · -- `degenerate`: y1 = -y2
      have hbd : b + d = 0 := by
        have hM' := hM
        rw [canon_eq_zero_iff, hMc] at hM'
        exact (mul_eq_zero.1 hM').resolve_right hz3
      obtain rfl : d = -b := by linear_combination hbd
      simp only [hi, hM, zero_ne_one, if_false, not_true_eq_false, if_true]
      by_cases hac : a = c
      · -- a = -b: infinity (r.z = 0)
        refine RepJ'.isZero_inf (by mg) (by mg) (by mg) ?_ (hab.add_neg (hac ▸ hq))
        dsimp only; casts [hX, hY, hz', hc', hd', hac]; ring
      · -- y1 = -y2, x1 ≠ x2: the alternative expression for lambda
        have hca : c - a ≠ 0 := sub_ne_zero.2 (Ne.symm hac)
        have hl : (-b - b) * (c - a)⁻¹ * (c - a) = -b - b := by field_simp
        have hR : b * (z * z * z) * 2 = (-b - b) * (c - a)⁻¹ * z * (-(c * (z * z)) + a * (z * z)) := by
          linear_combination (z * z * z) * hl
        refine RepJ'.isZero_fin (by mg) (by mg) (by mg) (hab.add_ne hq hac) ?_ ?_ ?_
        · dsimp only; casts [hX, hY, hz', hc', hd']
          have : z * (-(c * (z * z)) + a * (z * z)) = (z * z * z) * (a - c) := by ring
          rw [this]; exact mul_ne_zero hz3 (sub_ne_zero.2 hac)
        · dsimp only; casts [hX, hY, hz', hc', hd']
          linear_combination jac_add_x a c z _ _ _ hR
        · dsimp only; apply half_eq_of_two_mul; casts [hX, hY, hz', hc', hd']
          linear_combination jac_add_y a b c (-b) z _ _ _ (b * (z * z * z) + -b * (z * z) * z) hR (by ring) hl
    · -- y1 ≠ -y2: the unified formula
      have hbd : b + d ≠ 0 := by
        intro h0; apply hM; rw [canon_eq_zero_iff, hMc, h0, zero_mul]
      simp only [hi, hM, zero_ne_one, if_false, not_false_eq_true, if_true]
      have hz4 : z * (b * (z * z * z) + d * (z * z) * z) ≠ 0 := by
        have : z * (b * (z * z * z) + d * (z * z) * z) = z * ((b + d) * (z * z * z)) := by ring
        rw [this]; exact mul_ne_zero hzc (mul_ne_zero hbd hz3)
      by_cases hac : a = c
      · -- doubling through the unified formula
        subst hac
        have hdb : d = b := by
          rcases curve_same_x hc1 hc2 with h | h
          · exact h
          · exact absurd (by rw [h]; ring) hbd
        subst hdb
        have hb0 : d ≠ 0 := y_ne_zero_of_curve hc1
        rw [hab.add_same hq hc1]
        have hl2 : 3 * (a * a) * (2 * d)⁻¹ * (2 * d) = 3 * (a * a) := by field_simp
        have hR : (a * (z * z) + a * (z * z)) * (a * (z * z) + a * (z * z)) + a * (z * z) * -(a * (z * z)) =
            3 * (a * a) * (2 * d)⁻¹ * z * (d * (z * z * z) + d * (z * z) * z) := by
          linear_combination (-(z ^ 4)) * hl2
        refine RepJ'.isZero_fin (by mg) (by mg) (by mg) (hab.dbl hc1) ?_ ?_ ?_
        · dsimp only; casts [hX, hY, hz', hc', hd']; exact hz4
        · dsimp only; casts [hX, hY, hz', hc', hd']
          linear_combination jac_add_x a a z _ _ _ hR
        · dsimp only; apply half_eq_of_two_mul; casts [hX, hY, hz', hc', hd']
          linear_combination jac_add_y a d a d z _ _ _
            ((d * (z * z * z) + d * (z * z) * z) * (d * (z * z * z) + d * (z * z) * z) *
              ((d * (z * z * z) + d * (z * z) * z) * (d * (z * z * z) + d * (z * z) * z))) hR (by ring) (by ring)
      · -- generic chord: (x1² + x1x2 + x2²)/(y1 + y2) = (y2 - y1)/(x2 - x1) by the curve equation
        have hca : c - a ≠ 0 := sub_ne_zero.2 (Ne.symm hac)
        have hl : (d - b) * (c - a)⁻¹ * (c - a) = d - b := by field_simp
        have hl2 : a * a + a * c + c * c = (d - b) * (c - a)⁻¹ * (b + d) := by
          have : (c - a) * (a * a + a * c + c * c - (d - b) * (c - a)⁻¹ * (b + d)) = 0 := by
            linear_combination -hc2 + hc1 - (b + d) * hl
          exact sub_eq_zero.1 ((mul_eq_zero.1 this).resolve_left hca)
        have hR : (a * (z * z) + c * (z * z)) * (a * (z * z) + c * (z * z)) + a * (z * z) * -(c * (z * z)) =
            (d - b) * (c - a)⁻¹ * z * (b * (z * z * z) + d * (z * z) * z) := by
          linear_combination (z ^ 4) * hl2
        refine RepJ'.isZero_fin (by mg) (by mg) (by mg) (hab.add_ne hq hac) ?_ ?_ ?_
        · dsimp only; casts [hX, hY, hz', hc', hd']; exact hz4
        · dsimp only; casts [hX, hY, hz', hc', hd']
          linear_combination jac_add_x a c z _ _ _ hR
        · dsimp only; apply half_eq_of_two_mul; casts [hX, hY, hz', hc', hd']
          linear_combination jac_add_y a b c d z _ _ _
            ((b * (z * z * z) + d * (z * z) * z) * (b * (z * z * z) + d * (z * z) * z) *
              ((b * (z * z * z) + d * (z * z) * z) * (b * (z * z * z) + d * (z * z) * z))) hR (by ring) hl))

set_option maxHeartbeats 1000000 in
/-- `secp256k1_gej_add_ge(r, a, b)` (complete, constant time): `a` holds a valid point `p` or infinity, `b` holds a valid
    finite point `q` (the C precondition `!b->infinity`), both within the contract.  Execution succeeds and `r` holds
    `p + q` within the contract, in ALL cases: generic chord, `p = q` (doubling through the unified formula),
    `p = -q` (`r.infinity = 1`), `a` infinity (`r = (b.x, b.y, 1)`), and `y1 = -y2, x1 ≠ x2` (`degenerate`: the
    alternative expression for lambda, selected by cmov). -/
theorem gej_add_ge_correct (st : State) (p q : Pt) (hret : st.returned = false)
    (ha : RepJ st "a" p 4 4 1) (hb : RepA st "b" q 4 3) (hbinf : st.ints.get "b.infinity" 0 = 0)
    (hvp : p.valid = true) (hvq : q.valid = true) :
    ∃ st', FeIR.execL st Gen.group.gej_add_ge.body = some st' ∧ RepJ st' "r" (Pt.add p q) 4 4 1 := by
  add_ge_proof "a.x" "a.y" "a.z" "a.infinity" Gen.group.gej_add_ge


/-- `2·G`, for the generic-chord example -/
def G2 : Pt := Pt.dbl Pt.G

set_option maxRecDepth 100000 in
/-- non-vacuity (generic chord): `a = G` (z = 3, maximal magnitudes), `b = 2·G` -/
example : let st := stJA "a" 0 (Pt.xOf G2) (Pt.yOf G2)
    st.returned = false ∧ RepJ st "a" Pt.G 4 4 1 ∧ RepA st "b" G2 4 3 ∧ st.ints.get "b.infinity" 0 = 0 ∧
    Pt.G.valid = true ∧ G2.valid = true := by decide +kernel
set_option maxRecDepth 100000 in
/-- the kernel evaluates the program on it: the result represents `G + 2·G` -/
example : ∃ st', FeIR.execL (stJA "a" 0 (Pt.xOf G2) (Pt.yOf G2)) Gen.group.gej_add_ge.body = some st' ∧
    RepJ st' "r" (Pt.add Pt.G G2) 4 4 1 :=
  ⟨(FeIR.execL (stJA "a" 0 (Pt.xOf G2) (Pt.yOf G2)) Gen.group.gej_add_ge.body).get (by decide +kernel), by simp,
    by decide +kernel⟩
set_option maxRecDepth 100000 in
/-- non-vacuity (doubling, `p = q = G`) with evaluation: the result represents `2·G` -/
example : let st := stJA "a" 0 Pt.Gx Pt.Gy
    (RepJ st "a" Pt.G 4 4 1 ∧ RepA st "b" Pt.G 4 3) ∧
    ((FeIR.execL st Gen.group.gej_add_ge.body).map fun st' => decide (RepJ st' "r" G2 4 4 1)) = some true := by
  decide +kernel
set_option maxRecDepth 100000 in
/-- non-vacuity (`p = -q`): the result is infinity -/
example : let st := stJA "a" 0 Pt.Gx (P - Pt.Gy)
    (RepJ st "a" Pt.G 4 4 1 ∧ RepA st "b" (Pt.neg Pt.G) 4 3 ∧ (Pt.neg Pt.G).valid = true) ∧
    ((FeIR.execL st Gen.group.gej_add_ge.body).map fun st' => decide (RepJ st' "r" Pt.inf 4 4 1)) = some true := by
  decide +kernel
set_option maxRecDepth 100000 in
/-- non-vacuity (`degenerate`: `y1 = -y2`, `x1 ≠ x2`): `b = (β·Gx, -Gy)` -/
example : let st := stJA "a" 0 (Fe.mul beta Pt.Gx) (P - Pt.Gy)
    let q := Pt.aff (Fe.mul beta Pt.Gx) (P - Pt.Gy)
    (RepJ st "a" Pt.G 4 4 1 ∧ RepA st "b" q 4 3 ∧ q.valid = true ∧ Pt.add Pt.G q ≠ Pt.inf) ∧
    ((FeIR.execL st Gen.group.gej_add_ge.body).map fun st' => decide (RepJ st' "r" (Pt.add Pt.G q) 4 4 1)) =
      some true := by
  decide +kernel
set_option maxRecDepth 100000 in
/-- non-vacuity (`a` infinity): the result is `b` -/
example : let st := stJA "a" 1 Pt.Gx Pt.Gy
    (RepJ st "a" Pt.inf 4 4 1 ∧ RepA st "b" Pt.G 4 3) ∧
    ((FeIR.execL st Gen.group.gej_add_ge.body).map fun st' => decide (RepJ st' "r" Pt.G 4 4 1)) = some true := by
  decide +kernel

set_option maxHeartbeats 1000000 in
/-- `secp256k1_gej_add_ge(r, r, b)` (in place) -/
theorem gej_add_ge_inplace_correct (st : State) (p q : Pt) (hret : st.returned = false)
    (ha : RepJ st "r" p 4 4 1) (hb : RepA st "b" q 4 3) (hbinf : st.ints.get "b.infinity" 0 = 0)
    (hvp : p.valid = true) (hvq : q.valid = true) :
    ∃ st', FeIR.execL st Gen.group.gej_add_ge_inplace.body = some st' ∧ RepJ st' "r" (Pt.add p q) 4 4 1 := by
  add_ge_proof "r.x" "r.y" "r.z" "r.infinity" Gen.group.gej_add_ge_inplace

set_option maxRecDepth 100000 in
example : let st := stJA "r" 0 (Pt.xOf G2) (Pt.yOf G2)
    (st.returned = false ∧ RepJ st "r" Pt.G 4 4 1 ∧ RepA st "b" G2 4 3 ∧ st.ints.get "b.infinity" 0 = 0 ∧
      Pt.G.valid = true ∧ G2.valid = true) ∧
    ((FeIR.execL st Gen.group.gej_add_ge_inplace.body).map fun st' =>
      decide (RepJ st' "r" (Pt.add Pt.G G2) 4 4 1)) = some true := by
  decide +kernel

/-! ## 4. Negation, conversions, rescaling, predicates -/

/-- `secp256k1_gej_neg(r, a)`: `r` holds `-p` (y is normalized, then negated: magnitude 2). -/
theorem gej_neg_correct (st : State) (p : Pt) (hret : st.returned = false) (ha : RepJ st "a" p 4 4 1) :
    ∃ st', FeIR.execL st Gen.group.gej_neg.body = some st' ∧ RepJ st' "r" (Pt.neg p) 4 4 1 := by
  obtain ⟨fe, ints, ret⟩ := st
  simp only at hret; subst hret
  simp only [RepJ, String.reduceAppend] at ha
  generalize hx : fe.get "a.x" = ax at ha; obtain ⟨X, mx⟩ := ax
  generalize hy : fe.get "a.y" = ay at ha; obtain ⟨Y, my⟩ := ay
  generalize hz : fe.get "a.z" = az at ha; obtain ⟨Z, mz⟩ := az
  obtain ⟨h1, h2, h3, h4⟩ := ha.elim
  simp only at h1 h2 h3 h4
  fe_exec [Gen.group.gej_neg, hx, hy, hz]
  refine ⟨_, rfl, ?_⟩
  fe_get []
  rcases h4 with ⟨hi, rfl⟩ | ⟨hi, hzc, a, b, hab, hX, hY⟩
  · exact RepJ'.inf (by mg) (by mg) (by mg) hi rfl
  · refine RepJ'.fin (by mg) (by mg) (by mg) hi hab.neg hzc hX ?_
    casts [hY]; ring

set_option maxRecDepth 100000 in
example : (stJ "a" 0).returned = false ∧ RepJ (stJ "a" 0) "a" Pt.G 4 4 1 := by decide +kernel
set_option maxRecDepth 100000 in
example : ∃ st', FeIR.execL (stJ "a" 0) Gen.group.gej_neg.body = some st' ∧ RepJ st' "r" (Pt.neg Pt.G) 4 4 1 :=
  ⟨(FeIR.execL (stJ "a" 0) Gen.group.gej_neg.body).get (by decide +kernel), by simp, by decide +kernel⟩

/-- `secp256k1_ge_neg(r, a)` -/
theorem ge_neg_correct (st : State) (p : Pt) (hret : st.returned = false) (ha : RepA st "a" p 4 3) :
    ∃ st', FeIR.execL st Gen.group.ge_neg.body = some st' ∧ RepA st' "r" (Pt.neg p) 4 3 := by
  obtain ⟨fe, ints, ret⟩ := st
  simp only at hret; subst hret
  simp only [RepA, String.reduceAppend] at ha
  generalize hx : fe.get "a.x" = ax at ha; obtain ⟨X, mx⟩ := ax
  generalize hy : fe.get "a.y" = ay at ha; obtain ⟨Y, my⟩ := ay
  obtain ⟨h1, h2, h3⟩ := ha.elim
  simp only at h1 h2 h3
  fe_exec [Gen.group.ge_neg, hx, hy]
  refine ⟨_, rfl, ?_⟩
  fe_get []
  rcases h3 with ⟨hi, rfl⟩ | ⟨hi, hq⟩
  · exact RepA'.inf (by mg) (by mg) hi rfl
  · refine RepA'.fin (by mg) (by mg) hi (hq.neg.congr rfl ?_)
    casts []

/-- the generator as the affine variable `a` -/
def stA (inf : ℕ) : State := ⟨affVars "a" Pt.Gx Pt.Gy, [(("a.infinity", 0), inf)], false⟩

set_option maxRecDepth 100000 in
example : (stA 0).returned = false ∧ RepA (stA 0) "a" Pt.G 4 3 := by decide +kernel
set_option maxRecDepth 100000 in
example : ∃ st', FeIR.execL (stA 0) Gen.group.ge_neg.body = some st' ∧ RepA st' "r" (Pt.neg Pt.G) 4 3 :=
  ⟨(FeIR.execL (stA 0) Gen.group.ge_neg.body).get (by decide +kernel), by simp, by decide +kernel⟩

/-- `secp256k1_gej_set_ge(r, a)`: the same point, `z = 1` -/
theorem gej_set_ge_correct (st : State) (p : Pt) (hret : st.returned = false) (ha : RepA st "a" p 4 3) :
    ∃ st', FeIR.execL st Gen.group.gej_set_ge.body = some st' ∧ RepJ st' "r" p 4 4 1 := by
  obtain ⟨fe, ints, ret⟩ := st
  simp only at hret; subst hret
  simp only [RepA, String.reduceAppend] at ha
  generalize hx : fe.get "a.x" = ax at ha; obtain ⟨X, mx⟩ := ax
  generalize hy : fe.get "a.y" = ay at ha; obtain ⟨Y, my⟩ := ay
  obtain ⟨h1, h2, h3⟩ := ha.elim
  simp only at h1 h2 h3
  fe_exec [Gen.group.gej_set_ge, hx, hy]
  refine ⟨_, rfl, ?_⟩
  fe_get []
  rcases h3 with ⟨hi, rfl⟩ | ⟨hi, hq⟩
  · exact RepJ'.inf (by mg) (by mg) (by mg) hi rfl
  · refine RepJ'.fin (by mg) (by mg) (by mg) hi hq ?_ ?_ ?_
    · dsimp only; rw [Nat.cast_one]; exact one_ne_zero
    · dsimp only; rw [Nat.cast_one]; ring
    · dsimp only; rw [Nat.cast_one]; ring

set_option maxRecDepth 100000 in
example : ∃ st', FeIR.execL (stA 0) Gen.group.gej_set_ge.body = some st' ∧ RepJ st' "r" Pt.G 4 4 1 :=
  ⟨(FeIR.execL (stA 0) Gen.group.gej_set_ge.body).get (by decide +kernel), by simp, by decide +kernel⟩

/-- `secp256k1_gej_rescale(r, s)` for `s ≠ 0`: the same point, with `z` multiplied by `s` -/
theorem gej_rescale_correct (st : State) (p : Pt) (hret : st.returned = false) (ha : RepJ st "r" p 4 4 1)
    (hs : (st.fe.get "s").mag ≤ 8) (hs0 : (st.fe.get "s").val % P ≠ 0) :
    ∃ st', FeIR.execL st Gen.group.gej_rescale.body = some st' ∧ RepJ st' "r" p 4 4 1 ∧
      (st'.fe.get "r.z").val = Fe.mul (st.fe.get "r.z").val (st.fe.get "s").val := by
  obtain ⟨fe, ints, ret⟩ := st
  simp only at hret hs hs0; subst hret
  simp only [RepJ, String.reduceAppend] at ha
  generalize hx : fe.get "r.x" = ax at ha; obtain ⟨X, mx⟩ := ax
  generalize hy : fe.get "r.y" = ay at ha; obtain ⟨Y, my⟩ := ay
  generalize hz : fe.get "r.z" = az at ha; obtain ⟨Z, mz⟩ := az
  generalize hsv : fe.get "s" = sv at hs hs0; obtain ⟨S, ms⟩ := sv
  obtain ⟨h1, h2, h3, h4⟩ := ha.elim
  simp only at h1 h2 h3 h4 hs hs0
  have hsc : (S : ZMod P) ≠ 0 := cast_ne_zero_of_mod hs0
  fe_exec [Gen.group.gej_rescale, hx, hy, hz, hsv]
  refine ⟨_, rfl, ?_, ?_⟩
  · fe_get []
    rcases h4 with ⟨hi, rfl⟩ | ⟨hi, hzc, a, b, hab, hX, hY⟩
    · exact RepJ'.inf (by mg) (by mg) (by mg) hi rfl
    · refine RepJ'.fin (by mg) (by mg) (by mg) hi hab ?_ ?_ ?_
      · casts []; exact mul_ne_zero hzc hsc
      · casts [hX]; ring
      · casts [hY]; ring
  · fe_get [hz]

/-- G (`z = 2`) in `r`, and `s = 5` -/
def stRescale : State :=
  ⟨jacVars "r" Pt.Gx Pt.Gy 2 ++ [("s", ⟨5, 8⟩)], [(("r.infinity", 0), 0)], false⟩
set_option maxRecDepth 100000 in
example : stRescale.returned = false ∧ RepJ stRescale "r" Pt.G 4 4 1 ∧ (stRescale.fe.get "s").mag ≤ 8 ∧
    (stRescale.fe.get "s").val % P ≠ 0 := by decide +kernel
set_option maxRecDepth 100000 in
example : ∃ st', FeIR.execL stRescale Gen.group.gej_rescale.body = some st' ∧ RepJ st' "r" Pt.G 4 4 1 ∧
    (st'.fe.get "r.z").val = 10 :=
  ⟨(FeIR.execL stRescale Gen.group.gej_rescale.body).get (by decide +kernel), by simp, by decide +kernel,
    by decide +kernel⟩

/-- `secp256k1_ge_set_gej_zinv(r, a, zi)` with `zi = 1/z`: `r` holds the affine coordinates of the point of `a` -/
theorem ge_set_gej_zinv_correct (st : State) (p : Pt) (hret : st.returned = false) (ha : RepJ st "a" p 4 4 1)
    (hzi : (st.fe.get "zi").mag ≤ 8)
    (hinv : st.ints.get "a.infinity" 0 = 0 → ((st.fe.get "zi").val * (st.fe.get "a.z").val) % P = 1) :
    ∃ st', FeIR.execL st Gen.group.ge_set_gej_zinv.body = some st' ∧ RepA st' "r" p 4 3 := by
  obtain ⟨fe, ints, ret⟩ := st
  simp only at hret hzi hinv; subst hret
  simp only [RepJ, String.reduceAppend] at ha
  generalize hx : fe.get "a.x" = ax at ha; obtain ⟨X, mx⟩ := ax
  generalize hy : fe.get "a.y" = ay at ha; obtain ⟨Y, my⟩ := ay
  generalize hz : fe.get "a.z" = az at ha hinv; obtain ⟨Z, mz⟩ := az
  generalize hzv : fe.get "zi" = zv at hzi hinv; obtain ⟨ZI, mzi⟩ := zv
  obtain ⟨h1, h2, h3, h4⟩ := ha.elim
  simp only at h1 h2 h3 h4 hzi hinv
  fe_exec [Gen.group.ge_set_gej_zinv, hx, hy, hz, hzv]
  refine ⟨_, rfl, ?_⟩
  fe_get []
  rcases h4 with ⟨hi, rfl⟩ | ⟨hi, hzc, a, b, hab, hX, hY⟩
  · exact RepA'.inf (by mg) (by mg) hi rfl
  · have hzz : (ZI : ZMod P) * Z = 1 := by
      have := congrArg (Nat.cast : ℕ → ZMod P) (hinv hi)
      rwa [ZMod.natCast_mod, Nat.cast_mul, Nat.cast_one] at this
    refine RepA'.fin (by mg) (by mg) hi (hab.congr ?_ ?_)
    · casts [hX]
      linear_combination (-a * ((ZI : ZMod P) * Z + 1)) * hzz
    · casts [hY]
      linear_combination (-b * (((ZI : ZMod P) * Z) ^ 2 + (ZI : ZMod P) * Z + 1)) * hzz

/-- G (`z = 2`) in `a`, and `zi = (P+1)/2 = 1/2` -/
def stZinv : State :=
  ⟨jacVars "a" Pt.Gx Pt.Gy 2 ++ [("zi", ⟨(P + 1) / 2, 8⟩)], [(("a.infinity", 0), 0)], false⟩
set_option maxRecDepth 100000 in
example : stZinv.returned = false ∧ RepJ stZinv "a" Pt.G 4 4 1 ∧ (stZinv.fe.get "zi").mag ≤ 8 ∧
    ((stZinv.fe.get "zi").val * (stZinv.fe.get "a.z").val) % P = 1 := by decide +kernel
set_option maxRecDepth 100000 in
example : ∃ st', FeIR.execL stZinv Gen.group.ge_set_gej_zinv.body = some st' ∧ RepA st' "r" Pt.G 4 3 :=
  ⟨(FeIR.execL stZinv Gen.group.ge_set_gej_zinv.body).get (by decide +kernel), by simp, by decide +kernel⟩

/-- `secp256k1_gej_eq_x_var(x, a)` for finite `a`: returns 1 iff the affine x-coordinate of `a` is `x mod P` -/
theorem gej_eq_x_var_correct (st : State) (p : Pt) (hret : st.returned = false) (ha : RepJ st "a" p 4 4 1)
    (hfin : st.ints.get "a.infinity" 0 = 0) (hxm : (st.fe.get "x").mag ≤ 8) :
    ∃ st', FeIR.execL st Gen.group.gej_eq_x_var.body = some st' ∧
      st'.ints.get "ret" 0 = (if Pt.xOf p = (st.fe.get "x").val % P then 1 else 0) := by
  obtain ⟨fe, ints, ret⟩ := st
  simp only at hret hfin hxm; subst hret
  simp only [RepJ, String.reduceAppend] at ha
  generalize hx : fe.get "a.x" = ax at ha; obtain ⟨X, mx⟩ := ax
  generalize hy : fe.get "a.y" = ay at ha; obtain ⟨Y, my⟩ := ay
  generalize hz : fe.get "a.z" = az at ha; obtain ⟨Z, mz⟩ := az
  generalize hxv : fe.get "x" = xv at hxm; obtain ⟨XV, mxv⟩ := xv
  obtain ⟨h1, h2, h3, h4⟩ := ha.elim
  simp only at h1 h2 h3 h4 hxm
  fe_exec [Gen.group.gej_eq_x_var, hx, hy, hz, hxv]
  refine ⟨_, rfl, ?_⟩
  fe_get []
  rcases h4 with ⟨hi, _⟩ | ⟨hi, hzc, a, b, hab, hX, hY⟩
  · omega
  · have hiff : canon (Fe.add (Fe.neg (Fe.mul (Fe.sqr Z) XV)) X) = 0 ↔ Pt.xOf p = XV % P := by
      rw [canon_eq_zero_iff, hab.xOf_eq_iff]
      casts [hX]
      constructor
      · intro h
        have : (a - XV) * ((Z : ZMod P) * Z) = 0 := by linear_combination h
        exact sub_eq_zero.1 ((mul_eq_zero.1 this).resolve_right (mul_ne_zero hzc hzc))
      · intro h; rw [h]; ring
    simp only [hiff]

/-- G (`z = 2`) in `a`, and `x = Gx + P` (not normalized) -/
def stEqX (x : ℕ) : State :=
  ⟨jacVars "a" Pt.Gx Pt.Gy 2 ++ [("x", ⟨x, 8⟩)], [(("a.infinity", 0), 0)], false⟩
set_option maxRecDepth 100000 in
example : RepJ (stEqX (Pt.Gx + P)) "a" Pt.G 4 4 1 ∧ ((stEqX (Pt.Gx + P)).fe.get "x").mag ≤ 8 := by decide +kernel
set_option maxRecDepth 100000 in
example : ((FeIR.execL (stEqX (Pt.Gx + P)) Gen.group.gej_eq_x_var.body).map (·.ints.get "ret" 0)) = some 1 := by
  decide +kernel
set_option maxRecDepth 100000 in
example : ((FeIR.execL (stEqX (Pt.Gx + 1)) Gen.group.gej_eq_x_var.body).map (·.ints.get "ret" 0)) = some 0 := by
  decide +kernel

/-- `secp256k1_ge_is_valid_var(a)`: returns 1 iff `a` is not infinity and `(x, y)` satisfies `y² = x³ + 7`
    (for ANY field values within the magnitude contract) -/
theorem ge_is_valid_var_correct (st : State) (hret : st.returned = false)
    (hxm : (st.fe.get "a.x").mag ≤ 4) (hym : (st.fe.get "a.y").mag ≤ 3) :
    ∃ st', FeIR.execL st Gen.group.ge_is_valid_var.body = some st' ∧ st'.ints.get "ret" 0 ≤ 1 ∧
      (st'.ints.get "ret" 0 = 1 ↔ st.ints.get "a.infinity" 0 = 0 ∧
        Pt.valid (.aff ((st.fe.get "a.x").val % P) ((st.fe.get "a.y").val % P)) = true) := by
  obtain ⟨fe, ints, ret⟩ := st
  simp only at hret hxm hym; subst hret
  generalize hx : fe.get "a.x" = ax at hxm; obtain ⟨X, mx⟩ := ax
  generalize hy : fe.get "a.y" = ay at hym; obtain ⟨Y, my⟩ := ay
  simp only at hxm hym
  by_cases hinf : ints.get "a.infinity" 0 = 0
  · fe_exec [Gen.group.ge_is_valid_var, hx, hy, hinf]
    refine ⟨_, rfl, ?_⟩
    fe_get []
    have hiff : canon (Fe.add (Fe.neg (Fe.sqr Y)) (Fe.add (Fe.mul (Fe.sqr X) X) 7)) = 0 ↔
        Pt.valid (.aff (X % P) (Y % P)) = true := by
      rw [canon_eq_zero_iff, (isAff_aff X Y).valid_iff]
      casts []
      constructor
      · intro h; linear_combination -h
      · intro h; linear_combination -h
    simp only [hiff]
    split <;> simp [*]
  · fe_exec [Gen.group.ge_is_valid_var, hx, hy, hinf]
    refine ⟨_, rfl, ?_⟩
    fe_get []
    simp

set_option maxRecDepth 100000 in
example : ((stA 0).fe.get "a.x").mag ≤ 4 ∧ ((stA 0).fe.get "a.y").mag ≤ 3 := by decide +kernel
set_option maxRecDepth 100000 in
example : ((FeIR.execL (stA 0) Gen.group.ge_is_valid_var.body).map (·.ints.get "ret" 0)) = some 1 := by
  decide +kernel
set_option maxRecDepth 100000 in
/-- … and 0 for infinity, and for `(Gx, Gy + 1)` which is not on the curve -/
example : ((FeIR.execL (stA 1) Gen.group.ge_is_valid_var.body).map (·.ints.get "ret" 0)) = some 0 ∧
    ((FeIR.execL ⟨affVars "a" Pt.Gx (Pt.Gy + 1), [(("a.infinity", 0), 0)], false⟩
      Gen.group.ge_is_valid_var.body).map (·.ints.get "ret" 0)) = some 0 := by
  decide +kernel

/-! ## 3. Variable-time functions -/

/-- `secp256k1_gej_double_var(r, a, rzr)`: as `gej_double`, with an explicit early return for infinity -/
theorem gej_double_var_correct (st : State) (p : Pt) (hret : st.returned = false)
    (ha : RepJ st "a" p 4 4 1) (hv : p.valid = true) :
    ∃ st', FeIR.execL st Gen.group.gej_double_var.body = some st' ∧ RepJ st' "r" (Pt.dbl p) 4 4 1 := by
  obtain ⟨fe, ints, ret⟩ := st
  simp only at hret; subst hret
  simp only [RepJ, String.reduceAppend] at ha
  generalize hx : fe.get "a.x" = ax at ha; obtain ⟨X, mx⟩ := ax
  generalize hy : fe.get "a.y" = ay at ha; obtain ⟨Y, my⟩ := ay
  generalize hz : fe.get "a.z" = az at ha; obtain ⟨Z, mz⟩ := az
  obtain ⟨h1, h2, h3, h4⟩ := ha.elim
  simp only at h1 h2 h3 h4
  rcases h4 with ⟨hi, rfl⟩ | ⟨hi, hzc, a, b, hab, hX, hY⟩
  · fe_exec [Gen.group.gej_double_var, hx, hy, hz, hi]
    refine ⟨_, rfl, ?_⟩
    fe_get []
    exact RepJ'.inf (by mg) (by mg) (by mg) rfl rfl
  · fe_exec [Gen.group.gej_double_var, hx, hy, hz, hi]
    refine ⟨_, rfl, ?_⟩
    fe_get []
    have hc := hab.valid_iff.1 hv
    have hb := y_ne_zero_of_curve hc
    have h2' : (2 : ZMod P) ≠ 0 := zmodP_two_ne_zero
    refine RepJ'.fin (by mg) (by mg) (by mg) rfl (hab.dbl hc) ?_ ?_ ?_
    · casts [hY]
      exact mul_ne_zero hzc (mul_ne_zero hb (mul_ne_zero (mul_ne_zero hzc hzc) hzc))
    · casts [hX, hY]
      field_simp
      ring
    · casts [hX, hY]
      field_simp
      ring

set_option maxRecDepth 100000 in
example : let st := stJ "a" 0
    (st.returned = false ∧ RepJ st "a" Pt.G 4 4 1 ∧ Pt.G.valid = true) ∧
    ((FeIR.execL st Gen.group.gej_double_var.body).map fun st' => decide (RepJ st' "r" (Pt.dbl Pt.G) 4 4 1)) =
      some true := by decide +kernel
set_option maxRecDepth 100000 in
example : let st := stJ "a" 1
    RepJ st "a" Pt.inf 4 4 1 ∧
    ((FeIR.execL st Gen.group.gej_double_var.body).map fun st' => decide (RepJ st' "r" Pt.inf 4 4 1)) =
      some true := by decide +kernel

set_option hygiene false in
local macro "add_ge_var_proof" ax:str ay:str az:str fn:ident : tactic => `(tactic| (
  obtain ⟨fe, ints, ret⟩ := st
  simp only at hret; subst hret
  simp only [RepJ, RepA, String.reduceAppend] at ha hb
  generalize hx : fe.get $ax = ax at ha; obtain ⟨X, mx⟩ := ax
  generalize hy : fe.get $ay = ay at ha; obtain ⟨Y, my⟩ := ay
  generalize hz : fe.get $az = az at ha; obtain ⟨Z, mz⟩ := az
  generalize hbx : fe.get "b.x" = bx at hb; obtain ⟨Bx, mbx⟩ := bx
  generalize hby : fe.get "b.y" = by' at hb; obtain ⟨By, mby⟩ := by'
  obtain ⟨h1, h2, h3, h4⟩ := ha.elim
  obtain ⟨h5, h6, h7⟩ := hb.elim
  simp only at h1 h2 h3 h4 h5 h6 h7
  have h2' : (2 : ZMod P) ≠ 0 := zmodP_two_ne_zero
  rcases h4 with ⟨hi, rfl⟩ | ⟨hi, hzc, a, b, hab, hX, hY⟩
  · -- a is infinity: r = (b.x, b.y, 1) with b's flag
    fe_exec [$fn:ident, hx, hy, hz, hbx, hby, hi]
    refine ⟨_, rfl, ?_⟩
    fe_get []
    have hadd : Pt.add .inf q = q := by cases q <;> rfl
    rw [hadd]
    rcases h7 with ⟨hbi, rfl⟩ | ⟨hbi, hq⟩
    · exact RepJ'.inf (by mg) (by mg) (by mg) hbi rfl
    · refine RepJ'.fin (by mg) (by mg) (by mg) hbi hq ?_ ?_ ?_
      · dsimp only; rw [Nat.cast_one]; exact one_ne_zero
      · dsimp only; rw [Nat.cast_one]; ring
      · dsimp only; rw [Nat.cast_one]; ring
  · rcases h7 with ⟨hbi, rfl⟩ | ⟨hbi, hq⟩
    · -- b is infinity: r = a
      fe_exec [$fn:ident, hx, hy, hz, hbx, hby, hi, hbi]
      refine ⟨_, rfl, ?_⟩
      fe_get [hx, hy, hz]
      have hadd : Pt.add p .inf = p := by cases p <;> rfl
      rw [hadd]
      exact RepJ'.fin (by mg) (by mg) (by mg) rfl hab hzc hX hY
    · have hc1 := hab.valid_iff.1 hvp
      have hc2 := hq.valid_iff.1 hvq
      obtain ⟨z, hz'⟩ : ∃ z : ZMod P, (Z : ZMod P) = z := ⟨_, rfl⟩
      obtain ⟨c, hc'⟩ : ∃ c : ZMod P, (Bx : ZMod P) = c := ⟨_, rfl⟩
      obtain ⟨d, hd'⟩ : ∃ d : ZMod P, (By : ZMod P) = d := ⟨_, rfl⟩
      rw [hz'] at hzc hX hY
      rw [hc', hd'] at hq hc2
      have hz2 : z * z ≠ 0 := mul_ne_zero hzc hzc
      have hz3 : z * z * z ≠ 0 := mul_ne_zero hz2 hzc
      have hHc : ((Fe.add (Fe.neg X) (Fe.mul Bx (Fe.sqr Z)) : ℕ) : ZMod P) = (c - a) * (z * z) := by
        casts [hX, hY, hz', hc', hd']; ring
      have hIc : ((Fe.add (Fe.neg (Fe.mul (Fe.mul By (Fe.sqr Z)) Z)) Y : ℕ) : ZMod P) = (b - d) * (z * z * z) := by
        casts [hX, hY, hz', hc', hd']; ring
      by_cases hH : canon (Fe.add (Fe.neg X) (Fe.mul Bx (Fe.sqr Z))) = 0
      · have hac : a = c := by
          have hH' := hH
          rw [canon_eq_zero_iff, hHc] at hH'
          exact (sub_eq_zero.1 ((mul_eq_zero.1 hH').resolve_right hz2)).symm
        subst hac
        by_cases hI : canon (Fe.add (Fe.neg (Fe.mul (Fe.mul By (Fe.sqr Z)) Z)) Y) = 0
        · -- the same point: doubling
          have hbd : b = d := by
            have hI' := hI
            rw [canon_eq_zero_iff, hIc] at hI'
            exact sub_eq_zero.1 ((mul_eq_zero.1 hI').resolve_right hz3)
          subst hbd
          fe_exec [$fn:ident, hx, hy, hz, hbx, hby, hi, hbi, hH, hI]
          refine ⟨_, rfl, ?_⟩
          fe_get []
          rw [hab.add_same hq hc1]
          have hb0 := y_ne_zero_of_curve hc1
          refine RepJ'.fin (by mg) (by mg) (by mg) rfl (hab.dbl hc1) ?_ ?_ ?_
          · casts [hX, hY, hz']
            exact mul_ne_zero hzc (mul_ne_zero hb0 hz3)
          · casts [hX, hY, hz']
            field_simp
            ring
          · casts [hX, hY, hz']
            field_simp
            ring
        · -- opposite points: infinity
          have hbd : d = -b := by
            rcases curve_same_x hc1 hc2 with h | h
            · exfalso; apply hI; rw [canon_eq_zero_iff, hIc, h, sub_self, zero_mul]
            · exact h
          subst hbd
          fe_exec [$fn:ident, hx, hy, hz, hbx, hby, hi, hbi, hH, hI]
          refine ⟨_, rfl, ?_⟩
          fe_get []
          exact RepJ'.inf (by mg) (by mg) (by mg) rfl (hab.add_neg hq)
      · -- different abscissas: the chord formula
        have hac : a ≠ c := by
          intro h; apply hH; rw [canon_eq_zero_iff, hHc, h, sub_self, zero_mul]
        have hca : c - a ≠ 0 := sub_ne_zero.2 (Ne.symm hac)
        have hl : (d - b) * (c - a)⁻¹ * (c - a) = d - b := by field_simp
        fe_exec [$fn:ident, hx, hy, hz, hbx, hby, hi, hbi, hH]
        refine ⟨_, rfl, ?_⟩
        fe_get []
        refine RepJ'.fin (by mg) (by mg) (by mg) rfl (hab.add_ne hq hac) ?_ ?_ ?_
        · casts [hX, hY, hz', hc', hd']
          have : z * (-(a * (z * z)) + c * (z * z)) = (z * z * z) * (c - a) := by ring
          rw [this]; exact mul_ne_zero hz3 hca
        · casts [hX, hY, hz', hc', hd']
          linear_combination jac_addvar_x a b c d z _ (-(a * (z * z)) + c * (z * z))
            (-(d * (z * z) * z) + b * (z * z * z)) (by ring) (by ring) hl
        · casts [hX, hY, hz', hc', hd']
          linear_combination jac_addvar_y a b c d z _ (-(a * (z * z)) + c * (z * z))
            (-(d * (z * z) * z) + b * (z * z * z)) (by ring) (by ring) hl))

set_option maxHeartbeats 2000000 in
/-- `secp256k1_gej_add_ge_var(r, a, b, rzr)`: `a` holds `p`, the affine `b` holds `q` (either may be infinity), both
    valid and within the contract: execution succeeds and `r` holds `p + q` within the contract, in all cases
    (either operand infinity, equal points → doubling, opposite points → infinity, generic chord). -/
theorem gej_add_ge_var_correct (st : State) (p q : Pt) (hret : st.returned = false)
    (ha : RepJ st "a" p 4 4 1) (hb : RepA st "b" q 4 3) (hvp : p.valid = true) (hvq : q.valid = true) :
    ∃ st', FeIR.execL st Gen.group.gej_add_ge_var.body = some st' ∧ RepJ st' "r" (Pt.add p q) 4 4 1 := by
  add_ge_var_proof "a.x" "a.y" "a.z" Gen.group.gej_add_ge_var

set_option maxHeartbeats 2000000 in
/-- `secp256k1_gej_add_ge_var(r, r, b, rzr)` (in place) -/
theorem gej_add_ge_var_inplace_correct (st : State) (p q : Pt) (hret : st.returned = false)
    (ha : RepJ st "r" p 4 4 1) (hb : RepA st "b" q 4 3) (hvp : p.valid = true) (hvq : q.valid = true) :
    ∃ st', FeIR.execL st Gen.group.gej_add_ge_var_inplace.body = some st' ∧ RepJ st' "r" (Pt.add p q) 4 4 1 := by
  add_ge_var_proof "r.x" "r.y" "r.z" Gen.group.gej_add_ge_var_inplace

set_option maxHeartbeats 2000000 in
/-- `secp256k1_gej_add_var(r, a, b, rzr)`: both operands Jacobian (either may be infinity), valid and within the
    contract: execution succeeds and `r` holds `p + q` within the contract. -/
theorem gej_add_var_correct (st : State) (p q : Pt) (hret : st.returned = false)
    (ha : RepJ st "a" p 4 4 1) (hb : RepJ st "b" q 4 4 1) (hvp : p.valid = true) (hvq : q.valid = true) :
    ∃ st', FeIR.execL st Gen.group.gej_add_var.body = some st' ∧ RepJ st' "r" (Pt.add p q) 4 4 1 := by
  obtain ⟨fe, ints, ret⟩ := st
  simp only at hret; subst hret
  simp only [RepJ, String.reduceAppend] at ha hb
  generalize hx : fe.get "a.x" = ax at ha; obtain ⟨X, mx⟩ := ax
  generalize hy : fe.get "a.y" = ay at ha; obtain ⟨Y, my⟩ := ay
  generalize hz : fe.get "a.z" = az at ha; obtain ⟨Z, mz⟩ := az
  generalize hbx : fe.get "b.x" = bx at hb; obtain ⟨Bx, mbx⟩ := bx
  generalize hby : fe.get "b.y" = by' at hb; obtain ⟨By, mby⟩ := by'
  generalize hbz : fe.get "b.z" = bz at hb; obtain ⟨Bz, mbz⟩ := bz
  obtain ⟨h1, h2, h3, h4⟩ := ha.elim
  obtain ⟨h5, h6, h7, h8⟩ := hb.elim
  simp only at h1 h2 h3 h4 h5 h6 h7 h8
  have h2' : (2 : ZMod P) ≠ 0 := zmodP_two_ne_zero
  rcases h4 with ⟨hi, rfl⟩ | ⟨hi, hzc, a, b, hab, hX, hY⟩
  · -- a is infinity: r = b
    fe_exec [Gen.group.gej_add_var, hx, hy, hz, hbx, hby, hbz, hi]
    refine ⟨_, rfl, ?_⟩
    fe_get []
    have hadd : Pt.add .inf q = q := by cases q <;> rfl
    rw [hadd]
    rcases h8 with ⟨hbi, rfl⟩ | ⟨hbi, hzc2, c, d, hq, hX2, hY2⟩
    · exact RepJ'.inf (by mg) (by mg) (by mg) hbi rfl
    · exact RepJ'.fin (by mg) (by mg) (by mg) hbi hq hzc2 hX2 hY2
  · rcases h8 with ⟨hbi, rfl⟩ | ⟨hbi, hzc2, c, d, hq, hX2, hY2⟩
    · -- b is infinity: r = a
      fe_exec [Gen.group.gej_add_var, hx, hy, hz, hbx, hby, hbz, hi, hbi]
      refine ⟨_, rfl, ?_⟩
      fe_get []
      have hadd : Pt.add p .inf = p := by cases p <;> rfl
      rw [hadd]
      exact RepJ'.fin (by mg) (by mg) (by mg) rfl hab hzc hX hY
    · have hc1 := hab.valid_iff.1 hvp
      have hc2 := hq.valid_iff.1 hvq
      obtain ⟨z, hz'⟩ : ∃ z : ZMod P, (Z : ZMod P) = z := ⟨_, rfl⟩
      obtain ⟨z2, hz2'⟩ : ∃ z2 : ZMod P, (Bz : ZMod P) = z2 := ⟨_, rfl⟩
      rw [hz'] at hzc hX hY
      rw [hz2'] at hzc2 hX2 hY2
      have hw : z * z2 ≠ 0 := mul_ne_zero hzc hzc2
      have hw2 : (z * z2) * (z * z2) ≠ 0 := mul_ne_zero hw hw
      have hw3 : (z * z2) * (z * z2) * (z * z2) ≠ 0 := mul_ne_zero hw2 hw
      have hzz3 : z * z * z ≠ 0 := mul_ne_zero (mul_ne_zero hzc hzc) hzc
      have hHc : ((Fe.add (Fe.neg (Fe.mul X (Fe.sqr Bz))) (Fe.mul Bx (Fe.sqr Z)) : ℕ) : ZMod P) =
          (c - a) * ((z * z2) * (z * z2)) := by
        casts [hX, hY, hX2, hY2, hz', hz2']; ring
      have hIc : ((Fe.add (Fe.neg (Fe.mul (Fe.mul By (Fe.sqr Z)) Z)) (Fe.mul (Fe.mul Y (Fe.sqr Bz)) Bz) : ℕ) : ZMod P)
          = (b - d) * ((z * z2) * (z * z2) * (z * z2)) := by
        casts [hX, hY, hX2, hY2, hz', hz2']; ring
      by_cases hH : canon (Fe.add (Fe.neg (Fe.mul X (Fe.sqr Bz))) (Fe.mul Bx (Fe.sqr Z))) = 0
      · have hac : a = c := by
          have hH' := hH
          rw [canon_eq_zero_iff, hHc] at hH'
          exact (sub_eq_zero.1 ((mul_eq_zero.1 hH').resolve_right hw2)).symm
        subst hac
        by_cases hI : canon (Fe.add (Fe.neg (Fe.mul (Fe.mul By (Fe.sqr Z)) Z)) (Fe.mul (Fe.mul Y (Fe.sqr Bz)) Bz)) = 0
        · -- the same point: doubling
          have hbd : b = d := by
            have hI' := hI
            rw [canon_eq_zero_iff, hIc] at hI'
            exact sub_eq_zero.1 ((mul_eq_zero.1 hI').resolve_right hw3)
          subst hbd
          fe_exec [Gen.group.gej_add_var, hx, hy, hz, hbx, hby, hbz, hi, hbi, hH, hI]
          refine ⟨_, rfl, ?_⟩
          fe_get []
          rw [hab.add_same hq hc1]
          have hb0 := y_ne_zero_of_curve hc1
          refine RepJ'.fin (by mg) (by mg) (by mg) rfl (hab.dbl hc1) ?_ ?_ ?_
          · casts [hX, hY, hz']
            exact mul_ne_zero hzc (mul_ne_zero hb0 hzz3)
          · casts [hX, hY, hz']
            field_simp
            ring
          · casts [hX, hY, hz']
            field_simp
            ring
        · -- opposite points: infinity
          have hbd : d = -b := by
            rcases curve_same_x hc1 hc2 with h | h
            · exfalso; apply hI; rw [canon_eq_zero_iff, hIc, h, sub_self, zero_mul]
            · exact h
          subst hbd
          fe_exec [Gen.group.gej_add_var, hx, hy, hz, hbx, hby, hbz, hi, hbi, hH, hI]
          refine ⟨_, rfl, ?_⟩
          fe_get []
          exact RepJ'.inf (by mg) (by mg) (by mg) rfl (hab.add_neg hq)
      · -- different abscissas: the chord formula
        have hac : a ≠ c := by
          intro h; apply hH; rw [canon_eq_zero_iff, hHc, h, sub_self, zero_mul]
        have hca : c - a ≠ 0 := sub_ne_zero.2 (Ne.symm hac)
        have hl : (d - b) * (c - a)⁻¹ * (c - a) = d - b := by field_simp
        fe_exec [Gen.group.gej_add_var, hx, hy, hz, hbx, hby, hbz, hi, hbi, hH]
        refine ⟨_, rfl, ?_⟩
        fe_get []
        refine RepJ'.fin (by mg) (by mg) (by mg) rfl (hab.add_ne hq hac) ?_ ?_ ?_
        · casts [hX, hY, hX2, hY2, hz', hz2']
          have : z * ((-(a * (z * z) * (z2 * z2)) + c * (z2 * z2) * (z * z)) * z2) =
              (z * z2) * ((z * z2) * (z * z2)) * (c - a) := by ring
          rw [this]; exact mul_ne_zero (mul_ne_zero hw hw2) hca
        · casts [hX, hY, hX2, hY2, hz', hz2']
          linear_combination jac_addvar_x a b c d (z * z2) _ (-(a * (z * z) * (z2 * z2)) + c * (z2 * z2) * (z * z))
            (-(d * (z2 * z2 * z2) * (z * z) * z) + b * (z * z * z) * (z2 * z2) * z2) (by ring) (by ring) hl
        · casts [hX, hY, hX2, hY2, hz', hz2']
          linear_combination jac_addvar_y a b c d (z * z2) _ (-(a * (z * z) * (z2 * z2)) + c * (z2 * z2) * (z * z))
            (-(d * (z2 * z2 * z2) * (z * z) * z) + b * (z * z * z) * (z2 * z2) * z2) (by ring) (by ring) hl

/-- the affine variable `b` is given on the isomorphic curve: the point is `(b.x·bzinv², b.y·bzinv³)`; magnitudes of
    `b.x, b.y` within the ge contract, `bzinv` a valid multiplication operand (magnitude ≤ 8) -/
def RepAZinv (st : State) (q : Pt) : Prop :=
  (st.fe.get "b.x").mag ≤ 4 ∧ (st.fe.get "b.y").mag ≤ 3 ∧ (st.fe.get "bzinv").mag ≤ 8 ∧
  ((st.ints.get "b.infinity" 0 = 1 ∧ q = .inf) ∨
   (st.ints.get "b.infinity" 0 = 0 ∧
      q = .aff (Fe.mul (st.fe.get "b.x").val (Fe.sqr (st.fe.get "bzinv").val))
        (Fe.mul (st.fe.get "b.y").val (Fe.mul (Fe.sqr (st.fe.get "bzinv").val) (st.fe.get "bzinv").val))))

instance (st : State) (q : Pt) : Decidable (RepAZinv st q) := by unfold RepAZinv; infer_instance

set_option maxHeartbeats 2000000 in
/-- `secp256k1_gej_add_zinv_var(r, a, b, bzinv)`: `b` is given on the isomorphic curve (`q = (b.x·bzinv², b.y·bzinv³)`);
    `r` holds `p + q` within the contract. -/
theorem gej_add_zinv_var_correct (st : State) (p q : Pt) (hret : st.returned = false)
    (ha : RepJ st "a" p 4 4 1) (hb : RepAZinv st q) (hvp : p.valid = true) (hvq : q.valid = true) :
    ∃ st', FeIR.execL st Gen.group.gej_add_zinv_var.body = some st' ∧ RepJ st' "r" (Pt.add p q) 4 4 1 := by
  obtain ⟨fe, ints, ret⟩ := st
  simp only at hret; subst hret
  simp only [RepJ, RepAZinv, String.reduceAppend] at ha hb
  generalize hx : fe.get "a.x" = ax at ha; obtain ⟨X, mx⟩ := ax
  generalize hy : fe.get "a.y" = ay at ha; obtain ⟨Y, my⟩ := ay
  generalize hz : fe.get "a.z" = az at ha; obtain ⟨Z, mz⟩ := az
  generalize hbx : fe.get "b.x" = bx at hb; obtain ⟨Bx, mbx⟩ := bx
  generalize hby : fe.get "b.y" = by' at hb; obtain ⟨By, mby⟩ := by'
  generalize hzi : fe.get "bzinv" = bzi at hb; obtain ⟨ZI, mzi⟩ := bzi
  obtain ⟨h1, h2, h3, h4⟩ := ha.elim
  obtain ⟨h5, h6, h6', h7⟩ := hb
  simp only at h1 h2 h3 h4 h5 h6 h6' h7
  have h2' : (2 : ZMod P) ≠ 0 := zmodP_two_ne_zero
  obtain ⟨zi, hzi'⟩ : ∃ zi : ZMod P, (ZI : ZMod P) = zi := ⟨_, rfl⟩
  have hqaff : ints.get "b.infinity" 0 = 0 →
      IsAff q ((Bx : ZMod P) * (zi * zi)) ((By : ZMod P) * (zi * zi * zi)) := by
    intro h0
    rcases h7 with ⟨h, _⟩ | ⟨_, rfl⟩
    · omega
    · exact ⟨_, _, rfl, Fe.mul_lt_P _ _, Fe.mul_lt_P _ _, by casts [hzi'], by casts [hzi']⟩
  rcases h4 with ⟨hi, rfl⟩ | ⟨hi, hzc, a, b, hab, hX, hY⟩
  · -- a is infinity: r = (b.x·bzinv², b.y·bzinv³, 1)
    fe_exec [Gen.group.gej_add_zinv_var, hx, hy, hz, hbx, hby, hzi, hi]
    refine ⟨_, rfl, ?_⟩
    fe_get []
    have hadd : Pt.add .inf q = q := by cases q <;> rfl
    rw [hadd]
    rcases h7 with ⟨hbi, rfl⟩ | ⟨hbi, _⟩
    · exact RepJ'.inf (by mg) (by mg) (by mg) hbi rfl
    · refine RepJ'.fin (by mg) (by mg) (by mg) hbi (hqaff hbi) ?_ ?_ ?_
      · dsimp only; rw [Nat.cast_one]; exact one_ne_zero
      · dsimp only; casts [hzi']; ring
      · dsimp only; casts [hzi']; ring
  · rcases h7 with ⟨hbi, rfl⟩ | ⟨hbi, _⟩
    · -- b is infinity: r = a
      fe_exec [Gen.group.gej_add_zinv_var, hx, hy, hz, hbx, hby, hzi, hi, hbi]
      refine ⟨_, rfl, ?_⟩
      fe_get []
      have hadd : Pt.add p .inf = p := by cases p <;> rfl
      rw [hadd]
      exact RepJ'.fin (by mg) (by mg) (by mg) rfl hab hzc hX hY
    · have hq := hqaff hbi
      have hc1 := hab.valid_iff.1 hvp
      have hc2 := hq.valid_iff.1 hvq
      obtain ⟨z, hz'⟩ : ∃ z : ZMod P, (Z : ZMod P) = z := ⟨_, rfl⟩
      obtain ⟨c, hc'⟩ : ∃ c : ZMod P, c = (Bx : ZMod P) * (zi * zi) := ⟨_, rfl⟩
      obtain ⟨d, hd'⟩ : ∃ d : ZMod P, d = (By : ZMod P) * (zi * zi * zi) := ⟨_, rfl⟩
      rw [hz'] at hzc hX hY
      rw [← hc', ← hd'] at hq hc2
      have hz2 : z * z ≠ 0 := mul_ne_zero hzc hzc
      have hz3 : z * z * z ≠ 0 := mul_ne_zero hz2 hzc
      have hHc : ((Fe.add (Fe.neg X) (Fe.mul Bx (Fe.sqr (Fe.mul Z ZI))) : ℕ) : ZMod P) = (c - a) * (z * z) := by
        casts [hX, hY, hz', hzi', hc', hd']; ring
      have hIc : ((Fe.add (Fe.neg (Fe.mul (Fe.mul By (Fe.sqr (Fe.mul Z ZI))) (Fe.mul Z ZI))) Y : ℕ) : ZMod P) =
          (b - d) * (z * z * z) := by
        casts [hX, hY, hz', hzi', hc', hd']; ring
      by_cases hH : canon (Fe.add (Fe.neg X) (Fe.mul Bx (Fe.sqr (Fe.mul Z ZI)))) = 0
      · have hac : a = c := by
          have hH' := hH
          rw [canon_eq_zero_iff, hHc] at hH'
          exact (sub_eq_zero.1 ((mul_eq_zero.1 hH').resolve_right hz2)).symm
        by_cases hI : canon (Fe.add (Fe.neg (Fe.mul (Fe.mul By (Fe.sqr (Fe.mul Z ZI))) (Fe.mul Z ZI))) Y) = 0
        · -- the same point: doubling
          have hbd : b = d := by
            have hI' := hI
            rw [canon_eq_zero_iff, hIc] at hI'
            exact sub_eq_zero.1 ((mul_eq_zero.1 hI').resolve_right hz3)
          fe_exec [Gen.group.gej_add_zinv_var, hx, hy, hz, hbx, hby, hzi, hi, hbi, hH, hI]
          refine ⟨_, rfl, ?_⟩
          fe_get []
          rw [hab.add_same (hq.congr hac.symm hbd.symm) hc1]
          have hb0 := y_ne_zero_of_curve hc1
          refine RepJ'.fin (by mg) (by mg) (by mg) rfl (hab.dbl hc1) ?_ ?_ ?_
          · casts [hX, hY, hz']
            exact mul_ne_zero hzc (mul_ne_zero hb0 hz3)
          · casts [hX, hY, hz']
            field_simp
            ring
          · casts [hX, hY, hz']
            field_simp
            ring
        · -- opposite points: infinity
          have hbd : d = -b := by
            rcases curve_same_x hc1 (hac ▸ hc2) with h | h
            · exfalso; apply hI; rw [canon_eq_zero_iff, hIc, h, sub_self, zero_mul]
            · exact h
          fe_exec [Gen.group.gej_add_zinv_var, hx, hy, hz, hbx, hby, hzi, hi, hbi, hH, hI]
          refine ⟨_, rfl, ?_⟩
          fe_get []
          exact RepJ'.inf (by mg) (by mg) (by mg) rfl (hab.add_neg (hq.congr hac.symm hbd))
      · -- different abscissas: the chord formula
        have hac : a ≠ c := by
          intro h; apply hH; rw [canon_eq_zero_iff, hHc, h, sub_self, zero_mul]
        have hca : c - a ≠ 0 := sub_ne_zero.2 (Ne.symm hac)
        have hl : (d - b) * (c - a)⁻¹ * (c - a) = d - b := by field_simp
        fe_exec [Gen.group.gej_add_zinv_var, hx, hy, hz, hbx, hby, hzi, hi, hbi, hH]
        refine ⟨_, rfl, ?_⟩
        fe_get []
        have hadd := hab.add_ne hq hac
        subst hc' hd'
        refine RepJ'.fin (by mg) (by mg) (by mg) rfl hadd ?_ ?_ ?_
        · casts [hX, hY, hz', hzi']
          have : z * (-(a * (z * z)) + (Bx : ZMod P) * (z * zi * (z * zi))) =
              (z * z * z) * ((Bx : ZMod P) * (zi * zi) - a) := by ring
          rw [this]; exact mul_ne_zero hz3 hca
        · casts [hX, hY, hz', hzi']
          linear_combination jac_addvar_x a b ((Bx : ZMod P) * (zi * zi)) ((By : ZMod P) * (zi * zi * zi)) z _
            (-(a * (z * z)) + (Bx : ZMod P) * (z * zi * (z * zi)))
            (-((By : ZMod P) * (z * zi * (z * zi)) * (z * zi)) + b * (z * z * z)) (by ring) (by ring) hl
        · casts [hX, hY, hz', hzi']
          linear_combination jac_addvar_y a b ((Bx : ZMod P) * (zi * zi)) ((By : ZMod P) * (zi * zi * zi)) z _
            (-(a * (z * z)) + (Bx : ZMod P) * (z * zi * (z * zi)))
            (-((By : ZMod P) * (z * zi * (z * zi)) * (z * zi)) + b * (z * z * z)) (by ring) (by ring) hl

/-- `secp256k1_ge_set_ge_zinv(r, a, zi)`: maps an affine point given on the isomorphic curve to the actual affine point
    `(a.x·zi², a.y·zi³)` (the point that `RepAZinv` assigns to `(b, bzinv)`) -/
theorem ge_set_ge_zinv_correct (st : State) (hret : st.returned = false)
    (hxm : (st.fe.get "a.x").mag ≤ 4) (hym : (st.fe.get "a.y").mag ≤ 3) (hzm : (st.fe.get "zi").mag ≤ 8)
    (hinf : st.ints.get "a.infinity" 0 ≤ 1) :
    ∃ st', FeIR.execL st Gen.group.ge_set_ge_zinv.body = some st' ∧
      RepA st' "r" (if st.ints.get "a.infinity" 0 = 1 then .inf else
        .aff (Fe.mul (st.fe.get "a.x").val (Fe.sqr (st.fe.get "zi").val))
          (Fe.mul (st.fe.get "a.y").val (Fe.mul (Fe.sqr (st.fe.get "zi").val) (st.fe.get "zi").val))) 4 3 := by
  obtain ⟨fe, ints, ret⟩ := st
  simp only at hret hxm hym hzm hinf ⊢; subst hret
  generalize hx : fe.get "a.x" = ax at hxm; obtain ⟨X, mx⟩ := ax
  generalize hy : fe.get "a.y" = ay at hym; obtain ⟨Y, my⟩ := ay
  generalize hzv : fe.get "zi" = zv at hzm; obtain ⟨ZI, mzi⟩ := zv
  simp only at hxm hym hzm
  fe_exec [Gen.group.ge_set_ge_zinv, hx, hy, hzv]
  refine ⟨_, rfl, ?_⟩
  fe_get []
  rcases (by omega : ints.get "a.infinity" 0 = 0 ∨ ints.get "a.infinity" 0 = 1) with h | h
  · rw [if_neg (by omega)]
    refine ⟨by mg, by mg, Or.inr ⟨h, ?_⟩⟩
    dsimp only
    rw [Nat.mod_eq_of_lt (Fe.mul_lt_P _ _), Nat.mod_eq_of_lt (Fe.mul_lt_P _ _)]
  · rw [if_pos h]
    exact ⟨by mg, by mg, Or.inl ⟨h, rfl⟩⟩

/-- `2·G` on the isomorphic curve with `z = 2` as the affine variable `a`, and `zi = 1/2` -/
def stGeZinv : State :=
  ⟨[("a.x", ⟨Fe.mul (Pt.xOf G2) 4, 4⟩), ("a.y", ⟨Fe.mul (Pt.yOf G2) 8, 3⟩), ("zi", ⟨(P + 1) / 2, 8⟩)],
    [(("a.infinity", 0), 0)], false⟩
set_option maxRecDepth 100000 in
example : ((FeIR.execL stGeZinv Gen.group.ge_set_ge_zinv.body).map fun st' => decide (RepA st' "r" G2 4 3)) =
    some true := by decide +kernel

/-! ### Non-vacuity of the variable-time additions -/

set_option maxRecDepth 100000 in
/-- `gej_add_ge_var`: `G + 2·G` (hypotheses, and kernel evaluation) -/
example : let st := stJA "a" 0 (Pt.xOf G2) (Pt.yOf G2)
    (st.returned = false ∧ RepJ st "a" Pt.G 4 4 1 ∧ RepA st "b" G2 4 3 ∧ Pt.G.valid = true ∧ G2.valid = true) ∧
    ((FeIR.execL st Gen.group.gej_add_ge_var.body).map fun st' => decide (RepJ st' "r" (Pt.add Pt.G G2) 4 4 1)) =
      some true := by decide +kernel
set_option maxRecDepth 100000 in
/-- `gej_add_ge_var`: `G + G` (the doubling branch) and `G + (-G)` (infinity) -/
example :
    ((FeIR.execL (stJA "a" 0 Pt.Gx Pt.Gy) Gen.group.gej_add_ge_var.body).map fun st' =>
      decide (RepJ st' "r" G2 4 4 1)) = some true ∧
    ((FeIR.execL (stJA "a" 0 Pt.Gx (P - Pt.Gy)) Gen.group.gej_add_ge_var.body).map fun st' =>
      decide (RepJ st' "r" Pt.inf 4 4 1)) = some true := by decide +kernel
set_option maxRecDepth 100000 in
/-- `gej_add_ge_var` in place -/
example : let st := stJA "r" 0 (Pt.xOf G2) (Pt.yOf G2)
    (st.returned = false ∧ RepJ st "r" Pt.G 4 4 1 ∧ RepA st "b" G2 4 3) ∧
    ((FeIR.execL st Gen.group.gej_add_ge_var_inplace.body).map fun st' =>
      decide (RepJ st' "r" (Pt.add Pt.G G2) 4 4 1)) = some true := by decide +kernel

/-- `a = G` (`z = 2`), `b = 2·G` (`z = 3`), both Jacobian -/
def stJJ : State :=
  ⟨jacVars "a" Pt.Gx Pt.Gy 2 ++ jacVars "b" (Pt.xOf G2) (Pt.yOf G2) 3,
    [(("a.infinity", 0), 0), (("b.infinity", 0), 0)], false⟩
set_option maxRecDepth 100000 in
/-- `gej_add_var`: `G + 2·G` -/
example : (stJJ.returned = false ∧ RepJ stJJ "a" Pt.G 4 4 1 ∧ RepJ stJJ "b" G2 4 4 1) ∧
    ((FeIR.execL stJJ Gen.group.gej_add_var.body).map fun st' => decide (RepJ st' "r" (Pt.add Pt.G G2) 4 4 1)) =
      some true := by decide +kernel

/-- `a = G` (`z = 2`); `b = 2·G` on the isomorphic curve with `z = 2`, `bzinv = 1/2` -/
def stZinvAdd : State :=
  ⟨jacVars "a" Pt.Gx Pt.Gy 2 ++
    [("b.x", ⟨Fe.mul (Pt.xOf G2) 4, 4⟩), ("b.y", ⟨Fe.mul (Pt.yOf G2) 8, 3⟩), ("bzinv", ⟨(P + 1) / 2, 8⟩)],
    [(("a.infinity", 0), 0), (("b.infinity", 0), 0)], false⟩
set_option maxRecDepth 100000 in
/-- `gej_add_zinv_var`: `G + 2·G` -/
example : (stZinvAdd.returned = false ∧ RepJ stZinvAdd "a" Pt.G 4 4 1 ∧ RepAZinv stZinvAdd G2) ∧
    ((FeIR.execL stZinvAdd Gen.group.gej_add_zinv_var.body).map fun st' =>
      decide (RepJ st' "r" (Pt.add Pt.G G2) 4 4 1)) = some true := by decide +kernel

end SecpZkp.C05grp
