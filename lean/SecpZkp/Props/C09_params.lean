/-
  C09 (part "params"): the pure-arithmetic layer of range-proof creation.

  `Rangeproof.proveParams` is a line-by-line model of `secp256k1_range_proveparams`
  (src/modules/rangeproof/rangeproof_impl.h:114-189), `Rangeproof.headerBytes` of the header writing part of
  `secp256k1_rangeproof_sign_impl`, `Rangeproof.getHeader` of `secp256k1_rangeproof_getheader_impl`,
  `Rangeproof.maxSize` of `secp256k1_rangeproof_max_size`.  All theorems are for ALL inputs in the stated
  ranges; the helper lemmas are in `SecpZkp/Proofs/Rangeproof.lean`.
-/
import SecpZkp.Proofs.Rangeproof

namespace SecpZkp
namespace C09

open Rangeproof

/-- What `secp256k1_rangeproof_sign_impl` has established when it calls `secp256k1_range_proveparams`
(`if (*plen < 65 || min_value > value || min_bits > 64 || min_bits < 0 || exp < -1 || exp > 18) return 0;`),
together with `value` being a `uint64_t`. -/
structure SignPre (minValue value : Nat) (exp minBits : Int) : Prop where
  min_le : minValue ≤ value
  value_lt : value < 2 ^ 64
  exp_ge : -1 ≤ exp
  exp_le : exp ≤ 18
  bits_ge : 0 ≤ minBits
  bits_le : minBits ≤ 64

/-- The parameter set `signImpl` computes: `proveParams` called with `v` uninitialised (0). -/
def signParams (minValue value : Nat) (exp minBits : Int) : ProveParams := proveParams 0 minValue exp minBits value

/-- The header bytes `signImpl` writes for a parameter set. -/
def signHeader (pp : ProveParams) : Bytes := headerBytes (pp.rsizes.headD 1) pp.exp pp.mantissa pp.minValue

/-- The buffer size `signImpl` requires for a parameter set (`len` after the header plus
`32 * (npub + rings - 1) + 32 + ((rings+6) >> 3)`); the proof written has this length, except for the
exact-value proof, which is 32 bytes shorter (`npub` is set to 2 there but the single ring has one member). -/
def requiredLen (pp : ProveParams) : Nat :=
  (signHeader pp).length + (32 * (pp.npub + pp.rings - 1) + 32 + ((pp.rings + 6) >>> 3))

/-- `signParams`/`signHeader`/`requiredLen` are literally what `signImpl` uses: its four parameter guards
in terms of them. -/
theorem signImpl_uses (plen minValue : Nat) (commit : Pt) (blind nonce : Bytes) (exp minBits : Int) (value : Nat)
    (message : Option Bytes) (msgLen : Nat) (extra : Option Bytes) (genp : Pt) (proof : Bytes)
    (h : signImpl plen minValue commit blind nonce exp minBits value message msgLen extra genp = some proof) :
    65 ≤ plen ∧ minValue ≤ value ∧ -1 ≤ exp ∧ exp ≤ 18 ∧ 0 ≤ minBits ∧ minBits ≤ 64 ∧
    (signParams minValue value exp minBits).ret = true ∧
    requiredLen (signParams minValue value exp minBits) ≤ plen := by
  unfold signImpl at h
  simp only [] at h
  split at h
  · exact absurd h (by simp)
  rename_i h1
  split at h
  · exact absurd h (by simp)
  rename_i h2
  split at h
  · exact absurd h (by simp)
  split at h
  · exact absurd h (by simp)
  rename_i h4
  refine ⟨by omega, by omega, by omega, by omega, by omega, by omega, by simpa [signParams] using h2, ?_⟩
  unfold requiredLen signHeader signParams
  omega

/-- The properties of a successfully derived parameter set (the `VERIFY_CHECK`s at the end of
`secp256k1_range_proveparams` and the facts the rest of `sign_impl` relies on). -/
structure ParamsOK (minValue0 value : Nat) (exp0 minBits0 : Int) (pp : ProveParams) : Prop where
  /-- `VERIFY_CHECK(*v * *scale + *min_value == value)`, in ℕ: no 64-bit wrap-around is involved. -/
  value_eq : pp.v * pp.scale + pp.minValue = value
  /-- `VERIFY_CHECK(*rings > 0)` -/
  rings_pos : 1 ≤ pp.rings
  /-- `VERIFY_CHECK(*rings <= 32)` -/
  rings_le : pp.rings ≤ 32
  /-- `VERIFY_CHECK(*npub <= 128)` -/
  npub_le : pp.npub ≤ 128
  /-- the mantissa fits the header byte -/
  mantissa_le : pp.mantissa ≤ 64
  /-- `rings = ⌈mantissa/2⌉` (1 for the exact-value proof, whose mantissa is 0) -/
  rings_eq : pp.rings = if pp.mantissa = 0 then 1 else (pp.mantissa + 1) / 2
  /-- exactly `rings` entries of `rsizes` and `secidx` are written -/
  rsizes_len : pp.rsizes.length = pp.rings
  secidx_len : pp.secidx.length = pp.rings
  /-- every secret index is inside its ring: `secidx[i] < rsizes[i]` -/
  digit_lt : ∀ p ∈ List.zip pp.secidx pp.rsizes, p.1 < p.2
  /-- ring sizes are 1, 2 or 4 -/
  rsizes_mem : ∀ r ∈ pp.rsizes, r = 1 ∨ r = 2 ∨ r = 4
  /-- `npub = Σ rsizes`, except in the exact-value branch where the code sets `npub = 2` for the single
  ring of size 1 -/
  npub_eq : pp.npub = pp.rsizes.sum ∨ (pp.mantissa = 0 ∧ pp.rsizes = [1] ∧ pp.npub = 2)
  /-- `scale = 10^exp`, `0 ≤ exp ≤ 18` -/
  exp_ge : 0 ≤ pp.exp
  exp_le : pp.exp ≤ 18
  scale_eq : pp.scale = 10 ^ pp.exp.toNat
  /-- the secret indices are the base-4 digits of `v`: `v = Σ secidx[i] * 4^i` -/
  digits : digitsValue pp.secidx = pp.v
  /-- `VERIFY_CHECK((*v & ~(UINT64_MAX>>(64-*mantissa))) == 0)`: the mantissa covers all bits of `v` -/
  v_lt : pp.v < 2 ^ pp.mantissa
  /-- the derived minimum is at least the requested one, the derived exponent and `min_bits` are at most the
  requested ones, and at least `min_bits` bits are proven -/
  min_ge : minValue0 ≤ pp.minValue
  exp_le_req : 0 ≤ exp0 → pp.exp ≤ exp0
  bits_le_req : pp.minBits ≤ minBits0
  bits_le_mantissa : pp.mantissa ≠ 0 → pp.minBits ≤ pp.mantissa
  /-- the proven range `[min_value, min_value + (2^mantissa - 1) * scale]` stays below `2^64`
  (this is what the verifier's header check demands) -/
  max_lt : pp.minValue + (2 ^ pp.mantissa - 1) * pp.scale < 2 ^ 64
  /-- the exact-value proof is produced exactly for `exp = -1` or `min_value = UINT64_MAX` -/
  exact_iff : pp.mantissa = 0 ↔ (minValue0 = u64Max ∨ exp0 < 0)
  /-- closed form of `npub`: two ring members per mantissa bit (2 for the exact-value proof) -/
  npub_closed : pp.npub = if pp.mantissa = 0 then 2 else 2 * pp.mantissa
  /-- the mantissa is no larger than needed: it is `min_bits'`, or the bit length of `v`, or at most 1 -/
  mantissa_tight : (pp.mantissa : Int) = pp.minBits ∨ 2 ^ pp.mantissa ≤ 2 * pp.v ∨ pp.mantissa ≤ 1

/-- **`proveparams_ok`** (C09, parameter layer).  For every `min_value ≤ value < 2^64`, `exp ∈ [-1,18]`,
`min_bits ∈ [0,64]` (any initial `*v`): if `secp256k1_range_proveparams` returns 1 then its outputs satisfy
`ParamsOK`: `v * scale + min_value' = value` without wrap, `1 ≤ rings ≤ 32`, `npub ≤ 128`, `mantissa ≤ 64`,
`secidx[i] < rsizes[i] ∈ {1,2,4}`, `npub = Σ rsizes` (or `npub = 2` with the single size-1 ring of the exact
proof), `scale = 10^exp'`, `exp' ≤ 18`, `secidx` are the base-4 digits of `v`, `v < 2^mantissa`, and the
proven range does not overflow `2^64`. -/
theorem proveparams_ok (v0 minValue value : Nat) (exp minBits : Int) (pre : SignPre minValue value exp minBits)
    (hret : (proveParams v0 minValue exp minBits value).ret = true) :
    ParamsOK minValue value exp minBits (proveParams v0 minValue exp minBits value) := by
  obtain ⟨hmin, hval, he1, he2, hb1, hb2⟩ := pre
  by_cases hex : minValue = u64Max ∨ exp < 0
  · rw [proveParams_exact v0 minValue value exp minBits hex]
    refine { value_eq := by simp, rings_pos := by simp, rings_le := by simp, npub_le := by simp,
             mantissa_le := by simp, rings_eq := by simp, rsizes_len := by simp, secidx_len := by simp,
             digit_lt := by simp, rsizes_mem := by simp, npub_eq := Or.inr (by simp), exp_ge := by simp,
             exp_le := by simp, scale_eq := by simp, digits := by simp [digitsValue], v_lt := by simp,
             min_ge := hmin, exp_le_req := fun h => by simp; exact h, bits_le_req := by simp,
             bits_le_mantissa := by simp, max_lt := by simpa using hval, exact_iff := by simp [hex],
             npub_closed := by simp, mantissa_tight := by simp }
  · have h1 : minValue ≠ u64Max := fun h => hex (Or.inl h)
    have h2 : exp ≥ 0 := by omega
    by_cases hg : (minValue ≠ 0 ∧ value > i64Max) ∨ (value ≠ 0 ∧ minValue ≥ i64Max)
    · rw [proveParams_fail v0 minValue value exp minBits h1 h2 hg] at hret
      exact absurd hret (by simp)
    · obtain ⟨k, v, m, mb, hpp, hk, hke, hv, hvS, hm1, hm2, hvm, hmb0, hmb1, hmb2, hmax, htight⟩ :=
        proveParams_general v0 minValue value exp minBits hmin hval he2 hb1 hb2 h1 h2 hg
      rw [hpp]
      have hR : 1 ≤ (m + 1) / 2 := by omega
      obtain ⟨hl1, hl2⟩ := ringsOf_length ((m + 1) / 2) m v ((m + 1) / 2) 0
      have hvS' : v * 10 ^ k ≤ value - minValue := by
        rw [hv]; exact Nat.div_mul_le_self _ _
      have hm0 : m ≠ 0 := by omega
      refine { value_eq := by simp only; omega, rings_pos := hR, rings_le := by simp only; omega,
               npub_le := ?_, mantissa_le := hm2, rings_eq := by simp [hm0], rsizes_len := hl1, secidx_len := hl2,
               digit_lt := ringsOf_digit_lt _ _ _ _ _ rfl hvm (by omega),
               rsizes_mem := ?_, npub_eq := Or.inl (ringsOf_npub _ _ _ _ _), exp_ge := by simp only; omega,
               exp_le := by simp only; omega, scale_eq := by simp, digits := ?_, v_lt := hvm,
               min_ge := by simp only; omega, exp_le_req := fun _ => hke, bits_le_req := hmb1,
               bits_le_mantissa := fun _ => hmb2, max_lt := hmax, exact_iff := by simp [hm0, hex],
               npub_closed := ?_, mantissa_tight := by simp only; omega }
      · simp only
        rw [ringsOf_npub_closed _ _ _ _ _ rfl (by omega)]
        omega
      · intro r hr
        rcases ringsOf_rsizes_mem _ _ _ _ _ r hr with h | h <;> omega
      · simp only
        rw [ringsOf_digits, Nat.zero_mul, Nat.shiftRight_zero]
        apply Nat.mod_eq_of_lt
        have : (4 : Nat) ^ ((m + 1) / 2) = 2 ^ (2 * ((m + 1) / 2)) := by
          rw [Nat.pow_mul]
        rw [this]
        exact Nat.lt_of_lt_of_le hvm (Nat.pow_le_pow_right (by omega) (by omega))
      · simp only [hm0, if_false]
        rw [ringsOf_npub_closed _ _ _ _ _ rfl (by omega)]
        split <;> omega

/-- Non-vacuity: `value = 123456`, `min_value = 5`, `exp = 3`, `min_bits = 10` satisfy the preconditions and
`proveparams` succeeds with `v = 123`, scale `1000`, new minimum `456`, five rings of size 4 and digits
`123 = 3 + 2·4 + 3·16 + 1·64 + 0·256`. -/
example : SignPre 5 123456 3 10 := ⟨by decide, by decide, by decide, by decide, by decide, by decide⟩
example : let pp := proveParams 0 5 3 10 123456
    pp.ret = true ∧ pp.v = 123 ∧ pp.scale = 1000 ∧ pp.minValue = 456 ∧ pp.mantissa = 10 ∧ pp.exp = 3 ∧
    pp.rings = 5 ∧ pp.rsizes = [4, 4, 4, 4, 4] ∧ pp.secidx = [3, 2, 3, 1, 0] ∧ pp.npub = 20 := by
  decide +kernel
/-- an odd mantissa (last ring of size 2) and the exact-value proof -/
example : let pp := proveParams 0 0 0 0 21
    pp.ret = true ∧ pp.mantissa = 5 ∧ pp.rsizes = [4, 4, 2] ∧ pp.secidx = [1, 1, 1] ∧ pp.npub = 10 := by
  decide +kernel
example : let pp := proveParams 0 7 (-1) 0 7
    pp.ret = true ∧ pp.mantissa = 0 ∧ pp.rsizes = [1] ∧ pp.secidx = [0] ∧ pp.npub = 2 ∧ pp.minValue = 7 := by
  decide +kernel

/-- **`proveparams_fails_iff`** (C09).  For ALL inputs (no range restriction at all),
`secp256k1_range_proveparams` returns 0 exactly when a range is to be coded (`exp ≥ 0` and
`min_value ≠ UINT64_MAX`) and one of the two `2^63` guards fires: `min_value ≠ 0` with `value > INT64_MAX`,
or `value ≠ 0` with `min_value ≥ INT64_MAX`.  In that case `*v` is left untouched. -/
theorem proveparams_fails_iff (v0 minValue value : Nat) (exp minBits : Int) :
    (proveParams v0 minValue exp minBits value).ret = false ↔
      (minValue ≠ u64Max ∧ exp ≥ 0 ∧
        ((minValue ≠ 0 ∧ value > i64Max) ∨ (value ≠ 0 ∧ minValue ≥ i64Max))) := by
  constructor
  · intro h
    by_cases hex : minValue = u64Max ∨ exp < 0
    · rw [proveParams_exact v0 minValue value exp minBits hex] at h
      exact absurd h (by simp)
    · have h1 : minValue ≠ u64Max := fun h => hex (Or.inl h)
      have h2 : exp ≥ 0 := by omega
      refine ⟨h1, h2, ?_⟩
      apply Classical.byContradiction
      intro hg
      unfold proveParams at h
      simp only [h1, if_false, h2, if_true, hg] at h
      exact absurd h (by simp)
  · rintro ⟨h1, h2, hg⟩
    rw [proveParams_fail v0 minValue value exp minBits h1 h2 hg]

/-- When it fails, every output keeps the value written at the top of the function and `*v` is untouched. -/
theorem proveparams_fail_outputs (v0 minValue value : Nat) (exp minBits : Int)
    (h : (proveParams v0 minValue exp minBits value).ret = false) :
    proveParams v0 minValue exp minBits value = ⟨false, v0, 1, [1], 0, [0], minValue, 0, 1, exp, minBits⟩ := by
  obtain ⟨h1, h2, hg⟩ := (proveparams_fails_iff v0 minValue value exp minBits).1 h
  exact proveParams_fail v0 minValue value exp minBits h1 h2 hg

/-- Non-vacuity: both guards are reachable from `signImpl`'s preconditions
(`min_value = 1, value = 2^63`; `min_value = 2^63 - 1 = value`), and a documented-valid set next to them
(`min_value = 0, value = 2^64 - 1`) succeeds. -/
example : SignPre 1 (2 ^ 63) 0 0 ∧ (proveParams 0 1 0 0 (2 ^ 63)).ret = false :=
  ⟨⟨by decide, by decide, by decide, by decide, by decide, by decide⟩, by decide +kernel⟩
example : SignPre (2 ^ 63 - 1) (2 ^ 63 - 1) 0 0 ∧ (proveParams 0 (2 ^ 63 - 1) 0 0 (2 ^ 63 - 1)).ret = false :=
  ⟨⟨by decide, by decide, by decide, by decide, by decide, by decide⟩, by decide +kernel⟩
example : (proveParams 0 0 18 64 (2 ^ 64 - 1)).ret = true ∧ (proveParams 0 0 18 64 (2 ^ 64 - 1)).mantissa = 64 ∧
    (proveParams 0 0 18 64 (2 ^ 64 - 1)).exp = 0 := by decide +kernel

/-! ### the header that `signImpl` writes decodes to the computed parameters -/

/-- **`header_roundtrip`** (C09).  Under `signImpl`'s preconditions, if `proveparams` succeeds with outputs `pp`,
then for ANY continuation `rest` of the proof (of total length ≥ 65, which `signImpl` guarantees) the header
bytes `signImpl` writes decode under `secp256k1_rangeproof_getheader_impl` to: success, header length =
number of bytes written, the same mantissa, scale and minimum value, exponent `exp'` (reported as `-1` for the
exact-value proof, where the exponent is not encoded), and
`max_value = min_value' + (2^mantissa - 1) * scale < 2^64`.  Hence the reported range contains the value:
`min_value' ≤ value ≤ max_value`. -/
theorem header_roundtrip (v0 minValue value : Nat) (exp minBits : Int) (pre : SignPre minValue value exp minBits)
    (pp : ProveParams) (hpp : pp = proveParams v0 minValue exp minBits value) (hret : pp.ret = true)
    (rest : Bytes) (init : Header) (hoff : init.offset = 0) (hlen : 65 ≤ (signHeader pp ++ rest).length) :
    getHeader init (signHeader pp ++ rest) =
      ⟨true, (signHeader pp).length, if pp.mantissa = 0 then -1 else pp.exp, pp.mantissa, pp.scale, pp.minValue,
        pp.minValue + (2 ^ pp.mantissa - 1) * pp.scale⟩ ∧
    pp.minValue ≤ value ∧ value ≤ pp.minValue + (2 ^ pp.mantissa - 1) * pp.scale ∧
    pp.minValue + (2 ^ pp.mantissa - 1) * pp.scale < 2 ^ 64 := by
  have ok : ParamsOK minValue value exp minBits pp := by
    rw [hpp]; exact proveparams_ok v0 minValue value exp minBits pre (hpp ▸ hret)
  have hrange : pp.minValue ≤ value ∧ value ≤ pp.minValue + (2 ^ pp.mantissa - 1) * pp.scale := by
    have h1 := ok.value_eq
    have h2 : pp.v * pp.scale ≤ (2 ^ pp.mantissa - 1) * pp.scale :=
      Nat.mul_le_mul_right _ (by have := ok.v_lt; omega)
    omega
  refine ⟨?_, hrange.1, hrange.2, ok.max_lt⟩
  obtain ⟨k, hk⟩ : ∃ k : Nat, pp.exp = (k : Int) := ⟨pp.exp.toNat, by have := ok.exp_ge; omega⟩
  have hk18 : k ≤ 18 := by have := ok.exp_le; omega
  have hscale : pp.scale = 10 ^ k := by rw [ok.scale_eq, hk]; simp
  have hmin64 : pp.minValue < 2 ^ 64 := by have := hrange.1; have := pre.value_lt; omega
  -- the exact-value parameter set
  have hexact : pp.mantissa = 0 → pp.rsizes = [1] ∧ pp.exp = 0 := by
    intro hm0
    have hex := proveParams_exact v0 minValue value exp minBits (ok.exact_iff.1 hm0)
    rw [hpp, hex]; simp
  -- first ring size > 1 iff not the exact-value proof
  have hr0 : pp.rsizes.headD 1 > 1 ↔ pp.mantissa ≠ 0 := by
    constructor
    · intro h hm0
      rw [(hexact hm0).1] at h; simp at h
    · intro hm0
      have hne : ¬ (minValue = u64Max ∨ exp < 0) := fun h => hm0 (ok.exact_iff.2 h)
      have h1 : minValue ≠ u64Max := fun h => hne (Or.inl h)
      have h2 : exp ≥ 0 := by omega
      have hg : ¬ ((minValue ≠ 0 ∧ value > i64Max) ∨ (value ≠ 0 ∧ minValue ≥ i64Max)) := by
        intro hg
        have := proveParams_fail v0 minValue value exp minBits h1 h2 hg
        rw [hpp, this] at hret; simp at hret
      obtain ⟨k', v, m, mb, hpp', -, -, -, -, hm1, -⟩ :=
        proveParams_general v0 minValue value exp minBits pre.min_le pre.value_lt pre.exp_le pre.bits_ge
          pre.bits_le h1 h2 hg
      rw [hpp, hpp']
      exact ringsOf_headD _ _ _ _ _ (by omega)
  have hd := headerBytes_decode (pp.rsizes.headD 1) k pp.mantissa pp.minValue rest hk18
    (fun h => by have := hr0.1 h; omega) ok.mantissa_le hmin64
  have hsh : signHeader pp = headerBytes (pp.rsizes.headD 1) (k : Int) pp.mantissa pp.minValue := by
    unfold signHeader; rw [hk]
  rw [hsh] at hlen ⊢
  obtain ⟨d1, d2, d3, d4, d5, d6⟩ := hd
  generalize headerBytes (pp.rsizes.headD 1) (k : Int) pp.mantissa pp.minValue ++ rest = proof at *
  by_cases hm0 : pp.mantissa = 0
  · have hnz : ¬ hdrHasNz proof :=
      fun h => (hr0.1 (d2.1 h)) hm0
    have hacc : HeaderAccepts proof := by
      refine ⟨hlen, d1, fun h => absurd h hnz, ?_⟩
      rw [d5]; simp only [hdrSpan, hnz, if_false]; omega
    rw [getHeader_accept init _ hoff hacc, d5, d6]
    have hk0 : k = 0 := by have := (hexact hm0).2; omega
    simp only [hdrExp, hdrMantissa, hdrScale, hdrSpan, hnz, if_false, hm0, if_true, hscale]
    subst hk0
    simp
  · have hnz : hdrHasNz proof :=
      d2.2 (hr0.2 hm0)
    obtain ⟨e1, e2⟩ := d4 (hr0.2 hm0)
    have hmax := ok.max_lt
    have hacc : HeaderAccepts proof := by
      refine ⟨hlen, d1, fun _ => ⟨by omega, by have := ok.mantissa_le; omega⟩, ?_⟩
      rw [d5]; simp only [hdrSpan, hnz, if_true, e1, e2]; rw [← hscale]; exact hmax
    rw [getHeader_accept init _ hoff hacc, d5, d6]
    simp only [hdrExp, hdrScale, hdrSpan, hnz, if_true, e1, e2, hm0, if_false, hscale, hk]

/-- Non-vacuity and a concrete instance: for `value = 123456, min_value = 5, exp = 3, min_bits = 10` the header is
`63 09 00..01c8`, and `getHeader` on it (followed by 70 arbitrary bytes) reports the range `[456, 1023456]`,
which contains the value. -/
example : signHeader (proveParams 0 5 3 10 123456) = [0x63, 0x09, 0, 0, 0, 0, 0, 0, 0x01, 0xc8] := by
  decide +kernel
example : let h := getHeader ⟨false, 0, 0, 0, 0, 0, 0⟩ (signHeader (proveParams 0 5 3 10 123456) ++ List.replicate 70 7)
    h.ret = true ∧ h.offset = 10 ∧ h.exp = 3 ∧ h.mantissa = 10 ∧ h.scale = 1000 ∧ h.minValue = 456 ∧
    h.maxValue = 1023456 := by
  decide +kernel

/-! ### proof size -/

/-- the header is at most 10 bytes -/
theorem signHeader_length_le (pp : ProveParams) : 1 ≤ (signHeader pp).length ∧ (signHeader pp).length ≤ 10 := by
  unfold signHeader headerBytes
  have h8 : (Bytes.be8 pp.minValue).length = 8 := Bytes.ofNat_length 8 _
  simp only [List.length_append, List.length_cons, List.length_nil]
  split <;> split <;> simp [h8]

private theorem size_arith (a m mm : Nat) (ha : a ≤ 10) (h1 : 1 ≤ m) (h2 : m ≤ mm) :
    a + (32 * (2 * m + (m + 1) / 2 - 1) + 32 + ((m + 1) / 2 + 6) / 8) ≤
      10 + 32 * ((mm + 1) / 2 * 4 - 2 * (mm % 2) + (mm + 1) / 2 - 1) + 32 + ((mm + 1) / 2 - 1 + 7) / 8 := by
  have e1 : (mm + 1) / 2 * 4 - 2 * (mm % 2) = 2 * mm := by omega
  have e2 : (m + 1) / 2 ≤ (mm + 1) / 2 := by omega
  have e3 : ((m + 1) / 2 + 6) / 8 ≤ ((mm + 1) / 2 - 1 + 7) / 8 := by omega
  rw [e1]
  generalize (m + 1) / 2 = r at *
  generalize (mm + 1) / 2 = R at *
  generalize (r + 6) / 8 = x at *
  generalize (R - 1 + 7) / 8 = y at *
  omega
private theorem size_arith0 (a mm : Nat) (ha : a ≤ 10) (h2 : 1 ≤ mm) :
    a + (32 * (2 + 1 - 1) + 32 + (1 + 6) / 8) ≤
      10 + 32 * ((mm + 1) / 2 * 4 - 2 * (mm % 2) + (mm + 1) / 2 - 1) + 32 + ((mm + 1) / 2 - 1 + 7) / 8 := by
  have e1 : (mm + 1) / 2 * 4 - 2 * (mm % 2) = 2 * mm := by omega
  rw [e1]
  omega

/-- **`len_le_max_size`** (C09).  `secp256k1_rangeproof_max_size(max_value, min_bits)` is documented as an upper
bound on the size of a proof for any `value ≤ max_value` created with this `min_bits` (and any `exp`,
`min_value`).  Indeed, under `signImpl`'s preconditions, for EVERY `M` with `value ≤ M < 2^64`, the buffer size
`signImpl` asks for — header + `32·(npub + rings − 1) + 32 + ⌊(rings+6)/8⌋`, which is the length of the proof it
writes (32 more than that for the exact-value proof) — is at most `maxSize M min_bits`.  So a buffer of
`max_size` bytes is never rejected as too small. -/
theorem len_le_max_size (v0 minValue value : Nat) (exp minBits : Int) (pre : SignPre minValue value exp minBits)
    (pp : ProveParams) (hpp : pp = proveParams v0 minValue exp minBits value) (hret : pp.ret = true)
    (M : Nat) (hM : value ≤ M) (hM64 : M < 2 ^ 64) :
    requiredLen pp ≤ maxSize M minBits := by
  have ok : ParamsOK minValue value exp minBits pp := by
    rw [hpp]; exact proveparams_ok v0 minValue value exp minBits pre (hpp ▸ hret)
  obtain ⟨hl1, hl2⟩ := signHeader_length_le pp
  unfold requiredLen maxSize
  simp only []
  rw [Nat.shiftRight_eq_div_pow]
  -- the mantissa `max_size` uses
  generalize hvm : (if M > 0 then ((64 : Int) - (clz64 M : Int)) else 1) = valMantissa
  have hvm1 : 1 ≤ valMantissa ∧ valMantissa ≤ 64 ∧ (M ≠ 0 → M < 2 ^ valMantissa.toNat) := by
    by_cases h0 : M = 0
    · subst h0; simp at hvm; subst hvm; simp
    · have : M > 0 := by omega
      simp only [this, if_true] at hvm
      obtain ⟨m, hm, h1, h2, h3, h4⟩ := clz64_spec h0 hM64
      rw [hm] at hvm
      have : valMantissa = (m : Int) := by omega
      subst this
      exact ⟨by omega, by omega, fun _ => by simpa using h4⟩
  generalize hmm : (if minBits > valMantissa then minBits else valMantissa).toNat = mm
  have hmm1 : 1 ≤ mm ∧ valMantissa.toNat ≤ mm ∧ minBits ≤ mm := by
    subst hmm; split <;> omega
  -- the mantissa used by the prover is at most that
  have hle : pp.mantissa ≤ mm := by
    rcases ok.mantissa_tight with h | h | h
    · have := ok.bits_le_req; omega
    · have hv : pp.v ≤ M := by
        have := ok.value_eq
        have hs : 1 ≤ pp.scale := by rw [ok.scale_eq]; exact Nat.pow_pos (by omega)
        have : pp.v ≤ pp.v * pp.scale := Nat.le_mul_of_pos_right _ hs
        omega
      have hM0 : M ≠ 0 := by
        intro h0; subst h0
        have : pp.v = 0 := by omega
        rw [this] at h
        have := Nat.pow_pos (n := pp.mantissa) (show 0 < 2 by omega)
        omega
      have h1 := hvm1.2.2 hM0
      have h2 : 2 ^ pp.mantissa < 2 ^ (valMantissa.toNat + 1) := by rw [Nat.pow_succ]; omega
      have := (Nat.pow_lt_pow_iff_right (by omega : 1 < 2)).1 h2
      omega
    · omega
  have hr := ok.rings_eq
  have hn := ok.npub_closed
  simp only [Nat.pow_succ, Nat.pow_zero, Nat.one_mul]
  by_cases hm0 : pp.mantissa = 0
  · simp only [hm0, if_true] at hr hn
    rw [hr, hn]; exact size_arith0 _ mm hl2 hmm1.1
  · simp only [hm0, if_false] at hr hn
    rw [hr, hn]; exact size_arith _ _ mm hl2 (by omega) hle

/-- `secp256k1_rangeproof_max_size` never exceeds 5134 bytes for `min_bits ≤ 64` (any `max_value`), and 5134 is attained. -/
theorem maxSize_le (M : Nat) (minBits : Int) (hb : minBits ≤ 64) : maxSize M minBits ≤ 5134 := by
  unfold maxSize
  simp only []
  generalize hvm : (if M > 0 then ((64 : Int) - (clz64 M : Int)) else 1) = valMantissa
  have hvm1 : valMantissa ≤ 64 := by
    subst hvm; split <;> omega
  generalize hmm : (if minBits > valMantissa then minBits else valMantissa).toNat = mm
  have : mm ≤ 64 := by subst hmm; split <;> omega
  omega

example : maxSize (2 ^ 64 - 1) 0 = 5134 := by decide +kernel
example : maxSize 0 64 = 5134 := by decide +kernel
/-- the C09 example: required length 10 + 32·(20+5−1) + 32 + 1 = 811 ≤ max_size(123456, 10) = 1387 -/
example : requiredLen (proveParams 0 5 3 10 123456) = 811 ∧ maxSize 123456 10 = 1387 := by decide +kernel

/-! ### `secp256k1_rangeproof_info` -/

/-- **`info_eq_getHeader`** (C09).  `secp256k1_rangeproof_info` is the header decoder started at offset 0: it
returns exactly what `getHeader` computes (and what `verify` decodes, see `C10.verify_reports_info_range`). -/
theorem info_eq_getHeader (init : Header) (proof : Bytes) :
    info init proof = getHeader { init with offset := 0 } proof := rfl

/-- `info` succeeds exactly on the accepted headers and then reports exponent, mantissa, `min_value` and
`max_value = min_value + (2^mantissa − 1)·10^exp < 2^64`, independently of the previous contents of its outputs. -/
theorem info_spec (init : Header) (proof : Bytes) :
    ((info init proof).ret = true ↔ HeaderAccepts proof) ∧
    (HeaderAccepts proof → info init proof =
      ⟨true, hdrLen proof, hdrExp proof, hdrMantissa proof, hdrScale proof, hdrMin proof,
        hdrMin proof + hdrSpan proof⟩) := by
  refine ⟨⟨fun h => ?_, fun h => ?_⟩, fun h => getHeader_accept _ proof rfl h⟩
  · apply Classical.byContradiction
    intro hn
    rw [info_eq_getHeader, getHeader_reject _ proof hn] at h
    exact absurd h (by simp)
  · rw [info_eq_getHeader, getHeader_accept _ proof rfl h]

/-- For a proof made by `signImpl`'s parameter logic, `info` reports a range containing the value
(corollary of `header_roundtrip`). -/
theorem info_range_contains_value (v0 minValue value : Nat) (exp minBits : Int)
    (pre : SignPre minValue value exp minBits)
    (pp : ProveParams) (hpp : pp = proveParams v0 minValue exp minBits value) (hret : pp.ret = true)
    (rest : Bytes) (init : Header) (hlen : 65 ≤ (signHeader pp ++ rest).length) :
    (info init (signHeader pp ++ rest)).ret = true ∧
    (info init (signHeader pp ++ rest)).minValue ≤ value ∧ value ≤ (info init (signHeader pp ++ rest)).maxValue ∧
    (info init (signHeader pp ++ rest)).maxValue < 2 ^ 64 := by
  obtain ⟨h1, h2, h3, h4⟩ :=
    header_roundtrip v0 minValue value exp minBits pre pp hpp hret rest { init with offset := 0 } rfl hlen
  rw [info_eq_getHeader, h1]
  exact ⟨rfl, h2, h3, h4⟩

example : (info ⟨false, 9, 9, 9, 9, 9, 9⟩ (signHeader (proveParams 0 5 3 10 123456) ++ List.replicate 70 7)).maxValue
    = 1023456 := by decide +kernel

end C09
end SecpZkp
