import SecpZkp.Proofs.ScalarKernel
import SecpZkp.Gen.K_scalar4x64
/-
  C05 (scalar part): the 4×64-limb scalar arithmetic of the C library (`src/scalar_4x64_impl.h`, portable C path,
  native `unsigned __int128`) is exact for ALL limb values.

  Object of the theorems: the MiniC IR `Gen.scalar4x64.*` that `tools/c2lean_k.py` regenerates from the C sources
  (callees and the macros `muladd`, `muladd_fast`, `sumadd`, `sumadd_fast`, `extract`, `extract_fast` inlined).
  Semantics: `execL`, i.e. C's WRAP-AROUND arithmetic (uint64 mod 2^64, uint32 mod 2^32, uint128 mod 2^128).
  The code uses the add-with-carry idiom (`c0 += tl; th += (c0 < tl); c1 += th; c2 += (c1 < th)`) on purpose,
  so the interval checker of `Props/C05_field.lean` does not apply; the proofs reason about `execL` directly.

  Method (helpers in `Proofs/ScalarKernel.lean`)
  * `steps n` executes the next `n` statements of the literal program symbolically (reads are resolved through the
    chain of writes; names of temporaries are compared by `String.reduceEq`); `vstep x` executes one statement and
    names its value.
  * The three variables `(c0, c1, c2)` are read as the accumulator `c0 + c1·2^64 + c2·2^128`.  For every macro
    expansion a lemma (`muladd_spec`, `muladd_fast_spec`, `sumadd_spec`, `sumadd_fast_spec`) takes the literal
    wrap-around expressions and returns new limbs in range whose accumulator is the old one plus the added term,
    provided the numeric bound carried along for the accumulator leaves room (a closed inequality, `by decide`);
    `extract` divides the bound by `2^64`.  The column bounds (`≤ k·(2^64-1)^2 + carry`) are exactly what makes
    the `_fast` variants and the 32-bit `c2` of `scalar_mul_512` safe.
  * What is left is linear arithmetic over the limb variables and the 16 products `a_i·b_j` (`omega`), the
    branch-free comparison `scalar_check_overflow` (`check_overflow_spec`, case analysis) and the final
    conditional subtraction (`final_reduce_arith`).

  A change of the C code that breaks the arithmetic (a dropped `muladd`, a swapped index, a wrong constant, a
  `_fast` macro where the accumulator may overflow) makes the corresponding step or the final `omega` fail.
  No axioms beyond propext / Classical.choice / Quot.sound.
-/

namespace SecpZkp
namespace C05sc
open MiniC ScalarKernel

/-! ### reading scalars from memory -/

/-- the four cells `x[0..3]` hold 64-bit values -/
def Limbs64 (env : Env) (x : String) : Prop :=
  env.get x 0 < 2 ^ 64 ∧ env.get x 1 < 2 ^ 64 ∧ env.get x 2 < 2 ^ 64 ∧ env.get x 3 < 2 ^ 64

instance (env : Env) (x : String) : Decidable (Limbs64 env x) := by unfold Limbs64; infer_instance

/-- the eight cells `x[0..7]` hold 64-bit values -/
def Limbs64x8 (env : Env) (x : String) : Prop :=
  env.get x 0 < 2 ^ 64 ∧ env.get x 1 < 2 ^ 64 ∧ env.get x 2 < 2 ^ 64 ∧ env.get x 3 < 2 ^ 64 ∧
  env.get x 4 < 2 ^ 64 ∧ env.get x 5 < 2 ^ 64 ∧ env.get x 6 < 2 ^ 64 ∧ env.get x 7 < 2 ^ 64

instance (env : Env) (x : String) : Decidable (Limbs64x8 env x) := by unfold Limbs64x8; infer_instance

/-- the number held by the 4-limb array `x` (`secp256k1_scalar.d`) -/
def sval (env : Env) (x : String) : Nat := val4 (env.get x 0) (env.get x 1) (env.get x 2) (env.get x 3)

/-- the number held by the 8-limb array `x` -/
def lval8 (env : Env) (x : String) : Nat :=
  val8 (env.get x 0) (env.get x 1) (env.get x 2) (env.get x 3) (env.get x 4) (env.get x 5) (env.get x 6) (env.get x 7)

/-- a memory with the scalars `a` and `b` (limbs little-endian) -/
def abEnv (a0 a1 a2 a3 b0 b1 b2 b3 : Nat) : Env :=
  [(("a.d", 0), a0), (("a.d", 1), a1), (("a.d", 2), a2), (("a.d", 3), a3),
   (("b.d", 0), b0), (("b.d", 1), b1), (("b.d", 2), b2), (("b.d", 3), b3)]

/-- `a = b = 2^256 - 1` (all limbs all-ones; NOT reduced modulo `N`) -/
def onesEnv : Env :=
  abEnv 18446744073709551615 18446744073709551615 18446744073709551615 18446744073709551615
        18446744073709551615 18446744073709551615 18446744073709551615 18446744073709551615

/-- `a = b = N - 1` -/
def nm1Env : Env :=
  abEnv 13822214165235122496 13451932020343611451 18446744073709551614 18446744073709551615
        13822214165235122496 13451932020343611451 18446744073709551614 18446744073709551615

/-! ### 1. `secp256k1_scalar_add` -/

/-- post-condition of `secp256k1_scalar_add(r, a, b)` in terms of the input limbs -/
def AddPost (a0 a1 a2 a3 b0 b1 b2 b3 : Nat) (out : Env × Option Nat) : Prop :=
  val4 (out.1.get "r.d" 0) (out.1.get "r.d" 1) (out.1.get "r.d" 2) (out.1.get "r.d" 3) =
    (val4 a0 a1 a2 a3 + val4 b0 b1 b2 b3) % N ∧
  out.2 = some (if N ≤ val4 a0 a1 a2 a3 + val4 b0 b1 b2 b3 then 1 else 0) ∧
  out.1.get "r.d" 0 < 2 ^ 64 ∧ out.1.get "r.d" 1 < 2 ^ 64 ∧ out.1.get "r.d" 2 < 2 ^ 64 ∧ out.1.get "r.d" 3 < 2 ^ 64

set_option maxRecDepth 100000 in
set_option maxHeartbeats 4000000 in
theorem scalar_add_run (env : Env) (a0 a1 a2 a3 b0 b1 b2 b3 : Nat)
    (h0 : env.get "a.d" 0 = a0) (h1 : env.get "a.d" 1 = a1) (h2 : env.get "a.d" 2 = a2) (h3 : env.get "a.d" 3 = a3)
    (g0 : env.get "b.d" 0 = b0) (g1 : env.get "b.d" 1 = b1) (g2 : env.get "b.d" 2 = b2) (g3 : env.get "b.d" 3 = b3)
    (A0 : a0 < 2 ^ 64) (A1 : a1 < 2 ^ 64) (A2 : a2 < 2 ^ 64) (A3 : a3 < 2 ^ 64)
    (B0 : b0 < 2 ^ 64) (B1 : b1 < 2 ^ 64) (B2 : b2 < 2 ^ 64) (B3 : b3 < 2 ^ 64)
    (hA : val4 a0 a1 a2 a3 < N) (hB : val4 b0 b1 b2 b3 < N) :
    AddPost a0 a1 a2 a3 b0 b1 b2 b3 (runR env Gen.scalar4x64.scalar_add.body) := by
  simp only [Gen.scalar4x64.scalar_add]
  steps 5 [h0, h1, h2, h3, g0, g1, g2, g3, sext_lt, nc0_eq, nc1_eq]
  vstep r0 [h0, h1, h2, h3, g0, g1, g2, g3, sext_lt, nc0_eq, nc1_eq]
  vstep t1 [h0, h1, h2, h3, g0, g1, g2, g3, sext_lt, nc0_eq, nc1_eq]
  steps 5 [h0, h1, h2, h3, g0, g1, g2, g3, sext_lt, nc0_eq, nc1_eq]
  vstep r1 [h0, h1, h2, h3, g0, g1, g2, g3, sext_lt, nc0_eq, nc1_eq]
  vstep t2 [h0, h1, h2, h3, g0, g1, g2, g3, sext_lt, nc0_eq, nc1_eq]
  steps 5 [h0, h1, h2, h3, g0, g1, g2, g3, sext_lt, nc0_eq, nc1_eq]
  vstep r2 [h0, h1, h2, h3, g0, g1, g2, g3, sext_lt, nc0_eq, nc1_eq]
  vstep t3 [h0, h1, h2, h3, g0, g1, g2, g3, sext_lt, nc0_eq, nc1_eq]
  steps 5 [h0, h1, h2, h3, g0, g1, g2, g3, sext_lt, nc0_eq, nc1_eq]
  vstep r3 [h0, h1, h2, h3, g0, g1, g2, g3, sext_lt, nc0_eq, nc1_eq]
  vstep t4 [h0, h1, h2, h3, g0, g1, g2, g3, sext_lt, nc0_eq, nc1_eq]
  vstep cc [h0, h1, h2, h3, g0, g1, g2, g3, sext_lt, nc0_eq, nc1_eq]
  steps 8 [h0, h1, h2, h3, g0, g1, g2, g3, sext_lt, nc0_eq, nc1_eq]
  vstep yes [h0, h1, h2, h3, g0, g1, g2, g3, sext_lt, nc0_eq, nc1_eq]
  vstep ov [h0, h1, h2, h3, g0, g1, g2, g3, sext_lt, nc0_eq, nc1_eq]
  steps 1 [h0, h1, h2, h3, g0, g1, g2, g3, sext_lt, nc0_eq, nc1_eq]
  steps 5 [h0, h1, h2, h3, g0, g1, g2, g3, sext_lt, nc0_eq, nc1_eq]
  vstep q0 [h0, h1, h2, h3, g0, g1, g2, g3, sext_lt, nc0_eq, nc1_eq]
  vstep u1 [h0, h1, h2, h3, g0, g1, g2, g3, sext_lt, nc0_eq, nc1_eq]
  steps 5 [h0, h1, h2, h3, g0, g1, g2, g3, sext_lt, nc0_eq, nc1_eq]
  vstep q1 [h0, h1, h2, h3, g0, g1, g2, g3, sext_lt, nc0_eq, nc1_eq]
  vstep u2 [h0, h1, h2, h3, g0, g1, g2, g3, sext_lt, nc0_eq, nc1_eq]
  steps 5 [h0, h1, h2, h3, g0, g1, g2, g3, sext_lt, nc0_eq, nc1_eq]
  vstep q2 [h0, h1, h2, h3, g0, g1, g2, g3, sext_lt, nc0_eq, nc1_eq]
  vstep u3 [h0, h1, h2, h3, g0, g1, g2, g3, sext_lt, nc0_eq, nc1_eq]
  steps 3 [h0, h1, h2, h3, g0, g1, g2, g3, sext_lt, nc0_eq, nc1_eq]
  vstep q3 [h0, h1, h2, h3, g0, g1, g2, g3, sext_lt, nc0_eq, nc1_eq]
  steps 2 [h0, h1, h2, h3, g0, g1, g2, g3, sext_lt, nc0_eq, nc1_eq]
  reads [AddPost]
  simp only [binWrap_add, binWrap_mul, binWrap_shr] at r0_def t1_def r1_def t2_def r2_def t3_def r3_def t4_def cc_def q0_def u1_def q1_def u2_def q2_def u3_def q3_def
  obtain ⟨hr0, hr1, hr2, hr3, hcc, hSum⟩ := add_chain_arith a0 a1 a2 a3 b0 b1 b2 b3 r0 t1 r1 t2 r2 t3 r3 t4 cc
    A0 A1 A2 A3 B0 B1 B2 B3 r0_def t1_def r1_def t2_def r2_def t3_def r3_def t4_def cc_def
  rw [check_overflow_spec r0 r1 r2 r3 hr0 hr1 hr2 hr3] at yes_def
  have hlt : r0 + r1 * 2 ^ 64 + r2 * 2 ^ 128 + r3 * 2 ^ 192 + cc * 2 ^ 256 < 2 * N := by
    rw [hSum]; omega
  obtain ⟨hov1, hov0, hFe, hFlt, hq0, hq1, hq2, hq3⟩ := final_reduce_arith r0 r1 r2 r3 cc yes ov q0 u1 q1 u2 q2 u3 q3
    hr0 hr1 hr2 hr3 hcc hlt yes_def ov_def q0_def u1_def q1_def u2_def q2_def u3_def q3_def
  rw [hSum] at hov1 hov0 hFe
  refine ⟨eq_mod_of_eq_add_mul hFe hFlt, ?_, hq0, hq1, hq2, hq3⟩
  by_cases hN : N ≤ val4 a0 a1 a2 a3 + val4 b0 b1 b2 b3
  · rw [if_pos hN, hov1 hN]
  · rw [if_neg hN, hov0 (by omega)]

/-- **`secp256k1_scalar_add` is exact.**  For EVERY memory in which `a` and `b` are reduced scalars (64-bit limbs,
    value `< N`), running the translated C function with wrap-around semantics leaves in `r` the limbs of
    `(a + b) mod N`, and the function returns `1` if `a + b ≥ N` and `0` otherwise. -/
theorem scalar_add_correct (env : Env) (ha : Limbs64 env "a.d") (hb : Limbs64 env "b.d")
    (hA : sval env "a.d" < N) (hB : sval env "b.d" < N) :
    sval (execL env Gen.scalar4x64.scalar_add.body).env "r.d" = (sval env "a.d" + sval env "b.d") % N ∧
    (execL env Gen.scalar4x64.scalar_add.body).ret = some (if N ≤ sval env "a.d" + sval env "b.d" then 1 else 0) ∧
    Limbs64 (execL env Gen.scalar4x64.scalar_add.body).env "r.d" := by
  obtain ⟨A0, A1, A2, A3⟩ := ha
  obtain ⟨B0, B1, B2, B3⟩ := hb
  exact scalar_add_run env _ _ _ _ _ _ _ _ rfl rfl rfl rfl rfl rfl rfl rfl A0 A1 A2 A3 B0 B1 B2 B3 hA hB

/-- Non-vacuity: `a = b = N - 1` satisfies the hypotheses; the theorem then says `r = N - 2` and the flag is `1`. -/
example : Limbs64 nm1Env "a.d" ∧ Limbs64 nm1Env "b.d" ∧ sval nm1Env "a.d" < N ∧ sval nm1Env "b.d" < N ∧
    sval (execL nm1Env Gen.scalar4x64.scalar_add.body).env "r.d" = N - 2 ∧
    (execL nm1Env Gen.scalar4x64.scalar_add.body).ret = some 1 := by
  have ha : Limbs64 nm1Env "a.d" := by decide +kernel
  have hb : Limbs64 nm1Env "b.d" := by decide +kernel
  have hA : sval nm1Env "a.d" < N := by decide +kernel
  have hB : sval nm1Env "b.d" < N := by decide +kernel
  obtain ⟨h1, h2, _⟩ := scalar_add_correct nm1Env ha hb hA hB
  have e1 : (sval nm1Env "a.d" + sval nm1Env "b.d") % N = N - 2 := by decide +kernel
  have e2 : (if N ≤ sval nm1Env "a.d" + sval nm1Env "b.d" then 1 else 0) = 1 := by decide +kernel
  rw [e1] at h1; rw [e2] at h2
  exact ⟨ha, hb, hA, hB, h1, h2⟩

/-! ### 2. `secp256k1_scalar_negate` -/

/-- post-condition of `secp256k1_scalar_negate(r, a)` -/
def NegPost (a0 a1 a2 a3 : Nat) (out : Env × Option Nat) : Prop :=
  val4 (out.1.get "r.d" 0) (out.1.get "r.d" 1) (out.1.get "r.d" 2) (out.1.get "r.d" 3) =
    (N - val4 a0 a1 a2 a3) % N ∧
  out.1.get "r.d" 0 < 2 ^ 64 ∧ out.1.get "r.d" 1 < 2 ^ 64 ∧ out.1.get "r.d" 2 < 2 ^ 64 ∧ out.1.get "r.d" 3 < 2 ^ 64

set_option maxRecDepth 100000 in
set_option maxHeartbeats 4000000 in
theorem scalar_negate_run (env : Env) (a0 a1 a2 a3 : Nat)
    (h0 : env.get "a.d" 0 = a0) (h1 : env.get "a.d" 1 = a1) (h2 : env.get "a.d" 2 = a2) (h3 : env.get "a.d" 3 = a3)
    (A0 : a0 < 2 ^ 64) (A1 : a1 < 2 ^ 64) (A2 : a2 < 2 ^ 64) (A3 : a3 < 2 ^ 64)
    (hA : val4 a0 a1 a2 a3 < N) :
    NegPost a0 a1 a2 a3 (runR env Gen.scalar4x64.scalar_negate.body) := by
  simp only [Gen.scalar4x64.scalar_negate]
  vstep z [h0, h1, h2, h3]
  vstep nz [h0, h1, h2, h3]
  steps 4 [h0, h1, h2, h3]
  vstep r0 [h0, h1, h2, h3]
  vstep t1 [h0, h1, h2, h3]
  steps 4 [h0, h1, h2, h3]
  vstep r1 [h0, h1, h2, h3]
  vstep t2 [h0, h1, h2, h3]
  steps 4 [h0, h1, h2, h3]
  vstep r2 [h0, h1, h2, h3]
  vstep t3 [h0, h1, h2, h3]
  steps 4 [h0, h1, h2, h3]
  vstep r3 [h0, h1, h2, h3]
  reads [NegPost]
  exact negate_arith a0 a1 a2 a3 nz r0 t1 r1 t2 r2 t3 r3 A0 A1 A2 A3 hA (nonzero_mask a0 a1 a2 a3 z nz z_def nz_def)
    r0_def t1_def r1_def t2_def r2_def t3_def r3_def

/-- **`secp256k1_scalar_negate` is exact.**  For every memory in which `a` is a reduced scalar, the translated C
    function leaves in `r` the limbs of `(N - a) mod N` (so `0` for `a = 0`, via the `nonzero` mask). -/
theorem scalar_negate_correct (env : Env) (ha : Limbs64 env "a.d") (hA : sval env "a.d" < N) :
    sval (execL env Gen.scalar4x64.scalar_negate.body).env "r.d" = (N - sval env "a.d") % N ∧
    Limbs64 (execL env Gen.scalar4x64.scalar_negate.body).env "r.d" := by
  obtain ⟨A0, A1, A2, A3⟩ := ha
  exact scalar_negate_run env _ _ _ _ rfl rfl rfl rfl A0 A1 A2 A3 hA

/-- post-condition of `scalar_negate` on memories, as a decidable predicate (for closed evaluation) -/
def NegPostEnv (env out : Env) : Prop :=
  sval out "r.d" = (N - sval env "a.d") % N ∧ Limbs64 out "r.d"

instance (env out : Env) : Decidable (NegPostEnv env out) := by unfold NegPostEnv; infer_instance

/-- Non-vacuity: `a = N - 1` satisfies the hypotheses, and the conclusion, evaluated by running the wrap-around
    interpreter in the kernel, holds (with `r = 1`); so does `a = 0` (`r = 0`, the masked case). -/
example : Limbs64 nm1Env "a.d" ∧ sval nm1Env "a.d" < N ∧
    (NegPostEnv nm1Env (execL nm1Env Gen.scalar4x64.scalar_negate.body).env ∧
     sval (execL nm1Env Gen.scalar4x64.scalar_negate.body).env "r.d" = 1) :=
  ⟨by decide +kernel, by decide +kernel,
   of_decide_eq_true (FieldKernel.checkRun_sound
     (post := fun out => decide (NegPostEnv nm1Env out ∧ sval out "r.d" = 1)) (by decide +kernel))⟩

example : Limbs64 [] "a.d" ∧ sval [] "a.d" < N ∧
    sval (execL [] Gen.scalar4x64.scalar_negate.body).env "r.d" = 0 :=
  ⟨by decide +kernel, by decide +kernel,
   of_decide_eq_true (FieldKernel.checkRun_sound (post := fun out => decide (sval out "r.d" = 0)) (by decide +kernel))⟩

/-! ### 3. `secp256k1_scalar_mul_512` -/

/-- post-condition of `secp256k1_scalar_mul_512(l8, a, b)` -/
def Mul512Post (a0 a1 a2 a3 b0 b1 b2 b3 : Nat) (out : Env × Option Nat) : Prop :=
  val8 (out.1.get "l8" 0) (out.1.get "l8" 1) (out.1.get "l8" 2) (out.1.get "l8" 3)
       (out.1.get "l8" 4) (out.1.get "l8" 5) (out.1.get "l8" 6) (out.1.get "l8" 7) =
    val4 a0 a1 a2 a3 * val4 b0 b1 b2 b3 ∧
  out.1.get "l8" 0 < 2 ^ 64 ∧ out.1.get "l8" 1 < 2 ^ 64 ∧ out.1.get "l8" 2 < 2 ^ 64 ∧ out.1.get "l8" 3 < 2 ^ 64 ∧
  out.1.get "l8" 4 < 2 ^ 64 ∧ out.1.get "l8" 5 < 2 ^ 64 ∧ out.1.get "l8" 6 < 2 ^ 64 ∧ out.1.get "l8" 7 < 2 ^ 64

set_option maxRecDepth 100000 in
set_option maxHeartbeats 4000000 in
theorem scalar_mul_512_run (env : Env) (a0 a1 a2 a3 b0 b1 b2 b3 : Nat)
    (h0 : env.get "a.d" 0 = a0) (h1 : env.get "a.d" 1 = a1) (h2 : env.get "a.d" 2 = a2) (h3 : env.get "a.d" 3 = a3)
    (g0 : env.get "b.d" 0 = b0) (g1 : env.get "b.d" 1 = b1) (g2 : env.get "b.d" 2 = b2) (g3 : env.get "b.d" 3 = b3)
    (A0 : a0 < 2 ^ 64) (A1 : a1 < 2 ^ 64) (A2 : a2 < 2 ^ 64) (A3 : a3 < 2 ^ 64)
    (B0 : b0 < 2 ^ 64) (B1 : b1 < 2 ^ 64) (B2 : b2 < 2 ^ 64) (B3 : b3 < 2 ^ 64) :
    Mul512Post a0 a1 a2 a3 b0 b1 b2 b3 (runR env Gen.scalar4x64.scalar_mul_512.body) := by
  have A0' := le_of_lt64 A0; have A1' := le_of_lt64 A1; have A2' := le_of_lt64 A2; have A3' := le_of_lt64 A3
  have B0' := le_of_lt64 B0; have B1' := le_of_lt64 B1; have B2' := le_of_lt64 B2; have B3' := le_of_lt64 B3
  simp only [Gen.scalar4x64.scalar_mul_512]
  have hB0 : 0 + 0 * 2 ^ 64 + 0 * 2 ^ 128 ≤ 0 := by decide
  steps 13 [h0, h1, h2, h3, g0, g1, g2, g3, sext_lt, nc0_eq, nc1_eq]
  acc2 s1_ := muladd_fast_spec 0 0 a0 b0 (2 ^ 64 - 1) (2 ^ 64 - 1) _ (by decide) (by decide) A0' B0' (by decide) (by decide) hB0 (by decide)
  steps 3 [h0, h1, h2, h3, g0, g1, g2, g3, sext_lt, nc0_eq, nc1_eq]
  accx hXs1 := s1_B
  steps 11 [h0, h1, h2, h3, g0, g1, g2, g3, sext_lt, nc0_eq, nc1_eq]
  acc3 s2_ := muladd_spec 32 s1_1 0 0 a0 b1 (2 ^ 64 - 1) (2 ^ 64 - 1) _ s1_lt1 (by decide) A0' B1' (by decide) (by decide) hXs1 (by decide)
  steps 11 [h0, h1, h2, h3, g0, g1, g2, g3, sext_lt, nc0_eq, nc1_eq]
  acc3 s3_ := muladd_spec 32 s2_0 s2_1 s2_2 a1 b0 (2 ^ 64 - 1) (2 ^ 64 - 1) _ s2_lt0 s2_lt1 A1' B0' (by decide) (by decide) s2_B (by decide)
  steps 4 [h0, h1, h2, h3, g0, g1, g2, g3, sext_lt, nc0_eq, nc1_eq]
  accx hXs2 := s3_B
  steps 11 [h0, h1, h2, h3, g0, g1, g2, g3, sext_lt, nc0_eq, nc1_eq]
  acc3 s4_ := muladd_spec 32 s3_1 s3_2 0 a0 b2 (2 ^ 64 - 1) (2 ^ 64 - 1) _ s3_lt1 (lt64_of_lt32 s3_lt2) A0' B2' (by decide) (by decide) hXs2 (by decide)
  steps 11 [h0, h1, h2, h3, g0, g1, g2, g3, sext_lt, nc0_eq, nc1_eq]
  acc3 s5_ := muladd_spec 32 s4_0 s4_1 s4_2 a1 b1 (2 ^ 64 - 1) (2 ^ 64 - 1) _ s4_lt0 s4_lt1 A1' B1' (by decide) (by decide) s4_B (by decide)
  steps 11 [h0, h1, h2, h3, g0, g1, g2, g3, sext_lt, nc0_eq, nc1_eq]
  acc3 s6_ := muladd_spec 32 s5_0 s5_1 s5_2 a2 b0 (2 ^ 64 - 1) (2 ^ 64 - 1) _ s5_lt0 s5_lt1 A2' B0' (by decide) (by decide) s5_B (by decide)
  steps 4 [h0, h1, h2, h3, g0, g1, g2, g3, sext_lt, nc0_eq, nc1_eq]
  accx hXs3 := s6_B
  steps 11 [h0, h1, h2, h3, g0, g1, g2, g3, sext_lt, nc0_eq, nc1_eq]
  acc3 s7_ := muladd_spec 32 s6_1 s6_2 0 a0 b3 (2 ^ 64 - 1) (2 ^ 64 - 1) _ s6_lt1 (lt64_of_lt32 s6_lt2) A0' B3' (by decide) (by decide) hXs3 (by decide)
  steps 11 [h0, h1, h2, h3, g0, g1, g2, g3, sext_lt, nc0_eq, nc1_eq]
  acc3 s8_ := muladd_spec 32 s7_0 s7_1 s7_2 a1 b2 (2 ^ 64 - 1) (2 ^ 64 - 1) _ s7_lt0 s7_lt1 A1' B2' (by decide) (by decide) s7_B (by decide)
  steps 11 [h0, h1, h2, h3, g0, g1, g2, g3, sext_lt, nc0_eq, nc1_eq]
  acc3 s9_ := muladd_spec 32 s8_0 s8_1 s8_2 a2 b1 (2 ^ 64 - 1) (2 ^ 64 - 1) _ s8_lt0 s8_lt1 A2' B1' (by decide) (by decide) s8_B (by decide)
  steps 11 [h0, h1, h2, h3, g0, g1, g2, g3, sext_lt, nc0_eq, nc1_eq]
  acc3 s10_ := muladd_spec 32 s9_0 s9_1 s9_2 a3 b0 (2 ^ 64 - 1) (2 ^ 64 - 1) _ s9_lt0 s9_lt1 A3' B0' (by decide) (by decide) s9_B (by decide)
  steps 4 [h0, h1, h2, h3, g0, g1, g2, g3, sext_lt, nc0_eq, nc1_eq]
  accx hXs4 := s10_B
  steps 11 [h0, h1, h2, h3, g0, g1, g2, g3, sext_lt, nc0_eq, nc1_eq]
  acc3 s11_ := muladd_spec 32 s10_1 s10_2 0 a1 b3 (2 ^ 64 - 1) (2 ^ 64 - 1) _ s10_lt1 (lt64_of_lt32 s10_lt2) A1' B3' (by decide) (by decide) hXs4 (by decide)
  steps 11 [h0, h1, h2, h3, g0, g1, g2, g3, sext_lt, nc0_eq, nc1_eq]
  acc3 s12_ := muladd_spec 32 s11_0 s11_1 s11_2 a2 b2 (2 ^ 64 - 1) (2 ^ 64 - 1) _ s11_lt0 s11_lt1 A2' B2' (by decide) (by decide) s11_B (by decide)
  steps 11 [h0, h1, h2, h3, g0, g1, g2, g3, sext_lt, nc0_eq, nc1_eq]
  acc3 s13_ := muladd_spec 32 s12_0 s12_1 s12_2 a3 b1 (2 ^ 64 - 1) (2 ^ 64 - 1) _ s12_lt0 s12_lt1 A3' B1' (by decide) (by decide) s12_B (by decide)
  steps 4 [h0, h1, h2, h3, g0, g1, g2, g3, sext_lt, nc0_eq, nc1_eq]
  accx hXs5 := s13_B
  steps 11 [h0, h1, h2, h3, g0, g1, g2, g3, sext_lt, nc0_eq, nc1_eq]
  acc3 s14_ := muladd_spec 32 s13_1 s13_2 0 a2 b3 (2 ^ 64 - 1) (2 ^ 64 - 1) _ s13_lt1 (lt64_of_lt32 s13_lt2) A2' B3' (by decide) (by decide) hXs5 (by decide)
  steps 11 [h0, h1, h2, h3, g0, g1, g2, g3, sext_lt, nc0_eq, nc1_eq]
  acc3 s15_ := muladd_spec 32 s14_0 s14_1 s14_2 a3 b2 (2 ^ 64 - 1) (2 ^ 64 - 1) _ s14_lt0 s14_lt1 A3' B2' (by decide) (by decide) s14_B (by decide)
  steps 4 [h0, h1, h2, h3, g0, g1, g2, g3, sext_lt, nc0_eq, nc1_eq]
  accx hXs6 := s15_B
  steps 10 [h0, h1, h2, h3, g0, g1, g2, g3, sext_lt, nc0_eq, nc1_eq]
  acc2 s16_ := muladd_fast_spec s15_1 s15_2 a3 b3 (2 ^ 64 - 1) (2 ^ 64 - 1) _ s15_lt1 (lt64_of_lt32 s15_lt2) A3' B3' (by decide) (by decide) hXs6 (by decide)
  steps 3 [h0, h1, h2, h3, g0, g1, g2, g3, sext_lt, nc0_eq, nc1_eq]
  accx hXs7 := s16_B
  steps 1 [h0, h1, h2, h3, g0, g1, g2, g3, sext_lt, nc0_eq, nc1_eq]
  reads [Mul512Post]
  refine ⟨?_, s1_lt0, s3_lt0, s6_lt0, s10_lt0, s13_lt0, s15_lt0, s16_lt0, s16_lt1⟩
  clear * - s1_A s2_A s3_A s4_A s5_A s6_A s7_A s8_A s9_A s10_A s11_A s12_A s13_A s14_A s15_A s16_A
  rw [val4_mul]; unfold val8
  omega

/-- **`secp256k1_scalar_mul_512` is exact.**  For ALL 64-bit limb values of `a` and `b` (no reduction assumed),
    the eight output limbs `l8[0..7]` are 64-bit values representing the full 512-bit product `a · b`. -/
theorem scalar_mul_512_correct (env : Env) (ha : Limbs64 env "a.d") (hb : Limbs64 env "b.d") :
    lval8 (execL env Gen.scalar4x64.scalar_mul_512.body).env "l8" = sval env "a.d" * sval env "b.d" ∧
    Limbs64x8 (execL env Gen.scalar4x64.scalar_mul_512.body).env "l8" := by
  obtain ⟨A0, A1, A2, A3⟩ := ha
  obtain ⟨B0, B1, B2, B3⟩ := hb
  exact scalar_mul_512_run env _ _ _ _ _ _ _ _ rfl rfl rfl rfl rfl rfl rfl rfl A0 A1 A2 A3 B0 B1 B2 B3

/-- Non-vacuity: the all-ones operands `a = b = 2^256 - 1` satisfy the hypotheses; the theorem then gives the
    512-bit value `(2^256 - 1)^2` for `l8`. -/
example : Limbs64 onesEnv "a.d" ∧ Limbs64 onesEnv "b.d" ∧
    lval8 (execL onesEnv Gen.scalar4x64.scalar_mul_512.body).env "l8" = (2 ^ 256 - 1) * (2 ^ 256 - 1) := by
  have ha : Limbs64 onesEnv "a.d" := by decide +kernel
  have hb : Limbs64 onesEnv "b.d" := by decide +kernel
  obtain ⟨h, _⟩ := scalar_mul_512_correct onesEnv ha hb
  have e : sval onesEnv "a.d" * sval onesEnv "b.d" = (2 ^ 256 - 1) * (2 ^ 256 - 1) := by decide +kernel
  exact ⟨ha, hb, e ▸ h⟩

/-! ### 4. `secp256k1_scalar_reduce_512` -/

/-- post-condition of `secp256k1_scalar_reduce_512(r, l)` -/
def RedPost (l0 l1 l2 l3 l4 l5 l6 l7 : Nat) (out : Env × Option Nat) : Prop :=
  val4 (out.1.get "r.d" 0) (out.1.get "r.d" 1) (out.1.get "r.d" 2) (out.1.get "r.d" 3) =
    val8 l0 l1 l2 l3 l4 l5 l6 l7 % N ∧
  out.1.get "r.d" 0 < 2 ^ 64 ∧ out.1.get "r.d" 1 < 2 ^ 64 ∧ out.1.get "r.d" 2 < 2 ^ 64 ∧ out.1.get "r.d" 3 < 2 ^ 64

set_option maxRecDepth 100000 in
set_option maxHeartbeats 4000000 in
theorem scalar_reduce_512_run (env : Env) (l0 l1 l2 l3 l4 l5 l6 l7 : Nat)
    (hl0 : env.get "l" 0 = l0) (hl1 : env.get "l" 1 = l1) (hl2 : env.get "l" 2 = l2) (hl3 : env.get "l" 3 = l3)
    (hl4 : env.get "l" 4 = l4) (hl5 : env.get "l" 5 = l5) (hl6 : env.get "l" 6 = l6) (hl7 : env.get "l" 7 = l7)
    (L0 : l0 < 2 ^ 64) (L1 : l1 < 2 ^ 64) (L2 : l2 < 2 ^ 64) (L3 : l3 < 2 ^ 64)
    (L4 : l4 < 2 ^ 64) (L5 : l5 < 2 ^ 64) (L6 : l6 < 2 ^ 64) (L7 : l7 < 2 ^ 64) :
    RedPost l0 l1 l2 l3 l4 l5 l6 l7 (runR env Gen.scalar4x64.scalar_reduce_512.body) := by
  simp only [Gen.scalar4x64.scalar_reduce_512]
  steps 7 [hl0, hl1, hl2, hl3, hl4, hl5, hl6, hl7, sext_lt, nc0_eq, nc1_eq]
  have hB0s := init_bound L0
  steps 10 [hl0, hl1, hl2, hl3, hl4, hl5, hl6, hl7, sext_lt, nc0_eq, nc1_eq]
  acc2 s1_ := muladd_fast_spec l0 0 l4 4624529908474429119 (2 ^ 64 - 1) 4624529908474429119 _ L0 (by decide) (le_of_lt64 L4) (Nat.le_refl _) (by decide) (by decide) hB0s (by decide)
  steps 3 [hl0, hl1, hl2, hl3, hl4, hl5, hl6, hl7, sext_lt, nc0_eq, nc1_eq]
  accx hXs1 := s1_B
  steps 2 [hl0, hl1, hl2, hl3, hl4, hl5, hl6, hl7, sext_lt, nc0_eq, nc1_eq]
  acc2 s2_ := sumadd_fast_spec s1_1 0 l1 _ s1_lt1 (by decide) L1 hXs1 (by decide)
  steps 11 [hl0, hl1, hl2, hl3, hl4, hl5, hl6, hl7, sext_lt, nc0_eq, nc1_eq]
  acc3 s3_ := muladd_spec 64 s2_0 s2_1 0 l5 4624529908474429119 (2 ^ 64 - 1) 4624529908474429119 _ s2_lt0 s2_lt1 (le_of_lt64 L5) (Nat.le_refl _) (by decide) (by decide) s2_B (by decide)
  steps 11 [hl0, hl1, hl2, hl3, hl4, hl5, hl6, hl7, sext_lt, nc0_eq, nc1_eq]
  acc3 s4_ := muladd_spec 64 s3_0 s3_1 s3_2 l4 4994812053365940164 (2 ^ 64 - 1) 4994812053365940164 _ s3_lt0 s3_lt1 (le_of_lt64 L4) (Nat.le_refl _) (by decide) (by decide) s3_B (by decide)
  steps 4 [hl0, hl1, hl2, hl3, hl4, hl5, hl6, hl7, sext_lt, nc0_eq, nc1_eq]
  accx hXs2 := s4_B
  steps 4 [hl0, hl1, hl2, hl3, hl4, hl5, hl6, hl7, sext_lt, nc0_eq, nc1_eq]
  acc3 s5_ := sumadd_spec s4_1 s4_2 0 l2 _ s4_lt1 s4_lt2 L2 hXs2 (by decide)
  steps 11 [hl0, hl1, hl2, hl3, hl4, hl5, hl6, hl7, sext_lt, nc0_eq, nc1_eq]
  acc3 s6_ := muladd_spec 64 s5_0 s5_1 s5_2 l6 4624529908474429119 (2 ^ 64 - 1) 4624529908474429119 _ s5_lt0 s5_lt1 (le_of_lt64 L6) (Nat.le_refl _) (by decide) (by decide) s5_B (by decide)
  steps 11 [hl0, hl1, hl2, hl3, hl4, hl5, hl6, hl7, sext_lt, nc0_eq, nc1_eq]
  acc3 s7_ := muladd_spec 64 s6_0 s6_1 s6_2 l5 4994812053365940164 (2 ^ 64 - 1) 4994812053365940164 _ s6_lt0 s6_lt1 (le_of_lt64 L5) (Nat.le_refl _) (by decide) (by decide) s6_B (by decide)
  steps 4 [hl0, hl1, hl2, hl3, hl4, hl5, hl6, hl7, sext_lt, nc0_eq, nc1_eq]
  acc3 s8_ := sumadd_spec s7_0 s7_1 s7_2 l4 _ s7_lt0 s7_lt1 L4 s7_B (by decide)
  steps 4 [hl0, hl1, hl2, hl3, hl4, hl5, hl6, hl7, sext_lt, nc0_eq, nc1_eq]
  accx hXs3 := s8_B
  steps 4 [hl0, hl1, hl2, hl3, hl4, hl5, hl6, hl7, sext_lt, nc0_eq, nc1_eq]
  acc3 s9_ := sumadd_spec s8_1 s8_2 0 l3 _ s8_lt1 s8_lt2 L3 hXs3 (by decide)
  steps 11 [hl0, hl1, hl2, hl3, hl4, hl5, hl6, hl7, sext_lt, nc0_eq, nc1_eq]
  acc3 s10_ := muladd_spec 64 s9_0 s9_1 s9_2 l7 4624529908474429119 (2 ^ 64 - 1) 4624529908474429119 _ s9_lt0 s9_lt1 (le_of_lt64 L7) (Nat.le_refl _) (by decide) (by decide) s9_B (by decide)
  steps 11 [hl0, hl1, hl2, hl3, hl4, hl5, hl6, hl7, sext_lt, nc0_eq, nc1_eq]
  acc3 s11_ := muladd_spec 64 s10_0 s10_1 s10_2 l6 4994812053365940164 (2 ^ 64 - 1) 4994812053365940164 _ s10_lt0 s10_lt1 (le_of_lt64 L6) (Nat.le_refl _) (by decide) (by decide) s10_B (by decide)
  steps 4 [hl0, hl1, hl2, hl3, hl4, hl5, hl6, hl7, sext_lt, nc0_eq, nc1_eq]
  acc3 s12_ := sumadd_spec s11_0 s11_1 s11_2 l5 _ s11_lt0 s11_lt1 L5 s11_B (by decide)
  steps 4 [hl0, hl1, hl2, hl3, hl4, hl5, hl6, hl7, sext_lt, nc0_eq, nc1_eq]
  accx hXs4 := s12_B
  steps 11 [hl0, hl1, hl2, hl3, hl4, hl5, hl6, hl7, sext_lt, nc0_eq, nc1_eq]
  acc3 s13_ := muladd_spec 64 s12_1 s12_2 0 l7 4994812053365940164 (2 ^ 64 - 1) 4994812053365940164 _ s12_lt1 s12_lt2 (le_of_lt64 L7) (Nat.le_refl _) (by decide) (by decide) hXs4 (by decide)
  steps 4 [hl0, hl1, hl2, hl3, hl4, hl5, hl6, hl7, sext_lt, nc0_eq, nc1_eq]
  acc3 s14_ := sumadd_spec s13_0 s13_1 s13_2 l6 _ s13_lt0 s13_lt1 L6 s13_B (by decide)
  steps 4 [hl0, hl1, hl2, hl3, hl4, hl5, hl6, hl7, sext_lt, nc0_eq, nc1_eq]
  accx hXs5 := s14_B
  steps 2 [hl0, hl1, hl2, hl3, hl4, hl5, hl6, hl7, sext_lt, nc0_eq, nc1_eq]
  acc2 s15_ := sumadd_fast_spec s14_1 s14_2 l7 _ s14_lt1 s14_lt2 L7 hXs5 (by decide)
  steps 3 [hl0, hl1, hl2, hl3, hl4, hl5, hl6, hl7, sext_lt, nc0_eq, nc1_eq]
  accx hXs6 := s15_B
  steps 1 [hl0, hl1, hl2, hl3, hl4, hl5, hl6, hl7, sext_lt, nc0_eq, nc1_eq]
  have m6_le := top_le hXs6
  rw [Nat.mod_eq_of_lt (show s15_1 < 2 ^ 32 by omega)]
  steps 3 [hl0, hl1, hl2, hl3, hl4, hl5, hl6, hl7, sext_lt, nc0_eq, nc1_eq]
  have hB1s := init_bound s1_lt0
  steps 10 [hl0, hl1, hl2, hl3, hl4, hl5, hl6, hl7, sext_lt, nc0_eq, nc1_eq]
  acc2 s16_ := muladd_fast_spec s1_0 0 s14_0 4624529908474429119 (2 ^ 64 - 1) 4624529908474429119 _ s1_lt0 (by decide) (le_of_lt64 s14_lt0) (Nat.le_refl _) (by decide) (by decide) hB1s (by decide)
  steps 3 [hl0, hl1, hl2, hl3, hl4, hl5, hl6, hl7, sext_lt, nc0_eq, nc1_eq]
  accx hXs7 := s16_B
  steps 2 [hl0, hl1, hl2, hl3, hl4, hl5, hl6, hl7, sext_lt, nc0_eq, nc1_eq]
  acc2 s17_ := sumadd_fast_spec s16_1 0 s4_0 _ s16_lt1 (by decide) s4_lt0 hXs7 (by decide)
  steps 11 [hl0, hl1, hl2, hl3, hl4, hl5, hl6, hl7, sext_lt, nc0_eq, nc1_eq]
  acc3 s18_ := muladd_spec 64 s17_0 s17_1 0 s15_0 4624529908474429119 (2 ^ 64 - 1) 4624529908474429119 _ s17_lt0 s17_lt1 (le_of_lt64 s15_lt0) (Nat.le_refl _) (by decide) (by decide) s17_B (by decide)
  steps 11 [hl0, hl1, hl2, hl3, hl4, hl5, hl6, hl7, sext_lt, nc0_eq, nc1_eq]
  acc3 s19_ := muladd_spec 64 s18_0 s18_1 s18_2 s14_0 4994812053365940164 (2 ^ 64 - 1) 4994812053365940164 _ s18_lt0 s18_lt1 (le_of_lt64 s14_lt0) (Nat.le_refl _) (by decide) (by decide) s18_B (by decide)
  steps 4 [hl0, hl1, hl2, hl3, hl4, hl5, hl6, hl7, sext_lt, nc0_eq, nc1_eq]
  accx hXs8 := s19_B
  steps 4 [hl0, hl1, hl2, hl3, hl4, hl5, hl6, hl7, sext_lt, nc0_eq, nc1_eq]
  acc3 s20_ := sumadd_spec s19_1 s19_2 0 s8_0 _ s19_lt1 s19_lt2 s8_lt0 hXs8 (by decide)
  steps 11 [hl0, hl1, hl2, hl3, hl4, hl5, hl6, hl7, sext_lt, nc0_eq, nc1_eq]
  acc3 s21_ := muladd_spec 64 s20_0 s20_1 s20_2 s15_1 4624529908474429119 _ 4624529908474429119 _ s20_lt0 s20_lt1 m6_le (Nat.le_refl _) (by decide) (by decide) s20_B (by decide)
  steps 11 [hl0, hl1, hl2, hl3, hl4, hl5, hl6, hl7, sext_lt, nc0_eq, nc1_eq]
  acc3 s22_ := muladd_spec 64 s21_0 s21_1 s21_2 s15_0 4994812053365940164 (2 ^ 64 - 1) 4994812053365940164 _ s21_lt0 s21_lt1 (le_of_lt64 s15_lt0) (Nat.le_refl _) (by decide) (by decide) s21_B (by decide)
  steps 4 [hl0, hl1, hl2, hl3, hl4, hl5, hl6, hl7, sext_lt, nc0_eq, nc1_eq]
  acc3 s23_ := sumadd_spec s22_0 s22_1 s22_2 s14_0 _ s22_lt0 s22_lt1 s14_lt0 s22_B (by decide)
  steps 4 [hl0, hl1, hl2, hl3, hl4, hl5, hl6, hl7, sext_lt, nc0_eq, nc1_eq]
  accx hXs9 := s23_B
  steps 2 [hl0, hl1, hl2, hl3, hl4, hl5, hl6, hl7, sext_lt, nc0_eq, nc1_eq]
  acc2 s24_ := sumadd_fast_spec s23_1 s23_2 s12_0 _ s23_lt1 s23_lt2 s12_lt0 hXs9 (by decide)
  steps 10 [hl0, hl1, hl2, hl3, hl4, hl5, hl6, hl7, sext_lt, nc0_eq, nc1_eq]
  acc2 s25_ := muladd_fast_spec s24_0 s24_1 s15_1 4994812053365940164 _ 4994812053365940164 _ s24_lt0 s24_lt1 m6_le (Nat.le_refl _) (by decide) (by decide) s24_B (by decide)
  steps 2 [hl0, hl1, hl2, hl3, hl4, hl5, hl6, hl7, sext_lt, nc0_eq, nc1_eq]
  acc2 s26_ := sumadd_fast_spec s25_0 s25_1 s15_0 _ s25_lt0 s25_lt1 s15_lt0 s25_B (by decide)
  steps 3 [hl0, hl1, hl2, hl3, hl4, hl5, hl6, hl7, sext_lt, nc0_eq, nc1_eq]
  accx hXs10 := s26_B
  vstep p4 [hl0, hl1, hl2, hl3, hl4, hl5, hl6, hl7, sext_lt, nc0_eq, nc1_eq]
  steps 6 [hl0, hl1, hl2, hl3, hl4, hl5, hl6, hl7, sext_lt, nc0_eq, nc1_eq]
  vstep r0 [hl0, hl1, hl2, hl3, hl4, hl5, hl6, hl7, sext_lt, nc0_eq, nc1_eq]
  vstep t1 [hl0, hl1, hl2, hl3, hl4, hl5, hl6, hl7, sext_lt, nc0_eq, nc1_eq]
  steps 6 [hl0, hl1, hl2, hl3, hl4, hl5, hl6, hl7, sext_lt, nc0_eq, nc1_eq]
  vstep r1 [hl0, hl1, hl2, hl3, hl4, hl5, hl6, hl7, sext_lt, nc0_eq, nc1_eq]
  vstep t2 [hl0, hl1, hl2, hl3, hl4, hl5, hl6, hl7, sext_lt, nc0_eq, nc1_eq]
  steps 5 [hl0, hl1, hl2, hl3, hl4, hl5, hl6, hl7, sext_lt, nc0_eq, nc1_eq]
  vstep r2 [hl0, hl1, hl2, hl3, hl4, hl5, hl6, hl7, sext_lt, nc0_eq, nc1_eq]
  vstep t3 [hl0, hl1, hl2, hl3, hl4, hl5, hl6, hl7, sext_lt, nc0_eq, nc1_eq]
  steps 3 [hl0, hl1, hl2, hl3, hl4, hl5, hl6, hl7, sext_lt, nc0_eq, nc1_eq]
  vstep r3 [hl0, hl1, hl2, hl3, hl4, hl5, hl6, hl7, sext_lt, nc0_eq, nc1_eq]
  vstep cc [hl0, hl1, hl2, hl3, hl4, hl5, hl6, hl7, sext_lt, nc0_eq, nc1_eq]
  steps 1 [hl0, hl1, hl2, hl3, hl4, hl5, hl6, hl7, sext_lt, nc0_eq, nc1_eq]
  steps 8 [hl0, hl1, hl2, hl3, hl4, hl5, hl6, hl7, sext_lt, nc0_eq, nc1_eq]
  vstep yes [hl0, hl1, hl2, hl3, hl4, hl5, hl6, hl7, sext_lt, nc0_eq, nc1_eq]
  vstep ov [hl0, hl1, hl2, hl3, hl4, hl5, hl6, hl7, sext_lt, nc0_eq, nc1_eq]
  steps 5 [hl0, hl1, hl2, hl3, hl4, hl5, hl6, hl7, sext_lt, nc0_eq, nc1_eq]
  vstep q0 [hl0, hl1, hl2, hl3, hl4, hl5, hl6, hl7, sext_lt, nc0_eq, nc1_eq]
  vstep u1 [hl0, hl1, hl2, hl3, hl4, hl5, hl6, hl7, sext_lt, nc0_eq, nc1_eq]
  steps 5 [hl0, hl1, hl2, hl3, hl4, hl5, hl6, hl7, sext_lt, nc0_eq, nc1_eq]
  vstep q1 [hl0, hl1, hl2, hl3, hl4, hl5, hl6, hl7, sext_lt, nc0_eq, nc1_eq]
  vstep u2 [hl0, hl1, hl2, hl3, hl4, hl5, hl6, hl7, sext_lt, nc0_eq, nc1_eq]
  steps 5 [hl0, hl1, hl2, hl3, hl4, hl5, hl6, hl7, sext_lt, nc0_eq, nc1_eq]
  vstep q2 [hl0, hl1, hl2, hl3, hl4, hl5, hl6, hl7, sext_lt, nc0_eq, nc1_eq]
  vstep u3 [hl0, hl1, hl2, hl3, hl4, hl5, hl6, hl7, sext_lt, nc0_eq, nc1_eq]
  steps 3 [hl0, hl1, hl2, hl3, hl4, hl5, hl6, hl7, sext_lt, nc0_eq, nc1_eq]
  vstep q3 [hl0, hl1, hl2, hl3, hl4, hl5, hl6, hl7, sext_lt, nc0_eq, nc1_eq]
  steps 1 [hl0, hl1, hl2, hl3, hl4, hl5, hl6, hl7, sext_lt, nc0_eq, nc1_eq]
  reads [RedPost]
  have hS1 : s1_0 + s4_0 * 2 ^ 64 + s8_0 * 2 ^ 128 + s12_0 * 2 ^ 192 + s14_0 * 2 ^ 256 + s15_0 * 2 ^ 320 + s15_1 * 2 ^ 384 =
      (l0 + l1 * 2 ^ 64 + l2 * 2 ^ 128 + l3 * 2 ^ 192) + (l4 + l5 * 2 ^ 64 + l6 * 2 ^ 128 + l7 * 2 ^ 192) * (4624529908474429119 + 4994812053365940164 * 2 ^ 64 + 2 ^ 128) := by
    clear * - s1_A s2_A s3_A s4_A s5_A s6_A s7_A s8_A s9_A s10_A s11_A s12_A s13_A s14_A s15_A
    omega
  have hS2 : s16_0 + s19_0 * 2 ^ 64 + s23_0 * 2 ^ 128 + s26_0 * 2 ^ 192 + (s26_1 + s15_1) * 2 ^ 256 =
      (s1_0 + s4_0 * 2 ^ 64 + s8_0 * 2 ^ 128 + s12_0 * 2 ^ 192) + (s14_0 + s15_0 * 2 ^ 64 + s15_1 * 2 ^ 128) * (4624529908474429119 + 4994812053365940164 * 2 ^ 64 + 2 ^ 128) := by
    clear * - s16_A s17_A s18_A s19_A s20_A s21_A s22_A s23_A s24_A s25_A s26_A
    omega
  simp only [binWrap_add, binWrap_mul, binWrap_shr] at p4_def r0_def t1_def r1_def t2_def r2_def t3_def r3_def cc_def q0_def u1_def q1_def u2_def q2_def u3_def q3_def
  have hp4 : p4 = s26_1 + s15_1 := by
    clear * - p4_def hXs10 m6_le
    omega
  have hp4' : p4 ≤ 3 := by
    clear * - hp4 hXs10 m6_le
    omega
  obtain ⟨hr0, hr1, hr2, hr3, hcc, hVe⟩ := red_stage3_arith s16_0 s19_0 s23_0 s26_0 p4 r0 t1 r1 t2 r2 t3 r3 cc
    s16_lt0 s19_lt0 s23_lt0 s26_lt0 hp4' r0_def t1_def r1_def t2_def r2_def t3_def r3_def cc_def
  rw [check_overflow_spec r0 r1 r2 r3 hr0 hr1 hr2 hr3] at yes_def
  have hlt : r0 + r1 * 2 ^ 64 + r2 * 2 ^ 128 + r3 * 2 ^ 192 + cc * 2 ^ 256 < 2 * N := by
    clear * - hVe hp4' s16_lt0 s19_lt0 s23_lt0 s26_lt0
    simp only [N]
    omega
  obtain ⟨_, _, hFe, hFlt, hq0, hq1, hq2, hq3⟩ := final_reduce_arith r0 r1 r2 r3 cc yes ov q0 u1 q1 u2 q2 u3 q3
    hr0 hr1 hr2 hr3 hcc hlt yes_def ov_def q0_def u1_def q1_def u2_def q2_def u3_def q3_def
  rw [← hp4] at hS2
  have hMod : val4 q0 q1 q2 q3 = val8 l0 l1 l2 l3 l4 l5 l6 l7 % N :=
    eq_mod_of_eq_add_mul (red_combine _ _ _ _ _ _ _ _ _ _ _ _ _ _ _ _ _ _ _ _ _ _ _ _ _ _ _ _ _ _ hS1 hS2 hVe hFe) hFlt
  exact ⟨hMod, hq0, hq1, hq2, hq3⟩

/-- **`secp256k1_scalar_reduce_512` is exact.**  For ALL 64-bit values of the eight input limbs, the four output
    limbs are 64-bit values representing `l mod N`; in particular the result is fully reduced (`< N`). -/
theorem scalar_reduce_512_correct (env : Env) (hl : Limbs64x8 env "l") :
    sval (execL env Gen.scalar4x64.scalar_reduce_512.body).env "r.d" = lval8 env "l" % N ∧
    sval (execL env Gen.scalar4x64.scalar_reduce_512.body).env "r.d" < N ∧
    Limbs64 (execL env Gen.scalar4x64.scalar_reduce_512.body).env "r.d" := by
  obtain ⟨L0, L1, L2, L3, L4, L5, L6, L7⟩ := hl
  obtain ⟨h, hq⟩ := scalar_reduce_512_run env _ _ _ _ _ _ _ _ rfl rfl rfl rfl rfl rfl rfl rfl L0 L1 L2 L3 L4 L5 L6 L7
  refine ⟨h, ?_, hq⟩
  have : sval (execL env Gen.scalar4x64.scalar_reduce_512.body).env "r.d" = lval8 env "l" % N := h
  rw [this]; exact Nat.mod_lt _ (by decide)

/-- the all-ones 512-bit input `l = 2^512 - 1` -/
def ones8Env : Env :=
  [(("l", 0), 18446744073709551615), (("l", 1), 18446744073709551615), (("l", 2), 18446744073709551615),
   (("l", 3), 18446744073709551615), (("l", 4), 18446744073709551615), (("l", 5), 18446744073709551615),
   (("l", 6), 18446744073709551615), (("l", 7), 18446744073709551615)]

/-- Non-vacuity: the all-ones input satisfies the hypothesis; the theorem then gives `(2^512 - 1) mod N`. -/
example : Limbs64x8 ones8Env "l" ∧
    sval (execL ones8Env Gen.scalar4x64.scalar_reduce_512.body).env "r.d" = (2 ^ 512 - 1) % N := by
  have hl : Limbs64x8 ones8Env "l" := by decide +kernel
  obtain ⟨h, _, _⟩ := scalar_reduce_512_correct ones8Env hl
  have e : lval8 ones8Env "l" % N = (2 ^ 512 - 1) % N := by decide +kernel
  exact ⟨hl, e ▸ h⟩

/-! ### 5. `secp256k1_scalar_mul` (= `scalar_mul_512` followed by `scalar_reduce_512`, inlined)

The translator inlines both callees with renamed locals, so the body is ONE straight-line program of 506
statements.  It is cut after the 204 statements of the multiplication (`List.take` / `List.drop`,
`runR_take_drop`) and the two halves are executed in separate declarations. -/

/-- post-condition of the first 204 statements of `secp256k1_scalar_mul` (the inlined `scalar_mul_512`):
    no return, and `l[0..7]` are 64-bit limbs of `a · b` -/
def MulPart1Post (a0 a1 a2 a3 b0 b1 b2 b3 : Nat) (out : Env × Option Nat) : Prop :=
  out.2 = none ∧
  val8 (out.1.get "l" 0) (out.1.get "l" 1) (out.1.get "l" 2) (out.1.get "l" 3)
       (out.1.get "l" 4) (out.1.get "l" 5) (out.1.get "l" 6) (out.1.get "l" 7) =
    val4 a0 a1 a2 a3 * val4 b0 b1 b2 b3 ∧
  out.1.get "l" 0 < 2 ^ 64 ∧ out.1.get "l" 1 < 2 ^ 64 ∧ out.1.get "l" 2 < 2 ^ 64 ∧ out.1.get "l" 3 < 2 ^ 64 ∧
  out.1.get "l" 4 < 2 ^ 64 ∧ out.1.get "l" 5 < 2 ^ 64 ∧ out.1.get "l" 6 < 2 ^ 64 ∧ out.1.get "l" 7 < 2 ^ 64

set_option maxRecDepth 100000 in
set_option maxHeartbeats 4000000 in
theorem scalar_mul_part1 (env : Env) (a0 a1 a2 a3 b0 b1 b2 b3 : Nat)
    (h0 : env.get "a.d" 0 = a0) (h1 : env.get "a.d" 1 = a1) (h2 : env.get "a.d" 2 = a2) (h3 : env.get "a.d" 3 = a3)
    (g0 : env.get "b.d" 0 = b0) (g1 : env.get "b.d" 1 = b1) (g2 : env.get "b.d" 2 = b2) (g3 : env.get "b.d" 3 = b3)
    (A0 : a0 < 2 ^ 64) (A1 : a1 < 2 ^ 64) (A2 : a2 < 2 ^ 64) (A3 : a3 < 2 ^ 64)
    (B0 : b0 < 2 ^ 64) (B1 : b1 < 2 ^ 64) (B2 : b2 < 2 ^ 64) (B3 : b3 < 2 ^ 64) :
    MulPart1Post a0 a1 a2 a3 b0 b1 b2 b3 (runR env (Gen.scalar4x64.scalar_mul.body.take 204)) := by
  have A0' := le_of_lt64 A0; have A1' := le_of_lt64 A1; have A2' := le_of_lt64 A2; have A3' := le_of_lt64 A3
  have B0' := le_of_lt64 B0; have B1' := le_of_lt64 B1; have B2' := le_of_lt64 B2; have B3' := le_of_lt64 B3
  simp only [Gen.scalar4x64.scalar_mul, List.take_succ_cons, List.take_zero]
  have hB0 : 0 + 0 * 2 ^ 64 + 0 * 2 ^ 128 ≤ 0 := by decide
  steps 13 [h0, h1, h2, h3, g0, g1, g2, g3, sext_lt, nc0_eq, nc1_eq]
  acc2 s1_ := muladd_fast_spec 0 0 a0 b0 (2 ^ 64 - 1) (2 ^ 64 - 1) _ (by decide) (by decide) A0' B0' (by decide) (by decide) hB0 (by decide)
  steps 3 [h0, h1, h2, h3, g0, g1, g2, g3, sext_lt, nc0_eq, nc1_eq]
  accx hXs1 := s1_B
  steps 11 [h0, h1, h2, h3, g0, g1, g2, g3, sext_lt, nc0_eq, nc1_eq]
  acc3 s2_ := muladd_spec 32 s1_1 0 0 a0 b1 (2 ^ 64 - 1) (2 ^ 64 - 1) _ s1_lt1 (by decide) A0' B1' (by decide) (by decide) hXs1 (by decide)
  steps 11 [h0, h1, h2, h3, g0, g1, g2, g3, sext_lt, nc0_eq, nc1_eq]
  acc3 s3_ := muladd_spec 32 s2_0 s2_1 s2_2 a1 b0 (2 ^ 64 - 1) (2 ^ 64 - 1) _ s2_lt0 s2_lt1 A1' B0' (by decide) (by decide) s2_B (by decide)
  steps 4 [h0, h1, h2, h3, g0, g1, g2, g3, sext_lt, nc0_eq, nc1_eq]
  accx hXs2 := s3_B
  steps 11 [h0, h1, h2, h3, g0, g1, g2, g3, sext_lt, nc0_eq, nc1_eq]
  acc3 s4_ := muladd_spec 32 s3_1 s3_2 0 a0 b2 (2 ^ 64 - 1) (2 ^ 64 - 1) _ s3_lt1 (lt64_of_lt32 s3_lt2) A0' B2' (by decide) (by decide) hXs2 (by decide)
  steps 11 [h0, h1, h2, h3, g0, g1, g2, g3, sext_lt, nc0_eq, nc1_eq]
  acc3 s5_ := muladd_spec 32 s4_0 s4_1 s4_2 a1 b1 (2 ^ 64 - 1) (2 ^ 64 - 1) _ s4_lt0 s4_lt1 A1' B1' (by decide) (by decide) s4_B (by decide)
  steps 11 [h0, h1, h2, h3, g0, g1, g2, g3, sext_lt, nc0_eq, nc1_eq]
  acc3 s6_ := muladd_spec 32 s5_0 s5_1 s5_2 a2 b0 (2 ^ 64 - 1) (2 ^ 64 - 1) _ s5_lt0 s5_lt1 A2' B0' (by decide) (by decide) s5_B (by decide)
  steps 4 [h0, h1, h2, h3, g0, g1, g2, g3, sext_lt, nc0_eq, nc1_eq]
  accx hXs3 := s6_B
  steps 11 [h0, h1, h2, h3, g0, g1, g2, g3, sext_lt, nc0_eq, nc1_eq]
  acc3 s7_ := muladd_spec 32 s6_1 s6_2 0 a0 b3 (2 ^ 64 - 1) (2 ^ 64 - 1) _ s6_lt1 (lt64_of_lt32 s6_lt2) A0' B3' (by decide) (by decide) hXs3 (by decide)
  steps 11 [h0, h1, h2, h3, g0, g1, g2, g3, sext_lt, nc0_eq, nc1_eq]
  acc3 s8_ := muladd_spec 32 s7_0 s7_1 s7_2 a1 b2 (2 ^ 64 - 1) (2 ^ 64 - 1) _ s7_lt0 s7_lt1 A1' B2' (by decide) (by decide) s7_B (by decide)
  steps 11 [h0, h1, h2, h3, g0, g1, g2, g3, sext_lt, nc0_eq, nc1_eq]
  acc3 s9_ := muladd_spec 32 s8_0 s8_1 s8_2 a2 b1 (2 ^ 64 - 1) (2 ^ 64 - 1) _ s8_lt0 s8_lt1 A2' B1' (by decide) (by decide) s8_B (by decide)
  steps 11 [h0, h1, h2, h3, g0, g1, g2, g3, sext_lt, nc0_eq, nc1_eq]
  acc3 s10_ := muladd_spec 32 s9_0 s9_1 s9_2 a3 b0 (2 ^ 64 - 1) (2 ^ 64 - 1) _ s9_lt0 s9_lt1 A3' B0' (by decide) (by decide) s9_B (by decide)
  steps 4 [h0, h1, h2, h3, g0, g1, g2, g3, sext_lt, nc0_eq, nc1_eq]
  accx hXs4 := s10_B
  steps 11 [h0, h1, h2, h3, g0, g1, g2, g3, sext_lt, nc0_eq, nc1_eq]
  acc3 s11_ := muladd_spec 32 s10_1 s10_2 0 a1 b3 (2 ^ 64 - 1) (2 ^ 64 - 1) _ s10_lt1 (lt64_of_lt32 s10_lt2) A1' B3' (by decide) (by decide) hXs4 (by decide)
  steps 11 [h0, h1, h2, h3, g0, g1, g2, g3, sext_lt, nc0_eq, nc1_eq]
  acc3 s12_ := muladd_spec 32 s11_0 s11_1 s11_2 a2 b2 (2 ^ 64 - 1) (2 ^ 64 - 1) _ s11_lt0 s11_lt1 A2' B2' (by decide) (by decide) s11_B (by decide)
  steps 11 [h0, h1, h2, h3, g0, g1, g2, g3, sext_lt, nc0_eq, nc1_eq]
  acc3 s13_ := muladd_spec 32 s12_0 s12_1 s12_2 a3 b1 (2 ^ 64 - 1) (2 ^ 64 - 1) _ s12_lt0 s12_lt1 A3' B1' (by decide) (by decide) s12_B (by decide)
  steps 4 [h0, h1, h2, h3, g0, g1, g2, g3, sext_lt, nc0_eq, nc1_eq]
  accx hXs5 := s13_B
  steps 11 [h0, h1, h2, h3, g0, g1, g2, g3, sext_lt, nc0_eq, nc1_eq]
  acc3 s14_ := muladd_spec 32 s13_1 s13_2 0 a2 b3 (2 ^ 64 - 1) (2 ^ 64 - 1) _ s13_lt1 (lt64_of_lt32 s13_lt2) A2' B3' (by decide) (by decide) hXs5 (by decide)
  steps 11 [h0, h1, h2, h3, g0, g1, g2, g3, sext_lt, nc0_eq, nc1_eq]
  acc3 s15_ := muladd_spec 32 s14_0 s14_1 s14_2 a3 b2 (2 ^ 64 - 1) (2 ^ 64 - 1) _ s14_lt0 s14_lt1 A3' B2' (by decide) (by decide) s14_B (by decide)
  steps 4 [h0, h1, h2, h3, g0, g1, g2, g3, sext_lt, nc0_eq, nc1_eq]
  accx hXs6 := s15_B
  steps 10 [h0, h1, h2, h3, g0, g1, g2, g3, sext_lt, nc0_eq, nc1_eq]
  acc2 s16_ := muladd_fast_spec s15_1 s15_2 a3 b3 (2 ^ 64 - 1) (2 ^ 64 - 1) _ s15_lt1 (lt64_of_lt32 s15_lt2) A3' B3' (by decide) (by decide) hXs6 (by decide)
  steps 3 [h0, h1, h2, h3, g0, g1, g2, g3, sext_lt, nc0_eq, nc1_eq]
  accx hXs7 := s16_B
  steps 1 [h0, h1, h2, h3, g0, g1, g2, g3, sext_lt, nc0_eq, nc1_eq]
  reads [MulPart1Post]
  refine ⟨?_, s1_lt0, s3_lt0, s6_lt0, s10_lt0, s13_lt0, s15_lt0, s16_lt0, s16_lt1⟩
  clear * - s1_A s2_A s3_A s4_A s5_A s6_A s7_A s8_A s9_A s10_A s11_A s12_A s13_A s14_A s15_A s16_A
  rw [val4_mul]; unfold val8
  omega

set_option maxRecDepth 100000 in
set_option maxHeartbeats 4000000 in
theorem scalar_mul_part2 (env : Env) (l0 l1 l2 l3 l4 l5 l6 l7 : Nat)
    (hl0 : env.get "l" 0 = l0) (hl1 : env.get "l" 1 = l1) (hl2 : env.get "l" 2 = l2) (hl3 : env.get "l" 3 = l3)
    (hl4 : env.get "l" 4 = l4) (hl5 : env.get "l" 5 = l5) (hl6 : env.get "l" 6 = l6) (hl7 : env.get "l" 7 = l7)
    (L0 : l0 < 2 ^ 64) (L1 : l1 < 2 ^ 64) (L2 : l2 < 2 ^ 64) (L3 : l3 < 2 ^ 64)
    (L4 : l4 < 2 ^ 64) (L5 : l5 < 2 ^ 64) (L6 : l6 < 2 ^ 64) (L7 : l7 < 2 ^ 64) :
    RedPost l0 l1 l2 l3 l4 l5 l6 l7 (runR env (Gen.scalar4x64.scalar_mul.body.drop 204)) := by
  simp only [Gen.scalar4x64.scalar_mul, List.drop_succ_cons, List.drop_zero]
  steps 7 [hl0, hl1, hl2, hl3, hl4, hl5, hl6, hl7, sext_lt, nc0_eq, nc1_eq]
  have hB0s := init_bound L0
  steps 10 [hl0, hl1, hl2, hl3, hl4, hl5, hl6, hl7, sext_lt, nc0_eq, nc1_eq]
  acc2 s1_ := muladd_fast_spec l0 0 l4 4624529908474429119 (2 ^ 64 - 1) 4624529908474429119 _ L0 (by decide) (le_of_lt64 L4) (Nat.le_refl _) (by decide) (by decide) hB0s (by decide)
  steps 3 [hl0, hl1, hl2, hl3, hl4, hl5, hl6, hl7, sext_lt, nc0_eq, nc1_eq]
  accx hXs1 := s1_B
  steps 2 [hl0, hl1, hl2, hl3, hl4, hl5, hl6, hl7, sext_lt, nc0_eq, nc1_eq]
  acc2 s2_ := sumadd_fast_spec s1_1 0 l1 _ s1_lt1 (by decide) L1 hXs1 (by decide)
  steps 11 [hl0, hl1, hl2, hl3, hl4, hl5, hl6, hl7, sext_lt, nc0_eq, nc1_eq]
  acc3 s3_ := muladd_spec 64 s2_0 s2_1 0 l5 4624529908474429119 (2 ^ 64 - 1) 4624529908474429119 _ s2_lt0 s2_lt1 (le_of_lt64 L5) (Nat.le_refl _) (by decide) (by decide) s2_B (by decide)
  steps 11 [hl0, hl1, hl2, hl3, hl4, hl5, hl6, hl7, sext_lt, nc0_eq, nc1_eq]
  acc3 s4_ := muladd_spec 64 s3_0 s3_1 s3_2 l4 4994812053365940164 (2 ^ 64 - 1) 4994812053365940164 _ s3_lt0 s3_lt1 (le_of_lt64 L4) (Nat.le_refl _) (by decide) (by decide) s3_B (by decide)
  steps 4 [hl0, hl1, hl2, hl3, hl4, hl5, hl6, hl7, sext_lt, nc0_eq, nc1_eq]
  accx hXs2 := s4_B
  steps 4 [hl0, hl1, hl2, hl3, hl4, hl5, hl6, hl7, sext_lt, nc0_eq, nc1_eq]
  acc3 s5_ := sumadd_spec s4_1 s4_2 0 l2 _ s4_lt1 s4_lt2 L2 hXs2 (by decide)
  steps 11 [hl0, hl1, hl2, hl3, hl4, hl5, hl6, hl7, sext_lt, nc0_eq, nc1_eq]
  acc3 s6_ := muladd_spec 64 s5_0 s5_1 s5_2 l6 4624529908474429119 (2 ^ 64 - 1) 4624529908474429119 _ s5_lt0 s5_lt1 (le_of_lt64 L6) (Nat.le_refl _) (by decide) (by decide) s5_B (by decide)
  steps 11 [hl0, hl1, hl2, hl3, hl4, hl5, hl6, hl7, sext_lt, nc0_eq, nc1_eq]
  acc3 s7_ := muladd_spec 64 s6_0 s6_1 s6_2 l5 4994812053365940164 (2 ^ 64 - 1) 4994812053365940164 _ s6_lt0 s6_lt1 (le_of_lt64 L5) (Nat.le_refl _) (by decide) (by decide) s6_B (by decide)
  steps 4 [hl0, hl1, hl2, hl3, hl4, hl5, hl6, hl7, sext_lt, nc0_eq, nc1_eq]
  acc3 s8_ := sumadd_spec s7_0 s7_1 s7_2 l4 _ s7_lt0 s7_lt1 L4 s7_B (by decide)
  steps 4 [hl0, hl1, hl2, hl3, hl4, hl5, hl6, hl7, sext_lt, nc0_eq, nc1_eq]
  accx hXs3 := s8_B
  steps 4 [hl0, hl1, hl2, hl3, hl4, hl5, hl6, hl7, sext_lt, nc0_eq, nc1_eq]
  acc3 s9_ := sumadd_spec s8_1 s8_2 0 l3 _ s8_lt1 s8_lt2 L3 hXs3 (by decide)
  steps 11 [hl0, hl1, hl2, hl3, hl4, hl5, hl6, hl7, sext_lt, nc0_eq, nc1_eq]
  acc3 s10_ := muladd_spec 64 s9_0 s9_1 s9_2 l7 4624529908474429119 (2 ^ 64 - 1) 4624529908474429119 _ s9_lt0 s9_lt1 (le_of_lt64 L7) (Nat.le_refl _) (by decide) (by decide) s9_B (by decide)
  steps 11 [hl0, hl1, hl2, hl3, hl4, hl5, hl6, hl7, sext_lt, nc0_eq, nc1_eq]
  acc3 s11_ := muladd_spec 64 s10_0 s10_1 s10_2 l6 4994812053365940164 (2 ^ 64 - 1) 4994812053365940164 _ s10_lt0 s10_lt1 (le_of_lt64 L6) (Nat.le_refl _) (by decide) (by decide) s10_B (by decide)
  steps 4 [hl0, hl1, hl2, hl3, hl4, hl5, hl6, hl7, sext_lt, nc0_eq, nc1_eq]
  acc3 s12_ := sumadd_spec s11_0 s11_1 s11_2 l5 _ s11_lt0 s11_lt1 L5 s11_B (by decide)
  steps 4 [hl0, hl1, hl2, hl3, hl4, hl5, hl6, hl7, sext_lt, nc0_eq, nc1_eq]
  accx hXs4 := s12_B
  steps 11 [hl0, hl1, hl2, hl3, hl4, hl5, hl6, hl7, sext_lt, nc0_eq, nc1_eq]
  acc3 s13_ := muladd_spec 64 s12_1 s12_2 0 l7 4994812053365940164 (2 ^ 64 - 1) 4994812053365940164 _ s12_lt1 s12_lt2 (le_of_lt64 L7) (Nat.le_refl _) (by decide) (by decide) hXs4 (by decide)
  steps 4 [hl0, hl1, hl2, hl3, hl4, hl5, hl6, hl7, sext_lt, nc0_eq, nc1_eq]
  acc3 s14_ := sumadd_spec s13_0 s13_1 s13_2 l6 _ s13_lt0 s13_lt1 L6 s13_B (by decide)
  steps 4 [hl0, hl1, hl2, hl3, hl4, hl5, hl6, hl7, sext_lt, nc0_eq, nc1_eq]
  accx hXs5 := s14_B
  steps 2 [hl0, hl1, hl2, hl3, hl4, hl5, hl6, hl7, sext_lt, nc0_eq, nc1_eq]
  acc2 s15_ := sumadd_fast_spec s14_1 s14_2 l7 _ s14_lt1 s14_lt2 L7 hXs5 (by decide)
  steps 3 [hl0, hl1, hl2, hl3, hl4, hl5, hl6, hl7, sext_lt, nc0_eq, nc1_eq]
  accx hXs6 := s15_B
  steps 1 [hl0, hl1, hl2, hl3, hl4, hl5, hl6, hl7, sext_lt, nc0_eq, nc1_eq]
  have m6_le := top_le hXs6
  rw [Nat.mod_eq_of_lt (show s15_1 < 2 ^ 32 by omega)]
  steps 3 [hl0, hl1, hl2, hl3, hl4, hl5, hl6, hl7, sext_lt, nc0_eq, nc1_eq]
  have hB1s := init_bound s1_lt0
  steps 10 [hl0, hl1, hl2, hl3, hl4, hl5, hl6, hl7, sext_lt, nc0_eq, nc1_eq]
  acc2 s16_ := muladd_fast_spec s1_0 0 s14_0 4624529908474429119 (2 ^ 64 - 1) 4624529908474429119 _ s1_lt0 (by decide) (le_of_lt64 s14_lt0) (Nat.le_refl _) (by decide) (by decide) hB1s (by decide)
  steps 3 [hl0, hl1, hl2, hl3, hl4, hl5, hl6, hl7, sext_lt, nc0_eq, nc1_eq]
  accx hXs7 := s16_B
  steps 2 [hl0, hl1, hl2, hl3, hl4, hl5, hl6, hl7, sext_lt, nc0_eq, nc1_eq]
  acc2 s17_ := sumadd_fast_spec s16_1 0 s4_0 _ s16_lt1 (by decide) s4_lt0 hXs7 (by decide)
  steps 11 [hl0, hl1, hl2, hl3, hl4, hl5, hl6, hl7, sext_lt, nc0_eq, nc1_eq]
  acc3 s18_ := muladd_spec 64 s17_0 s17_1 0 s15_0 4624529908474429119 (2 ^ 64 - 1) 4624529908474429119 _ s17_lt0 s17_lt1 (le_of_lt64 s15_lt0) (Nat.le_refl _) (by decide) (by decide) s17_B (by decide)
  steps 11 [hl0, hl1, hl2, hl3, hl4, hl5, hl6, hl7, sext_lt, nc0_eq, nc1_eq]
  acc3 s19_ := muladd_spec 64 s18_0 s18_1 s18_2 s14_0 4994812053365940164 (2 ^ 64 - 1) 4994812053365940164 _ s18_lt0 s18_lt1 (le_of_lt64 s14_lt0) (Nat.le_refl _) (by decide) (by decide) s18_B (by decide)
  steps 4 [hl0, hl1, hl2, hl3, hl4, hl5, hl6, hl7, sext_lt, nc0_eq, nc1_eq]
  accx hXs8 := s19_B
  steps 4 [hl0, hl1, hl2, hl3, hl4, hl5, hl6, hl7, sext_lt, nc0_eq, nc1_eq]
  acc3 s20_ := sumadd_spec s19_1 s19_2 0 s8_0 _ s19_lt1 s19_lt2 s8_lt0 hXs8 (by decide)
  steps 11 [hl0, hl1, hl2, hl3, hl4, hl5, hl6, hl7, sext_lt, nc0_eq, nc1_eq]
  acc3 s21_ := muladd_spec 64 s20_0 s20_1 s20_2 s15_1 4624529908474429119 _ 4624529908474429119 _ s20_lt0 s20_lt1 m6_le (Nat.le_refl _) (by decide) (by decide) s20_B (by decide)
  steps 11 [hl0, hl1, hl2, hl3, hl4, hl5, hl6, hl7, sext_lt, nc0_eq, nc1_eq]
  acc3 s22_ := muladd_spec 64 s21_0 s21_1 s21_2 s15_0 4994812053365940164 (2 ^ 64 - 1) 4994812053365940164 _ s21_lt0 s21_lt1 (le_of_lt64 s15_lt0) (Nat.le_refl _) (by decide) (by decide) s21_B (by decide)
  steps 4 [hl0, hl1, hl2, hl3, hl4, hl5, hl6, hl7, sext_lt, nc0_eq, nc1_eq]
  acc3 s23_ := sumadd_spec s22_0 s22_1 s22_2 s14_0 _ s22_lt0 s22_lt1 s14_lt0 s22_B (by decide)
  steps 4 [hl0, hl1, hl2, hl3, hl4, hl5, hl6, hl7, sext_lt, nc0_eq, nc1_eq]
  accx hXs9 := s23_B
  steps 2 [hl0, hl1, hl2, hl3, hl4, hl5, hl6, hl7, sext_lt, nc0_eq, nc1_eq]
  acc2 s24_ := sumadd_fast_spec s23_1 s23_2 s12_0 _ s23_lt1 s23_lt2 s12_lt0 hXs9 (by decide)
  steps 10 [hl0, hl1, hl2, hl3, hl4, hl5, hl6, hl7, sext_lt, nc0_eq, nc1_eq]
  acc2 s25_ := muladd_fast_spec s24_0 s24_1 s15_1 4994812053365940164 _ 4994812053365940164 _ s24_lt0 s24_lt1 m6_le (Nat.le_refl _) (by decide) (by decide) s24_B (by decide)
  steps 2 [hl0, hl1, hl2, hl3, hl4, hl5, hl6, hl7, sext_lt, nc0_eq, nc1_eq]
  acc2 s26_ := sumadd_fast_spec s25_0 s25_1 s15_0 _ s25_lt0 s25_lt1 s15_lt0 s25_B (by decide)
  steps 3 [hl0, hl1, hl2, hl3, hl4, hl5, hl6, hl7, sext_lt, nc0_eq, nc1_eq]
  accx hXs10 := s26_B
  vstep p4 [hl0, hl1, hl2, hl3, hl4, hl5, hl6, hl7, sext_lt, nc0_eq, nc1_eq]
  steps 6 [hl0, hl1, hl2, hl3, hl4, hl5, hl6, hl7, sext_lt, nc0_eq, nc1_eq]
  vstep r0 [hl0, hl1, hl2, hl3, hl4, hl5, hl6, hl7, sext_lt, nc0_eq, nc1_eq]
  vstep t1 [hl0, hl1, hl2, hl3, hl4, hl5, hl6, hl7, sext_lt, nc0_eq, nc1_eq]
  steps 6 [hl0, hl1, hl2, hl3, hl4, hl5, hl6, hl7, sext_lt, nc0_eq, nc1_eq]
  vstep r1 [hl0, hl1, hl2, hl3, hl4, hl5, hl6, hl7, sext_lt, nc0_eq, nc1_eq]
  vstep t2 [hl0, hl1, hl2, hl3, hl4, hl5, hl6, hl7, sext_lt, nc0_eq, nc1_eq]
  steps 5 [hl0, hl1, hl2, hl3, hl4, hl5, hl6, hl7, sext_lt, nc0_eq, nc1_eq]
  vstep r2 [hl0, hl1, hl2, hl3, hl4, hl5, hl6, hl7, sext_lt, nc0_eq, nc1_eq]
  vstep t3 [hl0, hl1, hl2, hl3, hl4, hl5, hl6, hl7, sext_lt, nc0_eq, nc1_eq]
  steps 3 [hl0, hl1, hl2, hl3, hl4, hl5, hl6, hl7, sext_lt, nc0_eq, nc1_eq]
  vstep r3 [hl0, hl1, hl2, hl3, hl4, hl5, hl6, hl7, sext_lt, nc0_eq, nc1_eq]
  vstep cc [hl0, hl1, hl2, hl3, hl4, hl5, hl6, hl7, sext_lt, nc0_eq, nc1_eq]
  steps 1 [hl0, hl1, hl2, hl3, hl4, hl5, hl6, hl7, sext_lt, nc0_eq, nc1_eq]
  steps 8 [hl0, hl1, hl2, hl3, hl4, hl5, hl6, hl7, sext_lt, nc0_eq, nc1_eq]
  vstep yes [hl0, hl1, hl2, hl3, hl4, hl5, hl6, hl7, sext_lt, nc0_eq, nc1_eq]
  vstep ov [hl0, hl1, hl2, hl3, hl4, hl5, hl6, hl7, sext_lt, nc0_eq, nc1_eq]
  steps 5 [hl0, hl1, hl2, hl3, hl4, hl5, hl6, hl7, sext_lt, nc0_eq, nc1_eq]
  vstep q0 [hl0, hl1, hl2, hl3, hl4, hl5, hl6, hl7, sext_lt, nc0_eq, nc1_eq]
  vstep u1 [hl0, hl1, hl2, hl3, hl4, hl5, hl6, hl7, sext_lt, nc0_eq, nc1_eq]
  steps 5 [hl0, hl1, hl2, hl3, hl4, hl5, hl6, hl7, sext_lt, nc0_eq, nc1_eq]
  vstep q1 [hl0, hl1, hl2, hl3, hl4, hl5, hl6, hl7, sext_lt, nc0_eq, nc1_eq]
  vstep u2 [hl0, hl1, hl2, hl3, hl4, hl5, hl6, hl7, sext_lt, nc0_eq, nc1_eq]
  steps 5 [hl0, hl1, hl2, hl3, hl4, hl5, hl6, hl7, sext_lt, nc0_eq, nc1_eq]
  vstep q2 [hl0, hl1, hl2, hl3, hl4, hl5, hl6, hl7, sext_lt, nc0_eq, nc1_eq]
  vstep u3 [hl0, hl1, hl2, hl3, hl4, hl5, hl6, hl7, sext_lt, nc0_eq, nc1_eq]
  steps 3 [hl0, hl1, hl2, hl3, hl4, hl5, hl6, hl7, sext_lt, nc0_eq, nc1_eq]
  vstep q3 [hl0, hl1, hl2, hl3, hl4, hl5, hl6, hl7, sext_lt, nc0_eq, nc1_eq]
  steps 1 [hl0, hl1, hl2, hl3, hl4, hl5, hl6, hl7, sext_lt, nc0_eq, nc1_eq]
  reads [RedPost]
  have hS1 : s1_0 + s4_0 * 2 ^ 64 + s8_0 * 2 ^ 128 + s12_0 * 2 ^ 192 + s14_0 * 2 ^ 256 + s15_0 * 2 ^ 320 + s15_1 * 2 ^ 384 =
      (l0 + l1 * 2 ^ 64 + l2 * 2 ^ 128 + l3 * 2 ^ 192) + (l4 + l5 * 2 ^ 64 + l6 * 2 ^ 128 + l7 * 2 ^ 192) * (4624529908474429119 + 4994812053365940164 * 2 ^ 64 + 2 ^ 128) := by
    clear * - s1_A s2_A s3_A s4_A s5_A s6_A s7_A s8_A s9_A s10_A s11_A s12_A s13_A s14_A s15_A
    omega
  have hS2 : s16_0 + s19_0 * 2 ^ 64 + s23_0 * 2 ^ 128 + s26_0 * 2 ^ 192 + (s26_1 + s15_1) * 2 ^ 256 =
      (s1_0 + s4_0 * 2 ^ 64 + s8_0 * 2 ^ 128 + s12_0 * 2 ^ 192) + (s14_0 + s15_0 * 2 ^ 64 + s15_1 * 2 ^ 128) * (4624529908474429119 + 4994812053365940164 * 2 ^ 64 + 2 ^ 128) := by
    clear * - s16_A s17_A s18_A s19_A s20_A s21_A s22_A s23_A s24_A s25_A s26_A
    omega
  simp only [binWrap_add, binWrap_mul, binWrap_shr] at p4_def r0_def t1_def r1_def t2_def r2_def t3_def r3_def cc_def q0_def u1_def q1_def u2_def q2_def u3_def q3_def
  have hp4 : p4 = s26_1 + s15_1 := by
    clear * - p4_def hXs10 m6_le
    omega
  have hp4' : p4 ≤ 3 := by
    clear * - hp4 hXs10 m6_le
    omega
  obtain ⟨hr0, hr1, hr2, hr3, hcc, hVe⟩ := red_stage3_arith s16_0 s19_0 s23_0 s26_0 p4 r0 t1 r1 t2 r2 t3 r3 cc
    s16_lt0 s19_lt0 s23_lt0 s26_lt0 hp4' r0_def t1_def r1_def t2_def r2_def t3_def r3_def cc_def
  rw [check_overflow_spec r0 r1 r2 r3 hr0 hr1 hr2 hr3] at yes_def
  have hlt : r0 + r1 * 2 ^ 64 + r2 * 2 ^ 128 + r3 * 2 ^ 192 + cc * 2 ^ 256 < 2 * N := by
    clear * - hVe hp4' s16_lt0 s19_lt0 s23_lt0 s26_lt0
    simp only [N]
    omega
  obtain ⟨_, _, hFe, hFlt, hq0, hq1, hq2, hq3⟩ := final_reduce_arith r0 r1 r2 r3 cc yes ov q0 u1 q1 u2 q2 u3 q3
    hr0 hr1 hr2 hr3 hcc hlt yes_def ov_def q0_def u1_def q1_def u2_def q2_def u3_def q3_def
  rw [← hp4] at hS2
  have hMod : val4 q0 q1 q2 q3 = val8 l0 l1 l2 l3 l4 l5 l6 l7 % N :=
    eq_mod_of_eq_add_mul (red_combine _ _ _ _ _ _ _ _ _ _ _ _ _ _ _ _ _ _ _ _ _ _ _ _ _ _ _ _ _ _ hS1 hS2 hVe hFe) hFlt
  exact ⟨hMod, hq0, hq1, hq2, hq3⟩

/-- post-condition of `secp256k1_scalar_mul(r, a, b)` -/
def MulPost (a0 a1 a2 a3 b0 b1 b2 b3 : Nat) (out : Env × Option Nat) : Prop :=
  val4 (out.1.get "r.d" 0) (out.1.get "r.d" 1) (out.1.get "r.d" 2) (out.1.get "r.d" 3) =
    (val4 a0 a1 a2 a3 * val4 b0 b1 b2 b3) % N ∧
  out.1.get "r.d" 0 < 2 ^ 64 ∧ out.1.get "r.d" 1 < 2 ^ 64 ∧ out.1.get "r.d" 2 < 2 ^ 64 ∧ out.1.get "r.d" 3 < 2 ^ 64

theorem scalar_mul_run (env : Env) (a0 a1 a2 a3 b0 b1 b2 b3 : Nat)
    (h0 : env.get "a.d" 0 = a0) (h1 : env.get "a.d" 1 = a1) (h2 : env.get "a.d" 2 = a2) (h3 : env.get "a.d" 3 = a3)
    (g0 : env.get "b.d" 0 = b0) (g1 : env.get "b.d" 1 = b1) (g2 : env.get "b.d" 2 = b2) (g3 : env.get "b.d" 3 = b3)
    (A0 : a0 < 2 ^ 64) (A1 : a1 < 2 ^ 64) (A2 : a2 < 2 ^ 64) (A3 : a3 < 2 ^ 64)
    (B0 : b0 < 2 ^ 64) (B1 : b1 < 2 ^ 64) (B2 : b2 < 2 ^ 64) (B3 : b3 < 2 ^ 64) :
    MulPost a0 a1 a2 a3 b0 b1 b2 b3 (runR env Gen.scalar4x64.scalar_mul.body) := by
  obtain ⟨hnone, hprod, L0, L1, L2, L3, L4, L5, L6, L7⟩ :=
    scalar_mul_part1 env a0 a1 a2 a3 b0 b1 b2 b3 h0 h1 h2 h3 g0 g1 g2 g3 A0 A1 A2 A3 B0 B1 B2 B3
  rw [runR_take_drop 204 _ env hnone]
  obtain ⟨hmod, hq⟩ := scalar_mul_part2 (runR env (Gen.scalar4x64.scalar_mul.body.take 204)).1 _ _ _ _ _ _ _ _
    rfl rfl rfl rfl rfl rfl rfl rfl L0 L1 L2 L3 L4 L5 L6 L7
  rw [hprod] at hmod
  exact ⟨hmod, hq⟩

/-- **`secp256k1_scalar_mul` is exact.**  For ALL 64-bit limb values of `a` and `b` (reduced or not), the four
    output limbs are 64-bit values representing `a · b mod N`; in particular the result is fully reduced. -/
theorem scalar_mul_correct (env : Env) (ha : Limbs64 env "a.d") (hb : Limbs64 env "b.d") :
    sval (execL env Gen.scalar4x64.scalar_mul.body).env "r.d" = (sval env "a.d" * sval env "b.d") % N ∧
    sval (execL env Gen.scalar4x64.scalar_mul.body).env "r.d" < N ∧
    Limbs64 (execL env Gen.scalar4x64.scalar_mul.body).env "r.d" := by
  obtain ⟨A0, A1, A2, A3⟩ := ha
  obtain ⟨B0, B1, B2, B3⟩ := hb
  obtain ⟨h, hq⟩ := scalar_mul_run env _ _ _ _ _ _ _ _ rfl rfl rfl rfl rfl rfl rfl rfl A0 A1 A2 A3 B0 B1 B2 B3
  refine ⟨h, ?_, hq⟩
  have : sval (execL env Gen.scalar4x64.scalar_mul.body).env "r.d" = (sval env "a.d" * sval env "b.d") % N := h
  rw [this]; exact Nat.mod_lt _ (by decide)

/-- Non-vacuity: `a = b = N - 1` satisfy the hypotheses; the theorem then gives `r = 1` (`(-1)·(-1) = 1`).
    The all-ones operands (not reduced) satisfy them as well. -/
example : Limbs64 nm1Env "a.d" ∧ Limbs64 nm1Env "b.d" ∧
    sval (execL nm1Env Gen.scalar4x64.scalar_mul.body).env "r.d" = 1 := by
  have ha : Limbs64 nm1Env "a.d" := by decide +kernel
  have hb : Limbs64 nm1Env "b.d" := by decide +kernel
  obtain ⟨h, _, _⟩ := scalar_mul_correct nm1Env ha hb
  have e : (sval nm1Env "a.d" * sval nm1Env "b.d") % N = 1 := by decide +kernel
  exact ⟨ha, hb, e ▸ h⟩

example : Limbs64 onesEnv "a.d" ∧ Limbs64 onesEnv "b.d" := ⟨by decide +kernel, by decide +kernel⟩

/-! ### 6. `secp256k1_scalar_half` -/

/-- post-condition of `secp256k1_scalar_half(r, a)` -/
def HalfPost (a0 a1 a2 a3 : Nat) (out : Env × Option Nat) : Prop :=
  val4 (out.1.get "r.d" 0) (out.1.get "r.d" 1) (out.1.get "r.d" 2) (out.1.get "r.d" 3) =
    val4 a0 a1 a2 a3 / 2 + val4 a0 a1 a2 a3 % 2 * ((N + 1) / 2) ∧
  out.1.get "r.d" 0 < 2 ^ 64 ∧ out.1.get "r.d" 1 < 2 ^ 64 ∧ out.1.get "r.d" 2 < 2 ^ 64 ∧ out.1.get "r.d" 3 < 2 ^ 64

set_option maxRecDepth 100000 in
set_option maxHeartbeats 4000000 in
theorem scalar_half_run (env : Env) (a0 a1 a2 a3 : Nat)
    (h0 : env.get "a.d" 0 = a0) (h1 : env.get "a.d" 1 = a1) (h2 : env.get "a.d" 2 = a2) (h3 : env.get "a.d" 3 = a3)
    (A0 : a0 < 2 ^ 64) (A1 : a1 < 2 ^ 64) (A2 : a2 < 2 ^ 64) (A3 : a3 < 2 ^ 64)
    (hA : val4 a0 a1 a2 a3 < N) :
    HalfPost a0 a1 a2 a3 (runR env Gen.scalar4x64.scalar_half.body) := by
  simp only [Gen.scalar4x64.scalar_half]
  vstep mask [h0, h1, h2, h3]
  steps 5 [h0, h1, h2, h3]
  vstep r0 [h0, h1, h2, h3]
  vstep t1 [h0, h1, h2, h3]
  steps 5 [h0, h1, h2, h3]
  vstep r1 [h0, h1, h2, h3]
  vstep t2 [h0, h1, h2, h3]
  steps 5 [h0, h1, h2, h3]
  vstep r2 [h0, h1, h2, h3]
  vstep t3 [h0, h1, h2, h3]
  steps 1 [h0, h1, h2, h3]
  vstep r3 [h0, h1, h2, h3]
  reads [HalfPost]
  exact half_arith a0 a1 a2 a3 mask r0 t1 r1 t2 r2 t3 r3 A0 A1 A2 A3 hA mask_def
    r0_def t1_def r1_def t2_def r2_def t3_def r3_def

/-- **`secp256k1_scalar_half` is exact.**  For every memory in which `a` is a reduced scalar, the translated C
    function leaves in `r` 64-bit limbs of the number `a/2 + (a mod 2)·(N+1)/2`, which is the unique `r < N`
    with `2·r ≡ a (mod N)`, i.e. `a · 2⁻¹ mod N`. -/
theorem scalar_half_correct (env : Env) (ha : Limbs64 env "a.d") (hA : sval env "a.d" < N) :
    2 * sval (execL env Gen.scalar4x64.scalar_half.body).env "r.d" % N = sval env "a.d" ∧
    sval (execL env Gen.scalar4x64.scalar_half.body).env "r.d" < N ∧
    sval (execL env Gen.scalar4x64.scalar_half.body).env "r.d" =
      sval env "a.d" / 2 + sval env "a.d" % 2 * ((N + 1) / 2) ∧
    Limbs64 (execL env Gen.scalar4x64.scalar_half.body).env "r.d" := by
  obtain ⟨A0, A1, A2, A3⟩ := ha
  obtain ⟨h, hq⟩ := scalar_half_run env _ _ _ _ rfl rfl rfl rfl A0 A1 A2 A3 hA
  have h' : sval (execL env Gen.scalar4x64.scalar_half.body).env "r.d" =
      sval env "a.d" / 2 + sval env "a.d" % 2 * ((N + 1) / 2) := h
  obtain ⟨h1, h2⟩ := half_spec _ _ hA h'
  exact ⟨h1, h2, h', hq⟩

/-- post-condition of `scalar_half` on memories, as a decidable predicate (for closed evaluation) -/
def HalfPostEnv (env out : Env) : Prop :=
  2 * sval out "r.d" % N = sval env "a.d" ∧ sval out "r.d" < N ∧ Limbs64 out "r.d"

instance (env out : Env) : Decidable (HalfPostEnv env out) := by unfold HalfPostEnv; infer_instance

/-- Non-vacuity: the even scalar `a = N - 1` and the odd scalar `a = 1` satisfy the hypotheses, and the
    conclusion, evaluated by running the wrap-around interpreter in the kernel, holds for both. -/
example : Limbs64 nm1Env "a.d" ∧ sval nm1Env "a.d" < N ∧
    HalfPostEnv nm1Env (execL nm1Env Gen.scalar4x64.scalar_half.body).env :=
  ⟨by decide +kernel, by decide +kernel,
   of_decide_eq_true (FieldKernel.checkRun_sound (post := fun out => decide (HalfPostEnv nm1Env out)) (by decide +kernel))⟩

example : Limbs64 [(("a.d", 0), 1)] "a.d" ∧ sval [(("a.d", 0), 1)] "a.d" < N ∧
    HalfPostEnv [(("a.d", 0), 1)] (execL [(("a.d", 0), 1)] Gen.scalar4x64.scalar_half.body).env :=
  ⟨by decide +kernel, by decide +kernel,
   of_decide_eq_true (FieldKernel.checkRun_sound (post := fun out => decide (HalfPostEnv [(("a.d", 0), 1)] out))
     (by decide +kernel))⟩

/-! ### 7. `secp256k1_scalar_cadd_bit` -/

/-- post-condition of `secp256k1_scalar_cadd_bit(r, bit, flag)` -/
def CaddPost (x0 x1 x2 x3 bit flag : Nat) (out : Env × Option Nat) : Prop :=
  val4 (out.1.get "r.d" 0) (out.1.get "r.d" 1) (out.1.get "r.d" 2) (out.1.get "r.d" 3) =
    val4 x0 x1 x2 x3 + flag * 2 ^ bit ∧
  out.1.get "r.d" 0 < 2 ^ 64 ∧ out.1.get "r.d" 1 < 2 ^ 64 ∧ out.1.get "r.d" 2 < 2 ^ 64 ∧ out.1.get "r.d" 3 < 2 ^ 64

set_option maxRecDepth 100000 in
set_option maxHeartbeats 4000000 in
theorem scalar_cadd_bit_run (env : Env) (x0 x1 x2 x3 bit flag : Nat)
    (h0 : env.get "r.d" 0 = x0) (h1 : env.get "r.d" 1 = x1) (h2 : env.get "r.d" 2 = x2) (h3 : env.get "r.d" 3 = x3)
    (hb : env.get "bit" 0 = bit) (hf : env.get "flag" 0 = flag)
    (X0 : x0 < 2 ^ 64) (X1 : x1 < 2 ^ 64) (X2 : x2 < 2 ^ 64) (X3 : x3 < 2 ^ 64)
    (hbit : bit < 256) (hflag : flag ≤ 1) (hno : val4 x0 x1 x2 x3 + flag * 2 ^ bit < 2 ^ 256) :
    CaddPost x0 x1 x2 x3 bit flag (runR env Gen.scalar4x64.scalar_cadd_bit.body) := by
  simp only [Gen.scalar4x64.scalar_cadd_bit]
  steps 1 [h0, h1, h2, h3, hb, hf]
  vstep bit' [h0, h1, h2, h3, hb, hf]
  steps 5 [h0, h1, h2, h3, hb, hf]
  vstep r0 [h0, h1, h2, h3, hb, hf]
  vstep t1 [h0, h1, h2, h3, hb, hf]
  steps 5 [h0, h1, h2, h3, hb, hf]
  vstep r1 [h0, h1, h2, h3, hb, hf]
  vstep t2 [h0, h1, h2, h3, hb, hf]
  steps 5 [h0, h1, h2, h3, hb, hf]
  vstep r2 [h0, h1, h2, h3, hb, hf]
  vstep t3 [h0, h1, h2, h3, hb, hf]
  steps 5 [h0, h1, h2, h3, hb, hf]
  vstep r3 [h0, h1, h2, h3, hb, hf]
  reads [CaddPost]
  simp only [cadd_inc] at r0_def t1_def r1_def t2_def r2_def t3_def r3_def
  exact cadd_arith x0 x1 x2 x3 bit flag bit' r0 t1 r1 t2 r2 t3 r3 X0 X1 X2 X3 hbit hflag hno
    (cadd_bit' bit flag bit' hbit hflag bit'_def) r0_def t1_def r1_def t2_def r2_def t3_def r3_def

/-- **`secp256k1_scalar_cadd_bit` is exact.**  For every memory in which `r` has 64-bit limbs, `bit < 256`,
    `flag ∈ {0, 1}` and `r + flag·2^bit` does not overflow 256 bits (the C function's documented contract: "the
    result is not allowed to overflow"), the translated C function leaves in `r` the limbs of `r + flag·2^bit`. -/
theorem scalar_cadd_bit_correct (env : Env) (hr : Limbs64 env "r.d") (hbit : env.get "bit" 0 < 256)
    (hflag : env.get "flag" 0 ≤ 1) (hno : sval env "r.d" + env.get "flag" 0 * 2 ^ env.get "bit" 0 < 2 ^ 256) :
    sval (execL env Gen.scalar4x64.scalar_cadd_bit.body).env "r.d" =
      sval env "r.d" + env.get "flag" 0 * 2 ^ env.get "bit" 0 ∧
    Limbs64 (execL env Gen.scalar4x64.scalar_cadd_bit.body).env "r.d" := by
  obtain ⟨X0, X1, X2, X3⟩ := hr
  exact scalar_cadd_bit_run env _ _ _ _ _ _ rfl rfl rfl rfl rfl rfl X0 X1 X2 X3 hbit hflag hno

/-- `r = 2^128 - 1`, `bit = 70`, `flag = 1`: the addition of `2^70` carries from limb 1 into limb 2 -/
def caddEnv : Env :=
  [(("r.d", 0), 18446744073709551615), (("r.d", 1), 18446744073709551615), (("r.d", 2), 0), (("r.d", 3), 0),
   (("bit", 0), 70), (("flag", 0), 1)]

/-- the same with `flag = 0`: nothing is added -/
def caddEnv0 : Env :=
  [(("r.d", 0), 18446744073709551615), (("r.d", 1), 18446744073709551615), (("r.d", 2), 0), (("r.d", 3), 0),
   (("bit", 0), 70), (("flag", 0), 0)]

/-- post-condition of `scalar_cadd_bit` on memories, as a decidable predicate (for closed evaluation) -/
def CaddPostEnv (env out : Env) : Prop :=
  sval out "r.d" = sval env "r.d" + env.get "flag" 0 * 2 ^ env.get "bit" 0 ∧ Limbs64 out "r.d"

instance (env out : Env) : Decidable (CaddPostEnv env out) := by unfold CaddPostEnv; infer_instance

/-- Non-vacuity: both memories satisfy the hypotheses, and the conclusion, evaluated by running the wrap-around
    interpreter in the kernel, holds. -/
example : Limbs64 caddEnv "r.d" ∧ caddEnv.get "bit" 0 < 256 ∧ caddEnv.get "flag" 0 ≤ 1 ∧
    sval caddEnv "r.d" + caddEnv.get "flag" 0 * 2 ^ caddEnv.get "bit" 0 < 2 ^ 256 ∧
    CaddPostEnv caddEnv (execL caddEnv Gen.scalar4x64.scalar_cadd_bit.body).env :=
  ⟨by decide +kernel, by decide +kernel, by decide +kernel, by decide +kernel,
   of_decide_eq_true (FieldKernel.checkRun_sound (post := fun out => decide (CaddPostEnv caddEnv out)) (by decide +kernel))⟩

example : Limbs64 caddEnv0 "r.d" ∧ caddEnv0.get "bit" 0 < 256 ∧ caddEnv0.get "flag" 0 ≤ 1 ∧
    CaddPostEnv caddEnv0 (execL caddEnv0 Gen.scalar4x64.scalar_cadd_bit.body).env :=
  ⟨by decide +kernel, by decide +kernel, by decide +kernel,
   of_decide_eq_true (FieldKernel.checkRun_sound (post := fun out => decide (CaddPostEnv caddEnv0 out)) (by decide +kernel))⟩

end C05sc
end SecpZkp
