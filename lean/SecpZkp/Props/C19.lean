/-
  C19: the Bulletproofs++ norm argument (`src/modules/bppp/bppp_norm_product_impl.h`) and the generator
  lists (`main_impl.h`).

  1. `verify_guards_*`, `verify_iff_spec`: what `secp256k1_bppp_rangeproof_norm_product_verify` rejects
     before looking at the equation, and that it returns 1 exactly when all guards pass and the final
     multi-exponentiation equation holds.  For ALL byte strings, sizes and scratch spaces.
  2. `gens_prefix`, `gens_length`: `secp256k1_bppp_generators_create` is prefix consistent.
  3. `fold_step`: one prover round preserves the committed relation.
  4. `norm_arg_complete`: honest proofs verify.
-/
import SecpZkp.Proofs.BpppComplete
import SecpZkp.Props.C19_codec
import SecpZkp.Proofs.GroupLawProved

namespace SecpZkp
namespace C19

open Bppp

/-! ### 1. the guards of the verifier -/

section Guards
variable (scratch : Scratch) (proof : Bytes) (transcript : Sha256.State) (rho : Nat)
  (gens : List Pt) (gLen : Nat) (cVec : List Nat) (commit : Pt)

/-- The model's power-of-two test (`n > 0 && (n & (n-1)) == 0`) is the mathematical one. -/
theorem isPowerOfTwo_iff (n : Nat) : isPowerOfTwo n = true ↔ ∃ k, n = 2 ^ k := by
  unfold isPowerOfTwo
  rw [Bool.and_eq_true, decide_eq_true_eq, beq_iff_eq]
  have := @Nat.ne_zero_and_sub_one_eq_zero_iff_isPowerOfTwo n
  unfold Nat.isPowerOfTwo at this
  rw [← this]
  constructor
  · rintro ⟨h1, h2⟩; exact ⟨by omega, h2⟩
  · rintro ⟨h1, h2⟩; exact ⟨by omega, h2⟩

example : isPowerOfTwo 64 = true ∧ isPowerOfTwo 48 = false ∧ isPowerOfTwo 0 = false := by decide

/-- **`verify` never touches the scratch space permanently**: in every case (accept, reject, allocation
failure) the scratch space comes back with its allocation pointer restored. -/
theorem verify_scratch_restored : (verify scratch proof transcript rho gens gLen cVec commit).2 = scratch := by
  rw [verify_eq]

/-- `verify` returns 0 or 1. -/
theorem verify_ret01 : (verify scratch proof transcript rho gens gLen cVec commit).1 = 0 ∨
    (verify scratch proof transcript rho gens gLen cVec commit).1 = 1 := by
  rw [verify_eq]
  simp only []
  split
  · split
    · exact Or.inl rfl
    · split
      · exact Or.inr rfl
      · exact Or.inl rfl
  · exact Or.inl rfl

/-- Any violated guard makes `verify` return 0. -/
theorem verify_zero_of_not_guards (h : ¬ Guards scratch proof rho gens gLen cVec) :
    (verify scratch proof transcript rho gens gLen cVec commit).1 = 0 := by
  rw [verify_eq]; simp only [if_neg h]

/-- **Empty vectors are rejected** (`g_len == 0 || c_vec_len == 0`). -/
theorem verify_guards_empty (h : gLen = 0 ∨ cVec.length = 0) :
    (verify scratch proof transcript rho gens gLen cVec commit).1 = 0 :=
  verify_zero_of_not_guards _ _ _ _ _ _ _ _ (fun g => by unfold Guards at g; omega)

/-- **Exact proof length** (`proof_len != 65 * n_rounds + 64`): a proof that is too short *or too long* is
rejected, whatever its content; `n_rounds = max (log2 g_len) (log2 c_vec_len)`. -/
theorem verify_guards_len (h : proof.length ≠ 65 * nRounds gLen cVec.length + 64) :
    (verify scratch proof transcript rho gens gLen cVec commit).1 = 0 :=
  verify_zero_of_not_guards _ _ _ _ _ _ _ _ (fun g => by unfold Guards at g; omega)

/-- **Trailing bytes are rejected**: appending anything non-empty to a proof of the right length makes the
verifier return 0 (this is the `!=` versus `<` distinction). -/
theorem verify_guards_trailing (extra : Bytes) (hlen : proof.length = 65 * nRounds gLen cVec.length + 64)
    (hne : extra ≠ []) :
    (verify scratch (proof ++ extra) transcript rho gens gLen cVec commit).1 = 0 := by
  apply verify_guards_len
  have : 0 < extra.length := List.length_pos_iff.mpr hne
  rw [List.length_append]; omega

/-- **`g_len` must be a power of two.** -/
theorem verify_guards_pow2_g (h : ¬ ∃ k, gLen = 2 ^ k) :
    (verify scratch proof transcript rho gens gLen cVec commit).1 = 0 :=
  verify_zero_of_not_guards _ _ _ _ _ _ _ _
    (fun g => by unfold Guards at g; exact h ((isPowerOfTwo_iff _).1 g.2.2.2.2.1))

/-- **`c_vec_len` (= `h_len`) must be a power of two.** -/
theorem verify_guards_pow2_c (h : ¬ ∃ k, cVec.length = 2 ^ k) :
    (verify scratch proof transcript rho gens gLen cVec commit).1 = 0 :=
  verify_zero_of_not_guards _ _ _ _ _ _ _ _
    (fun g => by unfold Guards at g; exact h ((isPowerOfTwo_iff _).1 g.2.2.2.2.2.1))

/-- **Generator count** (`g_vec->n != h_len + g_len`): too few *or too many* generators are rejected. -/
theorem verify_guards_gens_count (h : gens.length ≠ gLen + cVec.length) :
    (verify scratch proof transcript rho gens gLen cVec commit).1 = 0 :=
  verify_zero_of_not_guards _ _ _ _ _ _ _ _ (fun g => by unfold Guards at g; omega)

/-- **Zero challenge base**: `rho = 0` is rejected. -/
theorem verify_guards_rho_zero (h : rho = 0) :
    (verify scratch proof transcript rho gens gLen cVec commit).1 = 0 :=
  verify_zero_of_not_guards _ _ _ _ _ _ _ _ (fun g => by unfold Guards at g; omega)

/-- The same for a scalar object (`rho < N`): `rho ≡ 0 (mod n)` is rejected. -/
theorem verify_guards_rho_zero_mod (hlt : rho < N) (h : rho % N = 0) :
    (verify scratch proof transcript rho gens gLen cVec commit).1 = 0 :=
  verify_guards_rho_zero _ _ _ _ _ _ _ _ (by rwa [Nat.mod_eq_of_lt hlt] at h)

/-- **Final scalar `n` out of range**: if the 32 bytes at offset `65 * n_rounds` encode a value `≥ N`, the
proof is rejected. -/
theorem verify_guards_scalar_n (h : N ≤ Bytes.toNat (finalNBytes proof (nRounds gLen cVec.length))) :
    (verify scratch proof transcript rho gens gLen cVec commit).1 = 0 :=
  verify_zero_of_not_guards _ _ _ _ _ _ _ _ (fun g => by unfold Guards at g; omega)

/-- **Final scalar `l` out of range**: likewise for the 32 bytes at offset `65 * n_rounds + 32`. -/
theorem verify_guards_scalar_l (h : N ≤ Bytes.toNat (finalLBytes proof (nRounds gLen cVec.length))) :
    (verify scratch proof transcript rho gens gLen cVec commit).1 = 0 :=
  verify_zero_of_not_guards _ _ _ _ _ _ _ _ (fun g => by unfold Guards at g; omega)

/-- **Insufficient scratch space fails closed**: if the four aligned allocations (gammas, `s_g`, `s_h`,
`rho_inv_pows`) do not fit into the space left, `verify` returns 0 and the scratch space is unchanged. -/
theorem verify_guards_scratch (h : scratch.maxSize - scratch.allocSize < scratchNeed gLen cVec.length) :
    verify scratch proof transcript rho gens gLen cVec commit = (0, scratch) := by
  rw [verify_eq, if_neg (fun g => by unfold Guards at g; omega)]

/-- **Unparsable point pair**: if for some round `i < n_rounds` one of the two points in the 65-byte chunk
`proof[65 i ..]` does not parse (`idx = 0`: `X_i`, `idx = 1`: `R_i`), `verify` returns 0. -/
theorem verify_guards_point (i : Nat) (hi : i < nRounds gLen cVec.length) (idx : Nat) (hidx : idx = 0 ∨ idx = 1)
    (hbad : parseOneOfPoints ((proof.drop (65 * i)).take 65) idx = none) :
    (verify scratch proof transcript rho gens gLen cVec commit).1 = 0 := by
  rw [verify_eq]
  simp only []
  split
  · rw [verifyEquation_none_of_bad_point _ _ _ _ _ _ _ _ _ _ _ i hi idx hidx hbad]
  · rfl

/-- **Sign byte above 3**: if the first byte of some round's 65-byte chunk is `> 3`, `verify` returns 0. -/
theorem verify_guards_sign_byte (i : Nat) (hi : i < nRounds gLen cVec.length)
    (hbad : ((proof.drop (65 * i)).take 65).headD 0 > 3) :
    (verify scratch proof transcript rho gens gLen cVec commit).1 = 0 :=
  verify_guards_point _ _ _ _ _ _ _ _ i hi 0 (Or.inl rfl) (points_parse _ _ hbad)

/-- **`verify_guards`, all clauses in one statement**: if the proof length is not exactly
`65 n_rounds + 64`, or `g_len` / `c_vec_len` is not a power of two, or the generator count is not
`g_len + c_vec_len`, or `rho = 0`, or a final scalar is `≥ N`, or the scratch space is too small, or some
point pair does not parse, then `verify` returns 0 and leaves the scratch space as it was. -/
theorem verify_guards
    (h : proof.length ≠ 65 * nRounds gLen cVec.length + 64 ∨ (¬ ∃ k, gLen = 2 ^ k) ∨
      (¬ ∃ k, cVec.length = 2 ^ k) ∨ gens.length ≠ gLen + cVec.length ∨ rho = 0 ∨
      N ≤ Bytes.toNat (finalNBytes proof (nRounds gLen cVec.length)) ∨
      N ≤ Bytes.toNat (finalLBytes proof (nRounds gLen cVec.length)) ∨
      scratch.maxSize - scratch.allocSize < scratchNeed gLen cVec.length ∨
      ∃ i idx, i < nRounds gLen cVec.length ∧ (idx = 0 ∨ idx = 1) ∧
        parseOneOfPoints ((proof.drop (65 * i)).take 65) idx = none) :
    verify scratch proof transcript rho gens gLen cVec commit = (0, scratch) := by
  apply Prod.ext
  · rcases h with h | h | h | h | h | h | h | h | ⟨i, idx, hi, hidx, hbad⟩
    · exact verify_guards_len _ _ _ _ _ _ _ _ h
    · exact verify_guards_pow2_g _ _ _ _ _ _ _ _ h
    · exact verify_guards_pow2_c _ _ _ _ _ _ _ _ h
    · exact verify_guards_gens_count _ _ _ _ _ _ _ _ h
    · exact verify_guards_rho_zero _ _ _ _ _ _ _ _ h
    · exact verify_guards_scalar_n _ _ _ _ _ _ _ _ h
    · exact verify_guards_scalar_l _ _ _ _ _ _ _ _ h
    · rw [verify_guards_scratch _ _ _ _ _ _ _ _ h]
    · exact verify_guards_point _ _ _ _ _ _ _ _ i hi idx hidx hbad
  · exact verify_scratch_restored _ _ _ _ _ _ _ _

/-- **`verify_iff_spec`: exact acceptance condition.** `verify` returns 1 if and only if all guards pass
(non-empty power-of-two sizes, `g_vec->n = g_len + h_len`, `proof_len = 65 n_rounds + 64`, final scalars
`< N`, `rho ≠ 0`, enough scratch space) and the two multi-exponentiations of `verifyEquation` both
succeed (all `2 n_rounds` points parse) and give the same point:
`commit + Σ γ_i X_i + (γ_i² - 1) R_i  =  v G + Σ s_g[i] G_i + Σ s_h[i] H_i`. -/
theorem verify_iff_spec :
    (verify scratch proof transcript rho gens gLen cVec commit).1 = 1 ↔
      Guards scratch proof rho gens gLen cVec ∧
      ∃ res : Pt, verifyEquation proof transcript rho gens gLen cVec commit (nRounds gLen cVec.length)
        (log2 gLen) (Sc.setB32 (finalNBytes proof (nRounds gLen cVec.length))).1
        (Sc.setB32 (finalLBytes proof (nRounds gLen cVec.length))).1 = some (res, res) := by
  rw [verify_eq]
  simp only []
  constructor
  · intro h
    split at h
    · rename_i hg
      refine ⟨hg, ?_⟩
      split at h
      · exact absurd h (by decide)
      · rename_i r1 r2 heq
        split at h
        · rename_i he; subst he; exact ⟨r1, heq⟩
        · exact absurd h (by decide)
    · exact absurd h (by decide)
  · rintro ⟨hg, res, he⟩
    rw [if_pos hg, he]
    simp

end Guards

/-! non-vacuity of the guard theorems: concrete rejected inputs (`g_len = h_len = 1`, so `n_rounds = 0`
and no hashing is involved) and a concrete accepted proof -/

example : nRounds 1 1 = 0 ∧ nRounds 4 2 = 2 ∧ nRounds 2 8 = 3 := by decide
-- wrong length (one trailing byte)
example : (verify ⟨1000, 0⟩ (Bytes.zeros 65) Sha256.init 1 [Pt.G, Pt.G] 1 [1] Pt.G).1 = 0 :=
  verify_guards_len _ _ _ _ _ _ _ _ (by decide)
-- g_len = 3
example : (verify ⟨1000, 0⟩ (Bytes.zeros 129) Sha256.init 1 [Pt.G, Pt.G, Pt.G, Pt.G] 3 [1] Pt.G).1 = 0 :=
  verify_guards_pow2_g _ _ _ _ _ _ _ _ (by
    rintro ⟨k, hk⟩
    match k, hk with
    | 0, hk => omega
    | 1, hk => omega
    | k + 2, hk => rw [pow_add] at hk; have := Nat.one_le_two_pow (n := k); omega)
-- three generators for g_len = h_len = 1
example : (verify ⟨1000, 0⟩ (Bytes.zeros 64) Sha256.init 1 [Pt.G, Pt.G, Pt.G] 1 [1] Pt.G).1 = 0 :=
  verify_guards_gens_count _ _ _ _ _ _ _ _ (by decide)
example : (verify ⟨1000, 0⟩ (Bytes.zeros 64) Sha256.init 0 [Pt.G, Pt.G] 1 [1] Pt.G).1 = 0 :=
  verify_guards_rho_zero _ _ _ _ _ _ _ _ rfl
-- final scalar n = N
example : (verify ⟨1000, 0⟩ (Bytes.be32 N ++ Bytes.zeros 32) Sha256.init 1 [Pt.G, Pt.G] 1 [1] Pt.G).1 = 0 :=
  verify_guards_scalar_n _ _ _ _ _ _ _ _ (by decide +kernel)
example : (verify ⟨1000, 0⟩ (Bytes.zeros 32 ++ Bytes.be32 N) Sha256.init 1 [Pt.G, Pt.G] 1 [1] Pt.G).1 = 0 :=
  verify_guards_scalar_l _ _ _ _ _ _ _ _ (by decide +kernel)
-- scratch: 0 + 32 + 32 + 0 bytes are needed, 63 are available
example : scratchNeed 1 1 = 64 := by decide
example : verify ⟨63, 0⟩ (Bytes.zeros 64) Sha256.init 1 [Pt.G, Pt.G] 1 [1] Pt.G = (0, ⟨63, 0⟩) :=
  verify_guards_scratch _ _ _ _ _ _ _ _ (by decide)
-- sign byte 4 in round 0 (g_len = 2)
example : (verify ⟨1000, 0⟩ (4 :: Bytes.zeros 128) Sha256.init 1 [Pt.G, Pt.G, Pt.G] 2 [1] Pt.G).1 = 0 :=
  verify_guards_sign_byte _ _ _ _ _ _ _ _ 0 (by decide) (by decide)
-- an accepted proof: g_len = h_len = 1, n = 2, l = 3, rho = 1, c = [5]:
-- commit = (n² rho² + c l) G + n G + l G = 24 G
example : (verify ⟨64, 0⟩ (Bytes.be32 2 ++ Bytes.be32 3) Sha256.init 1 [Pt.G, Pt.G] 1 [5] (Pt.mulG 24)).1 = 1 := by
  decide +kernel
example : (verify ⟨64, 0⟩ (Bytes.be32 2 ++ Bytes.be32 3) Sha256.init 1 [Pt.G, Pt.G] 1 [5] (Pt.mulG 25)).1 = 0 := by
  decide +kernel

/-! ### 2. generator lists are a prefix-consistent function of their length -/

/-- **`gens_length`**: `secp256k1_bppp_generators_create(n)`, when it returns, returns exactly `n`
generators. -/
theorem gens_length (n : Nat) (l : List Pt) (h : gensCreate n = some l) : l.length = n := by
  have := gensLoop_length _ _ _ _ h
  simpa [gensCreate] using this

/-- **`gens_prefix`: deterministic prefix consistency.** If the list of `n + k` generators is created
(`= some l`; the only alternative is the `CHECK` abort of the C code), then creating `n` generators succeeds
too and gives exactly the first `n` entries of `l`. -/
theorem gens_prefix (n k : Nat) (l : List Pt) (h : gensCreate (n + k) = some l) :
    gensCreate n = some (l.take n) := by
  have := gensLoop_prefix n k _ _ _ h
  simpa [gensCreate] using this

/-- non-vacuity: the one-element list exists (kernel evaluation of the RFC6979 stream and the
hash-to-curve map), so `gens_prefix 0 1` and `gens_length 1` apply to it -/
example : (gensCreate 1).isSome = true := by decide +kernel
example : gensCreate 0 = some [] := rfl

/-- consequence: two created lists agree on their common prefix, entry by entry -/
theorem gens_prefix_getElem (n m : Nat) (l l' : List Pt) (hnm : n ≤ m) (h : gensCreate n = some l)
    (h' : gensCreate m = some l') (i : Nat) (hi : i < n) : l[i]? = l'[i]? := by
  obtain ⟨k, rfl⟩ := Nat.exists_eq_add_of_le hnm
  have := gens_prefix n k l' h'
  rw [h] at this
  rw [Option.some.inj this, List.getElem?_take_of_lt hi]

/-! ### 3. one prover round preserves the committed relation

Scalars live in the field `ZMod N`; points live in `TPt`, the `ZMod N`-module of valid points of order
dividing `N` (`Proofs/Bppp.lean`; `ofT : TPt → Pt` is the underlying point, `GT` the generator `G`).
The group law is the PROVED one (`groupLaw`), installed here once and for all. -/

open _root_.SecpZkp.Algebra Finset

local instance instGL : HasGroupLaw := ⟨groupLaw⟩

/-- **`fold_step`, the algebra (any challenge `γ`, any module over a commutative ring).**
Let `n, l, c` be scalar vectors of lengths `2 mg`, `2 mh`, `2 mh`, `G, H` generator vectors, `B` the base
point, `ρ ρ⁻¹ = 1`, `μ = ρ²`.  With the folded data
`n'_j = ρ⁻¹ n_{2j} + γ n_{2j+1}`, `G'_j = ρ G_{2j} + γ G_{2j+1}`, `l'_j = l_{2j} + γ l_{2j+1}`,
`c'_j = c_{2j} + γ c_{2j+1}`, `H'_j = γ H_{2j+1} + H_{2j}`, `μ' = μ²` and the prover's two points
`X = x_v B + Σ_even ρ n_{i+1} G_i + Σ_odd ρ⁻¹ n_{i-1} G_i + Σ_even l_{i+1} H_i + Σ_odd l_{i-1} H_i`,
`R = r_v B + Σ n_{2j+1} G_{2j+1} + Σ l_{2j+1} H_{2j+1}`
(`x_v = 2 ρ⁻¹ ⟨n_even, n_odd⟩_{μ'} + ⟨c_even, l_odd⟩ + ⟨c_odd, l_even⟩`, `r_v = |n_odd|²_{μ'} + ⟨c_odd, l_odd⟩`):
`v' B + ⟨n', G'⟩ + ⟨l', H'⟩ = (v B + ⟨n, G⟩ + ⟨l, H⟩) + γ X + (γ² - 1) R`
with `v = |n|²_μ + ⟨c, l⟩` and `v' = |n'|²_{μ'} + ⟨c', l'⟩`. -/
theorem fold_step_algebra {R M : Type*} [CommRing R] [AddCommGroup M] [Module R M]
    (n l c : ℕ → R) (G H : ℕ → M) (B : M) (rho rhoInv mu gamma : R) (mg mh : ℕ)
    (hr : rhoInv * rho = 1) (hmu : mu = rho ^ 2) :
    (∑ j ∈ range mg, (n (2 * j) * rhoInv + n (2 * j + 1) * gamma) * (n (2 * j) * rhoInv + n (2 * j + 1) * gamma)
        * (mu ^ 2) ^ (j + 1) +
      ∑ j ∈ range mh, (c (2 * j) + c (2 * j + 1) * gamma) * (l (2 * j) + l (2 * j + 1) * gamma)) • B +
    ∑ j ∈ range mg, (n (2 * j) * rhoInv + n (2 * j + 1) * gamma) • (rho • G (2 * j) + gamma • G (2 * j + 1)) +
    ∑ j ∈ range mh, (l (2 * j) + l (2 * j + 1) * gamma) • (gamma • H (2 * j + 1) + H (2 * j)) =
    ((∑ i ∈ range (2 * mg), n i * n i * mu ^ (i + 1) + ∑ i ∈ range (2 * mh), c i * l i) • B +
      ∑ i ∈ range (2 * mg), n i • G i + ∑ i ∈ range (2 * mh), l i • H i) +
    gamma • (((∑ j ∈ range mg, n (2 * j) * n (2 * j + 1) * (mu ^ 2) ^ (j + 1)) * rhoInv +
              (∑ j ∈ range mg, n (2 * j) * n (2 * j + 1) * (mu ^ 2) ^ (j + 1)) * rhoInv +
              (∑ j ∈ range mh, c (2 * j) * l (2 * j + 1) + ∑ j ∈ range mh, c (2 * j + 1) * l (2 * j))) • B +
            ∑ i ∈ range (2 * mg), (if i % 2 = 0 then n (i + 1) * rho else n (i - 1) * rhoInv) • G i +
            ∑ i ∈ range (2 * mh), (if i % 2 = 0 then l (i + 1) else l (i - 1)) • H i) +
    (gamma ^ 2 - 1) • ((∑ j ∈ range mg, n (2 * j + 1) * n (2 * j + 1) * (mu ^ 2) ^ (j + 1) +
              ∑ j ∈ range mh, c (2 * j + 1) * l (2 * j + 1)) • B +
            ∑ j ∈ range mg, n (2 * j + 1) • G (2 * j + 1) + ∑ j ∈ range mh, l (2 * j + 1) • H (2 * j + 1)) := by
  rw [fold_G_identity n G rho rhoInv gamma hr mg, fold_H_identity l H gamma mh,
    fold_dot_identity c l gamma mh, fold_norm_identity n rho rhoInv mu gamma hr hmu mg]
  module

/-- non-vacuity / sanity: one fold over `ℤ`-modules is not available (`ρ` must be invertible), so instantiate
in `ZMod N` with `ρ = 2`, `ρ⁻¹ = 2⁻¹`, all vectors of length 2, `M = ZMod N` -/
example (n l c G H : ℕ → ZMod N) (B γ : ZMod N) :=
  fold_step_algebra n l c G H B (2 : ZMod N) (2 : ZMod N)⁻¹ ((2 : ZMod N) ^ 2) γ 1 1
    (inv_mul_cancel₀ (by
      have h : ((2 : ℕ) : ZMod N) ≠ 0 := by rw [Ne, cast_eq_zero (by decide)]; decide
      simpa using h)) rfl

/-- **`fold_step`, the model.** For every well-formed prover state `st` (`WF`: effective lengths `2^a`,
`2^b`, buffers large enough, generators valid and of order dividing `N`, scalars reduced, `rho_f ≠ 0`,
`mu_f = rho_f²`) and every commitment `C = v G + ⟨n, G_vec⟩ + ⟨l, H_vec⟩`, `v = |n|²_μ + ⟨c, l⟩`
(`comT`, where `μ = mu_f` as long as `n` is longer than one entry): `proveRound` succeeds, appends the
65-byte serialization of two points `X`, `R` to the proof and absorbs it into the transcript, leaves a
well-formed state with halved lengths, and for the challenge `γ` it derives (an opaque function of the
transcript) the new state describes the commitment `C + γ X + (γ² - 1) R`, with `μ' = μ²`. -/
theorem fold_step (G : Nat) (st : ProveState) (a b : Nat) (hwf : WF G st a b) (C : TPt) (mu : ZMod N)
    (hmu : 0 < a → mu = (st.muF : ZMod N)) (hC : C = comT G st mu) :
    ∃ (X R : TPt) (st' : ProveState), proveRound G st = some st' ∧
      st'.proof = st.proof ++ serializePoints (ofT X) (ofT R) ∧
      st'.transcript = Sha256.write st.transcript (serializePoints (ofT X) (ofT R)) ∧
      WF G st' (a - 1) (b - 1) ∧
      C + (gammaOf st.transcript X R : ZMod N) • X + ((gammaOf st.transcript X R : ZMod N) ^ 2 - 1) • R =
        comT G st' (if 0 < a then mu ^ 2 else mu) := by
  obtain ⟨X, R, st', h1, h2, h3, _, h4, h5, _⟩ := proveRound_spec G st a b hwf
  exact ⟨X, R, st', h1, h3, h2, h4, by rw [hC, h5 mu hmu]⟩

/-- what `comT` says, spelled out: `v G + ⟨n, G_vec⟩ + ⟨l, H_vec⟩` with `v = |n|²_μ + ⟨c, l⟩` -/
theorem comT_def (G : Nat) (st : ProveState) (mu : ZMod N) :
    comT G st mu =
      (∑ i ∈ range (eL st.gLen), sv st.n i * sv st.n i * mu ^ (i + 1) +
        ∑ i ∈ range (eL st.hLen), sv st.c i * sv st.l i) • GT +
      ∑ i ∈ range (eL st.gLen), sv st.n i • pv st.g (0 + i) +
      ∑ i ∈ range (eL st.hLen), sv st.l i • pv st.g (G + i) := rfl

/-- non-vacuity: a concrete well-formed state with `g_len = 2`, `h_len = 1` (so `a = 1`, `b = 0`) -/
example : WF 2 { transcript := Sha256.init, g := [Pt.G, Pt.mulG 2, Pt.mulG 3], n := [5, 6], l := [7], c := [8],
                 gLen := 2, hLen := 1, rhoF := 3, muF := 9, proof := [] } 1 0 := by
  refine ⟨rfl, rfl, by decide, by decide, by decide, by decide, by decide, ?_, ?_, ?_, by decide, by decide,
    ?_, ?_⟩
  · apply getD_of_mem_good
    intro p hp
    simp only [List.mem_cons, List.not_mem_nil, or_false] at hp
    rcases hp with rfl | rfl | rfl
    · exact good_G
    · exact good_mulG (lt_mulBound_of_lt_N (by decide))
    · exact good_mulG (lt_mulBound_of_lt_N (by decide))
  · exact getD_of_mem_lt (by decide)
  · exact getD_of_mem_lt (by decide)
  · show ((3 : ℕ) : ZMod N) ≠ 0
    rw [Ne, cast_eq_zero (by decide)]; decide
  · show ((9 : ℕ) : ZMod N) = ((3 : ℕ) : ZMod N) ^ 2
    norm_num

/-! ### 4. completeness -/

/-- **`norm_arg_complete_partial`** (generators: arbitrary valid points, with the order hypothesis made
explicit since cofactor 1 is not proved in this development).
For all power-of-two lengths `2^a`, `2^b`, all reduced scalar vectors `n`, `l` (and any `c`), all
transcripts, every `ρ` with `0 < ρ < N`, all generator lists of `2^a + 2^b` valid points of order dividing
`N`, and every scratch space that is large enough: `secp256k1_bppp_rangeproof_norm_product_prove` returns 1
with a proof of exactly `65 max(a,b) + 64` bytes, `secp256k1_bppp_commit` (with `μ = ρ²`) returns 1, and
`secp256k1_bppp_rangeproof_norm_product_verify` accepts that proof for that commitment (and returns the
scratch space unchanged). -/
theorem norm_arg_complete_partial (scratch : Scratch) (transcript : Sha256.State) (rho : Nat)
    (gVec : List Pt) (nVec lVec cVec : List Nat) (a b : Nat)
    (hn : nVec.length = 2 ^ a) (hl : lVec.length = 2 ^ b) (hc : cVec.length = lVec.length)
    (hg : gVec.length = nVec.length + lVec.length)
    (hvalid : ∀ p ∈ gVec, p.valid = true) (hord : ∀ p ∈ gVec, Pt.mul N p = .inf)
    (hnlt : ∀ x ∈ nVec, x < N) (hllt : ∀ x ∈ lVec, x < N) (hrho : rho ≠ 0) (hrlt : rho < N)
    (hscr : scratchNeed nVec.length cVec.length ≤ scratch.maxSize - scratch.allocSize) :
    ∃ proof t', prove transcript rho gVec nVec lVec cVec = (1, proof, t') ∧
      proof.length = 65 * max a b + 64 ∧
      (commit gVec nVec lVec cVec (scSqr rho)).1 = 1 ∧
      verify scratch proof transcript rho gVec nVec.length cVec (commit gVec nVec lVec cVec (scSqr rho)).2
        = (1, scratch) :=
  prove_verify scratch transcript rho gVec nVec lVec cVec a b hn hl hc hg
    (fun p hp => ⟨hvalid p hp, hord p hp⟩) hnlt hllt hrho hrlt hscr

/-- **`norm_arg_complete`**: the same with no hypothesis on the order of the generators, for generator
lists of the form `d_i G` (every point of the cyclic group generated by `G`). -/
theorem norm_arg_complete (scratch : Scratch) (transcript : Sha256.State) (rho : Nat)
    (ds : List Nat) (nVec lVec cVec : List Nat) (a b : Nat)
    (hn : nVec.length = 2 ^ a) (hl : lVec.length = 2 ^ b) (hc : cVec.length = lVec.length)
    (hg : ds.length = nVec.length + lVec.length) (hds : ∀ d ∈ ds, d < N)
    (hnlt : ∀ x ∈ nVec, x < N) (hllt : ∀ x ∈ lVec, x < N) (hrho : rho ≠ 0) (hrlt : rho < N)
    (hscr : scratchNeed nVec.length cVec.length ≤ scratch.maxSize - scratch.allocSize) :
    ∃ proof t', prove transcript rho (ds.map Pt.mulG) nVec lVec cVec = (1, proof, t') ∧
      proof.length = 65 * max a b + 64 ∧
      (commit (ds.map Pt.mulG) nVec lVec cVec (scSqr rho)).1 = 1 ∧
      verify scratch proof transcript rho (ds.map Pt.mulG) nVec.length cVec
        (commit (ds.map Pt.mulG) nVec lVec cVec (scSqr rho)).2 = (1, scratch) :=
  prove_verify scratch transcript rho (ds.map Pt.mulG) nVec lVec cVec a b hn hl hc
    (by rw [List.length_map]; exact hg)
    (fun p hp => by
      obtain ⟨d, hd, rfl⟩ := List.mem_map.1 hp
      exact good_mulG (lt_mulBound_of_lt_N (hds d hd)))
    hnlt hllt hrho hrlt hscr

/-- the final-round case (`g_len = h_len = 1`, no rounds, no hashing), as a corollary -/
theorem norm_arg_complete_base (scratch : Scratch) (transcript : Sha256.State) (rho : Nat)
    (d0 d1 n0 l0 c0 : Nat) (hd0 : d0 < N) (hd1 : d1 < N) (hn0 : n0 < N) (hl0 : l0 < N)
    (hrho : rho ≠ 0) (hrlt : rho < N) (hscr : 64 ≤ scratch.maxSize - scratch.allocSize) :
    (prove transcript rho [Pt.mulG d0, Pt.mulG d1] [n0] [l0] [c0]).1 = 1 ∧
    verify scratch (prove transcript rho [Pt.mulG d0, Pt.mulG d1] [n0] [l0] [c0]).2.1 transcript rho
      [Pt.mulG d0, Pt.mulG d1] 1 [c0] (commit [Pt.mulG d0, Pt.mulG d1] [n0] [l0] [c0] (scSqr rho)).2
      = (1, scratch) := by
  obtain ⟨proof, t', h1, _, _, h4⟩ := norm_arg_complete scratch transcript rho [d0, d1] [n0] [l0] [c0] 0 0
    rfl rfl rfl rfl (by simp [hd0, hd1]) (by simp [hn0]) (by simp [hl0]) hrho hrlt
    (by have : scratchNeed 1 1 = 64 := by decide
        simpa [this] using hscr)
  simp only [List.map_cons, List.map_nil, List.length_cons, List.length_nil] at h1 h4
  rw [h1]
  exact ⟨rfl, h4⟩

/-- non-vacuity of the hypotheses of `norm_arg_complete` (lengths 2 and 1, so one round) -/
example : ([5, 6] : List Nat).length = 2 ^ 1 ∧ ([7] : List Nat).length = 2 ^ 0 ∧
    (∀ d ∈ [1, 2, 3], d < N) ∧ (∀ x ∈ [5, 6], x < N) ∧ (3 : Nat) ≠ 0 ∧ 3 < N ∧
    scratchNeed 2 1 ≤ (⟨1000, 0⟩ : Scratch).maxSize - (⟨1000, 0⟩ : Scratch).allocSize := by decide

/-- end-to-end evaluation in the kernel for `g_len = h_len = 1` -/
example : (verify ⟨64, 0⟩ (prove Sha256.init 3 [Pt.G, Pt.mulG 2] [5] [7] [8]).2.1 Sha256.init 3
    [Pt.G, Pt.mulG 2] 1 [8] (commit [Pt.G, Pt.mulG 2] [5] [7] [8] (scSqr 3)).2).1 = 1 := by decide +kernel

/-! ### the hypothesis `ρ ≠ 0` is necessary: the prover does not check it, the verifier does -/

/-- **Counterexample to completeness without `ρ ≠ 0`.** The prover accepts `ρ = 0` and returns 1 ... -/
example : (prove Sha256.init 0 [Pt.G, Pt.mulG 2] [5] [7] [8]).1 = 1 := by decide +kernel

/-- ... but whatever it emitted is rejected by the verifier, for every input. -/
theorem prove_rho_zero_rejected (scratch : Scratch) (transcript : Sha256.State) (gVec : List Pt)
    (nVec lVec cVec : List Nat) (commitment : Pt) :
    (verify scratch (prove transcript 0 gVec nVec lVec cVec).2.1 transcript 0 gVec nVec.length cVec
      commitment).1 = 0 :=
  verify_guards_rho_zero _ _ _ _ _ _ _ _ rfl

end C19
end SecpZkp

