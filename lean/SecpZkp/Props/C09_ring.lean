import SecpZkp.Proofs.BorromeanRange
import SecpZkp.Proofs.GroupLawProved
/-
  C09, the ring-signature part of completeness (used by `Props/C09_complete.lean`): the proof assembly
  `Rangeproof.signCore` (C lines 290-336 of `secp256k1_rangeproof_sign_impl`) hands the Borromean signer consistent
  `(pubs, sec, secidx)`, hence the ring signature it embeds in the proof verifies against the key array that
  `secp256k1_rangeproof_pub_expand` derives from the digit commitments written into the proof.
  The theorem keeps its historical name `rangeproof_ring_complete_partial`: on its own it is only a part of C09; the full
  statement `rangeproof_complete` is in `Props/C09_complete.lean`.
-/
namespace SecpZkp
namespace Rangeproof
open SecpZkp.Algebra

/-- **C09, completeness of the embedded ring signature (partial).**
    Let `genp` be a valid generator, `scale = 10^exp` (`exp < 0` counts as 0), every ring non-empty, one digit `secidx[i]`,
    blinding factor `sec[i] < n` and nonce `k[i] < n` per ring, with `secidx[i] < rsizes[i]`, digit values that do not wrap
    (`digitValue secidx[i] scale i = secidx[i]·scale·4^i`), forged scalars that are non-zero away from the secret
    positions, and let no key of the expanded array be the point at infinity.  If the proof assembly `signCore` succeeds
    with output `bytes`, then
    * the digit loop produced exactly the commitments `sec[i]•G + (secidx[i]·scale·4^i)•genp`,
    * `bytes = hdr ‖ signs ‖ xs ‖ e0 ‖ s_0 ‖ s_1 ‖ …`, and
    * `secp256k1_borromean_verify` accepts `(e0, s)` for the key array `pubExpand(commitments)`, the ring sizes and the
      message hash that the prover used.

    The two non-degeneracy hypotheses are necessary for the same reason as in `Borromean.borromean_complete`: the
    prover checks neither, the verifier rejects a zero scalar or an infinite key at any position. -/
theorem rangeproof_ring_complete_partial
    (hdr : Bytes) (sha : Sha256.State) (exp : Int) (scale : Nat) (rsizes secidx sec k s : List Nat) (genp : Pt)
    (extra : Option Bytes) (bytes : Bytes)
    (hgen : genp.valid = true)
    (hscale : scale = 10 ^ (if exp < 0 then 0 else exp.toNat))
    (hrs : ∀ r ∈ rsizes, 1 ≤ r)
    (hl1 : secidx.length = rsizes.length) (hl2 : sec.length = rsizes.length) (hl3 : k.length = rsizes.length)
    (hls : rsizes.sum ≤ s.length)
    (hring : ∀ i, i < rsizes.length →
      secidx.getD i 0 < rsizes.getD i 0 ∧ sec.getD i 0 < N ∧ k.getD i 0 < N ∧
      digitValue (secidx.getD i 0) scale i = secidx.getD i 0 * scale * 4 ^ i ∧
      ∀ j, j < rsizes.getD i 0 → j ≠ secidx.getD i 0 → s[Borromean.offset rsizes i + j]? ≠ some 0)
    (hnoinf : ∀ p ∈ pubExpand (digitPts scale genp sec secidx 0) exp rsizes genp, p ≠ .inf)
    (h : signCore hdr sha exp scale rsizes secidx sec k s genp extra = some bytes) :
    ∃ (sha1 : Sha256.State) (signs xs e0 : Bytes) (sOut : List Nat),
      digitLoop rsizes.length scale genp sec secidx 0 sha (Bytes.zeros ((rsizes.length + 6) >>> 3)) [] [] =
        some (digitPts scale genp sec secidx 0, sha1, signs, xs) ∧
      bytes = hdr ++ signs ++ xs ++ e0 ++ sOut.flatMap Bytes.be32 ∧
      Borromean.sign s (pubExpand (digitPts scale genp sec secidx 0) exp rsizes genp) k sec rsizes secidx
        (Sha256.finalize (absorbExtra sha1 extra)) = some (e0, sOut) ∧
      (Borromean.verify e0 sOut (pubExpand (digitPts scale genp sec secidx 0) exp rsizes genp) rsizes
        (Sha256.finalize (absorbExtra sha1 extra))).1 = true := by
  have : HasGroupLaw := ⟨groupLaw⟩
  rw [signCore] at h
  simp only [] at h
  split at h
  · simp at h
  next firsts sha1 signs xs hdl =>
  split at h
  · simp at h
  next e0 sOut hsig =>
  simp only [Option.some.injEq] at h
  obtain ⟨_, hfirsts⟩ := digitLoop_spec _ _ _ _ _ _ _ _ _ _ _ _ _ _ hdl
  simp only [List.nil_append] at hfirsts
  subst hfirsts
  refine ⟨sha1, signs, xs, e0, sOut, hdl, h.symm, by cases extra <;> exact hsig, ?_⟩
  have hplen : (pubExpand (digitPts scale genp sec secidx 0) exp rsizes genp).length = rsizes.sum := by
    rw [pubExpand]
    exact pubExpandGo_length _ _ _ (by rw [digitPts_length _ _ _ _ _ (by omega)]; exact hl2) hrs
  have hver := Borromean.borromean_complete_index _ rsizes secidx k sec s _ e0 sOut hl1 hl3 hl2 (by omega) hls hnoinf
    (by
      intro i hi
      obtain ⟨a1, a2, a3, a4, a5⟩ := hring i hi
      refine ⟨a1, a2, a3, ?_, a5⟩
      exact pubExpand_secret_key genp hgen exp scale hscale rsizes secidx sec hrs hl1 hl2
        (fun j hj => (hring j hj).2.1) (fun j hj => (hring j hj).2.2.2.1) i hi a1) hsig
  cases extra <;> exact hver


/-! ### Non-vacuity -/

/-- example instance: generator `2•G`, two rings of sizes 4 and 2 (mantissa 3), digits `1, 1`, blinding factors `5, 7`,
    nonces `9, 13`, forged scalars `3, 4, 6, 8` (zeros at the two secret positions, as `takeNonces` leaves them) -/
def exGen : Pt := Pt.mulG 2
def exHdr : Bytes := [0x40, 2]
def exS : List Nat := [3, 0, 4, 6, 8, 0]

set_option maxRecDepth 100000 in
theorem ex_signCore :
    (signCore exHdr (shaPrefix (Pt.mulG 99) exGen exHdr) 0 1 [4, 2] [1, 1] [5, 7] [9, 13] exS exGen none).isSome = true := by
  decide +kernel
set_option maxRecDepth 100000 in
theorem ex_noinf : ∀ p ∈ pubExpand (digitPts 1 exGen [5, 7] [1, 1] 0) 0 [4, 2] exGen, p ≠ .inf := by decide +kernel
set_option maxRecDepth 100000 in
theorem ex_ring : ∀ i, i < [4, 2].length →
    [1, 1].getD i 0 < [4, 2].getD i 0 ∧ [5, 7].getD i 0 < N ∧ [9, 13].getD i 0 < N ∧
    digitValue ([1, 1].getD i 0) 1 i = [1, 1].getD i 0 * 1 * 4 ^ i ∧
    ∀ j, j < [4, 2].getD i 0 → j ≠ [1, 1].getD i 0 → exS[Borromean.offset [4, 2] i + j]? ≠ some 0 := by decide +kernel

/-- Non-vacuity of `rangeproof_ring_complete_partial`: all hypotheses hold for the example instance, `signCore`
    (evaluated by the kernel) succeeds, hence the embedded ring signature verifies. -/
example : ∃ bytes, signCore exHdr (shaPrefix (Pt.mulG 99) exGen exHdr) 0 1 [4, 2] [1, 1] [5, 7] [9, 13] exS exGen none
      = some bytes ∧
    ∃ (sha1 : Sha256.State) (signs xs e0 : Bytes) (sOut : List Nat),
      bytes = exHdr ++ signs ++ xs ++ e0 ++ sOut.flatMap Bytes.be32 ∧
      (Borromean.verify e0 sOut (pubExpand (digitPts 1 exGen [5, 7] [1, 1] 0) 0 [4, 2] exGen) [4, 2]
        (Sha256.finalize (absorbExtra sha1 none))).1 = true := by
  obtain ⟨bytes, hb⟩ := Option.isSome_iff_exists.mp ex_signCore
  obtain ⟨sha1, signs, xs, e0, sOut, _, h2, _, h3⟩ := rangeproof_ring_complete_partial exHdr _ 0 1 [4, 2] [1, 1] [5, 7]
    [9, 13] exS exGen none bytes (by decide +kernel) (by decide) (by decide) (by decide) (by decide) (by decide)
    (by decide) ex_ring ex_noinf hb
  exact ⟨bytes, hb, sha1, signs, xs, e0, sOut, h2, h3⟩

end Rangeproof
end SecpZkp
