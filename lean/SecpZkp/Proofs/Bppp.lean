import SecpZkp.Model.Bppp
import SecpZkp.Proofs.GroupExtra
import SecpZkp.Proofs.Algebra
import SecpZkp.Proofs.Parsers
import Mathlib.Algebra.Module.ZMod
import Mathlib.Algebra.BigOperators.Group.Finset.Basic
import Mathlib.Tactic.Module
import Mathlib.Algebra.BigOperators.Ring.Finset
/-
  Lemmas about the Bulletproofs++ norm argument model (`Model/Bppp.lean`).

  Part 1 (core only): normal form of `verify` (guards, scratch accounting), `ecmultMulti` failure.
  Part 2: `gensLoop` prefix consistency.
  Part 3: the `ZMod N`-module of valid points of order dividing `N`, sums over index ranges, one folding
          round.
  Part 4: the verifier's `s_g`/`s_h` vectors in closed form and completeness.
-/
namespace SecpZkp
namespace Bppp

/-! ## Part 1: the guards of `verify` -/

/-- `n_rounds = max (log2 g_len) (log2 h_len)` as the C code computes it -/
def nRounds (gLen hLen : Nat) : Nat := if log2 gLen > log2 hLen then log2 gLen else log2 hLen

/-- the bytes of the final scalar `n` -/
def finalNBytes (proof : Bytes) (r : Nat) : Bytes := (proof.drop (r * 65)).take 32
/-- the bytes of the final scalar `l` -/
def finalLBytes (proof : Bytes) (r : Nat) : Bytes := (proof.drop (r * 65 + 32)).take 32

/-- total (aligned) scratch space the verifier allocates: gammas, s_g, s_h, rho_inv_pows -/
def scratchNeed (gLen hLen : Nat) : Nat :=
  roundToAlign (nRounds gLen hLen * scalarSize) + roundToAlign (gLen * scalarSize) +
  roundToAlign (hLen * scalarSize) + roundToAlign (log2 gLen * scalarSize)

/-- All checks `verify` performs before the two multi-exponentiations. -/
def Guards (scratch : Scratch) (proof : Bytes) (rho : Nat) (gens : List Pt) (gLen : Nat) (cVec : List Nat) :
    Prop :=
  gLen ≠ 0 ∧ cVec.length ≠ 0 ∧
  gens.length = cVec.length + gLen ∧
  proof.length = 65 * nRounds gLen cVec.length + 64 ∧
  isPowerOfTwo gLen = true ∧ isPowerOfTwo cVec.length = true ∧
  Bytes.toNat (finalNBytes proof (nRounds gLen cVec.length)) < N ∧
  Bytes.toNat (finalLBytes proof (nRounds gLen cVec.length)) < N ∧
  rho ≠ 0 ∧
  scratchNeed gLen cVec.length ≤ scratch.maxSize - scratch.allocSize

instance (scratch : Scratch) (proof : Bytes) (rho : Nat) (gens : List Pt) (gLen : Nat) (cVec : List Nat) :
    Decidable (Guards scratch proof rho gens gLen cVec) := by unfold Guards; infer_instance

theorem tryAlloc_spec (s : Scratch) (size : Nat) :
    (s.tryAlloc size).1.maxSize = s.maxSize ∧
    ((s.tryAlloc size).2 = true ↔ roundToAlign size ≤ s.maxSize - s.allocSize) ∧
    ((s.tryAlloc size).2 = true → (s.tryAlloc size).1.allocSize = s.allocSize + roundToAlign size) := by
  unfold Scratch.tryAlloc Scratch.alloc
  by_cases h : roundToAlign size > s.maxSize - s.allocSize
  · rw [if_pos h]
    exact ⟨rfl, ⟨fun h' => Bool.noConfusion h', fun h' => by omega⟩, fun h' => Bool.noConfusion h'⟩
  · rw [if_neg h]
    exact ⟨rfl, ⟨fun _ => by omega, fun _ => rfl⟩, fun _ => rfl⟩

/-- The four allocations succeed together iff the sum of the aligned sizes fits into what is left. -/
theorem allocs_ok_iff (s : Scratch) (a b c d : Nat) :
    (((s.tryAlloc a).2 && ((s.tryAlloc a).1.tryAlloc b).2 && (((s.tryAlloc a).1.tryAlloc b).1.tryAlloc c).2 &&
        ((((s.tryAlloc a).1.tryAlloc b).1.tryAlloc c).1.tryAlloc d).2) = true ↔
      roundToAlign a + roundToAlign b + roundToAlign c + roundToAlign d ≤ s.maxSize - s.allocSize) ∧
    ((((s.tryAlloc a).1.tryAlloc b).1.tryAlloc c).1.tryAlloc d).1.maxSize = s.maxSize := by
  obtain ⟨m1, o1, a1⟩ := tryAlloc_spec s a
  generalize s.tryAlloc a = r1 at *
  obtain ⟨m2, o2, a2⟩ := tryAlloc_spec r1.1 b
  generalize r1.1.tryAlloc b = r2 at *
  obtain ⟨m3, o3, a3⟩ := tryAlloc_spec r2.1 c
  generalize r2.1.tryAlloc c = r3 at *
  obtain ⟨m4, o4, a4⟩ := tryAlloc_spec r3.1 d
  generalize r3.1.tryAlloc d = r4 at *
  refine ⟨?_, m4.trans (m3.trans (m2.trans m1))⟩
  simp only [Bool.and_eq_true]
  constructor
  · rintro ⟨⟨⟨h1, h2⟩, h3⟩, h4⟩
    have e1 := a1 h1; have e2 := a2 h2; have e3 := a3 h3
    have := o1.1 h1; have := o2.1 h2; have := o3.1 h3; have := o4.1 h4
    omega
  · intro h
    have h1 : r1.2 = true := o1.2 (by omega)
    have e1 := a1 h1
    have h2 : r2.2 = true := o2.2 (by omega)
    have e2 := a2 h2
    have h3 : r3.2 = true := o3.2 (by omega)
    have e3 := a3 h3
    have h4 : r4.2 = true := o4.2 (by omega)
    exact ⟨⟨⟨h1, h2⟩, h3⟩, h4⟩

/-- **Normal form of `verify`**: the guards, then the comparison of the two multi-exponentiations;
the scratch space is always returned with its allocation pointer restored. -/
theorem verify_eq (scratch : Scratch) (proof : Bytes) (transcript : Sha256.State) (rho : Nat)
    (gens : List Pt) (gLen : Nat) (cVec : List Nat) (commit : Pt) :
    verify scratch proof transcript rho gens gLen cVec commit =
      (if Guards scratch proof rho gens gLen cVec then
        match verifyEquation proof transcript rho gens gLen cVec commit (nRounds gLen cVec.length)
            (log2 gLen) (Sc.setB32 (finalNBytes proof (nRounds gLen cVec.length))).1
            (Sc.setB32 (finalLBytes proof (nRounds gLen cVec.length))).1 with
        | none => 0
        | some (res1, res2) => if res1 = res2 then 1 else 0
      else 0, scratch) := by
  unfold verify
  simp only []
  have hn : (if log2 gLen > log2 cVec.length then log2 gLen else log2 cVec.length)
      = nRounds gLen cVec.length := rfl
  simp only [hn]
  have hal := allocs_ok_iff scratch (nRounds gLen cVec.length * scalarSize) (gLen * scalarSize)
    (cVec.length * scalarSize) (log2 gLen * scalarSize)
  obtain ⟨hok, hmax⟩ := hal
  have hrest : ({ maxSize := (((((scratch.tryAlloc (nRounds gLen cVec.length * scalarSize)).1.tryAlloc
      (gLen * scalarSize)).1.tryAlloc (cVec.length * scalarSize)).1.tryAlloc
      (log2 gLen * scalarSize)).1).maxSize, allocSize := scratch.allocSize } : Scratch) = scratch := by
    rw [hmax]
  by_cases h0 : gLen = 0 ∨ cVec.length = 0
  · rw [if_pos h0, if_neg (fun g : Guards _ _ _ _ _ _ => by unfold Guards at g; omega)]
  rw [if_neg h0]
  by_cases h1 : gens.length ≠ cVec.length + gLen ∨
      proof.length ≠ 65 * nRounds gLen cVec.length + 64
  · rw [if_pos h1, if_neg]
    intro g; unfold Guards at g; omega
  rw [if_neg h1]
  by_cases h2 : (!isPowerOfTwo gLen) = true ∨ (!isPowerOfTwo cVec.length) = true
  · rw [if_pos h2, if_neg]
    intro g; unfold Guards at g
    rcases h2 with h2 | h2
    · rw [g.2.2.2.2.1] at h2; simp at h2
    · rw [g.2.2.2.2.2.1] at h2; simp at h2
  rw [if_neg h2]
  change (if (Sc.setB32 (finalNBytes proof (nRounds gLen cVec.length))).2 = true then _ else _) = _
  by_cases h3 : (Sc.setB32 (finalNBytes proof (nRounds gLen cVec.length))).2 = true
  · rw [if_pos h3, if_neg]
    intro g; unfold Guards at g
    simp only [Sc.setB32, decide_eq_true_eq] at h3; omega
  rw [if_neg h3]
  change (if (Sc.setB32 (finalLBytes proof (nRounds gLen cVec.length))).2 = true then _ else _) = _
  by_cases h4 : (Sc.setB32 (finalLBytes proof (nRounds gLen cVec.length))).2 = true
  · rw [if_pos h4, if_neg]
    intro g; unfold Guards at g
    simp only [Sc.setB32, decide_eq_true_eq] at h4; omega
  rw [if_neg h4]
  by_cases h5 : rho = 0
  · rw [if_pos h5, if_neg]
    intro g; unfold Guards at g; omega
  rw [if_neg h5]
  rw [hrest]
  by_cases h6 : roundToAlign (nRounds gLen cVec.length * scalarSize) + roundToAlign (gLen * scalarSize) +
      roundToAlign (cVec.length * scalarSize) + roundToAlign (log2 gLen * scalarSize)
      ≤ scratch.maxSize - scratch.allocSize
  · have hg : Guards scratch proof rho gens gLen cVec := by
      unfold Guards scratchNeed
      simp only [Sc.setB32, decide_eq_true_eq, Bool.not_eq_true'] at h2 h3 h4
      refine ⟨by omega, by omega, by omega, by omega, ?_, ?_, by omega, by omega, h5, h6⟩
      · cases h : isPowerOfTwo gLen <;> simp_all
      · cases h : isPowerOfTwo cVec.length <;> simp_all
    rw [if_neg (by rw [Bool.not_eq_true', Bool.not_eq_false]; exact hok.2 h6), if_pos hg]
    show (match verifyEquation proof transcript rho gens gLen cVec commit (nRounds gLen cVec.length)
      (log2 gLen) (Sc.setB32 (finalNBytes proof (nRounds gLen cVec.length))).1
      (Sc.setB32 (finalLBytes proof (nRounds gLen cVec.length))).1 with
      | none => (0, scratch)
      | some (res1, res2) => (if res1 = res2 then 1 else 0, scratch)) = _
    cases verifyEquation proof transcript rho gens gLen cVec commit (nRounds gLen cVec.length)
      (log2 gLen) (Sc.setB32 (finalNBytes proof (nRounds gLen cVec.length))).1
      (Sc.setB32 (finalLBytes proof (nRounds gLen cVec.length))).1 with
    | none => rfl
    | some r => rfl
  · rw [if_pos (by
      rw [Bool.not_eq_true']
      cases hb : (_ && _ && _ && _ : Bool) with
      | false => rfl
      | true => exact absurd (hok.1 hb) h6), if_neg]
    intro g; unfold Guards scratchNeed at g; exact h6 g.2.2.2.2.2.2.2.2.2

/-! ### `ecmultMulti`: failure and success -/

/-- the starting value of a multi-exponentiation -/
def emInit : Option Nat → Pt
  | none => .inf
  | some s => Pt.mulG s

/-- one step of a multi-exponentiation -/
def emStep (cb : Nat → Option (Nat × Pt)) (acc : Pt) (i : Nat) : Option Pt := do
  let (sc, pt) ← cb i
  pure (Pt.add acc (Pt.mul sc pt))

theorem ecmultMulti_eq (gsc : Option Nat) (cb : Nat → Option (Nat × Pt)) (n : Nat) :
    ecmultMulti gsc cb n = (List.range n).foldlM (emStep cb) (emInit gsc) := by
  unfold ecmultMulti emInit
  cases gsc <;> rfl

/-- a failing callback makes the multi-exponentiation fail -/
theorem ecmultMulti_none (gsc : Option Nat) (cb : Nat → Option (Nat × Pt)) (n i : Nat) (hi : i < n)
    (h : cb i = none) : ecmultMulti gsc cb n = none := by
  rw [ecmultMulti_eq]
  generalize emInit gsc = init
  induction n with
  | zero => omega
  | succ k ih =>
    rw [List.range_succ, List.foldlM_append]
    by_cases hik : i < k
    · rw [ih hik]; rfl
    · have : i = k := by omega
      subst this
      cases (List.range i).foldlM (emStep cb) init with
      | none => rfl
      | some acc => simp [emStep, h]

/-- if every callback succeeds, the result is `init + Σ sc_i • pt_i` (left to right) -/
theorem ecmultMulti_some (gsc : Option Nat) (cb : Nat → Option (Nat × Pt)) (n : Nat)
    (sc : Nat → Nat) (pt : Nat → Pt) (h : ∀ i, i < n → cb i = some (sc i, pt i)) :
    ecmultMulti gsc cb n =
      some ((List.range n).foldl (fun acc i => Pt.add acc (Pt.mul (sc i) (pt i))) (emInit gsc)) := by
  rw [ecmultMulti_eq]
  generalize emInit gsc = init
  induction n with
  | zero => rfl
  | succ k ih =>
    rw [List.range_succ, List.foldlM_append, List.foldl_append, ih (fun i hi => h i (by omega))]
    simp [emStep, h k (by omega)]

/-- `verifyEquation` as two binds -/
theorem verifyEquation_eq (proof : Bytes) (transcript : Sha256.State) (rho : Nat) (gens : List Pt) (gLen : Nat)
    (cVec : List Nat) (commit : Pt) (nRounds logGLen : Nat) (n l : Nat) :
    verifyEquation proof transcript rho gens gLen cVec commit nRounds logGLen n l =
      let gammas := (gammasLoop proof nRounds 0 transcript []).1
      let rhoInv := Sc.inv rho
      let rhoF := sqrTimes rho logGLen
      let sG := sGLoop gammas (powersOfRho rhoInv logGLen) (gLen - 1) 1 [Sc.mul (Sc.mul n rhoF) rhoInv]
      let sH := sHLoop gammas (cVec.length - 1) 1 [l]
      let v := Sc.add (Sc.mul (Sc.mul n n) (scSqr rhoF)) (scalarInnerProduct cVec 0 sH 0 1 cVec.length)
      (ecmultMulti none (verifyCb1 proof commit gammas) (2 * nRounds + 1)).bind fun res1 =>
      (ecmultMulti (some v) (verifyCb2 sG sH gens gLen) (gLen + cVec.length)).bind fun res2 =>
      some (res1, res2) := by
  rfl

/-- an unparsable point pair makes `verifyEquation` fail -/
theorem verifyEquation_none_of_bad_point (proof : Bytes) (transcript : Sha256.State) (rho : Nat)
    (gens : List Pt) (gLen : Nat) (cVec : List Nat) (commit : Pt) (nRounds logGLen : Nat) (n l : Nat)
    (i : Nat) (hi : i < nRounds) (idx : Nat) (hidx : idx = 0 ∨ idx = 1)
    (hbad : parseOneOfPoints ((proof.drop (65 * i)).take 65) idx = none) :
    verifyEquation proof transcript rho gens gLen cVec commit nRounds logGLen n l = none := by
  rw [verifyEquation_eq]
  simp only []
  rw [ecmultMulti_none none _ (2 * nRounds + 1) (2 * i + idx + 1) (by omega)]
  · rfl
  · unfold verifyCb1
    rw [if_neg (by omega)]
    simp only [Nat.add_sub_cancel]
    rcases hidx with h | h <;> subst h
    · rw [if_pos (by omega), show (2 * i + 0) / 2 = i by omega, hbad]
    · rw [if_neg (by omega), show (2 * i + 1) / 2 = i by omega, hbad]

/-! ## Part 2: generator lists -/

theorem gensLoop_length (n : Nat) (rng : Sha256.Rfc6979) (acc l : List Pt)
    (h : gensLoop n rng acc = some l) : l.length = acc.length + n := by
  induction n generalizing rng acc with
  | zero => simp only [gensLoop, Option.some.injEq] at h; subst h; rfl
  | succ k ih =>
    unfold gensLoop at h
    simp only [] at h
    split at h
    · simp at h
    · have := ih _ _ h
      simp only [List.length_append, List.length_cons, List.length_nil] at this
      omega

/-- the loop run for `n + k` steps extends the result of the loop run for `n` steps -/
theorem gensLoop_prefix (n k : Nat) (rng : Sha256.Rfc6979) (acc l : List Pt)
    (h : gensLoop (n + k) rng acc = some l) : gensLoop n rng acc = some (l.take (acc.length + n)) := by
  induction n generalizing rng acc with
  | zero =>
    have hl := gensLoop_length _ _ _ _ h
    simp only [gensLoop, Nat.add_zero, Option.some.injEq]
    -- the accumulator is a prefix of the result
    clear hl
    rw [Nat.zero_add] at h
    induction k generalizing rng acc with
    | zero => simp only [gensLoop, Option.some.injEq] at h; subst h; simp
    | succ j ihj =>
      unfold gensLoop at h
      simp only [] at h
      split at h
      · simp at h
      · have := ihj _ _ h
        simp only [List.length_append, List.length_cons, List.length_nil] at this
        have h2 := congrArg (List.take acc.length) this
        rw [List.take_append_of_le_length (Nat.le_refl _), List.take_take] at h2
        simpa using h2
  | succ m ih =>
    rw [show m + 1 + k = (m + k) + 1 by omega] at h
    unfold gensLoop at h ⊢
    simp only [] at h ⊢
    split
    · rename_i h0; rw [if_pos h0] at h; simp at h
    · rename_i h0; rw [if_neg h0] at h
      have := ih _ _ h
      simp only [List.length_append, List.length_cons, List.length_nil] at this
      rw [this]; congr 2; omega

/-! ## Part 3: algebra -/
open _root_.SecpZkp.Algebra

section Tors
variable [hgl : HasGroupLaw]

/-- valid points killed by `N` -/
def Tors : AddSubgroup VPt := (nsmulAddMonoidHom N : VPt →+ VPt).ker

/-- The group of valid points of order dividing `N`. -/
abbrev TPt := ↥(Tors)

theorem TPt.nsmul_N (x : TPt) : N • x = 0 := by
  apply Subtype.ext
  have := x.2
  simpa [Tors, AddMonoidHom.mem_ker] using this

instance instModuleTPt : Module (ZMod N) TPt := AddCommGroup.zmodModule TPt.nsmul_N

/-- a point the algebra applies to: on the curve and of order dividing `N` -/
def Good (p : Pt) : Prop := p.valid = true ∧ Pt.mul N p = .inf

instance (p : Pt) : Decidable (Good p) := by unfold Good; infer_instance

/-- the underlying point -/
def ofT (x : TPt) : Pt := x.1.1

theorem good_ofT (x : TPt) : Good (ofT x) := by
  refine ⟨x.1.2, ?_⟩
  have h : N • x.1 = 0 := by simpa [Tors, AddMonoidHom.mem_ker] using x.2
  unfold ofT
  rw [mul_eq_nsmul N_lt_mulBound, h]; rfl

/-- a good point as an element of the module (0 for other points) -/
def toT (p : Pt) : TPt :=
  if h : Good p then
    ⟨⟨p, h.1⟩, by
      show (nsmulAddMonoidHom N : VPt →+ VPt) ⟨p, h.1⟩ = 0
      apply Subtype.ext
      show (N • (⟨p, h.1⟩ : VPt)).1 = Pt.inf
      rw [← mul_eq_nsmul N_lt_mulBound]; exact h.2⟩
  else 0

theorem ofT_toT {p : Pt} (h : Good p) : ofT (toT p) = p := by
  unfold toT; rw [dif_pos h]; rfl

theorem toT_ofT (x : TPt) : toT (ofT x) = x := by
  unfold toT; rw [dif_pos (good_ofT x)]; rfl

theorem ofT_injective : Function.Injective ofT := fun a b h => by
  apply Subtype.ext; apply Subtype.ext; exact h

@[simp] theorem ofT_zero : ofT 0 = Pt.inf := rfl
theorem ofT_add (x y : TPt) : ofT (x + y) = Pt.add (ofT x) (ofT y) := rfl

theorem ofT_smul {k : Nat} (hk : k < mulBound) (x : TPt) : Pt.mul k (ofT x) = ofT ((k : ZMod N) • x) := by
  rw [Nat.cast_smul_eq_nsmul]
  unfold ofT
  rw [mul_eq_nsmul hk]
  simp

omit hgl in
theorem good_inf : Good Pt.inf := ⟨rfl, rfl⟩
theorem good_G : Good Pt.G := ⟨gl.valid_G, gl.mul_N_G⟩
theorem good_mulG {k : Nat} (hk : k < mulBound) : Good (Pt.mulG k) := ⟨mulG_valid hk, mul_N_mulG hk⟩
theorem good_add {p q : Pt} (hp : Good p) (hq : Good q) : Good (Pt.add p q) := by
  rw [← ofT_toT hp, ← ofT_toT hq, ← ofT_add]; exact good_ofT _
theorem good_mul {k : Nat} (hk : k < mulBound) {p : Pt} (hp : Good p) : Good (Pt.mul k p) := by
  rw [← ofT_toT hp, ofT_smul hk]; exact good_ofT _

/-- the generator as a module element -/
def GT : TPt := toT Pt.G

theorem mulG_eq_ofT {k : Nat} (hk : k < mulBound) : Pt.mulG k = ofT ((k : ZMod N) • GT) := by
  rw [← ofT_smul hk, GT, ofT_toT good_G]; rfl

end Tors
open Finset

section Sums
variable {R M : Type*} [CommRing R] [AddCommGroup M] [Module R M]

/-- split a sum over `2m` indices into even and odd positions -/
theorem sum_range_even_odd {A : Type*} [AddCommMonoid A] (f : ℕ → A) (m : ℕ) :
    ∑ i ∈ range (2 * m), f i = ∑ j ∈ range m, f (2 * j) + ∑ j ∈ range m, f (2 * j + 1) := by
  induction m with
  | zero => simp
  | succ k ih =>
    rw [show 2 * (k + 1) = 2 * k + 1 + 1 by ring, sum_range_succ, sum_range_succ, ih, sum_range_succ,
      sum_range_succ]
    abel

/-- folding the `n`/`G` halves: `n' = ρ⁻¹ n_even + γ n_odd`, `G' = ρ G_even + γ G_odd` -/
theorem fold_G_identity (n : ℕ → R) (G : ℕ → M) (rho rhoInv gamma : R) (h : rhoInv * rho = 1) (m : ℕ) :
    ∑ j ∈ range m, (n (2 * j) * rhoInv + n (2 * j + 1) * gamma) • (rho • G (2 * j) + gamma • G (2 * j + 1)) =
      ∑ i ∈ range (2 * m), n i • G i +
      gamma • (∑ i ∈ range (2 * m), (if i % 2 = 0 then n (i + 1) * rho else n (i - 1) * rhoInv) • G i) +
      (gamma ^ 2 - 1) • ∑ j ∈ range m, n (2 * j + 1) • G (2 * j + 1) := by
  rw [sum_range_even_odd, sum_range_even_odd]
  simp only [smul_sum, ← sum_add_distrib]
  apply sum_congr rfl
  intro j _
  rw [if_pos (by omega), if_neg (by omega), show 2 * j + 1 - 1 = 2 * j by omega]
  linear_combination (norm := module) (n (2 * j) * h) • G (2 * j)

/-- folding the `l`/`H` halves: `l' = l_even + γ l_odd`, `H' = γ H_odd + H_even` -/
theorem fold_H_identity (l : ℕ → R) (H : ℕ → M) (gamma : R) (m : ℕ) :
    ∑ j ∈ range m, (l (2 * j) + l (2 * j + 1) * gamma) • (gamma • H (2 * j + 1) + H (2 * j)) =
      ∑ i ∈ range (2 * m), l i • H i +
      gamma • (∑ i ∈ range (2 * m), (if i % 2 = 0 then l (i + 1) else l (i - 1)) • H i) +
      (gamma ^ 2 - 1) • ∑ j ∈ range m, l (2 * j + 1) • H (2 * j + 1) := by
  rw [sum_range_even_odd, sum_range_even_odd]
  simp only [smul_sum, ← sum_add_distrib]
  apply sum_congr rfl
  intro j _
  rw [if_pos (by omega), if_neg (by omega), show 2 * j + 1 - 1 = 2 * j by omega]
  module

/-- folding `⟨c, l⟩` -/
theorem fold_dot_identity (c l : ℕ → R) (gamma : R) (m : ℕ) :
    ∑ j ∈ range m, (c (2 * j) + c (2 * j + 1) * gamma) * (l (2 * j) + l (2 * j + 1) * gamma) =
      ∑ i ∈ range (2 * m), c i * l i +
      gamma * (∑ j ∈ range m, c (2 * j) * l (2 * j + 1) + ∑ j ∈ range m, c (2 * j + 1) * l (2 * j)) +
      (gamma ^ 2 - 1) * ∑ j ∈ range m, c (2 * j + 1) * l (2 * j + 1) := by
  rw [sum_range_even_odd]
  simp only [mul_sum, ← sum_add_distrib]
  apply sum_congr rfl
  intro j _
  ring

/-- folding the weighted norm `|n|²_μ` with `μ = ρ²`, `μ' = μ²` -/
theorem fold_norm_identity (n : ℕ → R) (rho rhoInv mu gamma : R) (h : rhoInv * rho = 1) (hmu : mu = rho ^ 2)
    (m : ℕ) :
    ∑ j ∈ range m, (n (2 * j) * rhoInv + n (2 * j + 1) * gamma) * (n (2 * j) * rhoInv + n (2 * j + 1) * gamma)
        * (mu ^ 2) ^ (j + 1) =
      ∑ i ∈ range (2 * m), n i * n i * mu ^ (i + 1) +
      gamma * ((∑ j ∈ range m, n (2 * j) * n (2 * j + 1) * (mu ^ 2) ^ (j + 1)) * rhoInv +
               (∑ j ∈ range m, n (2 * j) * n (2 * j + 1) * (mu ^ 2) ^ (j + 1)) * rhoInv) +
      (gamma ^ 2 - 1) * ∑ j ∈ range m, n (2 * j + 1) * n (2 * j + 1) * (mu ^ 2) ^ (j + 1) := by
  rw [sum_range_even_odd]
  simp only [mul_sum, sum_mul, ← sum_add_distrib]
  apply sum_congr rfl
  intro j _
  have e1 : (mu ^ 2) ^ (j + 1) = mu ^ (2 * j + 1) * mu := by rw [← pow_mul, ← pow_succ]; congr 1
  have e2 : mu ^ (2 * j + 1 + 1) = mu ^ (2 * j + 1) * mu := pow_succ _ _
  rw [e1, e2, hmu]
  generalize (rho ^ 2) ^ (2 * j + 1) = w
  linear_combination (n (2 * j) * n (2 * j) * w * (rhoInv * rho + 1)) * h

/-! ### weights of the fully folded generators -/

/-- `wt [(a_0,b_0), (a_1,b_1), ..] i = Π_k (if bit k of i then b_k else a_k)` -/
def wt : List (R × R) → ℕ → R
  | [], _ => 1
  | c :: rest, i => (if i % 2 = 1 then c.2 else c.1) * wt rest (i / 2)

theorem wt_sum_split (c : R × R) (ch : List (R × R)) (f : ℕ → M) (m : ℕ) :
    ∑ i ∈ range (2 * m), wt (c :: ch) i • f i =
      ∑ j ∈ range m, wt ch j • (c.1 • f (2 * j) + c.2 • f (2 * j + 1)) := by
  rw [sum_range_even_odd, ← sum_add_distrib]
  apply sum_congr rfl
  intro j _
  simp only [wt]
  rw [if_neg (by omega), if_pos (by omega), show 2 * j / 2 = j by omega, show (2 * j + 1) / 2 = j by omega]
  module

/-- clearing the top bit `k` of `i` divides the weight by `b_k` (when all `a_k = 1`) -/
theorem wt_top_bit (ch : List (R × R)) (hone : ∀ c ∈ ch, c.1 = 1) (k i : ℕ) (hk : k < ch.length)
    (hlo : 2 ^ k ≤ i) (hhi : i < 2 ^ (k + 1)) :
    wt ch i = wt ch (i - 2 ^ k) * (ch.getD k (1, 1)).2 := by
  induction ch generalizing k i with
  | nil => simp at hk
  | cons c rest ih =>
    have hc : c.1 = 1 := hone c (by simp)
    cases k with
    | zero =>
      have hi : i = 1 := by simp at hlo hhi; omega
      subst hi
      simp [wt, hc]; ring
    | succ k' =>
      simp only [List.length_cons] at hk
      have h2 : (2 : ℕ) ^ (k' + 1) = 2 * 2 ^ k' := by rw [pow_succ]; ring
      have h3 : (2 : ℕ) ^ (k' + 1 + 1) = 2 * 2 ^ (k' + 1) := by rw [pow_succ]; ring
      simp only [wt, List.getD_cons_succ]
      rw [ih (fun c hc => hone c (by simp [hc])) k' (i / 2) (by omega) (by omega) (by omega)]
      have e1 : (i - 2 ^ (k' + 1)) % 2 = i % 2 := by omega
      have e2 : (i - 2 ^ (k' + 1)) / 2 = i / 2 - 2 ^ k' := by omega
      rw [e1, e2]
      ring

end Sums
open _root_.SecpZkp.Algebra Finset

section Ties

/-- a scalar vector as a function into `ZMod N` (0 outside) -/
def sv (l : List Nat) (i : Nat) : ZMod N := ((l.getD i 0 : Nat) : ZMod N)


theorem cast_sip (a : List Nat) (ao : Nat) (b : List Nat) (bo step len : Nat) :
    ((scalarInnerProduct a ao b bo step len : Nat) : ZMod N) =
      ∑ i ∈ range len, sv a (ao + step * i) * sv b (bo + step * i) := by
  unfold scalarInnerProduct
  induction len with
  | zero => simp
  | succ k ih =>
    rw [List.range_succ, List.foldl_append, sum_range_succ, ← ih]
    simp [sv]

theorem sip_lt (a : List Nat) (ao : Nat) (b : List Nat) (bo step len : Nat) :
    scalarInnerProduct a ao b bo step len < N := by
  unfold scalarInnerProduct
  cases len with
  | zero => exact N_pos
  | succ k => rw [List.range_succ, List.foldl_append]; exact Sc.add_lt _ _

theorem wsip_fold (a : List Nat) (ao : Nat) (b : List Nat) (bo step mu len : Nat) :
    let st := (List.range len).foldl
      (fun (st : Nat × Nat) i =>
        let term := Sc.mul (Sc.mul (a.getD (ao + step * i) 0) (b.getD (bo + step * i) 0)) st.2
        (Sc.add st.1 term, Sc.mul st.2 mu)) (0, mu)
    ((st.1 : Nat) : ZMod N) = ∑ i ∈ range len, sv a (ao + step * i) * sv b (bo + step * i) * (mu : ZMod N) ^ (i + 1) ∧
    ((st.2 : Nat) : ZMod N) = (mu : ZMod N) ^ (len + 1) ∧ st.1 < N := by
  induction len with
  | zero => simp [N_pos]
  | succ k ih =>
    simp only [] at ih ⊢
    rw [List.range_succ, List.foldl_append, sum_range_succ]
    obtain ⟨h1, h2, _⟩ := ih
    refine ⟨?_, ?_, ?_⟩
    · simp only [List.foldl_cons, List.foldl_nil, cast_add, cast_mul, h1, h2, sv]
    · simp only [List.foldl_cons, List.foldl_nil, cast_mul, h2]; ring
    · exact Sc.add_lt _ _

theorem cast_wsip (a : List Nat) (ao : Nat) (b : List Nat) (bo step len mu : Nat) :
    ((weightedScalarInnerProduct a ao b bo step len mu : Nat) : ZMod N) =
      ∑ i ∈ range len, sv a (ao + step * i) * sv b (bo + step * i) * (mu : ZMod N) ^ (i + 1) :=
  (wsip_fold a ao b bo step mu len).1

theorem wsip_lt (a : List Nat) (ao : Nat) (b : List Nat) (bo step len mu : Nat) :
    weightedScalarInnerProduct a ao b bo step len mu < N :=
  (wsip_fold a ao b bo step mu len).2.2

variable [hgl : HasGroupLaw]

/-- a point vector as a function into the module of good points (0 outside) -/
def pv (g : List Pt) (i : Nat) : TPt := toT (g.getD i .inf)

/-- the starting value of a multi-exponentiation, in the module -/
def initT : Option Nat → TPt
  | none => 0
  | some s => (s : ZMod N) • GT

/-- the value of a multi-exponentiation whose points are good and whose scalars are in range -/
theorem ecmultMulti_T (gsc : Option Nat) (cb : Nat → Option (Nat × Pt)) (n : Nat)
    (sc : Nat → Nat) (pt : Nat → TPt) (h : ∀ i, i < n → cb i = some (sc i, ofT (pt i)))
    (hsc : ∀ i, i < n → sc i < mulBound) (hg : ∀ s, gsc = some s → s < mulBound) :
    ecmultMulti gsc cb n =
      some (ofT (initT gsc + ∑ i ∈ range n, (sc i : ZMod N) • pt i)) := by
  rw [ecmultMulti_some gsc cb n sc (fun i => ofT (pt i)) h]
  congr 1
  have hinit : emInit gsc = ofT (initT gsc) := by
    cases gsc with
    | none => rfl
    | some s => exact mulG_eq_ofT (hg s rfl)
  rw [hinit]
  generalize initT gsc = init
  clear hinit hg h
  induction n with
  | zero => simp
  | succ k ih =>
    rw [List.range_succ, List.foldl_append, ih (fun i hi => hsc i (by omega)), sum_range_succ]
    simp only [List.foldl_cons, List.foldl_nil]
    rw [ofT_smul (hsc k (by omega)), ← ofT_add, add_assoc]

end Ties

section InPlace

theorem getD_set {α : Type} (l : List α) (k j : Nat) (x d : α) :
    (l.set k x).getD j d = if k = j ∧ k < l.length then x else l.getD j d := by
  simp only [List.getD_eq_getElem?_getD, List.getElem?_set]
  by_cases h : k = j
  · subst h
    by_cases hk : k < l.length
    · simp [hk]
    · simp [hk]
  · simp [h]

/-- the in-place loop `foldG` computes the folded `n` and `G` halves from the ORIGINAL entries -/
theorem foldG_spec (rhoInv gamma rhoF gLen : Nat) (fuel i : Nat) (n : List Nat) (g : List Pt)
    (hi : i % 2 = 0) (hg : gLen % 2 = 0) (hfuel : gLen ≤ i + 2 * fuel) (hn : gLen ≤ n.length)
    (hgl : gLen ≤ g.length) :
    (foldG rhoInv gamma rhoF gLen fuel i n g).1.length = n.length ∧
    (foldG rhoInv gamma rhoF gLen fuel i n g).2.length = g.length ∧
    (∀ j, (foldG rhoInv gamma rhoF gLen fuel i n g).1.getD j 0 =
      if i / 2 ≤ j ∧ j < gLen / 2 then
        Sc.add (Sc.mul (n.getD (2 * j) 0) rhoInv) (Sc.mul (n.getD (2 * j + 1) 0) gamma)
      else n.getD j 0) ∧
    (∀ j, (foldG rhoInv gamma rhoF gLen fuel i n g).2.getD j .inf =
      if i / 2 ≤ j ∧ j < gLen / 2 then
        Pt.add (Pt.mul rhoF (g.getD (2 * j) .inf)) (Pt.mul gamma (g.getD (2 * j + 1) .inf))
      else g.getD j .inf) := by
  induction fuel generalizing i n g with
  | zero =>
    unfold foldG
    refine ⟨rfl, rfl, fun j => ?_, fun j => ?_⟩ <;> rw [if_neg (by omega)]
  | succ f ih =>
    unfold foldG
    by_cases hlt : i < gLen
    · rw [if_pos hlt]
      simp only []
      obtain ⟨h1, h2, h3, h4⟩ := ih (i + 2) (n.set (i / 2) (Sc.add (Sc.mul (n.getD i 0) rhoInv)
        (Sc.mul (n.getD (i + 1) 0) gamma))) (g.set (i / 2) (Pt.add (Pt.mul rhoF (g.getD i .inf))
        (Pt.mul gamma (g.getD (i + 1) .inf)))) (by omega) (by omega) (by simpa using hn) (by simpa using hgl)
      refine ⟨by simpa using h1, by simpa using h2, fun j => ?_, fun j => ?_⟩
      · rw [h3 j]
        by_cases hj : (i + 2) / 2 ≤ j ∧ j < gLen / 2
        · rw [if_pos hj, if_pos (by omega), getD_set, getD_set, if_neg (by omega), if_neg (by omega)]
        · rw [if_neg hj, getD_set]
          by_cases hj2 : i / 2 = j
          · subst hj2
            rw [if_pos ⟨rfl, by omega⟩, if_pos (by omega), show 2 * (i / 2) = i by omega]
          · rw [if_neg (by omega), if_neg (by omega)]
      · rw [h4 j]
        by_cases hj : (i + 2) / 2 ≤ j ∧ j < gLen / 2
        · rw [if_pos hj, if_pos (by omega), getD_set, getD_set, if_neg (by omega), if_neg (by omega)]
        · rw [if_neg hj, getD_set]
          by_cases hj2 : i / 2 = j
          · subst hj2
            rw [if_pos ⟨rfl, by omega⟩, if_pos (by omega), show 2 * (i / 2) = i by omega]
          · rw [if_neg (by omega), if_neg (by omega)]
    · rw [if_neg hlt]
      refine ⟨rfl, rfl, fun j => ?_, fun j => ?_⟩ <;> rw [if_neg (by omega)]

/-- the in-place loop `foldH` computes the folded `c`, `l` and `H` halves from the ORIGINAL entries; the
generator entries below `G_GENS_LEN` are not touched -/
theorem foldH_spec (gamma G hLen : Nat) (fuel i : Nat) (c l : List Nat) (g : List Pt)
    (hi : i % 2 = 0) (hh : hLen % 2 = 0) (hfuel : hLen ≤ i + 2 * fuel) (hc : hLen ≤ c.length)
    (hl : hLen ≤ l.length) (hgl : G + hLen ≤ g.length) :
    (foldH gamma G hLen fuel i c l g).1.length = c.length ∧
    (foldH gamma G hLen fuel i c l g).2.1.length = l.length ∧
    (foldH gamma G hLen fuel i c l g).2.2.length = g.length ∧
    (∀ j, (foldH gamma G hLen fuel i c l g).1.getD j 0 =
      if i / 2 ≤ j ∧ j < hLen / 2 then Sc.add (c.getD (2 * j) 0) (Sc.mul (c.getD (2 * j + 1) 0) gamma)
      else c.getD j 0) ∧
    (∀ j, (foldH gamma G hLen fuel i c l g).2.1.getD j 0 =
      if i / 2 ≤ j ∧ j < hLen / 2 then Sc.add (l.getD (2 * j) 0) (Sc.mul (l.getD (2 * j + 1) 0) gamma)
      else l.getD j 0) ∧
    (∀ j, (foldH gamma G hLen fuel i c l g).2.2.getD (G + j) .inf =
      if i / 2 ≤ j ∧ j < hLen / 2 then
        Pt.add (Pt.mul gamma (g.getD (G + (2 * j + 1)) .inf)) (g.getD (G + 2 * j) .inf)
      else g.getD (G + j) .inf) ∧
    (∀ j, j < G → (foldH gamma G hLen fuel i c l g).2.2.getD j .inf = g.getD j .inf) := by
  induction fuel generalizing i c l g with
  | zero =>
    unfold foldH
    refine ⟨rfl, rfl, rfl, fun j => ?_, fun j => ?_, fun j => ?_, fun j _ => rfl⟩ <;> rw [if_neg (by omega)]
  | succ f ih =>
    unfold foldH
    by_cases hlt : i < hLen
    · rw [if_pos hlt]
      simp only []
      obtain ⟨h1, h2, h3, h4, h5, h6, h7⟩ := ih (i + 2)
        (c.set (i / 2) (Sc.add (c.getD i 0) (Sc.mul (c.getD (i + 1) 0) gamma)))
        (l.set (i / 2) (Sc.add (l.getD i 0) (Sc.mul (l.getD (i + 1) 0) gamma)))
        (g.set (G + i / 2) (Pt.add (Pt.mul gamma (g.getD (G + i + 1) .inf)) (g.getD (G + i) .inf)))
        (by omega) (by omega) (by simpa using hc) (by simpa using hl) (by simpa using hgl)
      refine ⟨by simpa using h1, by simpa using h2, by simpa using h3, fun j => ?_, fun j => ?_,
        fun j => ?_, fun j hj => ?_⟩
      · rw [h4 j]
        by_cases hj : (i + 2) / 2 ≤ j ∧ j < hLen / 2
        · rw [if_pos hj, if_pos (by omega), getD_set, getD_set, if_neg (by omega), if_neg (by omega)]
        · rw [if_neg hj, getD_set]
          by_cases hj2 : i / 2 = j
          · subst hj2
            rw [if_pos ⟨rfl, by omega⟩, if_pos (by omega), show 2 * (i / 2) = i by omega]
          · rw [if_neg (by omega), if_neg (by omega)]
      · rw [h5 j]
        by_cases hj : (i + 2) / 2 ≤ j ∧ j < hLen / 2
        · rw [if_pos hj, if_pos (by omega), getD_set, getD_set, if_neg (by omega), if_neg (by omega)]
        · rw [if_neg hj, getD_set]
          by_cases hj2 : i / 2 = j
          · subst hj2
            rw [if_pos ⟨rfl, by omega⟩, if_pos (by omega), show 2 * (i / 2) = i by omega]
          · rw [if_neg (by omega), if_neg (by omega)]
      · rw [h6 j]
        by_cases hj : (i + 2) / 2 ≤ j ∧ j < hLen / 2
        · rw [if_pos hj, if_pos (by omega), getD_set, getD_set, if_neg (by omega), if_neg (by omega)]
        · rw [if_neg hj, getD_set]
          by_cases hj2 : i / 2 = j
          · subst hj2
            rw [if_pos ⟨rfl, by omega⟩, if_pos (by omega), show G + (2 * (i / 2) + 1) = G + i + 1 by omega,
              show G + 2 * (i / 2) = G + i by omega]
          · rw [if_neg (by omega), if_neg (by omega)]
      · rw [h7 j hj, getD_set, if_neg (by omega)]
    · rw [if_neg hlt]
      refine ⟨rfl, rfl, rfl, fun j => ?_, fun j => ?_, fun j => ?_, fun j _ => rfl⟩ <;> rw [if_neg (by omega)]

end InPlace
end Bppp
end SecpZkp

