import SecpZkp.Model.Der
import SecpZkp.Proofs.Bytes
/-
  L0 specification of the strict DER encoding of an ECDSA signature (X.690: minimal definite lengths,
  minimal two's-complement integers) written over naturals and byte lists, and the lemmas relating the
  model functions `Der.readLen`, `Der.parseInteger`, `Der.sigParse`, `Der.intBody`, `Der.sigSerialize`
  to it.  Core Lean only.
-/
namespace SecpZkp
namespace DerSpec
open Bytes

/-! ### The specification -/

/-- Minimal big-endian base-256 digits of a natural number: no leading zero byte; empty for 0. -/
def natBytes (x : Nat) : Bytes :=
  if x = 0 then [] else natBytes (x / 256) ++ [UInt8.ofNat (x % 256)]
decreasing_by omega

/-- DER content octets of a non-negative INTEGER: the minimal digits, preceded by one 0x00 byte exactly
    when the leading digit has its top bit set (it would otherwise read as negative); zero is `00`. -/
def derInt (x : Nat) : Bytes :=
  match natBytes x with
  | [] => [0x00]
  | b :: t => if b < 0x80 then b :: t else 0x00 :: b :: t

/-- DER definite length octets, minimal form: short form below 128, otherwise `0x80 | k` followed by the
    `k` minimal digits of `n`. -/
def derLen (n : Nat) : Bytes :=
  if n < 128 then [UInt8.ofNat n] else UInt8.ofNat (0x80 + (natBytes n).length) :: natBytes n

/-- tag, length, content -/
def derTLV (tag : UInt8) (content : Bytes) : Bytes := tag :: (derLen content.length ++ content)

/-- `SEQUENCE { INTEGER, INTEGER }` with the given integer content octets. -/
def derSig (rb sb : Bytes) : Bytes := derTLV 0x30 (derTLV 0x02 rb ++ derTLV 0x02 sb)

/-- Content octets of an INTEGER obeying X.690 8.3.1/8.3.2: at least one octet, and the first nine bits
    are neither all zero nor all one. -/
def MinimalInt : Bytes → Prop
  | [] => False
  | [_] => True
  | a :: b :: _ => ¬(a = 0x00 ∧ b < 0x80) ∧ ¬(a = 0xFF ∧ 0x80 ≤ b)

instance : DecidablePred MinimalInt := fun c =>
  match c with
  | [] => isFalse (fun h => h)
  | [_] => isTrue trivial
  | a :: b :: _ => inferInstanceAs (Decidable (¬(a = 0x00 ∧ b < 0x80) ∧ ¬(a = 0xFF ∧ 0x80 ≤ b)))

/-- The scalar a parser assigns to integer content octets: the value if it is non-negative and below
    the group order, otherwise 0. -/
def clamp : Bytes → Nat
  | [] => 0
  | b :: t => if 0x80 ≤ b then 0 else if toNat (b :: t) < N then toNat (b :: t) else 0

/-- The content octets denote an integer in `[0, N)`. -/
def InRange : Bytes → Prop
  | [] => False
  | b :: t => b < 0x80 ∧ toNat (b :: t) < N

instance : DecidablePred InRange := fun c =>
  match c with
  | [] => isFalse (fun h => h)
  | b :: t => inferInstanceAs (Decidable (b < 0x80 ∧ toNat (b :: t) < N))

/-! ### `natBytes` -/

theorem natBytes_zero : natBytes 0 = [] := by rw [natBytes]; simp

theorem natBytes_pos {x : Nat} (h : x ≠ 0) :
    natBytes x = natBytes (x / 256) ++ [UInt8.ofNat (x % 256)] := by
  rw [natBytes]; simp [h]

theorem toNat_natBytes (x : Nat) : toNat (natBytes x) = x := by
  induction x using Nat.strongRecOn with
  | _ x ih =>
    by_cases h : x = 0
    · subst h; rw [natBytes_zero]; rfl
    · rw [natBytes_pos h, toNat_concat, ih _ (by omega), byte_ofNat_toNat]; omega

/-- no leading zero byte -/
def NoLeadZero (bs : Bytes) : Prop := ∀ b t, bs = b :: t → b ≠ 0

theorem noLeadZero_natBytes (x : Nat) : NoLeadZero (natBytes x) := by
  induction x using Nat.strongRecOn with
  | _ x ih =>
    intro b t hbt
    by_cases h : x = 0
    · subst h; rw [natBytes_zero] at hbt; cases hbt
    · rw [natBytes_pos h] at hbt
      by_cases h2 : x / 256 = 0
      · rw [h2, natBytes_zero] at hbt
        simp only [List.nil_append, List.cons.injEq] at hbt
        rw [← hbt.1, Ne, byte_eq_zero_iff, byte_ofNat_toNat]; omega
      · have := ih (x / 256) (by omega)
        cases hnb : natBytes (x / 256) with
        | nil => have := toNat_natBytes (x / 256); rw [hnb] at this; simp at this; omega
        | cons c u =>
          rw [hnb] at hbt this
          simp only [List.cons_append, List.cons.injEq] at hbt
          rw [← hbt.1]; exact this c u rfl

theorem length_le_of_noLeadZero {bs : Bytes} (h : NoLeadZero bs) {k : Nat} (hk : toNat bs < 256 ^ k) :
    bs.length ≤ k := by
  cases bs with
  | nil => simp
  | cons b t =>
    have h1 := le_toNat_cons (h b t rfl) t
    simp only [List.length_cons]
    apply Classical.byContradiction; intro hc
    have : 256 ^ k ≤ 256 ^ t.length := Nat.pow_le_pow_right (by decide) (by omega)
    omega

/-- Two strings without leading zero and with the same value are equal. -/
theorem noLeadZero_unique {bs cs : Bytes} (hb : NoLeadZero bs) (hc : NoLeadZero cs)
    (h : toNat bs = toNat cs) : bs = cs := by
  have h1 : bs.length ≤ cs.length := length_le_of_noLeadZero hb (h ▸ toNat_lt cs)
  have h2 : cs.length ≤ bs.length := length_le_of_noLeadZero hc (h ▸ toNat_lt bs)
  have hl : bs.length = cs.length := by omega
  rw [← ofNat_toNat bs rfl, ← ofNat_toNat cs rfl, h, hl]

theorem natBytes_toNat {bs : Bytes} (h : NoLeadZero bs) : natBytes (toNat bs) = bs :=
  noLeadZero_unique (noLeadZero_natBytes _) h (toNat_natBytes _)

theorem natBytes_length_le {x k : Nat} (h : x < 256 ^ k) : (natBytes x).length ≤ k :=
  length_le_of_noLeadZero (noLeadZero_natBytes x) (by rwa [toNat_natBytes])

theorem natBytes_eq_nil_iff {x : Nat} : natBytes x = [] ↔ x = 0 := by
  constructor
  · intro h; have := toNat_natBytes x; rw [h] at this; simpa using this.symm
  · rintro rfl; exact natBytes_zero

/-- A fixed-width encoding is the minimal digits left-padded with zeros. -/
theorem ofNat_eq_replicate_append {len x : Nat} (h : x < 256 ^ len) :
    ofNat len x = List.replicate (len - (natBytes x).length) 0 ++ natBytes x := by
  have hl := natBytes_length_le h
  have : toNat (List.replicate (len - (natBytes x).length) (0 : UInt8) ++ natBytes x) = x := by
    rw [toNat_append, toNat_replicate_zero, toNat_natBytes]; simp
  rw [← ofNat_toNat (len := len) (List.replicate (len - (natBytes x).length) (0 : UInt8) ++ natBytes x)
    (by simp; omega), this]


/-! ### `derInt` and the model's `intBody` -/

theorem derInt_zero : derInt 0 = [0x00] := by simp [derInt, natBytes_zero]

theorem derInt_of_natBytes {x : Nat} {b : UInt8} {t : Bytes} (h : natBytes x = b :: t) :
    derInt x = if b < 0x80 then b :: t else 0x00 :: b :: t := by
  simp [derInt, h]

theorem toNat_derInt (x : Nat) : toNat (derInt x) = x := by
  cases h : natBytes x with
  | nil => rw [natBytes_eq_nil_iff.1 h, derInt_zero]; rfl
  | cons b t =>
    rw [derInt_of_natBytes h]
    split
    · rw [← h, toNat_natBytes]
    · rw [toNat_zero_cons, ← h, toNat_natBytes]

theorem derInt_ne_nil (x : Nat) : derInt x ≠ [] := by
  unfold derInt; split
  · simp
  · split <;> simp

theorem derInt_length_le {x k : Nat} (h : x < 256 ^ k) : (derInt x).length ≤ k + 1 := by
  have := natBytes_length_le h
  unfold derInt; split
  · simp
  · rename_i b t hb; rw [hb] at this; simp at this; split <;> simp <;> omega

theorem derInt_length_pos (x : Nat) : 0 < (derInt x).length :=
  List.length_pos_iff.2 (derInt_ne_nil x)

/-- the first content octet of `derInt` has its top bit clear -/
theorem derInt_head_lt (x : Nat) : ∃ b t, derInt x = b :: t ∧ b < 0x80 := by
  unfold derInt; split
  · exact ⟨0, [], rfl, by decide⟩
  · rename_i b t _
    by_cases hb : b < 0x80
    · exact ⟨b, t, by simp [hb], hb⟩
    · exact ⟨0, b :: t, by simp [hb], by decide⟩

theorem minimalInt_derInt (x : Nat) : MinimalInt (derInt x) := by
  cases h : natBytes x with
  | nil => rw [natBytes_eq_nil_iff.1 h, derInt_zero]; trivial
  | cons b t =>
    rw [derInt_of_natBytes h]
    have hb0 : b ≠ 0 := noLeadZero_natBytes x b t h
    split
    · rename_i hb
      cases t with
      | nil => trivial
      | cons c u =>
        refine ⟨fun hh => hb0 hh.1, fun hh => ?_⟩
        rw [hh.1] at hb; exact absurd hb (by decide)
    · rename_i hb
      exact ⟨fun hh => hb hh.2, fun hh => absurd hh.1 (by decide)⟩

/-- Minimal non-negative content octets are `derInt` of their value. -/
theorem eq_derInt_of_minimal {b : UInt8} {t : Bytes} (hm : MinimalInt (b :: t)) (hb : b < 0x80) :
    b :: t = derInt (toNat (b :: t)) := by
  by_cases hb0 : b = 0
  · subst hb0
    cases t with
    | nil => exact derInt_zero.symm
    | cons c u =>
      have hc : ¬ c < 0x80 := fun hc => hm.1 ⟨rfl, hc⟩
      have hc0 : c ≠ 0 := fun h => hc (by rw [h]; decide)
      have hnz : NoLeadZero (c :: u) := by intro b' t' e; cases e; exact hc0
      rw [toNat_zero_cons, derInt_of_natBytes (natBytes_toNat hnz), if_neg hc]
  · have hnz : NoLeadZero (b :: t) := by intro b' t' e; cases e; exact hb0
    rw [derInt_of_natBytes (natBytes_toNat hnz), if_pos hb]

theorem strip_zeros (fuel k : Nat) (hk : k < fuel) (x : Nat) :
    Der.intBody.strip fuel ((0 : UInt8) :: (List.replicate k 0 ++ natBytes x)) = derInt x := by
  induction k generalizing fuel with
  | zero =>
    obtain ⟨f, rfl⟩ : ∃ f, fuel = f + 1 := ⟨fuel - 1, by omega⟩
    simp only [List.replicate_zero, List.nil_append]
    cases h : natBytes x with
    | nil => rw [natBytes_eq_nil_iff.1 h, derInt_zero]; rfl
    | cons b t =>
      have hb0 : b ≠ 0 := noLeadZero_natBytes x b t h
      rw [derInt_of_natBytes h, Der.intBody.strip]
      by_cases hb : b < 0x80
      · simp only [hb, and_self, if_true]
        cases f with
        | zero => rfl
        | succ f =>
          cases t with
          | nil => rfl
          | cons c u => rw [Der.intBody.strip]; simp [hb0]
      · simp [hb]
  | succ k ih =>
    obtain ⟨f, rfl⟩ : ∃ f, fuel = f + 1 := ⟨fuel - 1, by omega⟩
    rw [List.replicate_succ, List.cons_append, Der.intBody.strip]
    have : (0 : UInt8) < 0x80 := by decide
    simp only [this, and_self, if_true]
    exact ih f (by omega)

/-- The model's integer body (strip the 33-byte buffer) is the specification encoder. -/
theorem intBody_eq_derInt {x : Nat} (h : x < 2 ^ 256) : Der.intBody x = derInt x := by
  have h' : x < 256 ^ 32 := by simpa using h
  have hl := natBytes_length_le h'
  unfold Der.intBody
  simp only [be32]
  rw [ofNat_eq_replicate_append h']
  exact strip_zeros 33 _ (by omega) x

/-! ### `derLen` and the model's `readLen` -/

theorem derLen_short {n : Nat} (h : n < 128) : derLen n = [UInt8.ofNat n] := by simp [derLen, h]
theorem derLen_long {n : Nat} (h : 128 ≤ n) :
    derLen n = UInt8.ofNat (0x80 + (natBytes n).length) :: natBytes n := by
  simp [derLen]; omega

theorem readLen_derLen {n : Nat} {rest : Bytes} (hn : n < 256 ^ 8) (hr : 128 ≤ n → n ≤ rest.length) :
    Der.readLen (derLen n ++ rest) = some (n, rest) := by
  by_cases hs : n < 128
  · rw [derLen_short hs]
    have h1 : (UInt8.ofNat n).toNat = n := byte_ofNat_toNat_of_lt (by omega)
    have h2 : UInt8.ofNat n ≠ 0xFF := by
      intro h; have := congrArg UInt8.toNat h; rw [h1] at this; simp at this; omega
    have h3 : UInt8.ofNat n &&& 0x80 = 0 := (byte_and80_eq_zero_iff _).2 (by omega)
    simp [Der.readLen, h2, h3, h1]
  · have hs' : 128 ≤ n := by omega
    rw [derLen_long hs']
    have hL8 := natBytes_length_le hn
    have hL1 : 0 < (natBytes n).length := by
      apply List.length_pos_iff.2; intro h; rw [natBytes_eq_nil_iff] at h; omega
    generalize hL : (natBytes n).length = L at *
    have h1 : (UInt8.ofNat (0x80 + L)).toNat = 128 + L := byte_ofNat_toNat_of_lt (by omega)
    have h2 : UInt8.ofNat (0x80 + L) ≠ 0xFF := by
      intro h; have := congrArg UInt8.toNat h; rw [h1] at this; simp at this; omega
    have h3 : ¬ UInt8.ofNat (0x80 + L) &&& 0x80 = 0 := by
      rw [byte_and80_eq_zero_iff, h1]; omega
    have h4 : UInt8.ofNat (0x80 + L) ≠ 0x80 := by
      intro h; have := congrArg UInt8.toNat h; rw [h1] at this; simp at this; omega
    have h5 : (UInt8.ofNat (0x80 + L) &&& 0x7F).toNat = L := by rw [byte_and7F_toNat, h1]; omega
    have h6 : (natBytes n ++ rest).head? ≠ some 0 := by
      cases hnb : natBytes n with
      | nil => rw [hnb] at hL; simp at hL; omega
      | cons c u =>
        have := noLeadZero_natBytes n c u hnb
        simpa using this
    have h7 : (natBytes n ++ rest).take L = natBytes n := by rw [← hL]; simp
    have h8 : (natBytes n ++ rest).drop L = rest := by rw [← hL]; simp
    simp only [Der.readLen, List.cons_append]
    rw [if_neg h2, if_neg h3, if_neg h4]
    simp only [h5, h7, h8, toNat_natBytes]
    rw [if_neg (by simp; omega), if_neg h6, if_neg (by omega), if_neg (by have := hr hs'; omega), if_neg hs]


theorem readLen_some {bs rest : Bytes} {n : Nat} (h : Der.readLen bs = some (n, rest)) :
    bs = derLen n ++ rest ∧ n < 256 ^ 8 ∧ (128 ≤ n → n ≤ rest.length) := by
  cases bs with
  | nil => simp [Der.readLen] at h
  | cons b1 tl =>
    simp only [Der.readLen] at h
    split at h
    · cases h
    split at h
    · rename_i hFF h80
      cases h
      have hlt : b1.toNat < 128 := (byte_and80_eq_zero_iff _).1 h80
      refine ⟨?_, by omega, by omega⟩
      rw [derLen_short hlt, UInt8.ofNat_toNat]; rfl
    rename_i hFF h80
    split at h
    · cases h
    rename_i hne80
    split at h
    · cases h
    rename_i hle
    split at h
    · cases h
    rename_i hhead
    split at h
    · cases h
    rename_i h8
    split at h
    · cases h
    rename_i hlen
    split at h
    · cases h
    rename_i h128
    cases h
    rw [byte_and80_eq_zero_iff] at h80
    rw [byte_and7F_toNat] at *
    have hb := byte_toNat_lt b1
    have hne : b1.toNat ≠ 128 := fun hh => hne80 (UInt8.toNat_inj.1 hh)
    generalize hL : b1.toNat % 128 = L at *
    have hLlen : (tl.take L).length = L := by simp; omega
    have hnz : NoLeadZero (tl.take L) := by
      intro c u hcu
      cases tl with
      | nil => simp at hcu
      | cons d v =>
        obtain ⟨L', rfl⟩ : ∃ L', L = L' + 1 := ⟨L - 1, by omega⟩
        simp only [List.take_succ_cons, List.cons.injEq] at hcu
        rw [← hcu.1]; intro hd; apply hhead; simp [hd]
    have hnb := natBytes_toNat hnz
    have hb1 : UInt8.ofNat (0x80 + L) = b1 := by
      rw [← UInt8.toNat_inj, byte_ofNat_toNat_of_lt (by omega)]; omega
    refine ⟨?_, ?_, fun _ => by omega⟩
    · rw [derLen_long (by omega), hnb, hLlen, hb1, List.cons_append, List.take_append_drop]
    · have := toNat_lt (tl.take L)
      rw [hLlen] at this
      have : 256 ^ L ≤ 256 ^ 8 := Nat.pow_le_pow_right (by decide) (by omega)
      omega

/-- `readLen` accepts exactly the minimal definite length encodings (of lengths that fit a 64-bit
    `size_t`); in the long form it also checks that the announced length fits the remaining input. -/
theorem readLen_iff (bs rest : Bytes) (n : Nat) :
    Der.readLen bs = some (n, rest) ↔
      bs = derLen n ++ rest ∧ n < 256 ^ 8 ∧ (128 ≤ n → n ≤ rest.length) :=
  ⟨readLen_some, fun ⟨h1, h2, h3⟩ => h1 ▸ readLen_derLen h2 h3⟩

theorem derLen_ne_nil (n : Nat) : derLen n ≠ [] := by
  unfold derLen; split <;> simp


/-! ### `parseInteger` -/

theorem N_lt : N < 256 ^ 32 := by decide +kernel

theorem N_le_of_long {d : Bytes} (hnz : NoLeadZero d) (hl : 32 < d.length) : N ≤ toNat d := by
  cases d with
  | nil => simp at hl
  | cons b t =>
    have h1 := le_toNat_cons (hnz b t rfl) t
    simp at hl
    have : 256 ^ 32 ≤ 256 ^ t.length := Nat.pow_le_pow_right (by decide) (by omega)
    have := N_lt
    omega

theorem parseInteger_cons (l : Bytes) :
    Der.parseInteger (0x02 :: l) =
      match Der.readLen l with
      | none => none
      | some (rlen, body) =>
        if rlen = 0 ∨ rlen > body.length then none
        else if MinimalInt (body.take rlen) then some (clamp (body.take rlen), body.drop rlen)
        else none := by
  simp only [Der.parseInteger]
  cases hrl : Der.readLen l with
  | none => simp
  | some p =>
    obtain ⟨rlen, body⟩ := p
    by_cases hg : rlen = 0 ∨ rlen > body.length
    · simp [hg]
    · simp only [ne_eq, not_true_eq_false, if_false, hg]
      obtain ⟨c, rest, rfl, rfl⟩ : ∃ c rest, body = c ++ rest ∧ rlen = c.length :=
        ⟨body.take rlen, body.drop rlen, by simp, by simp; omega⟩
      simp only [List.take_left', List.drop_left']
      cases c with
      | nil => simp at hg
      | cons a t =>
        cases t with
        | nil =>
          simp only [MinimalInt]
          by_cases ha : a = 0
          · subst ha
            have : ¬ N ≤ 0 := by decide
            simp [clamp, this]
          · have hle : ((128 : UInt8) ≤ a) ↔ 128 ≤ a.toNat := UInt8.le_iff_toNat_le
            simp only [ha, if_false, clamp, List.take_succ_cons, List.take_zero, List.drop_succ_cons, List.drop_zero,
              List.length_cons, List.length_nil, List.cons_append, List.nil_append, List.headD_cons,
              byte_and80_eq_80_iff, hle, toNat_singleton]
            have := byte_toNat_lt a
            by_cases h1 : 128 ≤ a.toNat <;> by_cases h2 : N ≤ a.toNat <;> simp [h1, h2] <;> omega
        | cons b u =>
          have hle : ∀ x : UInt8, ((128 : UInt8) ≤ x) ↔ 128 ≤ x.toNat := fun _ => UInt8.le_iff_toNat_le
          simp only [MinimalInt, List.length_cons, List.cons_append, List.headD_cons, List.drop_succ_cons,
            List.drop_zero, byte_and80_eq_80_iff, byte_and80_eq_zero_iff, byte_lt80_iff, hle]
          by_cases ha : a = 0
          · subst ha
            by_cases hb : b.toNat < 128
            · simp [hb]
            · have hb0 : b ≠ 0 := by intro h; subst h; simp at hb
              have hnz : NoLeadZero (b :: u) := by intro b' t' e; cases e; exact hb0
              have hlong := N_le_of_long hnz
              simp only [List.length_cons] at hlong
              have h255 : ¬ (0 : UInt8) = 255 := by decide
              simp [hb, clamp, toNat_zero_cons, h255]
              by_cases h2 : N ≤ toNat (b :: u)
              · simp [h2]; omega
              · have h3 : ¬ 32 < u.length + 1 := fun h => h2 (hlong h)
                have h4 : toNat (b :: u) < N := by omega
                simp [h2, h3, h4]
          · have hnz : NoLeadZero (a :: b :: u) := by intro b' t' e; cases e; exact ha
            have hlong := N_le_of_long hnz
            simp only [List.length_cons] at hlong
            by_cases hpad : a = 255 ∧ 128 ≤ b.toNat
            · simp [hpad]
            · simp only [ha, false_and, if_false, hpad, not_false_eq_true, and_self, if_true, clamp, hle,
                List.take_succ_cons, List.drop_succ_cons, List.take_left', List.drop_left']
              have hpad' : a = 255 → b.toNat < 128 := fun h => by
                have : ¬ 128 ≤ b.toNat := fun h' => hpad ⟨h, h'⟩
                omega
              by_cases h1 : 128 ≤ a.toNat
              · simp [h1]; exact hpad'
              · by_cases h2 : N ≤ toNat (a :: b :: u)
                · have h4 : ¬ toNat (a :: b :: u) < N := by omega
                  simp [h1, h2, h4]; exact hpad'
                · have h3 : ¬ 32 < u.length + 1 + 1 := fun h => h2 (hlong h)
                  have h4 : toNat (a :: b :: u) < N := by omega
                  simp [h1, h2, h3, h4]; exact hpad'

theorem minimalInt_ne_nil {c : Bytes} (h : MinimalInt c) : c ≠ [] := by
  intro hc; subst hc; exact h

theorem parseInteger_nil : Der.parseInteger [] = none := rfl

theorem parseInteger_tag {tag : UInt8} (l : Bytes) (h : tag ≠ 0x02) : Der.parseInteger (tag :: l) = none := by
  simp [Der.parseInteger, h]

theorem derTLV_append (tag : UInt8) (c rest : Bytes) :
    derTLV tag c ++ rest = tag :: (derLen c.length ++ (c ++ rest)) := by
  simp [derTLV]

theorem derTLV_length (tag : UInt8) (c : Bytes) :
    (derTLV tag c).length = 1 + (derLen c.length).length + c.length := by
  simp [derTLV]; omega

theorem parseInteger_derTLV {c : Bytes} (rest : Bytes) (hm : MinimalInt c) (hl : c.length < 256 ^ 8) :
    Der.parseInteger (derTLV 0x02 c ++ rest) = some (clamp c, rest) := by
  rw [derTLV_append, parseInteger_cons, readLen_derLen hl (by simp)]
  have h0 : c.length ≠ 0 := fun h => minimalInt_ne_nil hm (List.length_eq_zero_iff.1 h)
  simp [h0, hm]

theorem parseInteger_some {bs rest : Bytes} {v : Nat} (h : Der.parseInteger bs = some (v, rest)) :
    ∃ c, MinimalInt c ∧ c.length < 256 ^ 8 ∧ bs = derTLV 0x02 c ++ rest ∧ v = clamp c := by
  cases bs with
  | nil => cases h
  | cons tag l =>
    by_cases ht : tag = 0x02
    · subst ht
      rw [parseInteger_cons] at h
      cases hrl : Der.readLen l with
      | none => rw [hrl] at h; cases h
      | some p =>
        obtain ⟨rlen, body⟩ := p
        rw [hrl] at h
        obtain ⟨hl, hlt, -⟩ := readLen_some hrl
        simp only at h
        split at h
        · cases h
        rename_i hg
        split at h
        · rename_i hm
          cases h
          have hlen : (body.take rlen).length = rlen := by simp; omega
          refine ⟨body.take rlen, hm, by omega, ?_, rfl⟩
          rw [derTLV_append, hlen, List.take_append_drop, hl]
        · cases h
    · rw [parseInteger_tag l ht] at h; cases h

/-- `parseInteger` accepts exactly: tag 0x02, minimal length octets, minimal non-empty content octets
    (no excessive 0x00 / 0xFF padding); its value is `clamp` of the content. -/
theorem parseInteger_iff (bs rest : Bytes) (v : Nat) :
    Der.parseInteger bs = some (v, rest) ↔
      ∃ c, MinimalInt c ∧ c.length < 256 ^ 8 ∧ bs = derTLV 0x02 c ++ rest ∧ v = clamp c :=
  ⟨parseInteger_some, fun ⟨_, hm, hl, hb, hv⟩ => hb ▸ hv ▸ parseInteger_derTLV rest hm hl⟩

/-! ### `sigParse` -/

theorem sigParse_cons (l : Bytes) :
    Der.sigParse (0x30 :: l) =
      match Der.readLen l with
      | none => none
      | some (rlen, body) =>
        if rlen ≠ body.length then none else
        match Der.parseInteger body with
        | none => none
        | some (r, rest1) =>
          match Der.parseInteger rest1 with
          | none => none
          | some (s, rest2) => if rest2 = [] then some (r, s) else none := by
  simp only [Der.sigParse, ne_eq, not_true_eq_false, if_false]
  rfl

theorem sigParse_tag {tag : UInt8} (l : Bytes) (h : tag ≠ 0x30) : Der.sigParse (tag :: l) = none := by
  simp [Der.sigParse, h]

theorem derSig_eq (rb sb : Bytes) :
    derSig rb sb = 0x30 :: (derLen (derTLV 0x02 rb ++ derTLV 0x02 sb).length ++
      (derTLV 0x02 rb ++ derTLV 0x02 sb)) := rfl

theorem sigParse_derSig {rb sb : Bytes} (hr : MinimalInt rb) (hs : MinimalInt sb)
    (hl : (derTLV 0x02 rb ++ derTLV 0x02 sb).length < 256 ^ 8) :
    Der.sigParse (derSig rb sb) = some (clamp rb, clamp sb) := by
  have h1 : rb.length < 256 ^ 8 := by
    simp only [List.length_append, derTLV_length] at hl; omega
  have h2 : sb.length < 256 ^ 8 := by
    simp only [List.length_append, derTLV_length] at hl; omega
  rw [derSig_eq, sigParse_cons, readLen_derLen hl (fun _ => Nat.le_refl _)]
  simp only [ne_eq, not_true_eq_false, if_false]
  rw [parseInteger_derTLV _ hr h1]
  simp only
  have := parseInteger_derTLV [] hs h2
  rw [List.append_nil] at this
  rw [this]
  simp

theorem sigParse_some {bs : Bytes} {r s : Nat} (h : Der.sigParse bs = some (r, s)) :
    ∃ rb sb, MinimalInt rb ∧ MinimalInt sb ∧ (derTLV 0x02 rb ++ derTLV 0x02 sb).length < 256 ^ 8 ∧
      bs = derSig rb sb ∧ r = clamp rb ∧ s = clamp sb := by
  cases bs with
  | nil => cases h
  | cons tag l =>
    by_cases ht : tag = 0x30
    · subst ht
      rw [sigParse_cons] at h
      cases hrl : Der.readLen l with
      | none => rw [hrl] at h; cases h
      | some p =>
        obtain ⟨rlen, body⟩ := p
        rw [hrl] at h
        obtain ⟨hl, hlt, -⟩ := readLen_some hrl
        simp only at h
        split at h
        · cases h
        rename_i hlen
        have hlen : rlen = body.length := Classical.byContradiction hlen
        cases hp1 : Der.parseInteger body with
        | none => rw [hp1] at h; cases h
        | some q =>
          obtain ⟨r', rest1⟩ := q
          rw [hp1] at h
          simp only at h
          cases hp2 : Der.parseInteger rest1 with
          | none => rw [hp2] at h; cases h
          | some q2 =>
            obtain ⟨s', rest2⟩ := q2
            rw [hp2] at h
            simp only at h
            split at h
            · rename_i hnil
              cases h
              subst hnil
              obtain ⟨rb, hmr, _, hb1, hvr⟩ := parseInteger_some hp1
              obtain ⟨sb, hms, _, hb2, hvs⟩ := parseInteger_some hp2
              rw [List.append_nil] at hb2
              have hbody : body = derTLV 0x02 rb ++ derTLV 0x02 sb := by rw [hb1, hb2]
              refine ⟨rb, sb, hmr, hms, ?_, ?_, hvr, hvs⟩
              · rw [← hbody, ← hlen]; exact hlt
              · rw [derSig_eq, ← hbody, ← hlen, hl]
            · cases h
    · rw [sigParse_tag l ht] at h; cases h


theorem sigParse_iff (bs : Bytes) (r s : Nat) :
    Der.sigParse bs = some (r, s) ↔
      ∃ rb sb, MinimalInt rb ∧ MinimalInt sb ∧ (derTLV 0x02 rb ++ derTLV 0x02 sb).length < 256 ^ 8 ∧
        bs = derSig rb sb ∧ r = clamp rb ∧ s = clamp sb :=
  ⟨sigParse_some, fun ⟨_, _, hr, hs, hl, hb, hvr, hvs⟩ => hb ▸ hvr ▸ hvs ▸ sigParse_derSig hr hs hl⟩

/-- For arbitrary content octets `c` (of a length that fits `size_t`): the TLV is accepted iff `c` is
    minimal. -/
theorem parseInteger_derTLV_any (c rest : Bytes) (hl : c.length < 256 ^ 8) :
    Der.parseInteger (derTLV 0x02 c ++ rest) = if MinimalInt c then some (clamp c, rest) else none := by
  by_cases hm : MinimalInt c
  · rw [if_pos hm]; exact parseInteger_derTLV rest hm hl
  · rw [if_neg hm, derTLV_append, parseInteger_cons, readLen_derLen hl (by simp)]
    simp [hm]

/-! ### Bounds (cursor never moves backwards or past the end) -/

theorem readLen_append {bs rest : Bytes} {n : Nat} (h : Der.readLen bs = some (n, rest)) (t : Bytes) :
    Der.readLen (bs ++ t) = some (n, rest ++ t) := by
  obtain ⟨h1, h2, h3⟩ := readLen_some h
  rw [h1, List.append_assoc]
  exact readLen_derLen h2 (fun h => by have := h3 h; simp; omega)

theorem derLen_length_pos (n : Nat) : 0 < (derLen n).length :=
  List.length_pos_iff.2 (derLen_ne_nil n)

theorem readLen_bounds {bs rest : Bytes} {n : Nat} (h : Der.readLen bs = some (n, rest)) :
    rest.length < bs.length ∧ (128 ≤ n → n ≤ rest.length) ∧ n < 2 ^ 64 ∧ ∃ pre, bs = pre ++ rest := by
  obtain ⟨h1, h2, h3⟩ := readLen_some h
  have := derLen_length_pos n
  refine ⟨by rw [h1]; simp; omega, h3, by simpa using h2, derLen n, h1⟩

theorem clamp_lt (c : Bytes) : clamp c < N := by
  have hN : 0 < N := by decide
  unfold clamp; split
  · exact hN
  · split
    · exact hN
    · split
      · assumption
      · exact hN

theorem parseInteger_bounds {bs rest : Bytes} {v : Nat} (h : Der.parseInteger bs = some (v, rest)) :
    rest.length + 3 ≤ bs.length ∧ v < N ∧ ∃ pre, bs = pre ++ rest := by
  obtain ⟨c, hm, hl, hb, hv⟩ := parseInteger_some h
  have h1 := derLen_length_pos c.length
  have h2 : 0 < c.length := List.length_pos_iff.2 (minimalInt_ne_nil hm)
  refine ⟨?_, hv ▸ clamp_lt c, derTLV 0x02 c, hb⟩
  rw [hb, List.length_append, derTLV_length]; omega

theorem sigParse_bounds {bs : Bytes} {r s : Nat} (h : Der.sigParse bs = some (r, s)) :
    r < N ∧ s < N ∧ 8 ≤ bs.length := by
  obtain ⟨rb, sb, hmr, hms, hl, hb, hvr, hvs⟩ := sigParse_some h
  refine ⟨hvr ▸ clamp_lt rb, hvs ▸ clamp_lt sb, ?_⟩
  have h1 := derLen_length_pos rb.length
  have h2 : 0 < rb.length := List.length_pos_iff.2 (minimalInt_ne_nil hmr)
  have h3 := derLen_length_pos sb.length
  have h4 : 0 < sb.length := List.length_pos_iff.2 (minimalInt_ne_nil hms)
  have h5 := derLen_length_pos (derTLV 0x02 rb ++ derTLV 0x02 sb).length
  rw [hb, derSig_eq]
  simp only [List.length_cons, List.length_append, derTLV_length] at h5 ⊢
  omega

/-! ### No trailing bytes, no truncation -/

theorem sigParse_append_none {bs : Bytes} {v : Nat × Nat} (h : Der.sigParse bs = some v)
    {t : Bytes} (ht : t ≠ []) : Der.sigParse (bs ++ t) = none := by
  cases bs with
  | nil => cases h
  | cons tag l =>
    by_cases htag : tag = 0x30
    · subst htag
      rw [sigParse_cons] at h
      rw [List.cons_append, sigParse_cons]
      cases hrl : Der.readLen l with
      | none => rw [hrl] at h; cases h
      | some p =>
        obtain ⟨rlen, body⟩ := p
        rw [hrl] at h
        rw [readLen_append hrl t]
        simp only at h ⊢
        split at h
        · cases h
        rename_i hlen
        have hlen : rlen = body.length := Classical.byContradiction hlen
        have : 0 < t.length := List.length_pos_iff.2 ht
        rw [if_pos (by simp; omega)]
    · rw [sigParse_tag l htag] at h; cases h

theorem sigParse_take_none {bs : Bytes} {v : Nat × Nat} (h : Der.sigParse bs = some v)
    {k : Nat} (hk : k < bs.length) : Der.sigParse (bs.take k) = none := by
  cases hp : Der.sigParse (bs.take k) with
  | none => rfl
  | some w =>
    have := sigParse_append_none hp (t := bs.drop k) (by
      intro hd; have := congrArg List.length hd; simp at this; omega)
    rw [List.take_append_drop, h] at this; cases this

/-! ### `sigSerialize` -/

theorem sigSerialize_eq {r s : Nat} (hr : r < 2 ^ 256) (hs : s < 2 ^ 256) (size : Nat) :
    Der.sigSerialize r s size =
      if size < 6 + (derInt r).length + (derInt s).length
      then (0, [], 6 + (derInt r).length + (derInt s).length)
      else (1, derSig (derInt r) (derInt s), 6 + (derInt r).length + (derInt s).length) := by
  have h1 := derInt_length_le (k := 32) (x := r) (by simpa using hr)
  have h2 := derInt_length_le (k := 32) (x := s) (by simpa using hs)
  unfold Der.sigSerialize
  simp only [intBody_eq_derInt hr, intBody_eq_derInt hs]
  split
  · rfl
  · congr 2
    rw [derSig_eq]
    simp only [List.length_append, derTLV_length]
    rw [derLen_short (n := (derInt r).length) (by omega), derLen_short (n := (derInt s).length) (by omega)]
    simp only [List.length_singleton]
    have e : 1 + 1 + (derInt r).length + (1 + 1 + (derInt s).length) =
      4 + (derInt r).length + (derInt s).length := by omega
    rw [e, derLen_short (by omega)]
    simp [derTLV, derLen_short (n := (derInt r).length) (by omega),
      derLen_short (n := (derInt s).length) (by omega)]

theorem derSig_derInt_length {r s : Nat} (hr : r < 2 ^ 256) (hs : s < 2 ^ 256) :
    (derSig (derInt r) (derInt s)).length = 6 + (derInt r).length + (derInt s).length := by
  have h1 := derInt_length_le (k := 32) (x := r) (by simpa using hr)
  have h2 := derInt_length_le (k := 32) (x := s) (by simpa using hs)
  rw [derSig_eq]
  simp only [List.length_cons, List.length_append, derTLV_length]
  rw [derLen_short (n := (derInt r).length) (by omega), derLen_short (n := (derInt s).length) (by omega)]
  simp only [List.length_singleton]
  rw [derLen_short (by omega)]
  simp; omega

theorem clamp_derInt {x : Nat} (h : x < N) : clamp (derInt x) = x := by
  obtain ⟨b, t, hbt, hb⟩ := derInt_head_lt x
  have hv := toNat_derInt x
  rw [hbt] at hv ⊢
  have : ¬ (0x80 : UInt8) ≤ b := by
    rw [UInt8.le_iff_toNat_le]; rw [UInt8.lt_iff_toNat_lt] at hb; omega
  simp [clamp, this, hv, h]

theorem inRange_derInt {x : Nat} (h : x < N) : InRange (derInt x) := by
  obtain ⟨b, t, hbt, hb⟩ := derInt_head_lt x
  have hv := toNat_derInt x
  rw [hbt] at hv ⊢
  exact ⟨hb, hv ▸ h⟩

theorem eq_derInt_of_inRange {c : Bytes} (hm : MinimalInt c) (hr : InRange c) :
    c = derInt (clamp c) ∧ clamp c = toNat c := by
  cases c with
  | nil => exact absurd hr id
  | cons b t =>
    obtain ⟨hb, hv⟩ := hr
    have : ¬ (0x80 : UInt8) ≤ b := by
      rw [UInt8.le_iff_toNat_le]; rw [UInt8.lt_iff_toNat_lt] at hb; omega
    have hc : clamp (b :: t) = toNat (b :: t) := by simp [clamp, this, hv]
    exact ⟨hc ▸ eq_derInt_of_minimal hm hb, hc⟩

theorem inRange_of_clamp_ne_zero {c : Bytes} (h : clamp c ≠ 0) : InRange c := by
  cases c with
  | nil => exact absurd rfl h
  | cons b t =>
    simp only [clamp] at h
    split at h
    · exact absurd rfl h
    · rename_i hb
      split at h
      · rename_i hv
        refine ⟨?_, hv⟩
        rw [UInt8.le_iff_toNat_le] at hb; rw [UInt8.lt_iff_toNat_lt]; omega
      · exact absurd rfl h

theorem N_lt_2_256 : N < 2 ^ 256 := by decide +kernel


end DerSpec
end SecpZkp
