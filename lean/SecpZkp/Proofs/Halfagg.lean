import SecpZkp.Model.Halfagg
import SecpZkp.Proofs.Sha256
import SecpZkp.Proofs.GroupLaw
/-
  Helper lemmas for property C17 (Schnorr half-aggregation, `SecpZkp/Model/Halfagg.lean`).
  Core Lean only.

  * byte codecs: `toNat (ofNat len x) = x % 256^len`, `chunk32` of concatenations
  * `absorbNewSt`: the second loop of `inc_aggregate` returning ALSO the running hash state; it splits
    over `++`, and the first loop (`absorbOld`) recomputes exactly its hash state from the `r_i` stored
    in the aggregate
  * closed forms of `aggregate` / `incAggregate` on a well-formed aggregate
  * the verification loop in terms of index-wise specification terms
-/
namespace SecpZkp

namespace Bytes

theorem foldl_ofNat (len x acc : Nat) :
    (ofNat len x).foldl (fun acc b => acc * 256 + b.toNat) acc = acc * 256 ^ len + x % 256 ^ len := by
  induction len generalizing acc with
  | zero => simp [ofNat, Nat.mod_one]
  | succ len ih =>
    simp only [ofNat, List.foldl_cons, ih, UInt8.toNat_ofNat']
    rw [Nat.mod_pow_succ (b := 256) (k := len)]
    have h1 : x / 256 ^ len % 256 % 2 ^ 8 = x / 256 ^ len % 256 := by omega
    rw [h1, Nat.add_mul, Nat.mul_assoc, Nat.pow_succ, Nat.mul_comm (256 ^ len) 256,
      Nat.mul_comm (x / 256 ^ len % 256) (256 ^ len)]
    omega

/-- Decoding an encoding gives the value back (reduced to the encoded width). -/
theorem toNat_ofNat (len x : Nat) : toNat (ofNat len x) = x % 256 ^ len := by
  simp [toNat, foldl_ofNat]

theorem length_ofNat (len x : Nat) : (ofNat len x).length = len := Sha256.length_ofNat len x

theorem length_be32 (x : Nat) : (be32 x).length = 32 := length_ofNat 32 x

theorem toNat_be32 (x : Nat) (h : x < 2 ^ 256) : toNat (be32 x) = x := by
  rw [be32, toNat_ofNat]
  exact Nat.mod_eq_of_lt (by simpa using h)

end Bytes

namespace Halfagg

/-! ### Entries: (x-only key object, 32-byte message, 64-byte signature) -/

/-- One input of aggregation: the key object, the message and the BIP-340 signature. -/
abbrev Entry := Pt × Bytes × Bytes

def keys (xs : List Entry) : List Pt := xs.map (·.1)
def msgs (xs : List Entry) : List Bytes := xs.map (·.2.1)
def sigs (xs : List Entry) : List Bytes := xs.map (·.2.2)
/-- the (key, message) pairs -/
def keyMsgs (xs : List Entry) : List (Pt × Bytes) := xs.map (fun e => (e.1, e.2.1))
/-- `r_0 ‖ r_1 ‖ …`: the first halves of the signatures -/
def rs (xs : List Entry) : Bytes := ((sigs xs).map (·.take 32)).flatten

@[simp] theorem keys_nil : keys [] = [] := rfl
@[simp] theorem msgs_nil : msgs [] = [] := rfl
@[simp] theorem sigs_nil : sigs [] = [] := rfl
@[simp] theorem rs_nil : rs [] = [] := rfl
@[simp] theorem keyMsgs_nil : keyMsgs [] = [] := rfl
@[simp] theorem keys_cons (e : Entry) (xs) : keys (e :: xs) = e.1 :: keys xs := rfl
@[simp] theorem msgs_cons (e : Entry) (xs) : msgs (e :: xs) = e.2.1 :: msgs xs := rfl
@[simp] theorem sigs_cons (e : Entry) (xs) : sigs (e :: xs) = e.2.2 :: sigs xs := rfl
@[simp] theorem keyMsgs_cons (e : Entry) (xs) : keyMsgs (e :: xs) = (e.1, e.2.1) :: keyMsgs xs := rfl
@[simp] theorem rs_cons (e : Entry) (xs) : rs (e :: xs) = e.2.2.take 32 ++ rs xs := by
  simp [rs]
@[simp] theorem keys_append (xs ys : List Entry) : keys (xs ++ ys) = keys xs ++ keys ys := by simp [keys]
@[simp] theorem msgs_append (xs ys : List Entry) : msgs (xs ++ ys) = msgs xs ++ msgs ys := by simp [msgs]
@[simp] theorem sigs_append (xs ys : List Entry) : sigs (xs ++ ys) = sigs xs ++ sigs ys := by simp [sigs]
@[simp] theorem keyMsgs_append (xs ys : List Entry) : keyMsgs (xs ++ ys) = keyMsgs xs ++ keyMsgs ys := by
  simp [keyMsgs]
@[simp] theorem rs_append (xs ys : List Entry) : rs (xs ++ ys) = rs xs ++ rs ys := by simp [rs]
@[simp] theorem length_keys (xs : List Entry) : (keys xs).length = xs.length := by simp [keys]
@[simp] theorem length_msgs (xs : List Entry) : (msgs xs).length = xs.length := by simp [msgs]
@[simp] theorem length_sigs (xs : List Entry) : (sigs xs).length = xs.length := by simp [sigs]
@[simp] theorem length_keyMsgs (xs : List Entry) : (keyMsgs xs).length = xs.length := by simp [keyMsgs]

theorem zip_keys_msgs (xs : List Entry) : List.zip (keys xs) (msgs xs) = keyMsgs xs := by
  induction xs with
  | nil => rfl
  | cons e xs ih => simp [ih]

theorem zipWith_keyMsgs_sigs (xs : List Entry) :
    List.zipWith (fun (pm : Pt × Bytes) sg => (pm.1, pm.2, sg)) (keyMsgs xs) (sigs xs) = xs := by
  induction xs with
  | nil => rfl
  | cons e xs ih => simp [ih]

theorem length_rs (xs : List Entry) (h : ∀ e ∈ xs, e.2.2.length = 64) : (rs xs).length = 32 * xs.length := by
  induction xs with
  | nil => rfl
  | cons e xs ih =>
    have he := h e (by simp)
    have := ih (fun e he => h e (by simp [he]))
    simp only [rs_cons, List.length_append, List.length_take, List.length_cons, this]
    omega

/-! ### `chunk32` -/

theorem chunk32_append_right (a b : Bytes) (i k : Nat) (ha : a.length = 32 * k) :
    chunk32 (a ++ b) (k + i) = chunk32 b i := by
  unfold chunk32
  rw [List.drop_append, List.drop_eq_nil_of_le (by omega)]
  have : 32 * (k + i) - a.length = 32 * i := by omega
  simp [this]

theorem chunk32_zero_append (a b : Bytes) (ha : a.length = 32) : chunk32 (a ++ b) 0 = a := by
  unfold chunk32
  simp [ha]

/-- the 32 bytes at offset `32*k` are `c` if exactly `32*k` bytes precede it -/
theorem chunk32_mid (a c b : Bytes) (k : Nat) (ha : a.length = 32 * k) (hc : c.length = 32) :
    chunk32 (a ++ (c ++ b)) k = c := by
  have := chunk32_append_right a (c ++ b) 0 k ha
  rw [Nat.add_zero] at this
  rw [this, chunk32_zero_append _ _ hc]

/-! ### The second loop of `inc_aggregate`, with the running hash state made visible -/

/-- `absorbNew` returning also the final running hash state. `none` = an invalid key object. -/
def absorbNewSt : (i : Nat) → List Entry → Sha256.State → Nat → Option (Sha256.State × Nat)
  | _, [], h, s => some (h, s)
  | i, (pk, m, sig64) :: rest, h, s =>
    match pk with
    | .inf => none
    | .aff px _ =>
      let h' := Sha256.writeAll h [sig64.take 32, Bytes.be32 px, m]
      let zi := Bytes.toNat (Sha256.finalize h') % N
      let si0 := Bytes.toNat (sig64.drop 32) % N
      let si := if i ≠ 0 then Sc.mul si0 zi else si0
      absorbNewSt (i + 1) rest h' (Sc.add s si)

theorem absorbNew_eq (i : Nat) (xs : List Entry) (h : Sha256.State) (s : Nat) :
    absorbNew i xs h s = (absorbNewSt i xs h s).map (·.2) := by
  induction xs generalizing i h s with
  | nil => rfl
  | cons e xs ih =>
    obtain ⟨pk, m, sg⟩ := e
    cases pk with
    | inf => simp [absorbNew, absorbNewSt, Keys.xonlySerialize]
    | aff px py => simp [absorbNew, absorbNewSt, Keys.xonlySerialize, ih]

/-- Processing `xs ++ ys` = processing `xs`, then `ys` from the state reached. -/
theorem absorbNewSt_append (i : Nat) (xs ys : List Entry) (h : Sha256.State) (s : Nat) :
    absorbNewSt i (xs ++ ys) h s =
      (absorbNewSt i xs h s).bind (fun r => absorbNewSt (i + xs.length) ys r.1 r.2) := by
  induction xs generalizing i h s with
  | nil => simp [absorbNewSt]
  | cons e xs ih =>
    obtain ⟨pk, m, sg⟩ := e
    cases pk with
    | inf => simp [absorbNewSt]
    | aff px py =>
      simp only [List.cons_append, absorbNewSt, ih, List.length_cons]
      have : i + 1 + xs.length = i + (xs.length + 1) := by omega
      rw [this]

/-- The loop fails exactly when some key object is invalid. -/
theorem absorbNewSt_isSome (i : Nat) (xs : List Entry) (h : Sha256.State) (s : Nat) :
    (absorbNewSt i xs h s).isSome = true ↔ ∀ e ∈ xs, e.1 ≠ Pt.inf := by
  induction xs generalizing i h s with
  | nil => simp [absorbNewSt]
  | cons e xs ih =>
    obtain ⟨pk, m, sg⟩ := e
    cases pk with
    | inf => simp [absorbNewSt]
    | aff px py => simp [absorbNewSt, ih]

/-- The accumulated `s` stays a reduced scalar. -/
theorem absorbNewSt_lt (i : Nat) (xs : List Entry) (h : Sha256.State) (s : Nat) (r : Sha256.State × Nat)
    (hr : absorbNewSt i xs h s = some r) (hs : s < N) : r.2 < N := by
  induction xs generalizing i h s with
  | nil => simp [absorbNewSt] at hr; subst hr; exact hs
  | cons e xs ih =>
    obtain ⟨pk, m, sg⟩ := e
    cases pk with
    | inf => simp [absorbNewSt] at hr
    | aff px py =>
      simp only [absorbNewSt] at hr
      exact ih _ _ _ hr (Nat.mod_lt _ (by decide))

/-- **The first loop recomputes the running hash of the second loop.**  If the aggregate buffer
    holds `r_0 ‖ … ‖ r_{k-1}` at offset `32*i`, re-feeding `r_j ‖ pk_j ‖ m_j` from the buffer leaves
    the hash object in exactly the state the second loop had reached when those entries were new. -/
theorem absorbOld_eq (pre post : Bytes) (i : Nat) (xs : List Entry) (h : Sha256.State) (s : Nat)
    (hpre : pre.length = 32 * i) (hsig : ∀ e ∈ xs, e.2.2.length = 64) :
    absorbOld (pre ++ (rs xs ++ post)) i (keyMsgs xs) h = (absorbNewSt i xs h s).map (·.1) := by
  induction xs generalizing i h s pre with
  | nil => rfl
  | cons e xs ih =>
    obtain ⟨pk, m, sg⟩ := e
    have hsg : (sg.take 32).length = 32 := by
      have := hsig (pk, m, sg) (by simp)
      simp only [List.length_take]
      simp only at this
      omega
    cases pk with
    | inf => simp [absorbOld, absorbNewSt, Keys.xonlySerialize]
    | aff px py =>
      simp only [keyMsgs_cons, rs_cons, absorbOld, absorbNewSt, Keys.xonlySerialize]
      simp only [List.append_assoc]
      rw [chunk32_mid _ _ _ _ hpre hsg]
      have := ih (pre ++ sg.take 32) (i + 1)
        (Sha256.writeAll h [sg.take 32, Bytes.be32 px, m])
        (Sc.add s (if i ≠ 0 then Sc.mul (Bytes.toNat (sg.drop 32) % N)
          (Bytes.toNat (Sha256.finalize (Sha256.writeAll h [sg.take 32, Bytes.be32 px, m])) % N)
          else Bytes.toNat (sg.drop 32) % N))
        (by simp only [List.length_append, hsg, hpre]; omega)
        (fun e he => hsig e (by simp [he]))
      simp only [List.append_assoc] at this
      simpa using this

/-! ### Closed form of `incAggregate` -/

/-- Closed form of one `inc_aggregate` call that adds the entries `ys` to a buffer `agg` holding the
    `r` values of the entries `xs` (hypothesis `hr`) and the scalar `s1` they accumulated
    (hypothesis `hs`; for `xs = []` nothing is read from the buffer). -/
theorem incAggregate_closed (agg : Bytes) (xs ys : List Entry) (h1 : Sha256.State) (s1 : Nat)
    (hsx : ∀ e ∈ xs, e.2.2.length = 64)
    (hn : xs.length + ys.length < sizeMax)
    (hr : agg.take (32 * xs.length) = rs xs)
    (hs : (if xs.length > 0 then Bytes.toNat (chunk32 agg xs.length) % N else 0) = s1)
    (hx : absorbNewSt 0 xs tagAgg 0 = some (h1, s1)) :
    incAggregate agg (keys (xs ++ ys)) (msgs (xs ++ ys)) (sigs ys) xs.length =
      if 32 * (xs.length + ys.length + 1) ≤ agg.length then
        match absorbNewSt xs.length ys h1 s1 with
        | none => ⟨0, (agg, agg.length), 1⟩
        | some r => ⟨1, (rs xs ++ rs ys ++ Bytes.be32 r.2 ++ agg.drop (32 * (xs.length + ys.length + 1)),
                        32 * (1 + (xs.length + ys.length))), 0⟩
      else ⟨0, (agg, agg.length), 0⟩ := by
  have hnm : (xs.length + ys.length) % sizeMax = xs.length + ys.length := Nat.mod_eq_of_lt hn
  have hpairs : List.zip (keys (xs ++ ys)) (msgs (xs ++ ys)) = keyMsgs xs ++ keyMsgs ys := by
    rw [zip_keys_msgs, keyMsgs_append]
  have htake : (keyMsgs xs ++ keyMsgs ys).take xs.length = keyMsgs xs := by
    rw [List.take_append_of_le_length (by simp)]
    exact List.take_of_length_le (by simp)
  have hdrop : (keyMsgs xs ++ keyMsgs ys).drop xs.length = keyMsgs ys := by
    rw [List.drop_append_of_le_length (by simp), List.drop_eq_nil_of_le (by simp)]
    rfl
  have hagg : agg = [] ++ (rs xs ++ agg.drop (32 * xs.length)) := by
    rw [← hr, List.nil_append, List.take_append_drop]
  have hold : absorbOld agg 0 (keyMsgs xs) tagAgg = some h1 := by
    rw [hagg, absorbOld_eq [] _ 0 xs tagAgg 0 rfl hsx, hx]
    rfl
  have hk : (keys (xs ++ ys)).isEmpty = true ↔ xs.length + ys.length = 0 := by
    rw [List.isEmpty_iff_length_eq_zero]; simp
  have hm : (msgs (xs ++ ys)).isEmpty = true ↔ xs.length + ys.length = 0 := by
    rw [List.isEmpty_iff_length_eq_zero]; simp
  unfold incAggregate
  simp only [length_sigs, hnm, hpairs, htake, hdrop, hold, zipWith_keyMsgs_sigs, hs, absorbNew_eq, hk, hm]
  by_cases hlen : 32 * (xs.length + ys.length + 1) ≤ agg.length
  · have hg : ¬ (agg.length / 32 ≤ 0 ∨ agg.length / 32 - 1 < xs.length + ys.length) := by omega
    have hg1 : ¬ (¬ xs.length + ys.length ≥ xs.length) := by omega
    have hg2 : ¬ (xs.length + ys.length = 0 ∧ xs.length + ys.length ≠ 0) := by omega
    simp only [hlen, hg, hg1, hg2, if_true, if_false]
    cases absorbNewSt xs.length ys h1 s1 with
    | none => rfl
    | some r =>
      simp only [Option.map_some]
      rw [hr]
      rfl
  · have hg : (agg.length / 32 ≤ 0 ∨ agg.length / 32 - 1 < xs.length + ys.length) := by omega
    have hg1 : ¬ (¬ xs.length + ys.length ≥ xs.length) := by omega
    have hg2 : ¬ (xs.length + ys.length = 0 ∧ xs.length + ys.length ≠ 0) := by omega
    simp only [hlen, hg, hg1, hg2, if_true, if_false]

/-- Closed form of `secp256k1_schnorrsig_aggregate` (`n_before = 0`, nothing is read from `buf`). -/
theorem aggregate_closed (buf : Bytes) (xs : List Entry) (hn : xs.length < sizeMax) :
    aggregate buf (keys xs) (msgs xs) (sigs xs) =
      if 32 * (xs.length + 1) ≤ buf.length then
        match absorbNewSt 0 xs tagAgg 0 with
        | none => ⟨0, (buf, buf.length), 1⟩
        | some r => ⟨1, (rs xs ++ Bytes.be32 r.2 ++ buf.drop (32 * (xs.length + 1)), 32 * (1 + xs.length)), 0⟩
      else ⟨0, (buf, buf.length), 0⟩ := by
  have h := incAggregate_closed buf [] xs tagAgg 0 (by simp) (by simpa using hn) (by simp) (by simp) rfl
  simpa [aggregate] using h

/-- `aggregate` succeeds iff the buffer is large enough and all key objects are valid. -/
theorem aggregate_ret_eq_one (buf : Bytes) (xs : List Entry) (hn : xs.length < sizeMax) :
    (aggregate buf (keys xs) (msgs xs) (sigs xs)).ret = 1 ↔
      32 * (xs.length + 1) ≤ buf.length ∧ ∀ e ∈ xs, e.1 ≠ Pt.inf := by
  rw [aggregate_closed buf xs hn, ← absorbNewSt_isSome 0 xs tagAgg 0]
  by_cases hlen : 32 * (xs.length + 1) ≤ buf.length
  · simp only [hlen, if_true, true_and]
    cases absorbNewSt 0 xs tagAgg 0 <;> simp
  · simp [hlen]

/-- **Core of incremental = one-shot.**  With a large enough buffer and valid keys, `aggregate` on `xs`
    succeeds, leaves a buffer `out1` of unchanged size, and `inc_aggregate` of `ys` on `out1` returns
    exactly what `aggregate` on `xs ++ ys` returns (value, whole buffer, length, callbacks). -/
theorem inc_after_aggregate (buf : Bytes) (xs ys : List Entry)
    (hsx : ∀ e ∈ xs, e.2.2.length = 64)
    (hn : xs.length + ys.length < sizeMax)
    (hbuf : 32 * (xs.length + ys.length + 1) ≤ buf.length)
    (hkeys : ∀ e ∈ xs ++ ys, e.1 ≠ Pt.inf) :
    ∃ out1 : Bytes,
      aggregate buf (keys xs) (msgs xs) (sigs xs) = ⟨1, (out1, 32 * (1 + xs.length)), 0⟩ ∧
      out1.length = buf.length ∧
      incAggregate out1 (keys (xs ++ ys)) (msgs (xs ++ ys)) (sigs ys) xs.length
        = aggregate buf (keys (xs ++ ys)) (msgs (xs ++ ys)) (sigs (xs ++ ys)) ∧
      (aggregate buf (keys (xs ++ ys)) (msgs (xs ++ ys)) (sigs (xs ++ ys))).ret = 1 := by
  have hN : N < 2 ^ 256 := by decide
  -- the second loop on `xs`, then on `ys`
  have hall := (absorbNewSt_isSome 0 (xs ++ ys) tagAgg 0).2 hkeys
  rw [absorbNewSt_append] at hall
  cases hx : absorbNewSt 0 xs tagAgg 0 with
  | none => rw [hx] at hall; simp at hall
  | some r1 =>
    obtain ⟨h1, s1⟩ := r1
    rw [hx] at hall
    simp only [Option.bind_some, Nat.zero_add] at hall
    cases hy : absorbNewSt xs.length ys h1 s1 with
    | none => rw [hy] at hall; simp at hall
    | some r2 =>
      have hs1 : s1 < N := absorbNewSt_lt 0 xs tagAgg 0 _ hx (by decide)
      have hlrs : (rs xs).length = 32 * xs.length := length_rs xs hsx
      refine ⟨rs xs ++ Bytes.be32 s1 ++ buf.drop (32 * (xs.length + 1)), ?_, ?_, ?_, ?_⟩
      · rw [aggregate_closed buf xs (by omega), hx]
        have : 32 * (xs.length + 1) ≤ buf.length := by omega
        simp [this]
      · simp only [List.length_append, List.length_drop, hlrs, Bytes.length_be32]; omega
      · have hlen1 : (rs xs ++ Bytes.be32 s1 ++ buf.drop (32 * (xs.length + 1))).length = buf.length := by
          simp only [List.length_append, List.length_drop, hlrs, Bytes.length_be32]; omega
        rw [incAggregate_closed _ xs ys h1 s1 hsx hn ?_ ?_ hx, hy,
          aggregate_closed buf (xs ++ ys) (by simpa using hn), absorbNewSt_append, hx]
        · simp only [Option.bind_some, Nat.zero_add, hy, hlen1, List.length_append, hbuf, if_true, rs_append]
          congr 3
          rw [List.drop_append, List.drop_append, List.drop_eq_nil_of_le (by omega),
            List.drop_eq_nil_of_le (by rw [Bytes.length_be32]; omega), List.drop_drop]
          simp only [List.nil_append, List.length_append, hlrs, Bytes.length_be32]
          congr 1
          omega
        · rw [List.append_assoc, List.take_append_of_le_length (by omega), List.take_of_length_le (by omega)]
        · by_cases h0 : xs.length > 0
          · simp only [h0, if_true]
            rw [List.append_assoc, chunk32_mid _ _ _ _ hlrs (Bytes.length_be32 s1),
              Bytes.toNat_be32 _ (by omega), Nat.mod_eq_of_lt hs1]
          · have : xs = [] := List.eq_nil_of_length_eq_zero (by omega)
            subst this
            simp [absorbNewSt] at hx
            simp [hx.2]
      · rw [aggregate_closed buf (xs ++ ys) (by simpa using hn), absorbNewSt_append, hx]
        simp only [Option.bind_some, Nat.zero_add, hy, List.length_append, hbuf, if_true]

/-! ### Verification: specification terms and the loop -/

/-- The tag of the randomizer hash. -/
def tagBytes : Bytes := "HalfAgg/randomizer".toUTF8.toList

/-- The 64-byte block `SHA256(tag) ‖ SHA256(tag)` every tagged hash starts with. -/
def tagBlock : Bytes := Sha256.sha256 tagBytes ++ Sha256.sha256 tagBytes

/-- `r_i ‖ pk_i ‖ m_i ‖ r_{i+1} ‖ pk_{i+1} ‖ m_{i+1} ‖ …` for the (key, message) pairs `pms`, the
    `r_j` being the 32 bytes at offset `32*j` of the aggregate `agg`. -/
def hashedBytes (agg : Bytes) : Nat → List (Pt × Bytes) → Bytes
  | _, [] => []
  | i, (pk, m) :: rest => chunk32 agg i ++ Bytes.be32 pk.xOf ++ m ++ hashedBytes agg (i + 1) rest

/-- Specification randomizer `z_i = int(hash_{HalfAgg/randomizer}(r_0‖pk_0‖m_0‖…‖r_i‖pk_i‖m_i)) mod n`
    (one-shot SHA-256 of the whole prefix; used for `i ≥ 1`, `z_0 = 1`). -/
def zSpec (agg : Bytes) (pms : List (Pt × Bytes)) (i : Nat) : Nat :=
  Bytes.toNat (Sha256.sha256 (tagBlock ++ hashedBytes agg 0 (pms.take (i + 1)))) % N

/-- Specification term `z_i • (e_i • P_i + R_i)` of index `i`; `none` when a guard fails: index out of
    range, invalid key object, `r_i ≥ p`, or `r_i` not the abscissa of a curve point. -/
def termSpec (agg : Bytes) (pms : List (Pt × Bytes)) (i : Nat) : Option Pt :=
  match pms[i]? with
  | none => none
  | some (pk, m) =>
    match pk with
    | .inf => none
    | .aff px _ =>
      match Codec.feLimit (chunk32 agg i) with
      | none => none
      | some rx =>
        match Pt.liftX rx false with
        | none => none
        | some R =>
          let e := Schnorr.challenge (chunk32 agg i) m (Bytes.be32 px)
          let T := Pt.add (Pt.mul e pk) R
          some (if i ≠ 0 then Pt.mul (zSpec agg pms i) T else T)

theorem hashedBytes_append (agg : Bytes) (i : Nat) (a b : List (Pt × Bytes)) :
    hashedBytes agg i (a ++ b) = hashedBytes agg i a ++ hashedBytes agg (i + a.length) b := by
  induction a generalizing i with
  | nil => simp [hashedBytes]
  | cons x a ih =>
    obtain ⟨pk, m⟩ := x
    simp only [List.cons_append, hashedBytes, ih, List.length_cons, List.append_assoc]
    have : i + 1 + a.length = i + (a.length + 1) := by omega
    rw [this]

theorem absorbedFrom_tagAgg : Sha256.AbsorbedFrom Sha256.iv 0 tagAgg (tagBlock ++ []) := by
  have := Sha256.absorbedFrom_write
    (Sha256.absorbedFrom_write Sha256.absorbedFrom_init (Sha256.sha256 tagBytes)) (Sha256.sha256 tagBytes)
  simpa [tagAgg, Sha256.initTagged, tagBlock, tagBytes] using this

theorem cons_exists_iff {α : Type} (o : Option α) (os : List (Option α)) (Q : List α → Prop) :
    (∃ ts : List α, o :: os = ts.map some ∧ Q ts) ↔
      ∃ t, o = some t ∧ ∃ ts', os = ts'.map some ∧ Q (t :: ts') := by
  constructor
  · rintro ⟨ts, h, hq⟩
    cases ts with
    | nil => simp at h
    | cons t ts' =>
      simp only [List.map_cons, List.cons.injEq] at h
      exact ⟨t, h.1, ts', h.2, hq⟩
  · rintro ⟨t, h, ts', h', hq⟩
    exact ⟨t :: ts', by simp [h, h'], hq⟩

theorem verifyLoop_nil (agg : Bytes) (i : Nat) (h : Sha256.State) (rhs : Pt) :
    verifyLoop agg i [] h rhs = .ok rhs := rfl

theorem verifyLoop_inf (agg : Bytes) (i : Nat) (h : Sha256.State) (rhs : Pt) (m : Bytes)
    (rest : List (Pt × Bytes)) : verifyLoop agg i ((Pt.inf, m) :: rest) h rhs = .illegal := rfl

theorem verifyLoop_reject1 (agg : Bytes) (i : Nat) (h : Sha256.State) (rhs : Pt) (px py : Nat) (m : Bytes)
    (rest : List (Pt × Bytes)) (hf : Codec.feLimit (chunk32 agg i) = none) :
    verifyLoop agg i ((Pt.aff px py, m) :: rest) h rhs = .reject := by
  conv => lhs; whnf
  rw [hf]

theorem verifyLoop_reject2 (agg : Bytes) (i : Nat) (h : Sha256.State) (rhs : Pt) (px py : Nat) (m : Bytes)
    (rest : List (Pt × Bytes)) (rx : Nat) (hf : Codec.feLimit (chunk32 agg i) = some rx)
    (hl : Pt.liftX rx false = none) :
    verifyLoop agg i ((Pt.aff px py, m) :: rest) h rhs = .reject := by
  conv => lhs; whnf
  rw [hf]
  dsimp only
  rw [hl]

theorem verifyLoop_step (agg : Bytes) (i : Nat) (h : Sha256.State) (rhs : Pt) (px py : Nat) (m : Bytes)
    (rest : List (Pt × Bytes)) (rx : Nat) (rp : Pt) (hf : Codec.feLimit (chunk32 agg i) = some rx)
    (hl : Pt.liftX rx false = some rp) :
    verifyLoop agg i ((Pt.aff px py, m) :: rest) h rhs =
      verifyLoop agg (i + 1) rest (Sha256.writeAll h [chunk32 agg i, Bytes.be32 px, m])
        (Pt.add rhs
          (if i ≠ 0 then
            Pt.mul (Bytes.toNat (Sha256.finalize (Sha256.writeAll h [chunk32 agg i, Bytes.be32 px, m])) % N)
              (Pt.add (Pt.mul (Schnorr.challenge (chunk32 agg i) m (Bytes.be32 px)) (Pt.aff px py)) rp)
           else Pt.add (Pt.mul (Schnorr.challenge (chunk32 agg i) m (Bytes.be32 px)) (Pt.aff px py)) rp)) := by
  conv => lhs; whnf
  rw [hf]
  dsimp only
  rw [hl]

/-- **The verification loop, index-wise.**  Started after the entries `pre` (hash object having
    absorbed exactly their bytes), the loop ends normally with `out` iff every remaining index has a
    defined specification term and `out` is the running sum plus these terms, added in order. -/
theorem verifyLoop_ok_iff (agg : Bytes) (pms pre rest : List (Pt × Bytes)) (h : Sha256.State) (rhs out : Pt)
    (hp : pms = pre ++ rest)
    (hA : Sha256.AbsorbedFrom Sha256.iv 0 h (tagBlock ++ hashedBytes agg 0 pre)) :
    verifyLoop agg pre.length rest h rhs = .ok out ↔
      ∃ terms : List Pt, (List.range' pre.length rest.length).map (termSpec agg pms) = terms.map some ∧
        out = terms.foldl Pt.add rhs := by
  induction rest generalizing pre h rhs with
  | nil =>
    rw [verifyLoop_nil]
    simp only [List.length_nil, List.range'_zero, List.map_nil]
    constructor
    · intro h; injection h with h; exact ⟨[], rfl, h.symm⟩
    · rintro ⟨terms, ht, ho⟩
      cases terms with
      | nil => rw [ho]; rfl
      | cons t ts => simp at ht
  | cons x rest ih =>
    obtain ⟨pk, m⟩ := x
    have hget : pms[pre.length]? = some (pk, m) := by
      rw [hp]; simp
    have htk : pms.take (pre.length + 1) = pre ++ [(pk, m)] := by
      rw [hp, List.take_append]
      simp [List.take_of_length_le]
    rw [List.length_cons, List.range'_succ, List.map_cons, cons_exists_iff]
    cases pk with
    | inf =>
      rw [verifyLoop_inf]
      simp [termSpec, hget]
    | aff px py =>
      have hA' := Sha256.absorbedFrom_writeAll hA [chunk32 agg pre.length, Bytes.be32 px, m]
      have hb : tagBlock ++ hashedBytes agg 0 pre ++ [chunk32 agg pre.length, Bytes.be32 px, m].flatten
          = tagBlock ++ hashedBytes agg 0 (pre ++ [(Pt.aff px py, m)]) := by
        simp [hashedBytes_append, hashedBytes, Pt.xOf]
      rw [hb] at hA'
      have hz : Bytes.toNat (Sha256.finalize
          (Sha256.writeAll h [chunk32 agg pre.length, Bytes.be32 px, m])) % N = zSpec agg pms pre.length := by
        rw [Sha256.finalize_eq hA', zSpec, htk]; rfl
      have hp' : pms = (pre ++ [(Pt.aff px py, m)]) ++ rest := by rw [hp]; simp
      have ih' := fun rhs' => ih (pre ++ [(Pt.aff px py, m)]) _ rhs' hp' hA'
      simp only [List.length_append, List.length_cons, List.length_nil, Nat.zero_add] at ih'
      simp only [termSpec, hget]
      cases hf : Codec.feLimit (chunk32 agg pre.length) with
      | none =>
        rw [verifyLoop_reject1 _ _ _ _ _ _ _ _ hf]
        simp
      | some rx =>
        cases hl : Pt.liftX rx false with
        | none =>
          rw [verifyLoop_reject2 _ _ _ _ _ _ _ _ _ hf hl]
          simp [hl]
        | some R =>
          rw [verifyLoop_step _ _ _ _ _ _ _ _ _ _ hf hl]
          simp only [hl, hz, ih', Option.some.injEq, exists_eq_left', List.foldl_cons]

/-! ### Minimal algebra on multiples of `G` (from the `GroupLaw` interface)

Only what completeness needs; local on purpose (`Proofs/Algebra.lean` is written independently). -/

theorem two_N_lt_mulBound : 2 * N < mulBound := by decide +kernel

theorem add_inf_right (p : Pt) : Pt.add p Pt.inf = p := by cases p <;> rfl

section Algebra
variable (gl : GroupLaw)
include gl

theorem valid_mulG' (k : Nat) (hk : k < mulBound) : (Pt.mul k Pt.G).valid = true := by
  induction k with
  | zero => rw [gl.mul_zero]; rfl
  | succ k ih =>
    rw [gl.mul_succ k Pt.G gl.valid_G hk]
    exact gl.valid_add _ _ (ih (by omega)) gl.valid_G

theorem mulG_add' (a b : Nat) (h : a + b < mulBound) :
    Pt.mul (a + b) Pt.G = Pt.add (Pt.mul a Pt.G) (Pt.mul b Pt.G) := by
  induction b with
  | zero => rw [gl.mul_zero, add_inf_right]; rfl
  | succ b ih =>
    have hb : a + b < mulBound := by omega
    rw [← Nat.add_assoc, gl.mul_succ (a + b) Pt.G gl.valid_G (by omega), ih hb,
      gl.mul_succ b Pt.G gl.valid_G (by omega),
      gl.add_assoc _ _ _ (valid_mulG' gl a (by omega)) (valid_mulG' gl b (by omega)) gl.valid_G]

/-- addition of multiples of `G` with reduced scalars, result reduced again (as `secp256k1_scalar_add`) -/
theorem mulG_add_mod (a b : Nat) (ha : a < N) (hb : b < N) :
    Pt.add (Pt.mul a Pt.G) (Pt.mul b Pt.G) = Pt.mul ((a + b) % N) Pt.G := by
  have h2 := two_N_lt_mulBound
  rw [← mulG_add' gl a b (by omega)]
  by_cases hlt : a + b < N
  · rw [Nat.mod_eq_of_lt hlt]
  · have hc : (a + b) % N = a + b - N := by
      rw [Nat.mod_eq_sub_mod (by omega), Nat.mod_eq_of_lt (by omega)]
    have hs : a + b = (a + b - N) + N := by omega
    rw [hc]
    conv => lhs; rw [hs]
    rw [mulG_add' gl _ _ (by omega), gl.mul_N_G, add_inf_right]

/-- `z • (s • G) = (s*z mod n) • G` for reduced scalars (as `secp256k1_scalar_mul`) -/
theorem mulG_mul (z s : Nat) (hz : z < N) (hs : s < N) :
    Pt.mul z (Pt.mul s Pt.G) = Pt.mul ((s * z) % N) Pt.G := by
  have h2 := two_N_lt_mulBound
  have hN : 0 < N := by omega
  induction z with
  | zero => rw [gl.mul_zero, Nat.mul_zero, Nat.zero_mod, gl.mul_zero]
  | succ z ih =>
    rw [gl.mul_succ z _ (valid_mulG' gl s (by omega)) (by omega), ih (by omega),
      mulG_add_mod gl _ _ (Nat.mod_lt _ hN) hs, Nat.mod_add_mod, Nat.mul_succ]

theorem neg_add_self_mulG (k : Nat) (hk : k < mulBound) :
    Pt.add (Pt.neg (Pt.mul k Pt.G)) (Pt.mul k Pt.G) = Pt.inf := by
  have hv := valid_mulG' gl k hk
  rw [gl.add_comm _ _ (gl.valid_neg _ hv) hv, gl.add_neg _ hv]

end Algebra

/-! ### Completeness: the verification loop on an honest aggregate -/

/-- The BIP-340 verification equation `s•G = R + e•P` for one entry `(P, m, r ‖ s)`:
    `P` a valid key object, `r < p`, `R = lift_x(r)`, `s < n`, `e` the BIP-340 challenge. -/
def bip340Holds (e : Entry) : Bool :=
  match e.1 with
  | .inf => false
  | .aff px _ =>
    match Codec.feLimit (e.2.2.take 32) with
    | none => false
    | some rx =>
      match Pt.liftX rx false with
      | none => false
      | some R =>
        decide (Bytes.toNat (e.2.2.drop 32) < N) &&
        decide (Pt.mulG (Bytes.toNat (e.2.2.drop 32)) =
          Pt.add (Pt.mul (Schnorr.challenge (e.2.2.take 32) e.2.1 (Bytes.be32 px)) e.1) R)

theorem verifyLoop_complete (gl : GroupLaw) (pre post : Bytes) (i : Nat) (xs : List Entry)
    (h : Sha256.State) (S : Nat) (r : Sha256.State × Nat)
    (hpre : pre.length = 32 * i) (hsig : ∀ e ∈ xs, e.2.2.length = 64)
    (hok : ∀ e ∈ xs, bip340Holds e = true) (hS : S < N)
    (hr : absorbNewSt i xs h S = some r) :
    verifyLoop (pre ++ (rs xs ++ post)) i (keyMsgs xs) h (Pt.mul S Pt.G) = .ok (Pt.mul r.2 Pt.G) := by
  have hN : 0 < N := by omega
  induction xs generalizing i h S pre with
  | nil =>
    simp only [absorbNewSt, Option.some.injEq] at hr
    subst hr
    rfl
  | cons e xs ih =>
    obtain ⟨pk, m, sg⟩ := e
    have hsg : (sg.take 32).length = 32 := by
      have := hsig (pk, m, sg) (by simp)
      simp only [List.length_take]
      simp only at this
      omega
    have hok1 := hok (pk, m, sg) (by simp)
    cases pk with
    | inf => simp [bip340Holds] at hok1
    | aff px py =>
      simp only [bip340Holds] at hok1
      cases hf : Codec.feLimit (sg.take 32) with
      | none => rw [hf] at hok1; simp at hok1
      | some rx =>
        rw [hf] at hok1
        simp only at hok1
        cases hl : Pt.liftX rx false with
        | none => rw [hl] at hok1; simp at hok1
        | some R =>
          rw [hl] at hok1
          simp only [Bool.and_eq_true, decide_eq_true_eq] at hok1
          obtain ⟨hslt, heq⟩ := hok1
          simp only [absorbNewSt] at hr
          have hchunk : chunk32 (pre ++ (rs ((Pt.aff px py, m, sg) :: xs) ++ post)) i = sg.take 32 := by
            simp only [rs_cons, List.append_assoc]
            exact chunk32_mid _ _ _ _ hpre hsg
          have hf' : Codec.feLimit (chunk32 (pre ++ (rs ((Pt.aff px py, m, sg) :: xs) ++ post)) i) = some rx := by
            rw [hchunk, hf]
          rw [keyMsgs_cons, verifyLoop_step _ _ _ _ _ _ _ _ _ _ hf' hl, hchunk]
          simp only [← heq]
          -- the term added by the verifier is the multiple of `G` added by the aggregator
          have hterm : (Pt.add (Pt.mul S Pt.G)
              (if i ≠ 0 then
                Pt.mul (Bytes.toNat (Sha256.finalize (Sha256.writeAll h [sg.take 32, Bytes.be32 px, m])) % N)
                  (Pt.mulG (Bytes.toNat (sg.drop 32)))
              else Pt.mulG (Bytes.toNat (sg.drop 32))))
              = Pt.mul (Sc.add S (if i ≠ 0 then
                  Sc.mul (Bytes.toNat (sg.drop 32) % N)
                    (Bytes.toNat (Sha256.finalize (Sha256.writeAll h [sg.take 32, Bytes.be32 px, m])) % N)
                  else Bytes.toNat (sg.drop 32) % N)) Pt.G := by
            rw [Nat.mod_eq_of_lt hslt]
            by_cases hi : i ≠ 0
            · rw [if_pos hi, if_pos hi]
              simp only [Pt.mulG, Sc.mul, Sc.add]
              rw [mulG_mul gl _ _ (Nat.mod_lt _ hN) hslt, mulG_add_mod gl _ _ hS (Nat.mod_lt _ hN)]
            · rw [if_neg hi, if_neg hi]
              simp only [Pt.mulG, Sc.add]
              rw [mulG_add_mod gl _ _ hS hslt]
          rw [hterm]
          have := ih (pre ++ sg.take 32) (i + 1) _ _
            (by simp only [List.length_append, hsg, hpre]; omega)
            (fun e he => hsig e (by simp [he])) (fun e he => hok e (by simp [he]))
            (Nat.mod_lt _ hN) hr
          simp only [rs_cons, List.append_assoc] at this ⊢
          exact this

end Halfagg

end SecpZkp
