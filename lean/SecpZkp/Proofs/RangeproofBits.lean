import SecpZkp.Model.Rangeproof
import SecpZkp.Proofs.Bytes
/-
  Bit-level facts about the sign bytes of a range proof (`setSignBit`, and the way `readDigits` reads them),
  checked exhaustively over all byte values.
-/
namespace SecpZkp
namespace Rangeproof

/-! ### sign bits -/

/-- bit `i` of the sign bytes, as the verifier reads it -/
def signBit (signs : Bytes) (i : Nat) : Bool :=
  signs.getD (i / 8) 0 &&& ((1 : UInt8) <<< UInt8.ofNat (i % 8)) ≠ 0

theorem bit_or_shift_aux1 : ∀ n < 256, ∀ qn < 2, ∀ k < 8,
    ((UInt8.ofNat n ||| (UInt8.ofNat qn <<< UInt8.ofNat k)) &&& ((1 : UInt8) <<< UInt8.ofNat k) ≠ 0) ↔
      (UInt8.ofNat n &&& ((1 : UInt8) <<< UInt8.ofNat k) ≠ 0 ∨ UInt8.ofNat qn = 1) := by
  decide +kernel

theorem bit_or_shift_aux2_bool :
    ((List.range 256).all fun n => (List.range 2).all fun qn => (List.range 8).all fun k => (List.range 8).all fun k' =>
      k == k' || (decide ((UInt8.ofNat n ||| (UInt8.ofNat qn <<< UInt8.ofNat k)) &&& ((1 : UInt8) <<< UInt8.ofNat k') ≠ 0) ==
        decide (UInt8.ofNat n &&& ((1 : UInt8) <<< UInt8.ofNat k') ≠ 0))) = true := by
  decide +kernel

theorem bit_or_shift_aux2 (n : Nat) (hn : n < 256) (qn : Nat) (hq : qn < 2) (k : Nat) (hk : k < 8) (k' : Nat)
    (hk' : k' < 8) (hne : k ≠ k') :
    (((UInt8.ofNat n ||| (UInt8.ofNat qn <<< UInt8.ofNat k)) &&& ((1 : UInt8) <<< UInt8.ofNat k') ≠ 0) ↔
      UInt8.ofNat n &&& ((1 : UInt8) <<< UInt8.ofNat k') ≠ 0) := by
  have h := bit_or_shift_aux2_bool
  rw [List.all_eq_true] at h
  have h1 := h n (List.mem_range.mpr hn)
  rw [List.all_eq_true] at h1
  have h2 := h1 qn (List.mem_range.mpr hq)
  rw [List.all_eq_true] at h2
  have h3 := h2 k (List.mem_range.mpr hk)
  rw [List.all_eq_true] at h3
  have h4 := h3 k' (List.mem_range.mpr hk')
  simp only [Bool.or_eq_true, beq_iff_eq, hne, false_or] at h4
  rw [← decide_eq_decide]
  exact h4

theorem le_one_cases (q : UInt8) (hq : q ≤ 1) : q = UInt8.ofNat 0 ∨ q = UInt8.ofNat 1 := by
  revert hq
  refine UInt8.forall_of_lt256 (p := fun q => q ≤ 1 → q = UInt8.ofNat 0 ∨ q = UInt8.ofNat 1) ?_ q
  decide +kernel

theorem bit_or_shift (b : UInt8) (q : UInt8) (hq : q ≤ 1) (k : Nat) (hk : k < 8) (k' : Nat) (hk' : k' < 8) :
    ((b ||| (q <<< UInt8.ofNat k)) &&& ((1 : UInt8) <<< UInt8.ofNat k') ≠ 0) ↔
      (if k = k' then (b &&& ((1 : UInt8) <<< UInt8.ofNat k') ≠ 0 ∨ q = 1)
       else b &&& ((1 : UInt8) <<< UInt8.ofNat k') ≠ 0) := by
  revert b
  refine UInt8.forall_of_lt256 ?_
  intro n hn
  by_cases hkk : k = k'
  · subst hkk
    rw [if_pos rfl]
    rcases le_one_cases q hq with h | h <;> subst h
    · exact bit_or_shift_aux1 n hn 0 (by decide) k hk
    · exact bit_or_shift_aux1 n hn 1 (by decide) k hk
  · rw [if_neg hkk]
    rcases le_one_cases q hq with h | h <;> subst h
    · exact bit_or_shift_aux2 n hn 0 (by decide) k hk k' hk' hkk
    · exact bit_or_shift_aux2 n hn 1 (by decide) k hk k' hk' hkk

theorem signBit_zeros (n i : Nat) : signBit (Bytes.zeros n) i = false := by
  unfold signBit Bytes.zeros
  have : (List.replicate n (0 : UInt8)).getD (i / 8) 0 = 0 := by
    rw [List.getD_eq_getElem?_getD, List.getElem?_replicate]
    split <;> rfl
  rw [this]
  simp

theorem signBit_setSignBit (signs : Bytes) (i : Nat) (q : UInt8) (hq : q ≤ 1) (hi : i / 8 < signs.length) (t : Nat) :
    signBit (setSignBit signs i q) t = if t = i then (signBit signs i || q == 1) else signBit signs t := by
  unfold signBit setSignBit
  by_cases hb : t / 8 = i / 8
  · rw [hb, List.getD_eq_getElem?_getD, List.getElem?_set_self hi]
    simp only [Option.getD_some]
    have h1 := bit_or_shift (signs.getD (i / 8) 0) q hq (i % 8) (Nat.mod_lt _ (by decide)) (t % 8)
      (Nat.mod_lt _ (by decide))
    by_cases hk : i % 8 = t % 8
    · have hti : t = i := by omega
      subst hti
      simp only [if_true] at h1 ⊢
      rw [Bool.eq_iff_iff]
      simp only [decide_eq_true_eq, Bool.or_eq_true, beq_iff_eq]
      exact h1
    · have hti : t ≠ i := by intro h; subst h; exact hk rfl
      simp only [hk, hti, if_false] at h1 ⊢
      rw [Bool.eq_iff_iff]
      simp only [decide_eq_true_eq]
      exact h1
  · have hti : t ≠ i := by intro h; subst h; exact hb rfl
    rw [if_neg hti, List.getD_eq_getElem?_getD, List.getElem?_set_ne (Ne.symm hb), ← List.getD_eq_getElem?_getD]

theorem length_setSignBit (signs : Bytes) (i : Nat) (q : UInt8) : (setSignBit signs i q).length = signs.length := by
  simp [setSignBit]

theorem high_bits_aux' : ∀ n < 256, ∀ k < 8, (UInt8.ofNat n).toNat >>> k ≠ 0 →
    ∃ pos < 8, k ≤ pos ∧ UInt8.ofNat n &&& ((1 : UInt8) <<< UInt8.ofNat pos) ≠ 0 := by
  decide +kernel

theorem high_bits_aux (b : UInt8) (k : Nat) (hk : k < 8) (h : b.toNat >>> k ≠ 0) :
    ∃ pos < 8, k ≤ pos ∧ b &&& ((1 : UInt8) <<< UInt8.ofNat pos) ≠ 0 := by
  revert h
  refine UInt8.forall_of_lt256 (p := fun b => b.toNat >>> k ≠ 0 →
    ∃ pos < 8, k ≤ pos ∧ b &&& ((1 : UInt8) <<< UInt8.ofNat pos) ≠ 0) ?_ b
  intro n hn
  exact high_bits_aux' n hn k hk

theorem high_bits_zero (b : UInt8) (k : Nat) (hk : k < 8)
    (h : ∀ pos < 8, k ≤ pos → b &&& ((1 : UInt8) <<< UInt8.ofNat pos) = 0) : b.toNat >>> k = 0 := by
  apply Classical.byContradiction
  intro hne
  obtain ⟨pos, hp, hkp, hb⟩ := high_bits_aux b k hk hne
  exact hb (h pos hp hkp)


end Rangeproof
end SecpZkp
