import SecpZkp.Model.Keys
import SecpZkp.Proofs.Algebra
import SecpZkp.Proofs.Bytes
import SecpZkp.Proofs.GroupExtra
/-
  Helper lemmas for property C04 (key derivation algebra): normal forms of the functions of
  `Model/Keys.lean` as plain `if` cascades over `Bytes.toNat`, and the algebra of points of the form
  `d • G` (`Pt.mulG d`) under the secret-key operations.  The property statements are in `Props/C04.lean`.
-/
namespace SecpZkp
namespace KeysLemmas
open SecpZkp.Algebra

/-! ### Scalars and 32-byte strings -/

theorem lt_pow_of_lt_N {d : Nat} (h : d < N) : d < 2 ^ 256 := lt_trans h N_lt_pow

theorem toNat_be32_of_lt_N {d : Nat} (h : d < N) : Bytes.toNat (Bytes.be32 d) = d :=
  Bytes.toNat_be32 (lt_pow_of_lt_N h)

theorem scNeg_of_pos {d : Nat} (h0 : 0 < d) (hN : d < N) : Sc.neg d = N - d := by
  unfold Sc.neg; rw [Nat.mod_eq_of_lt hN, Nat.mod_eq_of_lt (by omega)]

theorem scNeg_pos {d : Nat} (h0 : 0 < d) (hN : d < N) : 0 < Sc.neg d := by
  rw [scNeg_of_pos h0 hN]; omega

theorem toNat_zeros32 : Bytes.toNat (Bytes.zeros 32) = 0 := Bytes.toNat_replicate_zero 32

/-- `secp256k1_scalar_set_b32_seckey`: the value mod `N`, and validity `0 < value < N`. -/
theorem setB32Seckey_eq (sk : Bytes) :
    Sc.setB32Seckey sk = (Bytes.toNat sk % N, decide (0 < Bytes.toNat sk ∧ Bytes.toNat sk < N)) := by
  simp only [Sc.setB32Seckey, Sc.setB32]
  congr 1
  by_cases h : Bytes.toNat sk < N
  · by_cases h0 : Bytes.toNat sk = 0
    · simp [h0]
    · simp [h, Nat.mod_eq_of_lt h, h0, Nat.pos_of_ne_zero h0, Nat.not_le.2 h]
  · simp [h, Nat.not_lt.1 h]

theorem setB32_eq (t : Bytes) : Sc.setB32 t = (Bytes.toNat t % N, decide (N ≤ Bytes.toNat t)) := rfl

/-! ### Normal forms of the secret-key functions -/

theorem seckeyVerify_eq (sk : Bytes) :
    Keys.seckeyVerify sk = if 0 < Bytes.toNat sk ∧ Bytes.toNat sk < N then 1 else 0 := by
  unfold Keys.seckeyVerify; rw [setB32Seckey_eq]; simp

theorem pubkeyCreate_eq (sk : Bytes) :
    Keys.pubkeyCreate sk =
      if 0 < Bytes.toNat sk ∧ Bytes.toNat sk < N then (1, Pt.mulG (Bytes.toNat sk)) else (0, .inf) := by
  unfold Keys.pubkeyCreate; rw [setB32Seckey_eq]
  by_cases h : 0 < Bytes.toNat sk ∧ Bytes.toNat sk < N
  · simp [h, Nat.mod_eq_of_lt h.2]
  · simp [h]

theorem keypairCreate_eq (sk : Bytes) :
    Keys.keypairCreate sk =
      if 0 < Bytes.toNat sk ∧ Bytes.toNat sk < N
      then (1, ⟨Bytes.be32 (Bytes.toNat sk), Pt.mulG (Bytes.toNat sk)⟩) else (0, Keys.Keypair.zero) := by
  unfold Keys.keypairCreate; rw [setB32Seckey_eq]
  by_cases h : 0 < Bytes.toNat sk ∧ Bytes.toNat sk < N
  · simp [h, Nat.mod_eq_of_lt h.2]
  · simp [h]

theorem seckeyNegate_eq (sk : Bytes) :
    Keys.seckeyNegate sk =
      if 0 < Bytes.toNat sk ∧ Bytes.toNat sk < N then (1, Bytes.be32 (N - Bytes.toNat sk))
      else (0, Bytes.zeros 32) := by
  unfold Keys.seckeyNegate; rw [setB32Seckey_eq]
  by_cases h : 0 < Bytes.toNat sk ∧ Bytes.toNat sk < N
  · simp [h, Nat.mod_eq_of_lt h.2, scNeg_of_pos h.1 h.2]
  · simp [h]

theorem seckeyTweakAddHelper_eq (d : Nat) (t : Bytes) :
    Ecdsa.seckeyTweakAddHelper d t =
      if Bytes.toNat t < N ∧ (d + Bytes.toNat t) % N ≠ 0 then some ((d + Bytes.toNat t) % N) else none := by
  unfold Ecdsa.seckeyTweakAddHelper; rw [setB32_eq]
  by_cases h : Bytes.toNat t < N
  · have h' : ¬ N ≤ Bytes.toNat t := Nat.not_le.2 h
    by_cases h2 : (d + Bytes.toNat t) % N = 0
    · simp [h, h', Sc.add, Nat.mod_eq_of_lt h, h2]
    · simp [h, h', Sc.add, Nat.mod_eq_of_lt h, h2]
  · have h' : N ≤ Bytes.toNat t := Nat.not_lt.1 h
    simp [h, h']

theorem seckeyTweakAdd_eq (sk t : Bytes) :
    Keys.seckeyTweakAdd sk t =
      if (0 < Bytes.toNat sk ∧ Bytes.toNat sk < N) ∧ Bytes.toNat t < N ∧
          (Bytes.toNat sk + Bytes.toNat t) % N ≠ 0
      then (1, Bytes.be32 ((Bytes.toNat sk + Bytes.toNat t) % N)) else (0, Bytes.zeros 32) := by
  unfold Keys.seckeyTweakAdd; rw [setB32Seckey_eq]
  simp only [seckeyTweakAddHelper_eq]
  by_cases h : 0 < Bytes.toNat sk ∧ Bytes.toNat sk < N
  · rw [Nat.mod_eq_of_lt h.2]
    by_cases h2 : Bytes.toNat t < N ∧ (Bytes.toNat sk + Bytes.toNat t) % N ≠ 0
    · simp [h, h2]
    · simp [h2]
  · simp only [h, decide_false, Bool.false_eq_true, if_false]
    split <;> simp

theorem seckeyTweakMul_eq (sk t : Bytes) :
    Keys.seckeyTweakMul sk t =
      if (0 < Bytes.toNat sk ∧ Bytes.toNat sk < N) ∧ Bytes.toNat t < N ∧ Bytes.toNat t ≠ 0
      then (1, Bytes.be32 (Bytes.toNat sk * Bytes.toNat t % N)) else (0, Bytes.zeros 32) := by
  unfold Keys.seckeyTweakMul; rw [setB32Seckey_eq, setB32_eq]
  by_cases h : 0 < Bytes.toNat sk ∧ Bytes.toNat sk < N
  · by_cases h2 : Bytes.toNat t < N
    · have h' : ¬ N ≤ Bytes.toNat t := Nat.not_le.2 h2
      by_cases h3 : Bytes.toNat t = 0
      · simp [h, h3]
      · simp [h, h2, h', h3, Nat.mod_eq_of_lt h2, Nat.mod_eq_of_lt h.2, Sc.mul]
    · have h' : N ≤ Bytes.toNat t := Nat.not_lt.1 h2
      simp [h2, h']
  · simp [h]

/-! ### Normal forms of the public-key functions -/

theorem pubkeyTweakAddHelper_eq (p : Pt) (t : Bytes) :
    Ecdsa.pubkeyTweakAddHelper p t =
      if Bytes.toNat t < N ∧ Pt.add p (Pt.mulG (Bytes.toNat t)) ≠ .inf
      then some (Pt.add p (Pt.mulG (Bytes.toNat t))) else none := by
  unfold Ecdsa.pubkeyTweakAddHelper; rw [setB32_eq]
  by_cases h : Bytes.toNat t < N
  · have h' : ¬ N ≤ Bytes.toNat t := Nat.not_le.2 h
    simp only [h', decide_false, Bool.false_eq_true, if_false, Nat.mod_eq_of_lt h, h, true_and]
    cases hq : Pt.add p (Pt.mulG (Bytes.toNat t)) <;> simp
  · have h' : N ≤ Bytes.toNat t := Nat.not_lt.1 h
    simp [h, h']

theorem pubkeyNegate_eq (pk : Pt) :
    Keys.pubkeyNegate pk = if pk = .inf then ⟨0, .inf, 1⟩ else ⟨1, Pt.neg pk, 0⟩ := by
  cases pk <;> simp [Keys.pubkeyNegate]

theorem pubkeyTweakAdd_eq (pk : Pt) (t : Bytes) :
    Keys.pubkeyTweakAdd pk t =
      if pk = .inf then ⟨0, .inf, 1⟩
      else if Bytes.toNat t < N ∧ Pt.add pk (Pt.mulG (Bytes.toNat t)) ≠ .inf
      then ⟨1, Pt.add pk (Pt.mulG (Bytes.toNat t)), 0⟩ else ⟨0, .inf, 0⟩ := by
  cases pk with
  | inf => simp [Keys.pubkeyTweakAdd]
  | aff x y =>
    simp only [Keys.pubkeyTweakAdd, pubkeyTweakAddHelper_eq, reduceCtorEq, if_false]
    by_cases h : Bytes.toNat t < N ∧ Pt.add (.aff x y) (Pt.mulG (Bytes.toNat t)) ≠ .inf
    · rw [if_pos h, if_pos h]
    · rw [if_neg h, if_neg h]

theorem pubkeyTweakMul_eq (pk : Pt) (t : Bytes) :
    Keys.pubkeyTweakMul pk t =
      if N ≤ Bytes.toNat t then ⟨0, .inf, 0⟩
      else if pk = .inf then ⟨0, .inf, 1⟩
      else if Bytes.toNat t = 0 then ⟨0, .inf, 0⟩
      else ⟨1, Pt.mul (Bytes.toNat t) pk, 0⟩ := by
  unfold Keys.pubkeyTweakMul; rw [setB32_eq]
  by_cases h : N ≤ Bytes.toNat t
  · simp [h]
  · have h2 : Bytes.toNat t < N := Nat.not_le.1 h
    cases pk with
    | inf => simp [h]
    | aff x y => simp [h, Nat.mod_eq_of_lt h2]

theorem pubkeyCombine_eq (pks : List Pt) :
    Keys.pubkeyCombine pks =
      if pks = [] then ⟨0, .inf, 1⟩
      else if Pt.sum pks = .inf then ⟨0, .inf, 0⟩ else ⟨1, Pt.sum pks, 0⟩ := by
  unfold Keys.pubkeyCombine
  by_cases h : pks = []
  · simp [h]
  · have : pks.isEmpty = false := by simpa using h
    simp only [this, Bool.false_eq_true, if_false, h]
    cases hs : Pt.sum pks <;> simp

theorem evenY_aff (x y : Nat) :
    Keys.evenY (.aff x y) =
      (if Fe.isOdd y then Pt.neg (.aff x y) else .aff x y, if Fe.isOdd y then 1 else 0) := by
  by_cases h : Fe.isOdd y = true <;> simp [Keys.evenY, h, Pt.neg]

theorem xonlyFromPubkey_eq (pk : Pt) :
    Keys.xonlyFromPubkey pk = if pk = .inf then ⟨0, (.inf, 0), 1⟩ else ⟨1, Keys.evenY pk, 0⟩ := by
  cases pk <;> simp [Keys.xonlyFromPubkey]

theorem xonlyTweakAddCheck_eq (tw : Bytes) (par : Nat) (xpk : Pt) (t : Bytes) :
    Keys.xonlyTweakAddCheck tw par xpk t =
      if xpk = .inf then ⟨0, (), 1⟩
      else if Bytes.toNat t < N ∧ Pt.add xpk (Pt.mulG (Bytes.toNat t)) ≠ .inf then
        ⟨if Bytes.be32 (Pt.add xpk (Pt.mulG (Bytes.toNat t))).xOf = tw ∧
            (if Fe.isOdd (Pt.add xpk (Pt.mulG (Bytes.toNat t))).yOf then 1 else 0) = par then 1 else 0, (), 0⟩
      else ⟨0, (), 0⟩ := by
  cases xpk with
  | inf => simp [Keys.xonlyTweakAddCheck]
  | aff x y =>
    simp only [Keys.xonlyTweakAddCheck, pubkeyTweakAddHelper_eq, reduceCtorEq, if_false]
    by_cases h : Bytes.toNat t < N ∧ Pt.add (.aff x y) (Pt.mulG (Bytes.toNat t)) ≠ .inf
    · rw [if_pos h, if_pos h]; simp
    · rw [if_neg h, if_neg h]

theorem keypairLoad_valid {d : Nat} (h0 : 0 < d) (hN : d < N) {q : Pt} (hq : q ≠ .inf) :
    Keys.keypairLoad ⟨Bytes.be32 d, q⟩ true = (true, d, q, 0) := by
  cases q with
  | inf => exact absurd rfl hq
  | aff x y =>
    simp only [Keys.keypairLoad, setB32Seckey_eq, toNat_be32_of_lt_N hN]
    simp [h0, hN, Nat.mod_eq_of_lt hN]

/-! ### Algebra of points `d • G` -/

section Alg
variable [HasGroupLaw]

theorem pub_eq_gmul {d : Nat} (hd : d < N) : Pt.mulG d = gmul (d : ZMod N) :=
  mulG_eq_gmul (lt_mulBound_of_lt_N hd)

theorem pub_valid {d : Nat} (hd : d < N) : (Pt.mulG d).valid = true :=
  mulG_valid (lt_mulBound_of_lt_N hd)

theorem pub_eq_inf_iff {d : Nat} (hd : d < N) : Pt.mulG d = .inf ↔ d = 0 := by
  rw [pub_eq_gmul hd, gmul_eq_inf_iff, cast_eq_zero hd]

theorem pub_inj {a b : Nat} (ha : a < N) (hb : b < N) (h : Pt.mulG a = Pt.mulG b) : a = b := by
  rw [pub_eq_gmul ha, pub_eq_gmul hb] at h
  exact (cast_inj ha hb).1 (gmul_injective h)

/-- `a•G + b•G = ((a + b) mod N)•G` -/
theorem pub_add {a b : Nat} (ha : a < N) (hb : b < N) :
    Pt.add (Pt.mulG a) (Pt.mulG b) = Pt.mulG ((a + b) % N) := by
  rw [pub_eq_gmul ha, pub_eq_gmul hb, pub_eq_gmul (Nat.mod_lt _ N_pos), add_gmul, ZMod.natCast_mod,
    Nat.cast_add]

/-- `-(d•G) = (-d mod N)•G` -/
theorem pub_neg {d : Nat} (hd : d < N) : Pt.neg (Pt.mulG d) = Pt.mulG (Sc.neg d) := by
  rw [pub_eq_gmul hd, pub_eq_gmul (Sc.neg_lt d), neg_gmul, cast_neg]

theorem pub_neg' {d : Nat} (h0 : 0 < d) (hd : d < N) : Pt.neg (Pt.mulG d) = Pt.mulG (N - d) := by
  rw [pub_neg hd, scNeg_of_pos h0 hd]

/-- `f•(d•G) = (d f mod N)•G` -/
theorem pub_mul {f d : Nat} (hf : f < N) (hd : d < N) :
    Pt.mul f (Pt.mulG d) = Pt.mulG (d * f % N) := by
  rw [pub_eq_gmul hd, pub_eq_gmul (Nat.mod_lt _ N_pos), mul_gmul (lt_mulBound_of_lt_N hf),
    ZMod.natCast_mod, Nat.cast_mul, mul_comm]

theorem mul_mod_N_pos {d f : Nat} (hd0 : 0 < d) (hd : d < N) (hf0 : 0 < f) (hf : f < N) :
    0 < d * f % N := by
  apply Nat.pos_of_ne_zero
  intro h
  have h1 : ((d * f : Nat) : ZMod N) = 0 := (cast_eq_zero_iff_mod _).2 h
  rw [Nat.cast_mul, mul_eq_zero, cast_eq_zero hd, cast_eq_zero hf] at h1
  omega

/-- the sum of a list of valid points is valid -/
theorem foldl_add_valid (ps : List Pt) (acc : Pt) (ha : acc.valid = true)
    (h : ∀ p ∈ ps, p.valid = true) : (ps.foldl Pt.add acc).valid = true := by
  induction ps generalizing acc with
  | nil => exact ha
  | cons p ps ih =>
    simp only [List.foldl_cons]
    exact ih _ (gl.valid_add _ _ ha (h p (by simp))) (fun q hq => h q (by simp [hq]))

theorem sum_valid (ps : List Pt) (h : ∀ p ∈ ps, p.valid = true) : (Pt.sum ps).valid = true :=
  foldl_add_valid ps .inf rfl h

theorem foldl_add_eq (ps : List Pt) (acc : Pt) (ha : acc.valid = true)
    (h : ∀ p ∈ ps, p.valid = true) : ps.foldl Pt.add acc = Pt.add acc (Pt.sum ps) := by
  induction ps generalizing acc with
  | nil => simp [Pt.sum]
  | cons p ps ih =>
    have hp : p.valid = true := h p (by simp)
    have hps : ∀ q ∈ ps, q.valid = true := fun q hq => h q (by simp [hq])
    simp only [Pt.sum, List.foldl_cons, add_inf_left]
    rw [ih _ (gl.valid_add _ _ ha hp) hps, ih p hp hps,
      gl.add_assoc _ _ _ ha hp (sum_valid ps hps)]

theorem sum_cons (p : Pt) (ps : List Pt) (hp : p.valid = true) (h : ∀ q ∈ ps, q.valid = true) :
    Pt.sum (p :: ps) = Pt.add p (Pt.sum ps) := by
  show (p :: ps).foldl Pt.add .inf = _
  rw [List.foldl_cons, add_inf_left, foldl_add_eq ps p hp h]

theorem sum_append (as bs : List Pt) (ha : ∀ q ∈ as, q.valid = true) (hb : ∀ q ∈ bs, q.valid = true) :
    Pt.sum (as ++ bs) = Pt.add (Pt.sum as) (Pt.sum bs) := by
  unfold Pt.sum
  rw [List.foldl_append]
  exact foldl_add_eq bs _ (sum_valid as ha) hb

/-- the sum does not depend on the order of the keys -/
theorem sum_perm {as bs : List Pt} (hp : as.Perm bs) (ha : ∀ q ∈ as, q.valid = true) :
    Pt.sum as = Pt.sum bs := by
  induction hp with
  | nil => rfl
  | cons x _ ih =>
    have hx := ha x (by simp)
    have hl := fun q hq => ha q (List.mem_cons_of_mem _ hq)
    rw [sum_cons _ _ hx hl, sum_cons _ _ hx (fun q hq => hl q ((List.Perm.mem_iff ‹_›).2 hq)), ih hl]
  | swap x y l =>
    have hx := ha x (by simp)
    have hy := ha y (by simp)
    have hl : ∀ q ∈ l, q.valid = true := fun q hq => ha q (by simp [hq])
    have hxl : ∀ q ∈ x :: l, q.valid = true := fun q hq => ha q (by simp at hq ⊢; tauto)
    have hyl : ∀ q ∈ y :: l, q.valid = true := fun q hq => ha q (by simp at hq ⊢; tauto)
    rw [sum_cons _ _ hy hxl, sum_cons _ _ hx hl, sum_cons _ _ hx hyl, sum_cons _ _ hy hl,
      ← gl.add_assoc _ _ _ hy hx (sum_valid l hl), ← gl.add_assoc _ _ _ hx hy (sum_valid l hl),
      gl.add_comm _ _ hx hy]
  | trans h1 _ ih1 ih2 =>
    rw [ih1 ha, ih2 (fun q hq => ha q ((List.Perm.mem_iff h1).2 hq))]

/-- sum of keys `d_i • G` -/
theorem sum_pub (ds : List Nat) (h : ∀ d ∈ ds, d < N) :
    Pt.sum (ds.map Pt.mulG) = Pt.mulG (ds.sum % N) := by
  induction ds with
  | nil =>
    show Pt.inf = Pt.mulG (0 % N)
    rw [Nat.zero_mod]; exact ((pub_eq_inf_iff N_pos).2 rfl).symm
  | cons d ds ih =>
    have hd : d < N := h d (by simp)
    have hds : ∀ e ∈ ds, e < N := fun e he => h e (by simp [he])
    rw [List.map_cons, sum_cons _ _ (pub_valid hd), ih hds, pub_add hd (Nat.mod_lt _ N_pos),
      List.sum_cons, Nat.add_mod_mod]
    intro q hq
    obtain ⟨e, he, rfl⟩ := List.mem_map.1 hq
    exact pub_valid (hds e he)

end Alg

/-! ### Coordinate-wise equality of points (used only in the `decide +kernel` examples)

`decide +kernel` on an equation `p = q` between two COMPUTED points makes the kernel compare the two
unevaluated coordinate expressions structurally (inside the derived `DecidableEq Pt`), which does not
terminate in reasonable time; comparing the coordinates as numbers does.  `sameXY p q` is equality. -/

/-- both infinity, or both finite with equal coordinates -/
def sameXY (p q : Pt) : Prop := p.isInf = q.isInf ∧ p.xOf = q.xOf ∧ p.yOf = q.yOf

instance (p q : Pt) : Decidable (sameXY p q) := by unfold sameXY; infer_instance

theorem sameXY_iff (p q : Pt) : sameXY p q ↔ p = q := by
  cases p <;> cases q <;> simp [sameXY, Pt.isInf, Pt.xOf, Pt.yOf]

/-! ### Closed forms of the public-key functions on keys `d • G` -/

/-- the secret key of the even-y version of `d • G` (`secp256k1_keypair_xonly_tweak_add` negates the secret
key iff the public key has odd y) -/
def evenSk (d : Nat) : Nat := if Fe.isOdd (Pt.mulG d).yOf then N - d else d

/-- the parity bit reported for `d • G` -/
def parityOf (d : Nat) : Nat := if Fe.isOdd (Pt.mulG d).yOf then 1 else 0

theorem evenSk_pos_lt {d : Nat} (h0 : 0 < d) (hN : d < N) : 0 < evenSk d ∧ evenSk d < N := by
  unfold evenSk; split <;> omega

section Closed
variable [HasGroupLaw]

theorem pub_ne_inf {d : Nat} (h0 : 0 < d) (hN : d < N) : Pt.mulG d ≠ .inf := mulG_ne_inf h0 hN

theorem pubkeyNegate_pub {d : Nat} (h0 : 0 < d) (hN : d < N) :
    Keys.pubkeyNegate (Pt.mulG d) = ⟨1, Pt.mulG (N - d), 0⟩ := by
  rw [pubkeyNegate_eq, if_neg (pub_ne_inf h0 hN), pub_neg' h0 hN]

theorem add_pub_ne_inf_iff {d t : Nat} (hd : d < N) (ht : t < N) :
    Pt.add (Pt.mulG d) (Pt.mulG t) ≠ .inf ↔ (d + t) % N ≠ 0 := by
  rw [pub_add hd ht, Ne, pub_eq_inf_iff (Nat.mod_lt _ N_pos)]

theorem pubkeyTweakAddHelper_pub {d : Nat} (hN : d < N) (t : Bytes) :
    Ecdsa.pubkeyTweakAddHelper (Pt.mulG d) t =
      if Bytes.toNat t < N ∧ (d + Bytes.toNat t) % N ≠ 0
      then some (Pt.mulG ((d + Bytes.toNat t) % N)) else none := by
  rw [pubkeyTweakAddHelper_eq]
  by_cases ht : Bytes.toNat t < N
  · by_cases h2 : (d + Bytes.toNat t) % N ≠ 0
    · rw [if_pos ⟨ht, (add_pub_ne_inf_iff hN ht).2 h2⟩, if_pos ⟨ht, h2⟩, pub_add hN ht]
    · rw [if_neg (fun h => h2 ((add_pub_ne_inf_iff hN ht).1 h.2)), if_neg (fun h => h2 h.2)]
  · rw [if_neg (fun h => ht h.1), if_neg (fun h => ht h.1)]

theorem pubkeyTweakAdd_pub {d : Nat} (h0 : 0 < d) (hN : d < N) (t : Bytes) :
    Keys.pubkeyTweakAdd (Pt.mulG d) t =
      if Bytes.toNat t < N ∧ (d + Bytes.toNat t) % N ≠ 0
      then ⟨1, Pt.mulG ((d + Bytes.toNat t) % N), 0⟩ else ⟨0, .inf, 0⟩ := by
  rw [pubkeyTweakAdd_eq, if_neg (pub_ne_inf h0 hN)]
  by_cases ht : Bytes.toNat t < N
  · by_cases h2 : (d + Bytes.toNat t) % N ≠ 0
    · rw [if_pos ⟨ht, (add_pub_ne_inf_iff hN ht).2 h2⟩, if_pos ⟨ht, h2⟩, pub_add hN ht]
    · rw [if_neg (fun h => h2 ((add_pub_ne_inf_iff hN ht).1 h.2)), if_neg (fun h => h2 h.2)]
  · rw [if_neg (fun h => ht h.1), if_neg (fun h => ht h.1)]

omit [HasGroupLaw] in
theorem seckeyTweakAdd_be32 {d : Nat} (h0 : 0 < d) (hN : d < N) (t : Bytes) :
    Keys.seckeyTweakAdd (Bytes.be32 d) t =
      if Bytes.toNat t < N ∧ (d + Bytes.toNat t) % N ≠ 0
      then (1, Bytes.be32 ((d + Bytes.toNat t) % N)) else (0, Bytes.zeros 32) := by
  rw [seckeyTweakAdd_eq, toNat_be32_of_lt_N hN]
  simp only [h0, hN, and_self, true_and]

omit [HasGroupLaw] in
theorem seckeyTweakMul_be32 {d : Nat} (h0 : 0 < d) (hN : d < N) (t : Bytes) :
    Keys.seckeyTweakMul (Bytes.be32 d) t =
      if Bytes.toNat t < N ∧ Bytes.toNat t ≠ 0
      then (1, Bytes.be32 (d * Bytes.toNat t % N)) else (0, Bytes.zeros 32) := by
  rw [seckeyTweakMul_eq, toNat_be32_of_lt_N hN]
  simp only [h0, hN, and_self, true_and]

omit [HasGroupLaw] in
theorem seckeyNegate_be32 {d : Nat} (h0 : 0 < d) (hN : d < N) :
    Keys.seckeyNegate (Bytes.be32 d) = (1, Bytes.be32 (N - d)) := by
  rw [seckeyNegate_eq, toNat_be32_of_lt_N hN]
  simp only [h0, hN, and_self, if_true]

omit [HasGroupLaw] in
theorem pubkeyCreate_be32 {d : Nat} (h0 : 0 < d) (hN : d < N) :
    Keys.pubkeyCreate (Bytes.be32 d) = (1, Pt.mulG d) := by
  rw [pubkeyCreate_eq, toNat_be32_of_lt_N hN]
  simp only [h0, hN, and_self, if_true]

omit [HasGroupLaw] in
theorem keypairCreate_be32 {d : Nat} (h0 : 0 < d) (hN : d < N) :
    Keys.keypairCreate (Bytes.be32 d) = (1, ⟨Bytes.be32 d, Pt.mulG d⟩) := by
  rw [keypairCreate_eq, toNat_be32_of_lt_N hN]
  simp only [h0, hN, and_self, if_true]

theorem pubkeyTweakMul_pub {d : Nat} (h0 : 0 < d) (hN : d < N) (t : Bytes) :
    Keys.pubkeyTweakMul (Pt.mulG d) t =
      if Bytes.toNat t < N ∧ Bytes.toNat t ≠ 0
      then ⟨1, Pt.mulG (d * Bytes.toNat t % N), 0⟩ else ⟨0, .inf, 0⟩ := by
  rw [pubkeyTweakMul_eq]
  by_cases ht : Bytes.toNat t < N
  · rw [if_neg (Nat.not_le.2 ht), if_neg (pub_ne_inf h0 hN)]
    by_cases h2 : Bytes.toNat t = 0
    · rw [if_pos h2, if_neg (fun h => h.2 h2)]
    · rw [if_neg h2, if_pos ⟨ht, h2⟩, pub_mul ht hN]
  · rw [if_pos (Nat.not_lt.1 ht), if_neg (fun h => ht h.1)]

/-- x-only conversion of `d • G`: the even-y point is `(evenSk d) • G`. -/
theorem evenY_pub {d : Nat} (h0 : 0 < d) (hN : d < N) :
    Keys.evenY (Pt.mulG d) = (Pt.mulG (evenSk d), parityOf d) := by
  obtain ⟨x, y, h⟩ := mulG_eq_aff h0 hN
  have hneg := pub_neg' h0 hN
  unfold evenSk parityOf
  rw [h] at hneg
  rw [h, evenY_aff]
  simp only [Pt.yOf]
  by_cases ho : Fe.isOdd y = true
  · simp only [ho, if_true]; rw [hneg]
  · simp only [ho]; rw [← h]; simp

/-- x-only conversion of a valid point: same x, even y, still valid; parity as reported. -/
theorem evenY_valid {x y : Nat} (hv : (Pt.aff x y).valid = true) :
    (Keys.evenY (.aff x y)).1.valid = true ∧ (Keys.evenY (.aff x y)).1 ≠ .inf ∧
    (Keys.evenY (.aff x y)).1.xOf = x ∧ Fe.isOdd (Keys.evenY (.aff x y)).1.yOf = false ∧
    (Keys.evenY (.aff x y)).2 = (if Fe.isOdd y then 1 else 0) ∧
    (Keys.evenY (.aff x y)).1 = (if Fe.isOdd y then Pt.neg (.aff x y) else .aff x y) := by
  have : Fact (Nat.Prime P) := ⟨Algebra.prime_P⟩
  rw [evenY_aff]
  by_cases ho : Fe.isOdd y = true
  · simp only [ho, if_true]
    refine ⟨gl.valid_neg _ hv, by simp [Pt.neg], by simp [Pt.neg], ?_, trivial, trivial⟩
    show Fe.isOdd (Fe.neg y) = false
    rw [isOdd_neg hv, ho]; rfl
  · simp only [ho]
    exact ⟨hv, by simp, by simp, by simpa using ho, by simp⟩

theorem keypairXonlyTweakAdd_valid {d : Nat} (h0 : 0 < d) (hN : d < N) (t : Bytes) :
    Keys.keypairXonlyTweakAdd ⟨Bytes.be32 d, Pt.mulG d⟩ t =
      if Bytes.toNat t < N ∧ (evenSk d + Bytes.toNat t) % N ≠ 0
      then ⟨1, ⟨Bytes.be32 ((evenSk d + Bytes.toNat t) % N), Pt.mulG ((evenSk d + Bytes.toNat t) % N)⟩, 0⟩
      else ⟨0, Keys.Keypair.zero, 0⟩ := by
  unfold Keys.keypairXonlyTweakAdd
  rw [keypairLoad_valid h0 hN (pub_ne_inf h0 hN)]
  simp only []
  rw [evenY_pub h0 hN]
  simp only []
  have hsk : (if parityOf d = 1 then Sc.neg d else d) = evenSk d := by
    unfold parityOf evenSk
    split <;> simp [scNeg_of_pos h0 hN]
  rw [hsk, seckeyTweakAddHelper_eq, pubkeyTweakAddHelper_pub (evenSk_pos_lt h0 hN).2]
  by_cases h : Bytes.toNat t < N ∧ (evenSk d + Bytes.toNat t) % N ≠ 0
  · rw [if_pos h, if_pos h, if_pos h]; simp
  · rw [if_neg h, if_neg h, if_neg h]

end Closed

end KeysLemmas
end SecpZkp
