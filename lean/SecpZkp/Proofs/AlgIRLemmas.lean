import SecpZkp.Model.AlgIR
import SecpZkp.Proofs.GroupIR
/-
  Symbolic execution of `AlgIR` programs (`Model/AlgIR.lean`; the generated protocol cores of `Gen/P_*.lean`):

  * `lookup` / `update` on (literal) names, `State.feGet` with its fall-back to the coordinates of a point variable,
  * one rewrite rule per statement kind for `execS` on a state written as an explicit constructor
    `⟨sc, fe, pt, bs, ints, returned⟩`; the getters are rewritten to `lookup` / `feGetL` / `Env.get`,
  * `execL` on `[]`, on `s :: rest` (not yet returned), on a state that has returned, and through an `if`
    (the continuation of a statement list is pushed into both branches: a function with early returns is executed
    by ONE `simp` call into a decision tree of final states),
  * evaluation of the integer expressions (`MiniC.evalEI`) that the translator emits for flags,
  * the simp set `alg_run` (a macro: `alg_run [extra lemmas]`).

  Two hazards met while using it (both are about REDUCTION, not about the logic):
  * `rw [execS]` / `execS.eq_1` cannot be generated (recursion depth); the rules below are proved by `rfl` or from
    `execS.eq_def`.
  * A term `match Pt.liftX (r + N) b with …` must never be the major premise of a matcher that the KERNEL has to
    reduce: `r + N` with the literal `N` is turned into `Nat.succ (r + (N - 1))` and peeled `N` times (the check does not
    terminate, and the kernel has no heartbeat limit).  `generalize` does not help (the proof term is β-reduced when the
    metavariables are instantiated); a LEMMA whose statement has a variable `fx` with `r + N = fx` does
    (`Props/C01_ir.lean`, `recover_run`).
-/
namespace SecpZkp
namespace AlgIR
open MiniC

/-! ### Variable stores -/

theorem lookup_update {α : Type} (dflt : α) (l : List (String × α)) (x y : String) (v : α) :
    lookup dflt (update l x v) y = if x = y then v else lookup dflt l y := by
  unfold lookup update
  by_cases h : x = y
  · subst h; simp
  · simp only [h, if_false]
    rw [List.find?_cons_of_neg (by simpa using h)]
    rw [List.find?_filter]
    congr 2
    funext a
    by_cases h2 : a.1 = y
    · subst h2; simp; exact fun h3 => h h3.symm
    · simp [h2]

theorem lookup_update_same {α : Type} (dflt : α) (l : List (String × α)) (x : String) (v : α) :
    lookup dflt (update l x v) x = v := by rw [lookup_update, if_pos rfl]

theorem lookup_update_ne {α : Type} (dflt : α) (l : List (String × α)) (x y : String) (v : α) (h : x ≠ y) :
    lookup dflt (update l x v) y = lookup dflt l y := by rw [lookup_update, if_neg h]

theorem find_update {α : Type} (l : List (String × α)) (x y : String) (v : α) :
    (update l x v).find? (·.1 == y) = if x = y then some (x, v) else l.find? (·.1 == y) := by
  unfold update
  by_cases h : x = y
  · subst h; simp
  · simp only [h, if_false]
    rw [List.find?_cons_of_neg (by simpa using h)]
    rw [List.find?_filter]
    congr 1
    funext a
    by_cases h2 : a.1 = y
    · subst h2; simp; exact fun h3 => h h3.symm
    · simp [h2]

/-- `State.feGet` as a function of the two stores it reads -/
def feGetL (fe : List (String × Nat)) (pt : List (String × Pt)) (x : String) : Nat :=
  match fe.find? (·.1 == x) with
  | some p => p.2
  | none =>
    if x.endsWith ".x" then Pt.xOf (lookup Pt.inf pt (String.ofList (x.toList.dropLast.dropLast)))
    else if x.endsWith ".y" then Pt.yOf (lookup Pt.inf pt (String.ofList (x.toList.dropLast.dropLast)))
    else 0

theorem feGetL_update (fe : List (String × Nat)) (pt : List (String × Pt)) (x y : String) (v : Nat) :
    feGetL (update fe x v) pt y = if x = y then v else feGetL fe pt y := by
  unfold feGetL
  rw [find_update]
  by_cases h : x = y
  · simp only [h, if_true]
  · simp only [h, if_false]

theorem endsWith_iff (s pat : String) : s.endsWith pat = true ↔ pat.toList <:+ s.toList := by
  rw [String.endsWith_eq_endsWith_toSlice, String.Slice.endsWith_string_iff]
  simp
theorem endsWith_false_iff (s pat : String) : s.endsWith pat = false ↔ ¬ pat.toList <:+ s.toList := by
  rw [← endsWith_iff]; simp

/-- a name that is not bound as a field variable and ends in `.x`: the abscissa of the point variable -/
theorem feGetL_coord_x (fe : List (String × Nat)) (pt : List (String × Pt)) (x p : String)
    (hfe : fe.find? (·.1 == x) = none) (hx : x.endsWith ".x" = true)
    (hp : String.ofList (x.toList.dropLast.dropLast) = p) :
    feGetL fe pt x = Pt.xOf (lookup Pt.inf pt p) := by
  unfold feGetL
  rw [hfe]
  simp only [hx, if_true, hp]

theorem feGetL_coord_y (fe : List (String × Nat)) (pt : List (String × Pt)) (x p : String)
    (hfe : fe.find? (·.1 == x) = none) (hx : x.endsWith ".x" = false) (hy : x.endsWith ".y" = true)
    (hp : String.ofList (x.toList.dropLast.dropLast) = p) :
    feGetL fe pt x = Pt.yOf (lookup Pt.inf pt p) := by
  unfold feGetL
  rw [hfe]
  simp only [hx, hy, if_true, hp, Bool.false_eq_true, if_false]

/-! ### Getters on an explicit state -/

section getters
variable (sc fe : List (String × Nat)) (pt : List (String × Pt)) (bs : List (String × Bytes)) (ints : Env) (r : Bool)

theorem scGet_mk (x : String) : State.scGet ⟨sc, fe, pt, bs, ints, r⟩ x = lookup 0 sc x := rfl
theorem ptGet_mk (x : String) : State.ptGet ⟨sc, fe, pt, bs, ints, r⟩ x = lookup Pt.inf pt x := rfl
theorem byGet_mk (x : String) : State.byGet ⟨sc, fe, pt, bs, ints, r⟩ x = lookup (Bytes.zeros 32) bs x := rfl
theorem feGet_mk (x : String) : State.feGet ⟨sc, fe, pt, bs, ints, r⟩ x = feGetL fe pt x := rfl

end getters

/-! ### Statement lists -/

theorem execL_nil (st : State) : execL st [] = st := by rw [execL]

theorem execL_returned (sc fe : List (String × Nat)) (pt : List (String × Pt)) (bs : List (String × Bytes))
    (ints : Env) (l : List Stmt) :
    execL ⟨sc, fe, pt, bs, ints, true⟩ l = ⟨sc, fe, pt, bs, ints, true⟩ := by
  cases l with
  | nil => rw [execL]
  | cons s rest => rw [execL]; simp

theorem execL_cons (sc fe : List (String × Nat)) (pt : List (String × Pt)) (bs : List (String × Bytes))
    (ints : Env) (s : Stmt) (rest : List Stmt) :
    execL ⟨sc, fe, pt, bs, ints, false⟩ (s :: rest) = execL (execS ⟨sc, fe, pt, bs, ints, false⟩ s) rest := by
  rw [execL]
  simp only [Bool.false_eq_true, if_false]

/-- the continuation of a statement list is pushed into both branches of a decision -/
theorem execL_ite (c : Prop) [Decidable c] (a b : State) (rest : List Stmt) :
    execL (if c then a else b) rest = if c then execL a rest else execL b rest := by
  by_cases h : c <;> simp [h]

/-- the two outcomes of a partial operation (`liftX`) -/
def optCase {α β : Type} (o : Option α) (f : α → β) (g : β) : β :=
  match o with
  | some q => f q
  | none => g

theorem optCase_some {α β : Type} (q : α) (f : α → β) (g : β) : optCase (some q) f g = f q := rfl
theorem optCase_none {α β : Type} (f : α → β) (g : β) : optCase (none : Option α) f g = g := rfl

theorem execL_optCase {α : Type} (o : Option α) (f : α → State) (g : State) (rest : List Stmt) :
    execL (optCase o f g) rest = optCase o (fun q => execL (f q) rest) (execL g rest) := by
  cases o <;> rfl
theorem ints_optCase {α : Type} (o : Option α) (f : α → State) (g : State) :
    (optCase o f g).ints = optCase o (fun q => (f q).ints) g.ints := by cases o <;> rfl
theorem get_optCase {α : Type} (o : Option α) (f : α → Env) (g : Env) (x : String) :
    (optCase o f g).get x 0 = optCase o (fun q => (f q).get x 0) (g.get x 0) := by cases o <;> rfl
theorem scGet_optCase {α : Type} (o : Option α) (f : α → State) (g : State) (x : String) :
    (optCase o f g).scGet x = optCase o (fun q => (f q).scGet x) (g.scGet x) := by cases o <;> rfl
theorem ptGet_optCase {α : Type} (o : Option α) (f : α → State) (g : State) (x : String) :
    (optCase o f g).ptGet x = optCase o (fun q => (f q).ptGet x) (g.ptGet x) := by cases o <;> rfl

/-- reading the result through a decision -/
theorem ints_ite (c : Prop) [Decidable c] (a b : State) : (if c then a else b).ints = if c then a.ints else b.ints := by
  by_cases h : c <;> simp [h]
theorem get_ite (c : Prop) [Decidable c] (a b : Env) (x : String) :
    (if c then a else b).get x 0 = if c then a.get x 0 else b.get x 0 := by
  by_cases h : c <;> simp [h]
theorem scGet_ite (c : Prop) [Decidable c] (a b : State) (x : String) :
    (if c then a else b).scGet x = if c then a.scGet x else b.scGet x := by
  by_cases h : c <;> simp [h]
theorem ptGet_ite (c : Prop) [Decidable c] (a b : State) (x : String) :
    (if c then a else b).ptGet x = if c then a.ptGet x else b.ptGet x := by
  by_cases h : c <;> simp [h]

/-! ### One rewrite rule per statement kind -/

section stmts
variable (sc fe : List (String × Nat)) (pt : List (String × Pt)) (bs : List (String × Bytes)) (ints : Env) (r : Bool)

theorem execS_scSet (d s : String) :
    execS ⟨sc, fe, pt, bs, ints, r⟩ (.scSet d s) = ⟨update sc d (lookup 0 sc s), fe, pt, bs, ints, r⟩ := rfl
theorem execS_scMul (d a b : String) :
    execS ⟨sc, fe, pt, bs, ints, r⟩ (.scMul d a b) =
      ⟨update sc d (Sc.mul (lookup 0 sc a) (lookup 0 sc b)), fe, pt, bs, ints, r⟩ := rfl
theorem execS_scAdd (d a b : String) :
    execS ⟨sc, fe, pt, bs, ints, r⟩ (.scAdd d a b) =
      ⟨update sc d (Sc.add (lookup 0 sc a) (lookup 0 sc b)), fe, pt, bs, ints, r⟩ := rfl
theorem execS_scNeg (d a : String) :
    execS ⟨sc, fe, pt, bs, ints, r⟩ (.scNeg d a) = ⟨update sc d (Sc.neg (lookup 0 sc a)), fe, pt, bs, ints, r⟩ := rfl
theorem execS_scInv (d a : String) :
    execS ⟨sc, fe, pt, bs, ints, r⟩ (.scInv d a) = ⟨update sc d (Sc.inv (lookup 0 sc a)), fe, pt, bs, ints, r⟩ := rfl
theorem execS_scClear (d : String) :
    execS ⟨sc, fe, pt, bs, ints, r⟩ (.scClear d) = ⟨update sc d 0, fe, pt, bs, ints, r⟩ := rfl
theorem execS_scIsZero (x s : String) :
    execS ⟨sc, fe, pt, bs, ints, r⟩ (.scIsZero x s) =
      ⟨sc, fe, pt, bs, ints.set x 0 (i32 (decide (lookup 0 sc s % N = 0))), r⟩ := rfl
theorem execS_scIsHigh (x s : String) :
    execS ⟨sc, fe, pt, bs, ints, r⟩ (.scIsHigh x s) =
      ⟨sc, fe, pt, bs, ints.set x 0 (i32 (Sc.isHigh (lookup 0 sc s))), r⟩ := rfl
theorem execS_scCondNeg (d : String) (flag : Expr) :
    execS ⟨sc, fe, pt, bs, ints, r⟩ (.scCondNeg d flag) =
      if evalEI ints flag ≠ 0 then ⟨update sc d (Sc.neg (lookup 0 sc d)), fe, pt, bs, ints, r⟩
      else ⟨sc, fe, pt, bs, ints, r⟩ := rfl
theorem execS_scOfBytes_some (d b o : String) :
    execS ⟨sc, fe, pt, bs, ints, r⟩ (.scOfBytes d b (some o)) =
      ⟨update sc d (Bytes.toNat (lookup (Bytes.zeros 32) bs b) % N), fe, pt, bs,
        ints.set o 0 (i32 (decide (Bytes.toNat (lookup (Bytes.zeros 32) bs b) ≥ N))), r⟩ := rfl
theorem execS_scOfBytes_none (d b : String) :
    execS ⟨sc, fe, pt, bs, ints, r⟩ (.scOfBytes d b none) =
      ⟨update sc d (Bytes.toNat (lookup (Bytes.zeros 32) bs b) % N), fe, pt, bs, ints, r⟩ := rfl
theorem execS_bytesOfSc (b s : String) :
    execS ⟨sc, fe, pt, bs, ints, r⟩ (.bytesOfSc b s) =
      ⟨sc, fe, pt, update bs b (Bytes.be32 (lookup 0 sc s % N)), ints, r⟩ := rfl
theorem execS_feConst (d : String) (n : Nat) :
    execS ⟨sc, fe, pt, bs, ints, r⟩ (.feConst d n) = ⟨sc, update fe d (n % P), pt, bs, ints, r⟩ := rfl
theorem execS_feOfBytesMod (d b : String) :
    execS ⟨sc, fe, pt, bs, ints, r⟩ (.feOfBytesMod d b) =
      ⟨sc, update fe d (Bytes.toNat (lookup (Bytes.zeros 32) bs b) % P), pt, bs, ints, r⟩ := rfl
theorem execS_feOfBytesLimit (x d b : String) :
    execS ⟨sc, fe, pt, bs, ints, r⟩ (.feOfBytesLimit x d b) =
      ⟨sc, update fe d (Bytes.toNat (lookup (Bytes.zeros 32) bs b) % P), pt, bs,
        ints.set x 0 (i32 (decide (Bytes.toNat (lookup (Bytes.zeros 32) bs b) < P))), r⟩ := rfl
theorem execS_bytesOfFe (b f : String) :
    execS ⟨sc, fe, pt, bs, ints, r⟩ (.bytesOfFe b f) =
      ⟨sc, fe, pt, update bs b (Bytes.be32 (feGetL fe pt f % P)), ints, r⟩ := rfl
theorem execS_feAdd (d a : String) :
    execS ⟨sc, fe, pt, bs, ints, r⟩ (.feAdd d a) =
      ⟨sc, update fe d (Fe.add (feGetL fe pt d) (feGetL fe pt a)), pt, bs, ints, r⟩ := rfl
theorem execS_feNorm (d : String) :
    execS ⟨sc, fe, pt, bs, ints, r⟩ (.feNorm d) = ⟨sc, update fe d (feGetL fe pt d % P), pt, bs, ints, r⟩ := rfl
theorem execS_feCmp (x a b : String) :
    execS ⟨sc, fe, pt, bs, ints, r⟩ (.feCmp x a b) =
      ⟨sc, fe, pt, bs, ints.set x 0 (if feGetL fe pt a % P > feGetL fe pt b % P then 1
        else if feGetL fe pt a % P = feGetL fe pt b % P then 0 else 2 ^ 32 - 1), r⟩ := rfl
theorem execS_feIsOdd (x f : String) :
    execS ⟨sc, fe, pt, bs, ints, r⟩ (.feIsOdd x f) = ⟨sc, fe, pt, bs, ints.set x 0 (feGetL fe pt f % P % 2), r⟩ := rfl
theorem execS_ptSet (d s : String) :
    execS ⟨sc, fe, pt, bs, ints, r⟩ (.ptSet d s) = ⟨sc, fe, update pt d (lookup Pt.inf pt s), bs, ints, r⟩ := rfl
theorem execS_ptClear (d : String) :
    execS ⟨sc, fe, pt, bs, ints, r⟩ (.ptClear d) = ⟨sc, fe, update pt d Pt.inf, bs, ints, r⟩ := rfl
theorem execS_ecmult (d a na ng : String) :
    execS ⟨sc, fe, pt, bs, ints, r⟩ (.ecmult d a na ng) =
      ⟨sc, fe, update pt d (Pt.add (Pt.mul (lookup 0 sc na % N) (lookup Pt.inf pt a)) (Pt.mulG (lookup 0 sc ng % N))),
        bs, ints, r⟩ := rfl
theorem execS_ecmultGen (d n : String) :
    execS ⟨sc, fe, pt, bs, ints, r⟩ (.ecmultGen d n) = ⟨sc, fe, update pt d (Pt.mulG (lookup 0 sc n % N)), bs, ints, r⟩ := rfl
theorem execS_ptIsInf (x p : String) :
    execS ⟨sc, fe, pt, bs, ints, r⟩ (.ptIsInf x p) =
      ⟨sc, fe, pt, bs, ints.set x 0 (i32 (lookup Pt.inf pt p).isInf), r⟩ := rfl
theorem execS_eqX (x f p : String) :
    execS ⟨sc, fe, pt, bs, ints, r⟩ (.eqX x f p) =
      ⟨sc, fe, pt, bs, ints.set x 0 (i32 (decide (Pt.xOf (lookup Pt.inf pt p) = feGetL fe pt f % P))), r⟩ := rfl
theorem execS_liftX (x d f : String) (odd : Expr) :
    execS ⟨sc, fe, pt, bs, ints, r⟩ (.liftX x d f odd) =
      optCase (Pt.liftX (feGetL fe pt f % P) (decide (evalEI ints odd ≠ 0)))
        (fun q => ⟨sc, fe, update pt d q, bs, ints.set x 0 1, r⟩) ⟨sc, fe, pt, bs, ints.set x 0 0, r⟩ := by
  rw [execS.eq_def]
  simp only [feGet_mk]
  generalize Pt.liftX _ _ = o
  cases o <;> rfl
theorem execS_int (x : String) (e : Expr) :
    execS ⟨sc, fe, pt, bs, ints, r⟩ (.int x e) = ⟨sc, fe, pt, bs, ints.set x 0 (evalEI ints e), r⟩ := rfl
theorem execS_ite (c : Expr) (t e : List Stmt) :
    execS ⟨sc, fe, pt, bs, ints, r⟩ (.ite c t e) =
      if evalEI ints c ≠ 0 then execL ⟨sc, fe, pt, bs, ints, r⟩ t else execL ⟨sc, fe, pt, bs, ints, r⟩ e := rfl
theorem execS_ret : execS ⟨sc, fe, pt, bs, ints, r⟩ .ret = ⟨sc, fe, pt, bs, ints, true⟩ := rfl

end stmts

/-! ### Flags -/

theorem i32_decide (p : Prop) [Decidable p] : i32 (decide p) = if p then 1 else 0 := by
  by_cases h : p <;> simp [i32, h]
theorem i32_bool (b : Bool) : i32 b = if b = true then 1 else 0 := rfl

theorem evalEI_lit (ints : Env) (n : Nat) : evalEI ints (.lit n) = n := rfl
theorem evalEI_var (ints : Env) (x : String) : evalEI ints (.var x) = ints.get x 0 := rfl
theorem evalEI_bin (ints : Env) (op : BinOp) (w : Nat) (a b : Expr) :
    evalEI ints (.bin op w a b) = binIdeal op (evalEI ints a) (evalEI ints b) := rfl
theorem evalEI_lnot (ints : Env) (e : Expr) : evalEI ints (.lnot e) = if evalEI ints e = 0 then 1 else 0 := rfl
theorem evalEI_cond (ints : Env) (c a b : Expr) :
    evalEI ints (.cond c a b) = if evalEI ints c ≠ 0 then evalEI ints a else evalEI ints b := rfl

theorem binIdeal_ne (a b : Nat) : binIdeal .ne a b = if a ≠ b then 1 else 0 := rfl
theorem binIdeal_le (a b : Nat) : binIdeal .le a b = if a ≤ b then 1 else 0 := rfl
theorem binIdeal_lt (a b : Nat) : binIdeal .lt a b = if a < b then 1 else 0 := rfl
theorem binIdeal_eq (a b : Nat) : binIdeal .eq a b = if a = b then 1 else 0 := rfl
theorem binIdeal_and (a b : Nat) : binIdeal .and a b = a &&& b := rfl
theorem binIdeal_or (a b : Nat) : binIdeal .or a b = a ||| b := rfl
theorem binIdeal_xor (a b : Nat) : binIdeal .xor a b = a ^^^ b := rfl
theorem binIdeal_shl (a b : Nat) : binIdeal .shl a b = a * 2 ^ b := rfl

theorem one_ne_zero_eq : ((1 : Nat) ≠ 0) = True := by simp
theorem one_eq_zero_eq : ((1 : Nat) = 0) = False := by simp
theorem zero_ne_zero_eq : ((0 : Nat) ≠ 0) = False := by simp
theorem zero_eq_zero_eq : ((0 : Nat) = 0) = True := by simp

/-- `secp256k1_fe_cmp_var(a, b) >= 0` as clang shows a signed comparison: unsigned `2^31 ≤ cmp ^ 2^31`, where `cmp` is
    1, 0 or `2^32 - 1` -/
theorem feCmp_ge (a b : Nat) :
    (2147483648 ≤ (if a > b then 1 else if a = b then 0 else 2 ^ 32 - 1) ^^^ 2147483648) = (b ≤ a) := by
  by_cases h1 : a > b
  · simp only [h1, if_true, eq_iff_iff]; exact ⟨fun _ => by omega, fun _ => by decide⟩
  · by_cases h2 : a = b
    · subst h2; simp only [gt_iff_lt, lt_irrefl, if_false, if_true, le_refl, eq_iff_iff, iff_true]; decide
    · simp only [h1, h2, if_false, eq_iff_iff]
      exact ⟨fun h => absurd h (by decide), fun h => by omega⟩

/-- `!a & !b` on two 0/1 flags -/
theorem flags_and (c d : Prop) [Decidable c] [Decidable d] :
    ((if (if c then 1 else 0) = 0 then 1 else 0) &&& (if (if d then 1 else 0) = 0 then 1 else 0) : Nat) =
      if ¬ c ∧ ¬ d then 1 else 0 := by
  by_cases hc : c <;> by_cases hd : d <;> simp [hc, hd]

theorem and_one_ne_zero (n : Nat) : (n &&& 1 ≠ 0) = (n &&& 1 = 1) := by
  rw [Nat.and_one_is_mod]; exact propext (by omega)

/-- the rewrite rules of the symbolic execution -/
macro "alg_run" "[" ls:Lean.Parser.Tactic.simpLemma,* "]" : tactic => `(tactic|
  simp only [execL_cons, execL_nil, execL_returned, execL_ite, execL_optCase,
    execS_scSet, execS_scMul, execS_scAdd, execS_scNeg, execS_scInv, execS_scClear, execS_scIsZero, execS_scIsHigh,
    execS_scCondNeg, execS_scOfBytes_some, execS_scOfBytes_none, execS_bytesOfSc, execS_feConst, execS_feOfBytesMod,
    execS_feOfBytesLimit, execS_bytesOfFe, execS_feAdd, execS_feNorm, execS_feCmp, execS_feIsOdd, execS_ptSet,
    execS_ptClear, execS_ecmult, execS_ecmultGen, execS_ptIsInf, execS_eqX, execS_liftX, execS_int, execS_ite,
    execS_ret,
    lookup_update, feGetL_update, FeIR.ints_get_set, String.reduceEq, if_true, if_false,
    evalEI_lit, evalEI_var, evalEI_bin, evalEI_lnot, evalEI_cond, i32_decide, i32_bool,
    binIdeal_ne, binIdeal_le, binIdeal_lt, binIdeal_eq, binIdeal_and, binIdeal_or, binIdeal_xor, binIdeal_shl,
    one_ne_zero_eq, one_eq_zero_eq, zero_ne_zero_eq, zero_eq_zero_eq,
    $ls,*])

end AlgIR
end SecpZkp
