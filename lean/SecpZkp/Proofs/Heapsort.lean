/-
  Correctness of the heap sort model `SecpZkp.Heapsort.hsort` (`secp256k1_hsort`, src/hsort_impl.h):
  for every input length the result is a permutation of the input (`hsort_perm`, no assumption on the
  comparison callback), has the same size (`hsort_size`) and, if the callback is a total preorder in the
  C sense (`TotalPreorderCmp`), is non-decreasing (`hsort_sorted`).

  Also: `Bytes.cmp` (memcmp on byte strings) is such a total preorder.
-/
import SecpZkp.Model.Heapsort
import SecpZkp.Model.Bytes

namespace SecpZkp
namespace Heapsort

variable {α : Type}

/-- A C comparison callback (`< 0`, `= 0`, `> 0`) that is a total preorder:
  reflexive, sign-antisymmetric (`a > b` iff `b < a`; this gives totality) and transitive. -/
structure TotalPreorderCmp (cmp : α → α → Int) : Prop where
  refl : ∀ a, cmp a a = 0
  antisymm : ∀ a b, 0 < cmp a b ↔ cmp b a < 0
  trans : ∀ a b c, 0 ≤ cmp a b → 0 ≤ cmp b c → 0 ≤ cmp a c

namespace TotalPreorderCmp
variable {cmp : α → α → Int}

/-- `¬ (a > b)` gives `b ≥ a`. -/
theorem ge_of_not_gt (h : TotalPreorderCmp cmp) {a b : α} (hab : ¬ 0 < cmp a b) : 0 ≤ cmp b a := by
  have := h.antisymm a b
  omega

/-- `¬ (a ≥ b)` gives `b ≥ a`. -/
theorem ge_of_not_ge (h : TotalPreorderCmp cmp) {a b : α} (hab : ¬ 0 ≤ cmp a b) : 0 ≤ cmp b a := by
  have := h.antisymm b a
  omega

theorem ge_of_gt (_h : TotalPreorderCmp cmp) {a b : α} (hab : 0 < cmp a b) : 0 ≤ cmp a b := by omega

theorem total (h : TotalPreorderCmp cmp) (a b : α) : 0 ≤ cmp a b ∨ 0 ≤ cmp b a := by
  have := h.antisymm b a
  omega

/-- Reflexivity is a consequence of sign antisymmetry; two fields suffice. -/
theorem of_antisymm_trans (ha : ∀ a b, 0 < cmp a b ↔ cmp b a < 0)
    (ht : ∀ a b c, 0 ≤ cmp a b → 0 ≤ cmp b c → 0 ≤ cmp a c) : TotalPreorderCmp cmp :=
  ⟨fun a => by have := ha a a; omega, ha, ht⟩

end TotalPreorderCmp

/-! ### `swap` -/

@[simp] theorem swap_size (arr : Array α) (i j : Nat) : (swap arr i j).size = arr.size := by
  unfold swap; split <;> simp

theorem swap_getElem! [Inhabited α] (arr : Array α) {i j : Nat} (hi : i < arr.size) (hj : j < arr.size)
    (k : Nat) : (swap arr i j)[k]! = if k = i then arr[j]! else if k = j then arr[i]! else arr[k]! := by
  unfold swap
  rw [dif_pos ⟨hi, hj⟩]
  by_cases hk : k < arr.size
  · rw [getElem!_pos _ _ (by simpa using hk), Array.getElem_swap]
    split
    · simp [hj]
    · split
      · simp [hi]
      · simp [hk]
  · have h1 : k ≠ i := by omega
    have h2 : k ≠ j := by omega
    have hk' : ¬ k < (arr.swap i j hi hj).size := by simpa using hk
    rw [if_neg h1, if_neg h2, getElem!_neg (arr.swap i j hi hj) k hk', getElem!_neg arr k hk]

theorem swap_perm (arr : Array α) (i j : Nat) : (swap arr i j).toList.Perm arr.toList := by
  unfold swap
  split
  · rename_i h
    exact Array.perm_iff_toList_perm.mp (Array.swap_perm h.1 h.2)
  · exact List.Perm.refl _

/-! ### `heapDown`: size, multiset, frame, fuel -/

section
variable [Inhabited α] (cmp : α → α → Int)

@[simp] theorem heapDown_size (fuel : Nat) (arr : Array α) (i n : Nat) :
    (heapDown cmp fuel arr i n).size = arr.size := by
  induction fuel generalizing arr i with
  | zero => rfl
  | succ f ih =>
    simp only [heapDown]
    repeat' split
    all_goals simp [ih]

theorem heapDown_perm (fuel : Nat) (arr : Array α) (i n : Nat) :
    (heapDown cmp fuel arr i n).toList.Perm arr.toList := by
  induction fuel generalizing arr i with
  | zero => exact List.Perm.refl _
  | succ f ih =>
    simp only [heapDown]
    repeat' split
    all_goals first
      | exact List.Perm.refl _
      | exact (ih _ _).trans (swap_perm _ _ _)

/-- `heap_down(i, n)` only touches indices in `[i, n)`; every element of the new `[0, n)` is an element
of the old `[0, n)`. -/
theorem heapDown_frame (fuel : Nat) (arr : Array α) (i n : Nat) (hn : n ≤ arr.size) :
    (∀ k, k < i ∨ n ≤ k → (heapDown cmp fuel arr i n)[k]! = arr[k]!) ∧
    (∀ k, k < n → ∃ k', k' < n ∧ (heapDown cmp fuel arr i n)[k]! = arr[k']!) := by
  induction fuel generalizing arr i with
  | zero => exact ⟨fun _ _ => rfl, fun k hk => ⟨k, hk, rfl⟩⟩
  | succ f ih =>
    have key : ∀ c, i < c → c < n →
        (∀ k, k < i ∨ n ≤ k → (heapDown cmp f (swap arr i c) c n)[k]! = arr[k]!) ∧
        (∀ k, k < n → ∃ k', k' < n ∧ (heapDown cmp f (swap arr i c) c n)[k]! = arr[k']!) := by
      intro c hic hc
      have hi' : i < arr.size := by omega
      have hc' : c < arr.size := by omega
      obtain ⟨h1, h2⟩ := ih (swap arr i c) c (by simpa using hn)
      refine ⟨fun k hk => ?_, fun k hk => ?_⟩
      · rw [h1 k (by omega), swap_getElem! arr hi' hc', if_neg (by omega), if_neg (by omega)]
      · obtain ⟨k', hk', e⟩ := h2 k hk
        rw [e, swap_getElem! arr hi' hc']
        split
        · exact ⟨c, hc, rfl⟩
        · split
          · exact ⟨i, by omega, rfl⟩
          · exact ⟨k', hk', rfl⟩
    simp only [heapDown]
    split
    · split
      · split
        · exact key _ (by omega) (by omega)
        · exact ⟨fun _ _ => rfl, fun k hk => ⟨k, hk, rfl⟩⟩
      · split
        · exact key _ (by omega) (by omega)
        · exact ⟨fun _ _ => rfl, fun k hk => ⟨k, hk, rfl⟩⟩
    · exact ⟨fun _ _ => rfl, fun k hk => ⟨k, hk, rfl⟩⟩

/-- Fuel sufficiency.  Each iteration of the `while` loop of `secp256k1_heap_down` replaces `i` by
`2*i+1` or `2*i+2`, so `i+1` at least doubles; the loop stops as soon as `n/2 ≤ i`, i.e. `n < 2*(i+1)`.
Hence `fuel` iterations suffice whenever `n < (i+1) * 2^(fuel+1)`: more fuel does not change the result. -/
theorem heapDown_fuel (fuel extra : Nat) (arr : Array α) (i n : Nat) (h : n < (i + 1) * 2 ^ (fuel + 1)) :
    heapDown cmp (fuel + extra) arr i n = heapDown cmp fuel arr i n := by
  induction fuel generalizing arr i with
  | zero =>
    have hi : ¬ i < n / 2 := by omega
    cases extra with
    | zero => rfl
    | succ e => simp only [heapDown, if_neg hi]
  | succ f ih =>
    have h1 : n < (2 * i + 1 + 1) * 2 ^ (f + 1) := by
      rw [Nat.pow_succ] at h
      have : (i + 1) * (2 ^ (f + 1) * 2) = (2 * i + 1 + 1) * 2 ^ (f + 1) := by
        rw [Nat.mul_comm (2 ^ (f + 1)) 2, ← Nat.mul_assoc]; congr 1; omega
      omega
    have h2 : n < (2 * i + 2 + 1) * 2 ^ (f + 1) :=
      Nat.lt_of_lt_of_le h1 (Nat.mul_le_mul_right _ (by omega))
    rw [Nat.add_right_comm]
    simp only [heapDown, ih _ _ h1, ih _ _ h2]

/-- The fuel `heapSize` that `hsort` passes is sufficient for every start index. -/
theorem fuel_heapSize_sufficient (i n : Nat) : n < (i + 1) * 2 ^ (n + 1) :=
  calc n < 2 ^ n := Nat.lt_two_pow_self
    _ ≤ 2 ^ (n + 1) := Nat.pow_le_pow_right (by omega) (by omega)
    _ = 1 * 2 ^ (n + 1) := (Nat.one_mul _).symm
    _ ≤ (i + 1) * 2 ^ (n + 1) := Nat.mul_le_mul_right _ (by omega)

end

/-! ### Heap invariants -/

section
variable [Inhabited α] (cmp : α → α → Int)

/-- Max-heap property of `arr[0..n)` restricted to parents at indices `≥ lo`:
every such parent is `≥` each of its children that lie below `n`. -/
def HeapFrom (arr : Array α) (lo n : Nat) : Prop :=
  ∀ j k, lo ≤ j → k < n → (k = 2 * j + 1 ∨ k = 2 * j + 2) → 0 ≤ cmp arr[j]! arr[k]!

/-- `HeapFrom` except possibly at the parent `i` (the element being sifted down). -/
def HeapExcept (arr : Array α) (lo n i : Nat) : Prop :=
  ∀ j k, lo ≤ j → j ≠ i → k < n → (k = 2 * j + 1 ∨ k = 2 * j + 2) → 0 ≤ cmp arr[j]! arr[k]!

/-- The parent of `i` (if it is at an index `≥ lo`) dominates the children of `i`. -/
def ParentOK (arr : Array α) (lo n i : Nat) : Prop :=
  ∀ p k, lo ≤ p → (i = 2 * p + 1 ∨ i = 2 * p + 2) → k < n → (k = 2 * i + 1 ∨ k = 2 * i + 2) →
    0 ≤ cmp arr[p]! arr[k]!

/-- The definition in the comment of hsort_impl.h: "for all non-zero indexes i, the element at index i
compares as less than or equal to the element at index parent(i) = (i-1)/2". -/
theorem heapFrom_zero_iff (arr : Array α) (n : Nat) :
    HeapFrom cmp arr 0 n ↔ ∀ k, 0 < k → k < n → 0 ≤ cmp arr[(k - 1) / 2]! arr[k]! := by
  constructor
  · intro h k hk0 hk
    exact h ((k - 1) / 2) k (Nat.zero_le _) hk (by omega)
  · intro h j k _ hk hc
    have : j = (k - 1) / 2 := by omega
    subst this
    exact h k (by omega) hk

variable {cmp}

theorem HeapFrom.mono {arr : Array α} {lo lo' n n' : Nat} (h : HeapFrom cmp arr lo n)
    (hlo : lo ≤ lo') (hn : n' ≤ n) : HeapFrom cmp arr lo' n' :=
  fun j k hj hk hc => h j k (by omega) (by omega) hc

/-- No swap needed: `i` already dominates its children. -/
theorem heapFrom_of_except {arr : Array α} {lo n i : Nat} (hex : HeapExcept cmp arr lo n i)
    (hi : ∀ k, k < n → (k = 2 * i + 1 ∨ k = 2 * i + 2) → 0 ≤ cmp arr[i]! arr[k]!) :
    HeapFrom cmp arr lo n := by
  intro j k hj hk hc
  by_cases hji : j = i
  · subst hji; exact hi k hk hc
  · exact hex j k hj hji hk hc

/-- One iteration of the loop that swaps `i` with its larger child `c`: the invariant moves to `c`. -/
theorem swap_step (h : TotalPreorderCmp cmp) {arr : Array α} {lo n i c : Nat} (hn : n ≤ arr.size)
    (hlo : lo ≤ i) (hc : c = 2 * i + 1 ∨ c = 2 * i + 2) (hcn : c < n)
    (hgt : 0 < cmp arr[c]! arr[i]!)
    (hsib : ∀ k, k < n → (k = 2 * i + 1 ∨ k = 2 * i + 2) → 0 ≤ cmp arr[c]! arr[k]!)
    (hex : HeapExcept cmp arr lo n i) (hp : ParentOK cmp arr lo n i) :
    HeapExcept cmp (swap arr i c) lo n c ∧ ParentOK cmp (swap arr i c) lo n c := by
  have hi' : i < arr.size := by omega
  have hc' : c < arr.size := by omega
  constructor
  · intro j k hj hjc hk hkc
    rw [swap_getElem! arr hi' hc' j, swap_getElem! arr hi' hc' k]
    by_cases hji : j = i
    · subst hji
      rw [if_pos rfl]
      by_cases hkc' : k = c
      · subst hkc'
        rw [if_neg (by omega), if_pos rfl]
        exact h.ge_of_gt hgt
      · rw [if_neg (by omega), if_neg hkc']
        exact hsib k hk hkc
    · have hkc' : k ≠ c := by omega
      rw [if_neg hji, if_neg hjc]
      by_cases hki : k = i
      · subst hki
        rw [if_pos rfl]
        exact hp j c hj hkc hcn hc
      · rw [if_neg hki, if_neg hkc']
        exact hex j k hj hji hk hkc
  · intro p k hlp hpc hk hkc
    have hpi : p = i := by omega
    subst hpi
    rw [swap_getElem! arr hi' hc' p, swap_getElem! arr hi' hc' k, if_pos rfl,
      if_neg (by omega), if_neg (by omega)]
    exact hex c k (by omega) (by omega) hk hkc

/-- `secp256k1_heap_down(i, n)` restores the max-heap property: if all parents `≥ lo` except `i` dominate
their children, and the parent of `i` dominates the children of `i`, then afterwards all parents `≥ lo`
dominate their children.  `fuel` only has to satisfy `n < (i+1) * 2^(fuel+1)`. -/
theorem heapDown_heap (h : TotalPreorderCmp cmp) (fuel : Nat) (arr : Array α) (i n lo : Nat)
    (hn : n ≤ arr.size) (hlo : lo ≤ i) (hfuel : n < (i + 1) * 2 ^ (fuel + 1))
    (hex : HeapExcept cmp arr lo n i) (hp : ParentOK cmp arr lo n i) :
    HeapFrom cmp (heapDown cmp fuel arr i n) lo n := by
  induction fuel generalizing arr i with
  | zero =>
    exact heapFrom_of_except hex (fun k hk hc => by omega)
  | succ f ih =>
    have h1 : n < (2 * i + 1 + 1) * 2 ^ (f + 1) := by
      rw [Nat.pow_succ] at hfuel
      have : (i + 1) * (2 ^ (f + 1) * 2) = (2 * i + 1 + 1) * 2 ^ (f + 1) := by
        rw [Nat.mul_comm (2 ^ (f + 1)) 2, ← Nat.mul_assoc]; congr 1; omega
      omega
    have h2 : n < (2 * i + 2 + 1) * 2 ^ (f + 1) :=
      Nat.lt_of_lt_of_le h1 (Nat.mul_le_mul_right _ (by omega))
    simp only [heapDown]
    split
    · rename_i hi
      split
      · rename_i hc2
        split
        · rename_i hgt
          -- swap with child2, which is ≥ child1
          obtain ⟨hex', hp'⟩ := swap_step h hn hlo (Or.inr rfl) hc2.1 hgt
            (fun k hk hkc => by
              rcases hkc with rfl | rfl
              · exact hc2.2
              · rw [h.refl]; exact Int.le_refl 0) hex hp
          exact ih (swap arr i (2 * i + 2)) (2 * i + 2) (by simpa using hn) (by omega) h2 hex' hp'
        · rename_i hgt
          -- [child1] ≤ [child2] ≤ [i]
          have hge2 : 0 ≤ cmp arr[i]! arr[2 * i + 2]! := h.ge_of_not_gt hgt
          refine heapFrom_of_except hex (fun k hk hkc => ?_)
          rcases hkc with rfl | rfl
          · exact h.trans _ _ _ hge2 hc2.2
          · exact hge2
      · rename_i hc2
        split
        · rename_i hgt
          -- swap with child1: child2 is out of range or smaller than child1
          obtain ⟨hex', hp'⟩ := swap_step h hn hlo (Or.inl rfl) (by omega) hgt
            (fun k hk hkc => by
              rcases hkc with rfl | rfl
              · rw [h.refl]; exact Int.le_refl 0
              · exact h.ge_of_not_ge (fun hh => hc2 ⟨hk, hh⟩)) hex hp
          exact ih (swap arr i (2 * i + 1)) (2 * i + 1) (by simpa using hn) (by omega) h1 hex' hp'
        · rename_i hgt
          have hge1 : 0 ≤ cmp arr[i]! arr[2 * i + 1]! := h.ge_of_not_gt hgt
          refine heapFrom_of_except hex (fun k hk hkc => ?_)
          rcases hkc with rfl | rfl
          · exact hge1
          · exact h.trans _ _ _ hge1 (h.ge_of_not_ge (fun hh => hc2 ⟨hk, hh⟩))
    · rename_i hi
      exact heapFrom_of_except hex (fun k hk hc => by omega)

/-- In a heap the root is a maximum. -/
theorem heap_root_max (h : TotalPreorderCmp cmp) {arr : Array α} {n : Nat} (hh : HeapFrom cmp arr 0 n)
    (k : Nat) (hk : k < n) : 0 ≤ cmp arr[0]! arr[k]! := by
  induction k using Nat.strongRecOn with
  | _ k ih =>
    by_cases hk0 : k = 0
    · subst hk0; rw [h.refl]; exact Int.le_refl 0
    · have hp := hh ((k - 1) / 2) k (Nat.zero_le _) hk (by omega)
      exact h.trans _ _ _ (ih ((k - 1) / 2) (by omega) (by omega)) hp

end

/-! ### `heapify`, `extract`, `hsort`: size and multiset (no assumption on `cmp`) -/

section
variable [Inhabited α] (cmp : α → α → Int)

@[simp] theorem heapify_size (count i : Nat) (arr : Array α) :
    (heapify cmp count i arr).size = arr.size := by
  induction i generalizing arr with
  | zero => rfl
  | succ i ih => simp [heapify, ih]

theorem heapify_perm (count i : Nat) (arr : Array α) :
    (heapify cmp count i arr).toList.Perm arr.toList := by
  induction i generalizing arr with
  | zero => exact List.Perm.refl _
  | succ i ih => exact (ih _).trans (heapDown_perm cmp _ _ _ _)

@[simp] theorem extract_size (n : Nat) (arr : Array α) : (extract cmp n arr).size = arr.size := by
  fun_induction extract cmp n arr with
  | case1 => rfl
  | case2 => rfl
  | case3 i arr ih => simp [ih]

theorem extract_perm (n : Nat) (arr : Array α) : (extract cmp n arr).toList.Perm arr.toList := by
  fun_induction extract cmp n arr with
  | case1 => exact List.Perm.refl _
  | case2 => exact List.Perm.refl _
  | case3 i arr ih => exact ih.trans ((heapDown_perm cmp _ _ _ _).trans (swap_perm _ _ _))

/-- The output of `secp256k1_hsort` has the same number of elements as the input. -/
theorem hsort_size (arr : Array α) : (hsort cmp arr).size = arr.size := by
  simp [hsort]

/-- The output of `secp256k1_hsort` is a permutation of the input, for ANY comparison callback. -/
theorem hsort_perm (arr : Array α) : (hsort cmp arr).toList.Perm arr.toList :=
  (extract_perm cmp _ _).trans (heapify_perm cmp _ _ _)

end

/-! ### Sortedness -/

section
variable [Inhabited α] {cmp : α → α → Int}

/-- First loop of `hsort`: running `heap_down` at `i-1, …, 0` extends the heap property from parents `≥ i`
to all parents. -/
theorem heapify_heap (h : TotalPreorderCmp cmp) (count i : Nat) (arr : Array α) (hn : count ≤ arr.size)
    (hh : HeapFrom cmp arr i count) : HeapFrom cmp (heapify cmp count i arr) 0 count := by
  induction i generalizing arr with
  | zero => exact hh
  | succ i ih =>
    refine ih _ (by simpa using hn) ?_
    refine heapDown_heap h count arr i count i hn (Nat.le_refl _) (fuel_heapSize_sufficient i count) ?_ ?_
    · intro j k hj hji hk hc
      exact hh j k (by omega) hk hc
    · intro p k hp hpi _ _
      omega

/-- Parents at index `≥ n/2` have no children below `n`. -/
theorem heapFrom_half (arr : Array α) (n : Nat) : HeapFrom cmp arr (n / 2) n := by
  intro j k hj hk hc
  omega

/-- Invariant of the second loop of `hsort` with loop variable `n`: `arr[0..n)` is a heap, `arr[n..)` is
non-decreasing, and every element of `arr[n..)` is `≥` every element of `arr[0..n)`. -/
structure ExtractInv (cmp : α → α → Int) (arr : Array α) (n : Nat) : Prop where
  heap : HeapFrom cmp arr 0 n
  sorted : ∀ i j, n ≤ i → i ≤ j → j < arr.size → 0 ≤ cmp arr[j]! arr[i]!
  ge : ∀ i j, i < n → n ≤ j → j < arr.size → 0 ≤ cmp arr[j]! arr[i]!

/-- One iteration of the second loop: `swap(0, n-1); heap_down(0, n-1)` with `n = m+2`. -/
theorem extract_step (h : TotalPreorderCmp cmp) {arr : Array α} {m : Nat} (hn : m + 2 ≤ arr.size)
    (inv : ExtractInv cmp arr (m + 2)) :
    ExtractInv cmp (heapDown cmp (m + 1) (swap arr 0 (m + 1)) 0 (m + 1)) (m + 1) := by
  have h0 : 0 < arr.size := by omega
  have hm : m + 1 < arr.size := by omega
  have hsz : m + 1 ≤ (swap arr 0 (m + 1)).size := by simp; omega
  obtain ⟨fr1, fr2⟩ := heapDown_frame cmp (m + 1) (swap arr 0 (m + 1)) 0 (m + 1) hsz
  -- facts about the new array `r` in terms of `arr`
  have A : ∀ k, m + 2 ≤ k → (heapDown cmp (m + 1) (swap arr 0 (m + 1)) 0 (m + 1))[k]! = arr[k]! := by
    intro k hk
    rw [fr1 k (Or.inr (by omega)), swap_getElem! arr h0 hm, if_neg (by omega), if_neg (by omega)]
  have B : (heapDown cmp (m + 1) (swap arr 0 (m + 1)) 0 (m + 1))[m + 1]! = arr[0]! := by
    rw [fr1 (m + 1) (Or.inr (Nat.le_refl _)), swap_getElem! arr h0 hm, if_neg (by omega), if_pos rfl]
  have C : ∀ k, k < m + 1 → ∃ k', k' < m + 2 ∧
      (heapDown cmp (m + 1) (swap arr 0 (m + 1)) 0 (m + 1))[k]! = arr[k']! := by
    intro k hk
    obtain ⟨k', hk', e⟩ := fr2 k hk
    rw [e, swap_getElem! arr h0 hm]
    split
    · exact ⟨m + 1, by omega, rfl⟩
    · rw [if_neg (by omega)]
      exact ⟨k', by omega, rfl⟩
  refine ⟨?_, ?_, ?_⟩
  · refine heapDown_heap h (m + 1) _ 0 (m + 1) 0 hsz (Nat.le_refl _)
      (fuel_heapSize_sufficient 0 (m + 1)) ?_ ?_
    · intro j k _ hj0 hk hc
      rw [swap_getElem! arr h0 hm, swap_getElem! arr h0 hm, if_neg hj0, if_neg (by omega),
        if_neg (by omega), if_neg (by omega)]
      exact inv.heap j k (Nat.zero_le _) (by omega) hc
    · intro p k _ hp _ _
      omega
  · intro i j hi hij hj
    rw [heapDown_size, swap_size] at hj
    by_cases hi1 : i = m + 1
    · subst hi1
      by_cases hj1 : j = m + 1
      · subst hj1; rw [h.refl]; exact Int.le_refl 0
      · rw [A j (by omega), B]
        exact inv.ge 0 j (by omega) (by omega) hj
    · rw [A j (by omega), A i (by omega)]
      exact inv.sorted i j (by omega) hij hj
  · intro i j hi hj hjs
    rw [heapDown_size, swap_size] at hjs
    obtain ⟨k', hk', e⟩ := C i hi
    rw [e]
    by_cases hj1 : j = m + 1
    · subst hj1
      rw [B]
      exact heap_root_max h inv.heap k' hk'
    · rw [A j (by omega)]
      exact inv.ge k' j hk' (by omega) hjs

/-- Second loop of `hsort`: from the invariant at `n` to a completely non-decreasing array. -/
theorem extract_sorted (h : TotalPreorderCmp cmp) (n : Nat) (arr : Array α) (hn : n ≤ arr.size)
    (inv : ExtractInv cmp arr n) :
    ∀ i j, i ≤ j → j < arr.size → 0 ≤ cmp (extract cmp n arr)[j]! (extract cmp n arr)[i]! := by
  fun_induction extract cmp n arr with
  | case1 arr =>
    intro i j hij hj
    exact inv.sorted i j (Nat.zero_le _) hij hj
  | case2 arr =>
    intro i j hij hj
    by_cases hi : i = 0
    · subst hi
      by_cases hj0 : j = 0
      · subst hj0; rw [h.refl]; exact Int.le_refl 0
      · exact inv.ge 0 j (by omega) (by omega) hj
    · exact inv.sorted i j (by omega) hij hj
  | case3 m arr ih =>
    have := ih (by simp; omega) (extract_step h hn inv)
    simpa using this

/-- The output of `secp256k1_hsort` is non-decreasing w.r.t. a total-preorder comparison callback:
for all positions `i ≤ j` of the array, `cmp out[j] out[i] ≥ 0`.  Holds for every input length. -/
theorem hsort_sorted (h : TotalPreorderCmp cmp) (arr : Array α) :
    ∀ i j, i ≤ j → j < arr.size → 0 ≤ cmp (hsort cmp arr)[j]! (hsort cmp arr)[i]! := by
  intro i j hij hj
  have hinv : ExtractInv cmp (heapify cmp arr.size (arr.size / 2) arr) arr.size :=
    ⟨heapify_heap h _ _ _ (Nat.le_refl _) (heapFrom_half arr _),
     fun i j hi hij hj => by simp at hj; omega,
     fun i j hi hj hjs => by simp at hjs; omega⟩
  have := extract_sorted h arr.size (heapify cmp arr.size (arr.size / 2) arr) (by simp) hinv i j hij
    (by simpa using hj)
  exact this

/-- List form of `hsort_sorted`: in the output list every element is `≤` every later element. -/
theorem hsort_pairwise (h : TotalPreorderCmp cmp) (arr : Array α) :
    (hsort cmp arr).toList.Pairwise (fun a b => 0 ≤ cmp b a) := by
  rw [List.pairwise_iff_getElem]
  intro i j hi hj hij
  have hsz := hsort_size cmp arr
  have hi' : i < (hsort cmp arr).size := by simpa using hi
  have hj' : j < (hsort cmp arr).size := by simpa using hj
  have := hsort_sorted h arr i j (by omega) (by omega)
  rw [getElem!_pos (hsort cmp arr) j hj', getElem!_pos (hsort cmp arr) i hi'] at this
  simpa using this

end

end Heapsort

/-! ### `Bytes.cmp` (memcmp) is a total preorder, and `cmp a b = 0 ↔ a = b` -/

namespace Bytes

theorem cmp_refl (a : Bytes) : cmp a a = 0 := by
  induction a with
  | nil => rfl
  | cons x xs ih => simp [cmp, ih]

/-- Sign antisymmetry: `a > b` iff `b < a`. -/
theorem cmp_antisymm (a b : Bytes) : 0 < cmp a b ↔ cmp b a < 0 := by
  induction a generalizing b with
  | nil => cases b <;> simp [cmp]
  | cons x xs ih =>
    cases b with
    | nil => simp [cmp]
    | cons y ys =>
      simp only [cmp, UInt8.lt_iff_toNat_lt]
      have := ih ys
      split <;> split <;> first | omega | simp | skip
      all_goals (try split) <;> first | omega | simp | skip

theorem cmp_trans (a b c : Bytes) : 0 ≤ cmp a b → 0 ≤ cmp b c → 0 ≤ cmp a c := by
  induction a generalizing b c with
  | nil =>
    cases b <;> cases c <;> simp [cmp]
  | cons x xs ih =>
    cases b with
    | nil => cases c <;> simp [cmp]
    | cons y ys =>
      cases c with
      | nil => simp [cmp]
      | cons z zs =>
        simp only [cmp, UInt8.lt_iff_toNat_lt]
        intro h1 h2
        by_cases c1 : x.toNat < y.toNat
        · simp [c1] at h1
        · by_cases c2 : y.toNat < z.toNat
          · simp [c2] at h2
          · by_cases c3 : x.toNat < z.toNat
            · omega
            · rw [if_neg c3]
              by_cases c4 : z.toNat < x.toNat
              · simp [c4]
              · rw [if_neg c4]
                rw [if_neg c1, if_neg (by omega)] at h1
                rw [if_neg c2, if_neg (by omega)] at h2
                exact ih ys zs h1 h2

/-- `memcmp`-style equality: the comparison is `0` exactly for equal byte strings (of any lengths). -/
theorem cmp_eq_zero_iff (a b : Bytes) : cmp a b = 0 ↔ a = b := by
  induction a generalizing b with
  | nil => cases b <;> simp [cmp]
  | cons x xs ih =>
    cases b with
    | nil => simp [cmp]
    | cons y ys =>
      simp only [cmp, UInt8.lt_iff_toNat_lt, List.cons.injEq, ← UInt8.toNat_inj]
      by_cases c1 : x.toNat < y.toNat
      · rw [if_pos c1]; constructor
        · intro hh; omega
        · intro hh; omega
      · by_cases c2 : y.toNat < x.toNat
        · rw [if_neg c1, if_pos c2]; constructor
          · intro hh; omega
          · intro hh; omega
        · rw [if_neg c1, if_neg c2, ih ys]
          constructor
          · intro hh; exact ⟨by omega, hh⟩
          · intro hh; exact hh.2

/-- The form asked for fixed-size encodings (e.g. the 33-byte keys compared by `memcmp`). -/
theorem cmp_eq_zero_iff_of_length_eq (a b : Bytes) (_h : a.length = b.length) : cmp a b = 0 ↔ a = b :=
  cmp_eq_zero_iff a b

/-- `Bytes.cmp` is negative exactly when `a` is lexicographically smaller than `b`
(core `List` order on `List UInt8`). -/
theorem cmp_neg_iff_lt (a b : Bytes) : cmp a b < 0 ↔ a < b := by
  induction a generalizing b with
  | nil => cases b <;> simp [cmp]
  | cons x xs ih =>
    cases b with
    | nil => simp [cmp]
    | cons y ys =>
      rw [List.cons_lt_cons_iff, ← ih ys]
      simp only [cmp, UInt8.lt_iff_toNat_lt, ← UInt8.toNat_inj]
      by_cases c1 : x.toNat < y.toNat
      · simp [c1]
      · by_cases c2 : y.toNat < x.toNat
        · rw [if_neg c1, if_pos c2]
          constructor
          · intro hh; omega
          · rintro (hh | ⟨hh, _⟩) <;> omega
        · rw [if_neg c1, if_neg c2]
          constructor
          · intro hh; exact Or.inr ⟨by omega, hh⟩
          · rintro (hh | ⟨_, hh⟩)
            · omega
            · exact hh

theorem cmp_nonpos_iff_le (a b : Bytes) : cmp a b ≤ 0 ↔ a ≤ b := by
  rw [← List.not_lt, ← cmp_neg_iff_lt, ← cmp_antisymm]
  omega

/-- `Bytes.cmp` satisfies the contract that `secp256k1_hsort` needs from its callback. -/
theorem cmp_totalPreorder : Heapsort.TotalPreorderCmp cmp :=
  ⟨cmp_refl, cmp_antisymm, cmp_trans⟩

end Bytes

namespace Heapsort

/-- Comparing through a key function (e.g. the serialization of a public key) keeps the contract. -/
theorem TotalPreorderCmp.comap {α β : Type} {cmp : β → β → Int} (h : TotalPreorderCmp cmp) (f : α → β) :
    TotalPreorderCmp (fun a b => cmp (f a) (f b)) :=
  ⟨fun a => h.refl (f a), fun a b => h.antisymm (f a) (f b), fun a b c => h.trans (f a) (f b) (f c)⟩

end Heapsort
end SecpZkp
