import SecpZkp.Model.Adaptor
import SecpZkp.Model.S2c
import SecpZkp.Props.C01
import SecpZkp.Props.C03
import SecpZkp.Proofs.GroupLawProved
import SecpZkp.Proofs.GroupExtra
/-
  Helper lemmas for the properties C14 (ECDSA adaptor signatures, `Model/Adaptor.lean`) and C15
  (sign-to-contract / anti-exfil, `Model/S2c.lean` and the hook of `Ecdsa.signInner`).

  The group law is the proved one (`groupLaw`), installed as a *local* instance: no statement of this file
  carries a hypothesis about the curve.

  Sections: A bytes and codecs · B the 162-byte adaptor codec · C DLEQ · D the adaptor equations ·
            E `encrypt` unfolded · F honest adaptor signatures · G `recover` · H `sign_inner` with the
            sign-to-contract hook · I signer commitment vs signing loop · J `S2c.sign` with a variable retry
            bound (proof device) · K when the signing loop succeeds.
-/
namespace SecpZkp
namespace AdaptorLemmas
open SecpZkp.Algebra SecpZkp.C01 Adaptor

/-- The proved group law, as a local instance (see `Proofs/Algebra.lean` for the usage pattern). -/
local instance instGL : HasGroupLaw := ⟨groupLaw⟩

/-! ## A. Bytes and codecs -/

theorem lt_pow_of_lt_N {v : Nat} (h : v < N) : v < 2 ^ 256 := lt_trans h N_lt_pow
theorem lt_pow_of_lt_P {v : Nat} (h : v < P) : v < 2 ^ 256 := lt_trans h P_lt_pow

theorem setB32_be32 {v : Nat} (h : v < N) : Sc.setB32 (Bytes.be32 v) = (v, false) := by
  simp only [Sc.setB32, toNat_be32 (lt_pow_of_lt_N h), Nat.mod_eq_of_lt h, Prod.mk.injEq, true_and,
    decide_eq_false_iff_not]
  omega

theorem setB32Seckey_be32 {v : Nat} (h0 : 0 < v) (h : v < N) : Sc.setB32Seckey (Bytes.be32 v) = (v, true) := by
  have : v ≠ 0 := by omega
  simp [Sc.setB32Seckey, setB32_be32 h, this]

theorem setB32Seckey_fst_lt (b : Bytes) : (Sc.setB32Seckey b).1 < N := by
  simp only [Sc.setB32Seckey, Sc.setB32]; exact Nat.mod_lt _ N_pos

theorem setB32Seckey_true_iff (b : Bytes) :
    (Sc.setB32Seckey b).2 = true ↔ 0 < Bytes.toNat b ∧ Bytes.toNat b < N := by
  simp only [Sc.setB32Seckey, Sc.setB32, Bool.and_eq_true, Bool.not_eq_true', decide_eq_false_iff_not,
    bne_iff_ne, ne_eq, not_le]
  constructor
  · rintro ⟨h1, h2⟩
    rw [Nat.mod_eq_of_lt h1] at h2
    exact ⟨Nat.pos_of_ne_zero h2, h1⟩
  · rintro ⟨h1, h2⟩
    rw [Nat.mod_eq_of_lt h2]
    exact ⟨h2, by omega⟩

theorem setB32Seckey_fst_of_true {b : Bytes} (h : (Sc.setB32Seckey b).2 = true) :
    (Sc.setB32Seckey b).1 = Bytes.toNat b := by
  have := (setB32Seckey_true_iff b).1 h
  simp only [Sc.setB32Seckey, Sc.setB32]; exact Nat.mod_eq_of_lt this.2

theorem serialize33_aff (x y : Nat) :
    Codec.serialize33 (Pt.aff x y) = (if Fe.isOdd y then (0x03 : UInt8) else 0x02) :: Bytes.be32 x := rfl

theorem serialize33_aff_length (x y : Nat) : (Codec.serialize33 (Pt.aff x y)).length = 33 := by
  simp [serialize33_aff]

theorem valid_iff_onCurve (x y : Nat) : (Pt.aff x y).valid = Pt.onCurveXY x y := rfl

/-- Compressed round trip `parse (serialize33 Q) = Q` for every valid finite point. -/
theorem pubkeyParse_serialize33 {x y : Nat} (hv : (Pt.aff x y).valid = true) :
    Codec.pubkeyParse (Codec.serialize33 (Pt.aff x y)) = some (Pt.aff x y) :=
  C03.pubkeyParse_serialize33_partial hv (liftX_of_valid hv)

/-- `be32` is injective on 256-bit values. -/
theorem be32_inj {a b : Nat} (ha : a < 2 ^ 256) (hb : b < 2 ^ 256) (h : Bytes.be32 a = Bytes.be32 b) : a = b := by
  rw [← toNat_be32 ha, ← toNat_be32 hb, h]

/-- There is no point with abscissa `0` on the curve (7 is not a square mod `P`). -/
theorem no_point_x_zero (y : Nat) : (Pt.aff 0 y).valid ≠ true := by
  intro h
  have h1 := liftX_of_valid h
  have h2 : ∀ b, Pt.liftX 0 b = none := by decide +kernel
  rw [h2] at h1; cases h1

/-- `-(-Q) = Q` for valid points. -/
theorem neg_neg_valid {q : Pt} (hq : q.valid = true) : Pt.neg (Pt.neg q) = q := by
  have := neg_neg (⟨q, hq⟩ : VPt)
  exact congrArg Subtype.val this

/-- Points `k•G`, `0 < k < n`, in the `gmul` normal form. -/
theorem mulG_gmul {k : Nat} (hk : k < N) : Pt.mulG k = gmul (k : ZMod N) :=
  mulG_eq_gmul (lt_mulBound_of_lt_N hk)

theorem mul_gmul' {k : Nat} (hk : k < N) (a : ZMod N) : Pt.mul k (gmul a) = gmul ((k : ZMod N) * a) :=
  mul_gmul (lt_mulBound_of_lt_N hk) a

theorem cast_ne_zero {k : Nat} (h0 : 0 < k) (hk : k < N) : (k : ZMod N) ≠ 0 := by
  intro h; have := (cast_eq_zero hk).1 h; omega

theorem gmul_ne_inf {a : ZMod N} (h : a ≠ 0) : gmul a ≠ Pt.inf := fun h' => h ((gmul_eq_inf_iff a).1 h')

theorem gmul_eq_aff {a : ZMod N} (h : a ≠ 0) : ∃ x y, gmul a = Pt.aff x y := by
  cases hg : gmul a with
  | inf => exact absurd hg (gmul_ne_inf h)
  | aff x y => exact ⟨x, y, rfl⟩

/-- `Sc.add a (Sc.neg e) = 0` iff `a = e` (scalars below `n`).  No group law involved. -/
theorem scAdd_neg_eq_zero {a e : Nat} (ha : a < N) (he : e < N) : Sc.add a (Sc.neg e) = 0 ↔ a = e := by
  rw [← cast_eq_zero (Sc.add_lt _ _), cast_add, cast_neg, ← sub_eq_add_neg, sub_eq_zero, cast_inj ha he]

theorem scNeg_eq_sub {s : Nat} (h0 : 0 < s) (h : s < N) : Sc.neg s = N - s := by
  simp only [Sc.neg, Nat.mod_eq_of_lt h]; exact Nat.mod_eq_of_lt (by omega)

/-! ## B. The 162-byte codec -/

theorem slices {α : Type} (A B C D E : List α) (hA : A.length = 33) (hB : B.length = 33)
    (hC : C.length = 32) (hD : D.length = 32) (hE : E.length = 32) :
    (A ++ B ++ C ++ D ++ E).take 33 = A ∧
    ((A ++ B ++ C ++ D ++ E).drop 33).take 33 = B ∧
    ((A ++ B ++ C ++ D ++ E).drop 66).take 32 = C ∧
    ((A ++ B ++ C ++ D ++ E).drop 98).take 32 = D ∧
    ((A ++ B ++ C ++ D ++ E).drop 130).take 32 = E := by
  simp only [List.append_assoc]
  refine ⟨List.take_left' hA, ?_, ?_, ?_, ?_⟩
  · rw [List.drop_left' hA]; exact List.take_left' hB
  · rw [show 66 = 33 + 33 from rfl, ← List.drop_drop, List.drop_left' hA, List.drop_left' hB]
    exact List.take_left' hC
  · rw [show 98 = 33 + (33 + 32) from rfl, ← List.drop_drop, ← List.drop_drop, List.drop_left' hA,
      List.drop_left' hB, List.drop_left' hC]
    exact List.take_left' hD
  · rw [show 130 = 33 + (33 + (32 + 32)) from rfl, ← List.drop_drop, ← List.drop_drop, ← List.drop_drop,
      List.drop_left' hA, List.drop_left' hB, List.drop_left' hC, List.drop_left' hD]
    rw [← hE]; exact List.take_length

theorem sigSerialize_length (rx ry px py sp e s : Nat) :
    (sigSerialize (Pt.aff rx ry) (Pt.aff px py) sp e s).length = 162 := by
  simp [sigSerialize, serialize33_aff]

/-- bytes 1..33 of an adaptor signature are the abscissa of `R` -/
theorem sigSerialize_sigr (rx ry : Nat) (rp : Pt) (sp e s : Nat) :
    ((sigSerialize (Pt.aff rx ry) rp sp e s).drop 1).take 32 = Bytes.be32 rx := by
  simp only [sigSerialize, serialize33_aff, List.append_assoc, List.cons_append, List.drop_succ_cons, List.drop_zero]
  exact List.take_left' (length_be32 _)

/-- Deserializing (all parts) what `sig_serialize` wrote. -/
theorem deser_full {rx ry px py sp e s : Nat} (hr : (Pt.aff rx ry).valid = true)
    (hp : (Pt.aff px py).valid = true) (hsigr : rx % N ≠ 0) (hsp0 : 0 < sp) (hsp : sp < N) (he : e < N)
    (hs : s < N) :
    sigDeserialize true (sigSerialize (Pt.aff rx ry) (Pt.aff px py) sp e s) =
      some ⟨Pt.aff rx ry, rx % N, Pt.aff px py, sp, e, s⟩ := by
  obtain ⟨h1, h2, h3, h4, h5⟩ := slices (Codec.serialize33 (Pt.aff rx ry)) (Codec.serialize33 (Pt.aff px py))
    (Bytes.be32 sp) (Bytes.be32 e) (Bytes.be32 s) (serialize33_aff_length _ _) (serialize33_aff_length _ _)
    (length_be32 _) (length_be32 _) (length_be32 _)
  have hrx : rx < 2 ^ 256 := lt_pow_of_lt_P (valid_aff_lt hr).1
  unfold sigDeserialize
  simp only [if_true]
  rw [sigSerialize_sigr]
  unfold sigSerialize
  rw [h1, h2, h3, h4, h5, pubkeyParse_serialize33 hr, pubkeyParse_serialize33 hp, toNat_be32 hrx,
    setB32Seckey_be32 hsp0 hsp, setB32_be32 hs, toNat_be32 (lt_pow_of_lt_N he), Nat.mod_eq_of_lt he]
  simp [hsigr]

/-- Deserializing (`sigr` and `s'` only) what `sig_serialize` wrote. -/
theorem deser_part {rx ry px py sp e s : Nat} (hrx : rx < 2 ^ 256) (hsigr : rx % N ≠ 0) (hsp0 : 0 < sp)
    (hsp : sp < N) :
    sigDeserialize false (sigSerialize (Pt.aff rx ry) (Pt.aff px py) sp e s) =
      some ⟨Pt.inf, rx % N, Pt.inf, sp, 0, 0⟩ := by
  obtain ⟨h1, h2, h3, h4, h5⟩ := slices (Codec.serialize33 (Pt.aff rx ry)) (Codec.serialize33 (Pt.aff px py))
    (Bytes.be32 sp) (Bytes.be32 e) (Bytes.be32 s) (serialize33_aff_length _ _) (serialize33_aff_length _ _)
    (length_be32 _) (length_be32 _) (length_be32 _)
  unfold sigDeserialize
  rw [sigSerialize_sigr]
  unfold sigSerialize
  rw [h3, toNat_be32 hrx, setB32Seckey_be32 hsp0 hsp]
  simp [hsigr]

/-! ## C. DLEQ -/

theorem dleqChallenge_lt (g r1 r2 p1 p2 : Pt) : dleqChallenge g r1 r2 p1 p2 < N := Nat.mod_lt _ N_pos

/-- What a successful `dleq_prove` returns. -/
theorem dleqProve_some {sk : Nat} {p1 g2 p2 : Pt} {nf : Option NonceFnA} {nd : Option Bytes} {s e : Nat}
    (h : dleqProve sk p1 g2 p2 nf nd = some (s, e)) :
    ∃ k, 0 < k ∧ k < N ∧
      dleqNonce (Bytes.be32 sk) (Codec.serialize33 g2) (Codec.serialize33 p1) (Codec.serialize33 p2)
        (nf.getD nonceDefault) nd = some k ∧
      e = dleqChallenge g2 (Pt.mulG k) (Pt.mul k g2) p1 p2 ∧ s = Sc.add (Sc.mul e sk) k := by
  unfold dleqProve at h
  simp only [] at h
  cases hn : dleqNonce (Bytes.be32 sk) (Codec.serialize33 g2) (Codec.serialize33 p1) (Codec.serialize33 p2)
      (nf.getD nonceDefault) nd with
  | none => rw [hn] at h; cases h
  | some k =>
    rw [hn] at h
    simp only [dleqPair, Option.some.injEq, Prod.mk.injEq] at h
    have hk : 0 < k ∧ k < N := by
      unfold dleqNonce at hn
      simp only [] at hn
      split at hn
      · cases hn
      · split at hn
        · cases hn
        · next hk0 =>
          cases hn
          exact ⟨Nat.pos_of_ne_zero hk0, Nat.mod_lt _ N_pos⟩
    obtain ⟨h1, h2⟩ := h
    subst h2
    exact ⟨k, hk.1, hk.2, rfl, rfl, h1.symm⟩

/-- The two points recomputed by `dleq_verify` from an honest response are the prover's commitments. -/
theorem dleq_points {x y k e : Nat} (hx : x < N) (hy : y < N) (hk : k < N) :
    Pt.add (Pt.mul (Sc.neg e) (Pt.mulG x)) (Pt.mulG (Sc.add (Sc.mul e x) k)) = Pt.mulG k ∧
    Pt.add (Pt.mul (Sc.add (Sc.mul e x) k) (Pt.mulG y)) (Pt.mul (Sc.neg e) (Pt.mul x (Pt.mulG y))) =
      Pt.mul k (Pt.mulG y) := by
  rw [mulG_gmul hx, mulG_gmul hy, mulG_gmul hk, mulG_gmul (Sc.add_lt _ _), mul_gmul' hx,
    mul_gmul' (Sc.neg_lt _), mul_gmul' (Sc.neg_lt _), mul_gmul' (Sc.add_lt _ _), mul_gmul' hk, add_gmul, add_gmul]
  constructor <;> apply gmul_congr <;> simp only [cast_add, cast_mul, cast_neg] <;> ring

/-- **DLEQ completeness, core.**  For `P1 = x•G`, `P2 = x•Y`, `Y = y•G` and a nonce `0 < k < n`, the pair
    `(e·x + k, e)` with `e` the challenge of the commitments `(k•G, k•Y)` passes `dleq_verify`. -/
theorem dleqVerify_complete {x y k : Nat} (hx : x < N) (hy0 : 0 < y) (hy : y < N) (hk0 : 0 < k) (hk : k < N) :
    dleqVerify
      (Sc.add (Sc.mul (dleqChallenge (Pt.mulG y) (Pt.mulG k) (Pt.mul k (Pt.mulG y)) (Pt.mulG x)
        (Pt.mul x (Pt.mulG y))) x) k)
      (dleqChallenge (Pt.mulG y) (Pt.mulG k) (Pt.mul k (Pt.mulG y)) (Pt.mulG x) (Pt.mul x (Pt.mulG y)))
      (Pt.mulG x) (Pt.mulG y) (Pt.mul x (Pt.mulG y)) = true := by
  generalize he : dleqChallenge (Pt.mulG y) (Pt.mulG k) (Pt.mul k (Pt.mulG y)) (Pt.mulG x)
    (Pt.mul x (Pt.mulG y)) = e
  have heN : e < N := he ▸ dleqChallenge_lt _ _ _ _ _
  obtain ⟨h1, h2⟩ := dleq_points (e := e) hx hy hk
  unfold dleqVerify
  simp only []
  rw [h1, h2]
  have hkG : Pt.mulG k ≠ Pt.inf := mulG_ne_inf hk0 hk
  have hkY : Pt.mul k (Pt.mulG y) ≠ Pt.inf := by
    rw [mulG_gmul hy, mul_gmul' hk]
    exact gmul_ne_inf (mul_ne_zero (cast_ne_zero hk0 hk) (cast_ne_zero hy0 hy))
  have i1 : (Pt.mulG k).isInf = false := by
    cases h : Pt.mulG k with
    | inf => exact absurd h hkG
    | aff _ _ => rfl
  have i2 : (Pt.mul k (Pt.mulG y)).isInf = false := by
    cases h : Pt.mul k (Pt.mulG y) with
    | inf => exact absurd h hkY
    | aff _ _ => rfl
  rw [i1, i2, he]
  simp only [Bool.or_self, Bool.false_eq_true, if_false, decide_eq_true_eq]
  exact (scAdd_neg_eq_zero heN heN).2 rfl

/-- `dleq_verify` as a readable equivalence (no group law): both recomputed commitments are finite and
    their challenge is `e`. -/
theorem dleqVerify_iff (s e : Nat) (p1 g2 p2 : Pt) (he : e < N) :
    dleqVerify s e p1 g2 p2 = true ↔
      Pt.add (Pt.mul (Sc.neg e) p1) (Pt.mulG s) ≠ Pt.inf ∧
      Pt.add (Pt.mul s g2) (Pt.mul (Sc.neg e) p2) ≠ Pt.inf ∧
      dleqChallenge g2 (Pt.add (Pt.mul (Sc.neg e) p1) (Pt.mulG s))
        (Pt.add (Pt.mul s g2) (Pt.mul (Sc.neg e) p2)) p1 p2 = e := by
  unfold dleqVerify
  simp only []
  generalize Pt.add (Pt.mul (Sc.neg e) p1) (Pt.mulG s) = r1
  generalize Pt.add (Pt.mul s g2) (Pt.mul (Sc.neg e) p2) = r2
  cases r1 with
  | inf => simp [Pt.isInf]
  | aff a b =>
    cases r2 with
    | inf => simp [Pt.isInf]
    | aff c d =>
      simp only [Pt.isInf, Bool.or_self, Bool.false_eq_true, if_false, decide_eq_true_eq, ne_eq, reduceCtorEq,
        not_false_eq_true, true_and]
      exact scAdd_neg_eq_zero (dleqChallenge_lt _ _ _ _ _) he

/-! ## D. The adaptor equations -/

/-- `s' = k⁻¹(m + r·d)` -/
def spOf (k d m r : Nat) : Nat := Sc.mul (Sc.inv k) (Sc.add (Sc.mul r d) m)

theorem spOf_lt (k d m r : Nat) : spOf k d m r < N := Sc.mul_lt _ _

/-- The point recomputed by adaptor verification from an honest `s'` is `R' = k•G`. -/
theorem adaptor_point {k d m r : Nat} (hk : k < N) (hd : d < N) (hsp : spOf k d m r ≠ 0) :
    Pt.add (Pt.mul (Sc.mul (Sc.inv (spOf k d m r)) r) (Pt.mulG d))
      (Pt.mulG (Sc.mul (Sc.inv (spOf k d m r)) m)) = Pt.mulG k := by
  have hsz : ((spOf k d m r : Nat) : ZMod N) ≠ 0 := fun h => hsp ((cast_eq_zero (spOf_lt _ _ _ _)).1 h)
  have hc : ((spOf k d m r : Nat) : ZMod N) = (k : ZMod N)⁻¹ * ((r : ZMod N) * d + m) := by
    simp only [spOf, cast_mul, cast_inv, cast_add]
  have := verify_field (r : ZMod N) (d : ZMod N) (m : ZMod N) (k : ZMod N) _ false (by simpa using hc) hsz
  simp only [Bool.false_eq_true, if_false] at this
  rw [mulG_gmul hd, mul_gmul' (Sc.mul_lt _ _), mulG_gmul (Sc.mul_lt _ _), add_gmul, mulG_gmul hk]
  apply gmul_congr
  simp only [cast_mul, cast_inv]
  rw [← this]

/-! ## E. `encrypt` unfolded -/

/-- What `ecdsa_adaptor_encrypt` returning 1 means (enckey a finite point object). -/
theorem encrypt_one {sk32 : Bytes} {yx yy : Nat} {msg32 : Bytes} {nf : Option NonceFnA} {nd : Option Bytes}
    (h : (encrypt sk32 (Pt.aff yx yy) msg32 nf nd).ret = 1) :
    ∃ k ds de nonce32, 0 < k ∧ k < N ∧
      (nf.getD nonceDefault) msg32 sk32 (Codec.serialize33 (Pt.aff yx yy)) adaptorAlgo nd = some nonce32 ∧
      k = Bytes.toNat nonce32 % N ∧
      dleqProve k (Pt.mulG k) (Pt.aff yx yy) (Pt.mul k (Pt.aff yx yy)) (some (nf.getD nonceDefault)) nd
        = some (ds, de) ∧
      (Sc.setB32Seckey sk32).2 = true ∧
      (Pt.mul k (Pt.aff yx yy)).xOf % N ≠ 0 ∧
      spOf k (Sc.setB32Seckey sk32).1 (Bytes.toNat msg32 % N) ((Pt.mul k (Pt.aff yx yy)).xOf % N) ≠ 0 ∧
      encrypt sk32 (Pt.aff yx yy) msg32 nf nd =
        ⟨1, some (sigSerialize (Pt.mul k (Pt.aff yx yy)) (Pt.mulG k)
          (spOf k (Sc.setB32Seckey sk32).1 (Bytes.toNat msg32 % N) ((Pt.mul k (Pt.aff yx yy)).xOf % N)) de ds), 0⟩ := by
  unfold encrypt at h ⊢
  simp only [] at h ⊢
  cases hf : (nf.getD nonceDefault) msg32 sk32 (Codec.serialize33 (Pt.aff yx yy)) adaptorAlgo nd with
  | none =>
    rw [hf] at h
    simp only [Bool.false_and, Bool.false_eq_true, if_false] at h
    split at h <;> simp at h
  | some nonce32 =>
    rw [hf] at h
    simp only [Bool.true_and] at h ⊢
    by_cases hk0 : Bytes.toNat nonce32 % N = 0
    · simp only [hk0, bne_self_eq_false, Bool.false_eq_true, if_false, Bool.false_and] at h
      split at h <;> simp at h
    · have hb : (Bytes.toNat nonce32 % N != 0) = true := by simpa using hk0
      simp only [hb, if_true, Bool.true_and] at h ⊢
      generalize hk : Bytes.toNat nonce32 % N = k at h hk0 ⊢
      have hkN : k < N := hk ▸ Nat.mod_lt _ N_pos
      cases hp : dleqProve k (Pt.mulG k) (Pt.aff yx yy) (Pt.mul k (Pt.aff yx yy)) (some (nf.getD nonceDefault)) nd with
      | none => rw [hp] at h; simp at h
      | some pr =>
        obtain ⟨ds, de⟩ := pr
        rw [hp] at h
        simp only [] at h ⊢
        by_cases hok : (Sc.setB32Seckey sk32).2 = true
        · simp only [hok, if_true, Bool.true_and] at h ⊢
          by_cases hr : (Pt.mul k (Pt.aff yx yy)).xOf % N = 0
          · simp [hr] at h
          · have hrb : ((Pt.mul k (Pt.aff yx yy)).xOf % N != 0) = true := by simpa using hr
            simp only [hrb, Bool.true_and] at h ⊢
            by_cases hs : Sc.mul (Sc.inv k) (Sc.add (Sc.mul ((Pt.mul k (Pt.aff yx yy)).xOf % N)
                (Sc.setB32Seckey sk32).1) (Bytes.toNat msg32 % N)) = 0
            · simp [hs] at h
            · have hsb : (Sc.mul (Sc.inv k) (Sc.add (Sc.mul ((Pt.mul k (Pt.aff yx yy)).xOf % N)
                (Sc.setB32Seckey sk32).1) (Bytes.toNat msg32 % N)) != 0) = true := by simpa using hs
              simp only [hsb, if_true]
              exact ⟨k, ds, de, nonce32, Nat.pos_of_ne_zero hk0, hkN, rfl, hk.symm, hp, trivial, hr, hs, rfl⟩
        · simp [hok] at h

/-! ## F. `verify`, `decrypt`, `recover` on honest adaptor signatures -/

/-- Adaptor verification accepts what `encrypt` wrote (points given in affine form). -/
theorem verify_honest {x y k ds de yx yy rx ry px py qx qy : Nat} {msg32 : Bytes} {nf : Option NonceFnA}
    {nd : Option Bytes} (hx : x < N) (hy0 : 0 < y) (hy : y < N) (hk : k < N)
    (hY : Pt.mulG y = Pt.aff yx yy) (hR : Pt.mul k (Pt.aff yx yy) = Pt.aff rx ry)
    (hRp : Pt.mulG k = Pt.aff px py) (hX : Pt.mulG x = Pt.aff qx qy)
    (hp : dleqProve k (Pt.aff px py) (Pt.aff yx yy) (Pt.aff rx ry) nf nd = some (ds, de))
    (hr : rx % N ≠ 0) (hs : spOf k x (Bytes.toNat msg32 % N) (rx % N) ≠ 0) :
    verify (sigSerialize (Pt.aff rx ry) (Pt.aff px py) (spOf k x (Bytes.toNat msg32 % N) (rx % N)) de ds)
      (Pt.aff qx qy) msg32 (Pt.aff yx yy) = ⟨1, (), 0⟩ := by
  have hRv : (Pt.aff rx ry).valid = true := by
    rw [← hR, ← hY, mulG_gmul hy, mul_gmul' hk]; exact valid_gmul _
  have hRpv : (Pt.aff px py).valid = true := by rw [← hRp, mulG_gmul hk]; exact valid_gmul _
  obtain ⟨k', hk'0, hk'N, -, hde, hds⟩ := dleqProve_some hp
  have hdv : dleqVerify ds de (Pt.aff px py) (Pt.aff yx yy) (Pt.aff rx ry) = true := by
    have := dleqVerify_complete (x := k) (y := y) (k := k') hk hy0 hy hk'0 hk'N
    rw [hY, hR, hRp] at this
    rw [hds, hde]; exact this
  have hdeN : de < N := hde ▸ dleqChallenge_lt _ _ _ _ _
  have hdsN : ds < N := hds ▸ Sc.add_lt _ _
  have hsp0 : 0 < spOf k x (Bytes.toNat msg32 % N) (rx % N) := Nat.pos_of_ne_zero hs
  have hpt := adaptor_point (k := k) (d := x) (m := Bytes.toNat msg32 % N) (r := rx % N) hk hx hs
  rw [hX, hRp] at hpt
  unfold verify
  rw [deser_full hRv hRpv hr hsp0 (spOf_lt _ _ _ _) hdeN hdsN]
  simp only [hdv, Bool.not_true, Bool.false_eq_true, if_false, hpt, Pt.isInf]
  have : Pt.add (Pt.neg (Pt.aff px py)) (Pt.aff px py) = Pt.inf := by
    rw [gl.add_comm _ _ (gl.valid_neg _ hRpv) hRpv]; exact gl.add_neg _ hRpv
  rw [this]; rfl

/-- `decrypt` on what `encrypt` wrote. -/
theorem decrypt_honest {y rx ry px py sp e s : Nat} (hy0 : 0 < y) (hy : y < N) (hrx : rx < 2 ^ 256)
    (hr : rx % N ≠ 0) (hsp0 : 0 < sp) (hsp : sp < N) :
    decrypt (Bytes.be32 y) (sigSerialize (Pt.aff rx ry) (Pt.aff px py) sp e s) =
      (1, (rx % N, if Sc.isHigh (Sc.mul (Sc.inv y) sp) then Sc.neg (Sc.mul (Sc.inv y) sp)
        else Sc.mul (Sc.inv y) sp)) := by
  have : y ≠ 0 := by omega
  unfold decrypt
  rw [setB32_be32 hy, deser_part hrx hr hsp0 hsp]
  simp [this]

/-- `±y⁻¹·s'` inverts to `±y`. -/
theorem recover_field' (y sp s : ZMod N) (hy : y ≠ 0) (hsp : sp ≠ 0) (neg : Bool)
    (hs : s = if neg then -(y⁻¹ * sp) else y⁻¹ * sp) : s⁻¹ * sp = if neg then -y else y := by
  cases neg
  · simp only [Bool.false_eq_true, if_false] at hs ⊢; subst hs; field_simp
  · simp only [if_true] at hs ⊢; subst hs; field_simp

/-- The decrypted signature verifies: its verification point is `±(k•Y)`. -/
theorem decrypted_verifies {x y k yx yy rx ry : Nat} {msg32 : Bytes} (hx0 : 0 < x) (hx : x < N) (hy0 : 0 < y)
    (hy : y < N) (hk0 : 0 < k) (hk : k < N) (hY : Pt.mulG y = Pt.aff yx yy)
    (hR : Pt.mul k (Pt.aff yx yy) = Pt.aff rx ry) (hr : rx % N ≠ 0)
    (hs : spOf k x (Bytes.toNat msg32 % N) (rx % N) ≠ 0) :
    let s0 := Sc.mul (Sc.inv y) (spOf k x (Bytes.toNat msg32 % N) (rx % N))
    let s := if Sc.isHigh s0 then Sc.neg s0 else s0
    s ≠ 0 ∧ s < N ∧ ¬ Sc.isHigh s = true ∧ (Ecdsa.verify (rx % N, s) msg32 (Pt.mulG x)).ret = 1 := by
  intro s0 s
  have hs0N : s0 < N := Sc.mul_lt _ _
  have hsN : s < N := by
    show (if _ then _ else _) < N
    split
    · exact Sc.neg_lt _
    · exact hs0N
  have hkz := cast_ne_zero hk0 hk
  have hyz := cast_ne_zero hy0 hy
  have hspz : ((spOf k x (Bytes.toNat msg32 % N) (rx % N) : Nat) : ZMod N) ≠ 0 :=
    fun h => hs ((cast_eq_zero (spOf_lt _ _ _ _)).1 h)
  have hscast : (s : ZMod N) = (if Sc.isHigh s0 then
      -((((Sc.mul k y : Nat) : ZMod N))⁻¹ * (((rx % N : Nat) : ZMod N) * x + (Bytes.toNat msg32 % N : Nat)))
      else (((Sc.mul k y : Nat) : ZMod N))⁻¹ * (((rx % N : Nat) : ZMod N) * x + (Bytes.toNat msg32 % N : Nat))) := by
    show (((if _ then _ else _ : Nat)) : ZMod N) = _
    split <;> simp only [s0, spOf, cast_neg, cast_mul, cast_inv, cast_add, mul_inv] <;> ring
  have hsz : (s : ZMod N) ≠ 0 := by
    rw [hscast]
    have h1 : (((Sc.mul k y : Nat) : ZMod N))⁻¹ * (((rx % N : Nat) : ZMod N) * x + (Bytes.toNat msg32 % N : Nat)) ≠ 0 := by
      have : ((spOf k x (Bytes.toNat msg32 % N) (rx % N) : Nat) : ZMod N) =
          (k : ZMod N)⁻¹ * (((rx % N : Nat) : ZMod N) * x + (Bytes.toNat msg32 % N : Nat)) := by
        simp only [spOf, cast_mul, cast_inv, cast_add]
      rw [this] at hspz
      simp only [cast_mul, mul_inv]
      intro h0
      apply hspz
      have hyi : (y : ZMod N)⁻¹ ≠ 0 := inv_ne_zero hyz
      have : (y : ZMod N)⁻¹ * ((k : ZMod N)⁻¹ * (((rx % N : Nat) : ZMod N) * x + (Bytes.toNat msg32 % N : Nat))) = 0 := by
        rw [← h0]; ring
      exact (mul_eq_zero.1 this).resolve_left hyi
    split
    · exact neg_ne_zero.2 h1
    · exact h1
  have hsne : s ≠ 0 := fun h => hsz (by rw [h]; simp)
  have hkyG : Pt.mulG (Sc.mul k y) = Pt.aff rx ry := by
    rw [← hR, ← hY, mulG_gmul (Sc.mul_lt _ _), mulG_gmul hy, mul_gmul' hk, cast_mul]
  have hRv : (Pt.aff rx ry).valid = true := by rw [← hkyG]; exact mulG_valid (lt_mulBound_of_lt_N (Sc.mul_lt _ _))
  have hPt : C01.verifyPoint (rx % N) s (Bytes.toNat msg32 % N) (Pt.mulG x) =
      Pt.aff rx (if Sc.isHigh s0 then Fe.neg ry else ry) := by
    rw [← gmul_pm (Sc.mul_lt _ _) hkyG, ← verify_field _ (x : ZMod N) ((Bytes.toNat msg32 % N : Nat) : ZMod N) _ _ _ hscast hsz]
    unfold C01.verifyPoint
    rw [mulG_gmul hx, mul_gmul' (Sc.mul_lt _ _), mulG_gmul (Sc.mul_lt _ _), add_gmul]
    apply gmul_congr
    simp only [cast_mul, cast_inv]
  refine ⟨hsne, hsN, not_isHigh_normalize hs0N, ?_⟩
  rw [ecdsa_verify_iff' groupLaw _ _ _ _ (Nat.mod_lt _ N_pos) (mulG_valid (lt_mulBound_of_lt_N hx))]
  refine ⟨not_isHigh_normalize hs0N, mulG_ne_inf hx0 hx, hr, hsne, ?_, ?_⟩
  · rw [hPt]; exact fun h => Pt.noConfusion h
  · rw [hPt]; rfl

/-! ## G. `recover` -/

theorem tag_ne_of_parity_ne {a b : Nat} (h : Fe.isOdd a = !Fe.isOdd b) :
    (if Fe.isOdd a = true then (0x03 : UInt8) else 0x02) ≠ (if Fe.isOdd b = true then (0x03 : UInt8) else 0x02) := by
  cases hb : Fe.isOdd b <;> rw [hb] at h <;> simp [h]

/-- **`recover`, matching candidate.**  If the candidate key `c = s⁻¹·s'` is `y` or `−y` where
    `Y = y•G` is the encryption key, `recover` writes exactly `be32 y`; its return value is 1 iff in addition
    `r` matches the adaptor's `R.x mod n` and `s ≠ 0`. -/
theorem recover_core {a : Bytes} {p : Parts} (hdes : sigDeserialize false a = some p) {r s y yx yy : Nat}
    (hy : y < N) (hY : Pt.mulG y = Pt.aff yx yy)
    (hc : ((Sc.mul (Sc.inv s) p.sp : Nat) : ZMod N) = y ∨ ((Sc.mul (Sc.inv s) p.sp : Nat) : ZMod N) = -(y : ZMod N)) :
    recover (r, s) a (Pt.aff yx yy) =
      ⟨if ((p.sigr == r) && (s != 0)) = true then 1 else 0, some (Bytes.be32 y), 0⟩ := by
  have hYv : (Pt.aff yx yy).valid = true := hY ▸ mulG_valid (lt_mulBound_of_lt_N hy)
  unfold recover
  rw [hdes]
  simp only []
  generalize hcd : Sc.mul (Sc.inv s) p.sp = c at hc ⊢
  have hcN : c < N := hcd ▸ Sc.mul_lt _ _
  rcases hc with hc | hc
  · have : c = y := (cast_inj hcN hy).1 hc
    subst this
    rw [hY]
    simp
  · have hG : Pt.mulG c = Pt.aff yx (Fe.neg yy) := by
      rw [mulG_gmul hcN, hc, ← neg_gmul, ← mulG_gmul hy, hY]; rfl
    rw [hG]
    have hpar := isOdd_neg hYv
    have hneg : Sc.neg c = y := by
      apply (cast_inj (Sc.neg_lt _) hy).1
      rw [cast_neg, hc, neg_neg]
    simp only [serialize33_aff, List.drop_succ_cons, List.drop_zero, ne_eq, not_true_eq_false, if_false,
      List.take_succ_cons, List.take_zero, List.cons.injEq, and_true, tag_ne_of_parity_ne hpar,
      not_false_eq_true, if_true, hneg]

/-- `recover` returns 0 when `r` does not match the adaptor's `R.x mod n` (whatever else happens). -/
theorem recover_wrong_r {a : Bytes} {p : Parts} (hdes : sigDeserialize false a = some p) {r s : Nat} (Y : Pt)
    (hr : p.sigr ≠ r) : (recover (r, s) a Y).ret = 0 := by
  unfold recover
  rw [hdes]
  have : (p.sigr == r) = false := by simpa using hr
  cases Y with
  | inf => rfl
  | aff yx yy =>
    simp only [this, Bool.false_and, Bool.false_eq_true, if_false]
    split <;> (split <;> rfl)

/-- `recover` returns 0 and writes nothing when the candidate's public point is neither `Y` nor `−Y`. -/
theorem recover_wrong_key {a : Bytes} {p : Parts} (hdes : sigDeserialize false a = some p) {r s yx yy : Nat}
    (hYv : (Pt.aff yx yy).valid = true)
    (h1 : Pt.mulG (Sc.mul (Sc.inv s) p.sp) ≠ Pt.aff yx yy)
    (h2 : Pt.mulG (Sc.mul (Sc.inv s) p.sp) ≠ Pt.neg (Pt.aff yx yy)) :
    recover (r, s) a (Pt.aff yx yy) = ⟨0, none, 0⟩ := by
  unfold recover
  rw [hdes]
  simp only []
  have hQv : (Pt.mulG (Sc.mul (Sc.inv s) p.sp)).valid = true := mulG_valid (lt_mulBound_of_lt_N (Sc.mul_lt _ _))
  generalize Pt.mulG (Sc.mul (Sc.inv s) p.sp) = Q at h1 h2 hQv ⊢
  have hyx : yx < 2 ^ 256 := lt_pow_of_lt_P (valid_aff_lt hYv).1
  cases Q with
  | inf =>
    have : (Bytes.zeros 32) ≠ Bytes.be32 yx := by
      intro h
      have h0 : yx = 0 := by
        have := congrArg Bytes.toNat h
        rw [toNat_zeros, toNat_be32 hyx] at this
        exact this.symm
      subst h0
      exact no_point_x_zero _ hYv
    simp [serialize33_aff, this]
  | aff qx qy =>
    have hqx : qx < 2 ^ 256 := lt_pow_of_lt_P (valid_aff_lt hQv).1
    have : Bytes.be32 qx ≠ Bytes.be32 yx := by
      intro h
      have hx := be32_inj hqx hyx h
      subst hx
      rcases eq_or_eq_neg_of_x_eq hYv hQv with e | e
      · exact h1 (by rw [e])
      · exact h2 (by rw [e]; rfl)
    simp [serialize33_aff, this]

/-! ## H. `sign_inner` with the sign-to-contract hook -/

/-- What `sign_inner` with a sign-to-contract hook has done when it returns 1: `k0` is the untweaked
    nonce, the exported opening is `k0•G`, `tw` the commitment hash, `k = k0 + tw` the nonce actually used. -/
def S2cSpec (hook : Ecdsa.S2cHook) (isSecValid : Bool) (sec m : Nat) (o : Ecdsa.SignOut) : Prop :=
  ∃ k0 tw k, 0 < k0 ∧ k0 < N ∧ o.opening = some (Pt.mulG k0) ∧
    Ecdsa.ecCommitTweak hook.sha (Pt.mulG k0) hook.data = some tw ∧
    Ecdsa.seckeyTweakAddHelper k0 tw = some k ∧
    Ecdsa.sigSign sec m k = (true, o.r, o.s, o.recid) ∧ isSecValid = true

theorem loop_s2c_spec (hook : Ecdsa.S2cHook) (msg32 seckey : Bytes) (noncefp : Option Ecdsa.NonceFn)
    (ndata : Option Bytes) (isSecValid : Bool) (sec m : Nat) :
    ∀ (fuel count : Nat) (op : Option Pt),
      (Ecdsa.signInner.loop (some hook) msg32 seckey noncefp ndata isSecValid sec m fuel count op).ret = 1 →
      S2cSpec hook isSecValid sec m
        (Ecdsa.signInner.loop (some hook) msg32 seckey noncefp ndata isSecValid sec m fuel count op) := by
  intro fuel
  induction fuel with
  | zero => intro count op h; simp [Ecdsa.signInner.loop] at h
  | succ fuel ih =>
    intro count op
    unfold Ecdsa.signInner.loop
    simp only []
    split
    · intro h; simp at h
    · next nonce32 hnonce =>
      split
      · next hvalid =>
        have hnon : 0 < (Sc.setB32Seckey nonce32).1 ∧ (Sc.setB32Seckey nonce32).1 < N := by
          have := setB32Seckey_valid (b := nonce32) (v := (Sc.setB32Seckey nonce32).1) (by rw [← hvalid])
          exact ⟨this.1, this.2.1⟩
        split
        · intro h; simp at h
        · next non' op' htw =>
          split at htw
          · cases htw
          · next tw htweak =>
            split at htw
            · cases htw
            · next k hadd =>
              simp only [Option.some.injEq, Prod.mk.injEq] at htw
              obtain ⟨rfl, rfl⟩ := htw
              split
              · next hok =>
                cases isSecValid with
                | false => intro h; simp at h
                | true =>
                  intro _
                  refine ⟨_, tw, k, hnon.1, hnon.2, rfl, htweak, hadd, ?_, rfl⟩
                  simp only [if_true]
                  rw [← hok]
              · exact ih _ _
      · exact ih _ _

/-- `sign_inner` with a hook, return value 1: see `S2cSpec`. -/
theorem signInner_s2c_spec (fuel : Nat) (hook : Ecdsa.S2cHook) (msg32 seckey : Bytes)
    (noncefp : Option Ecdsa.NonceFn) (ndata : Option Bytes)
    (h : (Ecdsa.signInner fuel (some hook) msg32 seckey noncefp ndata).ret = 1) :
    S2cSpec hook (Sc.setB32Seckey seckey).2
      (if (Sc.setB32Seckey seckey).2 = true then (Sc.setB32Seckey seckey).1 else 1) (Bytes.toNat msg32 % N)
      (Ecdsa.signInner fuel (some hook) msg32 seckey noncefp ndata) := by
  unfold Ecdsa.signInner at h ⊢
  exact loop_s2c_spec _ _ _ _ _ _ _ _ _ _ _ h

/-- Whatever `sign_inner` (with or without hook, any retry bound, any nonce function) returns with value 1
    is a low-S signature that `ecdsa_verify` accepts under the public key of the secret key. -/
theorem signInner_verifies (fuel : Nat) (s2c : Option Ecdsa.S2cHook) (msg32 seckey : Bytes)
    (noncefp : Option Ecdsa.NonceFn) (ndata : Option Bytes)
    (h : (Ecdsa.signInner fuel s2c msg32 seckey noncefp ndata).ret = 1) :
    let o := Ecdsa.signInner fuel s2c msg32 seckey noncefp ndata
    ¬ Sc.isHigh o.s = true ∧ (Keys.pubkeyCreate seckey).1 = 1 ∧
    (Ecdsa.verify (o.r, o.s) msg32 (Keys.pubkeyCreate seckey).2).ret = 1 := by
  simp only []
  have hs := signInner_spec fuel s2c msg32 seckey noncefp ndata
  rcases hs with ⟨h0, _⟩ | ⟨_, hvalid, k, hk0, hkN, hsig⟩
  · rw [h0] at h; cases h
  · obtain ⟨hd0, hdN, _⟩ := setB32Seckey_valid (b := seckey) (v := (Sc.setB32Seckey seckey).1) (by rw [← hvalid])
    rw [hvalid, if_pos rfl] at hsig
    have hv := ecdsa_sign_verifies groupLaw _ (Bytes.toNat msg32 % N) k hdN hk0 hkN
    simp only [hsig] at hv
    obtain ⟨hlow, hver⟩ := hv trivial
    have hpk : Keys.pubkeyCreate seckey = (1, Pt.mulG (Sc.setB32Seckey seckey).1) := by
      simp [Keys.pubkeyCreate, hvalid]
    obtain ⟨qx, qy, hq⟩ := mulG_eq_aff hd0 hdN
    refine ⟨hlow, by rw [hpk], ?_⟩
    rw [hpk]
    simp only [Ecdsa.verify, hlow, if_false, hq, Pt.isInf, Bool.false_eq_true]
    rw [← hq, hver]; rfl

/-- The commitment recomputed from the opening `k0•G` is the nonce point `k•G` actually used. -/
theorem ecCommit_of_tweak {sha : Sha256.State} {data tw : Bytes} {k0 k : Nat} (hk0N : k0 < N)
    (htw : Ecdsa.ecCommitTweak sha (Pt.mulG k0) data = some tw)
    (hadd : Ecdsa.seckeyTweakAddHelper k0 tw = some k) :
    0 < k ∧ k < N ∧ Pt.add (Pt.mulG k0) (Pt.mulG (Sc.setB32 tw).1) = Pt.mulG k ∧
    Ecdsa.ecCommit sha (Pt.mulG k0) data = some (Pt.mulG k) := by
  obtain ⟨hk0', hkN⟩ := seckeyTweakAddHelper_some hadd
  unfold Ecdsa.seckeyTweakAddHelper at hadd
  have htN : (Sc.setB32 tw).1 < N := by simp only [Sc.setB32]; exact Nat.mod_lt _ N_pos
  cases hst : Sc.setB32 tw with
  | mk t ov =>
  rw [hst] at hadd htN
  simp only [] at hadd htN
  split at hadd
  · cases hadd
  · next hn =>
    simp only [Option.some.injEq] at hadd
    have hov : ov = false := by
      cases ov
      · rfl
      · exact absurd (Or.inl rfl) hn
    subst hov
    have hsum : Pt.add (Pt.mulG k0) (Pt.mulG t) = Pt.mulG k := by
      rw [mulG_gmul hk0N, mulG_gmul htN, mulG_gmul hkN, add_gmul, ← hadd, cast_add]
    refine ⟨hk0', hkN, hsum, ?_⟩
    unfold Ecdsa.ecCommit
    rw [htw]
    unfold Ecdsa.pubkeyTweakAddHelper
    simp only [hst, Bool.false_eq_true, if_false, hsum]
    obtain ⟨x, y, hxy⟩ := mulG_eq_aff hk0' hkN
    rw [hxy]

/-- `r` of `ecdsa_sig_sign` is the abscissa of the nonce point reduced mod `n`. -/
theorem sigSign_r {sec m k r s recid : Nat} (h : Ecdsa.sigSign sec m k = (true, r, s, recid)) :
    r = (Pt.mulG k).xOf % N := by
  unfold Ecdsa.sigSign at h
  split at h
  · simp at h
  · next x y hxy =>
    simp only [Prod.mk.injEq] at h
    rw [hxy]; exact h.2.1.symm

/-! ## I. The anti-exfil signer commitment and the signing loop use the same nonce -/

/-- The RFC 6979 candidate for retry counter `c` (extra data `nd`) is not a valid nonce (0 or ≥ n). -/
def InvalidAt (msg32 seckey nd : Bytes) (c : Nat) : Prop :=
  ∃ b, Ecdsa.rfc6979Nonce msg32 seckey none (some nd) c = some b ∧ (Sc.setB32Seckey b).2 = false

/-- The RFC 6979 candidate for retry counter `c` is the valid nonce `k0`. -/
def ValidAt (msg32 seckey nd : Bytes) (c k0 : Nat) : Prop :=
  ∃ b, Ecdsa.rfc6979Nonce msg32 seckey none (some nd) c = some b ∧ Sc.setB32Seckey b = (k0, true)

/-- The signing attempt with the valid untweaked nonce `k0` goes back to the top of the retry loop
    (`ecdsa_sig_sign` produced `r = 0` or `s = 0` for the tweaked nonce). -/
def retries (hook : Ecdsa.S2cHook) (sec m k0 : Nat) : Bool :=
  match Ecdsa.ecCommitTweak hook.sha (Pt.mulG k0) hook.data with
  | none => false
  | some tw =>
    match Ecdsa.seckeyTweakAddHelper k0 tw with
    | none => false
    | some k => !(Ecdsa.sigSign sec m k).1

theorem signerCommit_loop_first (msg32 seckey nd : Bytes) (k0 : Nat) :
    ∀ (d count fuel : Nat), (∀ c', count ≤ c' → c' < count + d → InvalidAt msg32 seckey nd c') →
      ValidAt msg32 seckey nd (count + d) k0 → d < fuel →
      S2c.signerCommit.loop msg32 seckey nd fuel count = some (Pt.mulG k0) := by
  intro d
  induction d with
  | zero =>
    intro count fuel _ hv hf
    obtain ⟨b, hb, hk⟩ := hv
    obtain ⟨fuel, rfl⟩ : ∃ f, fuel = f + 1 := ⟨fuel - 1, by omega⟩
    unfold S2c.signerCommit.loop
    rw [Nat.add_zero] at hb
    simp only [hb, hk, if_true]
  | succ d ih =>
    intro count fuel hinv hv hf
    obtain ⟨fuel, rfl⟩ : ∃ f, fuel = f + 1 := ⟨fuel - 1, by omega⟩
    obtain ⟨b, hb, hk⟩ := hinv count (le_refl _) (by omega)
    unfold S2c.signerCommit.loop
    have hk' : Sc.setB32Seckey b = ((Sc.setB32Seckey b).1, false) := by rw [← hk]
    simp only [hb]
    rw [hk']
    simp only [Bool.false_eq_true, if_false]
    apply ih (count + 1) fuel
    · intro c' h1 h2; exact hinv c' (by omega) (by omega)
    · rw [show count + 1 + d = count + (d + 1) by omega]; exact hv
    · omega

theorem signInner_loop_first (hook : Ecdsa.S2cHook) (msg32 seckey nd : Bytes) (isSecValid : Bool)
    (sec m k0 : Nat) (hnr : retries hook sec m k0 = false) :
    ∀ (d count fuel : Nat) (op : Option Pt),
      (∀ c', count ≤ c' → c' < count + d → InvalidAt msg32 seckey nd c') →
      ValidAt msg32 seckey nd (count + d) k0 → d < fuel →
      (Ecdsa.signInner.loop (some hook) msg32 seckey none (some nd) isSecValid sec m fuel count op).opening
        = some (Pt.mulG k0) := by
  intro d
  induction d with
  | zero =>
    intro count fuel op _ hv hf
    obtain ⟨b, hb, hk⟩ := hv
    obtain ⟨fuel, rfl⟩ : ∃ f, fuel = f + 1 := ⟨fuel - 1, by omega⟩
    unfold Ecdsa.signInner.loop
    rw [Nat.add_zero] at hb
    simp only [hb, hk, if_true]
    unfold retries at hnr
    cases htw : Ecdsa.ecCommitTweak hook.sha (Pt.mulG k0) hook.data with
    | none => simp
    | some tw =>
      rw [htw] at hnr
      simp only [] at hnr ⊢
      cases hadd : Ecdsa.seckeyTweakAddHelper k0 tw with
      | none => simp
      | some k =>
        rw [hadd] at hnr
        simp only [Bool.not_eq_false'] at hnr ⊢
        rw [hnr]
        simp only [if_true]
        split <;> rfl
  | succ d ih =>
    intro count fuel op hinv hv hf
    obtain ⟨fuel, rfl⟩ : ∃ f, fuel = f + 1 := ⟨fuel - 1, by omega⟩
    obtain ⟨b, hb, hk⟩ := hinv count (le_refl _) (by omega)
    unfold Ecdsa.signInner.loop
    have hk' : Sc.setB32Seckey b = ((Sc.setB32Seckey b).1, false) := by rw [← hk]
    simp only [hb]
    rw [hk']
    simp only [Bool.false_eq_true, if_false]
    apply ih (count + 1) fuel
    · intro c' h1 h2; exact hinv c' (by omega) (by omega)
    · rw [show count + 1 + d = count + (d + 1) by omega]; exact hv
    · omega

/-! ## J. `S2c.sign` with the retry bound as a parameter

  Proof device: `S2c.sign` fixes the retry bound of the model to the literal 64; elaborator-level reduction
  of `Ecdsa.signInner 64 …` on symbolic arguments unfolds 64 loop iterations including SHA-256.  All proofs
  are therefore done for a variable bound and specialised at the very end. -/

/-- `S2c.sign` for an arbitrary retry bound. -/
def signWith (fuel : Nat) (msg32 seckey data32 : Bytes) : S2c.SignResult :=
  let o := Ecdsa.signInner fuel (some ⟨S2c.tagPoint, data32⟩) msg32 seckey none (some (S2c.dataHash data32))
  ⟨o.ret, if o.ret = 1 then (o.r, o.s) else (0, 0), o.opening⟩

theorem sign_eq_signWith : S2c.sign = signWith 64 := rfl

/-! ## K. When the signing loop succeeds -/

/-- The signing attempt with the valid untweaked nonce `k0` goes through: the commitment hash and the
    tweaked nonce are in range and `ecdsa_sig_sign` produces `r ≠ 0`, `s ≠ 0`. -/
def attemptOk (hook : Ecdsa.S2cHook) (sec m k0 : Nat) : Bool :=
  match Ecdsa.ecCommitTweak hook.sha (Pt.mulG k0) hook.data with
  | none => false
  | some tw =>
    match Ecdsa.seckeyTweakAddHelper k0 tw with
    | none => false
    | some k => (Ecdsa.sigSign sec m k).1

theorem retries_of_attemptOk {hook : Ecdsa.S2cHook} {sec m k0 : Nat} (h : attemptOk hook sec m k0 = true) :
    retries hook sec m k0 = false := by
  unfold attemptOk at h
  unfold retries
  cases htw : Ecdsa.ecCommitTweak hook.sha (Pt.mulG k0) hook.data with
  | none => rfl
  | some tw =>
    rw [htw] at h
    simp only [] at h ⊢
    cases hadd : Ecdsa.seckeyTweakAddHelper k0 tw with
    | none => rfl
    | some k =>
      rw [hadd] at h
      simp only [] at h ⊢
      simp [h]

theorem signInner_loop_first_ret (hook : Ecdsa.S2cHook) (msg32 seckey nd : Bytes) (sec m k0 : Nat)
    (hok : attemptOk hook sec m k0 = true) :
    ∀ (d count fuel : Nat) (op : Option Pt),
      (∀ c', count ≤ c' → c' < count + d → InvalidAt msg32 seckey nd c') →
      ValidAt msg32 seckey nd (count + d) k0 → d < fuel →
      (Ecdsa.signInner.loop (some hook) msg32 seckey none (some nd) true sec m fuel count op).ret = 1 := by
  intro d
  induction d with
  | zero =>
    intro count fuel op _ hv hf
    obtain ⟨b, hb, hk⟩ := hv
    obtain ⟨fuel, rfl⟩ : ∃ f, fuel = f + 1 := ⟨fuel - 1, by omega⟩
    unfold Ecdsa.signInner.loop
    rw [Nat.add_zero] at hb
    simp only [hb, hk, if_true]
    unfold attemptOk at hok
    cases htw : Ecdsa.ecCommitTweak hook.sha (Pt.mulG k0) hook.data with
    | none => rw [htw] at hok; cases hok
    | some tw =>
      rw [htw] at hok
      simp only [] at hok ⊢
      cases hadd : Ecdsa.seckeyTweakAddHelper k0 tw with
      | none => rw [hadd] at hok; cases hok
      | some k =>
        rw [hadd] at hok
        simp only [] at hok ⊢
        rw [hok]
        simp only [if_true]
  | succ d ih =>
    intro count fuel op hinv hv hf
    obtain ⟨fuel, rfl⟩ : ∃ f, fuel = f + 1 := ⟨fuel - 1, by omega⟩
    obtain ⟨b, hb, hk⟩ := hinv count (le_refl _) (by omega)
    unfold Ecdsa.signInner.loop
    have hk' : Sc.setB32Seckey b = ((Sc.setB32Seckey b).1, false) := by rw [← hk]
    simp only [hb]
    rw [hk']
    simp only [Bool.false_eq_true, if_false]
    apply ih (count + 1) fuel
    · intro c' h1 h2; exact hinv c' (by omega) (by omega)
    · rw [show count + 1 + d = count + (d + 1) by omega]; exact hv
    · omega

/-- `S2c.sign` (any retry bound `> c`) returns 1 when the key is valid, `c` is the first counter with a valid
    RFC 6979 candidate `k0`, and the attempt with `k0` goes through. -/
theorem signWith_ret_one (fuel : Nat) (msg32 seckey rho : Bytes) (c k0 : Nat) (hc : c < fuel)
    (hkey : (Sc.setB32Seckey seckey).2 = true)
    (hinv : ∀ c', c' < c → InvalidAt msg32 seckey (S2c.dataHash rho) c')
    (hval : ValidAt msg32 seckey (S2c.dataHash rho) c k0)
    (hok : attemptOk ⟨S2c.tagPoint, rho⟩ (Sc.setB32Seckey seckey).1 (Bytes.toNat msg32 % N) k0 = true) :
    (signWith fuel msg32 seckey rho).ret = 1 := by
  unfold signWith
  simp only []
  unfold Ecdsa.signInner
  simp only [hkey, if_true]
  exact signInner_loop_first_ret ⟨S2c.tagPoint, rho⟩ msg32 seckey (S2c.dataHash rho) _ _ k0 hok c 0 fuel none
    (fun c' _ h => hinv c' (by omega)) (by rw [Nat.zero_add]; exact hval) hc

end AdaptorLemmas
end SecpZkp
