import SecpZkp.Proofs.Jacobian
import SecpZkp.Proofs.GroupLaw
/-
  Assembly of the interface `GroupLaw` from the refinement lemmas of `Proofs/Affine.lean`
  (affine law ↔ Mathlib's `WeierstrassCurve.Affine.Point` over `ZMod P`) and `Proofs/Jacobian.lean`
  (`Pt.mul = Pt.mulSpec`).  Primality of `P` and `N` is an explicit hypothesis here; it is proved in
  `Proofs/Prime.lean`.
-/
namespace SecpZkp

/-- The generator satisfies the curve equation (closed computation). -/
theorem valid_G : Pt.G.valid = true := by decide +kernel

/-- `N • G = ∞`, by kernel evaluation of the Jacobian double-and-add (closed computation). -/
theorem mul_N_G : Pt.mul N Pt.G = Pt.inf := by decide +kernel

theorem G_ne_inf : Pt.G ≠ Pt.inf := by decide

theorem pt_mul_zero (p : Pt) : Pt.mul 0 p = Pt.inf := by
  cases p with
  | inf => rfl
  | aff x y =>
    show (Pt.Jac.mulAux (263 + 1) 0 x y).toPt = Pt.inf
    rw [Pt.Jac.mulAux, if_pos rfl]
    exact Pt.Jac.toPt_mk_zero (by decide)

section PrimeP
variable [Fact (Nat.Prime P)]
set_option exponentiation.threshold 600

theorem pt_mul_succ (k : ℕ) {p : Pt} (hp : p.valid = true) (hk : k + 1 < mulBound) :
    Pt.mul (k + 1) p = Pt.add (Pt.mul k p) p := by
  have hk1 : k + 1 < 2 ^ 264 := hk
  have hk0 : k < 2 ^ 264 := Nat.lt_of_succ_lt hk1
  apply toPoint_injective (valid_mul _ hp) (valid_add (valid_mul _ hp) hp)
  rw [toPoint_add (valid_mul _ hp) hp, toPoint_mul hk1 hp, toPoint_mul hk0 hp, succ_nsmul]

/-- `Pt.mul` is additive in the scalar (below the fuel bound). -/
theorem pt_mul_add {a b : ℕ} (h : a + b < mulBound) {p : Pt} (hp : p.valid = true) :
    Pt.mul (a + b) p = Pt.add (Pt.mul a p) (Pt.mul b p) := by
  have hab : a + b < 2 ^ 264 := h
  have ha : a < 2 ^ 264 := by omega
  have hb : b < 2 ^ 264 := by omega
  apply toPoint_injective (valid_mul _ hp) (valid_add (valid_mul _ hp) (valid_mul _ hp))
  rw [toPoint_add (valid_mul _ hp) (valid_mul _ hp), toPoint_mul hab hp, toPoint_mul ha hp,
    toPoint_mul hb hp, add_nsmul]

end PrimeP

/-- **The executable curve arithmetic is a correct implementation of the secp256k1 group.** -/
theorem groupLaw_holds (hP : Nat.Prime P) (hN : Nat.Prime N) : GroupLaw := by
  have : Fact (Nat.Prime P) := ⟨hP⟩
  exact
    { prime_P := fun d hd => (Nat.dvd_prime hP).1 hd
      prime_N := fun d hd => (Nat.dvd_prime hN).1 hd
      valid_G := valid_G
      valid_add := fun _ _ hp hq => valid_add hp hq
      valid_neg := fun _ hp => valid_neg hp
      add_comm := fun _ _ hp hq => pt_add_comm hp hq
      add_assoc := fun _ _ _ hp hq hr => pt_add_assoc hp hq hr
      add_neg := fun _ hp => pt_add_neg hp
      mul_zero := pt_mul_zero
      mul_succ := fun k _ hp hk => pt_mul_succ k hp hk
      mul_N_G := mul_N_G }

end SecpZkp
