/-
  Helper lemmas for the pure-arithmetic layer of the range-proof properties C09 / C10:
  `clz64`, the loops of `secp256k1_range_proveparams` (`reduceExp`, `scaleUp`, `ringsOf`), the header codec
  (`headerBytes` / `getHeader` / `headerScale`) and the guard prefix of `verifyImpl`.
  Core Lean + `omega` / `decide`; no Mathlib.
-/
import SecpZkp.Model.Rangeproof

namespace SecpZkp
namespace Rangeproof

/-! ### `clz64` -/

theorem u64Max_eq : u64Max = 18446744073709551615 := by decide
theorem i64Max_eq : i64Max = 9223372036854775807 := by decide
theorem U64_eq : U64 = 18446744073709551616 := by decide

/-- For `0 < x < 2^64`, `m = 64 - clz64 x` is the bit length of `x`: `2^(m-1) ≤ x < 2^m`, `1 ≤ m ≤ 64`,
and `clz64 x = 64 - m` (no truncated subtraction is hidden). -/
theorem clz64_spec {x : Nat} (hx : x ≠ 0) (hlt : x < 2 ^ 64) :
    ∃ m, clz64 x = 64 - m ∧ 1 ≤ m ∧ m ≤ 64 ∧ 2 ^ (m - 1) ≤ x ∧ x < 2 ^ m := by
  have h1 : Nat.log2 x < 64 := (Nat.log2_lt hx).2 hlt
  refine ⟨Nat.log2 x + 1, ?_, by omega, by omega, ?_, Nat.lt_log2_self⟩
  · simp only [clz64, hx, if_false]; omega
  · simpa using Nat.log2_self_le hx

theorem clz64_zero : clz64 0 = 64 := by simp [clz64]

theorem clz64_le (x : Nat) : clz64 x ≤ 64 := by
  unfold clz64; split <;> omega

/-! ### `reduceExp` -/

/-- The exponent-reduction loop performs `k` iterations: the index advances by `k`, the value is divided by
`10^k`, `k` is bounded by the requested exponent, and if any iteration ran the guard value `v2` times `10^k`
still fits in 64 bits. -/
theorem reduceExp_spec (fuel i exp v v2 : Nat) :
    ∃ k, reduceExp fuel i exp v v2 = (i + k, v / 10 ^ k) ∧ k ≤ fuel ∧ (k = 0 ∨ i + k ≤ exp) ∧
      (k = 0 ∨ v2 * 10 ^ k ≤ u64Max) := by
  induction fuel generalizing i v v2 with
  | zero => exact ⟨0, by simp [reduceExp], by omega, Or.inl rfl, Or.inl rfl⟩
  | succ fuel ih =>
    unfold reduceExp
    by_cases hc : i < exp ∧ v2 ≤ u64Max / 10
    · rw [if_pos hc]
      obtain ⟨k, hk, hkf, hke, hkv⟩ := ih (i + 1) (v / 10) (v2 * 10)
      refine ⟨k + 1, ?_, by omega, Or.inr (by omega), Or.inr ?_⟩
      · rw [hk, Nat.div_div_eq_div_mul, Nat.pow_succ, Nat.mul_comm (10 ^ k) 10]
        congr 1; omega
      · rcases hkv with h0 | h
        · subst h0
          have := hc.2; rw [u64Max_eq] at this ⊢; omega
        · rw [Nat.pow_succ, Nat.mul_comm (10 ^ k) 10, ← Nat.mul_assoc]; exact h
    · rw [if_neg hc]
      exact ⟨0, by simp, by omega, Or.inl rfl, Or.inl rfl⟩

/-! ### `scaleUp` -/

/-- Without 64-bit overflow the scaling loop multiplies both accumulators by `10^e`. -/
theorem scaleUp_spec (e a b : Nat) (ha : a * 10 ^ e < 2 ^ 64) (hb : b * 10 ^ e < 2 ^ 64) :
    scaleUp e a b = (a * 10 ^ e, b * 10 ^ e) := by
  induction e generalizing a b with
  | zero => simp [scaleUp]
  | succ e ih =>
    have hp : 0 < 10 ^ e := Nat.pow_pos (by omega)
    rw [Nat.pow_succ, Nat.mul_comm (10 ^ e) 10, ← Nat.mul_assoc] at ha hb
    have ha' : a * 10 < 2 ^ 64 := Nat.lt_of_le_of_lt (Nat.le_mul_of_pos_right _ hp) ha
    have hb' : b * 10 < 2 ^ 64 := Nat.lt_of_le_of_lt (Nat.le_mul_of_pos_right _ hp) hb
    unfold scaleUp
    simp only [u64, Nat.mod_eq_of_lt ha', Nat.mod_eq_of_lt hb']
    rw [ih _ _ ha hb, Nat.pow_succ, Nat.mul_comm (10 ^ e) 10, ← Nat.mul_assoc, ← Nat.mul_assoc]

/-! ### `ringsOf` -/

/-- Value of a little-endian base-4 digit list: `Σ d[i] * 4^i`. -/
def digitsValue : List Nat → Nat
  | [] => 0
  | d :: ds => d + 4 * digitsValue ds

theorem ringsOf_length (rings mantissa v n i : Nat) :
    (ringsOf rings mantissa v n i).1.length = n ∧ (ringsOf rings mantissa v n i).2.1.length = n := by
  induction n generalizing i with
  | zero => simp [ringsOf]
  | succ n ih => simp [ringsOf, ih (i + 1)]

/-- the third component is the sum of the ring sizes -/
theorem ringsOf_npub (rings mantissa v n i : Nat) :
    (ringsOf rings mantissa v n i).2.2 = (ringsOf rings mantissa v n i).1.sum := by
  induction n generalizing i with
  | zero => simp [ringsOf]
  | succ n ih => simp [ringsOf, ih (i + 1)]

/-- every ring size is 2 or 4 -/
theorem ringsOf_rsizes_mem (rings mantissa v n i : Nat) :
    ∀ r ∈ (ringsOf rings mantissa v n i).1, r = 2 ∨ r = 4 := by
  induction n generalizing i with
  | zero => simp [ringsOf]
  | succ n ih =>
    intro r hr
    simp only [ringsOf, List.mem_cons] at hr
    rcases hr with h | h
    · subst h; split <;> simp
    · exact ih (i + 1) r h

/-- the ring sizes are exactly: 4 for every ring, except 2 for the last ring when the mantissa is odd -/
theorem ringsOf_rsizes_eq (rings mantissa v n i : Nat) (hi : i + n = rings) :
    (ringsOf rings mantissa v n i).1 =
      if mantissa % 2 = 0 ∨ n = 0 then List.replicate n 4 else List.replicate (n - 1) 4 ++ [2] := by
  induction n generalizing i with
  | zero => simp [ringsOf]
  | succ n ih =>
    simp only [ringsOf]
    rw [ih (i + 1) (by omega)]
    by_cases hm : mantissa % 2 = 0
    · simp [hm, List.replicate_succ]
    · by_cases hn : n = 0
      · subst hn
        have : ¬ (i + 1 < rings) := by omega
        simp [hm, this]
      · have : i + 1 < rings := by omega
        obtain ⟨n', rfl⟩ : ∃ n', n = n' + 1 := ⟨n - 1, by omega⟩
        simp [hm, this, List.replicate_succ]

/-- each secret digit is below its ring size, provided `v < 2^mantissa` and `rings = ⌈mantissa/2⌉` -/
theorem ringsOf_digit_lt (rings mantissa v n i : Nat) (hr : rings = (mantissa + 1) / 2)
    (hv : v < 2 ^ mantissa) (hi : i + n = rings) :
    ∀ p ∈ List.zip (ringsOf rings mantissa v n i).2.1 (ringsOf rings mantissa v n i).1, p.1 < p.2 := by
  induction n generalizing i with
  | zero => simp [ringsOf]
  | succ n ih =>
    simp only [ringsOf, List.zip_cons_cons, List.mem_cons]
    intro p hp
    rcases hp with rfl | hp
    · have h3 : (v >>> (i * 2)) &&& 3 ≤ 3 := Nat.and_le_right
      dsimp only
      split
      · omega
      · rename_i hc
        have hm : mantissa = i * 2 + 1 := by omega
        have h1 : (v >>> (i * 2)) &&& 3 ≤ v >>> (i * 2) := Nat.and_le_left
        have h2 : v >>> (i * 2) < 2 := by
          rw [Nat.shiftRight_eq_div_pow, Nat.div_lt_iff_lt_mul (Nat.pow_pos (by omega))]
          rw [hm, Nat.pow_succ] at hv; omega
        omega
    · exact ih (i + 1) (by omega) p hp

/-- the secret digits are the base-4 digits of `v` -/
theorem ringsOf_digits (rings mantissa v n i : Nat) :
    digitsValue (ringsOf rings mantissa v n i).2.1 = (v >>> (i * 2)) % 4 ^ n := by
  induction n generalizing i with
  | zero => simp [ringsOf, digitsValue, Nat.mod_one]
  | succ n ih =>
    simp only [ringsOf, digitsValue]
    rw [ih (i + 1), Nat.pow_succ, Nat.mul_comm (4 ^ n) 4, Nat.mod_mul]
    have h1 : v >>> ((i + 1) * 2) = (v >>> (i * 2)) / 4 := by
      rw [show (i + 1) * 2 = i * 2 + 2 by omega, Nat.shiftRight_add, Nat.shiftRight_eq_div_pow _ 2]
    have h2 : (v >>> (i * 2)) &&& 3 = (v >>> (i * 2)) % 4 := Nat.and_two_pow_sub_one_eq_mod _ 2
    rw [h1, h2]


/-! ### `proveParams` -/

theorem shr_mask : ∀ m < 65, u64Max >>> (64 - m) = 2 ^ m - 1 := by decide +kernel

theorem pow_bound0 : ∀ mb < 65, 2 ^ (64 - mb) + 2 ^ mb ≤ 2 ^ 64 + 1 := by decide +kernel

theorem pow_boundk : ∀ mb < 65, ∀ k < 19, 1 ≤ mb → 1 ≤ k → (2 ^ mb - 1) * 10 ^ k ≤ u64Max →
    2 ^ (64 - mb) + 2 ^ mb * 10 ^ k ≤ 2 ^ 64 + 1 := by decide +kernel

theorem pow10_le : ∀ k < 19, 10 ^ k ≤ 10 ^ 18 := by decide +kernel

theorem proveParams_general (v0 minValue0 value : Nat) (exp0 minBits0 : Int)
   (hmin : minValue0 ≤ value) (hval : value < 2 ^ 64) (he2 : exp0 ≤ 18)
   (hb1 : 0 ≤ minBits0) (hb2 : minBits0 ≤ 64)
   (hne : minValue0 ≠ u64Max) (hge : exp0 ≥ 0)
   (hg : ¬ ((minValue0 ≠ 0 ∧ value > i64Max) ∨ (value ≠ 0 ∧ minValue0 ≥ i64Max))) :
   ∃ (k v mantissa : Nat) (minBits : Int),
      proveParams v0 minValue0 exp0 minBits0 value =
        ⟨true, v, (mantissa + 1) / 2, (ringsOf ((mantissa + 1) / 2) mantissa v ((mantissa + 1) / 2) 0).1,
          (ringsOf ((mantissa + 1) / 2) mantissa v ((mantissa + 1) / 2) 0).2.2,
          (ringsOf ((mantissa + 1) / 2) mantissa v ((mantissa + 1) / 2) 0).2.1,
          value - v * 10 ^ k, mantissa, 10 ^ k, (k : Int), minBits⟩ ∧
      k ≤ 18 ∧ (k : Int) ≤ exp0 ∧ v = (value - minValue0) / 10 ^ k ∧ v * 10 ^ k ≤ value ∧
      1 ≤ mantissa ∧ mantissa ≤ 64 ∧ v < 2 ^ mantissa ∧
      0 ≤ minBits ∧ minBits ≤ minBits0 ∧ minBits ≤ mantissa ∧
      (value - v * 10 ^ k) + (2 ^ mantissa - 1) * 10 ^ k < 2 ^ 64 ∧
      ((mantissa : Int) = minBits ∨ 2 ^ mantissa ≤ 2 * v ∨ (v = 0 ∧ mantissa = 1)) := by
  unfold proveParams
  simp only [hne, if_false, hge, if_true, hg]
  -- maxBits
  generalize hMB : (if minValue0 ≠ 0 then (↑(clz64 minValue0) : Int) else 64) = maxBits
  have hMB1 : 0 ≤ maxBits ∧ maxBits ≤ 64 ∧ minValue0 < 2 ^ (64 - maxBits.toNat) := by
    by_cases h0 : minValue0 = 0
    · simp [h0] at hMB; subst hMB; subst h0; simp
    · simp only [ne_eq, h0, not_false_eq_true, if_true] at hMB
      obtain ⟨m, hm, h1, h2, h3, h4⟩ := clz64_spec h0 (by omega)
      subst hMB
      rw [hm]
      refine ⟨by omega, by omega, ?_⟩
      have : 64 - (↑(64 - m) : Int).toNat = m := by omega
      rw [this]; exact h4
  clear hMB
  -- minBits
  generalize hmbD : (if minBits0 > maxBits then maxBits else minBits0) = minBits
  have hmb1 : 0 ≤ minBits ∧ minBits ≤ minBits0 ∧ minBits ≤ maxBits := by
    subst hmbD; split <;> omega
  obtain ⟨mb, rfl⟩ : ∃ mb : Nat, minBits = (mb : Int) := ⟨minBits.toNat, by omega⟩
  have hmb2 : mb ≤ 64 := by omega
  have hmin2 : minValue0 < 2 ^ (64 - mb) :=
    Nat.lt_of_lt_of_le hMB1.2.2 (Nat.pow_le_pow_right (by omega) (by omega))
  clear hmbD
  -- exp2
  generalize hexp2 : (if (mb : Int) > 61 ∨ value > i64Max then (0 : Int) else exp0) = exp2
  have hexp2' : 0 ≤ exp2 ∧ exp2 ≤ exp0 ∧ (exp2 = 0 ∨ (mb ≤ 61 ∧ value ≤ i64Max)) := by
    subst hexp2; split <;> omega
  obtain ⟨e2, rfl⟩ : ∃ e : Nat, exp2 = (e : Int) := ⟨exp2.toNat, by omega⟩
  clear hexp2
  -- v1
  have hv1 : u64 (value + U64 - minValue0) = value - minValue0 := by
    unfold u64; rw [U64_eq]; omega
  rw [hv1]
  -- v2
  have hv2 : (if (mb : Int) ≠ 0 then u64Max >>> (64 - (mb : Int).toNat) else 0) = 2 ^ mb - 1 := by
    have : (mb : Int).toNat = mb := by omega
    rw [this, shr_mask mb (by omega)]
    split
    · rfl
    · have : mb = 0 := by omega
      subst this; rfl
  rw [hv2]
  obtain ⟨k, hk, hkf, hke, hkv⟩ := reduceExp_spec 20 0 (e2 : Int).toNat (value - minValue0) (2 ^ mb - 1)
  rw [hk]; simp only [Nat.zero_add]
  generalize hv : (value - minValue0) / 10 ^ k = v
  have hk18 : k ≤ 18 := by omega
  have hS : 10 ^ k ≤ 10 ^ 18 := pow10_le k (by omega)
  have hSpos : 0 < 10 ^ k := Nat.pow_pos (by omega)
  have hvle : v ≤ value - minValue0 := by subst hv; exact Nat.div_le_self _ _
  have hvS : v * 10 ^ k ≤ value - minValue0 := by subst hv; exact Nat.div_mul_le_self _ _
  have hvS2 : value - minValue0 < (v + 1) * 10 ^ k := by
    subst hv; rw [Nat.mul_comm]; exact Nat.lt_mul_div_succ _ hSpos
  rw [scaleUp_spec k v 1 (by omega) (by omega)]
  simp only [Nat.one_mul]
  have hmv : u64 (value + U64 - v * 10 ^ k) = value - v * 10 ^ k := by
    unfold u64; rw [U64_eq]; omega
  rw [hmv]
  generalize hm0 : (if v ≠ 0 then 64 - clz64 v else 1) = mant0
  have hm0' : 1 ≤ mant0 ∧ mant0 ≤ 64 ∧ v < 2 ^ mant0 ∧ (v ≠ 0 → 2 ^ mant0 ≤ 2 * v) ∧
      (v = 0 → mant0 = 1) := by
    by_cases h0 : v = 0
    · simp [h0] at hm0; subst hm0; simp [h0]
    · simp only [ne_eq, h0, not_false_eq_true, if_true] at hm0
      obtain ⟨m, hm, h1, h2, h3, h4⟩ := clz64_spec h0 (by omega)
      have : mant0 = m := by omega
      subst this
      refine ⟨h1, h2, h4, fun _ => ?_, fun h => absurd h h0⟩
      obtain ⟨m', rfl⟩ : ∃ m', mant0 = m' + 1 := ⟨mant0 - 1, by omega⟩
      rw [Nat.pow_succ]; simp at h3; omega
  clear hm0
  generalize hmt : (if (mb : Int) > (mant0 : Int) then (mb : Int).toNat else mant0) = mantissa
  have hmt' : (mantissa = mb ∧ mant0 < mb) ∨ (mantissa = mant0 ∧ mb ≤ mant0) := by
    subst hmt; split <;> omega
  clear hmt
  refine ⟨k, v, mantissa, mb, ?_, hk18, by omega, hv.symm, by omega, by omega, by omega, ?_, by omega, by omega,
    by omega, ?_, ?_⟩
  · simp only [Nat.shiftRight_eq_div_pow, Nat.pow_one]
  · rcases hmt' with ⟨rfl, hlt⟩ | ⟨rfl, _⟩
    · exact Nat.lt_of_lt_of_le hm0'.2.2.1 (Nat.pow_le_pow_right (by omega) (by omega))
    · exact hm0'.2.2.1
  · rw [Nat.sub_mul, Nat.one_mul]
    rw [Nat.add_mul, Nat.one_mul] at hvS2
    have hi := i64Max_eq
    have hu := u64Max_eq
    rcases hmt' with ⟨rfl, hlt⟩ | ⟨rfl, hle⟩
    · -- mantissa = min_bits
      rcases Nat.eq_zero_or_pos k with rfl | hkpos
      · have := pow_bound0 mantissa (by omega)
        simp only [Nat.pow_zero, Nat.mul_one] at *
        omega
      · have hb : (2 ^ mantissa - 1) * 10 ^ k ≤ u64Max := by omega
        have := pow_boundk mantissa (by omega) k (by omega) (by omega) hkpos hb
        have hT : 10 ^ k ≤ 2 ^ mantissa * 10 ^ k := Nat.le_mul_of_pos_left _ (Nat.pow_pos (by omega))
        omega
    · -- mantissa = bit length of v
      by_cases h0 : v = 0
      · have h1 := hm0'.2.2.2.2 h0
        subst h0; subst h1
        rcases Nat.eq_zero_or_pos k with rfl | hkpos
        · simp only [Nat.pow_zero, Nat.mul_one] at *
          omega
        · simp only [Nat.zero_mul] at *
          omega
      · have hT := hm0'.2.2.2.1 h0
        have hTS : 2 ^ mantissa * 10 ^ k ≤ 2 * (v * 10 ^ k) := by
          rw [← Nat.mul_assoc]; exact Nat.mul_le_mul_right _ hT
        have hT1 : 10 ^ k ≤ 2 ^ mantissa * 10 ^ k := Nat.le_mul_of_pos_left _ (Nat.pow_pos (by omega))
        rcases Nat.eq_zero_or_pos k with rfl | hkpos
        · have hT64 : 2 ^ mantissa ≤ 2 ^ 64 := Nat.pow_le_pow_right (by omega) (by omega)
          simp only [Nat.pow_zero, Nat.mul_one] at *
          omega
        · omega
  · rcases hmt' with ⟨rfl, _⟩ | ⟨rfl, _⟩
    · exact Or.inl rfl
    · by_cases h0 : v = 0
      · exact Or.inr (Or.inr ⟨h0, hm0'.2.2.2.2 h0⟩)
      · exact Or.inr (Or.inl (hm0'.2.2.2.1 h0))

/-- the exact-value branch -/
theorem proveParams_exact (v0 minValue0 value : Nat) (exp0 minBits0 : Int)
    (h : minValue0 = u64Max ∨ exp0 < 0) :
    proveParams v0 minValue0 exp0 minBits0 value = ⟨true, 0, 1, [1], 2, [0], value, 0, 1, 0, minBits0⟩ := by
  unfold proveParams
  by_cases h1 : minValue0 = u64Max
  · simp [h1]
  · have h2 : ¬ exp0 ≥ 0 := by omega
    simp [h1, h2]

/-- the failing branch (the `2^63` guards) -/
theorem proveParams_fail (v0 minValue0 value : Nat) (exp0 minBits0 : Int)
    (h1 : minValue0 ≠ u64Max) (h2 : exp0 ≥ 0)
    (hg : (minValue0 ≠ 0 ∧ value > i64Max) ∨ (value ≠ 0 ∧ minValue0 ≥ i64Max)) :
    proveParams v0 minValue0 exp0 minBits0 value = ⟨false, v0, 1, [1], 0, [0], minValue0, 0, 1, exp0, minBits0⟩ := by
  unfold proveParams
  simp only [h1, if_false, h2, if_true, hg]

/-- closed form of the number of ring members: two per mantissa bit -/
theorem ringsOf_npub_closed (rings mantissa v n i : Nat) (hr : rings = (mantissa + 1) / 2) (hi : i + n = rings) :
    (ringsOf rings mantissa v n i).2.2 = 4 * n - (if mantissa % 2 = 1 ∧ 0 < n then 2 else 0) := by
  induction n generalizing i with
  | zero => simp [ringsOf]
  | succ n ih =>
    simp only [ringsOf]
    rw [ih (i + 1) (by omega)]
    split <;> split <;> split <;> omega

/-- the first ring has size 2 or 4 -/
theorem ringsOf_headD (rings mantissa v n i : Nat) (hn : 1 ≤ n) :
    (ringsOf rings mantissa v n i).1.headD 1 > 1 := by
  obtain ⟨n', rfl⟩ : ∃ n', n = n' + 1 := ⟨n - 1, by omega⟩
  simp only [ringsOf, List.headD_cons]
  split <;> omega

/-! ### header -/

set_option linter.unusedSimpArgs false

theorem toNat_foldl_lt (bs : Bytes) (acc : Nat) :
    bs.foldl (fun acc b => acc * 256 + b.toNat) acc + 1 ≤ (acc + 1) * 256 ^ bs.length := by
  induction bs generalizing acc with
  | nil => simp
  | cons b bs ih =>
    simp only [List.foldl_cons, List.length_cons]
    refine Nat.le_trans (ih _) ?_
    rw [Nat.pow_succ, Nat.mul_comm (256 ^ bs.length) 256, ← Nat.mul_assoc]
    apply Nat.mul_le_mul_right
    have := b.toNat_lt
    omega

/-- the big-endian value of a byte string is below `256^length` -/
theorem Bytes.toNat_lt (bs : Bytes) : Bytes.toNat bs < 256 ^ bs.length := by
  have := toNat_foldl_lt bs 0
  unfold Bytes.toNat; omega

theorem toNat_take8_lt (bs : Bytes) : Bytes.toNat (bs.take 8) < 2 ^ 64 := by
  have h1 := Bytes.toNat_lt (bs.take 8)
  have h2 : (bs.take 8).length ≤ 8 := by simp; omega
  have h3 : 256 ^ (bs.take 8).length ≤ 256 ^ 8 := Nat.pow_le_pow_right (by omega) h2
  have : (256 : Nat) ^ 8 = 2 ^ 64 := by decide
  omega

theorem headerScale_ok (e mx sc : Nat) (h1 : mx * 10 ^ e ≤ u64Max) (h2 : sc * 10 ^ e < 2 ^ 64) :
    headerScale e mx sc = (true, mx * 10 ^ e, sc * 10 ^ e) := by
  induction e generalizing mx sc with
  | zero => simp [headerScale]
  | succ e ih =>
    have hp : 0 < 10 ^ e := Nat.pow_pos (by omega)
    rw [Nat.pow_succ, Nat.mul_comm (10 ^ e) 10, ← Nat.mul_assoc] at h1 h2
    have h1' : mx * 10 ≤ u64Max := Nat.le_trans (Nat.le_mul_of_pos_right _ hp) h1
    have h2' : sc * 10 < 2 ^ 64 := Nat.lt_of_le_of_lt (Nat.le_mul_of_pos_right _ hp) h2
    unfold headerScale
    have : ¬ mx > u64Max / 10 := by rw [u64Max_eq] at h1' ⊢; omega
    simp only [this, if_false, u64, Nat.mod_eq_of_lt h2']
    rw [ih _ _ h1 h2, Nat.pow_succ, Nat.mul_comm (10 ^ e) 10, ← Nat.mul_assoc, ← Nat.mul_assoc]

theorem headerScale_fail (e mx sc : Nat) (h0 : mx ≤ u64Max) (h1 : mx * 10 ^ e > u64Max) :
    (headerScale e mx sc).1 = false := by
  induction e generalizing mx sc with
  | zero => simp at h1; omega
  | succ e ih =>
    unfold headerScale
    split
    · rfl
    · rename_i hc
      apply ih
      · rw [u64Max_eq] at hc ⊢; omega
      · rw [Nat.pow_succ, Nat.mul_comm (10 ^ e) 10, ← Nat.mul_assoc] at h1
        exact h1

/-- byte 0 of the proof as a number (0 for the empty string; every use is guarded by `65 ≤ length`) -/
def hdrB0 (proof : Bytes) : Nat := (proof.headD 0).toNat
/-- bit 6 of byte 0: the proof has a non-zero range (exponent and mantissa byte follow) -/
def hdrHasNz (proof : Bytes) : Prop := hdrB0 proof &&& 64 ≠ 0
/-- bit 5 of byte 0: an 8-byte big-endian minimum value follows -/
def hdrHasMin (proof : Bytes) : Prop := hdrB0 proof &&& 32 ≠ 0
instance (p : Bytes) : Decidable (hdrHasNz p) := by unfold hdrHasNz; infer_instance
instance (p : Bytes) : Decidable (hdrHasMin p) := by unfold hdrHasMin; infer_instance
/-- the 5-bit exponent field -/
def hdrExpField (proof : Bytes) : Nat := hdrB0 proof &&& 31
/-- decoded exponent: the field, or -1 for an exact-value proof -/
def hdrExp (proof : Bytes) : Int := if hdrHasNz proof then (hdrExpField proof : Int) else -1
/-- decoded mantissa: byte 1 plus one, or 0 for an exact-value proof -/
def hdrMantissa (proof : Bytes) : Nat := if hdrHasNz proof then (proof.getD 1 0).toNat + 1 else 0
/-- decoded scale `10^exp` -/
def hdrScale (proof : Bytes) : Nat := if hdrHasNz proof then 10 ^ hdrExpField proof else 1
/-- header length: 1, +1 with a range, +8 with a minimum value -/
def hdrLen (proof : Bytes) : Nat :=
  1 + (if hdrHasNz proof then 1 else 0) + (if hdrHasMin proof then 8 else 0)
/-- decoded minimum value -/
def hdrMin (proof : Bytes) : Nat :=
  if hdrHasMin proof then Bytes.toNat ((proof.drop (1 + (if hdrHasNz proof then 1 else 0))).take 8) else 0
/-- width of the proven range: `(2^mantissa - 1) * 10^exp` -/
def hdrSpan (proof : Bytes) : Nat :=
  if hdrHasNz proof then (2 ^ hdrMantissa proof - 1) * 10 ^ hdrExpField proof else 0

/-- The exact acceptance condition of `secp256k1_rangeproof_getheader_impl`, as a predicate over the first
(at most ten) bytes and the length. -/
def HeaderAccepts (proof : Bytes) : Prop :=
  65 ≤ proof.length ∧ hdrB0 proof &&& 128 = 0 ∧
  (hdrHasNz proof → hdrExpField proof ≤ 18 ∧ hdrMantissa proof ≤ 64) ∧
  hdrMin proof + hdrSpan proof < 2 ^ 64

instance (p : Bytes) : Decidable (HeaderAccepts p) := by unfold HeaderAccepts; infer_instance

theorem getHeader_accept (init : Header) (proof : Bytes) (hoff : init.offset = 0) (h : HeaderAccepts proof) :
    getHeader init proof =
      ⟨true, hdrLen proof, hdrExp proof, hdrMantissa proof, hdrScale proof, hdrMin proof,
        hdrMin proof + hdrSpan proof⟩ := by
  obtain ⟨hlen, hb7, hnz, hsum⟩ := h
  unfold hdrLen hdrExp hdrMantissa hdrScale hdrMin hdrSpan hdrMantissa hdrExpField at *
  unfold hdrHasNz hdrHasMin hdrB0 at *
  unfold getHeader
  have hg1 : ¬ (proof.length < 65 ∨ (proof.headD 0).toNat &&& 128 ≠ 0) := by omega
  have hl1 : ¬ (proof.length - (0 + 1) < 8) := by omega
  have hl2 : ¬ (proof.length - (1 + 1) < 8) := by omega
  have hneg : (-1 : Int).toNat = 0 := rfl
  have hs0 : headerScale 0 0 1 = (true, 0, 1) := rfl
  have hu := u64Max_eq
  by_cases hz : (proof.headD 0).toNat &&& 64 ≠ 0
  · obtain ⟨he, hm64⟩ := hnz hz
    simp only [eq_true hz, if_true] at hm64 hsum
    have he' : ¬ ((proof.headD 0).toNat &&& 31 > 18) := by omega
    have hm64' : ¬ ((proof.getD 1 0).toNat + 1 > 64) := by omega
    have hmask := shr_mask ((proof.getD 1 0).toNat + 1) (by omega)
    have hS : 10 ^ ((proof.headD 0).toNat &&& 31) ≤ 10 ^ 18 := pow10_le _ (by omega)
    have hs : headerScale ((((proof.headD 0).toNat &&& 31 : Nat) : Int)).toNat
        (u64Max >>> (64 - ((proof.getD 1 0).toNat + 1))) 1 =
        (true, (2 ^ ((proof.getD 1 0).toNat + 1) - 1) * 10 ^ ((proof.headD 0).toNat &&& 31),
          10 ^ ((proof.headD 0).toNat &&& 31)) := by
      rw [Int.toNat_natCast, hmask, headerScale_ok _ _ _ (by omega) (by omega), Nat.one_mul]
    by_cases hm : (proof.headD 0).toNat &&& 32 ≠ 0
    · simp only [eq_true hm, if_true] at hsum
      simp only [hg1, eq_true hz, eq_true hm, he', hm64', hl2, hs, if_false, if_true, Bool.not_true,
        Bool.false_eq_true]
      rw [if_neg (by omega)]
      congr 1; omega
    · simp only [hm, if_false] at hsum
      simp only [hg1, eq_true hz, hm, he', hm64', hs, if_false, if_true, Bool.not_true, Bool.false_eq_true]
      rw [if_neg (by omega)]
      congr 1 <;> omega
  · simp only [hz, if_false, Nat.add_zero] at hsum
    by_cases hm : (proof.headD 0).toNat &&& 32 ≠ 0
    · simp only [eq_true hm, if_true] at hsum
      simp only [hg1, hz, eq_true hm, hoff, hl1, hneg, hs0, if_false, if_true, Bool.not_true, Bool.false_eq_true,
        Nat.add_zero, Nat.zero_add]
      rw [if_neg (by omega)]
      rfl
    · simp only [hg1, hz, hm, hoff, hneg, hs0, if_false, if_true, Bool.not_true, Bool.false_eq_true,
        Nat.add_zero, Nat.zero_add]
      rw [if_neg (by omega)]
      rfl

theorem getHeader_reject (init : Header) (proof : Bytes) (h : ¬ HeaderAccepts proof) :
    (getHeader init proof).ret = false := by
  unfold HeaderAccepts hdrMin hdrSpan hdrMantissa hdrExpField at h
  unfold hdrHasNz hdrHasMin hdrB0 at h
  unfold getHeader
  have hu := u64Max_eq
  by_cases hg1 : proof.length < 65 ∨ (proof.headD 0).toNat &&& 128 ≠ 0
  · simp only [hg1, if_true]
  have hlen : 65 ≤ proof.length := by omega
  have hb7 : (proof.headD 0).toNat &&& 128 = 0 := by omega
  have hl2 : ¬ (proof.length - (1 + 1) < 8) := by omega
  have h8 := toNat_take8_lt (proof.drop (1 + 1))
  by_cases hz : (proof.headD 0).toNat &&& 64 ≠ 0
  · by_cases he : (proof.headD 0).toNat &&& 31 > 18
    · simp only [hg1, eq_true hz, he, if_false, if_true, Bool.not_false]
    by_cases hm64 : (proof.getD 1 0).toNat + 1 > 64
    · simp only [hg1, eq_true hz, he, hm64, if_false, if_true, Bool.not_false]
    have hmask := shr_mask ((proof.getD 1 0).toNat + 1) (by omega)
    have hS : 10 ^ ((proof.headD 0).toNat &&& 31) ≤ 10 ^ 18 := pow10_le _ (by omega)
    simp only [eq_true hz, if_true, hlen, hb7, true_and, not_and, forall_const] at h
    have h := h ⟨by omega, by omega⟩
    by_cases hspan : (2 ^ ((proof.getD 1 0).toNat + 1) - 1) * 10 ^ ((proof.headD 0).toNat &&& 31) ≤ u64Max
    · have hs : headerScale ((((proof.headD 0).toNat &&& 31 : Nat) : Int)).toNat
          (u64Max >>> (64 - ((proof.getD 1 0).toNat + 1))) 1 =
          (true, (2 ^ ((proof.getD 1 0).toNat + 1) - 1) * 10 ^ ((proof.headD 0).toNat &&& 31),
            10 ^ ((proof.headD 0).toNat &&& 31)) := by
        rw [Int.toNat_natCast, hmask, headerScale_ok _ _ _ (by omega) (by omega), Nat.one_mul]
      by_cases hm : (proof.headD 0).toNat &&& 32 ≠ 0
      · simp only [eq_true hm, if_true] at h
        simp only [hg1, eq_true hz, eq_true hm, he, hm64, hl2, hs, if_false, if_true, Bool.not_true,
          Bool.false_eq_true]
        rw [if_pos (by omega)]
      · simp only [hm, if_false] at h
        simp only [hg1, eq_true hz, hm, he, hm64, hs, if_false, if_true, Bool.not_true, Bool.false_eq_true]
        rw [if_pos (by omega)]
    · have hf : (headerScale ((((proof.headD 0).toNat &&& 31 : Nat) : Int)).toNat
          (u64Max >>> (64 - ((proof.getD 1 0).toNat + 1))) 1).1 = false := by
        rw [Int.toNat_natCast, hmask]
        apply headerScale_fail
        · have : 2 ^ ((proof.getD 1 0).toNat + 1) ≤ 2 ^ 64 := Nat.pow_le_pow_right (by omega) (by omega)
          omega
        · omega
      rcases hr : headerScale ((((proof.headD 0).toNat &&& 31 : Nat) : Int)).toNat
          (u64Max >>> (64 - ((proof.getD 1 0).toNat + 1))) 1 with ⟨ok, mx, sc⟩
      rw [hr] at hf
      simp only at hf
      subst hf
      simp only [hg1, eq_true hz, he, hm64, hr, if_false, if_true, Bool.not_true, Bool.false_eq_true,
        Bool.not_false]
  · simp only [hz, if_false, hlen, hb7, true_and, not_and, false_imp_iff, forall_const, Nat.add_zero] at h
    have h8 := toNat_take8_lt (proof.drop 1)
    split at h <;> omega

/-! ### `headerBytes` -/

theorem Bytes.ofNat_length (len x : Nat) : (Bytes.ofNat len x).length = len := by
  induction len with
  | zero => rfl
  | succ n ih => simp [Bytes.ofNat, ih]

theorem toNat_foldl_ofNat (len x acc : Nat) :
    (Bytes.ofNat len x).foldl (fun acc b => acc * 256 + b.toNat) acc = acc * 256 ^ len + x % 256 ^ len := by
  induction len generalizing acc with
  | zero => simp [Bytes.ofNat, Nat.mod_one]
  | succ n ih =>
    simp only [Bytes.ofNat, List.foldl_cons]
    rw [ih]
    have h1 : (UInt8.ofNat (x / 256 ^ n % 256)).toNat = x / 256 ^ n % 256 := by
      simp
    rw [h1, Nat.pow_succ, Nat.mod_mul, Nat.add_mul, Nat.mul_assoc, Nat.mul_comm 256 (256 ^ n),
      Nat.mul_comm (x / 256 ^ n % 256)]
    omega

/-- big-endian decode after encode in `len` bytes is reduction mod `256^len` -/
theorem Bytes.toNat_ofNat (len x : Nat) : Bytes.toNat (Bytes.ofNat len x) = x % 256 ^ len := by
  unfold Bytes.toNat; rw [toNat_foldl_ofNat]; simp

theorem toNat_be8 (x : Nat) (hx : x < 2 ^ 64) : Bytes.toNat (Bytes.be8 x) = x := by
  unfold Bytes.be8; rw [Bytes.toNat_ofNat]
  exact Nat.mod_eq_of_lt (by have : (256:Nat) ^ 8 = 2 ^ 64 := by decide
                             omega)

theorem b0_facts : ∀ e < 19,
    ((64 ||| e) ||| 32) &&& 128 = 0 ∧ ((64 ||| e) ||| 32) &&& 64 ≠ 0 ∧ ((64 ||| e) ||| 32) &&& 32 ≠ 0 ∧
    ((64 ||| e) ||| 32) &&& 31 = e ∧ ((64 ||| e) ||| 32) < 256 ∧
    ((64 ||| e) ||| 0) &&& 128 = 0 ∧ ((64 ||| e) ||| 0) &&& 64 ≠ 0 ∧ ((64 ||| e) ||| 0) &&& 32 = 0 ∧
    ((64 ||| e) ||| 0) &&& 31 = e ∧ ((64 ||| e) ||| 0) < 256 := by decide


/-- Decoding of a header written by `headerBytes` (whatever bytes follow). -/
theorem headerBytes_decode (rsize0 e mantissa minValue : Nat) (rest : Bytes)
    (he : e ≤ 18) (hm1 : rsize0 > 1 → 1 ≤ mantissa) (hm2 : mantissa ≤ 64) (hmin : minValue < 2 ^ 64) :
    hdrB0 (headerBytes rsize0 (e : Int) mantissa minValue ++ rest) &&& 128 = 0 ∧
    (hdrHasNz (headerBytes rsize0 (e : Int) mantissa minValue ++ rest) ↔ rsize0 > 1) ∧
    (hdrHasMin (headerBytes rsize0 (e : Int) mantissa minValue ++ rest) ↔ minValue ≠ 0) ∧
    (rsize0 > 1 → hdrExpField (headerBytes rsize0 (e : Int) mantissa minValue ++ rest) = e ∧
      hdrMantissa (headerBytes rsize0 (e : Int) mantissa minValue ++ rest) = mantissa) ∧
    hdrMin (headerBytes rsize0 (e : Int) mantissa minValue ++ rest) = minValue ∧
    hdrLen (headerBytes rsize0 (e : Int) mantissa minValue ++ rest) =
      (headerBytes rsize0 (e : Int) mantissa minValue).length := by
  obtain ⟨f1, f2, f3, f4, f5, g1, g2, g3, g4, g5⟩ := b0_facts e (by omega)
  have hl8 := Bytes.ofNat_length 8 minValue
  have hmm : rsize0 > 1 → (UInt8.ofNat (mantissa - 1)).toNat + 1 = mantissa := by
    intro h; have := hm1 h; simp; omega
  have htk : (Bytes.be8 minValue ++ rest).take 8 = Bytes.be8 minValue := by
    rw [List.take_append_of_le_length (by unfold Bytes.be8; omega), List.take_of_length_le (by unfold Bytes.be8; omega)]
  have h8 := toNat_be8 minValue hmin
  have hl8' : (Bytes.be8 minValue).length = 8 := hl8
  have hto : ∀ n, n < 256 → (UInt8.ofNat n).toNat = n := fun n hn => by simp; omega
  by_cases hr : rsize0 > 1
  · have hmm := hmm hr
    by_cases hz : minValue ≠ 0
    · have hp : headerBytes rsize0 (e : Int) mantissa minValue ++ rest =
          UInt8.ofNat ((64 ||| e) ||| 32) :: UInt8.ofNat (mantissa - 1) :: (Bytes.be8 minValue ++ rest) := by
        simp [headerBytes, hr, hz]
      have hlen : (headerBytes rsize0 (e : Int) mantissa minValue).length = 10 := by
        simp [headerBytes, hr, hz, hl8']
      rw [hp, hlen]
      simp only [hdrLen, hdrMin, hdrMantissa, hdrExpField, hdrHasNz, hdrHasMin, hdrB0, List.headD_cons, hto _ f5,
        f1, f2, f3, f4, hr, hz, ne_eq, not_false_eq_true, if_true, true_and, iff_self, forall_const,
        List.getD_cons_succ, List.getD_cons_zero, hmm, List.drop_succ_cons, List.drop_zero, htk, h8]
    · have hz0 : minValue = 0 := by omega
      have hp : headerBytes rsize0 (e : Int) mantissa minValue ++ rest =
          UInt8.ofNat ((64 ||| e) ||| 0) :: UInt8.ofNat (mantissa - 1) :: rest := by
        simp [headerBytes, hr, hz0]
      have hlen : (headerBytes rsize0 (e : Int) mantissa minValue).length = 2 := by
        simp [headerBytes, hr, hz0]
      rw [hp, hlen]
      simp only [hdrLen, hdrMin, hdrMantissa, hdrExpField, hdrHasNz, hdrHasMin, hdrB0, List.headD_cons, hto _ g5,
        g1, g2, g3, g4, hr, hz0, ne_eq, not_false_eq_true, if_true, true_and, iff_self, forall_const,
        List.getD_cons_succ, List.getD_cons_zero, hmm, not_true_eq_false, if_false]
  · have c1 : (32 : Nat) &&& 128 = 0 ∧ (32 : Nat) &&& 64 = 0 ∧ (32 : Nat) &&& 32 ≠ 0 := by decide
    by_cases hz : minValue ≠ 0
    · have hp : headerBytes rsize0 (e : Int) mantissa minValue ++ rest =
          UInt8.ofNat 32 :: (Bytes.be8 minValue ++ rest) := by
        simp [headerBytes, hr, hz]
      have hlen : (headerBytes rsize0 (e : Int) mantissa minValue).length = 9 := by
        simp [headerBytes, hr, hz, hl8']
      rw [hp, hlen]
      simp only [hdrLen, hdrMin, hdrMantissa, hdrExpField, hdrHasNz, hdrHasMin, hdrB0, List.headD_cons,
        hto 32 (by omega), c1, hr, hz, ne_eq, not_false_eq_true, if_true, true_and, iff_self, forall_const,
        not_true_eq_false, if_false, List.drop_succ_cons, List.drop_zero, htk, h8, Nat.add_zero, false_imp_iff]
    · have hz0 : minValue = 0 := by omega
      have hp : headerBytes rsize0 (e : Int) mantissa minValue ++ rest = UInt8.ofNat 0 :: rest := by
        simp [headerBytes, hr, hz0]
      have hlen : (headerBytes rsize0 (e : Int) mantissa minValue).length = 1 := by
        simp [headerBytes, hr, hz0]
      rw [hp, hlen]
      simp only [hdrLen, hdrMin, hdrMantissa, hdrExpField, hdrHasNz, hdrHasMin, hdrB0, List.headD_cons,
        hto 0 (by omega), Nat.zero_and, hr, hz0, ne_eq, not_false_eq_true, if_true, true_and, iff_self,
        forall_const, not_true_eq_false, if_false, Nat.add_zero, false_imp_iff]

/-! ### guard prefix of `verifyImpl` -/

/-- `if (extra_commit != NULL) sha256_write(extra_commit)` -/
def absorbExtra (sha1 : Sha256.State) : Option Bytes → Sha256.State
  | some e => Sha256.write sha1 e
  | none => sha1

/-- the header as decoded inside `verifyImpl` -/
def vHeader (min0 max0 : Nat) (proof : Bytes) : Header := getHeader ⟨false, 0, 0, 0, 0, min0, max0⟩ proof

/-- Everything `verifyImpl` checks before (and including) the Borromean ring equation, in the order of the C
code.  `hd` is the decoded header, `(rings, rsizes, npub)` the ring layout of its mantissa. -/
theorem verifyImpl_accept_imp (nonce : Option Bytes) (mlen : Option Nat) (min0 max0 : Nat) (commit : Pt)
    (proof : Bytes) (extra : Option Bytes) (genp : Pt)
    (h : (verifyImpl nonce mlen min0 max0 commit proof extra genp).ret = true) :
    ∀ hd, hd = vHeader min0 max0 proof → ∀ rings rsizes npub, layout hd.mantissa.toNat = (rings, rsizes, npub) →
    ∀ nsign, nsign = (rings + 6) >>> 3 →
      hd.ret = true ∧
      ¬ (proof.length - hd.offset < 32 * (npub + rings - 1) + 32 + nsign) ∧
      ¬ ((rings - 1) &&& 7 ≠ 0 ∧ (proof.getD (hd.offset + nsign - 1) 0).toNat >>> ((rings - 1) &&& 7) ≠ 0) ∧
      ∃ (firsts0 : List Pt) (acc : Pt) (sha1 : Sha256.State) (s : List Nat),
        readDigits (rings - 1) 0 ((proof.drop hd.offset).take nsign) (proof.drop (hd.offset + nsign))
          (shaPrefix commit genp (proof.take hd.offset))
          (if hd.minValue ≠ 0 then Pt.mul hd.minValue genp else Pt.inf) [] = some (firsts0, acc, sha1) ∧
        (Pt.add (Pt.neg acc) commit).isInf = false ∧
        readScalars npub (proof.drop (hd.offset + nsign + 32 * (rings - 1) + 32)) = some s ∧
        hd.offset + nsign + 32 * (rings - 1) + 32 + 32 * npub = proof.length ∧
        (Borromean.verify ((proof.drop (hd.offset + nsign + 32 * (rings - 1))).take 32) s
          (pubExpand (firsts0 ++ [Pt.add (Pt.neg acc) commit]) hd.exp rsizes genp) rsizes
          (Sha256.finalize (absorbExtra sha1 extra))).1 = true := by
  intro hd hhd rings rsizes npub hl nsign hns
  unfold verifyImpl at h
  simp only [] at h
  unfold vHeader at hhd
  rw [← hhd] at h
  simp only [hl, ← hns] at h
  clear hhd hl
  split at h
  · simp at h
  rename_i h1
  split at h
  · simp at h
  rename_i h2
  split at h
  · simp at h
  rename_i h3
  split at h
  · simp at h
  rename_i firsts0 acc sha1 hrd
  split at h
  · simp at h
  rename_i h4
  split at h
  · simp at h
  rename_i s hrs
  split at h
  · simp at h
  rename_i h5
  split at h
  all_goals
    split at h
    · simp at h
    rename_i h6
    exact ⟨by simpa using h1, h2, h3, firsts0, acc, sha1, s, hrd, by simpa using h4, hrs, by simpa using h5,
      by simpa [absorbExtra] using h6⟩

/-- 32-byte slice at an offset -/
def slice32 (bs : Bytes) (off : Nat) : Bytes := (bs.drop off).take 32

theorem feLimit_some {b : Bytes} {v : Nat} (h : Codec.feLimit b = some v) : v = Bytes.toNat b ∧ Bytes.toNat b < P := by
  unfold Codec.feLimit at h
  by_cases hlt : Bytes.toNat b < P
  · rw [if_pos hlt] at h
    exact ⟨(Option.some.inj h).symm, hlt⟩
  · rw [if_neg hlt] at h
    exact absurd h (by simp)

theorem setB32_eq (b : Bytes) : Sc.setB32 b = (Bytes.toNat b % N, decide (Bytes.toNat b ≥ N)) := rfl

theorem readScalars_some (n : Nat) (bs : Bytes) (s : List Nat) (h : readScalars n bs = some s) :
    s.length = n ∧ ∀ j < n, Bytes.toNat (slice32 bs (32 * j)) < N ∧
      s[j]? = some (Bytes.toNat (slice32 bs (32 * j))) := by
  induction n generalizing bs s with
  | zero => simp [readScalars] at h; subst h; simp
  | succ n ih =>
    unfold readScalars at h
    rw [setB32_eq] at h
    dsimp only at h
    by_cases hov : Bytes.toNat (bs.take 32) ≥ N
    · rw [if_pos (by simpa using hov)] at h
      exact absurd h (by simp)
    rw [if_neg (by simpa using hov)] at h
    have hov : Bytes.toNat (bs.take 32) < N := by omega
    cases hr : readScalars n (bs.drop 32) with
    | none => simp [hr] at h
    | some s' =>
      simp only [hr, Option.map_some, Option.some.injEq] at h
      subst h
      obtain ⟨hl, hj⟩ := ih _ _ hr
      refine ⟨by simp [hl], ?_⟩
      intro j hjn
      cases j with
      | zero => simpa [slice32, Nat.mod_eq_of_lt hov] using hov
      | succ j =>
        have := hj j (by omega)
        simp only [slice32, List.drop_drop] at this ⊢
        rw [show 32 * (j + 1) = 32 + 32 * j by omega]
        simpa using this

attribute [local irreducible] SecpZkp.P SecpZkp.N Codec.feLimit Pt.liftXQuad Sha256.write Pt.add Pt.neg in
theorem readDigits_succ (n i : Nat) (signBytes xs : Bytes) (h : Sha256.State) (acc : Pt) (pubs : List Pt) :
    readDigits (n + 1) i signBytes xs h acc pubs =
    match Codec.feLimit (xs.take 32) with
    | none => none
    | some fe =>
      match Pt.liftXQuad fe with
      | none => none
      | some c0 =>
        let sign : UInt8 := if (signBytes.getD (i / 8) 0) &&& ((1 : UInt8) <<< UInt8.ofNat (i % 8)) ≠ 0 then 1 else 0
        let c := if sign = 1 then Pt.neg c0 else c0
        readDigits n (i + 1) signBytes (xs.drop 32) (Sha256.write (Sha256.write h [sign]) (xs.take 32)) (Pt.add acc c) (pubs ++ [c]) := by
  rfl

theorem readDigits_some (n i : Nat) (sb xs : Bytes) (h : Sha256.State) (acc : Pt) (pubs : List Pt)
    (r : List Pt × Pt × Sha256.State) (hr : readDigits n i sb xs h acc pubs = some r) :
    ∀ j < n, Bytes.toNat (slice32 xs (32 * j)) < P ∧ Pt.liftXQuad (Bytes.toNat (slice32 xs (32 * j))) ≠ none := by
  induction n generalizing i xs h acc pubs with
  | zero => intro j hj; omega
  | succ n ih =>
    rw [readDigits_succ] at hr
    cases hfe : Codec.feLimit (xs.take 32) with
    | none => rw [hfe] at hr; exact absurd hr (by simp)
    | some fe =>
      obtain ⟨rfl, hlt⟩ := feLimit_some hfe
      cases hc : Pt.liftXQuad (Bytes.toNat (xs.take 32)) with
      | none => rw [hfe] at hr; dsimp only at hr; rw [hc] at hr; exact absurd hr (by simp)
      | some c0 =>
        rw [hfe] at hr; dsimp only at hr; rw [hc] at hr; dsimp only at hr
        intro j hjn
        cases j with
        | zero =>
          refine ⟨by simpa [slice32] using hlt, ?_⟩
          simp only [slice32, Nat.mul_zero, List.drop_zero, hc]
          simp
        | succ j =>
          have := ih _ _ _ _ _ hr j (by omega)
          simp only [slice32, List.drop_drop] at this ⊢
          rw [show 32 * (j + 1) = 32 + 32 * j by omega]
          exact this

/-! ### ring layout and byte positions of a proof, as functions of its first two bytes -/

/-- number of rings (digits) -/
def vRings (proof : Bytes) : Nat := (layout (hdrMantissa proof)).1
/-- ring sizes -/
def vRsizes (proof : Bytes) : List Nat := (layout (hdrMantissa proof)).2.1
/-- total number of ring members = number of `s` scalars -/
def vNpub (proof : Bytes) : Nat := (layout (hdrMantissa proof)).2.2
/-- number of sign bytes: `⌈(rings-1)/8⌉` -/
def vNsign (proof : Bytes) : Nat := (vRings proof + 6) / 8
/-- offset of the x-coordinate of digit commitment `j` (`j < rings - 1`) -/
def digitOffset (proof : Bytes) (j : Nat) : Nat := hdrLen proof + vNsign proof + 32 * j
/-- offset of `e0` -/
def e0Offset (proof : Bytes) : Nat := hdrLen proof + vNsign proof + 32 * (vRings proof - 1)
/-- offset of scalar `j` (`j < npub`) -/
def scalarOffset (proof : Bytes) (j : Nat) : Nat := e0Offset proof + 32 + 32 * j
/-- the exact length a proof with this header must have -/
def expectedLen (proof : Bytes) : Nat := e0Offset proof + 32 + 32 * vNpub proof

theorem layout_spec (m : Nat) :
    (layout m).1 = (if m = 0 then 1 else (m + 1) / 2) ∧ (layout m).2.2 = (if m = 0 then 1 else 2 * m) ∧
    (layout m).2.1.length = (layout m).1 ∧ (layout m).2.1.sum = (layout m).2.2 ∧
    ∀ r ∈ (layout m).2.1, r = 1 ∨ r = 2 ∨ r = 4 := by
  unfold layout
  by_cases h0 : m = 0
  · simp [h0]
  · by_cases h1 : m % 2 = 1
    · simp [h0, h1]
      refine ⟨by omega, by omega, ?_⟩
      intro r hr; omega
    · simp [h0, h1]
      omega

/-- with a mantissa of at most 64 there are 1..32 rings and at most 128 ring members -/
theorem layout_bounds (m : Nat) (hm : m ≤ 64) :
    1 ≤ (layout m).1 ∧ (layout m).1 ≤ 32 ∧ 1 ≤ (layout m).2.2 ∧ (layout m).2.2 ≤ 128 := by
  obtain ⟨h1, h2, -⟩ := layout_spec m
  rw [h1, h2]; split <;> omega

/-- What an accepting run of `verifyImpl` has checked, in terms of byte positions of the proof. -/
theorem verifyImpl_accept_facts (nonce : Option Bytes) (mlen : Option Nat) (min0 max0 : Nat) (commit : Pt)
    (proof : Bytes) (extra : Option Bytes) (genp : Pt)
    (h : (verifyImpl nonce mlen min0 max0 commit proof extra genp).ret = true) :
    HeaderAccepts proof ∧ proof.length = expectedLen proof ∧
    ¬ ((vRings proof - 1) &&& 7 ≠ 0 ∧
        (proof.getD (hdrLen proof + vNsign proof - 1) 0).toNat >>> ((vRings proof - 1) &&& 7) ≠ 0) ∧
    (∀ j < vRings proof - 1, Bytes.toNat (slice32 proof (digitOffset proof j)) < P ∧
      Pt.liftXQuad (Bytes.toNat (slice32 proof (digitOffset proof j))) ≠ none) ∧
    (∀ j < vNpub proof, Bytes.toNat (slice32 proof (scalarOffset proof j)) < N) := by
  have hacc : HeaderAccepts proof := by
    apply Classical.byContradiction
    intro hn
    have hr := getHeader_reject ⟨false, 0, 0, 0, 0, min0, max0⟩ proof hn
    have := (verifyImpl_accept_imp nonce mlen min0 max0 commit proof extra genp h _ rfl _ _ _ rfl _ rfl).1
    unfold vHeader at this
    rw [hr] at this
    exact absurd this (by simp)
  have hhd := getHeader_accept ⟨false, 0, 0, 0, 0, min0, max0⟩ proof rfl hacc
  have hl : layout (vHeader min0 max0 proof).mantissa.toNat = (vRings proof, vRsizes proof, vNpub proof) := by
    unfold vHeader; rw [hhd]; simp [vRings, vRsizes, vNpub]
  obtain ⟨-, h2, h3, firsts0, acc, sha1, s, hrd, -, hrs, hlen, -⟩ :=
    verifyImpl_accept_imp nonce mlen min0 max0 commit proof extra genp h _ rfl _ _ _ hl _ rfl
  have hoff : (vHeader min0 max0 proof).offset = hdrLen proof := by unfold vHeader; rw [hhd]
  rw [hoff] at h2 h3 hrd hrs hlen
  have hns : (vRings proof + 6) >>> 3 = vNsign proof := by
    unfold vNsign; rw [Nat.shiftRight_eq_div_pow]
  rw [hns] at h2 h3 hrd hrs hlen
  refine ⟨hacc, ?_, h3, ?_, ?_⟩
  · unfold expectedLen e0Offset; omega
  · intro j hj
    have := readDigits_some _ _ _ _ _ _ _ _ hrd j hj
    simpa [slice32, digitOffset, List.drop_drop] using this
  · intro j hj
    have := (readScalars_some _ _ _ hrs).2 j hj
    simpa [slice32, scalarOffset, e0Offset, List.drop_drop] using this.1

/-- `verifyImpl` always reports the `min_value`/`max_value` left by the header decoder. -/
theorem verifyImpl_range (nonce : Option Bytes) (mlen : Option Nat) (min0 max0 : Nat) (commit : Pt)
    (proof : Bytes) (extra : Option Bytes) (genp : Pt) :
    (verifyImpl nonce mlen min0 max0 commit proof extra genp).minValue = (vHeader min0 max0 proof).minValue ∧
    (verifyImpl nonce mlen min0 max0 commit proof extra genp).maxValue = (vHeader min0 max0 proof).maxValue := by
  unfold verifyImpl vHeader
  simp only []
  generalize getHeader _ proof = hd
  repeat' split
  all_goals exact ⟨rfl, rfl⟩

theorem expectedLen_congr (p q : Bytes) (h0 : p.headD 0 = q.headD 0) (h1 : p.getD 1 0 = q.getD 1 0) :
    expectedLen p = expectedLen q ∧ hdrLen p = hdrLen q := by
  simp only [expectedLen, e0Offset, vNpub, vRings, vNsign, hdrLen, hdrMantissa, hdrHasNz, hdrHasMin, hdrB0, h0, h1]
  exact ⟨rfl, rfl⟩

theorem expectedLen_append (p q : Bytes) (h : 2 ≤ p.length) : expectedLen (p ++ q) = expectedLen p := by
  match p, h with
  | a :: b :: t, _ => exact (expectedLen_congr _ _ (by simp) (by simp)).1

theorem expectedLen_take (p : Bytes) (n : Nat) (h : 2 ≤ n) : expectedLen (p.take n) = expectedLen p := by
  match p, n, h with
  | [], _, _ => simp
  | [a], n + 2, _ => rfl
  | a :: b :: t, n + 2, _ => exact (expectedLen_congr _ _ (by simp) (by simp)).1

theorem hdr_bits : ∀ n < 256, (n &&& 128 = 0 ↔ n < 128) ∧ (n &&& 64 ≠ 0 ↔ n / 64 % 2 = 1) ∧
    (n &&& 32 ≠ 0 ↔ n / 32 % 2 = 1) ∧ n &&& 31 = n % 32 := by decide +kernel


/-! ### zero scalars are rejected by the Borromean verifier -/

theorem verifyRing_some (m : Bytes) (i j : Nat) (ps : List Pt) (ss : List Nat) (tmp : Bytes) (ev : List Nat)
    (r : Bytes × List Nat) (h : Borromean.verifyRing m i j ps ss tmp ev = some r) :
    ∀ k < ps.length, ss[k]? ≠ some 0 := by
  induction ps generalizing j ss tmp ev with
  | nil => intro k hk; simp at hk
  | cons p ps ih =>
    cases ss with
    | nil => simp [Borromean.verifyRing] at h
    | cons s ss =>
      unfold Borromean.verifyRing at h
      simp only [] at h
      split at h
      · exact absurd h (by simp)
      rename_i hc
      split at h
      · exact absurd h (by simp)
      intro k hk
      cases k with
      | zero => simp; omega
      | succ k =>
        split at h
        · rename_i he
          simp at he; subst he; simp at hk
        · have := ih _ _ _ _ h k (by simpa using hk)
          simpa using this

theorem verifyGo_some (e0 m : Bytes) (rsizes : List Nat) (i : Nat) (s : List Nat) (pubs : List Pt) (acc : Bytes)
    (ev : List Nat) (r : Bytes × List Nat)
    (h : Borromean.verify.go e0 m rsizes i s pubs acc ev = some r) (hp : rsizes.sum ≤ pubs.length) :
    ∀ k < rsizes.sum, s[k]? ≠ some 0 := by
  induction rsizes generalizing i s pubs acc ev with
  | nil => intro k hk; simp at hk
  | cons rs rest ih =>
    unfold Borromean.verify.go at h
    simp only [List.sum_cons] at hp ⊢
    split at h
    · rename_i h0
      subst h0
      simpa using ih _ _ _ _ _ h (by simpa using hp)
    · split at h
      · exact absurd h (by simp)
      rename_i last ev' hring
      have h1 := verifyRing_some _ _ _ _ _ _ _ _ hring
      have h2 := ih _ _ _ _ _ h (by simp; omega)
      intro k hk
      by_cases hkr : k < rs
      · have := h1 k (by simp; omega)
        rw [List.getElem?_take_of_lt hkr] at this
        exact this
      · have := h2 (k - rs) (by omega)
        rw [List.getElem?_drop] at this
        rwa [show rs + (k - rs) = k by omega] at this

/-- an accepting Borromean verification has seen no zero scalar among the `Σ rsizes` ring members -/
theorem borromean_verify_nonzero (e0 : Bytes) (s : List Nat) (pubs : List Pt) (rsizes : List Nat) (m : Bytes)
    (h : (Borromean.verify e0 s pubs rsizes m).1 = true) (hp : rsizes.sum ≤ pubs.length) :
    ∀ k < rsizes.sum, s[k]? ≠ some 0 := by
  unfold Borromean.verify at h
  split at h
  · simp at h
  · rename_i acc ev hgo
    exact verifyGo_some _ _ _ _ _ _ _ _ _ hgo hp

theorem expandRing_length (n : Nat) (prev base : Pt) : (expandRing n prev base).length = n := by
  induction n generalizing prev with
  | zero => rfl
  | succ n ih => simp [expandRing, ih]

theorem pubExpandGo_length (firsts : List Pt) (rsizes : List Nat) (base : Pt)
    (hl : firsts.length = rsizes.length) (hr : ∀ r ∈ rsizes, 1 ≤ r) :
    (pubExpandGo firsts rsizes base).length = rsizes.sum := by
  induction firsts generalizing rsizes base with
  | nil =>
    cases rsizes with
    | nil => simp [pubExpandGo]
    | cons _ _ => simp at hl
  | cons f fs ih =>
    cases rsizes with
    | nil => simp at hl
    | cons rs rss =>
      have h1 : 1 ≤ rs := hr rs (by simp)
      simp only [pubExpandGo, List.length_append, List.length_cons, expandRing_length, List.sum_cons]
      rw [ih rss _ (by simpa using hl) (fun r hr' => hr r (by simp [hr']))]
      omega

theorem readDigits_zero (i : Nat) (sb xs : Bytes) (h : Sha256.State) (acc : Pt) (pubs : List Pt) :
    readDigits 0 i sb xs h acc pubs = some (pubs, acc, h) := rfl

theorem readDigits_length (n i : Nat) (sb xs : Bytes) (h : Sha256.State) (acc : Pt) (pubs : List Pt)
    (r : List Pt × Pt × Sha256.State) (hr : readDigits n i sb xs h acc pubs = some r) :
    r.1.length = pubs.length + n := by
  induction n generalizing i xs h acc pubs with
  | zero => rw [readDigits_zero] at hr; simp at hr; subst hr; simp
  | succ n ih =>
    rw [readDigits_succ] at hr
    cases hfe : Codec.feLimit (xs.take 32) with
    | none => rw [hfe] at hr; exact absurd hr (by simp)
    | some fe =>
      cases hc : Pt.liftXQuad fe with
      | none => rw [hfe] at hr; dsimp only at hr; rw [hc] at hr; exact absurd hr (by simp)
      | some c0 =>
        rw [hfe] at hr; dsimp only at hr; rw [hc] at hr; dsimp only at hr
        have := ih _ _ _ _ _ hr
        simp at this; omega

/-- An accepting run of `verifyImpl` has seen no zero ring scalar. -/
theorem verifyImpl_accept_scalars_nonzero (nonce : Option Bytes) (mlen : Option Nat) (min0 max0 : Nat) (commit : Pt)
    (proof : Bytes) (extra : Option Bytes) (genp : Pt)
    (h : (verifyImpl nonce mlen min0 max0 commit proof extra genp).ret = true) :
    ∀ j < vNpub proof, Bytes.toNat (slice32 proof (scalarOffset proof j)) ≠ 0 := by
  obtain ⟨hacc, -⟩ := verifyImpl_accept_facts nonce mlen min0 max0 commit proof extra genp h
  have hhd := getHeader_accept ⟨false, 0, 0, 0, 0, min0, max0⟩ proof rfl hacc
  have hl : layout (vHeader min0 max0 proof).mantissa.toNat = (vRings proof, vRsizes proof, vNpub proof) := by
    unfold vHeader; rw [hhd]; simp [vRings, vRsizes, vNpub]
  obtain ⟨-, -, -, firsts0, acc, sha1, s, hrd, -, hrs, -, hbor⟩ :=
    verifyImpl_accept_imp nonce mlen min0 max0 commit proof extra genp h _ rfl _ _ _ hl _ rfl
  have hoff : (vHeader min0 max0 proof).offset = hdrLen proof := by unfold vHeader; rw [hhd]
  rw [hoff] at hrs
  have hns : (vRings proof + 6) >>> 3 = vNsign proof := by
    unfold vNsign; rw [Nat.shiftRight_eq_div_pow]
  rw [hns] at hrs
  have hm : hdrMantissa proof ≤ 64 := by
    by_cases hnz : hdrHasNz proof
    · exact (hacc.2.2.1 hnz).2
    · simp [hdrMantissa, hnz]
  obtain ⟨b1, -⟩ := layout_bounds (hdrMantissa proof) hm
  obtain ⟨-, -, l3, l4, l5⟩ := layout_spec (hdrMantissa proof)
  have hfl := readDigits_length _ _ _ _ _ _ _ _ hrd
  have hplen : (vRsizes proof).sum ≤
      (pubExpand (firsts0 ++ [Pt.add (Pt.neg acc) commit]) (vHeader min0 max0 proof).exp (vRsizes proof) genp).length := by
    unfold pubExpand
    rw [pubExpandGo_length]
    · omega
    · simp only [List.length_append, List.length_cons, List.length_nil]
      simp only [List.length_nil, Nat.zero_add] at hfl
      rw [hfl]; unfold vRsizes vRings at *; omega
    · intro r hr
      rcases l5 r hr with h | h | h <;> omega
  have hnz := borromean_verify_nonzero _ _ _ _ _ hbor hplen
  intro j hj
  have h1 := hnz j (by unfold vRsizes vNpub at *; omega)
  have h2 := ((readScalars_some _ _ _ hrs).2 j hj).2
  intro h0
  apply h1
  rw [h2]
  congr 1
  simpa [slice32, scalarOffset, e0Offset, List.drop_drop] using h0

end Rangeproof
end SecpZkp
