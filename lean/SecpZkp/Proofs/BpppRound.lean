import SecpZkp.Proofs.Bppp
/-
  One round of the Bulletproofs++ norm-argument prover (`proveRound`) in the `ZMod N`-module of good
  points: the in-place folding refines the algebraic folding, and the round preserves the committed
  relation (`proveRound_spec`).
-/
namespace SecpZkp
namespace Bppp
open _root_.SecpZkp.Algebra Finset

/-- effective vector length: the C loop lets `g_len` / `h_len` drop to 0 (`1 / 2`) once the vector has a
single entry; both 0 and 1 mean "one entry" -/
def eL (k : Nat) : Nat := if k = 0 then 1 else k

theorem proveRound_eq (G : Nat) (st : ProveState) :
    proveRound G st =
      let rhoInv := Sc.inv st.rhoF
      let muSq := scSqr st.muF
      let xv := Sc.add (Sc.add (Sc.add (Sc.mul (weightedScalarInnerProduct st.n 0 st.n 1 2 (st.gLen / 2) muSq) rhoInv)
        (Sc.mul (weightedScalarInnerProduct st.n 0 st.n 1 2 (st.gLen / 2) muSq) rhoInv))
        (scalarInnerProduct st.c 0 st.l 1 2 (st.hLen / 2))) (scalarInnerProduct st.c 1 st.l 0 2 (st.hLen / 2))
      let xnLen := if st.gLen ≥ 2 then st.gLen else 0
      let rv := Sc.add (weightedScalarInnerProduct st.n 1 st.n 1 2 (st.gLen / 2) muSq)
        (scalarInnerProduct st.c 1 st.l 1 2 (st.hLen / 2))
      (ecmultMulti (some xv) (xCb st.n st.l st.g st.rhoF rhoInv G xnLen)
          (xnLen + (if st.hLen ≥ 2 then st.hLen else 0))).bind fun x =>
      (ecmultMulti (some rv) (rCb st.n st.l st.g G (st.gLen / 2)) (st.gLen / 2 + st.hLen / 2)).bind fun r =>
      let ser := serializePoints x r
      let transcript := Sha256.write st.transcript ser
      let gamma := challengeScalar transcript 0
      let ng := if st.gLen > 1 then foldG rhoInv gamma st.rhoF st.gLen st.gLen 0 st.n st.g else (st.n, st.g)
      let clg := if st.hLen > 1 then foldH gamma G st.hLen st.hLen 0 st.c st.l ng.2 else (st.c, st.l, ng.2)
      some { transcript := transcript, g := clg.2.2, n := ng.1, l := clg.2.1, c := clg.1,
             gLen := st.gLen / 2, hLen := st.hLen / 2, rhoF := st.muF, muF := muSq, proof := st.proof ++ ser } := by
  rfl

section Round
variable [hgl : HasGroupLaw]

theorem toT_add {p q : Pt} (hp : Good p) (hq : Good q) : toT (Pt.add p q) = toT p + toT q := by
  apply ofT_injective; rw [ofT_toT (good_add hp hq), ofT_add, ofT_toT hp, ofT_toT hq]

theorem toT_mul {k : Nat} (hk : k < mulBound) {p : Pt} (hp : Good p) :
    toT (Pt.mul k p) = (k : ZMod N) • toT p := by
  apply ofT_injective; rw [ofT_toT (good_mul hk hp), ← ofT_smul hk, ofT_toT hp]

theorem ofT_pv {g : List Pt} (h : ∀ j, Good (g.getD j .inf)) (i : Nat) : ofT (pv g i) = g.getD i .inf :=
  ofT_toT (h i)

/-! ### the three parts of the committed relation -/

/-- `|n|²_μ = Σ_{i<len} n_i² μ^(i+1)` -/
def normS (n : List Nat) (len : Nat) (mu : ZMod N) : ZMod N :=
  ∑ i ∈ range len, sv n i * sv n i * mu ^ (i + 1)

/-- `⟨c, l⟩` -/
def dotS (c l : List Nat) (len : Nat) : ZMod N := ∑ i ∈ range len, sv c i * sv l i

/-- `⟨n, G[off ..]⟩` -/
def gP (n : List Nat) (g : List Pt) (off len : Nat) : TPt := ∑ i ∈ range len, sv n i • pv g (off + i)

/-- The commitment described by a prover state: `v G + ⟨n, G_vec⟩ + ⟨l, H_vec⟩`, `v = |n|²_μ + ⟨c, l⟩`. -/
def comT (G : Nat) (st : ProveState) (mu : ZMod N) : TPt :=
  (normS st.n (eL st.gLen) mu + dotS st.c st.l (eL st.hLen)) • GT +
    gP st.n st.g 0 (eL st.gLen) + gP st.l st.g G (eL st.hLen)

/-! ### the `n`/`G` half of a round -/

/-- the scalars of the `n`/`G` part of `X` -/
def xsG (n : List Nat) (rho rhoInv : Nat) (i : Nat) : ZMod N :=
  if i % 2 = 0 then sv n (i + 1) * (rho : ZMod N) else sv n (i - 1) * (rhoInv : ZMod N)

/-- the scalars of the `l`/`H` part of `X` -/
def xsH (l : List Nat) (i : Nat) : ZMod N := if i % 2 = 0 then sv l (i + 1) else sv l (i - 1)

omit hgl in
theorem eL_of_ne_zero {k : Nat} (h : k ≠ 0) : eL k = k := if_neg h
omit hgl in
theorem eL_of_le_one {k : Nat} (h : k ≤ 1) : eL k = 1 := by
  unfold eL; split <;> omega

omit hgl in
theorem eL_cases {k a : Nat} (h : eL k = 2 ^ a) :
    (a = 0 ∧ k ≤ 1 ∧ eL k = 1 ∧ k / 2 = 0 ∧ eL (k / 2) = 1) ∨
    (0 < a ∧ 1 < k ∧ eL k = k ∧ k = 2 * (k / 2) ∧ eL (k / 2) = k / 2 ∧ k / 2 = 2 ^ (a - 1)) := by
  cases a with
  | zero =>
    left
    have hk : k ≤ 1 := by
      by_cases h0 : k = 0
      · omega
      · rw [eL_of_ne_zero h0] at h; simp at h; omega
    exact ⟨rfl, hk, eL_of_le_one hk, by omega, eL_of_le_one (by omega)⟩
  | succ a' =>
    right
    have hp : (2 : Nat) ^ (a' + 1) = 2 * 2 ^ a' := by rw [pow_succ]; ring
    have hpos : 0 < 2 ^ a' := Nat.two_pow_pos a'
    have h0 : k ≠ 0 := by
      intro h0; subst h0; rw [eL_of_le_one (by omega)] at h; omega
    have hk := eL_of_ne_zero h0
    rw [hk] at h
    refine ⟨by omega, by omega, hk, by omega, eL_of_ne_zero (by omega), ?_⟩
    simp; omega

/-- The `n`/`G` half of a round: what the (conditional) in-place loop leaves in `n_vec`, `g_vec`. -/
theorem roundG (n : List Nat) (g : List Pt) (rho rhoInv gamma gLen a : Nat)
    (hlen : eL gLen = 2 ^ a) (hn : eL gLen ≤ n.length) (hg : eL gLen ≤ g.length)
    (hgood : ∀ j, Good (g.getD j .inf)) (hnlt : ∀ j, n.getD j 0 < N)
    (hrlt : rho < N) (hglt : gamma < N) :
    let r := if gLen > 1 then foldG rhoInv gamma rho gLen gLen 0 n g else (n, g)
    r.1.length = n.length ∧ r.2.length = g.length ∧ (∀ j, Good (r.2.getD j .inf)) ∧ (∀ j, r.1.getD j 0 < N) ∧
    (∀ j, eL gLen ≤ j → r.2.getD j .inf = g.getD j .inf) ∧
    (a = 0 → r = (n, g)) ∧
    (0 < a → ∀ j, j < gLen / 2 →
      sv r.1 j = sv n (2 * j) * (rhoInv : ZMod N) + sv n (2 * j + 1) * (gamma : ZMod N) ∧
      pv r.2 j = (rho : ZMod N) • pv g (2 * j) + (gamma : ZMod N) • pv g (2 * j + 1)) := by
  intro r
  rcases eL_cases hlen with ⟨ha, hk, _, _, _⟩ | ⟨ha, hk, hek, hk2, _, _⟩
  · have hr : r = (n, g) := if_neg (by omega)
    rw [hr]
    exact ⟨rfl, rfl, hgood, hnlt, fun _ _ => rfl, fun _ => rfl, fun h => by omega⟩
  · have hr : r = foldG rhoInv gamma rho gLen gLen 0 n g := if_pos hk
    rw [hek] at hn hg
    obtain ⟨h1, h2, h3, h4⟩ := foldG_spec rhoInv gamma rho gLen gLen 0 n g rfl (by omega) (by omega) hn hg
    rw [← hr] at h1 h2 h3 h4
    have hr' := lt_mulBound_of_lt_N hrlt
    have hg' := lt_mulBound_of_lt_N hglt
    refine ⟨h1, h2, fun j => ?_, fun j => ?_, fun j hj => ?_, fun h => by omega, fun _ j hj => ⟨?_, ?_⟩⟩
    · rw [h4 j]; split
      · exact good_add (good_mul hr' (hgood _)) (good_mul hg' (hgood _))
      · exact hgood j
    · rw [h3 j]; split
      · exact Sc.add_lt _ _
      · exact hnlt j
    · rw [h4 j, if_neg (by omega)]
    · unfold sv; rw [h3 j, if_pos (by omega)]; simp
    · unfold pv
      rw [h4 j, if_pos (by omega), toT_add (good_mul hr' (hgood _)) (good_mul hg' (hgood _)),
        toT_mul hr' (hgood _), toT_mul hg' (hgood _)]

/-- The `c`,`l`/`H` half of a round. -/
theorem roundH (c l : List Nat) (g : List Pt) (gamma G hLen b : Nat)
    (hlen : eL hLen = 2 ^ b) (hc : eL hLen ≤ c.length) (hl : eL hLen ≤ l.length) (hg : G + eL hLen ≤ g.length)
    (hgood : ∀ j, Good (g.getD j .inf)) (hllt : ∀ j, l.getD j 0 < N) (hglt : gamma < N) :
    let r := if hLen > 1 then foldH gamma G hLen hLen 0 c l g else (c, l, g)
    r.1.length = c.length ∧ r.2.1.length = l.length ∧ r.2.2.length = g.length ∧
    (∀ j, Good (r.2.2.getD j .inf)) ∧ (∀ j, r.2.1.getD j 0 < N) ∧
    (∀ j, j < G → r.2.2.getD j .inf = g.getD j .inf) ∧
    (b = 0 → r = (c, l, g)) ∧
    (0 < b → ∀ j, j < hLen / 2 →
      sv r.1 j = sv c (2 * j) + sv c (2 * j + 1) * (gamma : ZMod N) ∧
      sv r.2.1 j = sv l (2 * j) + sv l (2 * j + 1) * (gamma : ZMod N) ∧
      pv r.2.2 (G + j) = (gamma : ZMod N) • pv g (G + (2 * j + 1)) + pv g (G + 2 * j)) := by
  intro r
  rcases eL_cases hlen with ⟨ha, hk, _, _, _⟩ | ⟨ha, hk, hek, hk2, _, _⟩
  · have hr : r = (c, l, g) := if_neg (by omega)
    rw [hr]
    exact ⟨rfl, rfl, rfl, hgood, hllt, fun _ _ => rfl, fun _ => rfl, fun h => by omega⟩
  · have hr : r = foldH gamma G hLen hLen 0 c l g := if_pos hk
    rw [hek] at hc hl hg
    obtain ⟨h1, h2, h3, h4, h5, h6, h7⟩ :=
      foldH_spec gamma G hLen hLen 0 c l g rfl (by omega) (by omega) hc hl hg
    rw [← hr] at h1 h2 h3 h4 h5 h6 h7
    have hg' := lt_mulBound_of_lt_N hglt
    refine ⟨h1, h2, h3, fun j => ?_, fun j => ?_, h7, fun h => by omega, fun _ j hj => ⟨?_, ?_, ?_⟩⟩
    · by_cases hjG : j < G
      · rw [h7 j hjG]; exact hgood j
      · have : j = G + (j - G) := by omega
        rw [this, h6]; split
        · exact good_add (good_mul hg' (hgood _)) (hgood _)
        · exact hgood _
    · rw [h5 j]; split
      · exact Sc.add_lt _ _
      · exact hllt j
    · unfold sv; rw [h4 j, if_pos (by omega)]; simp
    · unfold sv; rw [h5 j, if_pos (by omega)]; simp
    · unfold pv
      rw [h6 j, if_pos (by omega), toT_add (good_mul hg' (hgood _)) (hgood _), toT_mul hg' (hgood _)]

end Round

section Comp

theorem cast_sip_01 (a b : List Nat) (len : Nat) :
    ((scalarInnerProduct a 0 b 1 2 len : Nat) : ZMod N) = ∑ j ∈ range len, sv a (2 * j) * sv b (2 * j + 1) := by
  rw [cast_sip]; apply sum_congr rfl; intro j _; rw [Nat.zero_add, Nat.add_comm 1]
theorem cast_sip_10 (a b : List Nat) (len : Nat) :
    ((scalarInnerProduct a 1 b 0 2 len : Nat) : ZMod N) = ∑ j ∈ range len, sv a (2 * j + 1) * sv b (2 * j) := by
  rw [cast_sip]; apply sum_congr rfl; intro j _; rw [Nat.zero_add, Nat.add_comm 1]
theorem cast_sip_11 (a b : List Nat) (len : Nat) :
    ((scalarInnerProduct a 1 b 1 2 len : Nat) : ZMod N) = ∑ j ∈ range len, sv a (2 * j + 1) * sv b (2 * j + 1) := by
  rw [cast_sip]; apply sum_congr rfl; intro j _; rw [Nat.add_comm 1]
theorem cast_wsip_01 (a b : List Nat) (len mu : Nat) :
    ((weightedScalarInnerProduct a 0 b 1 2 len mu : Nat) : ZMod N) =
      ∑ j ∈ range len, sv a (2 * j) * sv b (2 * j + 1) * (mu : ZMod N) ^ (j + 1) := by
  rw [cast_wsip]; apply sum_congr rfl; intro j _; rw [Nat.zero_add, Nat.add_comm 1]
theorem cast_wsip_11 (a b : List Nat) (len mu : Nat) :
    ((weightedScalarInnerProduct a 1 b 1 2 len mu : Nat) : ZMod N) =
      ∑ j ∈ range len, sv a (2 * j + 1) * sv b (2 * j + 1) * (mu : ZMod N) ^ (j + 1) := by
  rw [cast_wsip]; apply sum_congr rfl; intro j _; rw [Nat.add_comm 1]

variable [hgl : HasGroupLaw]

/-- the weighted norm after a round -/
theorem normS_fold (n n' : List Nat) (k a : Nat) (rho rhoInv gamma mu musq : ZMod N) (hlen : eL k = 2 ^ a)
    (h0 : a = 0 → n' = n)
    (h1 : 0 < a → ∀ j, j < k / 2 → sv n' j = sv n (2 * j) * rhoInv + sv n (2 * j + 1) * gamma)
    (hr : rhoInv * rho = 1) (hmu : 0 < a → mu = rho ^ 2) (hsq : 0 < a → musq = mu ^ 2) :
    normS n' (eL (k / 2)) (if 0 < a then mu ^ 2 else mu) = normS n (eL k) mu +
      gamma * ((∑ j ∈ range (k / 2), sv n (2 * j) * sv n (2 * j + 1) * musq ^ (j + 1)) * rhoInv +
               (∑ j ∈ range (k / 2), sv n (2 * j) * sv n (2 * j + 1) * musq ^ (j + 1)) * rhoInv) +
      (gamma ^ 2 - 1) * ∑ j ∈ range (k / 2), sv n (2 * j + 1) * sv n (2 * j + 1) * musq ^ (j + 1) := by
  rcases eL_cases hlen with ⟨ha, _, he, hk2, he2⟩ | ⟨ha, _, he, hk2, he2, _⟩
  · rw [h0 ha, he, he2, hk2, if_neg (by omega)]; simp
  · rw [he, he2, if_pos ha, hsq ha]
    unfold normS
    rw [hk2, show 2 * (k / 2) / 2 = k / 2 by omega, ← fold_norm_identity (sv n) rho rhoInv mu gamma hr (hmu ha)]
    apply sum_congr rfl
    intro j hj
    rw [h1 ha j (by simpa using hj)]

/-- `⟨c, l⟩` after a round -/
theorem dotS_fold (c l c' l' : List Nat) (k b : Nat) (gamma : ZMod N) (hlen : eL k = 2 ^ b)
    (h0 : b = 0 → c' = c ∧ l' = l)
    (h1 : 0 < b → ∀ j, j < k / 2 → sv c' j = sv c (2 * j) + sv c (2 * j + 1) * gamma ∧
      sv l' j = sv l (2 * j) + sv l (2 * j + 1) * gamma) :
    dotS c' l' (eL (k / 2)) = dotS c l (eL k) +
      gamma * (∑ j ∈ range (k / 2), sv c (2 * j) * sv l (2 * j + 1) +
               ∑ j ∈ range (k / 2), sv c (2 * j + 1) * sv l (2 * j)) +
      (gamma ^ 2 - 1) * ∑ j ∈ range (k / 2), sv c (2 * j + 1) * sv l (2 * j + 1) := by
  rcases eL_cases hlen with ⟨hb, _, he, hk2, he2⟩ | ⟨hb, _, he, hk2, he2, _⟩
  · rw [(h0 hb).1, (h0 hb).2, he, he2, hk2]; simp
  · rw [he, he2]
    unfold dotS
    rw [hk2, show 2 * (k / 2) / 2 = k / 2 by omega, ← fold_dot_identity (sv c) (sv l) gamma]
    apply sum_congr rfl
    intro j hj
    rw [(h1 hb j (by simpa using hj)).1, (h1 hb j (by simpa using hj)).2]

/-- `⟨n, G_vec⟩` after a round -/
theorem gP_fold_G (n n' : List Nat) (g g' : List Pt) (k a : Nat) (rho rhoInv gamma : Nat)
    (hlen : eL k = 2 ^ a)
    (h0 : a = 0 → n' = n ∧ pv g' 0 = pv g 0)
    (h1 : 0 < a → ∀ j, j < k / 2 →
      sv n' j = sv n (2 * j) * (rhoInv : ZMod N) + sv n (2 * j + 1) * (gamma : ZMod N) ∧
      pv g' j = (rho : ZMod N) • pv g (2 * j) + (gamma : ZMod N) • pv g (2 * j + 1))
    (hr : (rhoInv : ZMod N) * (rho : ZMod N) = 1) :
    gP n' g' 0 (eL (k / 2)) = gP n g 0 (eL k) +
      (gamma : ZMod N) • (∑ i ∈ range (if k ≥ 2 then k else 0), xsG n rho rhoInv i • pv g i) +
      ((gamma : ZMod N) ^ 2 - 1) • ∑ j ∈ range (k / 2), sv n (2 * j + 1) • pv g (2 * j + 1) := by
  rcases eL_cases hlen with ⟨ha, _, he, hk2, he2⟩ | ⟨ha, _, he, hk2, he2, _⟩
  · rw [he, he2, hk2, if_neg (by omega)]
    unfold gP
    simp [(h0 ha).1, (h0 ha).2]
  · rw [he, he2, if_pos (by omega)]
    unfold gP
    have := fold_G_identity (sv n) (pv g) (rho : ZMod N) (rhoInv : ZMod N) (gamma : ZMod N) hr (k / 2)
    rw [← hk2] at this
    simp only [Nat.zero_add]
    unfold xsG
    rw [← this]
    apply sum_congr rfl
    intro j hj
    rw [(h1 ha j (by simpa using hj)).1, (h1 ha j (by simpa using hj)).2]

/-- `⟨l, H_vec⟩` after a round -/
theorem gP_fold_H (l l' : List Nat) (g g' : List Pt) (G k b : Nat) (gamma : Nat)
    (hlen : eL k = 2 ^ b)
    (h0 : b = 0 → l' = l ∧ pv g' G = pv g G)
    (h1 : 0 < b → ∀ j, j < k / 2 →
      sv l' j = sv l (2 * j) + sv l (2 * j + 1) * (gamma : ZMod N) ∧
      pv g' (G + j) = (gamma : ZMod N) • pv g (G + (2 * j + 1)) + pv g (G + 2 * j)) :
    gP l' g' G (eL (k / 2)) = gP l g G (eL k) +
      (gamma : ZMod N) • (∑ i ∈ range (if k ≥ 2 then k else 0), xsH l i • pv g (G + i)) +
      ((gamma : ZMod N) ^ 2 - 1) • ∑ j ∈ range (k / 2), sv l (2 * j + 1) • pv g (G + (2 * j + 1)) := by
  rcases eL_cases hlen with ⟨hb, _, he, hk2, he2⟩ | ⟨hb, _, he, hk2, he2, _⟩
  · rw [he, he2, hk2, if_neg (by omega)]
    unfold gP
    simp [(h0 hb).1, (h0 hb).2]
  · rw [he, he2, if_pos (by omega)]
    unfold gP
    have := fold_H_identity (sv l) (fun i => pv g (G + i)) (gamma : ZMod N) (k / 2)
    rw [← hk2] at this
    unfold xsH
    rw [← this]
    apply sum_congr rfl
    intro j hj
    rw [(h1 hb j (by simpa using hj)).1, (h1 hb j (by simpa using hj)).2]

end Comp

section Multi
variable [hgl : HasGroupLaw]

omit hgl in
theorem getD_lt_mulBound {l : List Nat} (h : ∀ j, l.getD j 0 < N) (j : Nat) : l.getD j 0 < mulBound :=
  lt_mulBound_of_lt_N (h j)

/-- the multi-exponentiation for `X` -/
theorem xMulti (n l : List Nat) (g : List Pt) (rho rhoInv G xn xh xv : Nat)
    (hgood : ∀ j, Good (g.getD j .inf)) (hllt : ∀ j, l.getD j 0 < N) (hxv : xv < N) :
    ecmultMulti (some xv) (xCb n l g rho rhoInv G xn) (xn + xh) =
      some (ofT ((xv : ZMod N) • GT + (∑ i ∈ range xn, xsG n rho rhoInv i • pv g i +
        ∑ i ∈ range xh, xsH l i • pv g (G + i)))) := by
  rw [ecmultMulti_T (some xv) _ (xn + xh)
    (fun idx => if idx < xn then
        (if idx % 2 = 0 then Sc.mul (n.getD (idx + 1) 0) rho else Sc.mul (n.getD (idx - 1) 0) rhoInv)
      else (if (idx - xn) % 2 = 0 then l.getD (idx - xn + 1) 0 else l.getD (idx - xn - 1) 0))
    (fun idx => if idx < xn then pv g idx else pv g (G + (idx - xn)))]
  · congr 2
    show _ + _ = _
    congr 1
    rw [sum_range_add]
    congr 1
    · apply sum_congr rfl
      intro i hi
      have hi' : i < xn := by simpa using hi
      simp only [if_pos hi', xsG]
      split <;> simp [sv]
    · apply sum_congr rfl
      intro i _
      simp only [if_neg (show ¬ xn + i < xn by omega), Nat.add_sub_cancel_left, xsH]
      split <;> simp [sv]
  · intro idx _
    unfold xCb
    by_cases h : idx < xn
    · simp only [if_pos h]
      split <;> simp [ofT_pv hgood]
    · simp only [if_neg h]
      split <;> simp [ofT_pv hgood]
  · intro idx _
    split
    · split <;> exact lt_mulBound_of_lt_N (Sc.mul_lt _ _)
    · split <;> exact getD_lt_mulBound hllt _
  · intro s hs
    cases hs
    exact lt_mulBound_of_lt_N hxv

/-- the multi-exponentiation for `R` -/
theorem rMulti (n l : List Nat) (g : List Pt) (G rn rh rv : Nat)
    (hgood : ∀ j, Good (g.getD j .inf)) (hnlt : ∀ j, n.getD j 0 < N) (hllt : ∀ j, l.getD j 0 < N)
    (hrv : rv < N) :
    ecmultMulti (some rv) (rCb n l g G rn) (rn + rh) =
      some (ofT ((rv : ZMod N) • GT + (∑ j ∈ range rn, sv n (2 * j + 1) • pv g (2 * j + 1) +
        ∑ j ∈ range rh, sv l (2 * j + 1) • pv g (G + (2 * j + 1))))) := by
  rw [ecmultMulti_T (some rv) _ (rn + rh)
    (fun idx => if idx < rn then n.getD (2 * idx + 1) 0 else l.getD (2 * (idx - rn) + 1) 0)
    (fun idx => if idx < rn then pv g (2 * idx + 1) else pv g (G + (2 * (idx - rn) + 1)))]
  · congr 2
    show _ + _ = _
    congr 1
    rw [sum_range_add]
    congr 1
    · apply sum_congr rfl
      intro i hi
      have hi' : i < rn := by simpa using hi
      simp only [if_pos hi', sv]
    · apply sum_congr rfl
      intro i _
      simp only [if_neg (show ¬ rn + i < rn by omega), Nat.add_sub_cancel_left, sv]
  · intro idx _
    unfold rCb
    by_cases h : idx < rn
    · simp only [if_pos h, ofT_pv hgood]
    · simp only [if_neg h, ofT_pv hgood, Nat.add_assoc]
  · intro idx _
    split
    · exact getD_lt_mulBound hnlt _
    · exact getD_lt_mulBound hllt _
  · intro s hs
    cases hs
    exact lt_mulBound_of_lt_N hrv

end Multi

section Spec
variable [hgl : HasGroupLaw]

/-- Well-formedness of a prover state: effective lengths `2^a`, `2^b`; buffers large enough; generators
good; scalars reduced; `rho_f ≠ 0`, `mu_f = rho_f²`. -/
structure WF (G : Nat) (st : ProveState) (a b : Nat) : Prop where
  glen : eL st.gLen = 2 ^ a
  hlen : eL st.hLen = 2 ^ b
  gG : eL st.gLen ≤ G
  nlen : eL st.gLen ≤ st.n.length
  llen : eL st.hLen ≤ st.l.length
  clen : eL st.hLen ≤ st.c.length
  gvlen : G + eL st.hLen ≤ st.g.length
  good : ∀ j, Good (st.g.getD j .inf)
  nlt : ∀ j, st.n.getD j 0 < N
  llt : ∀ j, st.l.getD j 0 < N
  rho_lt : st.rhoF < N
  mu_lt : st.muF < N
  rho_ne : (st.rhoF : ZMod N) ≠ 0
  mu_eq : (st.muF : ZMod N) = (st.rhoF : ZMod N) ^ 2

/-- the challenge of a round whose points are `X`, `R` (the transcript hash is opaque) -/
def gammaOf (t : Sha256.State) (X R : TPt) : Nat :=
  challengeScalar (Sha256.write t (serializePoints (ofT X) (ofT R))) 0

omit hgl in
theorem challengeScalar_lt (t : Sha256.State) (i : Nat) : challengeScalar t i < N :=
  Nat.mod_lt _ N_pos

/-- **One prover round.** From a well-formed state, `proveRound` succeeds; it appends the serialization of
two good points `X`, `R` to the proof and the transcript, the new state is well-formed with halved
lengths, and the commitment it describes is `C + γ X + (γ² - 1) R` (with `μ' = μ²` as long as the `n`
vector is still being folded).  Also: how the new generators / `c` entries arise from the old ones. -/
theorem proveRound_spec (G : Nat) (st : ProveState) (a b : Nat) (hwf : WF G st a b) :
    ∃ (X R : TPt) (st' : ProveState), proveRound G st = some st' ∧
      st'.transcript = Sha256.write st.transcript (serializePoints (ofT X) (ofT R)) ∧
      st'.proof = st.proof ++ serializePoints (ofT X) (ofT R) ∧
      st'.rhoF = st.muF ∧
      WF G st' (a - 1) (b - 1) ∧
      (∀ mu : ZMod N, (0 < a → mu = (st.muF : ZMod N)) →
        comT G st' (if 0 < a then mu ^ 2 else mu) =
          comT G st mu + (gammaOf st.transcript X R : ZMod N) • X +
            ((gammaOf st.transcript X R : ZMod N) ^ 2 - 1) • R) ∧
      (a = 0 → pv st'.g 0 = pv st.g 0) ∧
      (0 < a → ∀ j, j < 2 ^ (a - 1) → pv st'.g j =
        (st.rhoF : ZMod N) • pv st.g (2 * j) + (gammaOf st.transcript X R : ZMod N) • pv st.g (2 * j + 1)) ∧
      (b = 0 → pv st'.g G = pv st.g G ∧ sv st'.c 0 = sv st.c 0) ∧
      (0 < b → ∀ j, j < 2 ^ (b - 1) →
        pv st'.g (G + j) =
          (gammaOf st.transcript X R : ZMod N) • pv st.g (G + (2 * j + 1)) + pv st.g (G + 2 * j) ∧
        sv st'.c j = sv st.c (2 * j) + sv st.c (2 * j + 1) * (gammaOf st.transcript X R : ZMod N)) := by
  obtain ⟨hga, hhb, hgG, hnl, hll, hcl, hgv, hgood, hnlt, hllt, hrlt, hmlt, hrne, hmueq⟩ := hwf
  have hr : ((Sc.inv st.rhoF : Nat) : ZMod N) * (st.rhoF : ZMod N) = 1 := by
    rw [cast_inv]; exact inv_mul_cancel₀ hrne
  rw [proveRound_eq]
  simp only []
  rw [xMulti st.n st.l st.g st.rhoF (Sc.inv st.rhoF) G _ _ _ hgood hllt (Sc.add_lt _ _),
    rMulti st.n st.l st.g G _ _ _ hgood hnlt hllt (Sc.add_lt _ _)]
  simp only [Option.bind_some]
  -- names for the two points
  generalize hX : ((Sc.add (Sc.add (Sc.add
      (Sc.mul (weightedScalarInnerProduct st.n 0 st.n 1 2 (st.gLen / 2) (scSqr st.muF)) (Sc.inv st.rhoF))
      (Sc.mul (weightedScalarInnerProduct st.n 0 st.n 1 2 (st.gLen / 2) (scSqr st.muF)) (Sc.inv st.rhoF)))
      (scalarInnerProduct st.c 0 st.l 1 2 (st.hLen / 2)))
      (scalarInnerProduct st.c 1 st.l 0 2 (st.hLen / 2)) : Nat) : ZMod N) • GT +
      (∑ i ∈ range (if st.gLen ≥ 2 then st.gLen else 0), xsG st.n st.rhoF (Sc.inv st.rhoF) i • pv st.g i +
        ∑ i ∈ range (if st.hLen ≥ 2 then st.hLen else 0), xsH st.l i • pv st.g (G + i)) = X
  generalize hR : ((Sc.add (weightedScalarInnerProduct st.n 1 st.n 1 2 (st.gLen / 2) (scSqr st.muF))
      (scalarInnerProduct st.c 1 st.l 1 2 (st.hLen / 2)) : Nat) : ZMod N) • GT +
      (∑ j ∈ range (st.gLen / 2), sv st.n (2 * j + 1) • pv st.g (2 * j + 1) +
        ∑ j ∈ range (st.hLen / 2), sv st.l (2 * j + 1) • pv st.g (G + (2 * j + 1))) = R
  refine ⟨X, R, _, rfl, rfl, rfl, rfl, ?_⟩
  have hγdef : challengeScalar (Sha256.write st.transcript (serializePoints (ofT X) (ofT R))) 0
      = gammaOf st.transcript X R := rfl
  simp only [hγdef]
  have hγlt : gammaOf st.transcript X R < N := challengeScalar_lt _ _
  generalize gammaOf st.transcript X R = γ at *
  -- the two halves
  obtain ⟨g1, g2, g3, g4, g5, g6, g7⟩ := roundG st.n st.g st.rhoF (Sc.inv st.rhoF) γ
    st.gLen a hga hnl (by omega) hgood hnlt hrlt hγlt
  generalize (if st.gLen > 1 then foldG (Sc.inv st.rhoF) γ st.rhoF st.gLen st.gLen 0 st.n st.g
    else (st.n, st.g)) = ng at *
  obtain ⟨h1, h2, h3, h4, h5, h6, h7, h8⟩ := roundH st.c st.l ng.2 γ G st.hLen b hhb hcl hll
    (by rw [g2]; exact hgv) g3 hllt hγlt
  generalize (if st.hLen > 1 then foldH γ G st.hLen st.hLen 0 st.c st.l ng.2 else (st.c, st.l, ng.2)) = clg at *
  have ea := eL_cases hga
  have eb := eL_cases hhb
  -- generator facts
  have pvlow : ∀ j, j < G → pv clg.2.2 j = pv ng.2 j := fun j hj => by unfold pv; rw [h6 j hj]
  have pvhigh : ∀ j, eL st.gLen ≤ j → pv ng.2 j = pv st.g j := fun j hj => by unfold pv; rw [g5 j hj]
  have hGa0 : a = 0 → pv clg.2.2 0 = pv st.g 0 := fun h => by
    rw [pvlow 0 (by rcases ea with e | e <;> omega), g6 h]
  have hGa1 : 0 < a → ∀ j, j < st.gLen / 2 → pv clg.2.2 j =
      (st.rhoF : ZMod N) • pv st.g (2 * j) + (γ : ZMod N) • pv st.g (2 * j + 1) := fun h j hj => by
    rw [pvlow j (by rcases ea with e | e <;> omega), (g7 h j hj).2]
  have hHb0 : b = 0 → pv clg.2.2 G = pv st.g G := fun h => by
    rw [h7 h]; exact pvhigh G hgG
  have hHb1 : 0 < b → ∀ j, j < st.hLen / 2 → pv clg.2.2 (G + j) =
      (γ : ZMod N) • pv st.g (G + (2 * j + 1)) + pv st.g (G + 2 * j) := fun h j hj => by
    rw [(h8 h j hj).2.2, pvhigh _ (by omega), pvhigh _ (by omega)]
  refine ⟨?_, ?_, hGa0, ?_, ?_, ?_⟩
  · -- well-formedness
    refine ⟨?_, ?_, ?_, ?_, ?_, ?_, ?_, h4, g4, h5, hmlt, Sc.mul_lt _ _, ?_, ?_⟩
    · show eL (st.gLen / 2) = 2 ^ (a - 1)
      rcases ea with e | e
      · rw [e.2.2.2.2, e.1]; rfl
      · rw [e.2.2.2.2.1, e.2.2.2.2.2]
    · show eL (st.hLen / 2) = 2 ^ (b - 1)
      rcases eb with e | e
      · rw [e.2.2.2.2, e.1]; rfl
      · rw [e.2.2.2.2.1, e.2.2.2.2.2]
    · show eL (st.gLen / 2) ≤ G
      rcases ea with e | e <;> omega
    · show eL (st.gLen / 2) ≤ ng.1.length
      rw [g1]; rcases ea with e | e <;> omega
    · show eL (st.hLen / 2) ≤ clg.2.1.length
      rw [h2]; rcases eb with e | e <;> omega
    · show eL (st.hLen / 2) ≤ clg.1.length
      rw [h1]; rcases eb with e | e <;> omega
    · show G + eL (st.hLen / 2) ≤ clg.2.2.length
      rw [h3, g2]; rcases eb with e | e <;> omega
    · show ((st.muF : Nat) : ZMod N) ≠ 0
      rw [hmueq]; exact pow_ne_zero 2 hrne
    · show ((scSqr st.muF : Nat) : ZMod N) = (st.muF : ZMod N) ^ 2
      simp [scSqr, sq]
  · -- the commitment
    intro mu hmu
    have hN := normS_fold st.n ng.1 st.gLen a (st.rhoF : ZMod N) ((Sc.inv st.rhoF : Nat) : ZMod N) (γ : ZMod N)
      mu ((scSqr st.muF : Nat) : ZMod N) hga (fun h => by rw [g6 h]) (fun h j hj => (g7 h j hj).1) hr
      (fun h => by rw [hmu h, hmueq]) (fun h => by rw [hmu h]; simp [scSqr, sq])
    have hD := dotS_fold st.c st.l clg.1 clg.2.1 st.hLen b (γ : ZMod N) hhb
      (fun h => by rw [h7 h]; exact ⟨rfl, rfl⟩) (fun h j hj => ⟨(h8 h j hj).1, (h8 h j hj).2.1⟩)
    have hG := gP_fold_G st.n ng.1 st.g clg.2.2 st.gLen a st.rhoF (Sc.inv st.rhoF) γ hga
      (fun h => ⟨by rw [g6 h], hGa0 h⟩) (fun h j hj => ⟨(g7 h j hj).1, hGa1 h j hj⟩) hr
    have hH := gP_fold_H st.l clg.2.1 st.g clg.2.2 G st.hLen b γ hhb
      (fun h => ⟨by rw [h7 h], hHb0 h⟩) (fun h j hj => ⟨(h8 h j hj).2.1, hHb1 h j hj⟩)
    unfold comT
    simp only []
    rw [hN, hD, hG, hH, ← hX, ← hR]
    simp only [cast_add, cast_mul, cast_wsip_01, cast_wsip_11, cast_sip_01, cast_sip_10, cast_sip_11]
    module
  · intro h j hj
    exact hGa1 h j (by rcases ea with e | e <;> omega)
  · intro h
    refine ⟨hHb0 h, ?_⟩
    show sv clg.1 0 = sv st.c 0
    rw [h7 h]
  · intro h j hj
    have hj' : j < st.hLen / 2 := by rcases eb with e | e <;> omega
    exact ⟨hHb1 h j hj', (h8 h j hj').1⟩

end Spec
end Bppp
end SecpZkp

