import SecpZkp.Proofs.Group
/-
  Further facts about the curve model used by protocol-level proofs: no point of order two, parity
  of `y` under negation, and the x-only lifts `Pt.liftX` / `Pt.liftXQuad`.
-/
namespace SecpZkp

/-- `(-7)^((P-1)/3) ≠ 1 mod P` (closed computation): `-7` is not a cube modulo `P`. -/
theorem neg_seven_not_cube_aux : powMod (P - 7) ((P - 1) / 3) P ≠ 1 := by decide +kernel

section PrimeP
variable [Fact (Nat.Prime P)]

/-- `x³ = -7` has no solution in `ZMod P`. -/
theorem neg_seven_not_cube (x : ZMod P) : x * x * x + 7 ≠ 0 := by
  intro h
  have hx0 : x ≠ 0 := by
    intro h0; rw [h0] at h
    exact zmodP_seven_ne_zero (by linear_combination h)
  have h1 : x ^ (P - 1) = 1 := ZMod.pow_card_sub_one_eq_one hx0
  have hc : ((P - 7 : ℕ) : ZMod P) = x ^ 3 := by
    rw [Nat.cast_sub (by decide), ZMod.natCast_self]
    simp only [Nat.cast_ofNat]
    linear_combination -h
  have he : 3 * ((P - 1) / 3) = P - 1 := by decide
  apply neg_seven_not_cube_aux
  apply Fe.eq_of_cast_eq (Field.powMod_lt P_pos (Field.lt_pow_520 (by decide +kernel)))
    (by decide)
  rw [Fe.cast_powMod _ _ (Field.lt_pow_520 (by decide +kernel)), hc, ← pow_mul, he, h1,
    Nat.cast_one]

/-- No valid point has `y = 0`; hence there is no point of order two. -/
theorem valid_y_ne_zero {x y : ℕ} (h : (Pt.aff x y).valid = true) : y ≠ 0 := by
  intro hy
  obtain ⟨_, _, hn⟩ := (valid_aff_iff x y).1 h
  have he := (W_equation_iff _ _).1 hn.1
  rw [hy, Nat.cast_zero, mul_zero] at he
  exact neg_seven_not_cube _ he.symm

theorem valid_y_mod_ne_zero {x y : ℕ} (h : (Pt.aff x y).valid = true) : y % P ≠ 0 := by
  obtain ⟨_, hy, _⟩ := (valid_aff_iff x y).1 h
  rw [Nat.mod_eq_of_lt hy]; exact valid_y_ne_zero h

/-- Doubling a valid finite point never gives infinity (no 2-torsion). -/
theorem dbl_ne_inf {x y : ℕ} (h : (Pt.aff x y).valid = true) : Pt.dbl (.aff x y) ≠ .inf := by
  rw [Pt.dbl, if_neg (valid_y_mod_ne_zero h)]
  exact fun h => Pt.noConfusion h

/-- `p + q = ∞` only for `q = -p`. -/
theorem add_eq_inf_iff {p q : Pt} (hp : p.valid = true) (hq : q.valid = true) :
    Pt.add p q = .inf ↔ q = Pt.neg p := by
  rw [← toPoint_eq_zero_iff (valid_add hp hq), toPoint_add hp hq, add_eq_zero_iff_neg_eq,
    ← toPoint_neg hp]
  exact ⟨fun h => (toPoint_injective (valid_neg hp) hq h).symm, fun h => by rw [h]⟩

/-- Negation flips the parity of `y` (for finite valid points). -/
theorem isOdd_neg {x y : ℕ} (h : (Pt.aff x y).valid = true) :
    Fe.isOdd (Fe.neg y) = !Fe.isOdd y := by
  obtain ⟨_, hy, _⟩ := (valid_aff_iff x y).1 h
  have h0 : 0 < y := Nat.pos_of_ne_zero (valid_y_ne_zero h)
  rw [Fe.neg_eq_of_pos h0 hy]
  have hP := P_odd
  unfold Fe.isOdd
  rcases Nat.mod_two_eq_zero_or_one y with e | e
  · have : (P - y) % 2 = 1 := by omega
    simp [e, this]
  · have : (P - y) % 2 = 0 := by omega
    simp [e, this]

theorem hasEvenY_neg {x y : ℕ} (h : (Pt.aff x y).valid = true) :
    (Pt.neg (.aff x y)).hasEvenY = !(Pt.aff x y).hasEvenY := by
  have := isOdd_neg h
  unfold Fe.isOdd at this
  simp only [Pt.neg, Pt.hasEvenY]
  rcases Nat.mod_two_eq_zero_or_one y with e | e <;>
  rcases Nat.mod_two_eq_zero_or_one (Fe.neg y) with e' | e' <;> simp_all

/-- Two valid points with the same abscissa are equal or opposite. -/
theorem eq_or_eq_neg_of_x_eq {x y y' : ℕ} (h : (Pt.aff x y).valid = true)
    (h' : (Pt.aff x y').valid = true) : y' = y ∨ y' = Fe.neg y := by
  obtain ⟨_, hy, hn⟩ := (valid_aff_iff x y).1 h
  obtain ⟨_, hy', hn'⟩ := (valid_aff_iff x y').1 h'
  rcases WeierstrassCurve.Affine.Y_eq_of_X_eq hn'.1 hn.1 rfl with e | e
  · exact Or.inl (Fe.eq_of_cast_eq hy' hy e)
  · right
    apply Fe.eq_of_cast_eq hy' (Fe.neg_lt_P y)
    rw [e, W_negY, Fe.cast_neg]

/-- A valid point is determined by its abscissa and the parity of its ordinate. -/
theorem eq_of_x_eq_of_parity {x y y' : ℕ} (h : (Pt.aff x y).valid = true)
    (h' : (Pt.aff x y').valid = true) (hpar : Fe.isOdd y' = Fe.isOdd y) : y' = y := by
  rcases eq_or_eq_neg_of_x_eq h h' with e | e
  · exact e
  · rw [e, isOdd_neg h] at hpar
    cases hb : Fe.isOdd y <;> rw [hb] at hpar <;> simp at hpar

/-! ### x-only lifts -/

/-- the right-hand side of the curve equation, as computed by `liftX` -/
theorem cast_rhs (x : ℕ) :
    ((Fe.add (Fe.mul (Fe.sqr x) x) 7 : ℕ) : ZMod P) = (x : ZMod P) * x * x + 7 := by
  simp only [Fe.cast_add, Fe.cast_mul, Fe.cast_sqr, Nat.cast_ofNat]

theorem valid_of_sqrt {x r : ℕ} (h : Fe.sqrt (Fe.add (Fe.mul (Fe.sqr x) x) 7) = some r) :
    (Pt.aff (x % P) r).valid = true := by
  obtain ⟨hr, hsq, _⟩ := Fe.sqrt_some h
  rw [cast_rhs] at hsq
  refine (valid_aff_iff _ _).2 ⟨Nat.mod_lt _ P_pos, hr, (W_nonsingular_iff _ _).2 ?_⟩
  rw [W_equation_iff, ZMod.natCast_mod]; exact hsq

/-- `liftX` returns a valid point with the requested abscissa and parity. -/
theorem liftX_some {x : ℕ} {odd : Bool} {p : Pt} (h : Pt.liftX x odd = some p) :
    p.valid = true ∧ p ≠ .inf ∧ p.xOf = x % P ∧ Fe.isOdd p.yOf = odd := by
  unfold Pt.liftX at h
  split at h
  · exact absurd h (by simp)
  · next r hr =>
    have hv := valid_of_sqrt hr
    injection h with h
    subst h
    refine ⟨?_, fun h => Pt.noConfusion h, rfl, ?_⟩
    · split
      · exact hv
      · exact valid_neg hv
    · simp only [Pt.yOf]
      split
      · next e => exact e
      · next e =>
        rw [isOdd_neg hv]
        cases hb : Fe.isOdd r <;> cases odd <;> simp_all

/-- `liftX` fails exactly when `x³ + 7` is not a square, i.e. no point has this abscissa. -/
theorem liftX_eq_none_iff (x : ℕ) (odd : Bool) :
    Pt.liftX x odd = none ↔ ¬ IsSquare ((x : ZMod P) * x * x + 7) := by
  rw [← cast_rhs, ← Fe.sqrt_eq_none_iff]
  unfold Pt.liftX
  split <;> simp_all

theorem liftX_eq_none_iff_forall (x : ℕ) (odd : Bool) :
    Pt.liftX x odd = none ↔ ∀ y, (Pt.aff (x % P) y).valid = false := by
  rw [liftX_eq_none_iff]
  constructor
  · intro h y
    by_contra hv
    rw [Bool.not_eq_false] at hv
    obtain ⟨_, _, hn⟩ := (valid_aff_iff _ _).1 hv
    have he := (W_equation_iff _ _).1 hn.1
    rw [ZMod.natCast_mod] at he
    exact h ⟨_, he.symm⟩
  · intro h hs
    have hs' : IsSquare ((Fe.add (Fe.mul (Fe.sqr x) x) 7 : ℕ) : ZMod P) := by
      rw [cast_rhs]; exact hs
    have := (Fe.sqrt_eq_some_iff _ (Fe.sqrtCand _)).2 ⟨rfl, hs'⟩
    have hv := valid_of_sqrt this
    rw [h] at hv
    exact absurd hv (by simp)

/-- `liftX` finds every valid point: completeness and uniqueness of the x-only lift. -/
theorem liftX_of_valid {x y : ℕ} (h : (Pt.aff x y).valid = true) :
    Pt.liftX x (Fe.isOdd y) = some (.aff x y) := by
  obtain ⟨hx, _, _⟩ := (valid_aff_iff x y).1 h
  cases hl : Pt.liftX x (Fe.isOdd y) with
  | none =>
    have := (liftX_eq_none_iff_forall x _).1 hl y
    rw [Nat.mod_eq_of_lt hx, h] at this
    exact absurd this (by simp)
  | some p =>
    obtain ⟨hv, hne, hxo, hpar⟩ := liftX_some hl
    cases p with
    | inf => exact absurd rfl hne
    | aff x' y' =>
      simp only [Pt.xOf, Pt.yOf] at hxo hpar
      rw [Nat.mod_eq_of_lt hx] at hxo
      subst hxo
      rw [eq_of_x_eq_of_parity h hv hpar]

/-- `liftXQuad` returns a valid point with the requested abscissa whose `y` is a square. -/
theorem liftXQuad_some {x : ℕ} {p : Pt} (h : Pt.liftXQuad x = some p) :
    p.valid = true ∧ p ≠ .inf ∧ p.xOf = x % P ∧ IsSquare ((p.yOf : ℕ) : ZMod P) := by
  unfold Pt.liftXQuad at h
  split at h
  · exact absurd h (by simp)
  · next r hr =>
    have hv := valid_of_sqrt hr
    injection h with h
    subst h
    refine ⟨hv, fun h => Pt.noConfusion h, rfl, ?_⟩
    obtain ⟨hre, hsq⟩ := (Fe.sqrt_eq_some_iff _ _).1 hr
    simp only [Pt.yOf]
    rw [hre]
    exact Fe.sqrtCand_isSquare hsq

theorem liftXQuad_eq_none_iff (x : ℕ) :
    Pt.liftXQuad x = none ↔ ¬ IsSquare ((x : ZMod P) * x * x + 7) := by
  rw [← cast_rhs, ← Fe.sqrt_eq_none_iff]
  unfold Pt.liftXQuad
  split <;> simp_all

/-! ### The order of the generator -/

set_option exponentiation.threshold 600

/-- The generator has order exactly `N` in the point group. -/
theorem addOrderOf_G (hN : Nat.Prime N) : addOrderOf (toPoint Pt.G) = N := by
  have : Fact (Nat.Prime N) := ⟨hN⟩
  apply addOrderOf_eq_prime
  · rw [← toPoint_mul (Field.lt_pow_264 N_lt) valid_G, mul_N_G, toPoint_inf]
  · rw [Ne, toPoint_eq_zero_iff valid_G]; exact G_ne_inf

/-- `k • G = ∞` exactly for multiples of `N`. -/
theorem mul_G_eq_inf_iff (hN : Nat.Prime N) {k : ℕ} (hk : k < mulBound) :
    Pt.mul k Pt.G = .inf ↔ N ∣ k := by
  rw [← toPoint_eq_zero_iff (valid_mul k valid_G), toPoint_mul hk valid_G,
    ← addOrderOf_dvd_iff_nsmul_eq_zero, addOrderOf_G hN]

/-- Scalars are only relevant modulo `N`. -/
theorem mul_mod_N_G (hN : Nat.Prime N) {k : ℕ} (hk : k < mulBound) :
    Pt.mul (k % N) Pt.G = Pt.mul k Pt.G := by
  have hk' : k % N < mulBound := lt_of_le_of_lt (Nat.mod_le _ _) hk
  apply toPoint_injective (valid_mul _ valid_G) (valid_mul _ valid_G)
  rw [toPoint_mul hk' valid_G, toPoint_mul hk valid_G, ← addOrderOf_G hN, mod_addOrderOf_nsmul]

/-- Scalar multiplication of the generator is injective on `[0, N)`. -/
theorem mul_G_injective (hN : Nat.Prime N) {a b : ℕ} (ha : a < N) (hb : b < N)
    (h : Pt.mul a Pt.G = Pt.mul b Pt.G) : a = b := by
  have ha' : a < mulBound := Field.lt_pow_264 (lt_trans ha N_lt)
  have hb' : b < mulBound := Field.lt_pow_264 (lt_trans hb N_lt)
  have h' := congrArg toPoint h
  rw [toPoint_mul ha' valid_G, toPoint_mul hb' valid_G] at h'
  have := (nsmul_injOn_Iio_addOrderOf (x := toPoint Pt.G))
  rw [addOrderOf_G hN] at this
  exact this (Set.mem_Iio.2 ha) (Set.mem_Iio.2 hb) h'

end PrimeP

/-! ### Non-vacuity: the lemmas above apply to the generator -/

example : Pt.liftX Pt.Gx false = some Pt.G := by decide +kernel
example : Pt.liftX 5 false = none := by decide +kernel
example : (Pt.add Pt.G Pt.G).valid = true := by decide +kernel
example : Pt.mul 2 Pt.G = Pt.add Pt.G Pt.G := by decide +kernel

end SecpZkp
