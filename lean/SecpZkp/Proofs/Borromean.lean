import SecpZkp.Model.Borromean
import SecpZkp.Proofs.Algebra
import SecpZkp.Proofs.GroupLawProved
/-
  Completeness of the Borromean ring signature (`Model/Borromean.lean`).
  Nothing here looks inside `Borromean.hash`, `Codec.serialize33`, `Sha256.sha256` or `Sc.setB32`.
-/
namespace SecpZkp
namespace Borromean
open SecpZkp.Algebra

/-! ### If-form unfolding lemmas -/

/-- `verifyRing` without the list of challenges. -/
def ringLast (m : Bytes) (i : Nat) : (j : Nat) → List Pt → List Nat → Bytes → Option Bytes
  | _, [], _, last => some last
  | _, _ :: _, [], _ => none
  | j, p :: ps, s :: ss, tmp =>
    if (Sc.setB32 tmp).2 = true ∨ s = 0 ∨ (Sc.setB32 tmp).1 = 0 ∨ p.isInf = true then none else
    if Pt.add (Pt.mul (Sc.setB32 tmp).1 p) (Pt.mulG s) = .inf then none else
    if ps = [] then some (Codec.serialize33 (Pt.add (Pt.mul (Sc.setB32 tmp).1 p) (Pt.mulG s)))
    else ringLast m i (j + 1) ps ss
      (hash m (Codec.serialize33 (Pt.add (Pt.mul (Sc.setB32 tmp).1 p) (Pt.mulG s))) i (j + 1))

theorem verifyRing_fst (m : Bytes) (i j : Nat) (P : List Pt) (S : List Nat) (tmp : Bytes) (ev : List Nat) :
    (verifyRing m i j P S tmp ev).map Prod.fst = ringLast m i j P S tmp := by
  induction P generalizing j S tmp ev with
  | nil => simp [verifyRing, ringLast]
  | cons p ps ih =>
    cases S with
    | nil => simp [verifyRing, ringLast]
    | cons s ss =>
      rw [verifyRing, ringLast]
      simp only []
      split
      · rfl
      · split
        · next h => simp [h]
        · next _ r h2 =>
          have : ¬ (Pt.add (Pt.mul (Sc.setB32 tmp).1 p) (Pt.mulG s) = .inf) := h2
          rw [if_neg this]
          cases ps with
          | nil => simp
          | cons p' ps' =>
            simp only [List.isEmpty_cons, Bool.false_eq_true, if_false, reduceCtorEq]
            exact ih _ _ _ _

theorem isInf_eq_true_iff (p : Pt) : p.isInf = true ↔ p = .inf := by
  cases p <;> simp [Pt.isInf]

theorem walk_cons (m : Bytes) (i j : Nat) (p : Pt) (ps : List Pt) (s : Nat) (ss : List Nat) (tmp : Bytes) :
    walk m i j (p :: ps) (s :: ss) tmp =
      if (Sc.setB32 (hash m tmp i j)).2 = true ∨ (Sc.setB32 (hash m tmp i j)).1 = 0 then none else
      if Pt.add (Pt.mul (Sc.setB32 (hash m tmp i j)).1 p) (Pt.mulG s) = .inf then none else
      walk m i (j + 1) ps ss (Codec.serialize33 (Pt.add (Pt.mul (Sc.setB32 (hash m tmp i j)).1 p) (Pt.mulG s))) := by
  rw [walk]
  simp only []
  split
  · rfl
  · split
    · next h => simp [h]
    · next _ r h2 =>
      have : ¬ (Pt.add (Pt.mul (Sc.setB32 (hash m tmp i j)).1 p) (Pt.mulG s) = .inf) := h2
      rw [if_neg this]

theorem walk2_cons (m : Bytes) (i j : Nat) (p : Pt) (ps : List Pt) (s : Nat) (ss : List Nat) (ens : Nat) :
    sign.walk2 m i j (p :: ps) (s :: ss) ens =
      if Pt.add (Pt.mul ens p) (Pt.mulG s) = .inf then none else
      if (Sc.setB32 (hash m (Codec.serialize33 (Pt.add (Pt.mul ens p) (Pt.mulG s))) i (j + 1))).2 = true ∨
         (Sc.setB32 (hash m (Codec.serialize33 (Pt.add (Pt.mul ens p) (Pt.mulG s))) i (j + 1))).1 = 0 then none else
      sign.walk2 m i (j + 1) ps ss
        (Sc.setB32 (hash m (Codec.serialize33 (Pt.add (Pt.mul ens p) (Pt.mulG s))) i (j + 1))).1 := by
  rw [sign.walk2]
  split
  · next h => simp [h]
  · next r h2 =>
    have : ¬ (Pt.add (Pt.mul ens p) (Pt.mulG s) = .inf) := h2
    rw [if_neg this]

/-! ### One ring -/

/-- Phase 1 of the signer (forward walk after the secret position) is replayed by the verifier. -/
theorem ringLast_of_walk (m : Bytes) (i : Nat) :
    ∀ (P : List Pt) (S : List Nat) (j : Nat) (prev last : Bytes),
      P ≠ [] → P.length = S.length → (∀ p ∈ P, p ≠ .inf) → (∀ s ∈ S, s ≠ 0) →
      walk m i j P S prev = some last → ringLast m i j P S (hash m prev i j) = some last := by
  intro P
  induction P with
  | nil => intro S j prev last h; exact absurd rfl h
  | cons p ps ih =>
    intro S j prev last _ hlen hP hS hw
    cases S with
    | nil => simp at hlen
    | cons s ss =>
      rw [walk_cons] at hw
      split at hw
      · simp at hw
      · next hc =>
        split at hw
        · simp at hw
        · next hr =>
          have hs : s ≠ 0 := hS s (by simp)
          have hp : ¬ p.isInf = true := by rw [isInf_eq_true_iff]; exact hP p (by simp)
          have hc' : ¬ ((Sc.setB32 (hash m prev i j)).2 = true ∨ s = 0 ∨
              (Sc.setB32 (hash m prev i j)).1 = 0 ∨ p.isInf = true) := by
            intro h
            rcases h with h | h | h | h
            · exact hc (Or.inl h)
            · exact hs h
            · exact hc (Or.inr h)
            · exact hp h
          rw [ringLast, if_neg hc', if_neg hr]
          cases ps with
          | nil => simpa [walk] using hw
          | cons p' ps' =>
            rw [if_neg (by simp)]
            apply ih ss (j + 1) _ last (by simp) (by simpa using hlen)
              (fun q hq => hP q (by simp [hq])) (fun q hq => hS q (by simp [hq])) hw

/-- Phase 2 of the signer (walk from `e0` up to the secret position) is replayed by the verifier. -/
theorem ringLast_append_of_walk2 (m : Bytes) (i : Nat) (P2 : List Pt) (S2 : List Nat) (hP2 : P2 ≠ []) :
    ∀ (P1 : List Pt) (S1 : List Nat) (j : Nat) (tmp : Bytes) (ens' : Nat),
      P1.length = S1.length → (∀ p ∈ P1, p ≠ .inf) → (∀ s ∈ S1, s ≠ 0) →
      (Sc.setB32 tmp).2 = false → (Sc.setB32 tmp).1 ≠ 0 →
      sign.walk2 m i j P1 S1 (Sc.setB32 tmp).1 = some ens' →
      ∃ tmp', (Sc.setB32 tmp').2 = false ∧ (Sc.setB32 tmp').1 = ens' ∧ ens' ≠ 0 ∧
        ringLast m i j (P1 ++ P2) (S1 ++ S2) tmp = ringLast m i (j + P1.length) P2 S2 tmp' := by
  intro P1
  induction P1 with
  | nil =>
    intro S1 j tmp ens' hlen _ _ hov hnz hw
    cases S1 with
    | cons _ _ => simp at hlen
    | nil =>
      simp only [sign.walk2, Option.some.injEq] at hw
      exact ⟨tmp, hov, hw, hw ▸ hnz, by simp⟩
  | cons p ps ih =>
    intro S1 j tmp ens' hlen hP hS hov hnz hw
    cases S1 with
    | nil => simp at hlen
    | cons s ss =>
      rw [walk2_cons] at hw
      split at hw
      · simp at hw
      · next hr =>
        split at hw
        · simp at hw
        · next hc =>
          have hs : s ≠ 0 := hS s (by simp)
          have hp : ¬ p.isInf = true := by rw [isInf_eq_true_iff]; exact hP p (by simp)
          have hc' : ¬ ((Sc.setB32 tmp).2 = true ∨ s = 0 ∨ (Sc.setB32 tmp).1 = 0 ∨ p.isInf = true) := by
            intro h
            rcases h with h | h | h | h
            · simp [hov] at h
            · exact hs h
            · exact hnz h
            · exact hp h
          have hov' : (Sc.setB32 (hash m (Codec.serialize33 (Pt.add (Pt.mul (Sc.setB32 tmp).1 p) (Pt.mulG s))) i (j + 1))).2 = false := by
            cases h : (Sc.setB32 (hash m (Codec.serialize33 (Pt.add (Pt.mul (Sc.setB32 tmp).1 p) (Pt.mulG s))) i (j + 1))).2
            · rfl
            · exact absurd (Or.inl h) hc
          obtain ⟨tmp', h1, h2, h3, h4⟩ := ih ss (j + 1) _ ens' (by simpa using hlen)
            (fun q hq => hP q (by simp [hq])) (fun q hq => hS q (by simp [hq])) hov'
            (fun h => hc (Or.inr h)) hw
          refine ⟨tmp', h1, h2, h3, ?_⟩
          have hne : ps ++ P2 ≠ [] := by simp [hP2]
          rw [List.cons_append, List.cons_append, ringLast, if_neg hc', if_neg hr, if_neg hne, h4]
          congr 1
          simp only [List.length_cons]; omega

theorem setB32_fst_lt (b : Bytes) : (Sc.setB32 b).1 < N := Nat.mod_lt _ N_pos

section
variable [HasGroupLaw]

/-- The ring closes: `e•(x•G) + (k − e·x)•G = k•G`. -/
theorem close_ring {e x k : Nat} (he : e < N) (hx : x < N) (hk : k < N) :
    Pt.add (Pt.mul e (Pt.mulG x)) (Pt.mulG (Sc.add (Sc.neg (Sc.mul e x)) k)) = Pt.mulG k := by
  rw [mulG_eq_gmul (lt_mulBound_of_lt_N hx), mul_gmul (lt_mulBound_of_lt_N he),
    mulG_eq_gmul (lt_mulBound_of_lt_N (Sc.add_lt _ _)), mulG_eq_gmul (lt_mulBound_of_lt_N hk), add_gmul]
  apply gmul_congr
  simp only [cast_add, cast_neg, cast_mul]
  ring

/-- **Completeness for one ring.** `P`, `S` are the keys and forged scalars of the ring, `t` the secret position with
    `P[t] = x•G`; `last` is what the signer's phase 1 produced from the nonce point `k•G`, `ens` the challenge the
    signer's phase 2 reached at the secret position.  Then the verifier, run on `S` with the secret position
    overwritten by `k − ens·x`, reproduces `last`. -/
theorem ring_complete (m e0 : Bytes) (i : Nat) (P : List Pt) (S : List Nat) (t x k ens : Nat) (last : Bytes)
    (hlen : P.length = S.length) (ht : t < P.length) (hP : ∀ p ∈ P, p ≠ .inf)
    (hS1 : ∀ s ∈ S.take t, s ≠ 0) (hS2 : ∀ s ∈ S.drop (t + 1), s ≠ 0)
    (hx : x < N) (hk : k < N) (hkey : P[t]? = some (Pt.mulG x))
    (hR : Pt.mulG k ≠ .inf)
    (hw1 : walk m i (t + 1) (P.drop (t + 1)) (S.drop (t + 1)) (Codec.serialize33 (Pt.mulG k)) = some last)
    (hov : (Sc.setB32 (hash m e0 i 0)).2 = false) (hnz : (Sc.setB32 (hash m e0 i 0)).1 ≠ 0)
    (hw2 : sign.walk2 m i 0 (P.take t) (S.take t) (Sc.setB32 (hash m e0 i 0)).1 = some ens)
    (hsv : Sc.add (Sc.neg (Sc.mul ens x)) k ≠ 0) :
    ringLast m i 0 P (S.set t (Sc.add (Sc.neg (Sc.mul ens x)) k)) (hash m e0 i 0) = some last := by
  have htS : t < S.length := hlen ▸ ht
  have hPsplit : P = P.take t ++ Pt.mulG x :: P.drop (t + 1) := by
    have h1 : P[t] = Pt.mulG x := by
      rw [List.getElem?_eq_getElem ht] at hkey; exact Option.some.inj hkey
    rw [← h1, ← List.drop_eq_getElem_cons ht, List.take_append_drop]
  rw [List.set_eq_take_append_cons_drop, if_pos htS]
  conv_lhs => rw [hPsplit]
  obtain ⟨tmp', h1, h2, h3, h4⟩ := ringLast_append_of_walk2 m i (Pt.mulG x :: P.drop (t + 1))
    (Sc.add (Sc.neg (Sc.mul ens x)) k :: S.drop (t + 1)) (by simp) (P.take t) (S.take t) 0
    (hash m e0 i 0) ens (by simp [List.length_take, hlen])
    (fun p hp => hP p (List.mem_of_mem_take hp)) hS1 hov hnz hw2
  rw [h4]
  have hlt : (P.take t).length = t := by simp [List.length_take]; omega
  have hmx : ¬ (Pt.mulG x).isInf = true := by
    rw [isInf_eq_true_iff]
    apply hP
    have h1 : P[t] = Pt.mulG x := by
      rw [List.getElem?_eq_getElem ht] at hkey; exact Option.some.inj hkey
    rw [← h1]; exact List.getElem_mem ht
  have hc' : ¬ ((Sc.setB32 tmp').2 = true ∨ Sc.add (Sc.neg (Sc.mul ens x)) k = 0 ∨
      (Sc.setB32 tmp').1 = 0 ∨ (Pt.mulG x).isInf = true) := by
    intro h
    rcases h with h | h | h | h
    · simp [h1] at h
    · exact hsv h
    · exact h3 (h2 ▸ h)
    · exact hmx h
  have hens : ens < N := h2 ▸ setB32_fst_lt tmp'
  rw [ringLast, if_neg hc', h2, close_ring hens hx hk, if_neg hR, hlt, Nat.zero_add]
  by_cases hnil : P.drop (t + 1) = []
  · rw [if_pos hnil]
    rw [hnil] at hw1
    simpa [walk] using hw1
  · rw [if_neg hnil]
    apply ringLast_of_walk m i _ _ _ _ _ hnil (by simp [List.length_drop, hlen])
      (fun p hp => hP p (List.mem_of_mem_drop hp)) hS2 hw1

end

/-! ### All rings -/

/-- `verify.go` without the list of challenges. -/
def goLast (e0 m : Bytes) : List Nat → Nat → List Nat → List Pt → Bytes → Option Bytes
  | [], _, _, _, acc => some acc
  | rs :: rest, i, s, pubs, acc =>
    if rs = 0 then goLast e0 m rest (i + 1) s pubs acc else
    match ringLast m i 0 (pubs.take rs) (s.take rs) (hash m e0 i 0) with
    | none => none
    | some last => goLast e0 m rest (i + 1) (s.drop rs) (pubs.drop rs) (acc ++ last)

theorem go_fst (e0 m : Bytes) (rsizes : List Nat) (i : Nat) (s : List Nat) (pubs : List Pt) (acc : Bytes) (ev : List Nat) :
    (verify.go e0 m rsizes i s pubs acc ev).map Prod.fst = goLast e0 m rsizes i s pubs acc := by
  induction rsizes generalizing i s pubs acc ev with
  | nil => simp [verify.go, goLast]
  | cons rs rest ih =>
    rw [verify.go, goLast]
    split
    · exact ih _ _ _ _ _
    · rw [← verifyRing_fst m i 0 _ _ _ []]
      cases h : verifyRing m i 0 (List.take rs pubs) (List.take rs s) (hash m e0 i 0) [] with
      | none => simp
      | some r =>
        obtain ⟨last, ev'⟩ := r
        simp only [Option.map_some]
        exact ih _ _ _ _ _

theorem verify_fst (e0 : Bytes) (s : List Nat) (pubs : List Pt) (rsizes : List Nat) (m : Bytes) :
    (verify e0 s pubs rsizes m).1 =
      match goLast e0 m rsizes 0 s pubs [] with
      | none => false
      | some acc => Sha256.sha256 (acc ++ m) == e0 := by
  rw [verify, ← go_fst e0 m rsizes 0 s pubs [] []]
  cases h : verify.go e0 m rsizes 0 s pubs [] [] with
  | none => simp
  | some r => obtain ⟨a, b⟩ := r; simp

theorem phase1_cons (s : List Nat) (pubs : List Pt) (m : Bytes) (rs si ki : Nat) (rest : List (Nat × Nat × Nat))
    (i count : Nat) (acc : Bytes) :
    sign.phase1 s pubs m ((rs, si, ki) :: rest) i count acc =
      if Pt.mulG ki = .inf then none else
      match walk m i (si + 1) ((pubs.drop (count + si + 1)).take (rs - si - 1))
          ((s.drop (count + si + 1)).take (rs - si - 1)) (Codec.serialize33 (Pt.mulG ki)) with
      | none => none
      | some last => sign.phase1 s pubs m rest (i + 1) (count + rs) (acc ++ last) := by
  rw [sign.phase1]
  split
  · next h => simp [h]
  · next r h2 =>
    have : ¬ (Pt.mulG ki = .inf) := h2
    rw [if_neg this]
    rfl

theorem phase2_cons (pubs : List Pt) (m e0 : Bytes) (rs si ki seci : Nat) (rest : List (Nat × Nat × Nat × Nat))
    (i count : Nat) (sOut : List Nat) :
    sign.phase2 pubs m e0 ((rs, si, ki, seci) :: rest) i count sOut =
      if (Sc.setB32 (hash m e0 i 0)).2 = true ∨ (Sc.setB32 (hash m e0 i 0)).1 = 0 then none else
      match sign.walk2 m i 0 ((pubs.drop count).take si) ((sOut.drop count).take si) (Sc.setB32 (hash m e0 i 0)).1 with
      | none => none
      | some ens =>
        if Sc.add (Sc.neg (Sc.mul ens seci)) ki = 0 then none else
        sign.phase2 pubs m e0 rest (i + 1) (count + rs)
          (sOut.set (count + si) (Sc.add (Sc.neg (Sc.mul ens seci)) ki)) := by
  rw [sign.phase2]
  generalize Sc.setB32 (hash m e0 i 0) = q
  obtain ⟨a, b⟩ := q
  rfl

/-- Phase 2 never touches entries below the running offset and keeps the length. -/
theorem phase2_take (pubs : List Pt) (m e0 : Bytes) :
    ∀ (rings : List (Nat × Nat × Nat × Nat)) (i count : Nat) (sCur sOut : List Nat),
      sign.phase2 pubs m e0 rings i count sCur = some sOut →
      sOut.take count = sCur.take count ∧ sOut.length = sCur.length := by
  intro rings
  induction rings with
  | nil => intro i count sCur sOut h; simp [sign.phase2] at h; subst h; simp
  | cons r rest ih =>
    intro i count sCur sOut h
    obtain ⟨rs, si, ki, seci⟩ := r
    rw [phase2_cons] at h
    split at h
    · simp at h
    · split at h
      · simp at h
      · split at h
        · simp at h
        · obtain ⟨h1, h2⟩ := ih _ _ _ _ h
          constructor
          · have := congrArg (List.take count) h1
            rw [List.take_take, List.take_take, Nat.min_eq_left (by omega)] at this
            rw [this, List.take_set_of_le (by omega)]
          · simpa using h2

/-- Consistency of the signer's inputs from flat offset `count` on: every ring has its secret index inside the
    ring, the ring lies inside `pubs`/`s`, the secret and the nonce are reduced scalars, the key at the secret position
    is `sec•G`, and every forged scalar (every position except the secret one) is non-zero. -/
def Consistent (pubs : List Pt) (s : List Nat) : (count : Nat) → (rsizes secidx k sec : List Nat) → Prop
  | _, [], [], [], [] => True
  | count, rs :: rsizes, si :: secidx, ki :: k, xi :: sec =>
      si < rs ∧ count + rs ≤ pubs.length ∧ count + rs ≤ s.length ∧ xi < N ∧ ki < N ∧
      pubs[count + si]? = some (Pt.mulG xi) ∧
      (∀ j, j < rs → j ≠ si → s[count + j]? ≠ some 0) ∧
      Consistent pubs s (count + rs) rsizes secidx k sec
  | _, _, _, _, _ => False

theorem getElem?_take_drop {α} (l : List α) (c rs t : Nat) (h : t < rs) :
    ((l.drop c).take rs)[t]? = l[c + t]? := by
  rw [List.getElem?_take, if_pos h, List.getElem?_drop]

section
variable [HasGroupLaw]

theorem goLast_of_phases (pubs : List Pt) (s : List Nat) (m e0 : Bytes) (hP : ∀ p ∈ pubs, p ≠ .inf) :
    ∀ (rsizes secidx k sec : List Nat) (i count : Nat) (sCur sOut : List Nat) (acc acc1 vacc : Bytes),
      Consistent pubs s count rsizes secidx k sec →
      sCur.length = s.length → sCur.drop count = s.drop count →
      sign.phase1 s pubs m (List.zip rsizes (List.zip secidx k)) i count acc = some acc1 →
      sign.phase2 pubs m e0 (List.zip rsizes (List.zip secidx (List.zip k sec))) i count sCur = some sOut →
      ∃ suf, acc1 = acc ++ suf ∧
        goLast e0 m rsizes i (sOut.drop count) (pubs.drop count) vacc = some (vacc ++ suf) := by
  intro rsizes
  induction rsizes with
  | nil =>
    intro secidx k sec i count sCur sOut acc acc1 vacc _ _ _ h1 _
    simp [sign.phase1] at h1
    exact ⟨[], by simp [h1], by simp [goLast]⟩
  | cons rs rest ih =>
    intro secidx k sec i count sCur sOut acc acc1 vacc hc hlen hdrop h1 h2
    match secidx, k, sec, hc with
    | si :: secidx, ki :: k, xi :: sec, hc =>
      obtain ⟨hsi, hpl, hsl, hx, hk, hkey, hforged, hrest⟩ := hc
      simp only [List.zip_cons_cons] at h1 h2
      rw [phase1_cons] at h1
      rw [phase2_cons] at h2
      split at h1
      · simp at h1
      next hR =>
      split at h1
      · simp at h1
      next last hw1 =>
      split at h2
      · simp at h2
      next hc0 =>
      split at h2
      · simp at h2
      next ens hw2 =>
      split at h2
      · simp at h2
      next hsv =>
      -- the ring
      have hS : (sCur.drop count).take si = ((s.drop count).take rs).take si := by
        rw [hdrop, List.take_take, Nat.min_eq_left (by omega)]
      have hPt : (pubs.drop count).take si = ((pubs.drop count).take rs).take si := by
        rw [List.take_take, Nat.min_eq_left (by omega)]
      have hPd : (pubs.drop (count + si + 1)).take (rs - si - 1) = ((pubs.drop count).take rs).drop (si + 1) := by
        rw [List.drop_take, List.drop_drop]; congr 1
      have hSd : (s.drop (count + si + 1)).take (rs - si - 1) = ((s.drop count).take rs).drop (si + 1) := by
        rw [List.drop_take, List.drop_drop]; congr 1
      rw [hPd, hSd] at hw1
      rw [hS, hPt] at hw2
      have hov : (Sc.setB32 (hash m e0 i 0)).2 = false := by
        cases h : (Sc.setB32 (hash m e0 i 0)).2
        · rfl
        · exact absurd (Or.inl h) hc0
      have hring := ring_complete m e0 i ((pubs.drop count).take rs) ((s.drop count).take rs) si xi ki ens last
        (by simp [List.length_take, List.length_drop]; omega)
        (by simp [List.length_take, List.length_drop]; omega)
        (fun p hp => hP p (List.mem_of_mem_drop (List.mem_of_mem_take hp)))
        (by
          intro x hx
          obtain ⟨j, hj, rfl⟩ := List.mem_iff_getElem.mp hx
          simp only [List.length_take, List.length_drop] at hj
          intro h0
          apply hforged j (by omega) (by omega)
          rw [← getElem?_take_drop s count rs j (by omega), ← h0]
          rw [List.getElem?_eq_getElem (by simp [List.length_take, List.length_drop]; omega)]
          simp [List.getElem_take])
        (by
          intro x hx
          obtain ⟨j, hj, rfl⟩ := List.mem_iff_getElem.mp hx
          simp only [List.length_take, List.length_drop] at hj
          intro h0
          apply hforged (si + 1 + j) (by omega) (by omega)
          rw [← getElem?_take_drop s count rs (si + 1 + j) (by omega), ← h0]
          rw [List.getElem?_eq_getElem (by simp [List.length_take, List.length_drop]; omega)]
          simp [List.getElem_drop])
        hx hk (by rw [getElem?_take_drop _ _ _ _ hsi]; exact hkey) hR hw1 hov (fun h => hc0 (Or.inr h)) hw2 hsv
      -- the remaining rings
      obtain ⟨hpre, hlen2⟩ := phase2_take _ _ _ _ _ _ _ _ h2
      obtain ⟨suf, hs1, hs2⟩ := ih secidx k sec (i + 1) (count + rs) _ sOut (acc ++ last) acc1 (vacc ++ last) hrest
        (by simpa using hlen) (by rw [List.drop_set_of_lt (by omega)]; rw [← List.drop_drop, ← List.drop_drop, hdrop]) h1 h2
      refine ⟨last ++ suf, by simp [hs1], ?_⟩
      have hsOut : (sOut.drop count).take rs =
          ((s.drop count).take rs).set si (Sc.add (Sc.neg (Sc.mul ens xi)) ki) := by
        rw [List.take_drop, hpre, ← List.take_drop, List.drop_set, if_neg (by omega), hdrop, List.take_set]
        congr 1; omega
      rw [goLast, if_neg (by omega), hsOut, hring]
      simp only [List.drop_drop]
      rw [List.append_assoc] at hs2
      exact hs2

end


/-! ### The theorem -/

section
variable [HasGroupLaw]

theorem verify_of_sign (m : Bytes) (rsizes secidx k sec s : List Nat) (pubs : List Pt) (e0 : Bytes) (sOut : List Nat)
    (hP : ∀ p ∈ pubs, p ≠ .inf) (hc : Consistent pubs s 0 rsizes secidx k sec)
    (hsign : sign s pubs k sec rsizes secidx m = some (e0, sOut)) :
    (verify e0 sOut pubs rsizes m).1 = true := by
  rw [sign] at hsign
  simp only [] at hsign
  split at hsign
  · simp at hsign
  next acc h1 =>
  split at hsign
  · simp at hsign
  next sO h2 =>
  simp only [Option.some.injEq, Prod.mk.injEq] at hsign
  obtain ⟨he0, hs⟩ := hsign
  subst hs
  obtain ⟨suf, hs1, hs2⟩ := goLast_of_phases pubs s m (Sha256.sha256 (acc ++ m)) hP rsizes secidx k sec 0 0 s sO
    [] acc [] hc rfl rfl h1 h2
  simp only [List.drop_zero, List.nil_append] at hs1 hs2
  rw [verify_fst, ← he0, hs2, ← hs1]
  simp

end

/-- **Completeness of the Borromean ring signature.**  Let the rings be given flattened (`pubs`, `s`), with sizes
    `rsizes`, secret positions `secidx`, nonces `k` and secrets `sec`, and let these be consistent
    (`Consistent pubs s 0 rsizes secidx k sec`: in every ring the secret index is inside the ring, the key at the secret
    position is `sec[i]•G` with `sec[i] < N`, `k[i] < N`, and the forged scalars at all other positions are non-zero),
    and let no public key be the point at infinity.  If the signer returns `(e0, sOut)` then the verifier accepts
    `(e0, sOut)` for the same keys, ring sizes and message.

    The two non-degeneracy hypotheses are necessary: the C verifier (and the model) rejects a zero scalar or an
    infinite key at ANY position, while the signer never inspects the forged scalars (`borromean_zero_forged_scalar`
    below is the concrete counterexample).  `0 < sec[i]` follows from the key at the secret position not being infinity.
    The proof does not look inside `hash`, `Sha256.sha256` or `Codec.serialize33`. -/
theorem borromean_complete (m : Bytes) (rsizes secidx k sec s : List Nat) (pubs : List Pt) (e0 : Bytes) (sOut : List Nat)
    (hP : ∀ p ∈ pubs, p ≠ .inf) (hc : Consistent pubs s 0 rsizes secidx k sec)
    (hsign : sign s pubs k sec rsizes secidx m = some (e0, sOut)) :
    (verify e0 sOut pubs rsizes m).1 = true := by
  have : HasGroupLaw := ⟨groupLaw⟩
  exact verify_of_sign m rsizes secidx k sec s pubs e0 sOut hP hc hsign


/-! ### Non-vacuity and the necessity of the non-zero hypothesis -/

/-- example keys: ring 0 = `{5•G, 11•G}` (signer knows 5), ring 1 = `{7•G}` -/
def exPubs : List Pt := [Pt.mulG 5, Pt.mulG 11, Pt.mulG 7]
def exMsg : Bytes := Bytes.zeros 32

/-- The hypotheses of `borromean_complete` are satisfiable: a concrete two-ring signature (ring sizes 2 and 1,
    forged scalar 3, nonces 9 and 13) is produced by the signer and the inputs are consistent. -/
example : ∃ e0 sOut, sign [0, 3, 0] exPubs [9, 13] [5, 7] [2, 1] [0, 0] exMsg = some (e0, sOut) ∧
    (∀ p ∈ exPubs, p ≠ .inf) ∧ Consistent exPubs [0, 3, 0] 0 [2, 1] [0, 0] [9, 13] [5, 7] := by
  have h : (sign [0, 3, 0] exPubs [9, 13] [5, 7] [2, 1] [0, 0] exMsg).isSome = true := by decide +kernel
  obtain ⟨⟨e0, sOut⟩, h'⟩ := Option.isSome_iff_exists.mp h
  refine ⟨e0, sOut, h', by decide +kernel, ?_⟩
  unfold Consistent
  refine ⟨by decide, by decide, by decide, by decide +kernel, by decide +kernel, by decide +kernel, by decide, ?_⟩
  unfold Consistent
  refine ⟨by decide, by decide, by decide, by decide +kernel, by decide +kernel, by decide +kernel, by decide, ?_⟩
  trivial

/-- ... and the conclusion, evaluated: the verifier accepts that signature. -/
example : (sign [0, 3, 0] exPubs [9, 13] [5, 7] [2, 1] [0, 0] exMsg).map
    (fun r => (verify r.1 r.2 exPubs [2, 1] exMsg).1) = some true := by decide +kernel

/-- **The non-zero hypothesis on forged scalars is necessary**: with the forged scalar of ring 0 equal to 0 the signer
    still succeeds (it never inspects forged scalars) but the verifier rejects the result
    (`secp256k1_scalar_is_zero(&s[count])` in `secp256k1_borromean_verify`). -/
theorem borromean_zero_forged_scalar :
    (sign [0, 0, 0] exPubs [9, 13] [5, 7] [2, 1] [0, 0] exMsg).map
      (fun r => (verify r.1 r.2 exPubs [2, 1] exMsg).1) = some false := by decide +kernel

end Borromean
end SecpZkp
