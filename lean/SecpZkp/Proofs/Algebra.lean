import SecpZkp.Proofs.GroupLaw
import Mathlib.Data.ZMod.Basic
import Mathlib.FieldTheory.Finite.Basic
import Mathlib.GroupTheory.OrderOfElement
import Mathlib.Tactic.Abel
import Mathlib.Tactic.Ring
import Mathlib.Tactic.LinearCombination
import Mathlib.Tactic.FieldSimp
/-
  Protocol-level algebra on top of the interface structure `SecpZkp.GroupLaw`.

  Nothing in this file looks inside `Pt.add` / `Pt.mul` beyond the two defining clauses for the point at
  infinity; every other fact about the curve operations comes from the hypothesis `gl : GroupLaw`.

  ## Usage pattern

  `GroupLaw` is a *hypothesis*, not a theorem of this file, so the group structure on valid points cannot be
  a global instance.  It is made available through the `Prop`-valued class

      class HasGroupLaw : Prop where gl : GroupLaw

  All lemmas here are stated with `[HasGroupLaw]`.  A property theorem takes the explicit hypothesis and
  installs it once:

      theorem foo (gl : GroupLaw) … := by
        haveI : HasGroupLaw := ⟨gl⟩
        …

  With the instance in scope one gets
  * `VPt = {p : Pt // p.valid}` with `AddCommGroup VPt` (`0 = inf`, `+ = Pt.add`, `- = Pt.neg`);
  * `Fact (Nat.Prime N)`, hence `Field (ZMod N)`;
  * the additive hom `gmulV : ZMod N →+ VPt`, `a ↦ a.val • G`, which is injective, and its point-level
    version `gmul : ZMod N → Pt`.

  Downstream proofs normally never mention `VPt`: they rewrite every point into the form `gmul a` with
  `mulG_eq_gmul`, `mul_gmul`, `add_gmul`, `neg_gmul`, push the casts of `Sc.add/mul/neg/inv` into `ZMod N`
  with the `cast_*` simp lemmas, and finish with `gmul_congr` / `field_simp` / `ring` in the field `ZMod N`.
-/
namespace SecpZkp

/-- Carrier class for the group-law hypothesis (see the file header for the usage pattern). -/
class HasGroupLaw : Prop where
  gl : GroupLaw

namespace Algebra

/-! ### Facts that hold by definition -/

@[simp] theorem add_inf_left (q : Pt) : Pt.add .inf q = q := by cases q <;> rfl
@[simp] theorem add_inf_right (p : Pt) : Pt.add p .inf = p := by cases p <;> rfl
@[simp] theorem neg_inf : Pt.neg .inf = .inf := rfl
@[simp] theorem valid_inf : Pt.inf.valid = true := rfl
@[simp] theorem mul_inf (k : Nat) : Pt.mul k .inf = .inf := rfl
@[simp] theorem xOf_aff (x y : Nat) : (Pt.aff x y).xOf = x := rfl
@[simp] theorem yOf_aff (x y : Nat) : (Pt.aff x y).yOf = y := rfl
theorem G_ne_inf : Pt.G ≠ .inf := by simp [Pt.G]

theorem N_pos : 0 < N := by decide +kernel
theorem N_odd : N % 2 = 1 := by decide +kernel
theorem P_odd : P % 2 = 1 := by decide +kernel
theorem N_lt_P : N < P := by decide +kernel
theorem P_lt_two_N : P < 2 * N := by decide +kernel
theorem N_lt_pow : N < 2 ^ 256 := by decide +kernel
theorem P_lt_pow : P < 2 ^ 256 := by decide +kernel
theorem N_lt_mulBound : N < mulBound := by decide +kernel
theorem two_le_N : 2 ≤ N := by decide +kernel

instance : NeZero N := ⟨Nat.pos_iff_ne_zero.mp N_pos⟩

/-- Coordinates of a valid affine point are canonical. -/
theorem valid_aff_lt {x y : Nat} (h : (Pt.aff x y).valid = true) : x < P ∧ y < P := by
  simp only [Pt.valid, Pt.onCurveXY, Bool.and_eq_true, decide_eq_true_eq] at h
  exact ⟨h.1.1, h.1.2⟩

/-! ### The group of valid points -/

/-- Valid points (canonical affine points on the curve, and infinity). -/
abbrev VPt := {p : Pt // p.valid = true}

section Group
variable [hgl : HasGroupLaw]

theorem gl : GroupLaw := hgl.gl

instance : Zero VPt := ⟨⟨.inf, rfl⟩⟩
instance : Add VPt := ⟨fun p q => ⟨Pt.add p.1 q.1, gl.valid_add _ _ p.2 q.2⟩⟩
instance : Neg VPt := ⟨fun p => ⟨Pt.neg p.1, gl.valid_neg _ p.2⟩⟩

omit hgl in
@[simp] theorem VPt.zero_val : (0 : VPt).1 = .inf := rfl
@[simp] theorem VPt.add_val (p q : VPt) : (p + q).1 = Pt.add p.1 q.1 := rfl
@[simp] theorem VPt.neg_val (p : VPt) : (-p).1 = Pt.neg p.1 := rfl

instance instAddCommGroupVPt : AddCommGroup VPt where
  add_assoc a b c := Subtype.ext (gl.add_assoc _ _ _ a.2 b.2 c.2)
  zero_add a := Subtype.ext (add_inf_left _)
  add_zero a := Subtype.ext (add_inf_right _)
  add_comm a b := Subtype.ext (gl.add_comm _ _ a.2 b.2)
  neg_add_cancel a := Subtype.ext (by
    show Pt.add (Pt.neg a.1) a.1 = .inf
    rw [gl.add_comm _ _ (gl.valid_neg _ a.2) a.2]; exact gl.add_neg _ a.2)
  nsmul := nsmulRec
  zsmul := zsmulRec

/-- `Pt.mul` is `nsmul` in the group of valid points (for scalars within the fuel bound). -/
theorem mul_eq_nsmul {k : Nat} (hk : k < mulBound) (p : VPt) : Pt.mul k p.1 = (k • p).1 := by
  induction k with
  | zero => simp [gl.mul_zero]
  | succ k ih =>
    rw [gl.mul_succ k p.1 p.2 hk, ih (by omega), succ_nsmul]; rfl

theorem valid_mul {k : Nat} (hk : k < mulBound) {p : Pt} (hp : p.valid = true) :
    (Pt.mul k p).valid = true := by
  rw [mul_eq_nsmul hk ⟨p, hp⟩]; exact (k • (⟨p, hp⟩ : VPt)).2

/-- Subtype form of `mul_eq_nsmul`. -/
theorem mul_eq_nsmul' {k : Nat} (hk : k < mulBound) {p : Pt} (hp : p.valid = true) :
    (⟨Pt.mul k p, valid_mul hk hp⟩ : VPt) = k • (⟨p, hp⟩ : VPt) :=
  Subtype.ext (mul_eq_nsmul hk ⟨p, hp⟩)

/-- The generator as a valid point. -/
def GV : VPt := ⟨Pt.G, gl.valid_G⟩

@[simp] theorem GV_val : (GV).1 = Pt.G := rfl

theorem N_nsmul_GV : N • GV = 0 :=
  Subtype.ext (by rw [← mul_eq_nsmul N_lt_mulBound]; exact gl.mul_N_G)

theorem GV_ne_zero : GV ≠ 0 := fun h => G_ne_inf (congrArg Subtype.val h)

/-! ### The scalar field -/

instance instFactPrimeN : Fact (Nat.Prime N) := ⟨Nat.prime_def.mpr ⟨two_le_N, gl.prime_N⟩⟩

theorem prime_P : Nat.Prime P :=
  Nat.prime_def.mpr ⟨le_trans two_le_N (le_of_lt N_lt_P), gl.prime_P⟩

end Group

/-! ### `powMod` is modular exponentiation -/

theorem powModAux_modEq (fuel a e m acc : Nat) (he : e < 2 ^ fuel) :
    powModAux fuel a e m acc ≡ acc * a ^ e [MOD m] := by
  induction fuel generalizing a e acc with
  | zero =>
    have : e = 0 := by simpa using he
    subst this; simp [powModAux, Nat.ModEq]
  | succ fuel ih =>
    rw [powModAux]
    split
    · next h => subst h; simp [Nat.ModEq]
    · have he2 : e / 2 < 2 ^ fuel := by
        rw [Nat.div_lt_iff_lt_mul (by decide)]; rw [pow_succ] at he; exact he
      refine (ih _ _ _ he2).trans ?_
      have hsq : (a * a % m) ^ (e / 2) ≡ (a * a) ^ (e / 2) [MOD m] := (Nat.mod_modEq _ _).pow _
      have hsplit : a ^ e = (a * a) ^ (e / 2) * a ^ (e % 2) := by
        rw [← pow_two, ← pow_mul, ← pow_add, Nat.div_add_mod]
      rw [hsplit]
      split
      · next h1 =>
        rw [h1, pow_one]
        calc acc * a % m * (a * a % m) ^ (e / 2)
            ≡ acc * a * (a * a) ^ (e / 2) [MOD m] := (Nat.mod_modEq _ _).mul hsq
          _ = acc * ((a * a) ^ (e / 2) * a) := by ring
      · next h1 =>
        have h0 : e % 2 = 0 := by omega
        rw [h0, pow_zero, mul_one]
        exact (Nat.ModEq.refl acc).mul hsq

theorem powModAux_mod (fuel a e m acc : Nat) (hacc : acc % m = acc) :
    powModAux fuel a e m acc % m = powModAux fuel a e m acc := by
  induction fuel generalizing a e acc with
  | zero => simpa [powModAux] using hacc
  | succ fuel ih =>
    rw [powModAux]
    split
    · exact hacc
    · apply ih
      split
      · exact Nat.mod_mod _ _
      · exact hacc

/-- `powMod` computes `a ^ e % m` (for exponents within the fuel bound `2^520`). -/
theorem powMod_eq (a e m : Nat) (he : e < 2 ^ 520) : powMod a e m = a ^ e % m := by
  unfold powMod
  rw [← powModAux_mod _ _ _ _ _ (Nat.mod_mod 1 m)]
  have h := powModAux_modEq 520 (a % m) e m (1 % m) he
  refine h.trans ?_
  calc 1 % m * (a % m) ^ e ≡ 1 * a ^ e [MOD m] := (Nat.mod_modEq _ _).mul ((Nat.mod_modEq _ _).pow _)
    _ = a ^ e := one_mul _

/-! ### Scalar operations: bounds and casts into `ZMod N` -/

theorem Sc.add_lt (a b : Nat) : Sc.add a b < N := Nat.mod_lt _ N_pos
theorem Sc.mul_lt (a b : Nat) : Sc.mul a b < N := Nat.mod_lt _ N_pos
theorem Sc.neg_lt (a : Nat) : Sc.neg a < N := Nat.mod_lt _ N_pos
theorem Sc.sub_lt (a b : Nat) : Sc.sub a b < N := Nat.mod_lt _ N_pos

theorem lt_mulBound_of_lt_N {k : Nat} (h : k < N) : k < mulBound := lt_trans h N_lt_mulBound

@[simp] theorem cast_add (a b : Nat) : ((Sc.add a b : Nat) : ZMod N) = (a : ZMod N) + b := by
  simp [SecpZkp.Sc.add]

@[simp] theorem cast_mul (a b : Nat) : ((Sc.mul a b : Nat) : ZMod N) = (a : ZMod N) * b := by
  simp [SecpZkp.Sc.mul]

@[simp] theorem cast_neg (a : Nat) : ((Sc.neg a : Nat) : ZMod N) = -(a : ZMod N) := by
  have h : a % N ≤ N := le_of_lt (Nat.mod_lt _ N_pos)
  simp [SecpZkp.Sc.neg, Nat.cast_sub h]

@[simp] theorem cast_sub (a b : Nat) : ((Sc.sub a b : Nat) : ZMod N) = (a : ZMod N) - b := by
  have h : b % N ≤ N := le_of_lt (Nat.mod_lt _ N_pos)
  simp [SecpZkp.Sc.sub, Nat.cast_sub h, sub_eq_add_neg]

/-- Two scalars below `N` are equal iff their casts are. -/
theorem cast_inj {a b : Nat} (ha : a < N) (hb : b < N) : (a : ZMod N) = b ↔ a = b := by
  rw [ZMod.natCast_eq_natCast_iff', Nat.mod_eq_of_lt ha, Nat.mod_eq_of_lt hb]

theorem cast_eq_zero {a : Nat} (ha : a < N) : (a : ZMod N) = 0 ↔ a = 0 := by
  have := cast_inj ha N_pos
  simpa using this

theorem cast_eq_zero_iff_mod (a : Nat) : (a : ZMod N) = 0 ↔ a % N = 0 := by
  rw [ZMod.natCast_eq_zero_iff, Nat.dvd_iff_mod_eq_zero]

theorem N_sub_two_lt : N - 2 < 2 ^ 520 := by decide +kernel

section Field
variable [hgl : HasGroupLaw]

@[simp] theorem cast_inv (a : Nat) : ((Sc.inv a : Nat) : ZMod N) = (a : ZMod N)⁻¹ := by
  rw [SecpZkp.Sc.inv, powMod_eq _ _ _ N_sub_two_lt, ZMod.natCast_mod, Nat.cast_pow]
  by_cases h : (a : ZMod N) = 0
  · rw [h, inv_zero]
    exact zero_pow (by decide +kernel)
  · have h1 : (a : ZMod N) ^ (N - 1) = 1 := ZMod.pow_card_sub_one_eq_one h
    have h2 : N - 1 = (N - 2) + 1 := by have := two_le_N; omega
    rw [h2, pow_succ] at h1
    exact eq_inv_of_mul_eq_one_left h1

omit hgl in
theorem Sc.inv_lt (a : Nat) : Sc.inv a < N := by
  rw [SecpZkp.Sc.inv, powMod_eq _ _ _ N_sub_two_lt]; exact Nat.mod_lt _ N_pos

/-- `Sc.inv` is the modular inverse (Fermat). -/
theorem Sc.mul_inv_cancel {a : Nat} (h : a % N ≠ 0) : Sc.mul a (Sc.inv a) = 1 := by
  have ha : (a : ZMod N) ≠ 0 := fun h0 => h ((cast_eq_zero_iff_mod a).mp h0)
  have h1 : (1 : Nat) < N := two_le_N
  rw [← cast_inj (Sc.mul_lt _ _) h1, cast_mul, cast_inv, Nat.cast_one, mul_inv_cancel₀ ha]

theorem Sc.inv_mul_cancel {a : Nat} (h : a % N ≠ 0) : Sc.mul (Sc.inv a) a = 1 := by
  rw [← Sc.mul_inv_cancel h]; simp [SecpZkp.Sc.mul, Nat.mul_comm]

end Field

/-! ### Multiplication by scalars mod `N` on points of order dividing `N` -/

section Hom
variable [hgl : HasGroupLaw]

/-- For a valid point `Q` with `N • Q = 0`: the additive hom `a ↦ a.val • Q` from `ZMod N`. -/
def smulHom (Q : VPt) (hQ : N • Q = 0) : ZMod N →+ VPt :=
  ZMod.lift N ⟨zmultiplesHom VPt Q, by simp [hQ]⟩

theorem smulHom_natCast (Q : VPt) (hQ : N • Q = 0) (k : Nat) : smulHom Q hQ (k : ZMod N) = k • Q := by
  have : ((k : ℤ) : ZMod N) = (k : ZMod N) := Int.cast_natCast k
  rw [← this, smulHom, ZMod.lift_coe]
  simp

theorem smulHom_apply (Q : VPt) (hQ : N • Q = 0) (a : ZMod N) : smulHom Q hQ a = a.val • Q := by
  conv_lhs => rw [← ZMod.natCast_zmod_val a]
  exact smulHom_natCast Q hQ a.val

theorem nsmul_mod_N (Q : VPt) (hQ : N • Q = 0) (k : Nat) : (k % N) • Q = k • Q := by
  rw [← smulHom_natCast Q hQ, ← smulHom_natCast Q hQ, ZMod.natCast_mod]

theorem smulHom_injective (Q : VPt) (hQ : N • Q = 0) (hne : Q ≠ 0) :
    Function.Injective (smulHom Q hQ) := by
  have hord : addOrderOf Q = N := addOrderOf_eq_prime hQ hne
  rw [injective_iff_map_eq_zero]
  intro a ha
  rw [smulHom_apply] at ha
  have hdvd : N ∣ a.val := by
    have := addOrderOf_dvd_of_nsmul_eq_zero ha
    rwa [hord] at this
  have hlt : a.val < N := ZMod.val_lt a
  have : a.val = 0 := Nat.eq_zero_of_dvd_of_lt hdvd hlt
  exact (ZMod.val_eq_zero a).mp this

/-- `a ↦ a • G` as an additive group hom `ZMod N →+ VPt`. -/
def gmulV : ZMod N →+ VPt := smulHom GV N_nsmul_GV

/-- `a ↦ a • G` as a map to points. -/
def gmul (a : ZMod N) : Pt := (gmulV a).1

theorem gmulV_injective : Function.Injective gmulV := smulHom_injective _ _ GV_ne_zero

theorem valid_gmul (a : ZMod N) : (gmul a).valid = true := (gmulV a).2

theorem gmul_injective : Function.Injective gmul := fun _ _ h => gmulV_injective (Subtype.ext h)

theorem gmul_congr {a b : ZMod N} (h : a = b) : gmul a = gmul b := congrArg gmul h

@[simp] theorem gmul_zero : gmul 0 = .inf := by simp [gmul]

theorem gmul_eq_inf_iff (a : ZMod N) : gmul a = .inf ↔ a = 0 := by
  rw [← gmul_zero]; exact gmul_injective.eq_iff

/-- Every `Pt.mulG k` (scalar within the fuel bound) is `gmul k`. -/
theorem mulG_eq_gmul {k : Nat} (hk : k < mulBound) : Pt.mulG k = gmul (k : ZMod N) := by
  show Pt.mul k (GV).1 = _
  rw [mul_eq_nsmul hk, gmul, gmulV, smulHom_natCast]

theorem mul_G_eq_gmul {k : Nat} (hk : k < mulBound) : Pt.mul k Pt.G = gmul (k : ZMod N) :=
  mulG_eq_gmul hk

theorem G_eq_gmul : Pt.G = gmul 1 := by
  have := mulG_eq_gmul (k := 1) (by decide +kernel)
  rw [← Nat.cast_one, ← this]
  show Pt.G = Pt.mul 1 (GV).1
  rw [mul_eq_nsmul (by decide +kernel), one_nsmul]; rfl

theorem add_gmul (a b : ZMod N) : Pt.add (gmul a) (gmul b) = gmul (a + b) := by
  simp [gmul, map_add]

theorem neg_gmul (a : ZMod N) : Pt.neg (gmul a) = gmul (-a) := by
  simp [gmul, map_neg]

theorem mul_gmul {k : Nat} (hk : k < mulBound) (a : ZMod N) :
    Pt.mul k (gmul a) = gmul ((k : ZMod N) * a) := by
  show Pt.mul k (gmulV a).1 = _
  rw [mul_eq_nsmul hk, gmul, ← map_nsmul, nsmul_eq_mul]

/-! ### Named consequences at the level of `Pt` -/

theorem mulG_valid {k : Nat} (hk : k < mulBound) : (Pt.mulG k).valid = true :=
  valid_mul hk gl.valid_G

/-- Reducing the scalar mod `N` does not change `k • Q` when `N • Q = ∞`. -/
theorem mul_mod_N {Q : Pt} (hQ : Q.valid = true) (hN : Pt.mul N Q = .inf) {k : Nat} (hk : k < mulBound) :
    Pt.mul (k % N) Q = Pt.mul k Q := by
  have hQ0 : N • (⟨Q, hQ⟩ : VPt) = 0 := Subtype.ext (by rw [← mul_eq_nsmul N_lt_mulBound]; exact hN)
  have hk' : k % N < mulBound := lt_of_le_of_lt (Nat.mod_le _ _) hk
  rw [mul_eq_nsmul hk' ⟨Q, hQ⟩, mul_eq_nsmul hk ⟨Q, hQ⟩, nsmul_mod_N _ hQ0]

theorem mul_mod_N_G {k : Nat} (hk : k < mulBound) : Pt.mul (k % N) Pt.G = Pt.mul k Pt.G :=
  mul_mod_N gl.valid_G gl.mul_N_G hk

theorem mul_add {Q : Pt} (hQ : Q.valid = true) {a b : Nat} (h : a + b < mulBound) :
    Pt.mul (a + b) Q = Pt.add (Pt.mul a Q) (Pt.mul b Q) := by
  rw [mul_eq_nsmul h ⟨Q, hQ⟩, mul_eq_nsmul (k := a) (by omega) ⟨Q, hQ⟩,
    mul_eq_nsmul (k := b) (by omega) ⟨Q, hQ⟩, add_nsmul]; rfl

/-- `(a + b mod N) • Q = a • Q + b • Q` for points of order dividing `N`. -/
theorem mul_scAdd {Q : Pt} (hQ : Q.valid = true) (hN : Pt.mul N Q = .inf) {a b : Nat}
    (h : a + b < mulBound) : Pt.mul (Sc.add a b) Q = Pt.add (Pt.mul a Q) (Pt.mul b Q) := by
  rw [SecpZkp.Sc.add, mul_mod_N hQ hN h, mul_add hQ h]

theorem mul_neg {Q : Pt} (hQ : Q.valid = true) {k : Nat} (hk : k < mulBound) :
    Pt.mul k (Pt.neg Q) = Pt.neg (Pt.mul k Q) := by
  have : (⟨Pt.neg Q, gl.valid_neg _ hQ⟩ : VPt) = -⟨Q, hQ⟩ := rfl
  rw [mul_eq_nsmul hk ⟨Pt.neg Q, gl.valid_neg _ hQ⟩, this, mul_eq_nsmul hk ⟨Q, hQ⟩, neg_nsmul]; rfl

/-- `(-k mod N) • Q = -(k • Q)` for points of order dividing `N`. -/
theorem mul_scNeg {Q : Pt} (hQ : Q.valid = true) (hN : Pt.mul N Q = .inf) {k : Nat} (hk : k < mulBound) :
    Pt.mul (Sc.neg k) Q = Pt.neg (Pt.mul k Q) := by
  have hQ0 : N • (⟨Q, hQ⟩ : VPt) = 0 := Subtype.ext (by rw [← mul_eq_nsmul N_lt_mulBound]; exact hN)
  have e1 : (Sc.neg k) • (⟨Q, hQ⟩ : VPt) = -(k • (⟨Q, hQ⟩ : VPt)) := by
    rw [← smulHom_natCast _ hQ0, ← smulHom_natCast _ hQ0, cast_neg, map_neg]
  rw [mul_eq_nsmul (lt_mulBound_of_lt_N (Sc.neg_lt k)) ⟨Q, hQ⟩, e1, mul_eq_nsmul hk ⟨Q, hQ⟩]; rfl

/-- `a • (b • Q) = (a b mod N) • Q` for points of order dividing `N` (in particular for `Q = d • G`). -/
theorem mul_mul {Q : Pt} (hQ : Q.valid = true) (hN : Pt.mul N Q = .inf) {a b : Nat}
    (ha : a < mulBound) (hb : b < mulBound) : Pt.mul a (Pt.mul b Q) = Pt.mul (a * b % N) Q := by
  have hQ0 : N • (⟨Q, hQ⟩ : VPt) = 0 := Subtype.ext (by rw [← mul_eq_nsmul N_lt_mulBound]; exact hN)
  have hab : a * b % N < mulBound := lt_mulBound_of_lt_N (Nat.mod_lt _ N_pos)
  rw [mul_eq_nsmul hab ⟨Q, hQ⟩, nsmul_mod_N _ hQ0, mul_nsmul']
  rw [mul_eq_nsmul ha ⟨Pt.mul b Q, valid_mul hb hQ⟩, mul_eq_nsmul' hb hQ]

/-- Points of the form `d • G` have order dividing `N`. -/
theorem mul_N_mulG {d : Nat} (hd : d < mulBound) : Pt.mul N (Pt.mulG d) = .inf := by
  rw [mulG_eq_gmul hd, mul_gmul N_lt_mulBound]; simp

theorem mulG_ne_inf {k : Nat} (h0 : 0 < k) (hk : k < N) : Pt.mulG k ≠ .inf := by
  rw [mulG_eq_gmul (lt_mulBound_of_lt_N hk), Ne, gmul_eq_inf_iff, cast_eq_zero hk]; omega

theorem mulG_eq_aff {k : Nat} (h0 : 0 < k) (hk : k < N) : ∃ x y, Pt.mulG k = .aff x y := by
  cases h : Pt.mulG k with
  | inf => exact absurd h (mulG_ne_inf h0 hk)
  | aff x y => exact ⟨x, y, rfl⟩

end Hom

end Algebra
end SecpZkp
