import SecpZkp.Proofs.BpppRound
import SecpZkp.Proofs.BpppCodec
import SecpZkp.Proofs.BytesBasic
/-
  Completeness of the Bulletproofs++ norm argument: the prover loop (`proveLoop_spec`), the verifier's
  `s_g` / `s_h` vectors in closed form, the point-pair codec round trip, and `prove`/`verify`.
-/
namespace SecpZkp
namespace Bppp
open _root_.SecpZkp.Algebra Finset

section Loop
variable [hgl : HasGroupLaw]

/-- the 65 bytes a round appends to the proof -/
def serXR (xr : TPt × TPt) : Bytes := serializePoints (ofT xr.1) (ofT xr.2)

/-- the challenges of a sequence of rounds starting from transcript `t` -/
def gammasOf (t : Sha256.State) : List (TPt × TPt) → List Nat
  | [] => []
  | xr :: rest => gammaOf t xr.1 xr.2 :: gammasOf (Sha256.write t (serXR xr)) rest

/-- the transcript after a sequence of rounds -/
def tsAfter (t : Sha256.State) : List (TPt × TPt) → Sha256.State
  | [] => t
  | xr :: rest => tsAfter (Sha256.write t (serXR xr)) rest

/-- the proof bytes of a sequence of rounds -/
def proofOf : List (TPt × TPt) → Bytes
  | [] => []
  | xr :: rest => serXR xr ++ proofOf rest

/-- `Σ_k γ_k X_k + (γ_k² - 1) R_k` -/
def xrSum (gs : List Nat) (rs : List (TPt × TPt)) : TPt :=
  ∑ k ∈ range rs.length, (((gs.getD k 0 : Nat) : ZMod N) • (rs.getD k (0, 0)).1 +
    (((gs.getD k 0 : Nat) : ZMod N) ^ 2 - 1) • (rs.getD k (0, 0)).2)

omit hgl in
/-- weight pairs of the `G` generators: `(ρ^(2^k), γ_k)` -/
def chGl : ZMod N → List Nat → List (ZMod N × ZMod N)
  | _, [] => []
  | rho, γ :: rest => (rho, (γ : ZMod N)) :: chGl (rho ^ 2) rest

omit hgl in
/-- weight pairs of the `H` generators: `(1, γ_k)` -/
def chHl (gs : List Nat) : List (ZMod N × ZMod N) := gs.map fun (γ : Nat) => ((1 : ZMod N), (γ : ZMod N))

theorem chHl_cons (γ : Nat) (gs : List Nat) : chHl (γ :: gs) = ((1 : ZMod N), (γ : ZMod N)) :: chHl gs := rfl

theorem xrSum_cons (γ : Nat) (gs : List Nat) (xr : TPt × TPt) (rs : List (TPt × TPt)) :
    xrSum (γ :: gs) (xr :: rs) = (γ : ZMod N) • xr.1 + ((γ : ZMod N) ^ 2 - 1) • xr.2 + xrSum gs rs := by
  unfold xrSum
  rw [List.length_cons, sum_range_succ']
  simp only [List.getD_cons_succ, List.getD_cons_zero]
  rw [add_comm]

/-- **The prover loop.** From a well-formed state with effective lengths `2^a`, `2^b`, the loop runs
`r = max a b` rounds and ends in a state with single-entry vectors; the commitment described by the final
state is the initial one plus `Σ γ_k X_k + (γ_k² - 1) R_k`; the final generators (and `c`) are the weighted
sums of the initial ones. -/
theorem proveLoop_spec (G r : Nat) : ∀ (st : ProveState) (a b fuel : Nat), WF G st a b →
    a ≤ r → b ≤ r → (a = r ∨ b = r) → r ≤ fuel →
    ∃ (rs : List (TPt × TPt)) (stf : ProveState), proveLoop G fuel st = some stf ∧ rs.length = r ∧
      stf.proof = st.proof ++ proofOf rs ∧ stf.transcript = tsAfter st.transcript rs ∧
      WF G stf 0 0 ∧
      (∀ mu : ZMod N, (0 < a → mu = (st.muF : ZMod N)) →
        comT G stf (mu ^ 2 ^ a) = comT G st mu + xrSum (gammasOf st.transcript rs) rs) ∧
      pv stf.g 0 = ∑ i ∈ range (2 ^ a),
        wt (chGl (st.rhoF : ZMod N) ((gammasOf st.transcript rs).take a)) i • pv st.g i ∧
      pv stf.g G = ∑ i ∈ range (2 ^ b),
        wt (chHl ((gammasOf st.transcript rs).take b)) i • pv st.g (G + i) ∧
      sv stf.c 0 = ∑ i ∈ range (2 ^ b), wt (chHl ((gammasOf st.transcript rs).take b)) i * sv st.c i := by
  induction r with
  | zero =>
    intro st a b fuel hwf ha hb _ _
    have ha : a = 0 := by omega
    have hb : b = 0 := by omega
    subst ha hb
    refine ⟨[], st, ?_, rfl, by simp [proofOf], rfl, hwf, ?_, ?_, ?_, ?_⟩
    · cases fuel with
      | zero => rfl
      | succ f =>
        unfold proveLoop
        rw [if_neg]
        have h1 := eL_cases hwf.glen
        have h2 := eL_cases hwf.hlen
        omega
    · intro mu _; simp [xrSum]
    · simp [gammasOf, chGl, wt]
    · simp [gammasOf, chHl, wt]
    · simp [gammasOf, chHl, wt]
  | succ r ih =>
    intro st a b fuel hwf ha hb hab hfuel
    obtain ⟨X, R, st', hpr, htr, hpf, hrho, hwf', hcom, hGa0, hGa1, hHb0, hHb1⟩ := proveRound_spec G st a b hwf
    cases fuel with
    | zero => omega
    | succ f =>
    obtain ⟨rs', stf, hloop, hlen, hpf', htr', hwff, hcom', hG', hH', hc'⟩ :=
      ih st' (a - 1) (b - 1) f hwf' (by omega) (by omega) (by omega) (by omega)
    have hgam : gammasOf st.transcript ((X, R) :: rs') =
        gammaOf st.transcript X R :: gammasOf st'.transcript rs' := by
      rw [htr]; rfl
    refine ⟨(X, R) :: rs', stf, ?_, by simp [hlen], ?_, ?_, hwff, ?_, ?_, ?_, ?_⟩
    · unfold proveLoop
      rw [if_pos, hpr]
      · exact hloop
      · have h1 := eL_cases hwf.glen
        have h2 := eL_cases hwf.hlen
        omega
    · rw [hpf', hpf, List.append_assoc]; rfl
    · rw [htr', htr]; rfl
    · intro mu hmu
      rw [hgam, xrSum_cons]
      dsimp only
      rw [← add_assoc, ← add_assoc, ← hcom mu hmu, ← hcom' _ ?_]
      · congr 1
        by_cases h0 : 0 < a
        · rw [if_pos h0, ← pow_mul]
          congr 1
          obtain ⟨a', rfl⟩ : ∃ a', a = a' + 1 := ⟨a - 1, by omega⟩
          rw [Nat.add_sub_cancel, pow_succ]; ring
        · rw [if_neg h0]
          have : a = 0 := by omega
          subst this; rfl
      · intro h1
        rw [if_pos (by omega), hmu (by omega), hwf'.mu_eq, hrho]
    · rw [hgam]
      by_cases h0 : 0 < a
      · obtain ⟨a', rfl⟩ : ∃ a', a = a' + 1 := ⟨a - 1, by omega⟩
        simp only [Nat.add_sub_cancel] at hG' hGa1
        rw [List.take_succ_cons, chGl, pow_succ, mul_comm, wt_sum_split, hG']
        apply sum_congr rfl
        intro j hj
        rw [hGa1 h0 j (by simpa using hj), hrho, hwf.mu_eq]
      · have : a = 0 := by omega
        subst this
        simp [chGl, wt] at hG' ⊢
        rw [hG', hGa0 rfl]
    · rw [hgam]
      by_cases h0 : 0 < b
      · obtain ⟨b', rfl⟩ : ∃ b', b = b' + 1 := ⟨b - 1, by omega⟩
        simp only [Nat.add_sub_cancel] at hH' hHb1
        rw [List.take_succ_cons, chHl_cons, pow_succ, mul_comm, wt_sum_split, hH']
        apply sum_congr rfl
        intro j hj
        rw [(hHb1 h0 j (by simpa using hj)).1, one_smul, add_comm]
      · have : b = 0 := by omega
        subst this
        simp [chHl, wt] at hH' ⊢
        rw [hH', (hHb0 rfl).1]
    · rw [hgam]
      by_cases h0 : 0 < b
      · obtain ⟨b', rfl⟩ : ∃ b', b = b' + 1 := ⟨b - 1, by omega⟩
        simp only [Nat.add_sub_cancel] at hc' hHb1
        rw [List.take_succ_cons, chHl_cons, pow_succ, mul_comm]
        have := wt_sum_split (M := ZMod N) ((1 : ZMod N), ((gammaOf st.transcript X R : Nat) : ZMod N))
          (chHl ((gammasOf st'.transcript rs').take b')) (sv st.c) (2 ^ b')
        simp only [smul_eq_mul] at this
        rw [this, hc']
        apply sum_congr rfl
        intro j hj
        rw [(hHb1 h0 j (by simpa using hj)).2]
        ring
      · have : b = 0 := by omega
        subst this
        simp [chHl, wt] at hc' ⊢
        rw [hc', (hHb0 rfl).2]

end Loop
section Verifier
variable [hgl : HasGroupLaw]

theorem cast_sqr_sub_one (g : Nat) :
    ((Sc.add (scSqr g) (Sc.neg 1) : Nat) : ZMod N) = (g : ZMod N) ^ 2 - 1 := by
  rw [cast_add, cast_neg]
  unfold scSqr
  rw [cast_mul, Nat.cast_one]
  ring

theorem length_serXR (xr : TPt × TPt) : (serXR xr).length = 65 := length_serializePoints _ _

theorem length_proofOf (rs : List (TPt × TPt)) : (proofOf rs).length = 65 * rs.length := by
  induction rs with
  | nil => rfl
  | cons xr rest ih => simp [proofOf, length_serXR, ih]; ring

/-- the `k`-th 65-byte chunk of a proof is the serialization of the `k`-th round -/
theorem chunk_proofOf (rs : List (TPt × TPt)) (pre post : Bytes) (i0 : Nat) (hpre : pre.length = 65 * i0)
    (k : Nat) (hk : k < rs.length) :
    ((pre ++ proofOf rs ++ post).drop (65 * (i0 + k))).take 65 = serXR (rs.getD k (0, 0)) := by
  induction rs generalizing pre i0 k with
  | nil => simp at hk
  | cons xr rest ih =>
    cases k with
    | zero =>
      rw [Nat.add_zero, ← hpre, proofOf, List.append_assoc, List.drop_left', List.append_assoc,
        List.take_append_of_le_length (by rw [length_serXR]), List.take_of_length_le (by rw [length_serXR])]
      · rfl
      · rfl
    | succ k' =>
      have := ih (pre ++ serXR xr) (i0 + 1) (by rw [List.length_append, length_serXR, hpre]; ring) k'
        (by simpa using hk)
      rw [List.getD_cons_succ, ← this, proofOf, show i0 + (k' + 1) = i0 + 1 + k' by omega]
      simp only [List.append_assoc]

/-- the verifier's challenge loop recomputes the prover's challenges -/
theorem gammasLoop_proofOf (rs : List (TPt × TPt)) (pre post : Bytes) (i0 : Nat) (hpre : pre.length = 65 * i0)
    (t : Sha256.State) (acc : List Nat) :
    gammasLoop (pre ++ proofOf rs ++ post) rs.length i0 t acc = (acc ++ gammasOf t rs, tsAfter t rs) := by
  induction rs generalizing pre i0 t acc with
  | nil => simp [gammasLoop, gammasOf, tsAfter]
  | cons xr rest ih =>
    have hchunk := chunk_proofOf (xr :: rest) pre post i0 hpre 0 (by simp)
    rw [Nat.add_zero, List.getD_cons_zero] at hchunk
    rw [List.length_cons, gammasLoop, Nat.mul_comm, hchunk]
    have := ih (pre ++ serXR xr) (i0 + 1) (by rw [List.length_append, length_serXR, hpre]; ring)
      (Sha256.write t (serXR xr)) (acc ++ [challengeScalar (Sha256.write t (serXR xr)) 0])
    rw [proofOf, ← List.append_assoc pre, this]
    simp [gammasOf, tsAfter, gammaOf, serXR]

theorem gammasOf_length (t : Sha256.State) (rs : List (TPt × TPt)) : (gammasOf t rs).length = rs.length := by
  induction rs generalizing t with
  | nil => rfl
  | cons xr rest ih => simp [gammasOf, ih]

theorem gammasOf_lt (t : Sha256.State) (rs : List (TPt × TPt)) (k : Nat) : (gammasOf t rs).getD k 0 < N := by
  induction rs generalizing t k with
  | nil => simp [gammasOf]; exact N_pos
  | cons xr rest ih =>
    cases k with
    | zero => simp only [gammasOf, List.getD_cons_zero]; exact challengeScalar_lt _ _
    | succ k' => simp only [gammasOf, List.getD_cons_succ]; exact ih _ _

/-- the first multi-exponentiation of the verifier: `commit + Σ γ_k X_k + (γ_k² - 1) R_k` -/
theorem res1_eq (rs : List (TPt × TPt)) (post : Bytes) (C : TPt) (gs : List Nat)
    (hgs : ∀ k, gs.getD k 0 < N) :
    ecmultMulti none (verifyCb1 (proofOf rs ++ post) (ofT C) gs) (2 * rs.length + 1) =
      some (ofT (C + xrSum gs rs)) := by
  rw [ecmultMulti_T none _ (2 * rs.length + 1)
    (fun idx => if idx = 0 then 1 else if (idx - 1) % 2 = 0 then gs.getD ((idx - 1) / 2) 0
      else Sc.add (scSqr (gs.getD ((idx - 1) / 2) 0)) (Sc.neg 1))
    (fun idx => if idx = 0 then C else if (idx - 1) % 2 = 0 then (rs.getD ((idx - 1) / 2) (0, 0)).1
      else (rs.getD ((idx - 1) / 2) (0, 0)).2)]
  · congr 2
    rw [sum_range_succ', sum_range_even_odd]
    simp only [initT, zero_add, if_true, Nat.cast_one, one_smul]
    rw [add_comm]
    congr 1
    unfold xrSum
    rw [← sum_add_distrib]
    apply sum_congr rfl
    intro k _
    have e1 : ¬ (2 * k + 1 = 0) := by omega
    have e2 : (2 * k + 1 - 1) % 2 = 0 := by omega
    have e3 : ¬ (2 * k + 1 + 1 = 0) := by omega
    have e4 : ¬ ((2 * k + 1 + 1 - 1) % 2 = 0) := by omega
    have e5 : (2 * k + 1 - 1) / 2 = k := by omega
    have e6 : (2 * k + 1 + 1 - 1) / 2 = k := by omega
    simp only [if_neg e1, if_pos e2, if_neg e3, if_neg e4, e5, e6]
    rw [cast_sqr_sub_one]
  · intro idx hidx
    have : Fact (Nat.Prime P) := ⟨prime_P⟩
    unfold verifyCb1
    by_cases h0 : idx = 0
    · simp [h0]
    · rw [if_neg h0]
      simp only [if_neg h0]
      have hk : (idx - 1) / 2 < rs.length := by omega
      have hchunk := chunk_proofOf rs [] post 0 rfl ((idx - 1) / 2) hk
      simp only [List.nil_append, Nat.zero_add] at hchunk
      have hrt := parse_serializePoints (ofT (rs.getD ((idx - 1) / 2) (0, 0)).1)
        (ofT (rs.getD ((idx - 1) / 2) (0, 0)).2) (good_ofT _).1 (good_ofT _).1
      by_cases he : (idx - 1) % 2 = 0
      · simp only [if_pos he, hchunk, serXR, hrt.1]
      · simp only [if_neg he, hchunk, serXR, hrt.2]
  · intro idx _
    split
    · exact lt_mulBound_of_lt_N (by decide +kernel)
    · split
      · exact lt_mulBound_of_lt_N (hgs _)
      · exact lt_mulBound_of_lt_N (Sc.add_lt _ _)
  · intro s hs; cases hs

end Verifier
section SVec
variable [hgl : HasGroupLaw]

/-- verifier-side weight pairs of `s_g`: `(1, γ_k ρ^(-2^k))` -/
def chVl : ZMod N → List Nat → List (ZMod N × ZMod N)
  | _, [] => []
  | ri, γ :: rest => ((1 : ZMod N), (γ : ZMod N) * ri) :: chVl (ri ^ 2) rest

theorem chVl_length (ri : ZMod N) (gs : List Nat) : (chVl ri gs).length = gs.length := by
  induction gs generalizing ri with
  | nil => rfl
  | cons g rest ih => simp [chVl, ih]

theorem chVl_fst (ri : ZMod N) (gs : List Nat) : ∀ c ∈ chVl ri gs, c.1 = 1 := by
  induction gs generalizing ri with
  | nil => simp [chVl]
  | cons g rest ih =>
    intro c hc
    simp only [chVl, List.mem_cons] at hc
    rcases hc with rfl | hc
    · rfl
    · exact ih _ c hc

theorem chVl_getD (ri : ZMod N) (gs : List Nat) (k : Nat) (hk : k < gs.length) :
    ((chVl ri gs).getD k (1, 1)).2 = ((gs.getD k 0 : Nat) : ZMod N) * ri ^ 2 ^ k := by
  induction gs generalizing ri k with
  | nil => simp at hk
  | cons g rest ih =>
    cases k with
    | zero => simp [chVl]
    | succ k' =>
      simp only [chVl, List.getD_cons_succ]
      rw [ih _ k' (by simpa using hk), ← pow_mul, pow_succ 2 k', mul_comm (2 ^ k') 2]

theorem chHl_length (gs : List Nat) : (chHl gs).length = gs.length := by simp [chHl]

theorem chHl_fst (gs : List Nat) : ∀ c ∈ chHl gs, c.1 = 1 := by
  intro c hc
  simp only [chHl, List.mem_map] at hc
  obtain ⟨g, _, rfl⟩ := hc
  rfl

theorem chHl_getD (gs : List Nat) (k : Nat) (hk : k < gs.length) :
    ((chHl gs).getD k (1, 1)).2 = ((gs.getD k 0 : Nat) : ZMod N) := by
  induction gs generalizing k with
  | nil => simp at hk
  | cons g rest ih =>
    cases k with
    | zero => rfl
    | succ k' =>
      rw [chHl_cons, List.getD_cons_succ, List.getD_cons_succ]
      exact ih k' (by simpa using hk)

theorem cast_powersOfRho (x n k : Nat) (hk : k < n) :
    (((powersOfRho x n).getD k 0 : Nat) : ZMod N) = (x : ZMod N) ^ 2 ^ k := by
  induction n generalizing x k with
  | zero => omega
  | succ m ih =>
    cases k with
    | zero => simp [powersOfRho]
    | succ k' =>
      simp only [powersOfRho, List.getD_cons_succ]
      rw [ih _ k' (by omega), scSqr, cast_mul, ← sq, ← pow_mul, pow_succ 2 k', mul_comm (2 ^ k') 2]

theorem cast_sqrTimes (x k : Nat) : ((sqrTimes x k : Nat) : ZMod N) = (x : ZMod N) ^ 2 ^ k := by
  induction k generalizing x with
  | zero => simp [sqrTimes]
  | succ k' ih =>
    rw [sqrTimes, ih, scSqr, cast_mul, ← sq, ← pow_mul, pow_succ 2 k', mul_comm (2 ^ k') 2]

/-- `Π_{k<n} ρ^(2^k)` -/
def prodRho : ZMod N → Nat → ZMod N
  | _, 0 => 1
  | rho, n + 1 => rho * prodRho (rho ^ 2) n

theorem prodRho_mul (rho : ZMod N) (n : Nat) : prodRho rho n * rho = rho ^ 2 ^ n := by
  induction n generalizing rho with
  | zero => simp [prodRho]
  | succ m ih =>
    rw [prodRho, mul_assoc, mul_comm (prodRho _ _), ← mul_assoc, ← sq, mul_comm, ih, ← pow_mul,
      pow_succ 2 m, mul_comm (2 ^ m) 2]

/-- prover-side weights are the verifier-side weights times `Π ρ^(2^k)` -/
theorem wt_scale (rho : ZMod N) (hrho : rho ≠ 0) (gs : List Nat) (i : Nat) :
    wt (chGl rho gs) i = prodRho rho gs.length * wt (chVl rho⁻¹ gs) i := by
  induction gs generalizing rho i with
  | nil => simp [chGl, chVl, wt, prodRho]
  | cons g rest ih =>
    simp only [chGl, chVl, wt, List.length_cons, prodRho]
    rw [ih (rho ^ 2) (pow_ne_zero 2 hrho) (i / 2), inv_pow]
    split
    · field_simp
    · ring

omit hgl in
theorem getD_concat (l : List Nat) (x d j : Nat) :
    (l ++ [x]).getD j d = if j < l.length then l.getD j d else if j = l.length then x else d := by
  simp only [List.getD_eq_getElem?_getD, List.getElem?_append]
  split
  · rfl
  · split
    · rename_i h1 h2; subst h2; simp
    · rename_i h1 h2
      have : j - l.length ≠ 0 := by omega
      cases hh : j - l.length with
      | zero => omega
      | succ m => simp

/-- closed form of the verifier's `s_g` loop -/
theorem sGLoop_spec (gammas rip : List Nat) (ch : List (ZMod N × ZMod N)) (s0 : ZMod N)
    (hone : ∀ c ∈ ch, c.1 = 1)
    (hch : ∀ k, k < ch.length → (ch.getD k (1, 1)).2 =
      ((gammas.getD k 0 : Nat) : ZMod N) * ((rip.getD k 0 : Nat) : ZMod N))
    (cnt i : Nat) (sG : List Nat) (hlen : sG.length = i) (hi : 1 ≤ i) (hbound : i + cnt ≤ 2 ^ ch.length)
    (hinv : ∀ j, j < i → ((sG.getD j 0 : Nat) : ZMod N) = s0 * wt ch j) (hlt : ∀ j, sG.getD j 0 < N) :
    (sGLoop gammas rip cnt i sG).length = i + cnt ∧
    (∀ j, j < i + cnt → (((sGLoop gammas rip cnt i sG).getD j 0 : Nat) : ZMod N) = s0 * wt ch j) ∧
    ∀ j, (sGLoop gammas rip cnt i sG).getD j 0 < N := by
  induction cnt generalizing i sG with
  | zero => exact ⟨hlen, hinv, hlt⟩
  | succ c ih =>
    unfold sGLoop
    simp only []
    have hi0 : i ≠ 0 := by omega
    have hlog : log2 i < ch.length := (Nat.log2_lt hi0).2 (by omega)
    have hlo : 2 ^ log2 i ≤ i := Nat.log2_self_le hi0
    have hhi : i < 2 ^ (log2 i + 1) := Nat.lt_log2_self
    have hpos : 0 < 2 ^ log2 i := Nat.two_pow_pos _
    obtain ⟨h1, h2, h3⟩ := ih (i + 1)
      (sG ++ [Sc.mul (Sc.mul (sG.getD (i - 2 ^ log2 i) 0) (gammas.getD (log2 i) 0)) (rip.getD (log2 i) 0)])
      (by simp [hlen]) (by omega) (by omega)
      (fun j hj => by
        by_cases hji : j < i
        · rw [getD_concat, if_pos (by omega)]; exact hinv j hji
        · have : j = i := by omega
          subst this
          rw [getD_concat, if_neg (by omega), if_pos (by omega),
            cast_mul, cast_mul, hinv _ (by omega), wt_top_bit ch hone (log2 j) j hlog hlo hhi, hch _ hlog]
          ring)
      (fun j => by
        rw [getD_concat]
        split
        · exact hlt j
        · split
          · exact Sc.mul_lt _ _
          · exact N_pos)
    exact ⟨by rw [h1]; omega, fun j hj => h2 j (by omega), h3⟩

/-- closed form of the verifier's `s_h` loop -/
theorem sHLoop_spec (gammas : List Nat) (ch : List (ZMod N × ZMod N)) (s0 : ZMod N)
    (hone : ∀ c ∈ ch, c.1 = 1)
    (hch : ∀ k, k < ch.length → (ch.getD k (1, 1)).2 = ((gammas.getD k 0 : Nat) : ZMod N))
    (cnt i : Nat) (sH : List Nat) (hlen : sH.length = i) (hi : 1 ≤ i) (hbound : i + cnt ≤ 2 ^ ch.length)
    (hinv : ∀ j, j < i → ((sH.getD j 0 : Nat) : ZMod N) = s0 * wt ch j) (hlt : ∀ j, sH.getD j 0 < N) :
    (sHLoop gammas cnt i sH).length = i + cnt ∧
    (∀ j, j < i + cnt → (((sHLoop gammas cnt i sH).getD j 0 : Nat) : ZMod N) = s0 * wt ch j) ∧
    ∀ j, (sHLoop gammas cnt i sH).getD j 0 < N := by
  induction cnt generalizing i sH with
  | zero => exact ⟨hlen, hinv, hlt⟩
  | succ c ih =>
    unfold sHLoop
    simp only []
    have hi0 : i ≠ 0 := by omega
    have hlog : log2 i < ch.length := (Nat.log2_lt hi0).2 (by omega)
    have hlo : 2 ^ log2 i ≤ i := Nat.log2_self_le hi0
    have hhi : i < 2 ^ (log2 i + 1) := Nat.lt_log2_self
    have hpos : 0 < 2 ^ log2 i := Nat.two_pow_pos _
    obtain ⟨h1, h2, h3⟩ := ih (i + 1)
      (sH ++ [Sc.mul (sH.getD (i - 2 ^ log2 i) 0) (gammas.getD (log2 i) 0)])
      (by simp [hlen]) (by omega) (by omega)
      (fun j hj => by
        by_cases hji : j < i
        · rw [getD_concat, if_pos (by omega)]; exact hinv j hji
        · have : j = i := by omega
          subst this
          rw [getD_concat, if_neg (by omega), if_pos (by omega),
            cast_mul, hinv _ (by omega), wt_top_bit ch hone (log2 j) j hlog hlo hhi, hch _ hlog, mul_assoc])
      (fun j => by
        rw [getD_concat]
        split
        · exact hlt j
        · split
          · exact Sc.mul_lt _ _
          · exact N_pos)
    exact ⟨by rw [h1]; omega, fun j hj => h2 j (by omega), h3⟩

end SVec
section Final
variable [hgl : HasGroupLaw]

omit hgl in
theorem isPowerOfTwo_two_pow (k : Nat) : isPowerOfTwo (2 ^ k) = true := by
  unfold isPowerOfTwo
  rw [Bool.and_eq_true, decide_eq_true_eq, beq_iff_eq]
  have := (@Nat.ne_zero_and_sub_one_eq_zero_iff_isPowerOfTwo (2 ^ k)).2 ⟨k, rfl⟩
  exact ⟨Nat.two_pow_pos k, this.2⟩

omit hgl in
theorem nRounds_two_pow (a b : Nat) : nRounds (2 ^ a) (2 ^ b) = max a b := by
  unfold nRounds log2
  rw [Nat.log2_two_pow, Nat.log2_two_pow]
  split <;> omega

omit hgl in
theorem getD_of_mem_lt {l : List Nat} (h : ∀ x ∈ l, x < N) (j : Nat) : l.getD j 0 < N := by
  rw [List.getD_eq_getElem?_getD]
  cases hj : l[j]? with
  | none => exact N_pos
  | some x => exact h x (List.mem_of_getElem? hj)

omit hgl in
theorem getD_of_mem_good {g : List Pt} (h : ∀ p ∈ g, Good p) (j : Nat) : Good (g.getD j .inf) := by
  rw [List.getD_eq_getElem?_getD]
  cases hj : g[j]? with
  | none => exact good_inf
  | some x => exact h x (List.mem_of_getElem? hj)

/-- the initial prover state -/
def initState (transcript : Sha256.State) (rho : Nat) (gVec : List Pt) (nVec lVec cVec : List Nat) :
    ProveState :=
  { transcript := transcript, g := gVec, n := nVec, l := lVec, c := cVec, gLen := nVec.length,
    hLen := lVec.length, rhoF := rho, muF := scSqr rho, proof := [] }

omit hgl in
theorem prove_eq (transcript : Sha256.State) (rho : Nat) (gVec : List Pt) (nVec lVec cVec : List Nat) :
    prove transcript rho gVec nVec lVec cVec =
      match proveLoop nVec.length (nVec.length + lVec.length + 1)
          (initState transcript rho gVec nVec lVec cVec) with
      | none => (0, [], transcript)
      | some st => (1, st.proof ++ Bytes.be32 (st.n.getD 0 0) ++ Bytes.be32 (st.l.getD 0 0), st.transcript) :=
  rfl

theorem initState_wf (transcript : Sha256.State) (rho : Nat) (gVec : List Pt) (nVec lVec cVec : List Nat)
    (a b : Nat) (hn : nVec.length = 2 ^ a) (hl : lVec.length = 2 ^ b) (hc : cVec.length = lVec.length)
    (hg : gVec.length = nVec.length + lVec.length)
    (hgood : ∀ p ∈ gVec, Good p) (hnlt : ∀ x ∈ nVec, x < N) (hllt : ∀ x ∈ lVec, x < N)
    (hrho : rho ≠ 0) (hrlt : rho < N) :
    WF nVec.length (initState transcript rho gVec nVec lVec cVec) a b := by
  have e1 : eL nVec.length = nVec.length := eL_of_ne_zero (by rw [hn]; exact (Nat.two_pow_pos a).ne')
  have e2 : eL lVec.length = lVec.length := eL_of_ne_zero (by rw [hl]; exact (Nat.two_pow_pos b).ne')
  refine ⟨?_, ?_, ?_, ?_, ?_, ?_, ?_, getD_of_mem_good hgood, getD_of_mem_lt hnlt, getD_of_mem_lt hllt,
    hrlt, Sc.mul_lt _ _, ?_, ?_⟩
  · show eL nVec.length = 2 ^ a
    rw [e1, hn]
  · show eL lVec.length = 2 ^ b
    rw [e2, hl]
  · show eL nVec.length ≤ nVec.length
    rw [e1]
  · show eL nVec.length ≤ nVec.length
    rw [e1]
  · show eL lVec.length ≤ lVec.length
    rw [e2]
  · show eL lVec.length ≤ cVec.length
    rw [e2, hc]
  · show nVec.length + eL lVec.length ≤ gVec.length
    rw [e2, hg]
  · show ((rho : Nat) : ZMod N) ≠ 0
    rw [Ne, cast_eq_zero hrlt]; exact hrho
  · show ((scSqr rho : Nat) : ZMod N) = (rho : ZMod N) ^ 2
    rw [scSqr, cast_mul, sq]

/-- `secp256k1_bppp_commit` computes the commitment described by the initial prover state -/
theorem commit_eq (transcript : Sha256.State) (rho : Nat) (gVec : List Pt) (nVec lVec cVec : List Nat)
    (mu : Nat) (hn : nVec.length ≠ 0) (hl : lVec.length ≠ 0)
    (hgood : ∀ p ∈ gVec, Good p) (hnlt : ∀ x ∈ nVec, x < N) (hllt : ∀ x ∈ lVec, x < N) :
    commit gVec nVec lVec cVec mu =
      (1, ofT (comT nVec.length (initState transcript rho gVec nVec lVec cVec) (mu : ZMod N))) := by
  unfold commit
  simp only []
  rw [ecmultMulti_T _ _ (nVec.length + lVec.length)
    (fun idx => if idx < nVec.length then nVec.getD idx 0 else lVec.getD (idx - nVec.length) 0)
    (fun idx => pv gVec idx)]
  · simp only []
    congr 2
    unfold comT initState
    simp only [eL_of_ne_zero hn, eL_of_ne_zero hl, initT, normS, dotS, gP, cast_add, cast_wsip, cast_sip,
      Nat.zero_add, Nat.one_mul]
    rw [sum_range_add, add_assoc]
    congr 1
    · congr 2
      apply sum_congr rfl
      intro i _
      ring
    · congr 1
      · apply sum_congr rfl
        intro i hi
        have : i < nVec.length := by simpa using hi
        simp only [if_pos this, sv]
      · apply sum_congr rfl
        intro i _
        simp only [if_neg (show ¬ nVec.length + i < nVec.length by omega), Nat.add_sub_cancel_left, sv]
  · intro idx _
    unfold commitCb
    rw [ofT_pv (getD_of_mem_good hgood)]
  · intro idx _
    split
    · exact lt_mulBound_of_lt_N (getD_of_mem_lt hnlt _)
    · exact lt_mulBound_of_lt_N (getD_of_mem_lt hllt _)
  · intro s hs
    cases hs
    exact lt_mulBound_of_lt_N (Sc.add_lt _ _)

omit hgl in
theorem wt_zero {R : Type} [CommRing R] (ch : List (R × R)) (hone : ∀ c ∈ ch, c.1 = 1) : wt ch 0 = 1 := by
  induction ch with
  | nil => rfl
  | cons c rest ih =>
    simp only [wt]
    rw [if_neg (by omega), hone c (by simp), ih (fun c hc => hone c (by simp [hc]))]
    simp

omit hgl in
theorem getD_take_lt (l : List Nat) (a k : Nat) (hk : k < a) : (l.take a).getD k 0 = l.getD k 0 := by
  simp only [List.getD_eq_getElem?_getD, List.getElem?_take, if_pos hk]

theorem prodRho_eq (rho : ZMod N) (hrho : rho ≠ 0) (n : Nat) : prodRho rho n = rho ^ 2 ^ n * rho⁻¹ := by
  rw [← prodRho_mul, mul_assoc, mul_inv_cancel₀ hrho, mul_one]

/-- the verifier's right-hand side equals the commitment described by the final prover state -/
theorem final_eq (G : Nat) (stf : ProveState) (hwff : WF G stf 0 0) (g : List Pt) (c : List Nat) (a b : Nat)
    (rho : ZMod N) (hrho : rho ≠ 0) (gs : List Nat) (sG sH : List Nat) (hlen : (gs.take a).length = a)
    (hG : pv stf.g 0 = ∑ i ∈ range (2 ^ a), wt (chGl rho (gs.take a)) i • pv g i)
    (hH : pv stf.g G = ∑ i ∈ range (2 ^ b), wt (chHl (gs.take b)) i • pv g (G + i))
    (hc : sv stf.c 0 = ∑ i ∈ range (2 ^ b), wt (chHl (gs.take b)) i * sv c i)
    (hsG : ∀ j, j < 2 ^ a → sv sG j = (sv stf.n 0 * rho ^ 2 ^ a * rho⁻¹) * wt (chVl rho⁻¹ (gs.take a)) j)
    (hsH : ∀ j, j < 2 ^ b → sv sH j = sv stf.l 0 * wt (chHl (gs.take b)) j) :
    comT G stf ((rho ^ 2 ^ a) ^ 2) =
      (sv stf.n 0 * sv stf.n 0 * (rho ^ 2 ^ a) ^ 2 + ∑ i ∈ range (2 ^ b), sv c i * sv sH i) • GT +
      (∑ i ∈ range (2 ^ a), sv sG i • pv g i + ∑ i ∈ range (2 ^ b), sv sH i • pv g (G + i)) := by
  have e1 : eL stf.gLen = 1 := by rw [hwff.glen]; rfl
  have e2 : eL stf.hLen = 1 := by rw [hwff.hlen]; rfl
  unfold comT normS dotS gP
  rw [e1, e2]
  simp only [sum_range_one, Nat.zero_add, Nat.add_zero, pow_one]
  rw [hG, hH, hc, smul_sum, smul_sum, add_assoc]
  congr 1
  · congr 1
    congr 1
    rw [sum_mul]
    apply sum_congr rfl
    intro i hi
    rw [hsH i (by simpa using hi)]
    ring
  · congr 1
    · apply sum_congr rfl
      intro i hi
      rw [hsG i (by simpa using hi), smul_smul, wt_scale rho hrho, hlen, prodRho_eq rho hrho]
      congr 1
      ring
    · apply sum_congr rfl
      intro i hi
      rw [hsH i (by simpa using hi), smul_smul]

/-- **Completeness of the norm argument** (module form): an honest proof verifies against the honest
commitment, for generators of order dividing `N`. -/
theorem prove_verify (scratch : Scratch) (transcript : Sha256.State) (rho : Nat) (gVec : List Pt)
    (nVec lVec cVec : List Nat) (a b : Nat)
    (hn : nVec.length = 2 ^ a) (hl : lVec.length = 2 ^ b) (hc : cVec.length = lVec.length)
    (hg : gVec.length = nVec.length + lVec.length)
    (hgood : ∀ p ∈ gVec, Good p) (hnlt : ∀ x ∈ nVec, x < N) (hllt : ∀ x ∈ lVec, x < N)
    (hrho : rho ≠ 0) (hrlt : rho < N)
    (hscr : scratchNeed nVec.length cVec.length ≤ scratch.maxSize - scratch.allocSize) :
    ∃ proof t', prove transcript rho gVec nVec lVec cVec = (1, proof, t') ∧
      proof.length = 65 * max a b + 64 ∧
      (commit gVec nVec lVec cVec (scSqr rho)).1 = 1 ∧
      verify scratch proof transcript rho gVec nVec.length cVec (commit gVec nVec lVec cVec (scSqr rho)).2
        = (1, scratch) := by
  have hwf := initState_wf transcript rho gVec nVec lVec cVec a b hn hl hc hg hgood hnlt hllt hrho hrlt
  have hfuel : max a b ≤ nVec.length + lVec.length + 1 := by
    have h1 := Nat.lt_two_pow_self (n := a)
    have h2 := Nat.lt_two_pow_self (n := b)
    rw [hn, hl]; omega
  obtain ⟨rs, stf, hloop, hlen, hpf, htr, hwff, hcom, hG, hH, hcc⟩ :=
    proveLoop_spec nVec.length (max a b) (initState transcript rho gVec nVec lVec cVec) a b _ hwf
      (le_max_left _ _) (le_max_right _ _) (by omega) hfuel
  have hnf : stf.n.getD 0 0 < N := hwff.nlt 0
  have hlf : stf.l.getD 0 0 < N := hwff.llt 0
  have hn0 : nVec.length ≠ 0 := by rw [hn]; exact (Nat.two_pow_pos a).ne'
  have hl0 : lVec.length ≠ 0 := by rw [hl]; exact (Nat.two_pow_pos b).ne'
  have hcl : cVec.length = 2 ^ b := by rw [hc, hl]
  have hcommit := commit_eq transcript rho gVec nVec lVec cVec (scSqr rho) hn0 hl0 hgood hnlt hllt
  have hprove : prove transcript rho gVec nVec lVec cVec =
      (1, proofOf rs ++ (Bytes.be32 (stf.n.getD 0 0) ++ Bytes.be32 (stf.l.getD 0 0)), stf.transcript) := by
    rw [prove_eq, hloop]
    simp only [hpf, initState, List.nil_append, List.append_assoc]
  have hplen : (proofOf rs ++ (Bytes.be32 (stf.n.getD 0 0) ++ Bytes.be32 (stf.l.getD 0 0))).length
      = 65 * max a b + 64 := by
    simp only [List.length_append, length_proofOf, length_be32', hlen]
  refine ⟨_, _, hprove, hplen, by rw [hcommit], ?_⟩
  -- the verifier
  have hr : nRounds nVec.length cVec.length = rs.length := by rw [hn, hcl, nRounds_two_pow, hlen]
  have hlog : log2 nVec.length = a := by rw [hn]; exact Nat.log2_two_pow
  have hfinN : finalNBytes (proofOf rs ++ (Bytes.be32 (stf.n.getD 0 0) ++ Bytes.be32 (stf.l.getD 0 0)))
      rs.length = Bytes.be32 (stf.n.getD 0 0) := by
    unfold finalNBytes
    rw [List.drop_left' (by rw [length_proofOf, Nat.mul_comm]), take_be32_append]
  have hfinL : finalLBytes (proofOf rs ++ (Bytes.be32 (stf.n.getD 0 0) ++ Bytes.be32 (stf.l.getD 0 0)))
      rs.length = Bytes.be32 (stf.l.getD 0 0) := by
    unfold finalLBytes
    rw [← List.append_assoc, List.drop_left' (by
      rw [List.length_append, length_proofOf, length_be32', Nat.mul_comm]),
      List.take_of_length_le (by rw [length_be32'])]
  have h256 : N < 2 ^ 256 := N_lt_pow
  have hguards : Guards scratch (proofOf rs ++ (Bytes.be32 (stf.n.getD 0 0) ++ Bytes.be32 (stf.l.getD 0 0)))
      rho gVec nVec.length cVec := by
    unfold Guards
    rw [hr, hfinN, hfinL, toNat_be32 (by omega), toNat_be32 (by omega)]
    refine ⟨hn0, by omega, by omega, by rw [hplen, hlen], ?_, ?_, hnf, hlf, hrho, hscr⟩
    · rw [hn]; exact isPowerOfTwo_two_pow a
    · rw [hcl]; exact isPowerOfTwo_two_pow b
  rw [verify_eq, if_pos hguards, hr, hfinN, hfinL, hlog]
  have hsetN : (Sc.setB32 (Bytes.be32 (stf.n.getD 0 0))).1 = stf.n.getD 0 0 := by
    simp only [Sc.setB32]; rw [toNat_be32 (by omega), Nat.mod_eq_of_lt hnf]
  have hsetL : (Sc.setB32 (Bytes.be32 (stf.l.getD 0 0))).1 = stf.l.getD 0 0 := by
    simp only [Sc.setB32]; rw [toNat_be32 (by omega), Nat.mod_eq_of_lt hlf]
  rw [hsetN, hsetL, verifyEquation_eq]
  simp only []
  have hgl' := gammasLoop_proofOf rs [] (Bytes.be32 (stf.n.getD 0 0) ++ Bytes.be32 (stf.l.getD 0 0)) 0 rfl
    transcript []
  simp only [List.nil_append] at hgl'
  rw [hgl']
  simp only []
  have hρ : ((rho : Nat) : ZMod N) ≠ 0 := by rw [Ne, cast_eq_zero hrlt]; exact hrho
  have hgsl : (gammasOf transcript rs).length = max a b := by rw [gammasOf_length, hlen]
  have hta : ((gammasOf transcript rs).take a).length = a := by
    rw [List.length_take, hgsl]; omega
  have htb : ((gammasOf transcript rs).take b).length = b := by
    rw [List.length_take, hgsl]; omega
  -- s_g
  obtain ⟨sg1, sg2, sg3⟩ := sGLoop_spec (gammasOf transcript rs) (powersOfRho (Sc.inv rho) a)
    (chVl ((rho : Nat) : ZMod N)⁻¹ ((gammasOf transcript rs).take a))
    (sv stf.n 0 * ((rho : Nat) : ZMod N) ^ 2 ^ a * ((rho : Nat) : ZMod N)⁻¹) (chVl_fst _ _)
    (fun k hk => by
      rw [chVl_length, hta] at hk
      rw [chVl_getD _ _ k (by omega), getD_take_lt _ _ _ hk, cast_powersOfRho _ _ _ hk, cast_inv])
    (nVec.length - 1) 1 [Sc.mul (Sc.mul (stf.n.getD 0 0) (sqrTimes rho a)) (Sc.inv rho)] rfl (le_refl 1)
    (by rw [chVl_length, hta, hn]; have := Nat.two_pow_pos a; omega)
    (fun j hj => by
      have : j = 0 := by omega
      subst this
      rw [List.getD_cons_zero, cast_mul, cast_mul, cast_sqrTimes, cast_inv, wt_zero _ (chVl_fst _ _), mul_one]
      rfl)
    (fun j => by
      cases j with
      | zero => exact Sc.mul_lt _ _
      | succ m => simp; exact N_pos)
  -- s_h
  obtain ⟨sh1, sh2, sh3⟩ := sHLoop_spec (gammasOf transcript rs)
    (chHl ((gammasOf transcript rs).take b)) (sv stf.l 0) (chHl_fst _)
    (fun k hk => by
      rw [chHl_length, htb] at hk
      rw [chHl_getD _ k (by omega), getD_take_lt _ _ _ hk])
    (cVec.length - 1) 1 [stf.l.getD 0 0] rfl (le_refl 1)
    (by rw [chHl_length, htb, hcl]; have := Nat.two_pow_pos b; omega)
    (fun j hj => by
      have : j = 0 := by omega
      subst this
      rw [List.getD_cons_zero, wt_zero _ (chHl_fst _), mul_one]
      rfl)
    (fun j => by
      cases j with
      | zero => exact hlf
      | succ m => simp; exact N_pos)
  generalize sGLoop (gammasOf transcript rs) (powersOfRho (Sc.inv rho) a) (nVec.length - 1) 1
    [Sc.mul (Sc.mul (stf.n.getD 0 0) (sqrTimes rho a)) (Sc.inv rho)] = sG at *
  generalize sHLoop (gammasOf transcript rs) (cVec.length - 1) 1 [stf.l.getD 0 0] = sH at *
  -- first multi-exponentiation
  rw [hcommit]
  simp only []
  rw [res1_eq rs _ _ _ (gammasOf_lt transcript rs)]
  -- second multi-exponentiation
  rw [ecmultMulti_T _ _ (nVec.length + cVec.length)
    (fun idx => if idx < nVec.length then sG.getD idx 0 else sH.getD (idx - nVec.length) 0)
    (fun idx => pv gVec idx)
    (fun idx _ => by unfold verifyCb2; rw [ofT_pv (getD_of_mem_good hgood)])
    (fun idx _ => by
      split
      · exact lt_mulBound_of_lt_N (sg3 _)
      · exact lt_mulBound_of_lt_N (sh3 _))
    (fun s hs => by cases hs; exact lt_mulBound_of_lt_N (Sc.add_lt _ _))]
  simp only [Option.bind_some]
  -- the two sides agree
  have hmu0 : comT nVec.length stf (((scSqr rho : Nat) : ZMod N) ^ 2 ^ a) =
      comT nVec.length (initState transcript rho gVec nVec lVec cVec) ((scSqr rho : Nat) : ZMod N) +
        xrSum (gammasOf transcript rs) rs := hcom ((scSqr rho : Nat) : ZMod N) (fun _ => rfl)
  have hpow : (((scSqr rho : Nat) : ZMod N)) ^ 2 ^ a = (((rho : Nat) : ZMod N) ^ 2 ^ a) ^ 2 := by
    rw [scSqr, cast_mul, ← sq, ← pow_mul, ← pow_mul, mul_comm]
  rw [hpow] at hmu0
  have hfin := final_eq nVec.length stf hwff gVec cVec a b ((rho : Nat) : ZMod N) hρ (gammasOf transcript rs)
    sG sH hta hG hH hcc
    (fun j hj => by unfold sv; exact sg2 j (by rw [hn]; have := Nat.two_pow_pos a; omega))
    (fun j hj => by unfold sv; exact sh2 j (by rw [hcl]; have := Nat.two_pow_pos b; omega))
  have hkey : comT nVec.length (initState transcript rho gVec nVec lVec cVec) ((scSqr rho : Nat) : ZMod N) +
      xrSum (gammasOf transcript rs) rs =
      initT (some (Sc.add (Sc.mul (Sc.mul (stf.n.getD 0 0) (stf.n.getD 0 0)) (scSqr (sqrTimes rho a)))
        (scalarInnerProduct cVec 0 sH 0 1 cVec.length))) +
      ∑ i ∈ range (nVec.length + cVec.length),
        (((if i < nVec.length then sG.getD i 0 else sH.getD (i - nVec.length) 0 : Nat) : Nat) : ZMod N) •
          pv gVec i := by
    rw [← hmu0, hfin, sum_range_add]
    simp only [initT, cast_add, cast_mul, cast_sip, cast_sqrTimes, scSqr, Nat.zero_add, Nat.one_mul, hn, hcl]
    congr 1
    · congr 1
      simp only [sv]
      ring
    · congr 1
      · apply sum_congr rfl
        intro i hi
        have : i < 2 ^ a := by simpa using hi
        simp only [if_pos this, sv]
      · apply sum_congr rfl
        intro i _
        simp only [if_neg (show ¬ 2 ^ a + i < 2 ^ a by omega), Nat.add_sub_cancel_left, sv]
  rw [hkey]
  simp

end Final
end Bppp
end SecpZkp

