import Mathlib.Data.ZMod.Basic
import Mathlib.FieldTheory.Finite.Basic
import Mathlib.Tactic.Ring
import Mathlib.Tactic.LinearCombination
import Mathlib.Tactic.FieldSimp
import SecpZkp.Model.Field
/-
  The Nat-level modular arithmetic of `Model/Field.lean` refines arithmetic in `ZMod P` / `ZMod N`.

  Primality of `P` and `N` is taken as a hypothesis (`[Fact (Nat.Prime P)]`, `[Fact (Nat.Prime N)]`);
  it is proved in `Proofs/Prime.lean`.
-/
namespace SecpZkp

/-! ### `powMod` -/

theorem Field.powModAux_eq (m : ℕ) : ∀ (fuel a e acc : ℕ), acc < m → e < 2 ^ fuel →
    powModAux fuel a e m acc = acc * a ^ e % m := by
  intro fuel
  induction fuel with
  | zero =>
    intro a e acc hacc he
    have : e = 0 := by simpa using he
    subst this
    simp [powModAux, Nat.mod_eq_of_lt hacc]
  | succ n ih =>
    intro a e acc hacc he
    have hm : 0 < m := by omega
    rw [powModAux]
    split
    · next h => subst h; simp [Nat.mod_eq_of_lt hacc]
    · next h =>
      have he2 : e / 2 < 2 ^ n := by
        rw [pow_succ] at he; omega
      have hacc' : (if e % 2 = 1 then acc * a % m else acc) < m := by
        split
        · exact Nat.mod_lt _ hm
        · exact hacc
      rw [ih _ _ _ hacc' he2]
      have hsq : (a * a % m) ^ (e / 2) ≡ (a * a) ^ (e / 2) [MOD m] :=
        (Nat.mod_modEq _ _).pow _
      change _ ≡ _ [MOD m]
      rcases Nat.mod_two_eq_zero_or_one e with h0 | h1
      · have hE : a ^ e = (a * a) ^ (e / 2) := by
          conv_lhs => rw [← Nat.div_add_mod e 2, h0, Nat.add_zero, pow_mul, pow_two]
        rw [if_neg (by omega), hE]
        exact hsq.mul_left _
      · have hE : a ^ e = (a * a) ^ (e / 2) * a := by
          conv_lhs => rw [← Nat.div_add_mod e 2, h1, pow_succ, pow_mul, pow_two]
        rw [if_pos h1, hE]
        calc acc * a % m * (a * a % m) ^ (e / 2)
            ≡ acc * a * (a * a) ^ (e / 2) [MOD m] := (Nat.mod_modEq _ _).mul hsq
          _ = acc * ((a * a) ^ (e / 2) * a) := by ring

/-- `powMod` is modular exponentiation (for exponents below the fuel bound `2^520`). -/
theorem Field.powMod_eq {a e m : ℕ} (hm : m > 0) (he : e < 2 ^ 520) : powMod a e m = a ^ e % m := by
  unfold powMod
  rw [Field.powModAux_eq m 520 (a % m) e (1 % m) (Nat.mod_lt _ hm) he]
  change _ ≡ _ [MOD m]
  calc 1 % m * (a % m) ^ e ≡ 1 * a ^ e [MOD m] :=
        (Nat.mod_modEq _ _).mul ((Nat.mod_modEq _ _).pow _)
    _ = a ^ e := by ring

theorem Field.powMod_lt {a e m : ℕ} (hm : m > 0) (he : e < 2 ^ 520) : powMod a e m < m := by
  rw [Field.powMod_eq hm he]; exact Nat.mod_lt _ hm

set_option exponentiation.threshold 600 in
theorem Field.lt_pow_520 {e : ℕ} (h : e < 2 ^ 256) : e < 2 ^ 520 :=
  lt_of_lt_of_le h (Nat.pow_le_pow_right (n := 2) (Nat.succ_pos 1) (by decide : 256 ≤ 520))

set_option exponentiation.threshold 600 in
/-- scalars below `2^256` are below the `Pt.mul` fuel bound `2^264` -/
theorem Field.lt_pow_264 {e : ℕ} (h : e < 2 ^ 256) : e < 2 ^ 264 :=
  lt_of_lt_of_le h (Nat.pow_le_pow_right (n := 2) (Nat.succ_pos 1) (by decide : 256 ≤ 264))

theorem P_pos : 0 < P := by decide
theorem N_pos : 0 < N := by decide
theorem P_lt : P < 2 ^ 256 := by decide
theorem N_lt : N < 2 ^ 256 := by decide
theorem N_lt_P : N < P := by decide
theorem P_lt_two_N : P < 2 * N := by decide
theorem P_mod_four : P % 4 = 3 := by decide
theorem P_odd : P % 2 = 1 := by decide
theorem N_odd : N % 2 = 1 := by decide

/-- Two canonical residues with equal casts are equal. -/
theorem Fe.eq_of_cast_eq {a b : ℕ} (ha : a < P) (hb : b < P) (h : (a : ZMod P) = b) : a = b := by
  have := (ZMod.natCast_eq_natCast_iff' a b P).1 h
  rwa [Nat.mod_eq_of_lt ha, Nat.mod_eq_of_lt hb] at this

theorem Fe.cast_eq_iff {a b : ℕ} (ha : a < P) (hb : b < P) : (a : ZMod P) = b ↔ a = b :=
  ⟨Fe.eq_of_cast_eq ha hb, fun h => by rw [h]⟩

theorem Fe.cast_eq_zero_iff (a : ℕ) : (a : ZMod P) = 0 ↔ a % P = 0 := by
  rw [ZMod.natCast_eq_zero_iff, Nat.dvd_iff_mod_eq_zero]

theorem Sc.eq_of_cast_eq {a b : ℕ} (ha : a < N) (hb : b < N) (h : (a : ZMod N) = b) : a = b := by
  have := (ZMod.natCast_eq_natCast_iff' a b N).1 h
  rwa [Nat.mod_eq_of_lt ha, Nat.mod_eq_of_lt hb] at this

theorem Sc.cast_eq_zero_iff (a : ℕ) : (a : ZMod N) = 0 ↔ a % N = 0 := by
  rw [ZMod.natCast_eq_zero_iff, Nat.dvd_iff_mod_eq_zero]

/-! ### Ring operations mod `P` (no primality needed) -/
namespace Fe

theorem add_lt_P (a b : ℕ) : Fe.add a b < P := Nat.mod_lt _ P_pos
theorem sub_lt_P (a b : ℕ) : Fe.sub a b < P := Nat.mod_lt _ P_pos
theorem neg_lt_P (a : ℕ) : Fe.neg a < P := Nat.mod_lt _ P_pos
theorem mul_lt_P (a b : ℕ) : Fe.mul a b < P := Nat.mod_lt _ P_pos
theorem sqr_lt_P (a : ℕ) : Fe.sqr a < P := Nat.mod_lt _ P_pos
theorem inv_lt_P (a : ℕ) : Fe.inv a < P :=
  Field.powMod_lt P_pos (Field.lt_pow_520 (by decide +kernel))
theorem sqrtCand_lt_P (a : ℕ) : Fe.sqrtCand a < P :=
  Field.powMod_lt P_pos (Field.lt_pow_520 (by decide +kernel))

@[simp] theorem cast_add (a b : ℕ) : ((Fe.add a b : ℕ) : ZMod P) = (a : ZMod P) + b := by
  simp [Fe.add]

@[simp] theorem cast_mul (a b : ℕ) : ((Fe.mul a b : ℕ) : ZMod P) = (a : ZMod P) * b := by
  simp [Fe.mul]

@[simp] theorem cast_sqr (a : ℕ) : ((Fe.sqr a : ℕ) : ZMod P) = (a : ZMod P) * a := by
  simp [Fe.sqr]

@[simp] theorem cast_neg (a : ℕ) : ((Fe.neg a : ℕ) : ZMod P) = -(a : ZMod P) := by
  have h : a % P ≤ P := (Nat.mod_lt _ P_pos).le
  simp [Fe.neg, Nat.cast_sub h]

@[simp] theorem cast_sub (a b : ℕ) : ((Fe.sub a b : ℕ) : ZMod P) = (a : ZMod P) - b := by
  have h : b % P ≤ P := (Nat.mod_lt _ P_pos).le
  simp [Fe.sub, Nat.cast_sub h, sub_eq_add_neg]

theorem cast_powMod (a e : ℕ) (he : e < 2 ^ 520) :
    ((powMod a e P : ℕ) : ZMod P) = (a : ZMod P) ^ e := by
  rw [Field.powMod_eq P_pos he]; simp

/-- `Fe.neg` of a canonical non-zero residue is `P - a`. -/
theorem neg_eq_of_pos {a : ℕ} (h0 : 0 < a) (ha : a < P) : Fe.neg a = P - a := by
  unfold Fe.neg
  rw [Nat.mod_eq_of_lt ha, Nat.mod_eq_of_lt (by omega)]

theorem neg_zero_eq : Fe.neg 0 = 0 := by decide

/-- `Fe.half` halves: `2 * half a = a` in the field, and the result is canonical. -/
theorem two_mul_cast_half (a : ℕ) : 2 * ((Fe.half a : ℕ) : ZMod P) = a := by
  unfold Fe.half
  split
  · next h =>
    have : 2 * (a / 2) = a := by omega
    have h2 : ((2 * (a / 2) : ℕ) : ZMod P) = a := by rw [this]
    simpa using h2
  · next h =>
    have hodd := P_odd
    have : 2 * ((a + P) / 2) = a + P := by omega
    have h2 : ((2 * ((a + P) / 2) : ℕ) : ZMod P) = ((a + P : ℕ) : ZMod P) := by rw [this]
    simpa using h2

theorem half_lt_P {a : ℕ} (ha : a < P) : Fe.half a < P := by
  unfold Fe.half
  split <;> omega

end Fe

/-! ### Ring operations mod `N` -/
namespace Sc

theorem add_lt_N (a b : ℕ) : Sc.add a b < N := Nat.mod_lt _ N_pos
theorem sub_lt_N (a b : ℕ) : Sc.sub a b < N := Nat.mod_lt _ N_pos
theorem neg_lt_N (a : ℕ) : Sc.neg a < N := Nat.mod_lt _ N_pos
theorem mul_lt_N (a b : ℕ) : Sc.mul a b < N := Nat.mod_lt _ N_pos
theorem inv_lt_N (a : ℕ) : Sc.inv a < N :=
  Field.powMod_lt N_pos (Field.lt_pow_520 (by decide +kernel))

@[simp] theorem cast_add (a b : ℕ) : ((Sc.add a b : ℕ) : ZMod N) = (a : ZMod N) + b := by
  simp [Sc.add]

@[simp] theorem cast_mul (a b : ℕ) : ((Sc.mul a b : ℕ) : ZMod N) = (a : ZMod N) * b := by
  simp [Sc.mul]

@[simp] theorem cast_neg (a : ℕ) : ((Sc.neg a : ℕ) : ZMod N) = -(a : ZMod N) := by
  have h : a % N ≤ N := (Nat.mod_lt _ N_pos).le
  simp [Sc.neg, Nat.cast_sub h]

@[simp] theorem cast_sub (a b : ℕ) : ((Sc.sub a b : ℕ) : ZMod N) = (a : ZMod N) - b := by
  have h : b % N ≤ N := (Nat.mod_lt _ N_pos).le
  simp [Sc.sub, Nat.cast_sub h, sub_eq_add_neg]

theorem isHigh_iff (a : ℕ) : Sc.isHigh a = true ↔ a > (N - 1) / 2 := by
  simp [Sc.isHigh]

theorem two_mul_cast_half (a : ℕ) : 2 * ((Sc.half a : ℕ) : ZMod N) = a := by
  unfold Sc.half
  split
  · next h =>
    have : 2 * (a / 2) = a := by omega
    have h2 : ((2 * (a / 2) : ℕ) : ZMod N) = a := by rw [this]
    simpa using h2
  · next h =>
    have hodd := N_odd
    have : 2 * ((a + N) / 2) = a + N := by omega
    have h2 : ((2 * ((a + N) / 2) : ℕ) : ZMod N) = ((a + N : ℕ) : ZMod N) := by rw [this]
    simpa using h2

theorem half_lt_N {a : ℕ} (ha : a < N) : Sc.half a < N := by
  unfold Sc.half
  split <;> omega

/-- `secp256k1_scalar_set_b32` reduces mod `N` and reports overflow. -/
theorem setB32_fst_lt (b : Bytes) : (Sc.setB32 b).1 < N := Nat.mod_lt _ N_pos

end Sc

theorem Fe.inv_zero_eq : Fe.inv 0 = 0 := by decide +kernel
theorem Fe.inv_one_eq : Fe.inv 1 = 1 := by decide +kernel

/-! ### Inverses and square roots (need primality) -/
section PrimeP
variable [Fact (Nat.Prime P)]

/-- `Fe.inv` is the field inverse (and `0 ↦ 0`, as `0⁻¹ = 0` in `ZMod P`). -/
@[simp] theorem Fe.cast_inv (a : ℕ) : ((Fe.inv a : ℕ) : ZMod P) = (a : ZMod P)⁻¹ := by
  unfold Fe.inv
  rw [Fe.cast_powMod a (P - 2) (Field.lt_pow_520 (by decide +kernel))]
  by_cases h : (a : ZMod P) = 0
  · rw [h, _root_.inv_zero, zero_pow (by decide)]
  · have h1 : (a : ZMod P) ^ (P - 1) = 1 := ZMod.pow_card_sub_one_eq_one h
    have h2 : (a : ZMod P) ^ (P - 2) * a = 1 := by
      rw [← pow_succ]; exact h1
    exact eq_inv_of_mul_eq_one_left h2


theorem Fe.mul_inv_self {a : ℕ} (h : a % P ≠ 0) : Fe.mul a (Fe.inv a) = 1 := by
  apply Fe.eq_of_cast_eq (Fe.mul_lt_P _ _) (by decide)
  have : (a : ZMod P) ≠ 0 := fun h0 => h ((Fe.cast_eq_zero_iff a).1 h0)
  rw [Fe.cast_mul, Fe.cast_inv, mul_inv_cancel₀ this, Nat.cast_one]

theorem Fe.cast_half (a : ℕ) : ((Fe.half a : ℕ) : ZMod P) = (a : ZMod P) * (2 : ZMod P)⁻¹ := by
  have h2 : (2 : ZMod P) ≠ 0 := by
    have : ((2 : ℕ) : ZMod P) ≠ 0 := by
      rw [Ne, Fe.cast_eq_zero_iff]; decide
    simpa using this
  rw [← Fe.two_mul_cast_half a]
  field_simp

/-- The candidate root `a^((P+1)/4)` squares to `a` exactly when `a` is a square (`P ≡ 3 mod 4`). -/
theorem Fe.sqrtCand_sq_of_isSquare {a : ℕ} (h : IsSquare (a : ZMod P)) :
    ((Fe.sqrtCand a : ℕ) : ZMod P) * (Fe.sqrtCand a : ℕ) = a := by
  unfold Fe.sqrtCand
  rw [Fe.cast_powMod a _ (Field.lt_pow_520 (by decide +kernel))]
  obtain ⟨b, hb⟩ := h
  rw [hb]
  by_cases h0 : b = 0
  · subst h0; rw [mul_zero, zero_pow (by decide), mul_zero]
  · have h1 : b ^ (P - 1) = 1 := ZMod.pow_card_sub_one_eq_one h0
    have e : (P + 1) / 4 * 2 * 2 = (P - 1) + 2 := by decide
    calc (b * b) ^ ((P + 1) / 4) * (b * b) ^ ((P + 1) / 4)
        = b ^ ((P + 1) / 4 * 2 * 2) := by ring
      _ = b ^ (P - 1) * b ^ 2 := by rw [e, pow_add]
      _ = b * b := by rw [h1]; ring

theorem Fe.isSquare_iff (a : ℕ) : Fe.isSquare a = true ↔ IsSquare (a : ZMod P) := by
  unfold Fe.isSquare
  rw [decide_eq_true_iff]
  constructor
  · intro h
    refine ⟨((Fe.sqrtCand a : ℕ) : ZMod P), ?_⟩
    have := congrArg (Nat.cast : ℕ → ZMod P) h
    rw [Fe.cast_sqr, ZMod.natCast_mod] at this
    exact this.symm
  · intro h
    apply Fe.eq_of_cast_eq (Fe.sqr_lt_P _) (Nat.mod_lt _ P_pos)
    rw [Fe.cast_sqr, ZMod.natCast_mod]
    exact Fe.sqrtCand_sq_of_isSquare h

theorem Fe.sqrt_eq_some_iff (a r : ℕ) :
    Fe.sqrt a = some r ↔ r = Fe.sqrtCand a ∧ IsSquare (a : ZMod P) := by
  rw [← Fe.isSquare_iff]
  unfold Fe.sqrt Fe.isSquare
  simp only [decide_eq_true_eq]
  split <;> simp_all [eq_comm]

theorem Fe.sqrt_eq_none_iff (a : ℕ) : Fe.sqrt a = none ↔ ¬ IsSquare (a : ZMod P) := by
  rw [← Fe.isSquare_iff]
  unfold Fe.sqrt Fe.isSquare
  simp only [decide_eq_true_eq]
  split <;> simp_all

/-- A root returned by `Fe.sqrt` is canonical and squares to the input. -/
theorem Fe.sqrt_some {a r : ℕ} (h : Fe.sqrt a = some r) :
    r < P ∧ (r : ZMod P) * r = a ∧ Fe.sqr r = a % P := by
  obtain ⟨hr, hsq⟩ := (Fe.sqrt_eq_some_iff a r).1 h
  rw [hr]
  refine ⟨Fe.sqrtCand_lt_P a, Fe.sqrtCand_sq_of_isSquare hsq, ?_⟩
  have := (Fe.isSquare_iff a).2 hsq
  unfold Fe.isSquare at this
  exact of_decide_eq_true this

/-- The root returned by `Fe.sqrt` is itself a square (used by `liftXQuad`). -/
theorem Fe.sqrtCand_isSquare {a : ℕ} (h : IsSquare (a : ZMod P)) :
    IsSquare ((Fe.sqrtCand a : ℕ) : ZMod P) := by
  unfold Fe.sqrtCand
  rw [Fe.cast_powMod a _ (Field.lt_pow_520 (by decide +kernel))]
  obtain ⟨b, hb⟩ := h
  refine ⟨b ^ ((P + 1) / 4), ?_⟩
  rw [hb]; ring

end PrimeP

section PrimeN
variable [Fact (Nat.Prime N)]

theorem Sc.cast_powMod (a e : ℕ) (he : e < 2 ^ 520) :
    ((powMod a e N : ℕ) : ZMod N) = (a : ZMod N) ^ e := by
  rw [Field.powMod_eq N_pos he]; simp

@[simp] theorem Sc.cast_inv (a : ℕ) : ((Sc.inv a : ℕ) : ZMod N) = (a : ZMod N)⁻¹ := by
  unfold Sc.inv
  rw [Sc.cast_powMod a (N - 2) (Field.lt_pow_520 (by decide +kernel))]
  by_cases h : (a : ZMod N) = 0
  · rw [h, _root_.inv_zero, zero_pow (by decide)]
  · have h1 : (a : ZMod N) ^ (N - 1) = 1 := ZMod.pow_card_sub_one_eq_one h
    have h2 : (a : ZMod N) ^ (N - 2) * a = 1 := by
      rw [← pow_succ]; exact h1
    exact eq_inv_of_mul_eq_one_left h2

theorem Sc.mul_inv_self {a : ℕ} (h : a % N ≠ 0) : Sc.mul a (Sc.inv a) = 1 := by
  apply Sc.eq_of_cast_eq (Sc.mul_lt_N _ _) (by decide)
  have : (a : ZMod N) ≠ 0 := fun h0 => h ((Sc.cast_eq_zero_iff a).1 h0)
  rw [Sc.cast_mul, Sc.cast_inv, mul_inv_cancel₀ this, Nat.cast_one]

theorem Sc.cast_half (a : ℕ) : ((Sc.half a : ℕ) : ZMod N) = (a : ZMod N) * (2 : ZMod N)⁻¹ := by
  have h2 : (2 : ZMod N) ≠ 0 := by
    have : ((2 : ℕ) : ZMod N) ≠ 0 := by
      rw [Ne, Sc.cast_eq_zero_iff]; decide
    simpa using this
  rw [← Sc.two_mul_cast_half a]
  field_simp

end PrimeN

/-- ECDSA `r = x mod n`: since `P < 2N`, a field element reduces to `r` iff it is `r` or `r + N`. -/
theorem x_mod_n {x r : ℕ} (hx : x < P) (hr : r < N) :
    x % N = r ↔ x = r ∨ (r + N < P ∧ x = r + N) := by
  have h1 := P_lt_two_N
  have h2 := N_lt_P
  constructor
  · intro h
    by_cases hlt : x < N
    · left; rw [Nat.mod_eq_of_lt hlt] at h; exact h
    · right
      have : x % N = x - N := by
        rw [Nat.mod_eq_sub_mod (by omega), Nat.mod_eq_of_lt (by omega)]
      omega
  · rintro (h | ⟨_, h⟩)
    · rw [h, Nat.mod_eq_of_lt hr]
    · rw [h, Nat.add_mod_right, Nat.mod_eq_of_lt hr]

end SecpZkp
