import SecpZkp.Model.Sha256
/-
  Helper lemmas about the SHA-256 model (`SecpZkp/Model/Sha256.lean`): fuel independence of
  `compressBlocks`, the closed form of one `write`, the `Absorbed` invariant, `finalize`.
  Core Lean only.
-/
namespace SecpZkp
namespace Sha256

/-! ### `absorb`: `compressBlocks` with exactly the fuel it needs -/

/-- Absorb all complete 64-byte blocks of `bs` into `s` (the fuel-free reading of `compressBlocks`). -/
def absorb (s : H8) (bs : Bytes) : H8 := compressBlocks (bs.length / 64) s bs

/-- `compressBlocks` does not depend on its fuel once the fuel covers the number of complete blocks. -/
theorem compressBlocks_eq_absorb (fuel : Nat) (s : H8) (bs : Bytes) (h : bs.length / 64 ≤ fuel) :
    compressBlocks fuel s bs = absorb s bs := by
  induction fuel generalizing s bs with
  | zero =>
    have h0 : bs.length / 64 = 0 := by omega
    simp [absorb, h0, compressBlocks]
  | succ n ih =>
    unfold absorb
    by_cases hlt : bs.length < 64
    · have h0 : bs.length / 64 = 0 := by omega
      simp [h0, compressBlocks, hlt]
    · have hk : bs.length / 64 = (bs.drop 64).length / 64 + 1 := by
        simp only [List.length_drop]; omega
      rw [hk]
      simp only [compressBlocks, hlt, if_false]
      rw [ih _ _ (by simp only [List.length_drop]; omega)]
      rfl

theorem absorb_short (s : H8) (bs : Bytes) (h : bs.length < 64) : absorb s bs = s := by
  have h0 : bs.length / 64 = 0 := by omega
  simp [absorb, h0, compressBlocks]

theorem absorb_step (s : H8) (bs : Bytes) (h : 64 ≤ bs.length) :
    absorb s bs = absorb (compress s (bs.take 64)) (bs.drop 64) := by
  have hk : bs.length / 64 = (bs.drop 64).length / 64 + 1 := by
    simp only [List.length_drop]; omega
  have hlt : ¬ bs.length < 64 := by omega
  conv => lhs; unfold absorb
  rw [hk]
  simp only [compressBlocks, hlt, if_false]
  rfl

/-- A 64-byte block in front of `b` is compressed first. -/
theorem absorb_block_append (s : H8) (blk b : Bytes) (h : blk.length = 64) :
    absorb s (blk ++ b) = absorb (compress s blk) b := by
  rw [absorb_step _ _ (by simp; omega)]
  rw [List.take_append_of_le_length (by omega), List.drop_append_of_le_length (by omega)]
  simp [← h]

/-- Block-aligned prefixes are absorbed first. -/
theorem absorb_append (s : H8) (a b : Bytes) (h : a.length % 64 = 0) :
    absorb s (a ++ b) = absorb (absorb s a) b := by
  generalize hn : a.length / 64 = n
  induction n generalizing s a with
  | zero =>
    have : a.length = 0 := by omega
    have : a = [] := List.eq_nil_of_length_eq_zero this
    subst this
    simp [absorb_short]
  | succ n ih =>
    have hlen : 64 ≤ a.length := by omega
    have ha : a = a.take 64 ++ a.drop 64 := (List.take_append_drop 64 a).symm
    have htl : (a.take 64).length = 64 := by simp; omega
    rw [ha, List.append_assoc, absorb_block_append _ _ _ htl, absorb_block_append _ _ _ htl]
    apply ih
    · simp only [List.length_drop]; omega
    · simp only [List.length_drop]; omega

/-- The incomplete tail (< 64 bytes) is ignored. -/
theorem absorb_append_short (s : H8) (a r : Bytes) (h : a.length % 64 = 0) (hr : r.length < 64) :
    absorb s (a ++ r) = absorb s a := by
  rw [absorb_append _ _ _ h, absorb_short _ _ hr]

theorem absorb_take (s : H8) (bs : Bytes) :
    absorb s (bs.take (bs.length / 64 * 64)) = absorb s bs := by
  have h1 : bs = bs.take (bs.length / 64 * 64) ++ bs.drop (bs.length / 64 * 64) :=
    (List.take_append_drop _ bs).symm
  have hl : (bs.take (bs.length / 64 * 64)).length = bs.length / 64 * 64 := by
    simp only [List.length_take]; omega
  conv => rhs; rw [h1]
  rw [absorb_append_short]
  · omega
  · simp only [List.length_drop]; omega

/-! ### Closed form of one `write` -/

/-- The bytes after the last complete 64-byte block. -/
def tail64 (bs : Bytes) : Bytes := bs.drop (bs.length / 64 * 64)

/-- The complete 64-byte blocks of `bs`. -/
def blocks64 (bs : Bytes) : Bytes := bs.take (bs.length / 64 * 64)

theorem blocks64_append_tail64 (bs : Bytes) : blocks64 bs ++ tail64 bs = bs :=
  List.take_append_drop _ bs

theorem length_blocks64 (bs : Bytes) : (blocks64 bs).length = bs.length / 64 * 64 := by
  simp only [blocks64, List.length_take]; omega

theorem length_blocks64_mod (bs : Bytes) : (blocks64 bs).length % 64 = 0 := by
  rw [length_blocks64]; omega

theorem length_tail64 (bs : Bytes) : (tail64 bs).length = bs.length % 64 := by
  simp only [tail64, List.length_drop]; omega

theorem length_tail64_lt (bs : Bytes) : (tail64 bs).length < 64 := by
  rw [length_tail64]; omega

theorem absorb_blocks64 (s : H8) (bs : Bytes) : absorb s (blocks64 bs) = absorb s bs :=
  absorb_take s bs

theorem tail64_short (bs : Bytes) (h : bs.length < 64) : tail64 bs = bs := by
  have h0 : bs.length / 64 = 0 := by omega
  simp [tail64, h0]

/-- A block-aligned prefix does not change the tail. -/
theorem tail64_append (a b : Bytes) (h : a.length % 64 = 0) : tail64 (a ++ b) = tail64 b := by
  unfold tail64
  have hl : (a ++ b).length / 64 * 64 = a.length + b.length / 64 * 64 := by
    simp only [List.length_append]; omega
  rw [hl, List.drop_append]
  have h1 : a.length + b.length / 64 * 64 - a.length = b.length / 64 * 64 := by omega
  rw [h1, List.drop_eq_nil_of_le (by omega)]
  rfl

/-- Step 2 of `write` (whole blocks straight from the input), in closed form. -/
theorem write_step2 (s1 : H8) (data1 : Bytes) :
    (if data1.length ≥ 64 then
        (compressBlocks (data1.length / 64) s1 (data1.take (data1.length / 64 * 64)),
          data1.drop (data1.length / 64 * 64))
      else (s1, data1)) = (absorb s1 data1, tail64 data1) := by
  by_cases h : data1.length ≥ 64
  · rw [if_pos h]
    have hl : (data1.take (data1.length / 64 * 64)).length / 64 ≤ data1.length / 64 := by
      simp only [List.length_take]; omega
    rw [compressBlocks_eq_absorb _ _ _ hl, absorb_take]
    rfl
  · rw [if_neg h, absorb_short _ _ (by omega), tail64_short _ (by omega)]

/-- One `write` in closed form: the new chaining value absorbs the complete blocks of
    `buffer ++ data`, the new buffer is what is left over, the counter advances. -/
theorem write_eq (h : State) (data : Bytes) (hb : h.buf.length < 64) :
    write h data =
      ⟨absorb h.s (h.buf ++ data), tail64 (h.buf ++ data), h.bytes + data.length⟩ := by
  unfold write
  simp only [write_step2]
  by_cases hc : h.buf.length ≠ 0 ∧ data.length ≥ 64 - h.buf.length
  · -- step 1 fires: the buffer is completed to one block
    simp only [if_pos hc]
    have hblk : (h.buf ++ data.take (64 - h.buf.length)).length = 64 := by
      simp only [List.length_append, List.length_take]; omega
    have hsplit : h.buf ++ data = (h.buf ++ data.take (64 - h.buf.length)) ++ data.drop (64 - h.buf.length) := by
      rw [List.append_assoc, List.take_append_drop]
    rw [hsplit, absorb_block_append _ _ _ hblk, tail64_append _ _ (by omega)]
    simp
  · simp only [if_neg hc]
    by_cases h0 : h.buf.length = 0
    · have : h.buf = [] := List.eq_nil_of_length_eq_zero h0
      simp [this]
    · have hd : data.length < 64 - h.buf.length := by omega
      have hl : (h.buf ++ data).length < 64 := by simp only [List.length_append]; omega
      rw [absorb_short _ _ (by omega), tail64_short _ (by omega), absorb_short _ _ hl, tail64_short _ hl]

/-! ### The streaming invariant -/

/-- `h` is the state reached from the start state `⟨s0, [], n0⟩` after the bytes `pre` were written
    (in any chunking): the buffer holds the incomplete tail of `pre`, the chaining value has absorbed
    the complete blocks of `pre`, the counter is `n0 + |pre|`. -/
structure AbsorbedFrom (s0 : H8) (n0 : Nat) (h : State) (pre : Bytes) : Prop where
  buf : h.buf = tail64 pre
  s : h.s = absorb s0 pre
  bytes : h.bytes = n0 + pre.length

theorem AbsorbedFrom.buf_lt {s0 n0 h pre} (a : AbsorbedFrom s0 n0 h pre) : h.buf.length < 64 := by
  rw [a.buf]; exact length_tail64_lt pre

theorem absorbedFrom_midstate (s0 : H8) (n0 : Nat) : AbsorbedFrom s0 n0 (initMidstate n0 s0) [] :=
  ⟨rfl, rfl, rfl⟩

theorem absorbedFrom_init : AbsorbedFrom iv 0 init [] := ⟨rfl, rfl, rfl⟩

theorem absorbedFrom_write {s0 n0 h pre} (a : AbsorbedFrom s0 n0 h pre) (data : Bytes) :
    AbsorbedFrom s0 n0 (write h data) (pre ++ data) := by
  rw [write_eq h data a.buf_lt]
  have hsplit : pre ++ data = blocks64 pre ++ (tail64 pre ++ data) := by
    rw [← List.append_assoc, blocks64_append_tail64]
  refine ⟨?_, ?_, ?_⟩
  · show tail64 (h.buf ++ data) = tail64 (pre ++ data)
    rw [hsplit, tail64_append _ _ (length_blocks64_mod pre), a.buf]
  · show absorb h.s (h.buf ++ data) = absorb s0 (pre ++ data)
    rw [hsplit, absorb_append _ _ _ (length_blocks64_mod pre), absorb_blocks64, a.buf, a.s]
  · show h.bytes + data.length = n0 + (pre ++ data).length
    rw [a.bytes, List.length_append, Nat.add_assoc]

theorem absorbedFrom_writeAll {s0 n0 h pre} (a : AbsorbedFrom s0 n0 h pre) (chunks : List Bytes) :
    AbsorbedFrom s0 n0 (writeAll h chunks) (pre ++ chunks.flatten) := by
  induction chunks generalizing h pre with
  | nil => simpa [writeAll] using a
  | cons c cs ih =>
    have := ih (absorbedFrom_write a c)
    simpa [writeAll, List.append_assoc] using this

/-! ### `finalize` -/

/-- The two 4-byte halves written by `finalize` are the 8-byte big-endian bit length. -/
theorem sizedesc_eq (b : Nat) :
    Bytes.ofNat 4 (b >>> 29) ++ Bytes.ofNat 4 (b <<< 3) = Bytes.ofNat 8 (b * 8) := by
  simp only [Bytes.ofNat, Nat.shiftRight_eq_div_pow, Nat.shiftLeft_eq]
  simp only [List.cons_append, List.nil_append]
  repeat (first | rfl | (congr 1; · (congr 1; omega)))

theorem finalize_eq {s0 n0 h pre} (a : AbsorbedFrom s0 n0 h pre) :
    finalize h = hashFrom s0 n0 pre := by
  unfold finalize hashFrom
  simp only
  have h2 := absorbedFrom_write (absorbedFrom_write a
    ((0x80 : UInt8) :: Bytes.zeros ((119 - h.bytes % 64) % 64)))
    (Bytes.ofNat 4 (h.bytes >>> 29) ++ Bytes.ofNat 4 (h.bytes <<< 3))
  rw [h2.s, compressBlocks_eq_absorb _ _ _ (Nat.le_succ _), sizedesc_eq, a.bytes]
  simp [padding, List.append_assoc]

/-- One-shot hashing from a midstate: a block-aligned prefix can be moved into the chaining value. -/
theorem hashFrom_absorb (s : H8) (n : Nat) (a msg : Bytes) (ha : a.length % 64 = 0) :
    hashFrom (absorb s a) (n + a.length) msg = hashFrom s n (a ++ msg) := by
  unfold hashFrom
  simp only
  rw [compressBlocks_eq_absorb _ _ _ (Nat.le_succ _), compressBlocks_eq_absorb _ _ _ (Nat.le_succ _)]
  rw [List.append_assoc, absorb_append _ _ _ ha, List.length_append, Nat.add_assoc]

theorem hashFrom_compress (s : H8) (n : Nat) (blk msg : Bytes) (hb : blk.length = 64) :
    hashFrom (compress s blk) (n + 64) msg = hashFrom s n (blk ++ msg) := by
  have h := hashFrom_absorb s n blk msg (by omega)
  have hc : absorb s blk = compress s blk := by
    have := absorb_block_append s blk [] hb
    rw [List.append_nil] at this
    rw [this, absorb_short _ _ (by simp)]
  rw [hc, hb] at h
  exact h

/-! ### Lengths -/

theorem length_ofNat (n x : Nat) : (Bytes.ofNat n x).length = n := by
  induction n with
  | zero => rfl
  | succ n ih => simp [Bytes.ofNat, ih]

theorem length_digestBytes (s : H8) : (digestBytes s).length = 32 := by
  simp [digestBytes, H8.toList, length_ofNat]

theorem length_hashFrom (s : H8) (n : Nat) (msg : Bytes) : (hashFrom s n msg).length = 32 :=
  length_digestBytes _

theorem length_sha256 (msg : Bytes) : (sha256 msg).length = 32 := length_digestBytes _

theorem length_finalize (h : State) : (finalize h).length = 32 := length_digestBytes _

theorem length_hmac (key msg : Bytes) : (hmac key msg).length = 32 := length_digestBytes _

theorem length_rfc6979GenLoop (fuel : Nat) (k v : Bytes) (outlen : Nat) (acc : Bytes)
    (hf : outlen ≤ fuel * 32) :
    (rfc6979GenLoop fuel k v outlen acc).1.length = acc.length + outlen := by
  induction fuel generalizing v outlen acc with
  | zero =>
    have : outlen = 0 := by omega
    simp [rfc6979GenLoop, this]
  | succ n ih =>
    unfold rfc6979GenLoop
    by_cases h0 : outlen = 0
    · simp [h0]
    · simp only [if_neg h0]
      rw [ih]
      · simp only [List.length_append, List.length_take, length_hmac]
        split <;> omega
      · split <;> omega

end Sha256
end SecpZkp
