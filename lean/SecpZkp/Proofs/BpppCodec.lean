import SecpZkp.Model.Bppp
import SecpZkp.Proofs.GroupExtra
import SecpZkp.Proofs.Codec
import SecpZkp.Proofs.Bytes
/-
  The two-points-in-65-bytes codec (`bppp_util.h`) round-trips on all valid points (including infinity):
  `parse_one_of_points (serialize_points X R) idx` gives back `X` (idx 0) and `R` (idx 1).
-/
namespace SecpZkp
namespace Bppp

theorem sqrt_seven : Fe.sqrt 7 = none := by decide +kernel

theorem isZero_toNat (bs : Bytes) (h : Bytes.isZero bs = true) : Bytes.toNat bs = 0 := by
  induction bs with
  | nil => rfl
  | cons b t ih =>
    simp only [Bytes.isZero, List.all_cons, Bool.and_eq_true, beq_iff_eq] at h
    rw [h.1, SecpZkp.Bytes.toNat_zero_cons]
    exact ih (by simpa [Bytes.isZero] using h.2)

theorem length_be32' (x : Nat) : (Bytes.be32 x).length = 32 := by
  unfold Bytes.be32
  generalize 32 = n
  induction n with
  | zero => rfl
  | succ k ih => simp [Bytes.ofNat, ih]

section
variable [Fact (Nat.Prime P)]

/-- there is no curve point with `x = 0` (7 is not a square mod `P`) -/
theorem valid_x_ne_zero {x y : Nat} (h : (Pt.aff x y).valid = true) : x ≠ 0 := by
  intro hx
  subst hx
  obtain ⟨_, _, hn⟩ := (valid_aff_iff 0 y).1 h
  have he := (W_equation_iff _ _).1 hn.1
  have h7 := (Fe.sqrt_eq_none_iff 7).1 sqrt_seven
  apply h7
  refine ⟨(y : ZMod P), ?_⟩
  rw [he]; simp

/-- shape of the 33-byte extended serialization of a valid point -/
theorem ser33_shape (p : Pt) (hv : p.valid = true) :
    (p = .inf ∧ geSerializeExt p = 0 :: Bytes.zeros 32) ∨
    (∃ x y, p = .aff x y ∧ geSerializeExt p = (if Fe.isOdd y then (3 : UInt8) else 2) :: Bytes.be32 x ∧
      Bytes.isZero (Bytes.be32 x) = false ∧ x < P) := by
  cases p with
  | inf => exact Or.inl ⟨rfl, rfl⟩
  | aff x y =>
    refine Or.inr ⟨x, y, rfl, rfl, ?_, ?_⟩
    · have hx0 := valid_x_ne_zero hv
      have hxP := ((valid_aff_iff x y).1 hv).1
      cases hz : Bytes.isZero (Bytes.be32 x) with
      | false => rfl
      | true =>
        have := isZero_toNat _ hz
        rw [SecpZkp.Bytes.toNat_be32 (lt_trans hxP (by decide +kernel))] at this
        exact absurd this hx0
    · exact ((valid_aff_iff x y).1 hv).1

omit [Fact (Nat.Prime P)] in
theorem geParseExt_zeros : geParseExt (Bytes.zeros 33) = some .inf := by decide

theorem geParseExt_aff {x y : Nat} (hv : (Pt.aff x y).valid = true) :
    geParseExt ((if Fe.isOdd y then (3 : UInt8) else 2) :: Bytes.be32 x) = some (.aff x y) := by
  have hxP := ((valid_aff_iff x y).1 hv).1
  have hnz : Bytes.isZero ((if Fe.isOdd y then (3 : UInt8) else 2) :: Bytes.be32 x) = false := by
    simp only [Bytes.isZero, List.all_cons]
    split <;> simp
  unfold geParseExt
  rw [hnz]
  simp only [Bool.false_eq_true, if_false]
  rw [CodecLemmas.pubkeyParse_cons, if_pos ⟨length_be32' x, by split <;> simp⟩,
    SecpZkp.Bytes.toNat_be32 (lt_trans hxP (by decide +kernel)), if_pos hxP]
  have := liftX_of_valid hv
  cases ho : Fe.isOdd y
  · rw [ho] at this; simpa using this
  · rw [ho] at this; simpa using this

omit [Fact (Nat.Prime P)] in
/-- `parse_one_of_points` on a well-shaped 65-byte string -/
theorem parse_shape (b0 : UInt8) (xa xb : Bytes) (ha : xa.length = 32) (hb : xb.length = 32) :
    parseOneOfPoints (b0 :: (xa ++ xb)) 0 =
      (if b0 > 3 then none else
       if !Bytes.isZero xa then geParseExt (((2 : UInt8) ||| ((b0 &&& 2) >>> 1)) :: xa)
       else if b0 &&& 2 ≠ 0 then none else geParseExt (Bytes.zeros 33)) ∧
    parseOneOfPoints (b0 :: (xa ++ xb)) 1 =
      (if b0 > 3 then none else
       if !Bytes.isZero xb then geParseExt (((2 : UInt8) ||| ((b0 &&& 1) >>> 0)) :: xb)
       else if b0 &&& 1 ≠ 0 then none else geParseExt (Bytes.zeros 33)) := by
  have h0 : ((b0 :: (xa ++ xb)).drop (1 + 32 * 0)).take 32 = xa := by
    show ((xa ++ xb).drop 0).take 32 = xa
    rw [List.drop_zero, List.take_append_of_le_length (by omega), List.take_of_length_le (by omega)]
  have h1 : ((b0 :: (xa ++ xb)).drop (1 + 32 * 1)).take 32 = xb := by
    show ((xa ++ xb).drop 32).take 32 = xb
    rw [List.drop_append_of_le_length (by omega), List.drop_of_length_le (by omega), List.nil_append,
      List.take_of_length_le (by omega)]
  unfold parseOneOfPoints
  simp only [h0, h1, List.headD_cons]
  exact ⟨rfl, rfl⟩

omit [Fact (Nat.Prime P)] in
theorem tag_facts : ∀ t1 ∈ [(0 : UInt8), 2, 3], ∀ t2 ∈ [(0 : UInt8), 2, 3],
    ¬ (((t1 &&& 1) <<< 1) ||| (t2 &&& 1)) > 3 ∧
    (t1 ≠ 0 → (2 : UInt8) ||| (((((t1 &&& 1) <<< 1) ||| (t2 &&& 1)) &&& 2) >>> 1) = t1) ∧
    (t1 = 0 → (((t1 &&& 1) <<< 1) ||| (t2 &&& 1)) &&& 2 = 0) ∧
    (t2 ≠ 0 → (2 : UInt8) ||| (((((t1 &&& 1) <<< 1) ||| (t2 &&& 1)) &&& 1) >>> 0) = t2) ∧
    (t2 = 0 → (((t1 &&& 1) <<< 1) ||| (t2 &&& 1)) &&& 1 = 0) := by decide

/-- the tag byte and the 32 `x` bytes of a valid point -/
theorem slot (p : Pt) (hv : p.valid = true) :
    ∃ (t : UInt8) (xb : Bytes), geSerializeExt p = t :: xb ∧ xb.length = 32 ∧ t ∈ [(0 : UInt8), 2, 3] ∧
      ((t = 0 ∧ Bytes.isZero xb = true ∧ p = .inf) ∨
       (t ≠ 0 ∧ Bytes.isZero xb = false ∧ geParseExt (t :: xb) = some p)) := by
  rcases ser33_shape p hv with ⟨rfl, sp⟩ | ⟨x, y, rfl, sp, nz, _⟩
  · exact ⟨0, Bytes.zeros 32, sp, by simp [Bytes.zeros], by simp, Or.inl ⟨rfl, by decide, rfl⟩⟩
  · refine ⟨_, _, sp, length_be32' x, ?_, Or.inr ⟨?_, nz, geParseExt_aff hv⟩⟩
    · split <;> simp
    · split <;> simp

/-- **The point-pair codec round-trips**: both points of `serialize_points X R` parse back. -/
theorem parse_serializePoints (p q : Pt) (hp : p.valid = true) (hq : q.valid = true) :
    parseOneOfPoints (serializePoints p q) 0 = some p ∧ parseOneOfPoints (serializePoints p q) 1 = some q := by
  obtain ⟨t1, xa, s1, la, m1, c1⟩ := slot p hp
  obtain ⟨t2, xb, s2, lb, m2, c2⟩ := slot q hq
  have hser : serializePoints p q = (((t1 &&& 1) <<< 1) ||| (t2 &&& 1)) :: (xa ++ xb) := by
    unfold serializePoints; rw [s1, s2]; rfl
  obtain ⟨f1, f2, f3, f4, f5⟩ := tag_facts t1 m1 t2 m2
  obtain ⟨e0, e1⟩ := parse_shape (((t1 &&& 1) <<< 1) ||| (t2 &&& 1)) xa xb la lb
  rw [hser, e0, e1]
  simp only [if_neg f1]
  constructor
  · rcases c1 with ⟨h0, hz, rfl⟩ | ⟨h0, hz, hparse⟩
    · rw [hz]; simp only [Bool.not_true, Bool.false_eq_true, if_false]
      rw [f3 h0]; simp [geParseExt_zeros]
    · rw [hz]; simp only [Bool.not_false, if_true]
      rw [f2 h0, hparse]
  · rcases c2 with ⟨h0, hz, rfl⟩ | ⟨h0, hz, hparse⟩
    · rw [hz]; simp only [Bool.not_true, Bool.false_eq_true, if_false]
      rw [f5 h0]; simp [geParseExt_zeros]
    · rw [hz]; simp only [Bool.not_false, if_true]
      rw [f4 h0, hparse]

omit [Fact (Nat.Prime P)] in
/-- a serialized point pair has 65 bytes -/
theorem length_serializePoints (p q : Pt) : (serializePoints p q).length = 65 := by
  have h33 : ∀ r : Pt, (geSerializeExt r).length = 33 := by
    intro r; cases r with
    | inf => simp [geSerializeExt, Codec.serialize33, Bytes.zeros]
    | aff x y => simp [geSerializeExt, Codec.serialize33]
  unfold serializePoints
  simp only [List.length_cons, List.length_append, List.length_drop, h33]

end
end Bppp
end SecpZkp

