import SecpZkp.Proofs.Affine
/-
  The Jacobian-coordinate formulas (`Jac.dbl`, `Jac.addAff`, `Jac.mulAux`) used to execute `Pt.mul`
  compute the same canonical affine points as the affine specification (`Pt.dbl`, `Pt.add`,
  `Pt.mulSpec`).
-/
namespace SecpZkp
open Pt

section PrimeP
variable [Fact (Nat.Prime P)]

theorem aff_eq_of_cast {a b c d : ℕ} (ha : a < P) (hb : b < P) (hc : c < P) (hd : d < P)
    (h1 : (a : ZMod P) = c) (h2 : (b : ZMod P) = d) : Pt.aff a b = Pt.aff c d := by
  rw [Fe.eq_of_cast_eq ha hc h1, Fe.eq_of_cast_eq hb hd h2]

theorem cast_ne_zero_of_mod {a : ℕ} (h : a % P ≠ 0) : (a : ZMod P) ≠ 0 :=
  fun h0 => h ((Fe.cast_eq_zero_iff a).1 h0)

theorem mod_ne_zero_of_cast {a : ℕ} (h : (a : ZMod P) ≠ 0) : a % P ≠ 0 :=
  fun h0 => h ((Fe.cast_eq_zero_iff a).2 h0)

namespace Pt.Jac

omit [Fact (Nat.Prime P)] in
theorem toPt_mk_zero {x y z : ℕ} (h : z % P = 0) : Jac.toPt ⟨x, y, z⟩ = .inf := by
  unfold Jac.toPt; rw [if_pos h]

omit [Fact (Nat.Prime P)] in
theorem toPt_mk_ne {x y z : ℕ} (h : z % P ≠ 0) : Jac.toPt ⟨x, y, z⟩ =
    .aff (Fe.mul x (Fe.sqr (Fe.inv z))) (Fe.mul y (Fe.mul (Fe.sqr (Fe.inv z)) (Fe.inv z))) := by
  unfold Jac.toPt; rw [if_neg h]

omit [Fact (Nat.Prime P)] in
theorem toPt_infinity : Jac.toPt Jac.infinity = .inf := toPt_mk_zero (by decide)

/-- Jacobian doubling computes the affine doubling (no validity needed). -/
theorem toPt_dbl (j : Jac) : (Jac.dbl j).toPt = Pt.dbl j.toPt := by
  obtain ⟨x, y, z⟩ := j
  by_cases hz : z % P = 0
  · have : Jac.dbl ⟨x, y, z⟩ = Jac.infinity := by
      unfold Jac.dbl; rw [if_pos (Or.inl hz)]
    rw [this, toPt_mk_zero hz, toPt_infinity]; rfl
  · by_cases hy : y % P = 0
    · have : Jac.dbl ⟨x, y, z⟩ = Jac.infinity := by
        unfold Jac.dbl; rw [if_pos (Or.inr hy)]
      rw [this, toPt_infinity, toPt_mk_ne hz, Pt.dbl, if_pos]
      rw [← Fe.cast_eq_zero_iff, Fe.cast_mul, (Fe.cast_eq_zero_iff _).2 hy, zero_mul]
    · have hzc := cast_ne_zero_of_mod hz
      have hyc := cast_ne_zero_of_mod hy
      have h2 : (2 : ZMod P) ≠ 0 := zmodP_two_ne_zero
      have hz3 : Fe.mul 2 (Fe.mul y z) % P ≠ 0 := by
        apply mod_ne_zero_of_cast
        simp only [Fe.cast_mul, Nat.cast_ofNat]
        exact mul_ne_zero h2 (mul_ne_zero hyc hzc)
      have hY : Fe.mul y (Fe.mul (Fe.sqr (Fe.inv z)) (Fe.inv z)) % P ≠ 0 := by
        apply mod_ne_zero_of_cast
        simp only [Fe.cast_mul, Fe.cast_sqr, Fe.cast_inv]
        exact mul_ne_zero hyc (mul_ne_zero (mul_ne_zero (inv_ne_zero hzc) (inv_ne_zero hzc))
          (inv_ne_zero hzc))
      unfold Jac.dbl
      rw [if_neg (not_or.2 ⟨hz, hy⟩)]
      dsimp only
      rw [toPt_mk_ne hz3, toPt_mk_ne hz, Pt.dbl, if_neg hY]
      dsimp only
      apply aff_eq_of_cast (Fe.mul_lt_P _ _) (Fe.mul_lt_P _ _) (Fe.sub_lt_P _ _) (Fe.sub_lt_P _ _)
      · simp only [Fe.cast_mul, Fe.cast_sqr, Fe.cast_inv, Fe.cast_sub, Fe.cast_add,
          Nat.cast_ofNat]
        field_simp
        ring
      · simp only [Fe.cast_mul, Fe.cast_sqr, Fe.cast_inv, Fe.cast_sub, Fe.cast_add,
          Nat.cast_ofNat]
        field_simp
        ring

/-- Mixed Jacobian + affine addition computes the affine chord-and-tangent law. -/
theorem toPt_addAff (j : Jac) (x2 y2 : ℕ) (hj : j.toPt.valid = true)
    (hq : (Pt.aff x2 y2).valid = true) :
    (Jac.addAff j x2 y2).toPt = Pt.add j.toPt (.aff x2 y2) := by
  obtain ⟨x, y, z⟩ := j
  obtain ⟨hx2, hy2, hn2⟩ := (valid_aff_iff x2 y2).1 hq
  by_cases hz : z % P = 0
  · have : Jac.addAff ⟨x, y, z⟩ x2 y2 = ⟨x2, y2, 1⟩ := by
      unfold Jac.addAff; rw [if_pos hz]
    rw [this, toPt_mk_zero hz, toPt_mk_ne (by decide), Pt.add]
    apply aff_eq_of_cast (Fe.mul_lt_P _ _) (Fe.mul_lt_P _ _) hx2 hy2
    · simp only [Fe.cast_mul, Fe.cast_sqr, Fe.cast_inv, Nat.cast_one, inv_one, mul_one]
    · simp only [Fe.cast_mul, Fe.cast_sqr, Fe.cast_inv, Nat.cast_one, inv_one, mul_one]
  · have hzc := cast_ne_zero_of_mod hz
    rw [toPt_mk_ne hz] at hj ⊢
    obtain ⟨hX1, hY1, hn1⟩ := (valid_aff_iff _ _).1 hj
    -- the two branch conditions, in the field
    have hh : Fe.sub (Fe.mul x2 (Fe.sqr z)) x = 0 ↔
        Fe.mul x (Fe.sqr (Fe.inv z)) = x2 := by
      rw [← Fe.cast_eq_iff (Fe.sub_lt_P _ _) P_pos, ← Fe.cast_eq_iff (Fe.mul_lt_P _ _) hx2]
      simp only [Fe.cast_mul, Fe.cast_sqr, Fe.cast_inv, Fe.cast_sub, Nat.cast_zero]
      constructor
      · intro h; field_simp; linear_combination -h
      · intro h; rw [← h]; field_simp; ring
    have hr : Fe.sub (Fe.mul y2 (Fe.mul z (Fe.sqr z))) y = 0 ↔
        Fe.mul y (Fe.mul (Fe.sqr (Fe.inv z)) (Fe.inv z)) = y2 := by
      rw [← Fe.cast_eq_iff (Fe.sub_lt_P _ _) P_pos, ← Fe.cast_eq_iff (Fe.mul_lt_P _ _) hy2]
      simp only [Fe.cast_mul, Fe.cast_sqr, Fe.cast_inv, Fe.cast_sub, Nat.cast_zero]
      constructor
      · intro h; field_simp; linear_combination -h
      · intro h; rw [← h]; field_simp; ring
    by_cases h0 : Fe.sub (Fe.mul x2 (Fe.sqr z)) x = 0
    · have hxe := hh.1 h0
      by_cases r0 : Fe.sub (Fe.mul y2 (Fe.mul z (Fe.sqr z))) y = 0
      · have hye := hr.1 r0
        have : Jac.addAff ⟨x, y, z⟩ x2 y2 = Jac.dbl ⟨x, y, z⟩ := by
          unfold Jac.addAff; rw [if_neg hz]; dsimp only; rw [if_pos h0, if_pos r0]
        rw [this, toPt_dbl, toPt_mk_ne hz, ← hxe, ← hye, Pt.add, if_pos rfl]
        split
        · next hs =>
          rw [Pt.dbl, if_pos]
          have h2 : (2 : ZMod P) ≠ 0 := zmodP_two_ne_zero
          rw [← Fe.cast_eq_zero_iff] at hs ⊢
          rw [Nat.cast_add] at hs
          have : 2 * ((Fe.mul y (Fe.mul (Fe.sqr (Fe.inv z)) (Fe.inv z)) : ℕ) : ZMod P) = 0 := by
            linear_combination hs
          exact (mul_eq_zero.1 this).resolve_left h2
        · rfl
      · have hye : ¬ Fe.mul y (Fe.mul (Fe.sqr (Fe.inv z)) (Fe.inv z)) = y2 := fun h => r0 (hr.2 h)
        have : Jac.addAff ⟨x, y, z⟩ x2 y2 = Jac.infinity := by
          unfold Jac.addAff; rw [if_neg hz]; dsimp only; rw [if_pos h0, if_neg r0]
        rw [this, toPt_infinity, Pt.add, if_pos hxe, if_pos]
        have hxc : ((Fe.mul x (Fe.sqr (Fe.inv z)) : ℕ) : ZMod P) = (x2 : ZMod P) := by rw [hxe]
        rcases WeierstrassCurve.Affine.Y_eq_of_X_eq hn1.1 hn2.1 hxc with h | h
        · exact absurd (Fe.eq_of_cast_eq hY1 hy2 h) hye
        · rw [← Fe.cast_eq_zero_iff, Nat.cast_add, h, W_negY]; ring
    · have hxe : ¬ Fe.mul x (Fe.sqr (Fe.inv z)) = x2 := fun h => h0 (hh.2 h)
      have h0c : (x2 : ZMod P) * ((z : ZMod P) * z) - x ≠ 0 := by
        intro h
        apply h0
        apply Fe.eq_of_cast_eq (Fe.sub_lt_P _ _) P_pos
        simp only [Fe.cast_mul, Fe.cast_sqr, Fe.cast_sub, Nat.cast_zero]
        exact h
      have hz3 : Fe.mul z (Fe.sub (Fe.mul x2 (Fe.sqr z)) x) % P ≠ 0 := by
        apply mod_ne_zero_of_cast
        simp only [Fe.cast_mul, Fe.cast_sqr, Fe.cast_sub]
        exact mul_ne_zero hzc h0c
      unfold Jac.addAff
      rw [if_neg hz]
      dsimp only
      rw [if_neg h0, toPt_mk_ne hz3, Pt.add, if_neg hxe]
      dsimp only
      obtain ⟨H, hHdef⟩ : ∃ H : ZMod P, H = (x2 : ZMod P) * ((z : ZMod P) * z) - x := ⟨_, rfl⟩
      have hH0 : H ≠ 0 := by rw [hHdef]; exact h0c
      have hx : (x : ZMod P) = x2 * ((z : ZMod P) * z) - H := by rw [hHdef]; ring
      apply aff_eq_of_cast (Fe.mul_lt_P _ _) (Fe.mul_lt_P _ _) (Fe.sub_lt_P _ _) (Fe.sub_lt_P _ _)
      · simp only [Fe.cast_mul, Fe.cast_sqr, Fe.cast_inv, Fe.cast_sub, Nat.cast_ofNat]
        rw [hx]
        simp only [sub_sub_cancel]
        have e : (x2 : ZMod P) - (x2 * ((z : ZMod P) * z) - H) * ((z : ZMod P)⁻¹ * (z : ZMod P)⁻¹)
            = H * ((z : ZMod P)⁻¹ * (z : ZMod P)⁻¹) := by field_simp; ring
        rw [e]
        field_simp
        ring
      · simp only [Fe.cast_mul, Fe.cast_sqr, Fe.cast_inv, Fe.cast_sub, Nat.cast_ofNat]
        rw [hx]
        simp only [sub_sub_cancel]
        have e : (x2 : ZMod P) - (x2 * ((z : ZMod P) * z) - H) * ((z : ZMod P)⁻¹ * (z : ZMod P)⁻¹)
            = H * ((z : ZMod P)⁻¹ * (z : ZMod P)⁻¹) := by field_simp; ring
        rw [e]
        field_simp
        ring

/-- The Jacobian double-and-add computes the affine double-and-add, for every scalar. -/
theorem toPt_mulAux {x y : ℕ} (hp : (Pt.aff x y).valid = true) : ∀ (fuel k : ℕ),
    (Jac.mulAux fuel k x y).toPt = Pt.mulSpecAux fuel k (.aff x y) := by
  intro fuel
  induction fuel with
  | zero => intro k; exact toPt_infinity
  | succ n ih =>
    intro k
    rw [Jac.mulAux, Pt.mulSpecAux]
    split
    · exact toPt_infinity
    · dsimp only
      have hd : (Jac.dbl (Jac.mulAux n (k / 2) x y)).toPt =
          Pt.dbl (Pt.mulSpecAux n (k / 2) (.aff x y)) := by rw [toPt_dbl, ih]
      split
      · rw [toPt_addAff _ _ _ _ hp, hd]
        rw [hd]; exact valid_dbl (valid_mulSpecAux hp _ _)
      · exact hd

end Pt.Jac

omit [Fact (Nat.Prime P)] in
theorem mulSpecAux_inf : ∀ (fuel k : ℕ), Pt.mulSpecAux fuel k .inf = .inf := by
  intro fuel
  induction fuel with
  | zero => intro k; rfl
  | succ n ih =>
    intro k
    rw [Pt.mulSpecAux]
    split
    · rfl
    · dsimp only; rw [ih]; split <;> rfl

/-- `Pt.mul` (Jacobian execution) equals the affine specification `Pt.mulSpec`, for every scalar. -/
theorem mul_eq_mulSpec (k : ℕ) {p : Pt} (hp : p.valid = true) : Pt.mul k p = Pt.mulSpec k p := by
  cases p with
  | inf => rw [Pt.mul, Pt.mulSpec, mulSpecAux_inf]
  | aff x y => rw [Pt.mul, Pt.mulSpec, Jac.toPt_mulAux hp]

theorem valid_mul (k : ℕ) {p : Pt} (hp : p.valid = true) : (Pt.mul k p).valid = true := by
  rw [mul_eq_mulSpec k hp]; exact valid_mulSpecAux hp _ _

/-- `Pt.mul k p` is `k • p` in Mathlib's point group, for `k` below the fuel bound. -/
theorem toPoint_mul {k : ℕ} (hk : k < 2 ^ 264) {p : Pt} (hp : p.valid = true) :
    toPoint (Pt.mul k p) = k • toPoint p := by
  rw [mul_eq_mulSpec k hp]; exact toPoint_mulSpec hp hk

end PrimeP
end SecpZkp
