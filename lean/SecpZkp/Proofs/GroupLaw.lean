import SecpZkp.Model.Curve
/-
  The interface between the arithmetic layer and the protocol layer.

  `GroupLaw` bundles exactly the facts about the executable curve model (`Pt.add`, `Pt.neg`, `Pt.mul`,
  `Pt.valid`, `Pt.G`) that protocol-level proofs use.  It is *proved* in `Proofs/Group.lean`
  (`groupLaw_holds`) from the refinement of the Nat-level formulas to Mathlib's
  `WeierstrassCurve.Affine.Point` over `ZMod P`; protocol proofs (`Proofs/Algebra.lean` and the files
  under `Props/`) only depend on this structure, never on field arithmetic.

  Valid points are in canonical form (`x, y < P`), so equality of valid points is syntactic equality.
-/
namespace SecpZkp

/-- Scalars handed to `Pt.mul` are always below this bound (the double-and-add fuel is 264). -/
def mulBound : Nat := 2 ^ 264

structure GroupLaw : Prop where
  prime_P : ∀ d, d ∣ P → d = 1 ∨ d = P
  prime_N : ∀ d, d ∣ N → d = 1 ∨ d = N
  valid_G : Pt.G.valid = true
  valid_add : ∀ p q : Pt, p.valid = true → q.valid = true → (Pt.add p q).valid = true
  valid_neg : ∀ p : Pt, p.valid = true → (Pt.neg p).valid = true
  add_comm : ∀ p q : Pt, p.valid = true → q.valid = true → Pt.add p q = Pt.add q p
  add_assoc : ∀ p q r : Pt, p.valid = true → q.valid = true → r.valid = true →
    Pt.add (Pt.add p q) r = Pt.add p (Pt.add q r)
  add_neg : ∀ p : Pt, p.valid = true → Pt.add p (Pt.neg p) = Pt.inf
  /-- `Pt.mul` (executed in Jacobian coordinates) is repeated addition -/
  mul_zero : ∀ p : Pt, Pt.mul 0 p = Pt.inf
  mul_succ : ∀ (k : Nat) (p : Pt), p.valid = true → k + 1 < mulBound →
    Pt.mul (k + 1) p = Pt.add (Pt.mul k p) p
  /-- the generator has order dividing n (hence exactly n, n being prime and G ≠ ∞) -/
  mul_N_G : Pt.mul N Pt.G = Pt.inf

end SecpZkp
