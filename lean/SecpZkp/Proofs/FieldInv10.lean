/-
  Helpers for `Props/C05_fieldinv.lean`: representation invariants of the 10×26 field stronger than what
  `secp256k1_fe_impl_verify` checks, and the exactness of the 10×26 `normalize` / `normalize_weak` under the
  precise condition that the 32-bit additions of their first pass do not wrap.

  * `NoOvf10`  : magnitude ≤ 32 and `n[0] + 977 x < 2^32`, `n[1] + 64 x + ((n[0] + 977 x) >> 26) < 2^32` for
                 `x = n[9] >> 22` (the two additions `t0 += x * 0x3D1` and `t1 += (x << 6); t1 += (t0 >> 26)`)
  * `fe_normalize_10x26_exact_key`, `fe_normalize_weak_10x26_exact_key` : both functions are exact under `NoOvf10`
    (wrap-around semantics evaluated directly; subsumes the interval version `NormPre10`)
  * `Tight10 · a m` : limb `i` is at most `2 m p_i` (`p_i` the limbs of `p`)
  * `Inv10 · a m`   : magnitude `m` and the two JOINT bounds
                       `n0 + 977 n9 / (2^22-1) ≤ m 2^27`,  `n0 + 2^26 n1 + (2^32+977) n9 / (2^22-1) ≤ m 2^53`
                      (closed under every translated producer including `half`; `Tight10 → Inv10 → NoOvf10` at 32)
  * key lemmas for `negate`, `half` on `runW`.

  No axioms beyond propext / Classical.choice / Quot.sound.
-/
import SecpZkp.Proofs.FieldLinear

namespace SecpZkp
namespace FieldLinear
open MiniC MiniC.Bounds FieldKernel

/-! ### the exact no-overflow condition of the first pass of `normalize` / `normalize_weak` (10×26) -/

/-- magnitude ≤ 32, and the 32-bit additions `t0 += x * 0x3D1`, `t1 += (x << 6); t1 += (t0 >> 26)` (with
    `x = n[9] >> 22`) stay below `2^32` -/
def NoOvf10 (env : Env) (a : String) : Prop :=
  Mag10 env a 32 ∧ env.get a 0 + env.get a 9 / 2 ^ 22 * 977 < 2 ^ 32 ∧
  env.get a 1 + env.get a 9 / 2 ^ 22 * 64 + (env.get a 0 + env.get a 9 / 2 ^ 22 * 977) / 2 ^ 26 < 2 ^ 32

instance (env : Env) (a : String) : Decidable (NoOvf10 env a) := inferInstanceAs (Decidable (_ ∧ _))

theorem noOvf10_of_normPre10 {env : Env} {a : String} (h : NormPre10 env a) : NoOvf10 env a := by
  simp only [NormPre10, NoOvf10, Mag10, Nat.reducePow] at h ⊢
  omega

set_option maxRecDepth 100000 in
set_option maxHeartbeats 2000000 in
/-- `secp256k1_fe_impl_normalize_weak` (10×26) is exact whenever the first-pass additions do not wrap -/
theorem fe_normalize_weak_10x26_exact_key (env : Env) (h : NoOvf10 env "r.n") :
    val10At (runW env Gen.field10x26.fe_normalize_weak.body) "r.n" % P = val10At env "r.n" % P ∧
    (runW env Gen.field10x26.fe_normalize_weak.body).get "r.n" 0 < 2 ^ 26 ∧
    (runW env Gen.field10x26.fe_normalize_weak.body).get "r.n" 1 < 2 ^ 26 ∧
    (runW env Gen.field10x26.fe_normalize_weak.body).get "r.n" 2 < 2 ^ 26 ∧
    (runW env Gen.field10x26.fe_normalize_weak.body).get "r.n" 3 < 2 ^ 26 ∧
    (runW env Gen.field10x26.fe_normalize_weak.body).get "r.n" 4 < 2 ^ 26 ∧
    (runW env Gen.field10x26.fe_normalize_weak.body).get "r.n" 5 < 2 ^ 26 ∧
    (runW env Gen.field10x26.fe_normalize_weak.body).get "r.n" 6 < 2 ^ 26 ∧
    (runW env Gen.field10x26.fe_normalize_weak.body).get "r.n" 7 < 2 ^ 26 ∧
    (runW env Gen.field10x26.fe_normalize_weak.body).get "r.n" 8 < 2 ^ 26 ∧
    (runW env Gen.field10x26.fe_normalize_weak.body).get "r.n" 9 ≤ 2 ^ 22 + 62 := by
  simp only [NoOvf10, Mag10] at h
  simp only [Gen.field10x26.fe_normalize_weak, val10At, val10]
  minic_evalW
  generalize env.get "r.n" 0 = r0 at *
  generalize env.get "r.n" 1 = r1 at *
  generalize env.get "r.n" 2 = r2 at *
  generalize env.get "r.n" 3 = r3 at *
  generalize env.get "r.n" 4 = r4 at *
  generalize env.get "r.n" 5 = r5 at *
  generalize env.get "r.n" 6 = r6 at *
  generalize env.get "r.n" 7 = r7 at *
  generalize env.get "r.n" 8 = r8 at *
  generalize env.get "r.n" 9 = r9 at *
  simp only [Nat.reducePow, and_M26, and_M22, P, mod26_mod32, mod22_mod32] at h ⊢
  generalize hx : r9 / 4194304 = x at *
  have hx63 : x ≤ 63 := by omega
  generalize ht0 : (r0 + x * 977 % 18446744073709551616) % 18446744073709551616 % 4294967296 = t0 at *
  have e0 : t0 = r0 + x * 977 := by omega
  clear ht0
  generalize ht1 : ((r1 + x * 64 % 4294967296) % 4294967296 + t0 / 67108864) % 4294967296 = t1 at *
  have e1 : t1 = r1 + x * 64 + t0 / 67108864 := by omega
  clear ht1
  generalize ht2 : (r2 + t1 / 67108864) % 4294967296 = t2 at *
  have e2 : t2 = r2 + t1 / 67108864 := by omega
  clear ht2
  generalize ht3 : (r3 + t2 / 67108864) % 4294967296 = t3 at *
  have e3 : t3 = r3 + t2 / 67108864 := by omega
  clear ht3
  generalize ht4 : (r4 + t3 / 67108864) % 4294967296 = t4 at *
  have e4 : t4 = r4 + t3 / 67108864 := by omega
  clear ht4
  generalize ht5 : (r5 + t4 / 67108864) % 4294967296 = t5 at *
  have e5 : t5 = r5 + t4 / 67108864 := by omega
  clear ht5
  generalize ht6 : (r6 + t5 / 67108864) % 4294967296 = t6 at *
  have e6 : t6 = r6 + t5 / 67108864 := by omega
  clear ht6
  generalize ht7 : (r7 + t6 / 67108864) % 4294967296 = t7 at *
  have e7 : t7 = r7 + t6 / 67108864 := by omega
  clear ht7
  generalize ht8 : (r8 + t7 / 67108864) % 4294967296 = t8 at *
  have e8 : t8 = r8 + t7 / 67108864 := by omega
  clear ht8
  generalize ht9 : (r9 % 4194304 + t8 / 67108864) % 4294967296 = t9 at *
  have e9 : t9 = r9 % 4194304 + t8 / 67108864 := by omega
  clear ht9
  have hT : t0 % 67108864 + t1 % 67108864 * 67108864 + t2 % 67108864 * 4503599627370496 + t3 % 67108864 * 302231454903657293676544 + t4 % 67108864 * 20282409603651670423947251286016 + t5 % 67108864 * 1361129467683753853853498429727072845824 + t6 % 67108864 * 91343852333181432387730302044767688728495783936 + t7 % 67108864 * 6129982163463555433433388108601236734474956488734408704 + t8 % 67108864 * 411376139330301510538742295639337626245683966408394965837152256 + t9 * 27606985387162255149739023449108101809804435888681546220650096895197184 +
      x * 115792089237316195423570985008687907853269984665640564039457584007908834671663 =
      r0 + r1 * 67108864 + r2 * 4503599627370496 + r3 * 302231454903657293676544 + r4 * 20282409603651670423947251286016 + r5 * 1361129467683753853853498429727072845824 + r6 * 91343852333181432387730302044767688728495783936 + r7 * 6129982163463555433433388108601236734474956488734408704 + r8 * 411376139330301510538742295639337626245683966408394965837152256 + r9 * 27606985387162255149739023449108101809804435888681546220650096895197184 := by omega
  have hb9 : t9 ≤ 4194303 + 63 := by omega
  refine ⟨by omega, by omega, by omega, by omega, by omega, by omega, by omega, by omega, by omega, by omega, hb9⟩

set_option maxRecDepth 100000 in
set_option maxHeartbeats 4000000 in
/-- `secp256k1_fe_impl_normalize` (10×26) is exact whenever the first-pass additions do not wrap
    (same structure as `fe_normalize_5x52_key`, every `uint32_t` truncation discharged) -/
theorem fe_normalize_10x26_exact_key (env : Env) (h : NoOvf10 env "r.n") :
    Red10 (runW env Gen.field10x26.fe_normalize.body) "r.n" ∧
    val10At (runW env Gen.field10x26.fe_normalize.body) "r.n" < P ∧
    val10At (runW env Gen.field10x26.fe_normalize.body) "r.n" % P = val10At env "r.n" % P := by
  simp only [NoOvf10, Mag10] at h
  simp only [Gen.field10x26.fe_normalize, Red10, val10At, val10]
  minic_evalW
  generalize env.get "r.n" 0 = r0 at *
  generalize env.get "r.n" 1 = r1 at *
  generalize env.get "r.n" 2 = r2 at *
  generalize env.get "r.n" 3 = r3 at *
  generalize env.get "r.n" 4 = r4 at *
  generalize env.get "r.n" 5 = r5 at *
  generalize env.get "r.n" 6 = r6 at *
  generalize env.get "r.n" 7 = r7 at *
  generalize env.get "r.n" 8 = r8 at *
  generalize env.get "r.n" 9 = r9 at *
  simp only [Nat.reducePow, and_M26, and_M22, P, mod26_mod32, mod22_mod32] at h ⊢
  generalize hx : r9 / 4194304 = x at *
  have hx63 : x ≤ 63 := by omega
  generalize ht0 : (r0 + x * 977 % 18446744073709551616) % 18446744073709551616 % 4294967296 = t0 at *
  have e0 : t0 = r0 + x * 977 := by omega
  clear ht0
  generalize ht1 : ((r1 + x * 64 % 4294967296) % 4294967296 + t0 / 67108864) % 4294967296 = t1 at *
  have e1 : t1 = r1 + x * 64 + t0 / 67108864 := by omega
  clear ht1
  generalize ht2 : (r2 + t1 / 67108864) % 4294967296 = t2 at *
  have e2 : t2 = r2 + t1 / 67108864 := by omega
  clear ht2
  generalize ht3 : (r3 + t2 / 67108864) % 4294967296 = t3 at *
  have e3 : t3 = r3 + t2 / 67108864 := by omega
  clear ht3
  generalize ht4 : (r4 + t3 / 67108864) % 4294967296 = t4 at *
  have e4 : t4 = r4 + t3 / 67108864 := by omega
  clear ht4
  generalize ht5 : (r5 + t4 / 67108864) % 4294967296 = t5 at *
  have e5 : t5 = r5 + t4 / 67108864 := by omega
  clear ht5
  generalize ht6 : (r6 + t5 / 67108864) % 4294967296 = t6 at *
  have e6 : t6 = r6 + t5 / 67108864 := by omega
  clear ht6
  generalize ht7 : (r7 + t6 / 67108864) % 4294967296 = t7 at *
  have e7 : t7 = r7 + t6 / 67108864 := by omega
  clear ht7
  generalize ht8 : (r8 + t7 / 67108864) % 4294967296 = t8 at *
  have e8 : t8 = r8 + t7 / 67108864 := by omega
  clear ht8
  generalize ht9 : (r9 % 4194304 + t8 / 67108864) % 4294967296 = t9 at *
  have e9 : t9 = r9 % 4194304 + t8 / 67108864 := by omega
  clear ht9
  have hT : t0 % 67108864 + t1 % 67108864 * 67108864 + t2 % 67108864 * 4503599627370496 + t3 % 67108864 * 302231454903657293676544 + t4 % 67108864 * 20282409603651670423947251286016 + t5 % 67108864 * 1361129467683753853853498429727072845824 + t6 % 67108864 * 91343852333181432387730302044767688728495783936 + t7 % 67108864 * 6129982163463555433433388108601236734474956488734408704 + t8 % 67108864 * 411376139330301510538742295639337626245683966408394965837152256 + t9 * 27606985387162255149739023449108101809804435888681546220650096895197184 +
      x * 115792089237316195423570985008687907853269984665640564039457584007908834671663 =
      r0 + r1 * 67108864 + r2 * 4503599627370496 + r3 * 302231454903657293676544 + r4 * 20282409603651670423947251286016 + r5 * 1361129467683753853853498429727072845824 + r6 * 91343852333181432387730302044767688728495783936 + r7 * 6129982163463555433433388108601236734474956488734408704 + r8 * 411376139330301510538742295639337626245683966408394965837152256 + r9 * 27606985387162255149739023449108101809804435888681546220650096895197184 := by omega
  have hb9 : t9 ≤ 4194303 + 63 := by omega
  generalize hs0 : t0 % 67108864 = s0 at *
  generalize hs1 : t1 % 67108864 = s1 at *
  generalize hs2 : t2 % 67108864 = s2 at *
  generalize hs3 : t3 % 67108864 = s3 at *
  generalize hs4 : t4 % 67108864 = s4 at *
  generalize hs5 : t5 % 67108864 = s5 at *
  generalize hs6 : t6 % 67108864 = s6 at *
  generalize hs7 : t7 % 67108864 = s7 at *
  generalize hs8 : t8 % 67108864 = s8 at *
  have hs0' : s0 < 67108864 := by omega
  have hs1' : s1 < 67108864 := by omega
  have hs2' : s2 < 67108864 := by omega
  have hs3' : s3 < 67108864 := by omega
  have hs4' : s4 < 67108864 := by omega
  have hs5' : s5 < 67108864 := by omega
  have hs6' : s6 < 67108864 := by omega
  have hs7' : s7 < 67108864 := by omega
  have hs8' : s8 < 67108864 := by omega
  clear hs0 hs1 hs2 hs3 hs4 hs5 hs6 hs7 hs8 e0 e1 e2 e3 e4 e5 e6 e7 e8 e9 hx hx63 h t0 t1 t2 t3 t4 t5 t6 t7 t8
  simp only [ite_and_ite]
  simp (disch := omega) only [and7_eq_mask]
  rw [Nat.mod_eq_of_lt (show s1 + 64 < 18446744073709551616 by omega),
    Nat.mod_eq_of_lt (show s0 + 977 < 18446744073709551616 by omega),
    Nat.mod_eq_of_lt (show s1 + 64 + (s0 + 977) / 67108864 < 18446744073709551616 by omega)]
  generalize hx2 : (t9 / 4194304 ||| if (t9 = 4194303 ∧ s2 = 67108863 ∧ s3 = 67108863 ∧ s4 = 67108863 ∧ s5 = 67108863 ∧ s6 = 67108863 ∧ s7 = 67108863 ∧ s8 = 67108863) ∧ 67108863 < s1 + 64 + (s0 + 977) / 67108864 then 1 else 0) = x2 at *
  have hx2' : (x2 = 1 ∧ (4194304 ≤ t9 ∨ ((t9 = 4194303 ∧ s2 = 67108863 ∧ s3 = 67108863 ∧ s4 = 67108863 ∧ s5 = 67108863 ∧ s6 = 67108863 ∧ s7 = 67108863 ∧ s8 = 67108863) ∧ 67108863 < s1 + 64 + (s0 + 977) / 67108864))) ∨
      (x2 = 0 ∧ t9 < 4194304 ∧ ¬ ((t9 = 4194303 ∧ s2 = 67108863 ∧ s3 = 67108863 ∧ s4 = 67108863 ∧ s5 = 67108863 ∧ s6 = 67108863 ∧ s7 = 67108863 ∧ s8 = 67108863) ∧ 67108863 < s1 + 64 + (s0 + 977) / 67108864)) := by
    have hq01 : t9 / 4194304 = 0 ∨ t9 / 4194304 = 1 := by omega
    split at hx2
    · rename_i hC
      rcases hq01 with hq | hq <;> rw [hq] at hx2 <;> simp only [Nat.reduceOr] at hx2 <;> omega
    · rename_i hC
      rw [Nat.or_zero] at hx2
      rcases hq01 with hq | hq
      · right; exact ⟨by omega, by omega, hC⟩
      · left; exact ⟨by omega, by omega⟩
  clear hx2
  have hx2le : x2 ≤ 1 := by omega
  generalize hu0 : (s0 + x2 * 977 % 18446744073709551616) % 18446744073709551616 % 4294967296 = u0 at *
  have f0 : u0 = s0 + x2 * 977 := by omega
  clear hu0
  generalize hu1 : ((s1 + x2 * 64 % 4294967296) % 4294967296 + u0 / 67108864) % 4294967296 = u1 at *
  have f1 : u1 = s1 + x2 * 64 + u0 / 67108864 := by omega
  clear hu1
  generalize hu2 : (s2 + u1 / 67108864) % 4294967296 = u2 at *
  have f2 : u2 = s2 + u1 / 67108864 := by omega
  clear hu2
  generalize hu3 : (s3 + u2 / 67108864) % 4294967296 = u3 at *
  have f3 : u3 = s3 + u2 / 67108864 := by omega
  clear hu3
  generalize hu4 : (s4 + u3 / 67108864) % 4294967296 = u4 at *
  have f4 : u4 = s4 + u3 / 67108864 := by omega
  clear hu4
  generalize hu5 : (s5 + u4 / 67108864) % 4294967296 = u5 at *
  have f5 : u5 = s5 + u4 / 67108864 := by omega
  clear hu5
  generalize hu6 : (s6 + u5 / 67108864) % 4294967296 = u6 at *
  have f6 : u6 = s6 + u5 / 67108864 := by omega
  clear hu6
  generalize hu7 : (s7 + u6 / 67108864) % 4294967296 = u7 at *
  have f7 : u7 = s7 + u6 / 67108864 := by omega
  clear hu7
  generalize hu8 : (s8 + u7 / 67108864) % 4294967296 = u8 at *
  have f8 : u8 = s8 + u7 / 67108864 := by omega
  clear hu8
  generalize hu9 : (t9 + u8 / 67108864) % 4294967296 = u9 at *
  have f9 : u9 = t9 + u8 / 67108864 := by omega
  clear hu9
  have hU : u0 % 67108864 + u1 % 67108864 * 67108864 + u2 % 67108864 * 4503599627370496 + u3 % 67108864 * 302231454903657293676544 + u4 % 67108864 * 20282409603651670423947251286016 + u5 % 67108864 * 1361129467683753853853498429727072845824 + u6 % 67108864 * 91343852333181432387730302044767688728495783936 + u7 % 67108864 * 6129982163463555433433388108601236734474956488734408704 + u8 % 67108864 * 411376139330301510538742295639337626245683966408394965837152256 + u9 % 4194304 * 27606985387162255149739023449108101809804435888681546220650096895197184 +
      u9 / 4194304 * 115792089237316195423570985008687907853269984665640564039457584007913129639936 =
      s0 + s1 * 67108864 + s2 * 4503599627370496 + s3 * 302231454903657293676544 + s4 * 20282409603651670423947251286016 + s5 * 1361129467683753853853498429727072845824 + s6 * 91343852333181432387730302044767688728495783936 + s7 * 6129982163463555433433388108601236734474956488734408704 + s8 * 411376139330301510538742295639337626245683966408394965837152256 + t9 * 27606985387162255149739023449108101809804435888681546220650096895197184 + x2 * 4294968273 := by omega
  have hu9b : u9 ≤ 4194303 + 65 := by omega
  generalize hv0 : u0 % 67108864 = v0 at *
  generalize hv1 : u1 % 67108864 = v1 at *
  generalize hv2 : u2 % 67108864 = v2 at *
  generalize hv3 : u3 % 67108864 = v3 at *
  generalize hv4 : u4 % 67108864 = v4 at *
  generalize hv5 : u5 % 67108864 = v5 at *
  generalize hv6 : u6 % 67108864 = v6 at *
  generalize hv7 : u7 % 67108864 = v7 at *
  generalize hv8 : u8 % 67108864 = v8 at *
  generalize hv9 : u9 % 4194304 = v9 at *
  generalize hw : u9 / 4194304 = w at *
  have hv0' : v0 < 67108864 := by omega
  have hv1' : v1 < 67108864 := by omega
  have hv2' : v2 < 67108864 := by omega
  have hv3' : v3 < 67108864 := by omega
  have hv4' : v4 < 67108864 := by omega
  have hv5' : v5 < 67108864 := by omega
  have hv6' : v6 < 67108864 := by omega
  have hv7' : v7 < 67108864 := by omega
  have hv8' : v8 < 67108864 := by omega
  have hv9' : v9 < 4194304 := by omega
  have hw' : w ≤ 1 := by omega
  clear hv0 hv1 hv2 hv3 hv4 hv5 hv6 hv7 hv8 hv9 hw f0 f1 f2 f3 f4 f5 f6 f7 f8 f9 hu9b u0 u1 u2 u3 u4 u5 u6 u7 u8 u9
  refine ⟨⟨hv0', hv1', hv2', hv3', hv4', hv5', hv6', hv7', hv8', hv9'⟩, ?_⟩
  rcases hx2' with ⟨rfl, hc⟩ | ⟨rfl, hlt, hnc⟩
  · have hw1 : w = 1 := by omega
    subst hw1
    constructor <;> omega
  · have hw0 : w = 0 := by omega
    subst hw0
    have hTlt : s0 + s1 * 67108864 + s2 * 4503599627370496 + s3 * 302231454903657293676544 + s4 * 20282409603651670423947251286016 + s5 * 1361129467683753853853498429727072845824 + s6 * 91343852333181432387730302044767688728495783936 + s7 * 6129982163463555433433388108601236734474956488734408704 + s8 * 411376139330301510538742295639337626245683966408394965837152256 + t9 * 27606985387162255149739023449108101809804435888681546220650096895197184 <
        115792089237316195423570985008687907853269984665640564039457584007908834671663 := by
      by_cases h9 : t9 = 4194303
      · by_cases h8 : s8 = 67108863
        · by_cases h7 : s7 = 67108863
          · by_cases h6 : s6 = 67108863
            · by_cases h5 : s5 = 67108863
              · by_cases h4 : s4 = 67108863
                · by_cases h3 : s3 = 67108863
                  · by_cases h2 : s2 = 67108863
                    · have hn : ¬ (67108863 < s1 + 64 + (s0 + 977) / 67108864) :=
                        fun hh => hnc ⟨⟨h9, h2, h3, h4, h5, h6, h7, h8⟩, hh⟩
                      clear hnc; omega
                    · clear hnc; omega
                  · clear hnc; omega
                · clear hnc; omega
              · clear hnc; omega
            · clear hnc; omega
          · clear hnc; omega
        · clear hnc; omega
      · clear hnc; omega
    clear hnc
    constructor <;> omega

/-! ### the invariants -/

/-- limb `i` is at most `2 m p_i`, where `p = Σ p_i 2^(26 i)`: `p_0 = 2^26-977`, `p_1 = 2^26-65`,
    `p_2..p_8 = 2^26-1`, `p_9 = 2^22-1` -/
def Tight10 (env : Env) (a : String) (m : Nat) : Prop :=
  env.get a 0 ≤ 2 * m * (2 ^ 26 - 977) ∧ env.get a 1 ≤ 2 * m * (2 ^ 26 - 65) ∧ env.get a 2 ≤ 2 * m * (2 ^ 26 - 1) ∧
  env.get a 3 ≤ 2 * m * (2 ^ 26 - 1) ∧ env.get a 4 ≤ 2 * m * (2 ^ 26 - 1) ∧ env.get a 5 ≤ 2 * m * (2 ^ 26 - 1) ∧
  env.get a 6 ≤ 2 * m * (2 ^ 26 - 1) ∧ env.get a 7 ≤ 2 * m * (2 ^ 26 - 1) ∧ env.get a 8 ≤ 2 * m * (2 ^ 26 - 1) ∧
  env.get a 9 ≤ 2 * m * (2 ^ 22 - 1)

instance (env : Env) (a : String) (m : Nat) : Decidable (Tight10 env a m) := inferInstanceAs (Decidable (_ ∧ _))

/-- magnitude `m` and two joint bounds on limbs 0, 1, 9 (scaled by `p_9 = 2^22-1` to stay in the integers):
    `n0 + 977 n9 / p_9 ≤ m 2^27` and `n0 + 2^26 n1 + (2^32+977) n9 / p_9 ≤ m 2^53` -/
def Inv10 (env : Env) (a : String) (m : Nat) : Prop :=
  Mag10 env a m ∧
  (2 ^ 22 - 1) * env.get a 0 + 977 * env.get a 9 ≤ m * (2 ^ 27 * (2 ^ 22 - 1)) ∧
  (2 ^ 22 - 1) * (env.get a 0 + 2 ^ 26 * env.get a 1) + (2 ^ 32 + 977) * env.get a 9 ≤ m * (2 ^ 53 * (2 ^ 22 - 1))

instance (env : Env) (a : String) (m : Nat) : Decidable (Inv10 env a m) := inferInstanceAs (Decidable (_ ∧ _))

theorem mag10_of_tight10 {env : Env} {a : String} {m : Nat} (h : Tight10 env a m) : Mag10 env a m := by
  simp only [Tight10, Mag10, Nat.reducePow, Nat.reduceSub] at h ⊢
  obtain ⟨h0, h1, h2, h3, h4, h5, h6, h7, h8, h9⟩ := h
  exact ⟨Nat.le_trans h0 (Nat.mul_le_mul_left _ (by decide)), Nat.le_trans h1 (Nat.mul_le_mul_left _ (by decide)),
    h2, h3, h4, h5, h6, h7, h8, h9⟩

theorem inv10_of_tight10 {env : Env} {a : String} {m : Nat} (h : Tight10 env a m) : Inv10 env a m := by
  refine ⟨mag10_of_tight10 h, ?_⟩
  simp only [Tight10, Nat.reducePow, Nat.reduceSub, Nat.reduceMul] at h ⊢
  omega

theorem normPre10_of_tight10 {env : Env} {a : String} (h : Tight10 env a 32) : NormPre10 env a := by
  refine ⟨mag10_of_tight10 h, ?_⟩
  simp only [Tight10, Nat.reducePow, Nat.reduceSub, Nat.reduceMul] at h ⊢
  omega

theorem noOvf10_of_inv10 {env : Env} {a : String} (h : Inv10 env a 32) : NoOvf10 env a := by
  simp only [Inv10, NoOvf10, Mag10, Nat.reducePow, Nat.reduceSub, Nat.reduceMul] at h ⊢
  omega

/-- fully reduced limbs are `Tight10 · 1` -/
theorem tight10_of_red10 {env : Env} {a : String} (h : Red10 env a) : Tight10 env a 1 := by
  simp only [Tight10, Red10, Nat.reducePow, Nat.reduceSub, Nat.reduceMul] at h ⊢
  omega

/-! ### key lemmas on `runW` -/

/-- `negate` (10×26): the output limbs are `2 (m+1) p_i - a_i`, hence `Tight10 (m+1)`, for ANY `a` of magnitude `m` -/
theorem fe_negate_10x26_tight_key (env : Env) (hm : env.get "m" 0 ≤ 31) (ha : Mag10 env "a.n" (env.get "m" 0)) :
    Tight10 (runW env Gen.field10x26.fe_negate.body) "r.n" (env.get "m" 0 + 1) := by
  simp only [Mag10, Tight10] at ha ⊢
  simp only [Gen.field10x26.fe_negate]
  minic_evalW
  generalize env.get "m" 0 = m at *
  simp only [Nat.reducePow, Nat.reduceSub] at ha ⊢
  simp (disch := omega) only [sext32]
  rw [Nat.mod_eq_of_lt (show m + 1 < 4294967296 by omega)]
  simp (disch := omega) only [sub64]
  omega

set_option maxRecDepth 100000 in
/-- `half` (10×26) preserves the joint bounds of `Inv10` (with the documented magnitude `⌊m/2⌋ + 1`) -/
theorem fe_half_10x26_inv_key (env : Env) (m : Nat) (hm : m ≤ 31) (h : Inv10 env "r.n" m) :
    Inv10 (runW env Gen.field10x26.fe_half.body) "r.n" (m / 2 + 1) := by
  refine ⟨(fe_half_10x26_key env m hm h.1).2, ?_⟩
  simp only [Inv10, Mag10] at h ⊢
  simp only [Gen.field10x26.fe_half]
  minic_evalW
  generalize env.get "r.n" 0 = r0 at *
  generalize env.get "r.n" 1 = r1 at *
  generalize env.get "r.n" 2 = r2 at *
  generalize env.get "r.n" 3 = r3 at *
  generalize env.get "r.n" 4 = r4 at *
  generalize env.get "r.n" 5 = r5 at *
  generalize env.get "r.n" 6 = r6 at *
  generalize env.get "r.n" 7 = r7 at *
  generalize env.get "r.n" 8 = r8 at *
  generalize env.get "r.n" 9 = r9 at *
  simp only [Nat.and_one_is_mod]
  rcases Nat.mod_two_eq_zero_or_one r0 with h0 | h0
  · simp only [h0, Nat.reducePow, Nat.reduceMod, Nat.reduceSub, Nat.reduceDiv, Nat.reduceAnd] at h ⊢
    simp (disch := omega) only [Nat.mod_eq_of_lt]
    constructor <;> omega
  · simp only [h0, Nat.reducePow, Nat.reduceMod, Nat.reduceSub, Nat.reduceDiv, Nat.reduceAnd] at h ⊢
    simp (disch := omega) only [Nat.mod_eq_of_lt]
    constructor <;> omega

set_option maxRecDepth 100000 in
/-- what `half` (10×26) does to a `Tight10` input: limbs 2..9 stay tight, limbs 0 and 1 may exceed the tight bound of
    the documented output magnitude by at most 488 resp. 32 (attained for odd `m`: `fe_half_10x26_not_tight`) -/
theorem fe_half_10x26_tight_slack_key (env : Env) (m : Nat) (hm : m ≤ 31) (h : Tight10 env "r.n" m) :
    (runW env Gen.field10x26.fe_half.body).get "r.n" 0 ≤ 2 * (m / 2 + 1) * (2 ^ 26 - 977) + 488 ∧
    (runW env Gen.field10x26.fe_half.body).get "r.n" 1 ≤ 2 * (m / 2 + 1) * (2 ^ 26 - 65) + 32 ∧
    (runW env Gen.field10x26.fe_half.body).get "r.n" 2 ≤ 2 * (m / 2 + 1) * (2 ^ 26 - 1) ∧
    (runW env Gen.field10x26.fe_half.body).get "r.n" 3 ≤ 2 * (m / 2 + 1) * (2 ^ 26 - 1) ∧
    (runW env Gen.field10x26.fe_half.body).get "r.n" 4 ≤ 2 * (m / 2 + 1) * (2 ^ 26 - 1) ∧
    (runW env Gen.field10x26.fe_half.body).get "r.n" 5 ≤ 2 * (m / 2 + 1) * (2 ^ 26 - 1) ∧
    (runW env Gen.field10x26.fe_half.body).get "r.n" 6 ≤ 2 * (m / 2 + 1) * (2 ^ 26 - 1) ∧
    (runW env Gen.field10x26.fe_half.body).get "r.n" 7 ≤ 2 * (m / 2 + 1) * (2 ^ 26 - 1) ∧
    (runW env Gen.field10x26.fe_half.body).get "r.n" 8 ≤ 2 * (m / 2 + 1) * (2 ^ 26 - 1) ∧
    (runW env Gen.field10x26.fe_half.body).get "r.n" 9 ≤ 2 * (m / 2 + 1) * (2 ^ 22 - 1) := by
  simp only [Tight10] at h
  simp only [Gen.field10x26.fe_half]
  minic_evalW
  generalize env.get "r.n" 0 = r0 at *
  generalize env.get "r.n" 1 = r1 at *
  generalize env.get "r.n" 2 = r2 at *
  generalize env.get "r.n" 3 = r3 at *
  generalize env.get "r.n" 4 = r4 at *
  generalize env.get "r.n" 5 = r5 at *
  generalize env.get "r.n" 6 = r6 at *
  generalize env.get "r.n" 7 = r7 at *
  generalize env.get "r.n" 8 = r8 at *
  generalize env.get "r.n" 9 = r9 at *
  simp only [Nat.and_one_is_mod]
  rcases Nat.mod_two_eq_zero_or_one r0 with h0 | h0
  · simp only [h0, Nat.reducePow, Nat.reduceMod, Nat.reduceSub, Nat.reduceDiv, Nat.reduceAnd] at h ⊢
    simp (disch := omega) only [Nat.mod_eq_of_lt]
    refine ⟨?_, ?_, ?_, ?_, ?_, ?_, ?_, ?_, ?_, ?_⟩ <;> omega
  · simp only [h0, Nat.reducePow, Nat.reduceMod, Nat.reduceSub, Nat.reduceDiv, Nat.reduceAnd] at h ⊢
    simp (disch := omega) only [Nat.mod_eq_of_lt]
    refine ⟨?_, ?_, ?_, ?_, ?_, ?_, ?_, ?_, ?_, ?_⟩ <;> omega

end FieldLinear
end SecpZkp
